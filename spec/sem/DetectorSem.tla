----------------------------- MODULE DetectorSem -----------------------------
(***************************************************************************)
(* Layer A (EXT/detector): reference semantics of the detector classes of  *)
(* odl/tomo/geometry/detector.py, of flying_focal_spot and of the          *)
(* det_radius of ParallelHoleCollimatorGeometry, written from the          *)
(* DOCSTRINGS, not from the code.  Exact arithmetic on rationals:          *)
(*   scalar Q = <<n, d>>; vector = tuple of Q; matrix = tuple of rows      *)
(*   detector parameter  p = [q, c, s]: flat directions use the length q,  *)
(*            angular directions the angle atan2(s, c) with a rational     *)
(*            point (c, s) of the unit circle (3-4-5, 5-12-13 families)    *)
(*   detector descriptor d = [cls, ax, r, lo, hi, cb]                      *)
(*       cls  "flat1" | "flat2" | "circ" | "cyl" | "sph"                   *)
(*       ax   the axis / axes AS GIVEN (any length with a rational norm)   *)
(*       r    curvature radius (curved classes)                            *)
(*       lo, hi  corners of the partition set, one parameter per dimension *)
(*       cb   check_bounds                                                 *)
(*   query  q = [m, sh, v]: method "surface" | "deriv" | "normal" |        *)
(*       "measure"; sh = one array shape per parameter dimension (<<>> = a *)
(*       single number); v = per dimension the flat C-order parameters     *)
(* The vector algebra and the NumPy broadcasting index arithmetic of       *)
(* GeomSem / RotSem are reused.                                            *)
(***************************************************************************)
EXTENDS RotSem

(* ------------- arithmetic that keeps intermediate integers small -------- *)
\* product with cross-cancellation: no intermediate exceeds the reduced result
DMul(p, q) ==
  IF p[1] = 0 \/ q[1] = 0 THEN QZero
  ELSE LET g1 == Gcd(Abs(p[1]), q[2])
           g2 == Gcd(Abs(q[1]), p[2])
       IN  << (p[1] \div g1) * (q[1] \div g2), (p[2] \div g2) * (q[2] \div g1) >>
DScale(a, v) == Tup(Len(v), LAMBDA i : DMul(a, v[i]))
RECURSIVE DDotFrom(_, _, _)
DDotFrom(u, v, i) == IF i > Len(u) THEN QZero ELSE QAddL(DMul(u[i], v[i]), DDotFrom(u, v, i + 1))
DDot(u, v)   == DDotFrom(u, v, 1)
DCross(u, v) == << QSubL(DMul(u[2], v[3]), DMul(u[3], v[2])),
                   QSubL(DMul(u[3], v[1]), DMul(u[1], v[3])),
                   QSubL(DMul(u[1], v[2]), DMul(u[2], v[1])) >>
DMatVec(M, v) == Tup(Len(M), LAMBDA i : DDot(M[i], v))
Lcm(a, b) == (a \div Gcd(a, b)) * b
RECURSIVE LcmDen(_, _)
LcmDen(v, i) == IF i > Len(v) THEN 1 ELSE Lcm(v[i][2], LcmDen(v, i + 1))
RECURSIVE GcdNum(_, _)
GcdNum(w, i) == IF i > Len(w) THEN 0 ELSE Gcd(Abs(w[i]), GcdNum(w, i + 1))
RECURSIVE SumSq(_, _)
SumSq(w, i) == IF i > Len(w) THEN 0 ELSE w[i] * w[i] + SumSq(w, i + 1)
\* integer square root by bisection (ExactNum!ISqrt counts up from 0)
RECURSIVE ISqrtB(_, _, _)
ISqrtB(n, lo, hi) == IF hi - lo <= 1 THEN lo
                     ELSE LET mid == (lo + hi) \div 2 IN IF mid * mid <= n THEN ISqrtB(n, mid, hi) ELSE ISqrtB(n, lo, mid)
DISqrt(n) == ISqrtB(n, 0, Min2(n, 46340) + 1)
\* Euclidean norm of a rational vector: scale to the primitive integer vector first.  OFFQ if irrational.
DNorm(v) ==
  LET L == LcmDen(v, 1)
      w == [i \in 1..Len(v) |-> v[i][1] * (L \div v[i][2])]
      g == GcdNum(w, 1)
  IN  IF g = 0 THEN QZero
      ELSE LET n2 == SumSq([i \in 1..Len(v) |-> w[i] \div g], 1)
           IN  LET r == DISqrt(n2) IN IF r * r = n2 THEN Q(g * r, L) ELSE OFFQ
DUnit(v) == DScale(QInv(DNorm(v)), v)

(* ------------------------------ descriptors ---------------------------- *)
NDimOf(cls)   == IF cls \in {"flat1", "circ"} THEN 1 ELSE 2
SpaceDim(cls) == NDimOf(cls) + 1
Curved(cls)   == cls \in {"circ", "cyl", "sph"}
Angular(cls, j) == (cls \in {"circ", "cyl"} /\ j = 1) \/ cls = "sph"
PZero == [q |-> QZero, c |-> QOne, s |-> QZero]                  \* the parameter 0 in both readings
PLen(x) == [q |-> x, c |-> QOne, s |-> QZero]
PAng(c, s) == [q |-> QZero, c |-> c, s |-> s]
\* a key that is strictly increasing in the angle on (-pi, pi]
AngKey(p) == IF QLe(QZero, p.c) THEN p.s
             ELSE IF QLe(QZero, p.s) THEN QSubL(QI(2), p.s) ELSE QSubL(QI(-2), p.s)
PKey(cls, j, p) == IF Angular(cls, j) THEN AngKey(p) ELSE p.q
\* "params: surface parameter set" = partition.set, a closed interval product
InBounds(d, pt) ==
  \A j \in 1..NDimOf(d.cls) : QLe(PKey(d.cls, j, d.lo[j]), PKey(d.cls, j, pt[j]))
                              /\ QLe(PKey(d.cls, j, pt[j]), PKey(d.cls, j, d.hi[j]))

\* documented preconditions of the constructors: "axis cannot be zero"; 2-d: "The vectors must have shape (3,) and
\* be linearly independent" (flat), "... and be perpendicular" (cylindrical, spherical); radius positive
AxesOK(d) ==
  /\ Len(d.ax) = NDimOf(d.cls)
  /\ \A i \in 1..Len(d.ax) : Len(d.ax[i]) = SpaceDim(d.cls) /\ d.ax[i] # GZeroV(SpaceDim(d.cls))
  /\ NDimOf(d.cls) = 2 => DCross(d.ax[1], d.ax[2]) # GZeroV(3)
  /\ d.cls \in {"cyl", "sph"} => DDot(d.ax[1], d.ax[2]) = QZero
  /\ Curved(d.cls) => QLt(QZero, d.r)
\* the lattice carries the scenario: every given axis has a rational length
OnLattice(d) == \A i \in 1..Len(d.ax) : DNorm(d.ax[i]) # OFFQ
\* "axis / axes: fixed (array of) unit vector(s) with which the detector is aligned"
UnitAxes(d) == Tup(Len(d.ax), LAMBDA i : DUnit(d.ax[i]))

(* ------------------------- documented rotation ------------------------- *)
\* curved detectors: "the circular section / cylindrical / spherical surface that corresponds to the partition is
\* rotated to be aligned with the given axis / axes and shifted to cross the origin", formulas
\*    circ  surf = R * radius * (cos phi, -sin phi) + t
\*    cyl   surf = R * (radius cos phi, -radius sin phi, h) + t
\*    sph   surf = R * radius * (cos phi cos theta, -sin phi cos theta, sin theta) + t
\* aligned: the tangent at parameter 0 along the first parameter is radius * axis / axes[0] (docstring examples:
\* surface_deriv(0) = [2, 0] for axis [1, 0], radius 2), the tangent along the second parameter is along axes[1]
\* ("by analogy to flat detectors").  The unrotated tangents at 0 are (0, -r) / (0, -r, 0) and (0, 0, 1), so R is THE
\* rotation with R (0, -1[, 0]) = a1 and R (0, 0, 1) = a2, hence R e_x = (-a1) x a2 = a2 x a1.
\* "shifted to cross the origin": surf(0) = 0, i.e. t = -radius * R e_x.
DocRot(cls, a) ==
  IF cls = "circ" THEN << <<QNeg(a[1][2]), QNeg(a[1][1])>>, <<a[1][1], QNeg(a[1][2])>> >>
  ELSE LET ex == DCross(a[2], a[1])
       IN  Tup(3, LAMBDA i : << ex[i], QNeg(a[1][i]), a[2][i] >>)
DocShift(cls, a, r) ==
  LET R == DocRot(cls, a) IN GNeg(DScale(r, MCol(R, 1)))

(* --------------------- point evaluation, given R and t ------------------ *)
\* R, t are parameters so that layer C can plug in the rotation the code computes
SurfRT(d, a, R, t, pt) ==
  LET cls == d.cls  r == d.r IN
  CASE cls = "flat1" -> DScale(pt[1].q, a[1])                                           \* surf = p * axis
    [] cls = "flat2" -> GAdd(DScale(pt[1].q, a[1]), DScale(pt[2].q, a[2]))               \* p[0] axes[0] + p[1] axes[1]
    [] cls = "circ"  -> GAdd(DMatVec(R, << DMul(r, pt[1].c), QNeg(DMul(r, pt[1].s)) >>), t)
    [] cls = "cyl"   -> GAdd(DMatVec(R, << DMul(r, pt[1].c), QNeg(DMul(r, pt[1].s)), pt[2].q >>), t)
    [] cls = "sph"   -> GAdd(DMatVec(R, DScale(r, << DMul(pt[1].c, pt[2].c), QNeg(DMul(pt[1].s, pt[2].c)), pt[2].s >>)), t)
\* tangents: sequence of NDim vectors
DerivRT(d, a, R, pt) ==
  LET cls == d.cls  r == d.r IN
  CASE cls = "flat1" -> << a[1] >>                                                       \* "evaluating to axis everywhere"
    [] cls = "flat2" -> << a[1], a[2] >>
    [] cls = "circ"  -> << DMatVec(R, DScale(r, << QNeg(pt[1].s), QNeg(pt[1].c) >>)) >>   \* R radius (-sin, -cos)
    [] cls = "cyl"   -> << DMatVec(R, DScale(r, << QNeg(pt[1].s), QNeg(pt[1].c), QZero >>)),
                           DMatVec(R, << QZero, QZero, QOne >>) >>
    [] cls = "sph"   -> << DMatVec(R, DScale(r, << QNeg(DMul(pt[1].s, pt[2].c)), QNeg(DMul(pt[1].c, pt[2].c)), QZero >>)),
                           DMatVec(R, DScale(r, << QNeg(DMul(pt[1].c, pt[2].s)), DMul(pt[1].s, pt[2].s), pt[2].c >>)) >>
\* surface_measure: "for ndim 1 the arc length (norm of the derivative), for ndim 2 the length of the cross product of
\* the partial derivatives"
MeasureOf(tg) == IF Len(tg) = 1 THEN DNorm(tg[1]) ELSE DNorm(DCross(tg[1], tg[2]))
\* surface_normal: "unit vector perpendicular to the detector surface; in 2D the system (normal, tangent) should be
\* right-handed, in 3D the system (tangent[0], tangent[1], normal)"
NormalOf(tg) ==
  IF Len(tg) = 1 THEN DScale(QInv(DNorm(tg[1])), << tg[1][2], QNeg(tg[1][1]) >>)
  ELSE LET c == DCross(tg[1], tg[2]) IN DScale(QInv(DNorm(c)), c)

\* the frame of a detector, computed once: unit axes, documented rotation and shift
FrameOf(d) == LET a == UnitAxes(d) IN
              [a |-> a, R |-> IF Curved(d.cls) THEN DocRot(d.cls, a) ELSE <<>>,
               t |-> IF Curved(d.cls) THEN DocShift(d.cls, a, d.r) ELSE <<>>]
\* flat C-order value of one method at one point in the frame f
PointValF(d, f, m, pt) ==
  CASE m = "surface" -> SurfRT(d, f.a, f.R, f.t, pt)
    [] m = "deriv"   -> LET tg == DerivRT(d, f.a, f.R, pt) IN IF Len(tg) = 1 THEN tg[1] ELSE tg[1] \o tg[2]
    [] m = "normal"  -> NormalOf(DerivRT(d, f.a, f.R, pt))
    [] m = "measure" -> << MeasureOf(DerivRT(d, f.a, f.R, pt)) >>
\* the surface has a normal / a rational measure at pt (poles of the sphere and irrational lengths decide nothing)
RegularF(d, f, pt) == LET m == MeasureOf(DerivRT(d, f.a, f.R, pt)) IN m # OFFQ /\ m # QZero

Surf(d, pt)    == LET f == FrameOf(d) IN SurfRT(d, f.a, f.R, f.t, pt)
Deriv(d, pt)   == LET f == FrameOf(d) IN DerivRT(d, f.a, f.R, pt)
Measure(d, pt) == MeasureOf(Deriv(d, pt))
DNormal(d, pt) == NormalOf(Deriv(d, pt))
Regular(d, pt) == RegularF(d, FrameOf(d), pt)
PointVal(d, m, pt) == PointValF(d, FrameOf(d), m, pt)
\* documented trailing shape: surface "(2,)" / "(3,)"; deriv "(2,)" (1-d), "(2, 3)" (2-d: "the first dimension enumerates
\* the axes" resp. the docstring examples of the curved classes); normal "(space_ndim,)"; measure a float
TailShape(cls, m) ==
  CASE m = "surface" -> << SpaceDim(cls) >>
    [] m = "deriv"   -> IF NDimOf(cls) = 1 THEN <<2>> ELSE <<2, 3>>
    [] m = "normal"  -> << SpaceDim(cls) >>
    [] m = "measure" -> <<>>

(* ------------------------ vectorised evaluation ------------------------- *)
\* documented: single parameter -> the trailing shape; otherwise "param.shape + tail" (1-d detectors),
\* "broadcast(*param).shape + tail" (2-d detectors); entry k is the value at the k-th broadcast parameter
QShape(q) == BcastAll(q.sh)
QPoint(q, k, bsh) == [j \in 1..Len(q.sh) |-> q.v[j][SrcIndex(k, bsh, q.sh[j]) + 1]]
RECURSIVE StackFrom(_, _, _, _, _, _)
StackFrom(d, f, q, bsh, k, n) ==
  IF k >= n THEN <<>> ELSE PointValF(d, f, q.m, QPoint(q, k, bsh)) \o StackFrom(d, f, q, bsh, k + 1, n)
\* [k |-> "any"]  the documentation makes no demand (shapes that do not broadcast, irregular points)
\* [k |-> "err"]  check_bounds is on and a parameter lies outside params: "methods computing vectors check input arguments"
\* [k |-> "ok", sh, v]
Expected(d, q) ==
  LET bsh == QShape(q) IN
  IF bsh = <<-1>> THEN [k |-> "any"]
  ELSE LET n == Prod(bsh)
           f == FrameOf(d)
       IN  IF d.cb /\ \E k \in 0..(n - 1) : ~InBounds(d, QPoint(q, k, bsh)) THEN [k |-> "err"]
           ELSE IF q.m \in {"normal", "measure"} /\ \E k \in 0..(n - 1) : ~RegularF(d, f, QPoint(q, k, bsh)) THEN [k |-> "any"]
           ELSE [k |-> "ok", sh |-> bsh \o TailShape(d.cls, q.m), v |-> StackFrom(d, f, q, bsh, 0, n)]

(* ------------------------------- laws ----------------------------------- *)
\* theorems of the documented semantics, checked by TLC on the bounded catalogue
TripleProd(u, v, w) == DDot(DCross(u, v), w)
PointLaws(d, pt) ==
  LET f == FrameOf(d)  tg == DerivRT(d, f.a, f.R, pt)  ms == MeasureOf(tg)  n == NormalOf(tg) IN
  (ms # OFFQ /\ ms # QZero) =>
    /\ \A i \in 1..Len(tg) : DDot(tg[i], n) = QZero                       \* tangent-normal orthogonality
    /\ DDot(n, n) = QOne                                                   \* unit normal
    /\ IF Len(tg) = 1 THEN QLt(QZero, QSubL(DMul(n[1], tg[1][2]), DMul(n[2], tg[1][1])))     \* (normal, tangent) right-handed
       ELSE QLt(QZero, TripleProd(tg[1], tg[2], n))                                          \* (t0, t1, normal) right-handed
    \* closed forms the docstrings state: circular "constant function evaluating to radius everywhere"
    /\ d.cls = "circ" => ms = d.r
    /\ d.cls = "flat1" => ms = QOne
    /\ d.cls = "cyl" => ms = d.r
    /\ d.cls = "sph" => ms = DMul(DMul(d.r, d.r), QAbs(pt[2].c))
DetLaws(d) ==
  LET z == [j \in 1..NDimOf(d.cls) |-> PZero]  a == UnitAxes(d) IN
  /\ Surf(d, z) = GZeroV(SpaceDim(d.cls))                                  \* crosses the origin
  /\ \A i \in 1..Len(a) : DDot(a[i], a[i]) = QOne
  /\ Curved(d.cls) =>
       /\ IsRotation(DocRot(d.cls, a))
       /\ Deriv(d, z)[1] = DScale(d.r, a[1])                               \* aligned with the axis
       /\ d.cls = "cyl" => Deriv(d, z)[2] = a[2]
       /\ d.cls = "sph" => Deriv(d, z)[2] = DScale(d.r, a[2])
\* every surface point of a curved detector has distance radius from the centre t (circle / cylinder axis / sphere)
OnCurve(d, pt) ==
  Curved(d.cls) =>
    LET a == UnitAxes(d)  t == DocShift(d.cls, a, d.r)  w == GSub(Surf(d, pt), t)
        w2 == IF d.cls = "cyl" THEN GSub(w, DScale(DDot(w, a[2]), a[2])) ELSE w
    IN  DDot(w2, w2) = DMul(d.r, d.r)

(* --------------------------- flying focal spot -------------------------- *)
\* "Shifts are defined only for grid points of the angular partition. For all other angles nearest neighbor
\* interpolation is used.  Each vector in the sequence represents a subsequent shift": grid point i carries
\* shifts[i mod k]; idx = the (0-based) index of the grid point nearest to each angle.
FFS(idx, shifts) == [j \in 1..Len(idx) |-> shifts[(idx[j] % Len(shifts)) + 1]]
=============================================================================

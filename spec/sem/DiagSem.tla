------------------------------- MODULE DiagSem -------------------------------
(***************************************************************************)
(* Layer A (extension EXT/diag): reference semantics of ODL's own          *)
(* diagnostics and test utilities, written from their DOCUMENTATION        *)
(* (docstrings of odl/diagnostics/operator.py, space.py, examples.py and   *)
(* odl/util/testutils.py), on exact rationals.                              *)
(*                                                                         *)
(* A diagnostic is a decision procedure: "reports a failure for a sample   *)
(* tuple IFF the documented error of that tuple exceeds the tolerance".    *)
(* The documented error formulas are the `err_msg` strings / docstrings:   *)
(*   adjoint      |<Ax,y> - <x,A'y>| / (||A|| ||x|| ||y||)                 *)
(*   self_adjoint |<Ax,y> - <x,Ay>|   / (||A|| ||x|| ||y||)                 *)
(*   adj-of-adj   ||Ax - A''x||   / (||A|| ||x||)                       *)
(*   scale        ||A(cx) - cA(x)||   / (|c| ||A|| ||x||)                   *)
(*   sum          ||A(x+y)-A(x)-A(y)||/ (||A|| (||x|| + ||y||))             *)
(*   derivative   ||A(x+cp)-A(x)-A'(x)(cp)|| / c = o(c)   (limit c -> 0)   *)
(* and the number printed in "*** FAILED n TEST CASE(S) ***" is the number *)
(* of sample tuples (odl.diagnostics.examples.samples = product of the     *)
(* `examples` of the sets) whose error exceeds the tolerance.  A tuple with *)
(* a zero denominator has no documented error: it never counts.            *)
(*                                                                         *)
(* Objects under test are small exact operators on Q^2 with a PLANTED      *)
(* defect (record fields below) and toy spaces over Q^2 (second part).     *)
(***************************************************************************)
EXTENDS ExactNum, TLC

NoneD == -1                     \* "ndigits=None" / "default=None"

\* addition over the least common denominator (ExactNum!QAdd multiplies the denominators: 32-bit overflow)
QAddE(p, q) == IF p[2] = q[2] THEN QNorm(p[1] + q[1], p[2])
               ELSE LET g == Gcd(p[2], q[2]) IN QNorm(p[1] * (q[2] \div g) + q[1] * (p[2] \div g), (p[2] \div g) * q[2])
QSubE(p, q) == QAddE(p, QNeg(q))
(* ------------------------------ vectors -------------------------------- *)
\* all vectors are 2-vectors, written as explicit tuples (TLC keeps [i \in S |-> e] lazy and re-evaluates e on every access)
QV(v)       == << QI(v[1]), QI(v[2]) >>
VAdd(x, y)  == << QAddE(x[1], y[1]), QAddE(x[2], y[2]) >>
VSub(x, y)  == << QSubE(x[1], y[1]), QSubE(x[2], y[2]) >>
VScal(c, x) == << QMul(c, x[1]), QMul(c, x[2]) >>
VMulP(x, y) == << QMul(x[1], y[1]), QMul(x[2], y[2]) >>
VAbs(x)     == << QAbs(x[1]), QAbs(x[2]) >>
Dot(x, y)   == QAddE(QMul(x[1], y[1]), QMul(x[2], y[2]))
N2(x)       == Dot(x, x)
RatNorm(x)  == QIsSquare(N2(x))
NrmG(x)     == IF x[2] = QZero THEN QAbs(x[1]) ELSE IF x[1] = QZero THEN QAbs(x[2])
               ELSE IF RatNorm(x) THEN QSqrt(N2(x)) ELSE Assert(FALSE, <<"irrational norm: choose other exact data", x>>)
Nrm(x)      == NrmG(x)
MatVec(M, x) == << Dot(M[1], x), Dot(M[2], x) >>
Transp(M)   == << << M[1][1], M[2][1] >>, << M[1][2], M[2][2] >> >>
MAdd(A, B)  == << VAdd(A[1], B[1]), VAdd(A[2], B[2]) >>
QM(M)       == << QV(M[1]), QV(M[2]) >>
ZeroV(n)    == << QZero, QZero >>
IsZeroV(x)  == x[1] = QZero /\ x[2] = QZero

(* ========================= OperatorTest ================================= *)
(* op: [kind  "lin" | "aff" | "abs" | "quad",   A(x) = Mx | Mx+b | M|x| | Mx + q(x1^2, x1 x2)                       *)
(*      M, b, q, flag (the is_linear flag the operator declares),                                                 *)
(*      adj     matrix applied by .adjoint (planted; correct = Transp(M)),                                        *)
(*      adjadj  "self" (.adjoint.adjoint IS the operator) | "mat" (a fresh operator applying AA),  AA,            *)
(*      adjdom  "ok" | "dom" | "ran" | "both"  (A.domain # A'.range / A.range # A'.domain),                      *)
(*      dJ      matrix added to the true Jacobian by .derivative(x) (planted),                                    *)
(*      ex      sequence of [n |-> name, v |-> vector]: the `examples` of domain = range ]                         *)
FieldEx == << Q(-1, 1), Q(1, 2), QZero, Q(1, 100), QOne >>      \* RealNumbers().examples

Apply(op, x) ==
  CASE op.kind = "lin"  -> MatVec(op.M, x)
    [] op.kind = "aff"  -> VAdd(MatVec(op.M, x), op.b)
    [] op.kind = "abs"  -> MatVec(op.M, VAbs(x))
    [] op.kind = "quad" -> VAdd(MatVec(op.M, x), VScal(op.q, << QMul(x[1], x[1]), QMul(x[1], x[2]) >>))
TrueJac(op, x) ==
  IF op.kind = "quad"
    THEN MAdd(op.M, << VScal(op.q, << QMul(QI(2), x[1]), QZero >>), VScal(op.q, << x[2], x[1] >>) >>)
    ELSE op.M

ExI(op) == 1..Len(op.ex)
Over(num, den, tol)   == den # QZero /\ QLt(QMul(tol, den), num)                 \* num / den > tol
Over2(num2, den, tol) == den # QZero /\ QLt(QSq(QMul(tol, den)), num2)           \* sqrt(num2) / den > tol
\* "never near the tolerance": the ratio error / tol is 0, <= 1/4 or >= 4 (squared: 1/16, 16)
Far(num, den, tol)   == den = QZero \/ num = QZero \/ QLe(QMul(QI(4), num), QMul(tol, den)) \/ QLe(QMul(QI(4), QMul(tol, den)), num)
Far2(num2, den, tol) == den = QZero \/ num2 = QZero \/ QLe(QMul(QI(16), num2), QSq(QMul(tol, den)))
                        \/ QLe(QMul(QI(16), QSq(QMul(tol, den))), num2)

\* <Ax,y> against <x, R y> with R = planted adjoint ("adj") or A itself ("self")
AdjRight(op, mode, y) == IF mode = "adj" THEN MatVec(op.adj, y) ELSE Apply(op, y)
AdjNum(op, mode, x, y) == QAbs(QSubE(Dot(Apply(op, x), y), Dot(x, AdjRight(op, mode, y))))
AdjDen(N, x, y) == QMul(N, QMul(Nrm(x), Nrm(y)))
AdjFails(op, mode, N, tol) ==
  {p \in ExI(op) \X ExI(op) : Over(AdjNum(op, mode, op.ex[p[1]].v, op.ex[p[2]].v), AdjDen(N, op.ex[p[1]].v, op.ex[p[2]].v), tol)}
AdjFar(op, mode, N, tol) ==
  \A p \in ExI(op) \X ExI(op) : Far(AdjNum(op, mode, op.ex[p[1]].v, op.ex[p[2]].v), AdjDen(N, op.ex[p[1]].v, op.ex[p[2]].v), tol)

AANum(op, x) == NrmG(VSub(Apply(op, x), MatVec(op.AA, x)))
AAFails(op, N, tol) == {i \in ExI(op) : Over(AANum(op, op.ex[i].v), QMul(N, Nrm(op.ex[i].v)), tol)}
AAFar(op, N, tol) == \A i \in ExI(op) : Far(AANum(op, op.ex[i].v), QMul(N, Nrm(op.ex[i].v)), tol)

FI == 1..Len(FieldEx)
ScaleNum(op, x, c) == NrmG(VSub(Apply(op, VScal(c, x)), VScal(c, Apply(op, x))))
ScaleDen(N, x, c) == QMul(QAbs(c), QMul(N, Nrm(x)))                              \* documented: |c| ||A|| ||x||
ScaleFails(op, N, tol) ==
  {p \in ExI(op) \X FI : Over(ScaleNum(op, op.ex[p[1]].v, FieldEx[p[2]]), ScaleDen(N, op.ex[p[1]].v, FieldEx[p[2]]), tol)}
ScaleFar(op, N, tol) ==
  \A p \in ExI(op) \X FI : Far(ScaleNum(op, op.ex[p[1]].v, FieldEx[p[2]]), ScaleDen(N, op.ex[p[1]].v, FieldEx[p[2]]), tol)

SumNum(op, x, y) == NrmG(VSub(VSub(Apply(op, VAdd(x, y)), Apply(op, x)), Apply(op, y)))
SumDen(N, x, y) == QMul(N, QAddE(Nrm(x), Nrm(y)))
SumFails(op, N, tol) ==
  {p \in ExI(op) \X ExI(op) : Over(SumNum(op, op.ex[p[1]].v, op.ex[p[2]].v), SumDen(N, op.ex[p[1]].v, op.ex[p[2]].v), tol)}
SumFar(op, N, tol) ==
  \A p \in ExI(op) \X ExI(op) : Far(SumNum(op, op.ex[p[1]].v, op.ex[p[2]].v), SumDen(N, op.ex[p[1]].v, op.ex[p[2]].v), tol)

\* derivative: the remainder with the TRUE Jacobian is O(c^2); with the planted one the quotient tends to ||dJ p||.
\* Documented condition "= o(c)" <=> limit 0; the implementation accepts below 10*tol ("slightly more generous").
DerLim(op, p) == NrmG(MatVec(op.dJ, p))
DerFails(op, tol) == {p \in ExI(op) \X ExI(op) : Over(DerLim(op, op.ex[p[2]].v), QI(10), tol)}
DerFar(op, tol) == \A p \in ExI(op) \X ExI(op) : Far(DerLim(op, op.ex[p[2]].v), QI(10), tol)

(* observable form: sequence of tokens <<tag, key, n>>                                                   *)
(*   "F" key n : the sub-test `key` printed its name and "*** FAILED n TEST CASE(S) ***"                  *)
(*   "C" key 0 : the sub-test reported completion (only with verbose=True)                                *)
(*   "M" key 0 : an unconditional message (printed regardless of `verbose`)                               *)
Tok(key, n, vb) == IF n > 0 THEN << <<"F", key, n>> >> ELSE IF vb THEN << <<"C", key, 0>> >> ELSE <<>>
Msg(key) == << <<"M", key, 0>> >>
Card(S) == Cardinality(S)

ExpSelfAdjoint(op, N, tol, vb) == Tok("selfadj", Card(AdjFails(op, "self", N, tol)), vb)
ExpAdjoint(op, N, tol, vb) ==
  IF op.adjdom # "ok"
    THEN (IF op.adjdom \in {"dom", "both"} THEN Msg("adj-domain") ELSE <<>>)
         \o (IF op.adjdom \in {"ran", "both"} THEN Msg("adj-range") ELSE <<>>) \o Msg("adj-exit")
  ELSE Tok("adjdef", Card(AdjFails(op, "adj", N, tol)), vb)
       \o (IF op.adjadj = "self" THEN <<>> ELSE Tok("adjadj", Card(AAFails(op, N, tol)), vb))
ExpLinear(op, N, tol, vb) ==
  IF ~op.flag THEN Msg("notlinear")
  ELSE (IF IsZeroV(Apply(op, ZeroV(2))) THEN <<>> ELSE Msg("zero"))
       \o Tok("scale", Card(ScaleFails(op, N, tol)), vb) \o Tok("sum", Card(SumFails(op, N, tol)), vb)
\* a linear operator's default derivative is the operator itself: nothing to verify
ExpDerivative(op, tol, vb) == IF op.flag THEN <<>> ELSE Tok("deriv", Card(DerFails(op, tol)), vb)
Expected(op, meth, N, tol, vb) ==
  CASE meth = "self_adjoint" -> ExpSelfAdjoint(op, N, tol, vb)
    [] meth = "adjoint"      -> ExpAdjoint(op, N, tol, vb)
    [] meth = "linear"       -> ExpLinear(op, N, tol, vb)
    [] meth = "derivative"   -> ExpDerivative(op, tol, vb)
    [] meth = "run_tests"    -> IF op.flag THEN ExpLinear(op, N, tol, vb) \o ExpAdjoint(op, N, tol, vb)
                                ELSE ExpDerivative(op, tol, vb)
\* the verdict of the table is robust against rounding: no sample tuple is near the tolerance
OpFar(op, meth, N, tol) ==
  CASE meth = "self_adjoint" -> AdjFar(op, "self", N, tol)
    [] meth = "adjoint"      -> op.adjdom # "ok" \/ (AdjFar(op, "adj", N, tol) /\ (op.adjadj = "self" \/ AAFar(op, N, tol)))
    [] meth = "linear"       -> ~op.flag \/ (ScaleFar(op, N, tol) /\ SumFar(op, N, tol))
    [] meth = "derivative"   -> op.flag \/ DerFar(op, tol)
    [] meth = "run_tests"    -> IF op.flag THEN ScaleFar(op, N, tol) /\ SumFar(op, N, tol) /\
                                      (op.adjdom # "ok" \/ (AdjFar(op, "adj", N, tol) /\ (op.adjadj = "self" \/ AAFar(op, N, tol))))
                                ELSE DerFar(op, tol)
Verdict(toks) == IF \E i \in 1..Len(toks) : toks[i][1] \in {"F", "M"} THEN "reports" ELSE "clean"

(* ========================= SpaceTest (toy spaces over Q^2) ============== *)
(* sp: [d |-> defect name, s |-> size (rational), ex |-> examples <<[n, v]>> (ex[1] = Zero, ex[2] = "A", ex[3] = "B"), *)
(*      hasinner |-> BOOLEAN]                                                                                        *)
(* Correct operations: componentwise vector space over Q, <x,y> = x.y, ||x|| = sqrt<x,x>, d(x,y) = ||x-y||,          *)
(* x*y pointwise.  The examples lie on the two axes ((0,0), (3,0), (0,4)) so that every norm the diagnostics         *)
(* compute is rational (guarded by an Assert).  Planted defects of size s (far from the tolerance):                  *)
(*   "none"                                                                                                          *)
(*   "lincomb-alias-xx"  lincomb(a, x, b, y, out) with out IS x IS y      gives the true value + s*e1                *)
(*   "lincomb-alias-x"   lincomb(a, x, b, y, out) with out IS x, y another object          true value + s*e1         *)
(*   "add-noncomm"       lincomb(1, A, 1, B, fresh out)  (i.e. A + B, not B + A)            true value + s*e1         *)
(*   "inner-asym"        <x,y> = x.y + s*x1*y2                                                                       *)
(*   "zero-inner"        <0,0> = s                                                                                   *)
(*   "norm-triangle"     ||(3,4)|| = 5 + s      (the sum A + B)                                                      *)
(*   "norm-homog"        ||(-3,0)|| = 3 + s     (= -1 * A)                                                           *)
(*   "dist-asym"         d(A, B) = 5 + s        (d(B, A) = 5)                                                        *)
(*   "mult-noncomm"      multiply(A, B, out) = pointwise + s*e1   (multiply(B, A) correct)                           *)
SA(sp) == sp.ex[2].v
SB(sp) == sp.ex[3].v
E1s(sp) == << sp.s, QZero >>
SLin(sp, a, x, b, y, pat) ==                           \* pat: "fresh" | "x" (out is x) | "xx" (out is x is y)
  LET r == VAdd(VScal(a, x), VScal(b, y))
      trig == \/ (sp.d = "lincomb-alias-xx" /\ pat = "xx")
              \/ (sp.d = "lincomb-alias-x" /\ pat = "x")
              \/ (sp.d = "add-noncomm" /\ pat = "fresh" /\ a = QOne /\ b = QOne /\ x = SA(sp) /\ y = SB(sp))
  IN IF trig THEN VAdd(r, E1s(sp)) ELSE r
SAdd(sp, x, y) == SLin(sp, QOne, x, QOne, y, "fresh")
SSub(sp, x, y) == SLin(sp, QOne, x, Q(-1, 1), y, "fresh")
SSm(sp, a, x)  == VScal(a, x)                          \* a * x = lincomb(a, x, 0, x, fresh out): no planted defect applies
SNeg(sp, x)    == SSm(sp, Q(-1, 1), x)
SInner(sp, x, y) ==
  CASE sp.d = "inner-asym" -> QAddE(Dot(x, y), QMul(sp.s, QMul(x[1], y[2])))
    [] sp.d = "zero-inner" /\ IsZeroV(x) /\ IsZeroV(y) -> sp.s
    [] OTHER -> Dot(x, y)
SNorm(sp, x) ==
  CASE sp.d = "norm-triangle" /\ x = QV(<<3, 4>>) -> QAddE(NrmG(x), sp.s)
    [] sp.d = "norm-homog" /\ x = QV(<<-3, 0>>) -> QAddE(NrmG(x), sp.s)
    [] OTHER -> NrmG(x)
SDist(sp, x, y) == IF sp.d = "dist-asym" /\ x = SA(sp) /\ y = SB(sp) THEN QAddE(NrmG(VSub(x, y)), sp.s) ELSE NrmG(VSub(x, y))
\* Python's  x * y  calls space.multiply(y, x): the planted pair is (first operand A, second operand B) of multiply()
SMulOp(sp, x, y) == IF sp.d = "mult-noncomm" /\ y = SA(sp) /\ x = SB(sp) THEN VAdd(VMulP(x, y), E1s(sp)) ELSE VMulP(x, y)

SI(sp) == 1..Len(sp.ex)
SV(sp, i) == sp.ex[i].v
CountOver(S, Err(_), thr) == Cardinality({t \in S : QLt(thr, Err(t))})
FarOver(S, Err(_), thr) == \A t \in S : LET e == Err(t) IN QLe(e, QZero) \/ QLe(QMul(QI(4), e), thr) \/ QLe(QMul(QI(4), thr), e)
\* error of one sample tuple t (indices into examples / field examples) per documented axiom; SpSamples gives the tuples
SpSamples(sp, key) ==
  LET I == SI(sp) IN
  CASE key \in {"assoc", "inner-lin-sum", "dist-sub", "mult-comm", "mult-assoc", "mult-dist-vector"} -> I \X I \X I
    [] key \in {"add-comm", "subtraction", "lincomb-alias", "lincomb-alias2", "inner-sym", "norm-sub", "dist-sym", "dist-norm"} -> I \X I
    [] key \in {"add-ident", "add-inv", "mul-ident", "norm-inner", "mult-zero"} -> {<<i>> : i \in I}
    [] key \in {"smul-comm", "dist-scal"} -> I \X FI \X FI
    [] key \in {"dist-vec", "inner-lin-scalar", "mult-dist-scalar"} -> I \X I \X FI
    [] key \in {"division", "norm-homog"} -> I \X FI
SpErr(sp, key, t) ==
  LET x == SV(sp, t[1]) IN
  CASE key = "assoc" -> LET y == SV(sp, t[2]) z == SV(sp, t[3]) IN
         SDist(sp, SAdd(sp, x, SAdd(sp, y, z)), SAdd(sp, SAdd(sp, x, y), z))
    [] key = "add-comm" -> LET y == SV(sp, t[2]) IN SDist(sp, SAdd(sp, x, y), SAdd(sp, y, x))
    [] key = "add-ident" -> SDist(sp, SAdd(sp, x, ZeroV(2)), x)
    [] key = "add-inv" -> SDist(sp, SAdd(sp, x, SNeg(sp, x)), ZeroV(2))
    [] key = "smul-comm" -> LET a == FieldEx[t[2]] b == FieldEx[t[3]] IN SDist(sp, SSm(sp, a, SSm(sp, b, x)), SSm(sp, QMul(a, b), x))
    [] key = "mul-ident" -> SDist(sp, SSm(sp, QOne, x), x)
    [] key \in {"dist-vec", "mult-dist-scalar"} -> LET y == SV(sp, t[2]) a == FieldEx[t[3]] IN
         SDist(sp, SSm(sp, a, SAdd(sp, x, y)), SAdd(sp, SSm(sp, a, x), SSm(sp, a, y)))
    [] key = "dist-scal" -> LET a == FieldEx[t[2]] b == FieldEx[t[3]] IN
         SDist(sp, SSm(sp, QAddE(a, b), x), SAdd(sp, SSm(sp, a, x), SSm(sp, b, x)))
    [] key = "subtraction" -> LET y == SV(sp, t[2]) IN
         QMax(SDist(sp, SSub(sp, x, y), SAdd(sp, x, SSm(sp, Q(-1, 1), y))), SDist(sp, SSub(sp, x, y), SAdd(sp, x, SNeg(sp, y))))
    [] key = "division" -> LET a == FieldEx[t[2]] IN
         IF a = QZero THEN QZero ELSE SDist(sp, SSm(sp, QInv(a), x), SSm(sp, QInv(a), x))
    [] key = "lincomb-alias" -> LET y == SV(sp, t[2]) IN SDist(sp, SLin(sp, QOne, x, QOne, y, "x"), SAdd(sp, x, y))
    [] key = "lincomb-alias2" -> SDist(sp, SLin(sp, QOne, x, QOne, x, "xx"), SAdd(sp, x, x))
    [] key = "inner-sym" -> LET y == SV(sp, t[2]) IN QAbs(QSubE(SInner(sp, x, y), SInner(sp, y, x)))
    [] key = "inner-lin-scalar" -> LET y == SV(sp, t[2]) a == FieldEx[t[3]] IN
         QAbs(QSubE(SInner(sp, SSm(sp, a, x), y), QMul(a, SInner(sp, x, y))))
    [] key = "inner-lin-sum" -> LET y == SV(sp, t[2]) z == SV(sp, t[3]) IN
         QAbs(QSubE(SInner(sp, SAdd(sp, x, y), z), QAddE(SInner(sp, x, z), SInner(sp, y, z))))
    [] key = "norm-sub" -> LET y == SV(sp, t[2]) IN QSubE(SNorm(sp, SAdd(sp, x, y)), QAddE(SNorm(sp, x), SNorm(sp, y)))
    [] key = "norm-homog" -> LET a == FieldEx[t[2]] IN QAbs(QSubE(SNorm(sp, SSm(sp, a, x)), QMul(QAbs(a), SNorm(sp, x))))
    [] key = "norm-inner" -> QAbs(QSubE(QSq(SNorm(sp, x)), SInner(sp, x, x)))
    [] key = "dist-sym" -> LET y == SV(sp, t[2]) IN QAbs(QSubE(SDist(sp, x, y), SDist(sp, y, x)))
    [] key = "dist-sub" -> LET y == SV(sp, t[2]) z == SV(sp, t[3]) IN QSubE(SDist(sp, x, z), QAddE(SDist(sp, x, y), SDist(sp, y, z)))
    [] key = "dist-norm" -> LET y == SV(sp, t[2]) IN QAbs(QSubE(SDist(sp, x, y), SNorm(sp, SSub(sp, x, y))))
    [] key = "mult-zero" -> SNorm(sp, SMulOp(sp, ZeroV(2), x))
    [] key = "mult-comm" -> LET y == SV(sp, t[2]) IN SDist(sp, SMulOp(sp, x, y), SMulOp(sp, y, x))
    [] key = "mult-assoc" -> LET y == SV(sp, t[2]) z == SV(sp, t[3]) IN
         SDist(sp, SMulOp(sp, x, SMulOp(sp, y, z)), SMulOp(sp, SMulOp(sp, x, y), z))
    [] key = "mult-dist-vector" -> LET y == SV(sp, t[2]) z == SV(sp, t[3]) IN
         SDist(sp, SMulOp(sp, x, SAdd(sp, y, z)), SAdd(sp, SMulOp(sp, x, y), SMulOp(sp, x, z)))
\* threshold of the axiom: the tolerance, except sub-additivity of the norm which is documented as an exact inequality
SpThr(key, tol) == IF key = "norm-sub" THEN QZero ELSE tol
SpCount(sp, key, tol) ==
  CASE key = "inner-pos" -> Card({i \in SI(sp) : IF sp.ex[i].n = "Zero" THEN SInner(sp, SV(sp, i), SV(sp, i)) # QZero
                                                   ELSE QLe(SInner(sp, SV(sp, i), SV(sp, i)), QZero)})
    [] key = "norm-pos" -> Card({i \in SI(sp) : IF sp.ex[i].n = "Zero" THEN SNorm(sp, SV(sp, i)) # QZero
                                                  ELSE QLe(SNorm(sp, SV(sp, i)), QZero)})
    [] key = "dist-pos" -> Card({p \in SI(sp) \X SI(sp) : IF p[1] = p[2] THEN SDist(sp, SV(sp, p[1]), SV(sp, p[2])) # QZero
                                                           ELSE QLe(SDist(sp, SV(sp, p[1]), SV(sp, p[2])), QZero)})
    [] key = "lincomb-alias" -> LET E(t) == SpErr(sp, "lincomb-alias", t)  E2(t) == SpErr(sp, "lincomb-alias2", t) IN
                                CountOver(SpSamples(sp, key), E, tol) + CountOver(SpSamples(sp, key), E2, tol)
    [] OTHER -> LET E(t) == SpErr(sp, key, t) IN CountOver(SpSamples(sp, key), E, SpThr(key, tol))
SpFar(sp, key, tol) ==
  IF key \in {"inner-pos", "norm-pos", "dist-pos"} THEN TRUE
  ELSE IF key = "lincomb-alias" THEN LET E(t) == SpErr(sp, "lincomb-alias", t)  E2(t) == SpErr(sp, "lincomb-alias2", t) IN
                                     FarOver(SpSamples(sp, key), E, tol) /\ FarOver(SpSamples(sp, key), E2, tol)
  ELSE LET E(t) == SpErr(sp, key, t) IN FarOver(SpSamples(sp, key), E, tol)
SpKeys(sp, meth) ==
  CASE meth = "linearity" -> <<"assoc", "add-comm", "add-ident", "add-inv", "smul-comm", "mul-ident", "dist-vec", "dist-scal",
                               "subtraction", "division", "lincomb-alias">>
    [] meth = "inner" -> IF sp.hasinner THEN <<"inner-sym", "inner-lin-scalar", "inner-lin-sum", "inner-pos">> ELSE <<>>
    [] meth = "norm" -> <<"norm-pos", "norm-sub", "norm-homog">> \o (IF sp.hasinner THEN <<"norm-inner">> ELSE <<>>)
    [] meth = "dist" -> <<"dist-pos", "dist-sym", "dist-sub", "dist-norm">>
    [] meth = "multiply" -> <<"mult-zero", "mult-comm", "mult-assoc", "mult-dist-scalar", "mult-dist-vector">>
RECURSIVE TokSeq(_, _, _, _)
TokSeq(sp, keys, tol, vb) == IF keys = <<>> THEN <<>>
                             ELSE Tok(Head(keys), SpCount(sp, Head(keys), tol), vb) \o TokSeq(sp, Tail(keys), tol, vb)
SpExpected(sp, meth, tol, vb) == TokSeq(sp, SpKeys(sp, meth), tol, vb)
SpAllFar(sp, meth, tol) == \A i \in 1..Len(SpKeys(sp, meth)) : SpFar(sp, SpKeys(sp, meth)[i], tol)

(* ========================= testutils ==================================== *)
(* values: [k |-> "none"] | [k |-> "num", b, d] (value b + 10^-d, d = 99: exactly b) | [k |-> "list", v]           *)
(*         | [k |-> "arr", dt, v] (1-D array of num leaves with dtype class dt)                                     *)
DtDigits(dt, default) == IF dt = "f16" THEN 1 ELSE IF dt \in {"f32", "c64"} THEN 3
                         ELSE IF default = NoneD THEN 5 ELSE default
\* dtype_tol as a power of ten: 10^-DtDigits
VNone == [k |-> "none"]
VNum(b, d) == [k |-> "num", b |-> b, d |-> d]
VList(v) == [k |-> "list", v |-> v]
VArr(dt, v) == [k |-> "arr", dt |-> dt, v |-> v]
IsSeq(x) == x.k \in {"list", "arr"}
LeafDt(x, parentdt) == parentdt                        \* dtype class seen when the leaf is compared ("py" in lists)
\* leaf pair: exactly equal / close at nd digits / far; "any" where rounding of a narrow dtype decides
LeafEq(a, da, b, db) ==
  IF a.b # b.b \/ a.d # b.d THEN "F" ELSE IF a.d = 99 \/ da = db THEN "T" ELSE "any"
\* equal deviations stored in different dtypes differ by the rounding of the narrower one (f16: ~1e-3, f32: ~1e-7)
RoundExp(da, db) == IF "f16" \in {da, db} THEN 3 ELSE IF "f32" \in {da, db} THEN 7 ELSE 99
LeafClose(a, da, b, db, nd) ==
  IF a.b # b.b THEN "F"
  ELSE IF a.d = b.d THEN (IF a.d = 99 \/ da = db \/ nd + 1 < RoundExp(da, db) THEN "T" ELSE "any")
  ELSE IF Min2(a.d, b.d) > nd THEN "T" ELSE "F"
\* default digits: the minimum of the dtype precisions of the two compared objects.  When a plain Python sequence meets an
\* array-like, the array-like's entries may or may not carry its dtype (NumPy scalars do, entries of ODL tensors are Python
\* floats): both readings of "the two objects" are accepted
DefaultClose(x, dx, y, dy) ==
  LET r1 == LeafClose(x, dx, y, dy, Min2(DtDigits(dx, NoneD), DtDigits(dy, NoneD))) IN
  IF (dx = "py") # (dy = "py") THEN (LET r2 == LeafClose(x, dx, y, dy, 5) IN IF r1 = r2 THEN r1 ELSE "any") ELSE r1
\* an undocumented pairing anywhere inside makes the whole comparison undocumented (weaker reading)
And3(r, s) == IF r = "any" \/ s = "any" THEN "any" ELSE IF r = "F" \/ s = "F" THEN "F" ELSE "T"
RECURSIVE AndSeq(_)
AndSeq(rs) == IF rs = <<>> THEN "T" ELSE And3(Head(rs), AndSeq(Tail(rs)))
ChildDt(x) == IF x.k = "arr" THEN x.dt ELSE "py"
\* documented meaning of all_equal / all_almost_equal:  "T" True, "F" not True (False or an exception), "any"
RECURSIVE Cmp(_, _, _, _, _)
Cmp(x, dx, y, dy, nd) ==       \* nd = -2: exact equality (all_equal); NoneD: default digits; else explicit digits
  IF x.k = "none" \/ y.k = "none" THEN (IF x.k = y.k THEN "T" ELSE "F")
  ELSE IF x.k = "num" /\ y.k = "num"
    THEN (IF nd = -2 THEN LeafEq(x, dx, y, dy)
          ELSE IF nd # NoneD THEN LeafClose(x, dx, y, dy, nd)
          ELSE DefaultClose(x, dx, y, dy))
  ELSE IF IsSeq(x) /\ IsSeq(y)
    THEN (IF Len(x.v) # Len(y.v)
            \* arrays of different but broadcastable shapes: the documentation does not say
            THEN (IF x.k = "arr" /\ y.k = "arr" /\ (Len(x.v) = 1 \/ Len(y.v) = 1) /\ nd # -2 THEN "any"
                  ELSE And3("F", AndSeq([i \in 1..Min2(Len(x.v), Len(y.v)) |-> Cmp(x.v[i], ChildDt(x), y.v[i], ChildDt(y), nd)])))
          ELSE AndSeq([i \in 1..Len(x.v) |-> Cmp(x.v[i], ChildDt(x), y.v[i], ChildDt(y), nd)]))
  ELSE "any"                                            \* scalar against sequence: undocumented
AllEqual(x, y) == Cmp(x, "py", y, "py", -2)
AllAlmostEqual(x, y, nd) == Cmp(x, "py", y, "py", nd)
\* is_subdict: dictionaries as sets of <<key, value>> pairs
IsSubdict(sub, dict) == sub \subseteq dict

(* simple_fixture: documented ids  " {name}='{value}' " for string parameters, " {name}={value} " for other types,          *)
(* fmt.format(name=name, value=value) when a format string is given; skipif-wrapped parameters are unwrapped.              *)
(* val: [k |-> "str" | "int", v]; fmt: "default" | "dash" (the format string "{name}-{value}")                              *)
FixtureId(name, val, fmt) ==
  LET vs == IF val.k = "str" THEN val.v ELSE ToString(val.v) IN
  IF fmt = "default" THEN (IF val.k = "str" THEN " " \o name \o "='" \o vs \o "' " ELSE " " \o name \o "=" \o vs \o " ")
  ELSE name \o "-" \o vs

(* fail_counter: documented summary.  strs: the strings passed to fail() (0 = fail() without a string)              *)
FcSummary(n, strs, haserr) ==
  IF n = 0 THEN [stdout |-> <<>>, logged |-> 1]
  ELSE [stdout |-> << <<"name", 0>> >> \o [i \in 1..Len(strs) |-> <<"str", strs[i]>>]
                   \o (IF haserr THEN << <<"err", 0>> >> ELSE <<>>) \o << <<"failed", n>> >>,
        logged |-> 0]

(* ProgressBar: documented printed form  "\r{text}: [{bar:30}] {pct:4.1f}%"  with bar = '#' * floor(30 p),          *)
(* p = index / prod(njobs), index = (flat C-order position of the multi-index) + 1 or previous index + 1;           *)
(* "Done" once p >= 1.                                                                                              *)
RECURSIVE Prod(_)
Prod(s) == IF s = <<>> THEN 1 ELSE Head(s) * Prod(Tail(s))
RECURSIVE Ravel(_, _)
Ravel(ind, njobs) == IF ind = <<>> THEN 0
                     ELSE Ravel(SubSeq(ind, 1, Len(ind) - 1), SubSeq(njobs, 1, Len(njobs) - 1)) * njobs[Len(njobs)] + ind[Len(ind)]
PbHashes(idx, n) == (30 * idx) \div n
\* tenths of a percent, rounded to nearest; a tie may go either way
PbTenths(idx, n) == LET t2 == 2000 * idx IN
                    IF t2 % (2 * n) = n THEN {(1000 * idx) \div n, (1000 * idx) \div n + 1}
                    ELSE {(t2 + n) \div (2 * n)}
PbBars(idx, n) == {<<"bar", PbHashes(idx, n), t>> : t \in PbTenths(idx, n)}
PbNone == <<"none", 0, 0>>
PbDone == <<"done", 30, 0>>
\* state [njobs, idx, shown (index last shown), done]; allowed writes of one update
PbIndex(st, ind) == IF ind = <<>> THEN st.idx + 1 ELSE Ravel(ind, st.njobs) + 1
PbAllowed(st, ind) ==
  LET n == Prod(st.njobs)  i == PbIndex(st, ind) IN
  IF i >= n THEN (IF st.done THEN {PbNone} ELSE {PbDone})
  ELSE IF 1000 * (i - st.shown) > n THEN PbBars(i, n)                    \* moved forward by more than 0.1 %
  ELSE PbBars(i, n) \cup {PbNone}                                         \* no or backward movement: not documented
PbStep(st, ind, w) ==
  LET i == PbIndex(st, ind) IN
  [st EXCEPT !.idx = i, !.shown = IF w[1] = "bar" THEN i ELSE st.shown, !.done = st.done \/ w[1] = "done"]
PbInit(njobs) == [njobs |-> njobs, idx |-> 0, shown |-> 0, done |-> FALSE]
=============================================================================

-------------------------------- MODULE OpSem --------------------------------
(***************************************************************************)
(* Layer A: reference semantics of ODL operator expressions (C04-C06).      *)
(*                                                                         *)
(* An expression is a record with the uniform field set                    *)
(*    [t, a, v, m, n, l, r]                                                *)
(*  t : node kind (leaf kinds and combinators, see below)                  *)
(*  a : scalar parameter (C number)      v : vector parameter (value)      *)
(*  m : matrix parameter (tuple of rows) n : integer parameter             *)
(*  l, r : sub-expressions (<<>> when absent)                              *)
(*                                                                         *)
(* Spaces: "V" = F^2 with weights W (F = R or C), "S" = the field F as a   *)
(* one-dimensional space.  Values are sequences of C numbers (length 2     *)
(* resp. 1).  Eval is the DOCUMENTED table of operator arithmetic applied  *)
(* recursively - written from the documentation, not from the classes:     *)
(*   (A+B)x = Ax+Bx   (A-B)x = Ax-Bx    (-A)x = -(Ax)     (A*B)x = A(Bx)   *)
(*   (a*A)x = a*Ax    (A*a)x = A(a*x)   (A/a)x = A(x/a)                    *)
(*   (v*A)x = v*Ax    (A*v)x = A(v*x)   (A+v)x = Ax+v     (A+c)x = Ax+c*1  *)
(*   (v+A)x = v+Ax    (v-A)x = v-Ax     (A-v)x = Ax-v     A**n iterated    *)
(***************************************************************************)
EXTENDS Vec

CONSTANT W          \* weights of V (sequence of 2 positive Q), <<QOne, QOne>> when unweighted

NoE == <<>>
Node(t, a, v, m, n, l, r) == [t |-> t, a |-> a, v |-> v, m |-> m, n |-> n, l |-> l, r |-> r]
Leaf(t, a, v, m) == Node(t, a, v, m, 0, NoE, NoE)
Un(t, a, v, n, e) == Node(t, a, v, <<>>, n, e, NoE)
Bin(t, e1, e2) == Node(t, CZero, <<>>, <<>>, 0, e1, e2)

\* Mixed fields (profile "M"): "VR" is the REAL space with the entries / weights of the complex space "V" (V.real_space);
\* "cmod2" = ComplexModulusSquared : V -> VR, x |-> |x|^2 entry-wise (not complex-linear), "sqr" = x |-> x^2 on VR.  A scalar
\* or vector operand has to lie in the field / space it is combined with: complex operands on the VR side are ill-typed.
LeafKinds == {"id", "scale", "mat", "mulvec", "zero", "inner", "sq", "const", "shift", "l2sq", "l1", "smul", "swap", "rpart", "linfn",
              "cmod2", "sqr"}
LinearLeaves == {"id", "scale", "mat", "mulvec", "zero", "inner", "smul", "swap", "rpart", "linfn"}
IsLeaf(e) == e.t \in LeafKinds

(* -------------------------- typing ------------------------------------- *)
LeafDom(t) == IF t = "smul" THEN "S" ELSE IF t = "sqr" THEN "VR" ELSE "V"
LeafRan(t) == IF t \in {"inner", "l2sq", "l1", "linfn"} THEN "S" ELSE IF t \in {"cmod2", "sqr"} THEN "VR" ELSE "V"
IsVecSp(s) == s \in {"V", "VR"}

RECURSIVE Dom(_)
Dom(e) == IF IsLeaf(e) THEN LeafDom(e.t)
          ELSE IF e.t = "comp" THEN Dom(e.r) ELSE Dom(e.l)

RECURSIVE Ran(_)
Ran(e) == IF IsLeaf(e) THEN LeafRan(e.t)
          ELSE IF e.t = "flvm" THEN "V"          \* vector * functional
          ELSE Ran(e.l)

\* structural linearity: what the expression implies
RECURSIVE IsLinear(_)
IsLinear(e) ==
  IF IsLeaf(e) THEN e.t \in LinearLeaves
  ELSE CASE e.t \in {"sum", "sub", "comp"} -> IsLinear(e.l) /\ IsLinear(e.r)
         [] e.t \in {"neg", "lscal", "rscal", "rdiv", "lvec", "rvec", "flvm", "pow"} -> IsLinear(e.l)
         [] e.t \in {"addvec", "addscal", "raddvec", "rsubvec", "subvec"} -> FALSE

\* polynomial degree bound (l1 is not polynomial: 99)
RECURSIVE Deg(_)
Deg(e) ==
  IF IsLeaf(e) THEN (CASE e.t \in {"sq", "l2sq", "cmod2", "sqr"} -> 2 [] e.t = "l1" -> 99
                       [] e.t \in {"const", "zero"} -> 0 [] OTHER -> 1)
  ELSE CASE e.t \in {"sum", "sub"} -> Max2(Deg(e.l), Deg(e.r))
         [] e.t = "comp" -> IF Deg(e.l) >= 99 \/ Deg(e.r) >= 99 THEN 99 ELSE Deg(e.l) * Deg(e.r)
         [] e.t = "pow" -> IF Deg(e.l) >= 99 THEN 99
                           ELSE IF e.n = 1 THEN Deg(e.l)
                           ELSE IF e.n = 2 THEN Deg(e.l) * Deg(e.l) ELSE Deg(e.l) * Deg(e.l) * Deg(e.l)
         [] OTHER -> Deg(e.l)

(* -------------------------- evaluation --------------------------------- *)
WInner(x, y) == CSumSeq([i \in 1..Len(x) |-> CScal(W[i], CMul(x[i], CConj(y[i])))])
WNormSq(x)   == CSumSeq([i \in 1..Len(x) |-> CR(QMul(W[i], CAbs2(x[i])))])
\* L1 norm: only for real x (|.| of a rational)
WNorm1(x)    == CSumSeq([i \in 1..Len(x) |-> CR(QMul(W[i], QAbs(x[i][1])))])
MatVec(M, x) == [i \in 1..Len(M) |-> CSumSeq([j \in 1..Len(x) |-> CMul(M[i][j], x[j])])]

LeafEval(e, x) ==
  CASE e.t = "id"     -> x
    [] e.t = "scale"  -> VScal(e.a, x)
    [] e.t = "mat"    -> MatVec(e.m, x)
    [] e.t = "mulvec" -> VMul(e.v, x)
    [] e.t = "zero"   -> VZeroN(Len(x))
    [] e.t = "inner"  -> <<WInner(x, e.v)>>
    [] e.t = "sq"     -> VMul(x, x)
    [] e.t = "const"  -> e.v
    [] e.t = "shift"  -> VSub(x, e.v)
    [] e.t = "l2sq"   -> <<WNormSq(x)>>
    [] e.t = "l1"     -> <<WNorm1(x)>>
    [] e.t = "smul"   -> VScal(x[1], e.v)
    [] e.t = "rpart"  -> x                       \* RealPart on a REAL space (returns its input object): identity
    [] e.t = "linfn"  -> <<WInner(x, e.v)>>       \* a linear FUNCTIONAL-class leaf x -> <x, v>
    [] e.t = "swap"   -> <<x[2], x[1]>>          \* a user-defined operator (in-place only, not alias-safe)
    [] e.t = "cmod2"  -> [i \in 1..Len(x) |-> CR(CAbs2(x[i]))]
    [] e.t = "sqr"    -> VMul(x, x)

RECURSIVE Eval(_, _)
RECURSIVE PowEval(_, _, _)
PowEval(e, k, x) == IF k = 0 THEN x ELSE Eval(e, PowEval(e, k - 1, x))
Eval(e, x) ==
  IF IsLeaf(e) THEN LeafEval(e, x)
  ELSE CASE e.t = "sum"     -> VAdd(Eval(e.l, x), Eval(e.r, x))
         [] e.t = "sub"     -> VSub(Eval(e.l, x), Eval(e.r, x))
         [] e.t = "neg"     -> VNeg(Eval(e.l, x))
         [] e.t = "comp"    -> Eval(e.l, Eval(e.r, x))
         [] e.t = "lscal"   -> VScal(e.a, Eval(e.l, x))
         [] e.t = "rscal"   -> Eval(e.l, VScal(e.a, x))
         [] e.t = "rdiv"    -> Eval(e.l, VScal(CInv(e.a), x))
         [] e.t = "lvec"    -> VMul(e.v, Eval(e.l, x))
         [] e.t = "flvm"    -> VScal(Eval(e.l, x)[1], e.v)
         [] e.t = "rvec"    -> Eval(e.l, VMul(e.v, x))
         [] e.t = "addvec"  -> VAdd(Eval(e.l, x), e.v)
         [] e.t = "raddvec" -> VAdd(e.v, Eval(e.l, x))
         [] e.t = "addscal" -> LET y == Eval(e.l, x) IN VAdd(y, VConst(Len(y), e.a))
         [] e.t = "rsubvec" -> VSub(e.v, Eval(e.l, x))
         [] e.t = "subvec"  -> VSub(Eval(e.l, x), e.v)
         [] e.t = "pow"     -> PowEval(e.l, e.n, x)

(* -------------------------- well-typedness ----------------------------- *)
VecLenOf(s) == IF IsVecSp(s) THEN 2 ELSE 1
RECURSIVE WellTyped(_)
WellTyped(e) ==
  IF IsLeaf(e) THEN TRUE
  ELSE /\ WellTyped(e.l)
       /\ CASE e.t \in {"sum", "sub"} -> WellTyped(e.r) /\ Dom(e.l) = Dom(e.r) /\ Ran(e.l) = Ran(e.r)
            [] e.t = "comp" -> WellTyped(e.r) /\ Ran(e.r) = Dom(e.l)
            [] e.t = "rdiv" -> e.a # CZero /\ (Dom(e.l) = "VR" => IsRealC(e.a))
            [] e.t = "rscal" -> (Dom(e.l) = "VR" => IsRealC(e.a))
            [] e.t \in {"lscal", "addscal"} -> (Ran(e.l) = "VR" => IsRealC(e.a))
            [] e.t \in {"lvec", "addvec", "raddvec", "rsubvec", "subvec"} ->
                 IsVecSp(Ran(e.l)) /\ Len(e.v) = 2 /\ (Ran(e.l) = "VR" => VIsReal(e.v))
            [] e.t = "flvm" -> Ran(e.l) = "S" /\ Len(e.v) = 2
            [] e.t = "rvec" -> IsVecSp(Dom(e.l)) /\ Len(e.v) = 2 /\ (Dom(e.l) = "VR" => VIsReal(e.v))
            [] e.t = "pow" -> Dom(e.l) = Ran(e.l) /\ e.n >= 1
            [] OTHER -> TRUE

\* number of "pow" nodes (the machine keeps it <= 1 so that magnitudes stay small)
RECURSIVE PowCount(_)
PowCount(e) == IF IsLeaf(e) THEN 0
               ELSE (IF e.t = "pow" THEN 1 ELSE 0) + PowCount(e.l)
                    + (IF e.t \in {"sum", "sub", "comp"} THEN PowCount(e.r) ELSE 0)
Tame(e) == PowCount(e) <= 1 /\ (Deg(e) <= 8 \/ Deg(e) >= 99)

\* The Functional API (scalar-valued maps with their own overloads) is preserved by exactly these
\* constructions; only for those is "f + scalar" defined (FunctionalScalarSum).
RECURSIVE IsFunctional(_)
IsFunctional(e) ==
  IF IsLeaf(e) THEN e.t \in {"l2sq", "l1", "linfn"}
  ELSE CASE e.t \in {"neg", "lscal", "rscal", "rdiv", "addscal", "rvec"} -> IsFunctional(e.l)
         [] e.t \in {"sum", "sub"} -> IsFunctional(e.l) /\ IsFunctional(e.r)
         [] e.t = "comp" -> IsFunctional(e.l)
         [] OTHER -> FALSE

\* Expressions ODL supports.  Everything well-typed is supported except the documented gap:
\* adding a scalar to a scalar-valued operator that is not a Functional.  An unsupported expression
\* may be rejected by the library (nothing is demanded of it).
RECURSIVE Supported(_)
Supported(e) ==
  IF IsLeaf(e) THEN TRUE
  ELSE /\ Supported(e.l)
       /\ (e.t \in {"sum", "sub", "comp"} => Supported(e.r))
       /\ (e.t = "addscal" => (IsVecSp(Ran(e.l)) \/ IsFunctional(e.l)))

(* -------------------------- matrices and adjoints (C05) ---------------- *)
Unit(n, j) == [i \in 1..n |-> IF i = j THEN COne ELSE CZero]
\* matrix of a linear expression, row-major: Mat[i][j] = (e applied to e_j)[i]
MatOf(e) == LET nd == VecLenOf(Dom(e)) nr == VecLenOf(Ran(e))
            IN [i \in 1..nr |-> [j \in 1..nd |-> Eval(e, Unit(nd, j))[i]]]
WOf(s) == IF IsVecSp(s) THEN W ELSE <<QOne>>
\* reference adjoint: the unique N with <Ax,y>_ran = <x,Ny>_dom, i.e. N = Gd^-1 M^H Gr
AdjMatOf(e) == LET M == MatOf(e) wd == WOf(Dom(e)) wr == WOf(Ran(e))
                   nd == VecLenOf(Dom(e)) nr == VecLenOf(Ran(e))
               IN [i \in 1..nd |-> [j \in 1..nr |->
                     CScal(QDiv(wr[j], wd[i]), CConj(M[j][i]))]]

(* -------------------------- derivatives (C06) -------------------------- *)
\* directional derivative defined FROM VALUES ONLY by the exact central-difference stencil
\* (exact for polynomial maps of degree <= 4): sum_k c_k Eval(x + k d), k = -2..2
StencilW == <<Q(1, 12), Q(-2, 3), QZero, Q(2, 3), Q(-1, 12)>>
DirDeriv(e, x, d) ==
  LET pt(k) == VAdd(x, VScal(CInt(k), d))
      n == VecLenOf(Ran(e))
      term(k) == VScal(CR(StencilW[k + 3]), Eval(e, pt(k)))
  IN  [i \in 1..n |-> CSumSeq([k \in 1..5 |-> term(k - 3)[i]])]
=============================================================================

------------------------------ MODULE GeomSetSem ------------------------------
(***************************************************************************)
(* Layer A (extension EXT/geomsets): VALUE semantics of ODL's geometric    *)
(* sets - interval products (odl.IntervalProd), rectilinear grids          *)
(* (odl.RectGrid, uniform_grid, uniform_grid_fromintv) - and of the basic  *)
(* sets of odl/set/sets.py.  Written from the docstrings of these classes, *)
(* not from the code; all arithmetic on exact rationals.                   *)
(*                                                                         *)
(*   box   == Seq(<<lo, hi>>)        lo <= hi in Q (lo = hi: degenerate)   *)
(*   grid  == Seq(Seq(Q))            strictly increasing coordinate vectors*)
(*   obj   == [k |-> "box" | "grid", v |-> box | grid]                     *)
(*   call  == [op, i, q, o, s, idx]  one public API call on an object:     *)
(*              i   Seq(Int)   integer arguments (indices, ndim, shape,    *)
(*                             nodes_on_bdry flags as 0/1)                 *)
(*              q   Seq(Q)     rational arguments (point, values, atol,    *)
(*                             scalar)                                     *)
(*              o   Seq(obj)   other operands (boxes, grids, point lists)  *)
(*              s   STRING     option (order, exponent, axis spelling)     *)
(*              idx Seq(item)  index expression                            *)
(*   result == [k |-> kind, v |-> value]  kinds: box grid bool int ints    *)
(*              bools q qs pts mesh err                                    *)
(* Eval(obj, call) is the single entry point used by the machine (export   *)
(* of expected results), by the laws and by the trace specification.       *)
(* All axis numbers and indices visible to the outside are 0-based as in   *)
(* Python; TLA+ sequences are 1-based internally.                          *)
(***************************************************************************)
EXTENDS ExactNum, TLC

NONE == 99                         \* "not given" for integer slots
Res(k, v) == [k |-> k, v |-> v]
RBool(b)  == Res("bool", b)
RInt(n)   == Res("int", n)
RInts(s)  == Res("ints", s)
RBools(s) == Res("bools", s)
RQ(x)     == Res("q", x)
RQs(s)    == Res("qs", s)
RPts(p)   == Res("pts", p)
RErr      == Res("err", "")          \* some exception (the documentation names no class)
RErrC(c)  == Res("err", c)           \* the documented exception class
Box(b)    == Res("box", b)
Grid(g)   == Res("grid", g)
Pts(p)    == Res("pts", p)           \* an explicit list of points used as an operand
IsErr(r)  == r.k = "err"

Call(op, i, q, o, s, idx) == [op |-> op, i |-> i, q |-> q, o |-> o, s |-> s, idx |-> idx]
K0(op)        == Call(op, <<>>, <<>>, <<>>, "", <<>>)
KI(op, i)     == Call(op, i, <<>>, <<>>, "", <<>>)
KQ(op, q)     == Call(op, <<>>, q, <<>>, "", <<>>)
KS(op, s)     == Call(op, <<>>, <<>>, <<>>, s, <<>>)
KO(op, o)     == Call(op, <<>>, <<>>, o, "", <<>>)

(* ------------------------------ helpers --------------------------------- *)
\* TLC keeps [i \in S |-> e] as a lazy function and re-evaluates e at every application: force sequences once
Fz(s) == s \o <<>>
RECURSIVE Flatten(_)
Flatten(ss) == IF ss = <<>> THEN <<>> ELSE Head(ss) \o Flatten(Tail(ss))
RECURSIVE QProdSeq(_)
QProdSeq(s) == IF s = <<>> THEN QOne ELSE QMul(Head(s), QProdSeq(Tail(s)))
RECURSIVE IProd(_, _, _)
IProd(s, lo, hi) == IF lo > hi THEN 1 ELSE s[lo] * IProd(s, lo + 1, hi)
Pick(s, ix) == Fz([t \in 1..Len(ix) |-> s[ix[t] + 1]])                \* ix: 0-based indices
RECURSIVE Keep(_, _, _)
Keep(s, keep, k) == IF k > Len(s) THEN <<>> ELSE (IF k \in keep THEN <<s[k]>> ELSE <<>>) \o Keep(s, keep, k + 1)
IsNaNQ(x) == x = NaN
IsInfQ(x) == x = Inf \/ x = NegInf
QDist(x, y) == QAbs(QSub(x, y))
\* a dyadic rational with a small denominator is an exactly representable float
IsDyadic(x) == x[2] \in {1, 2, 4, 8, 16, 32, 64, 128, 256, 512, 1024}

(* index items (as in Python): int, slice with positive step, Ellipsis, None, list of ints *)
Item(k, i, a, b, s, l) == [k |-> k, i |-> i, a |-> a, b |-> b, s |-> s, l |-> l]
IInt(i)         == Item("int", i, NONE, NONE, NONE, <<>>)
ISlice(a, b, s) == Item("slice", 0, a, b, s, <<>>)
IEll            == Item("ell", 0, NONE, NONE, NONE, <<>>)
INone           == Item("none", 0, NONE, NONE, NONE, <<>>)
IList(l)        == Item("list", 0, NONE, NONE, NONE, l)
IFull           == ISlice(NONE, NONE, NONE)
NormInt(i, n)   == IF i < 0 THEN i + n ELSE i
IntOK(i, n)     == NormInt(i, n) \in 0..(n - 1)
SlStart(a, n)   == IF a = NONE THEN 0 ELSE IF a < 0 THEN Max2(a + n, 0) ELSE Min2(a, n)
SlStop(b, n)    == IF b = NONE THEN n ELSE IF b < 0 THEN Max2(b + n, 0) ELSE Min2(b, n)
SlStep(s)       == IF s = NONE THEN 1 ELSE s
SlCount(lo, hi, s) == IF hi <= lo THEN 0 ELSE ((hi - lo - 1) \div s) + 1
\* selected 0-based indices of a slice with step >= 1, ascending
SlIdx(it, n) == LET lo == SlStart(it.a, n)  hi == SlStop(it.b, n)  s == SlStep(it.s)
                IN  Fz([t \in 1..SlCount(lo, hi, s) |-> lo + (t - 1) * s])

\* all points of the product of the coordinate vectors `vecs`, stored as rows; order "C": the first axis varies
\* slowest and the last one fastest, "F": vice versa
PointsOf(vecs, order) ==
  LET n == Len(vecs)
      shp == Fz([a \in 1..n |-> Len(vecs[a])])
      N == IProd(shp, 1, n)
  IN  Fz([r \in 1..N |-> Fz([a \in 1..n |->
         vecs[a][(((r - 1) \div (IF order = "C" THEN IProd(shp, a + 1, n) ELSE IProd(shp, 1, a - 1))) % shp[a]) + 1]])])

(* ========================= interval products ============================ *)
BMin(b)    == Fz([a \in 1..Len(b) |-> b[a][1]])
BMax(b)    == Fz([a \in 1..Len(b) |-> b[a][2]])
Degen(ax)  == ax[1] = ax[2]
NonDeg(b)  == {a \in 1..Len(b) : ~Degen(b[a])}
TrueNdim(b) == Cardinality(NonDeg(b))
BExtent(b) == Fz([a \in 1..Len(b) |-> QSub(b[a][2], b[a][1])])
BMid(b)    == Fz([a \in 1..Len(b) |-> QHalf(QAdd(b[a][1], b[a][2]))])
BoxOK(b)   == \A a \in 1..Len(b) : QLe(b[a][1], b[a][2])

\* constructor IntervalProd(min_pt, max_pt): vectors of lower / upper ends; errors: different lengths, NaN, max < min
BoxNew(mn, mx) ==
  IF Len(mn) # Len(mx) THEN RErr
  ELSE IF \E a \in 1..Len(mn) : IsNaNQ(mn[a]) \/ IsNaNQ(mx[a]) THEN RErr
  ELSE IF \E a \in 1..Len(mn) : QLt(mx[a], mn[a]) THEN RErr
  ELSE Box(Fz([a \in 1..Len(mn) |-> <<mn[a], mx[a]>>]))

\* measure(ndim): Lebesgue measure of dimension ndim; None = true_ndim ("always finite and positive unless the set is
\* a single point"); a lower-dimensional measure of the set is infinite, a higher-dimensional one is zero
Measure(b, nd) ==
  LET t == TrueNdim(b)  m == IF nd = NONE THEN t ELSE nd
  IN  IF t = 0 THEN QZero
      ELSE IF m < t THEN Inf
      ELSE IF m > t THEN QZero
      ELSE QProdSeq(Keep(BExtent(b), NonDeg(b), 1))

\* distance of a coordinate to an interval
Gap(ax, p) == IF QLt(p, ax[1]) THEN QSub(ax[1], p) ELSE IF QLt(ax[2], p) THEN QSub(p, ax[2]) ELSE QZero
Gaps(b, pt) == Fz([a \in 1..Len(b) |-> Gap(b[a], pt[a])])
\* dist(point, exponent): norm of the vector of coordinate distances; returned as its p-th POWER for p in {1, 2}
\* (so that the value is rational) and as the maximum for p = inf; a point with NaN has distance inf
DistPow(b, pt, e) ==
  IF \E a \in 1..Len(pt) : IsNaNQ(pt[a]) THEN Inf
  ELSE IF Len(b) = 0 THEN QZero
  ELSE CASE e = "1"   -> QSumSeq(Gaps(b, pt))
         [] e = "2"   -> QSumSeq([a \in 1..Len(b) |-> QSq(Gap(b[a], pt[a]))])
         [] e = "inf" -> QMaxSeq(Gaps(b, pt))
BContains(b, pt) ==
  /\ Len(pt) = Len(b)
  /\ \A a \in 1..Len(b) : ~IsNaNQ(pt[a]) /\ QLe(b[a][1], pt[a]) /\ QLe(pt[a], b[a][2])
\* "maximum allowed distance in maximum norm from point to self"
BApproxContains(b, pt, t) ==
  /\ Len(pt) = Len(b)
  /\ \A a \in 1..Len(b) : ~IsNaNQ(pt[a]) /\ QLe(Gap(b[a], pt[a]), t)
\* corners: 2^m x ndim, m = number of non-degenerate axes
CornerVecs(b) == Fz([a \in 1..Len(b) |-> IF Degen(b[a]) THEN <<b[a][1]>> ELSE <<b[a][1], b[a][2]>>])
BCorners(b, order) == PointsOf(CornerVecs(b), order)
\* contains_set(other, atol): other is (almost) contained: every point of other has max-norm distance <= atol from
\* self.  A box is the convex hull of its corners and the distance to a box is convex, so this is decided by the corners.
BContainsSet(b, c, t) ==
  /\ Len(b) = Len(c)
  /\ LET cs == BCorners(c, "C") IN \A r \in 1..Len(cs) : BApproxContains(b, cs[r], t)
\* the same predicate in closed form (law: equal to the definition)
BContainsSetAxes(b, c, t) ==
  /\ Len(b) = Len(c)
  /\ \A a \in 1..Len(b) : QLe(QSub(b[a][1], t), c[a][1]) /\ QLe(c[a][2], QAdd(b[a][2], t))
\* approx_equals(other, atol): "maximum allowed difference in maximum norm between the interval endpoints"
BApproxEquals(b, c, t) ==
  /\ Len(b) = Len(c)
  /\ \A a \in 1..Len(b) : QLe(QDist(b[a][1], c[a][1]), t) /\ QLe(QDist(b[a][2], c[a][2]), t)
\* contains_all(points, atol): all points are contained ("maximum allowed distance in inf-norm")
BContainsAll(b, pts, t) == \A r \in 1..Len(pts) : BApproxContains(b, pts[r], t)

\* collapse(indices, values): the given axes are collapsed to the single values; values must lie in the intervals
BCollapse(b, ix, vals) ==
  IF Len(ix) # Len(vals) THEN RErr
  ELSE IF \E t \in 1..Len(ix) : ix[t] \notin 0..(Len(b) - 1) THEN RErr
  ELSE IF \E t \in 1..Len(ix) : QLt(vals[t], b[ix[t] + 1][1]) \/ QLt(b[ix[t] + 1][2], vals[t]) THEN RErr
  ELSE Box(Fz([a \in 1..Len(b) |->
              IF \E t \in 1..Len(ix) : ix[t] + 1 = a
                THEN LET t == CHOOSE t \in 1..Len(ix) : ix[t] + 1 = a IN <<vals[t], vals[t]>>
                ELSE b[a]]))
BSqueeze(b) == Keep(b, NonDeg(b), 1)
\* insert(index, *others): the others are inserted as a block before `index`; -ndim <= index <= ndim,
\* negative indices count backwards from ndim
SeqInsert(s, index, blocks) ==
  LET i == IF index < 0 THEN index + Len(s) ELSE index
  IN  SubSeq(s, 1, i) \o Flatten(blocks) \o SubSeq(s, i + 1, Len(s))
InsertOK(s, index) == -Len(s) <= index /\ index <= Len(s)
\* getitem: int -> the single axis, slice -> the selected axes, list of ints -> free combination of axes
BGetItem(b, it) ==
  LET n == Len(b)
  IN  CASE it.k = "int"   -> IF IntOK(it.i, n) THEN Box(<<b[NormInt(it.i, n) + 1]>>) ELSE RErr
        [] it.k = "slice" -> Box(Pick(b, SlIdx(it, n)))
        [] it.k = "list"  -> IF \A t \in 1..Len(it.l) : IntOK(it.l[t], n)
                               THEN Box(Fz([t \in 1..Len(it.l) |-> b[NormInt(it.l[t], n) + 1]])) ELSE RErr
        [] OTHER -> RErr

(* --- interval arithmetic: A op B is the smallest box containing {x op y : x in A, y in B} (per axis) --- *)
BNeg(b)     == Fz([a \in 1..Len(b) |-> <<QNeg(b[a][2]), QNeg(b[a][1])>>])
BAddS(b, s) == Fz([a \in 1..Len(b) |-> <<QAdd(b[a][1], s), QAdd(b[a][2], s)>>])
BAddB(b, c) == Fz([a \in 1..Len(b) |-> <<QAdd(b[a][1], c[a][1]), QAdd(b[a][2], c[a][2])>>])
BSubB(b, c) == Fz([a \in 1..Len(b) |-> <<QSub(b[a][1], c[a][2]), QSub(b[a][2], c[a][1])>>])
MulSAxis(ax, s) == IF QLe(QZero, s) THEN <<QMul(ax[1], s), QMul(ax[2], s)>> ELSE <<QMul(ax[2], s), QMul(ax[1], s)>>
BMulS(b, s) == Fz([a \in 1..Len(b) |-> MulSAxis(b[a], s)])
\* product of two intervals by the classical sign table: P (lo >= 0), N (hi <= 0), M (lo < 0 < hi)
SignCls(ax) == IF QLe(QZero, ax[1]) THEN "P" ELSE IF QLe(ax[2], QZero) THEN "N" ELSE "M"
MulAxis(x, y) ==
  LET a == x[1]  b == x[2]  c == y[1]  d == y[2]  sx == SignCls(x)  sy == SignCls(y)
  IN  CASE sx = "P" /\ sy = "P" -> <<QMul(a, c), QMul(b, d)>>
        [] sx = "P" /\ sy = "M" -> <<QMul(b, c), QMul(b, d)>>
        [] sx = "P" /\ sy = "N" -> <<QMul(b, c), QMul(a, d)>>
        [] sx = "M" /\ sy = "P" -> <<QMul(a, d), QMul(b, d)>>
        [] sx = "M" /\ sy = "M" -> <<QMin(QMul(a, d), QMul(b, c)), QMax(QMul(a, c), QMul(b, d))>>
        [] sx = "M" /\ sy = "N" -> <<QMul(b, c), QMul(a, c)>>
        [] sx = "N" /\ sy = "P" -> <<QMul(a, d), QMul(b, c)>>
        [] sx = "N" /\ sy = "M" -> <<QMul(a, d), QMul(a, c)>>
        [] sx = "N" /\ sy = "N" -> <<QMul(b, d), QMul(a, c)>>
BMulB(b, c) == Fz([a \in 1..Len(b) |-> MulAxis(b[a], c[a])])
HasZero(ax) == QLe(ax[1], QZero) /\ QLe(QZero, ax[2])
BHasZero(b) == \E a \in 1..Len(b) : HasZero(b[a])
BRecip(b)   == Fz([a \in 1..Len(b) |-> <<QInv(b[a][2]), QInv(b[a][1])>>])     \* no axis contains 0

(* =============================== grids =================================== *)
StrictInc(v) == \A i \in 1..(Len(v) - 1) : QLt(v[i], v[i + 1])
GridOK(g)    == \A a \in 1..Len(g) : Len(g[a]) >= 1 /\ StrictInc(g[a])
\* RectGrid(*vectors): sorted ascending, no duplicates, no empty vectors, finite entries
GridNew(vecs) ==
  IF \E a \in 1..Len(vecs) : Len(vecs[a]) = 0 THEN RErr
  ELSE IF \E a \in 1..Len(vecs) : \E i \in 1..Len(vecs[a]) : ~IsFinite(vecs[a][i]) THEN RErr
  ELSE IF \E a \in 1..Len(vecs) : ~StrictInc(vecs[a]) THEN RErr
  ELSE Grid(vecs)
GShape(g)   == Fz([a \in 1..Len(g) |-> Len(g[a])])
GSize(g)    == IProd(GShape(g), 1, Len(g))
GMin(g)     == Fz([a \in 1..Len(g) |-> g[a][1]])
GMax(g)     == Fz([a \in 1..Len(g) |-> g[a][Len(g[a])]])
GMid(g)     == Fz([a \in 1..Len(g) |-> QHalf(QAdd(g[a][1], g[a][Len(g[a])]))])
GExtent(g)  == Fz([a \in 1..Len(g) |-> QSub(g[a][Len(g[a])], g[a][1])])
UniformVec(v) == \A i \in 1..(Len(v) - 2) : QSub(v[i + 1], v[i]) = QSub(v[i + 2], v[i + 1])
\* stride: step of a uniform axis, NaN on a non-uniform axis, 0 on a degenerate (length 1) axis
StrideVec(v) == IF Len(v) = 1 THEN QZero
                ELSE IF UniformVec(v) THEN QDiv(QSub(v[Len(v)], v[1]), QI(Len(v) - 1)) ELSE NaN
GContains(g, pt) == Len(pt) = Len(g) /\ \A a \in 1..Len(g) : \E i \in 1..Len(g[a]) : g[a][i] = pt[a]
\* "allow deviations up to this number in absolute value per vector entry"
NearVec(v, x, t) == \E i \in 1..Len(v) : QLe(QDist(v[i], x), t)
GApproxContains(g, pt, t) == Len(pt) = Len(g) /\ \A a \in 1..Len(g) : NearVec(g[a], pt[a], t)
\* is_subgrid(other, atol): "all coordinate vectors of self are within absolute distance atol of the other grid"
GIsSubgrid(g, h, t) ==
  /\ Len(g) = Len(h)
  /\ \A a \in 1..Len(g) : \A i \in 1..Len(g[a]) : NearVec(h[a], g[a][i], t)
\* approx_equals(other, atol): all coordinate vectors equal up to atol per entry
GApproxEquals(g, h, t) ==
  /\ Len(g) = Len(h)
  /\ GShape(g) = GShape(h)
  /\ \A a \in 1..Len(g) : \A i \in 1..Len(g[a]) : QLe(QDist(g[a][i], h[a][i]), t)
\* squeeze(axis): remove the degenerate (length 1) axes among the given subset (0-based set), default all
GSqueeze(g, axes) == Keep(g, {a \in 1..Len(g) : ~((a - 1) \in axes /\ Len(g[a]) = 1)}, 1)
GCornerGrid(g) == Fz([a \in 1..Len(g) |-> IF Len(g[a]) = 1 THEN g[a] ELSE <<g[a][1], g[a][Len(g[a])]>>])
GHull(g) == Fz([a \in 1..Len(g) |-> <<g[a][1], g[a][Len(g[a])]>>])
\* grid[indices]: ints, slices, one Ellipsis; too few indices are filled up with an ellipsis from the right;
\* None (new axis) and empty axes are not supported; all-integer indices give a point, otherwise a grid in
\* which an integer index keeps its axis with the one selected point
NumEll(items)  == Cardinality({t \in 1..Len(items) : items[t].k = "ell"})
Normalise(items0, ndim) ==
  LET items == IF NumEll(items0) = 0 /\ Len(items0) < ndim THEN Append(items0, IEll) ELSE items0
  IN  IF NumEll(items) = 0 THEN items
      ELSE LET e == CHOOSE t \in 1..Len(items) : items[t].k = "ell"
               extra == ndim - (Len(items) - 1)
           IN  SubSeq(items, 1, e - 1) \o [t \in 1..extra |-> IFull] \o SubSeq(items, e + 1, Len(items))
GItemOK(it, n) ==
  CASE it.k = "int"   -> IntOK(it.i, n)
    [] it.k = "slice" -> SlStep(it.s) >= 1 /\ SlStart(it.a, n) < SlStop(it.b, n)
    [] OTHER          -> FALSE
GIdxOK(g, items) ==
  /\ \A t \in 1..Len(items) : items[t].k \in {"int", "slice", "ell"}
  /\ NumEll(items) <= 1
  /\ Len(items) - NumEll(items) <= Len(g)
  /\ LET nrm == Normalise(items, Len(g))
     IN  Len(nrm) = Len(g) /\ \A a \in 1..Len(g) : GItemOK(nrm[a], Len(g[a]))
GGetItem(g, items) ==
  IF ~GIdxOK(g, items) THEN RErr
  ELSE LET nrm == Normalise(items, Len(g))
       IN  IF \A a \in 1..Len(g) : nrm[a].k = "int"
             THEN RQs(Fz([a \in 1..Len(g) |-> g[a][NormInt(nrm[a].i, Len(g[a])) + 1]]))
             ELSE Grid(Fz([a \in 1..Len(g) |->
                          IF nrm[a].k = "int" THEN <<g[a][NormInt(nrm[a].i, Len(g[a])) + 1]>>
                          ELSE Pick(g[a], SlIdx(nrm[a], Len(g[a])))]))
\* meshgrid: one array per axis, with the coordinate vector along its own axis and length 1 along the others
GMesh(g) == Fz([a \in 1..Len(g) |-> [shape |-> [c \in 1..Len(g) |-> IF c = a THEN Len(g[a]) ELSE 1], vals |-> g[a]]])
\* uniform_grid_fromintv(box, shape, nodes_on_bdry): n equally spaced nodes per axis; on a side flagged True the
\* outermost node lies on the boundary, otherwise it is shifted by half a cell (= half a stride) into the interior:
\*      first = lo + hL * s,  last = hi - hR * s,  last = first + (n - 1) * s      with hX = 0 (True) or 1/2 (False)
\* degenerate axes must have n = 1.  nb[a] = <<L, R>> as 0/1.
HalfOf(f) == IF f = 1 THEN QZero ELSE <<1, 2>>
UAxisOK(ax, n, L, R) == n >= 1 /\ (Degen(ax) => n = 1) /\ ~(~Degen(ax) /\ n = 1 /\ L = 1 /\ R = 1)
UStride(ax, n, L, R) == QDiv(QSub(ax[2], ax[1]), QAdd(QI(n - 1), QAdd(HalfOf(L), HalfOf(R))))
UNodes(ax, n, L, R) ==
  IF Degen(ax) THEN <<ax[1]>>
  ELSE LET s == UStride(ax, n, L, R)  g0 == QAdd(ax[1], QMul(HalfOf(L), s))
       IN  Fz([i \in 1..n |-> QAdd(g0, QMul(QI(i - 1), s))])
\* specified: n >= 1; a degenerate axis with n > 1 is an error; n = 1 with both nodes on the boundary of a
\* non-degenerate axis is contradictory and left unspecified (never asked)
UGridSpecified(b, shp, nb) ==
  /\ Len(shp) = Len(b) /\ Len(nb) = Len(b)
  /\ \A a \in 1..Len(b) : shp[a] >= 1 /\ ~(~Degen(b[a]) /\ shp[a] = 1 /\ nb[a][1] = 1 /\ nb[a][2] = 1)
UGrid(b, shp, nb) ==
  IF \E a \in 1..Len(b) : Degen(b[a]) /\ shp[a] # 1 THEN RErr
  ELSE Grid(Fz([a \in 1..Len(b) |-> UNodes(b[a], shp[a], nb[a][1], nb[a][2])]))

(* ============================ the dispatcher ============================ *)
AxisSet(c, n) == IF c.s = "all" THEN 0..(n - 1) ELSE {NormInt(c.i[t], n) : t \in 1..Len(c.i)}
NbOf(c, n) == Fz([a \in 1..n |-> <<c.i[n + 2 * a - 1], c.i[n + 2 * a]>>])       \* i = shape \o flattened (L, R) flags
Others(c) == Fz([t \in 1..Len(c.o) |-> c.o[t].v])
AllKind(c, k) == \A t \in 1..Len(c.o) : c.o[t].k = k

EvalBox(b, c) ==
  LET n == Len(b)  op == c.op
  IN  CASE op = "ndim"      -> RInt(n)
        [] op = "len"       -> RInt(n)
        [] op = "true_ndim" -> RInt(TrueNdim(b))
        [] op = "min_pt"    -> RQs(BMin(b))
        [] op = "max_pt"    -> RQs(BMax(b))
        [] op = "mid_pt"    -> RQs(BMid(b))
        [] op = "extent"    -> RQs(BExtent(b))
        [] op = "nondegen"  -> RBools(Fz([a \in 1..n |-> ~Degen(b[a])]))
        [] op = "volume"    -> RQ(Measure(b, n))
        [] op = "length"    -> IF n = 1 THEN RQ(Measure(b, n)) ELSE RErr
        [] op = "area"      -> IF n = 2 THEN RQ(Measure(b, n)) ELSE RErr
        [] op = "measure"   -> RQ(Measure(b, c.i[1]))
        [] op = "contains"  -> RBool(BContains(b, c.q))
        [] op = "approx_contains" -> RBool(BApproxContains(b, SubSeq(c.q, 2, Len(c.q)), c.q[1]))      \* q = <<atol>> \o point
        [] op = "dist"      -> IF Len(c.q) # n THEN RErr ELSE RQ(DistPow(b, c.q, c.s))
        [] op = "contains_set" ->
             IF c.o[1].k = "box" THEN RBool(BContainsSet(b, c.o[1].v, c.q[1]))
             ELSE IF c.o[1].k = "grid" THEN RBool(BContainsSet(b, GHull(c.o[1].v), c.q[1]))      \* anything with min() / max()
             ELSE RErrC("AttributeError")                                                       \* documented
        [] op = "approx_equals" -> RBool(c.o[1].k = "box" /\ BApproxEquals(b, c.o[1].v, c.q[1]))
        [] op = "contains_all" ->
             IF c.o[1].k = "grid" THEN RBool(Len(c.o[1].v) = n /\ BContainsAll(b, PointsOf(c.o[1].v, "C"), c.q[1]))
             ELSE RBool(BContainsAll(b, c.o[1].v, c.q[1]))
        [] op = "collapse"  -> BCollapse(b, c.i, c.q)
        [] op = "squeeze"   -> Box(BSqueeze(b))
        [] op = "insert"    -> IF InsertOK(b, c.i[1]) /\ AllKind(c, "box") THEN Box(SeqInsert(b, c.i[1], Others(c))) ELSE RErr
        [] op = "append"    -> IF AllKind(c, "box") THEN Box(SeqInsert(b, n, Others(c))) ELSE RErr
        [] op = "corners"   -> RPts(BCorners(b, c.s))
        [] op = "getitem"   -> BGetItem(b, c.idx[1])
        [] op = "element"   -> IF c.q = <<>> /\ c.s = "none" THEN RQs(BMid(b))
                               ELSE IF BContains(b, c.q) THEN RQs(c.q) ELSE RErr
        [] op = "pos"       -> Box(b)
        [] op = "neg"       -> Box(BNeg(b))
        [] op = "add_s"     -> Box(BAddS(b, c.q[1]))
        [] op = "sub_s"     -> Box(BAddS(b, QNeg(c.q[1])))
        [] op = "mul_s"     -> Box(BMulS(b, c.q[1]))
        [] op = "div_s"     -> IF QIsZero(c.q[1]) THEN RErr ELSE Box(BMulS(b, QInv(c.q[1])))
        [] op = "rdiv_s"    -> IF BHasZero(b) THEN RErr ELSE Box(BMulS(BRecip(b), c.q[1]))
        [] op = "add_b"     -> IF Len(c.o[1].v) # n THEN RErr ELSE Box(BAddB(b, c.o[1].v))
        [] op = "sub_b"     -> IF Len(c.o[1].v) # n THEN RErr ELSE Box(BSubB(b, c.o[1].v))
        [] op = "mul_b"     -> IF Len(c.o[1].v) # n THEN RErr ELSE Box(BMulB(b, c.o[1].v))
        [] op = "div_b"     -> IF Len(c.o[1].v) # n \/ BHasZero(c.o[1].v) THEN RErr ELSE Box(BMulB(b, BRecip(c.o[1].v)))
        [] op = "uniform_grid" ->
             IF Len(c.i) # 3 * n THEN RErr ELSE UGrid(b, SubSeq(c.i, 1, n), NbOf(c, n))
        [] OTHER -> Res("unknown-op", op)

EvalGrid(g, c) ==
  LET n == Len(g)  op == c.op
  IN  CASE op = "ndim"      -> RInt(n)
        [] op = "shape"     -> RInts(GShape(g))
        [] op = "size"      -> RInt(GSize(g))
        [] op = "len"       -> RInt(Len(g[1]))
        [] op = "min_pt"    -> RQs(GMin(g))
        [] op = "max_pt"    -> RQs(GMax(g))
        [] op = "element"   -> RQs(GMin(g))
        [] op = "mid_pt"    -> RQs(GMid(g))
        [] op = "extent"    -> RQs(GExtent(g))
        [] op = "stride"    -> RQs(Fz([a \in 1..n |-> StrideVec(g[a])]))
        [] op = "nondegen"  -> RBools(Fz([a \in 1..n |-> Len(g[a]) > 1]))
        [] op = "is_uniform_byaxis" -> RBools(Fz([a \in 1..n |-> UniformVec(g[a])]))
        [] op = "is_uniform" -> RBool(\A a \in 1..n : UniformVec(g[a]))
        [] op = "coord_vectors" -> Grid(g)
        [] op = "contains"  -> RBool(GContains(g, c.q))
        [] op = "approx_contains" -> RBool(GApproxContains(g, SubSeq(c.q, 2, Len(c.q)), c.q[1]))
        [] op = "is_subgrid" -> RBool(c.o[1].k = "grid" /\ GIsSubgrid(g, c.o[1].v, c.q[1]))
        [] op = "is_supergrid" -> RBool(c.o[1].k = "grid" /\ GIsSubgrid(c.o[1].v, g, c.q[1]))     \* other.is_subgrid(self)
        [] op = "approx_equals" -> RBool(c.o[1].k = "grid" /\ GApproxEquals(g, c.o[1].v, c.q[1]))
        [] op = "insert"    -> IF InsertOK(g, c.i[1]) /\ AllKind(c, "grid") THEN Grid(SeqInsert(g, c.i[1], Others(c))) ELSE RErr
        [] op = "append"    -> IF AllKind(c, "grid") THEN Grid(SeqInsert(g, n, Others(c))) ELSE RErr
        [] op = "squeeze"   -> IF c.s # "all" /\ \E t \in 1..Len(c.i) : ~IntOK(c.i[t], n) THEN RErr
                               ELSE Grid(GSqueeze(g, AxisSet(c, n)))
        [] op = "points"    -> RPts(PointsOf(g, c.s))
        [] op = "corner_grid" -> Grid(GCornerGrid(g))
        [] op = "corners"   -> RPts(PointsOf(GCornerGrid(g), c.s))
        [] op = "convex_hull" -> Box(GHull(g))
        [] op = "meshgrid"  -> Res("mesh", GMesh(g))
        [] op = "getitem"   -> GGetItem(g, c.idx)
        [] OTHER -> Res("unknown-op", op)

Eval(obj, c) == IF obj.k = "box" THEN EvalBox(obj.v, c) ELSE EvalGrid(obj.v, c)
IsObj(r) == r.k \in {"box", "grid"}

(* ============================== basic sets =============================== *)
(* A value is described by its Python kind:                                  *)
(*   [t |-> "int" | "real" | "complex" | "str" | "none" | "seq" | "other", n |-> length (str, seq),           *)
(*    items |-> Seq(value) (seq), id |-> name in the harness catalogue]                                        *)
(* A set descriptor: [cls, sub |-> Seq(set), n |-> Strings length, els |-> Seq(value) (FiniteSet)].            *)
SetD(cls, sub, n, els) == [cls |-> cls, sub |-> sub, n |-> n, els |-> els]
Fields == {"Integers", "RealNumbers", "ComplexNumbers"}
AChar == [id |-> "char", t |-> "str", n |-> 1, items |-> <<>>]
RECURSIVE SContains(_, _)
SContains(S, x) ==
  CASE S.cls = "EmptySet"       -> x.t = "none"                   \* "None in EmptySet() is the only test that evaluates to True"
    [] S.cls = "UniversalSet"   -> TRUE
    [] S.cls = "Integers"       -> x.t = "int"
    [] S.cls = "RealNumbers"    -> x.t \in {"int", "real"}
    [] S.cls = "ComplexNumbers" -> x.t \in {"int", "real", "complex"}
    [] S.cls = "Strings"        -> x.t = "str" /\ x.n = S.n       \* "a string of exactly length characters"
    [] S.cls = "CartesianProduct" ->                              \* "a sequence with same length ... each entry contained"
         \/ x.t = "seq" /\ x.n = Len(S.sub) /\ \A k \in 1..Len(S.sub) : SContains(S.sub[k], x.items[k])
         \/ x.t = "str" /\ x.n = Len(S.sub) /\ \A k \in 1..Len(S.sub) : SContains(S.sub[k], AChar)   \* a string is a sequence of characters
    [] S.cls = "SetUnion"        -> \E k \in 1..Len(S.sub) : SContains(S.sub[k], x)
    [] S.cls = "SetIntersection" -> \A k \in 1..Len(S.sub) : SContains(S.sub[k], x)
    [] S.cls = "FiniteSet"       -> \E k \in 1..Len(S.els) : S.els[k].id = x.id
RECURSIVE SEq(_, _)
SEq(S, T) ==
  /\ S.cls = T.cls
  /\ CASE S.cls = "Strings" -> S.n = T.n
       [] S.cls = "CartesianProduct" -> Len(S.sub) = Len(T.sub) /\ \A k \in 1..Len(S.sub) : SEq(S.sub[k], T.sub[k])
       [] S.cls \in {"SetUnion", "SetIntersection"} ->
            /\ \A i \in 1..Len(S.sub) : \E j \in 1..Len(T.sub) : SEq(S.sub[i], T.sub[j])
            /\ \A j \in 1..Len(T.sub) : \E i \in 1..Len(S.sub) : SEq(S.sub[i], T.sub[j])
       [] S.cls = "FiniteSet" -> {S.els[k].id : k \in 1..Len(S.els)} = {T.els[k].id : k \in 1..Len(T.els)}
       [] OTHER -> TRUE
\* contains_set as DOCUMENTED per class; the default implementation "simply tests for equality"
SContainsSet(S, T) ==
  CASE S.cls = "EmptySet"       -> T.cls = "EmptySet"
    [] S.cls = "UniversalSet"   -> TRUE
    [] S.cls = "ComplexNumbers" -> T.cls \in {"ComplexNumbers", "RealNumbers", "Integers"}
    [] S.cls = "RealNumbers"    -> T.cls \in {"RealNumbers", "Integers"}
    [] S.cls = "Integers"       -> T.cls = "Integers"
    [] OTHER -> SEq(S, T)
\* contains_all(sequence): all elements are contained
SContainsAll(S, xs) == \A k \in 1..Len(xs) : SContains(S, xs[k])
\* element(inp): "member of this set"; inp = None -> an arbitrary element.  Expected: "member" (any member of S),
\* [val |-> id] (that very value), "err"
RECURSIVE HasInter(_)
HasInter(S) == S.cls = "SetIntersection" \/ \E k \in 1..Len(S.sub) : HasInter(S.sub[k])
\* contains_all is documented for sequences of numbers (fields), of strings (Strings), of anything (default implementation)
SAllAsked(S, xs) ==
  CASE S.cls \in Fields    -> \A k \in 1..Len(xs) : xs[k].t \in {"int", "real", "complex"}
    [] S.cls = "Strings" -> \A k \in 1..Len(xs) : xs[k].t = "str" /\ xs[k].n = xs[1].n    \* "size": of the entries or of the dtype
    [] OTHER -> TRUE
SElement(S, x) ==
  CASE HasInter(S) -> "unspecified"                             \* SetIntersection documents no element()
    [] x.t = "none" -> "member"
    [] S.cls = "UniversalSet" -> "same"
    [] S.cls = "FiniteSet" -> IF SContains(S, x) THEN "same" ELSE "err"
    [] S.cls \in Fields /\ SContains(S, x) -> "equal"             \* the number itself (as float / complex / int)
    [] S.cls = "Strings" /\ SContains(S, x) -> "equal"
    [] S.cls = "CartesianProduct" /\ SContains(S, x) -> "equal"
    [] OTHER -> "unspecified"
=============================================================================

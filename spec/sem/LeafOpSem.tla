------------------------------ MODULE LeafOpSem ------------------------------
(***************************************************************************)
(* Layer A: VALUE semantics of ODL's built-in leaf operators, written from  *)
(* the docstrings of odl/operator/tensor_ops.py and default_ops.py (class   *)
(* formulas, Parameters, Notes and Examples sections) - not from the code.  *)
(*                                                                         *)
(* Values.  An element is a sequence of PARTS, every part the flat C-order  *)
(* sequence of the entries (Gaussian rationals) of one tensor:              *)
(*    base-space element  <<t>>        field element  << <<z>> >>           *)
(*    vector field (power space X^d)   <<t_1, ..., t_d>>                    *)
(* Spaces.  [t, n, shape, fld, b]:  t = "T" tensor-type space, "P" power    *)
(* space of n copies, "F" the field itself;  fld = "R" | "C";  b says which *)
(* concrete class the space has relative to the space the user wrote:       *)
(*    "base"   the user's space class (rn / weighted rn / uniform_discr)    *)
(*    "plain"  an unweighted tensor space (rn(n) / cn(n))                   *)
(*    "wplain" a tensor space carrying the constant weighting of the base   *)
(* Environment env = [wt, cv]: weighting constant of the base space (the    *)
(* cell volume for a discretised space) and its `cell_volume` attribute     *)
(* (1 when the space has none).                                             *)
(*                                                                         *)
(* An operator DESCRIPTION is a record with a uniform field set (Mk); its   *)
(* meaning is Eval / Dom / Ran / Linear, and the documented derived objects *)
(* are again descriptions: Adj, Inv, Deriv.  Norm-like values that are      *)
(* irrational on rational data are specified through Pw(D): Eval gives the  *)
(* documented value RAISED to the power Pw(D) (1 or 2), together with the   *)
(* documented sign (non-negative).                                          *)
(***************************************************************************)
EXTENDS Vec, TLC

(* ------------------------------- shapes --------------------------------- *)
RECURSIVE Prod(_)
Prod(s) == IF s = <<>> THEN 1 ELSE Head(s) * Prod(Tail(s))
\* multi-indices are 0-based sequences; flat positions are 0-based
RECURSIVE Unravel(_, _)
Unravel(shape, k) == IF shape = <<>> THEN <<>>
                     ELSE LET pr == Prod(Tail(shape)) IN <<k \div pr>> \o Unravel(Tail(shape), k % pr)
RECURSIVE RavelC(_, _)
RavelC(shape, idx) == IF shape = <<>> THEN 0 ELSE idx[1] * Prod(Tail(shape)) + RavelC(Tail(shape), Tail(idx))
RECURSIVE RavelF(_, _)
RavelF(shape, idx) == IF shape = <<>> THEN 0 ELSE idx[1] + shape[1] * RavelF(Tail(shape), Tail(idx))
At(shape, t, idx) == t[RavelC(shape, idx) + 1]
Tensor(shape, f(_)) == [k \in 1..Prod(shape) |-> f(Unravel(shape, k - 1))]
SetAx(idx, ax, j) == [idx EXCEPT ![ax + 1] = j]
InShape(shape, idx) == Len(idx) = Len(shape) /\ \A a \in 1..Len(shape) : idx[a] \in 0..(shape[a] - 1)

(* ------------------------------- spaces --------------------------------- *)
T(shape, fld, b) == [t |-> "T", n |-> 1, shape |-> shape, fld |-> fld, b |-> b]
PowSp(base, n)   == [base EXCEPT !.t = "P", !.n = n]
Fld(fld)         == [t |-> "F", n |-> 1, shape |-> <<>>, fld |-> fld, b |-> "plain"]
Plain(shape, fld) == T(shape, fld, "plain")
BaseOf(sp)       == [sp EXCEPT !.t = "T", !.n = 1]
RealSp(sp)       == [sp EXCEPT !.fld = "R"]
CplxSp(sp)       == [sp EXCEPT !.fld = "C"]
NoSp             == [t |-> "-", n |-> 0, shape |-> <<>>, fld |-> "-", b |-> "-"]
SizeOf(sp)       == Prod(sp.shape)
ZeroEl(sp)       == [j \in 1..sp.n |-> VZeroN(SizeOf(sp))]
Env(wt, cv)      == [wt |-> wt, cv |-> cv]

(* ---------------------------- descriptions ------------------------------ *)
\*  k    kind                          sp   the space the user passed (base space of the vector fields)
\*  q    exponent (Q or Inf)           w    weights of the operator (sequence of Q; effective, see WEff)
\*  pw   weights of the power space    v    vector parameter (sequence of parts)
\*  m    matrix (rows of C)            ax   axis           pts  sampling points (sequence of multi-indices)
\*  var  variant / order               a, b scalars (C)    n    integer parameter (components / exponent)
\*  ran  explicit range                c    scalar factor applied to the result (scalar multiples handed out)
Mk(k, sp, env) == [k |-> k, sp |-> sp, env |-> env, n |-> 0, q |-> QOne, w |-> <<>>, pw |-> <<>>, v |-> <<>>,
                   m |-> <<>>, ax |-> 0, pts |-> <<>>, var |-> "", a |-> COne, b |-> CZero, ran |-> sp,
                   c |-> COne, ok |-> TRUE, why |-> ""]
Err(why) == [Mk("err", NoSp, Env(QOne, QOne)) EXCEPT !.ok = FALSE, !.why = why]

\* effective weights: the operator's `weighting` argument, by default the weighting of the vector field space
WEff(D) == IF D.w # <<>> THEN D.w ELSE D.pw
Ones(n) == [j \in 1..n |-> QOne]

Kinds == {"pwnorm", "pwinner", "pwinneradj", "pwsum", "mat", "sample", "wsum", "flat", "unflat", "scale", "id",
          "lincomb", "mul", "mulS", "mulC", "pow", "inner", "norm", "dist", "const", "zero", "reim", "cemb",
          "cmod", "cmod2", "cmodd", "cmodda", "cmod2d", "cmod2da"}

(* --------------------------- domain and range --------------------------- *)
Dom(D) ==
  CASE D.k \in {"pwnorm", "pwinner", "pwsum"} -> PowSp(D.sp, D.n)
    [] D.k = "lincomb"                        -> PowSp(D.sp, 2)
    [] D.k \in {"wsum", "unflat"}             -> Plain(<<(IF D.k = "wsum" THEN Len(D.pts) ELSE SizeOf(D.sp))>>, D.sp.fld)
    [] D.k = "mulS"                           -> Fld(D.sp.fld)
    [] D.k \in {"cmodda", "cmod2da"}          -> RealSp(D.sp)
    [] OTHER                                  -> D.sp
Ran(D) ==
  CASE D.k \in {"pwnorm", "pwinner", "pwsum"} -> D.sp
    [] D.k = "pwinneradj"                     -> PowSp(D.sp, D.n)
    [] D.k \in {"mat", "zero", "const"}       -> D.ran
    [] D.k = "sample"                         -> Plain(<<Len(D.pts)>>, D.sp.fld)
    [] D.k = "flat"                           -> Plain(<<SizeOf(D.sp)>>, D.sp.fld)
    [] D.k = "inner"                          -> Fld(D.sp.fld)
    [] D.k \in {"norm", "dist"}               -> Fld("R")
    [] D.k \in {"reim", "cmod", "cmod2", "cmodd", "cmod2d"} -> RealSp(D.sp)
    [] D.k = "cemb"                           -> CplxSp(D.sp)
    [] OTHER                                  -> D.sp

\* linearity as documented: the pointwise inner products / sums, matrices, sampling, flattening, scaling, identity,
\* linear combination, multiplication, inner product, zero, real / imaginary part, embedding are linear; the power
\* operator iff the exponent is 1; the constant operator iff the constant is zero; norms / moduli are not.
Linear(D) ==
  CASE D.k \in {"pwnorm", "norm", "dist", "cmod", "cmod2"} -> FALSE
    [] D.k = "pow"   -> D.n = 1
    [] D.k = "const" -> D.v = ZeroEl(D.ran)
    [] OTHER -> TRUE

Pw(D) == IF (D.k = "pwnorm" /\ D.q = <<2, 1>>) \/ D.k \in {"norm", "dist"} THEN 2 ELSE 1

(* ------------------------------ evaluation ------------------------------ *)
CModQ(z) == QSqrt(CAbs2(z))                 \* |z| for entries with rational modulus
HasMod(z) == QIsSquare(CAbs2(z))
RECURSIVE QSumF(_, _, _)
QSumF(f(_), lo, hi) == IF lo > hi THEN QZero ELSE QAdd(f(lo), QSumF(f, lo + 1, hi))
RECURSIVE CSumF(_, _, _)
CSumF(f(_), lo, hi) == IF lo > hi THEN CZero ELSE CAdd(f(lo), CSumF(f, lo + 1, hi))
RECURSIVE QMaxF(_, _, _)
QMaxF(f(_), lo, hi) == IF lo = hi THEN f(lo) ELSE QMax(f(lo), QMaxF(f, lo + 1, hi))

\* ||F(x)|| = [ sum_j w_j |F_j(x)|^p ]^(1/p),  max_j w_j |F_j(x)| for p = inf      (raised to Pw: p = 2 -> squared)
PwNormAt(q, w, col) ==
  LET d == Len(col) IN
  CASE q = QOne    -> LET f(j) == QMul(w[j], CModQ(col[j])) IN QSumF(f, 1, d)
    [] q = <<2, 1>> -> LET f(j) == QMul(w[j], CAbs2(col[j])) IN QSumF(f, 1, d)
    [] q = Inf     -> LET f(j) == QMul(w[j], CModQ(col[j])) IN QMaxF(f, 1, d)
Col(x, i) == [j \in 1..Len(x) |-> x[j][i]]

\* (A . T)_{i_1..i_k..i_d} = sum_j A_{i_k j} T_{i_1..j..i_d}
MatApply(m, ax, dshape, rshape, t) ==
  LET f(idx) == LET g(j) == CMul(m[idx[ax + 1] + 1][j], At(dshape, t, SetAx(idx, ax, j - 1))) IN CSumF(g, 1, Len(m[1]))
  IN  Tensor(rshape, f)

\* W_I(g)(x) = sum_{i in I} d_i(x) g_i : every occurrence of an index contributes its value
WSumApply(shape, pts, g) ==
  LET f(idx) == LET h(n) == IF pts[n] = idx THEN g[n] ELSE CZero IN CSumF(h, 1, Len(pts))
  IN  Tensor(shape, f)

\* ravel in C order: last index fastest; in F order: first index fastest
FlatApply(shape, ord, t) ==
  IF ord = "C" THEN t
  ELSE [k \in 1..Prod(shape) |-> t[CHOOSE p \in 1..Prod(shape) : RavelF(shape, Unravel(shape, p - 1)) = k - 1]]
UnflatApply(shape, ord, y) ==
  IF ord = "C" THEN y ELSE [p \in 1..Prod(shape) |-> y[RavelF(shape, Unravel(shape, p - 1)) + 1]]

InnerBase(wt, x, y) == CScal(wt, CSumSeq(VMul(x, VConj(y))))
ReV(x) == [i \in 1..Len(x) |-> CR(Re(x[i]))]
ImV(x) == [i \in 1..Len(x) |-> CR(Im(x[i]))]
ModV(x) == [i \in 1..Len(x) |-> CR(CModQ(x[i]))]
ReImDot(v, y) == VAdd(VMul(ReV(v), ReV(y)), VMul(ImV(v), ImV(y)))

Eval0(D, x) ==
  LET N == SizeOf(D.sp) wt == D.env.wt cv == D.env.cv IN
  CASE D.k = "pwnorm"  -> << [i \in 1..N |-> CR(PwNormAt(D.q, WEff(D), Col(x, i)))] >>
    [] D.k \in {"pwinner", "pwsum"} ->
         << [i \in 1..N |-> LET f(j) == CScal(WEff(D)[j], CMul(x[j][i], CConj(D.v[j][i]))) IN CSumF(f, 1, D.n)] >>
    \* x --> h(x) * (w / v) * G(x)
    [] D.k = "pwinneradj" -> [j \in 1..D.n |-> [i \in 1..N |-> CScal(QDiv(WEff(D)[j], D.pw[j]), CMul(x[1][i], D.v[j][i]))]]
    [] D.k = "mat"     -> << MatApply(D.m, D.ax, D.sp.shape, D.ran.shape, x[1]) >>
    \* c * f[sampling_points], c = 1 ('point_eval') or the cell volume ('integrate')
    [] D.k = "sample"  -> << [n \in 1..Len(D.pts) |-> CScal(IF D.var = "integrate" THEN cv ELSE QOne, At(D.sp.shape, x[1], D.pts[n]))] >>
    \* 'dirac' scales by the reciprocal cell volume of the range
    [] D.k = "wsum"    -> << VScal(CR(IF D.var = "dirac" THEN QInv(cv) ELSE QOne), WSumApply(D.sp.shape, D.pts, x[1])) >>
    [] D.k = "flat"    -> << FlatApply(D.sp.shape, D.var, x[1]) >>
    [] D.k = "unflat"  -> << UnflatApply(D.sp.shape, D.var, x[1]) >>
    [] D.k \in {"scale", "mulC", "cemb"} -> [j \in 1..Len(x) |-> VScal(D.a, x[j])]
    [] D.k = "id"      -> x
    [] D.k = "lincomb" -> << VLincomb(D.a, x[1], D.b, x[2]) >>
    [] D.k = "mul"     -> << VMul(x[1], D.v[1]) >>
    [] D.k = "mulS"    -> << VScal(x[1][1], D.v[1]) >>
    [] D.k = "pow"     -> << VPowN(x[1], D.n) >>
    \* the inner product is linear in the argument of the operator: <x, y>
    [] D.k = "inner"   -> << <<InnerBase(wt, x[1], D.v[1])>> >>
    [] D.k = "norm"    -> << <<InnerBase(wt, x[1], x[1])>> >>                                  \* squared
    [] D.k = "dist"    -> << <<InnerBase(wt, VSub(x[1], D.v[1]), VSub(x[1], D.v[1]))>> >>      \* squared
    [] D.k = "const"   -> D.v
    [] D.k = "zero"    -> ZeroEl(D.ran)
    [] D.k = "reim"    -> << VAdd(VScal(D.a, ReV(x[1])), VScal(D.b, ImV(x[1]))) >>
    [] D.k = "cmod"    -> << ModV(x[1]) >>
    [] D.k = "cmod2"   -> << [i \in 1..N |-> CR(CAbs2(x[1][i]))] >>
    \* M'(v)(y) = (Re v Re y + Im v Im y) / M(v) ;  M'(v)^*(u) = (Re v u, Im v u) / M(v)
    [] D.k = "cmodd"   -> << VDiv(ReImDot(D.v[1], x[1]), ModV(D.v[1])) >>
    [] D.k = "cmodda"  -> << VDiv(VMul(D.v[1], x[1]), ModV(D.v[1])) >>
    [] D.k = "cmod2d"  -> << VScal(CInt(2), ReImDot(D.v[1], x[1])) >>
    [] D.k = "cmod2da" -> << VScal(CInt(2), VMul(D.v[1], x[1])) >>

\* D.c is a factor handed out with derived objects (e.g. FlatteningOperator.adjoint = 1 / cell_volume * inverse)
Eval(D, x) == LET y == Eval0(D, x) IN IF D.c = COne THEN y ELSE [j \in 1..Len(y) |-> VScal(D.c, y[j])]

\* is x a point at which the exact carrier can express the documented value?
Evaluable(D, x) ==
  CASE D.k = "pwnorm" /\ D.q # <<2, 1>> -> \A j \in 1..Len(x) : \A i \in 1..Len(x[j]) : HasMod(x[j][i])
    [] D.k = "cmod" -> \A i \in 1..Len(x[1]) : HasMod(x[1][i])
    [] OTHER -> TRUE

(* ------------------------------- adjoint -------------------------------- *)
ConjM(m) == [j \in 1..Len(m[1]) |-> [i \in 1..Len(m) |-> CConj(m[i][j])]]
ConjParts(v) == [j \in 1..Len(v) |-> VConj(v[j])]
IsRealS(z) == IsRealC(z)

Adj(D) ==
  CASE D.k \in {"pwinner", "pwsum"} -> [D EXCEPT !.k = "pwinneradj", !.w = WEff(D)]
    [] D.k = "pwinneradj" -> [D EXCEPT !.k = "pwinner", !.w = WEff(D)]
    \* the adjoint matrix (conjugate transpose), from range to domain, same axis
    [] D.k = "mat"     -> [D EXCEPT !.m = ConjM(D.m), !.sp = D.ran, !.ran = D.sp, !.c = CConj(D.c)]
    [] D.k = "sample"  -> [D EXCEPT !.k = "wsum", !.var = IF D.var = "point_eval" THEN "dirac" ELSE "char_fun", !.c = CConj(D.c)]
    [] D.k = "wsum"    -> [D EXCEPT !.k = "sample", !.var = IF D.var = "dirac" THEN "point_eval" ELSE "integrate", !.c = CConj(D.c)]
    \* a scaled version of the inverse: 1 / cell_volume
    [] D.k = "flat"    -> [D EXCEPT !.k = "unflat", !.c = CScal(QInv(D.env.cv), CConj(D.c))]
    [] D.k = "unflat"  -> [D EXCEPT !.k = "flat", !.c = CScal(D.env.cv, CConj(D.c))]
    [] D.k \in {"scale", "mulC"} -> [D EXCEPT !.a = CConj(D.a), !.c = CConj(D.c)]
    [] D.k = "id"      -> D
    [] D.k = "mul"     -> [D EXCEPT !.v = ConjParts(D.v), !.c = CConj(D.c)]
    [] D.k = "mulS"    -> [D EXCEPT !.k = "inner", !.c = CConj(D.c)]
    [] D.k = "inner"   -> [D EXCEPT !.k = "mulS", !.c = CConj(D.c)]
    \* only defined if the operator is linear, i.e. the zero operator
    [] D.k = "const"   -> IF Linear(D) THEN [D EXCEPT !.k = "zero", !.sp = D.ran, !.ran = D.sp] ELSE Err("OpNotImplementedError")
    [] D.k = "zero"    -> [D EXCEPT !.sp = D.ran, !.ran = D.sp]
    \* RealPart.adjoint = ComplexEmbedding(1), ImagPart.adjoint = ComplexEmbedding(1j); on real spaces RealPart is
    \* self-adjoint and ImagPart's adjoint is the zero operator
    [] D.k = "reim"    -> IF D.sp.fld = "R" THEN (IF D.b = CZero THEN D ELSE [D EXCEPT !.k = "zero", !.ran = D.sp])
                          ELSE [D EXCEPT !.k = "cemb", !.sp = RealSp(D.sp), !.a = <<Re(D.a), Re(D.b)>>, !.b = CZero]
    \* (var = "sum": the general case is handed out as a SUM of multiples of real and imaginary part - an operator
    \*  expression, for which no inverse is documented; everything derived from it stays one)
    [] D.k = "cemb"    -> IF D.sp.fld = "R" THEN [D EXCEPT !.k = "reim", !.sp = CplxSp(D.sp), !.a = CR(Re(D.a)), !.b = CR(Im(D.a)),
                                                           !.var = IF Re(D.a) # QZero /\ Im(D.a) # QZero THEN "sum" ELSE D.var]
                          ELSE [D EXCEPT !.a = CConj(D.a)]
    [] D.k = "cmodd"   -> [D EXCEPT !.k = "cmodda"]
    [] D.k = "cmodda"  -> [D EXCEPT !.k = "cmodd"]
    [] D.k = "cmod2d"  -> [D EXCEPT !.k = "cmod2da"]
    [] D.k = "cmod2da" -> [D EXCEPT !.k = "cmod2d"]
    [] OTHER -> Err("no-adjoint-documented")
HasAdj(D) == D.k \in {"pwinner", "pwsum", "pwinneradj", "mat", "sample", "wsum", "flat", "unflat", "scale", "mulC", "id",
                      "mul", "mulS", "inner", "const", "zero", "reim", "cemb", "cmodd", "cmodda", "cmod2d", "cmod2da"}

(* ------------------------------- inverse -------------------------------- *)
Det2(m) == CSub(CMul(m[1][1], m[2][2]), CMul(m[1][2], m[2][1]))
MatInvertible(m) == /\ Len(m) = Len(m[1])
                    /\ \/ Len(m) = 1 /\ m[1][1] # CZero
                       \/ Len(m) = 2 /\ Det2(m) # CZero
MatInv(m) == IF Len(m) = 1 THEN << <<CInv(m[1][1])>> >>
             ELSE LET d == CInv(Det2(m)) IN << <<CMul(d, m[2][2]), CMul(d, CNeg(m[1][2]))>>,
                                               <<CMul(d, CNeg(m[2][1])), CMul(d, m[1][1])>> >>
Inv(D) ==
  CASE D.k = "mat"    -> IF Len(D.m) = Len(D.m[1]) /\ Len(D.m) > 2 THEN Err("not-offered")      \* (bound of this specification)
                         ELSE IF MatInvertible(D.m) THEN [D EXCEPT !.m = MatInv(D.m), !.sp = D.ran, !.ran = D.sp, !.c = CInv(D.c)]
                         \* a singular square matrix: nothing is documented, and floating point elimination need not notice
                         ELSE IF Len(D.m) = Len(D.m[1]) THEN Err("not-offered")
                         ELSE Err("any-error")                \* not square: no inverse matrix; which error is not documented
    [] D.k = "flat"   -> [D EXCEPT !.k = "unflat", !.c = CInv(D.c)]
    [] D.k = "unflat" -> [D EXCEPT !.k = "flat", !.c = CInv(D.c)]
    [] D.k \in {"scale", "id"} -> IF D.a = CZero THEN Err("ZeroDivisionError") ELSE [D EXCEPT !.a = CInv(D.a)]
    \* RealPart: its own inverse on real spaces, embedding otherwise; ImagPart: zero operator on real spaces,
    \* embedding as imaginary part otherwise (pseudo-inverses)
    [] D.k = "reim"   -> IF D.c # COne \/ {D.a, D.b} # {COne, CZero} THEN Err("not-offered")
                         ELSE IF D.sp.fld = "R" THEN (IF D.b = CZero THEN D ELSE [D EXCEPT !.k = "zero", !.ran = D.sp])
                         ELSE [D EXCEPT !.k = "cemb", !.sp = RealSp(D.sp), !.a = <<Re(D.a), Re(D.b)>>, !.b = CZero]
    \* the (left) inverse: for a real domain a combination of real and imaginary part, else the scaling by 1 / scalar
    [] D.k = "cemb"   -> IF D.a = CZero THEN Err("any-error")
                         ELSE IF D.sp.fld = "R"
                           THEN LET s == CConj(CInv(D.a)) IN [D EXCEPT !.k = "reim", !.sp = CplxSp(D.sp), !.a = CR(Re(s)), !.b = CR(Im(s)),
                                                                          !.var = IF Re(s) # QZero /\ Im(s) # QZero THEN "sum" ELSE D.var]
                           ELSE [D EXCEPT !.a = CInv(D.a)]
    [] OTHER -> Err("no-inverse-documented")
HasInv(D) == D.k \in {"mat", "flat", "unflat", "scale", "id", "reim", "cemb"}
\* The documentation describes adjoint and inverse of a matrix operator for operators between spaces over ONE field (a
\* complex matrix on a real domain has no range-to-domain matrix operator), and the adjoints of the modulus derivatives
\* for complex spaces only.
AdjOffered(D) == /\ HasAdj(D) /\ (D.k = "mat" => D.sp.fld = D.ran.fld)
                 /\ (D.k \in {"cmodd", "cmod2d", "cmodda", "cmod2da"} => D.sp.fld = "C")
InvOffered(D) == HasInv(D) /\ Inv(D).why # "not-offered" /\ (D.k = "mat" => D.sp.fld = D.ran.fld)
                 /\ (D.k \in {"cemb", "reim"} => D.var # "sum")

(* ------------------------------ derivative ------------------------------ *)
\* the point must allow an exact, documented value (norms rational and non-zero, no singular component)
DerivDefined(D, x) ==
  CASE D.k = "pwnorm" ->
         /\ D.sp.fld = "R" /\ D.q # Inf
         /\ \A i \in 1..SizeOf(D.sp) :
              LET s == PwNormAt(D.q, WEff(D), Col(x, i)) IN
              /\ s # QZero /\ (D.q = <<2, 1>> => QIsSquare(s))
              /\ (D.q = QOne => \A j \in 1..D.n : x[j][i] # CZero)
    [] D.k = "norm"  -> D.sp.fld = "R" /\ LET s == InnerBase(D.env.wt, x[1], x[1])[1] IN s # QZero /\ QIsSquare(s)
    [] D.k = "dist"  -> D.sp.fld = "R" /\ LET s == InnerBase(D.env.wt, VSub(x[1], D.v[1]), VSub(x[1], D.v[1]))[1] IN s # QZero /\ QIsSquare(s)
    [] D.k = "cmod"  -> \A i \in 1..Len(x[1]) : HasMod(x[1][i]) /\ x[1][i] # CZero
    [] D.k = "pow"   -> D.n >= 1
    [] OTHER -> TRUE

Deriv(D, x) ==
  CASE D.k = "pwnorm" ->
         IF D.sp.fld = "C" \/ D.q = Inf THEN Err("NotImplementedError")
         \* pointwise inner product with  N(F)^(1-p) * [ F_j |F_j|^(p-2) ]_j  and the weights of the norm
         ELSE LET w == WEff(D) N == SizeOf(D.sp)
                  nrm(i) == LET s == PwNormAt(D.q, w, Col(x, i)) IN IF D.q = QOne THEN s ELSE QSqrt(s)
                  G == [j \in 1..D.n |-> [i \in 1..N |->
                          IF D.q = QOne THEN CR(QSign(Re(x[j][i]))) ELSE CScal(QInv(nrm(i)), x[j][i])]]
              IN  [D EXCEPT !.k = "pwinner", !.v = G, !.w = w]
    \* p * y ** (p - 1) * x
    [] D.k = "pow"   -> [D EXCEPT !.k = "mul", !.v = << VScal(CInt(D.n), VPowN(x[1], D.n - 1)) >>]
    \* <y / ||y||, x>
    [] D.k = "norm"  -> LET s == QSqrt(InnerBase(D.env.wt, x[1], x[1])[1]) IN [D EXCEPT !.k = "inner", !.v = << VScal(CR(QInv(s)), x[1]) >>]
    \* the direction from the fixed vector y to the point z, normalised (the Examples section; the one-line formula of
    \* the docstring has the opposite sign and contradicts its own example)
    [] D.k = "dist"  -> LET d == VSub(x[1], D.v[1]) s == QSqrt(InnerBase(D.env.wt, d, d)[1]) IN [D EXCEPT !.k = "inner", !.v = << VScal(CR(QInv(s)), d) >>]
    [] D.k = "const" -> [D EXCEPT !.k = "zero"]                      \* always zero, from the domain to the range
    [] D.k = "reim"  -> D
    [] D.k = "cmod"  -> [D EXCEPT !.k = "cmodd", !.v = x]
    [] D.k = "cmod2" -> [D EXCEPT !.k = "cmod2d", !.v = x]
    [] OTHER -> IF Linear(D) THEN D ELSE Err("no-derivative-documented")
HasDeriv(D) == D.k \in {"pwnorm", "pow", "norm", "dist", "const", "reim", "cmod", "cmod2"}

(* ------------------------- inner products of spaces --------------------- *)
\* weighting constant of a tensor-type space; power spaces weight their components with pw
WtOf(sp, env) == IF sp.b = "plain" THEN QOne ELSE env.wt
InnerSp(sp, env, pw, x, y) ==
  IF sp.t = "P" THEN LET f(j) == CScal(pw[j], InnerBase(WtOf(sp, env), x[j], y[j])) IN CSumF(f, 1, sp.n)
  ELSE IF sp.t = "F" THEN CMul(x[1][1], CConj(y[1][1]))
  ELSE InnerBase(WtOf(sp, env), x[1], y[1])

PAdd(x, y) == [j \in 1..Len(x) |-> VAdd(x[j], y[j])]
PSub(x, y) == [j \in 1..Len(x) |-> VSub(x[j], y[j])]
PScal(a, x) == [j \in 1..Len(x) |-> VScal(a, x[j])]
=============================================================================

------------------------------ MODULE SpaceSem ------------------------------
(***************************************************************************)
(* Layer A for property C02: what inner product, norm and distance MEAN    *)
(* on ODL's spaces.  Written from the documentation (class docstrings of    *)
(* the weightings, ProductSpace "Notes", uniform_discr, RectPartition) and  *)
(* DESIGN Appendix E1/E2 -- not from the code.  Everything is exact:        *)
(* entries are Gaussian rationals, weights are rationals, and a norm is     *)
(* represented by a POWER of it, so that no root is ever needed:            *)
(*                                                                         *)
(*     NormPow(spc, x) = ||x||^Pow(spc),   Pow = p  (p finite), 1 (p = inf) *)
(*                                                                         *)
(* SpaceDesc (record, uniformly typed):                                     *)
(*   kind  "tensor" | "discr" | "pspace"                                    *)
(*   fld   "R" | "C"                                                        *)
(*   n     number of entries of a leaf (0 for pspace)                       *)
(*   p     exponent: 1, 2, 3 or PInf (= 0)                                  *)
(*   w     [k |-> "none"|"const"|"array"|"custom", c |-> Q, arr |-> Seq(Q), *)
(*          tag |-> STRING]   (discr: "none" = the DEFAULT weighting, i.e.  *)
(*          the cell-volume quadrature; pspace: per-component weights)      *)
(*   axes  discr only: Seq([n, min, max, l, r]), l/r = 1 iff the first/last *)
(*          node lies on the boundary (nodes_on_bdry per axis SIDE)         *)
(*   parts pspace only: Seq(SpaceDesc)                                      *)
(* Values: leaf = flat C-order sequence of C numbers; pspace = sequence of  *)
(* component values (a tree).                                               *)
(***************************************************************************)
EXTENDS Vec, TLC

PInf == 0

Wt(k, c, arr, tag) == [k |-> k, c |-> c, arr |-> arr, tag |-> tag]
WNone       == Wt("none", QOne, <<>>, "")
WConst(c)   == Wt("const", c, <<>>, "")
WArr(arr)   == Wt("array", QOne, arr, "")
WCustom(tg) == Wt("custom", QOne, <<>>, tg)

Axis(n, a, b, l, r) == [n |-> n, min |-> a, max |-> b, l |-> l, r |-> r]

RECURSIVE ProdSeq(_)
ProdSeq(s) == IF s = <<>> THEN 1 ELSE Head(s) * ProdSeq(Tail(s))

Tensor(fld, n, p, w) ==
  [kind |-> "tensor", fld |-> fld, n |-> n, p |-> p, w |-> w, axes |-> <<>>, parts |-> <<>>]
Discr(fld, axes, p) ==
  [kind |-> "discr", fld |-> fld, n |-> ProdSeq([a \in 1..Len(axes) |-> axes[a].n]), p |-> p,
   w |-> WNone, axes |-> axes, parts |-> <<>>]
PSpace(parts, p, w) ==
  [kind |-> "pspace", fld |-> parts[1].fld, n |-> 0, p |-> p, w |-> w, axes |-> <<>>, parts |-> parts]

IsLeaf(spc) == spc.kind # "pspace"

(* ======================= E2: uniform partitions ======================== *)
(* Per axis (a, b, n, (L, R)):                                              *)
(*   L /\ R   : g_0 = a,               g_{n-1} = b                          *)
(*   L /\ ~R  : g_0 = a,               g_{n-1} = b - (b-a)/(2n-1)           *)
(*   ~L /\ R  : g_0 = a + (b-a)/(2n-1), g_{n-1} = b                         *)
(*   ~L /\ ~R : g_0 = a + (b-a)/(2n),   g_{n-1} = b - (b-a)/(2n)            *)
(* and the nodes are equally spaced in between.                             *)
Ext(ax) == QSub(ax.max, ax.min)
FirstNode(ax) ==
  IF ax.l = 1 THEN ax.min
  ELSE IF ax.r = 1 THEN QAdd(ax.min, QDiv(Ext(ax), QI(2 * ax.n - 1)))
  ELSE QAdd(ax.min, QDiv(Ext(ax), QI(2 * ax.n)))
LastNode(ax) ==
  IF ax.r = 1 THEN ax.max
  ELSE IF ax.l = 1 THEN QSub(ax.max, QDiv(Ext(ax), QI(2 * ax.n - 1)))
  ELSE QSub(ax.max, QDiv(Ext(ax), QI(2 * ax.n)))
\* the nodes g_0 .. g_{n-1} (as the sequence g[1..n]), equally spaced
NodesOf(ax) ==
  LET f == FirstNode(ax)  d == QSub(LastNode(ax), f)
  IN  [j \in 1..ax.n |-> IF ax.n = 1 THEN f ELSE QAdd(f, QMul(Q(j - 1, ax.n - 1), d))]
Node(ax, j) == NodesOf(ax)[j + 1]                      \* node j, 0-based
\* cell boundaries beta_0 = a, beta_j = (g_{j-1} + g_j)/2, beta_n = b   (sequence b[1..n+1])
BetasOf(ax) ==
  LET g == NodesOf(ax)
  IN  [j \in 1..(ax.n + 1) |-> IF j = 1 THEN ax.min ELSE IF j = ax.n + 1 THEN ax.max
                                 ELSE QHalf(QAdd(g[j - 1], g[j]))]
Beta(ax, j) == BetasOf(ax)[j + 1]
\* sizes of the parts of the cells that lie inside the domain (sequence s[1..n])
CellSizesOf(ax) == LET b == BetasOf(ax) IN [j \in 1..ax.n |-> QSub(b[j + 1], b[j])]
CellSize(ax, j) == CellSizesOf(ax)[j + 1]              \* cell j, 0-based
\* the uniform stride ("cell side"); a one-node axis has the whole extent as its only cell
CellSide(ax) == IF ax.n = 1 THEN Ext(ax) ELSE QSub(Node(ax, 1), Node(ax, 0))
\* boundary-cell fractions phi_left = 1/2 + (g_0 - a)/(g_1 - g_0), phi_right likewise; 1 on a one-node axis
FracL(ax) == IF ax.n = 1 THEN QOne
             ELSE QAdd(Q(1, 2), QDiv(QSub(Node(ax, 0), ax.min), CellSide(ax)))
FracR(ax) == IF ax.n = 1 THEN QOne
             ELSE QAdd(Q(1, 2), QDiv(QSub(ax.max, Node(ax, ax.n - 1)), CellSide(ax)))
\* E1 formulation: cell side x boundary fraction of the position along the axis
FracAt(ax, j) ==
  IF ax.n = 1 THEN QOne
  ELSE IF j = 0 THEN FracL(ax) ELSE IF j = ax.n - 1 THEN FracR(ax) ELSE QOne
\* documented admissibility of (n, L, R): at least half a cell must remain
AxisOk(ax) == /\ ax.n >= 1 /\ QLt(ax.min, ax.max) /\ 2 * ax.n - ax.l - ax.r > 0
              /\ (ax.n = 1 => ax.l = 0 /\ ax.r = 0)

\* sanity lemma (checked by TLC): "cell volume x boundary fractions" IS the cell-size quadrature
FractionLemma(ax) ==
  LET sz == CellSizesOf(ax) IN
  \A j \in 0..(ax.n - 1) : sz[j + 1] = QMul(CellSide(ax), FracAt(ax, j))

RECURSIVE QProdSeq(_)
QProdSeq(s) == IF s = <<>> THEN QOne ELSE QMul(Head(s), QProdSeq(Tail(s)))

Shape(spc) == [a \in 1..Len(spc.axes) |-> spc.axes[a].n]
\* C order: 0-based position along axis a of the 0-based flat index i
RECURSIVE TailProd(_, _)
TailProd(shape, a) == IF a >= Len(shape) THEN 1 ELSE shape[a + 1] * TailProd(shape, a + 1)
AxIdx(shape, a, i) == (i \div TailProd(shape, a)) % shape[a]

CellVolume(spc) == QProdSeq([a \in 1..Len(spc.axes) |-> CellSide(spc.axes[a])])
Volume(spc)     == QProdSeq([a \in 1..Len(spc.axes) |-> Ext(spc.axes[a])])

(* ============================ E1: weights =============================== *)
\* Discretised space, default weighting: the quadrature weight of a sample is the volume of its
\* cell inside the domain.  <> For p = inf the norm is the plain maximum (weight 1).
DiscrWeights(spc) ==
  IF spc.p = PInf THEN [i \in 1..spc.n |-> QOne]
  ELSE LET sz == [a \in 1..Len(spc.axes) |-> CellSizesOf(spc.axes[a])]
           sh == Shape(spc)
       IN  [i \in 1..spc.n |-> QProdSeq([a \in 1..Len(spc.axes) |-> sz[a][AxIdx(sh, a, i - 1) + 1]])]
\* the same thing in the words of E1 (cell volume x product of boundary fractions)
DiscrWeightsE1(spc) ==
  IF spc.p = PInf THEN [i \in 1..spc.n |-> QOne]
  ELSE [i \in 1..spc.n |->
          QMul(CellVolume(spc),
               QProdSeq([a \in 1..Len(spc.axes) |-> FracAt(spc.axes[a], AxIdx(Shape(spc), a, i - 1))]))]

TensorWeights(spc) ==
  CASE spc.w.k = "none"  -> [i \in 1..spc.n |-> QOne]
    [] spc.w.k = "const" -> [i \in 1..spc.n |-> spc.w.c]
    [] spc.w.k = "array" -> spc.w.arr

\* weights of a leaf space
Weights(spc) == IF spc.kind = "discr" THEN DiscrWeights(spc) ELSE TensorWeights(spc)

\* component weights of a product space
CompWeights(spc) ==
  CASE spc.w.k = "none"  -> [k \in 1..Len(spc.parts) |-> QOne]
    [] spc.w.k = "const" -> [k \in 1..Len(spc.parts) |-> spc.w.c]
    [] spc.w.k = "array" -> spc.w.arr

(* ============================ exact moduli ============================== *)
\* |z| as a rational, defined iff |z|^2 is a rational square
RECURSIVE IRootFrom(_, _, _)
IRootFrom(n, k, r) == IF (IF k = 2 THEN r * r ELSE r * r * r) > n THEN r - 1 ELSE IRootFrom(n, k, r + 1)
IRoot(n, k) == IF k = 1 THEN n ELSE IRootFrom(n, k, 0)
IPow(r, k) == IF k = 1 THEN r ELSE IF k = 2 THEN r * r ELSE r * r * r
HasIRoot(n, k) == n >= 0 /\ IPow(IRoot(n, k), k) = n
\* exact k-th root of a non-negative rational (k in 1..3)
HasRoot(q, k) == HasIRoot(q[1], k) /\ HasIRoot(q[2], k)
Root(q, k)    == <<IRoot(q[1], k), IRoot(q[2], k)>>

AbsOk(z) == IsRealC(z) \/ HasRoot(CAbs2(z), 2)
CAbsQ(z) == IF IsRealC(z) THEN QAbs(z[1]) ELSE Root(CAbs2(z), 2)
\* |z|^k ; odd k needs the modulus itself
AbsPowOk(z, k) == k = 2 \/ AbsOk(z)
AbsPow(z, k) == IF k = 2 THEN CAbs2(z) ELSE QPowN(CAbsQ(z), k)

(* ============================== the tags ================================ *)
(* Custom inner / norm / dist callables: a fixed catalogue the harness      *)
(* supplies; the specification knows each only by its tag.                  *)
(*   "inner:iw"   <x,y> = sum_i i * x_i * conj(y_i)                         *)
(*   "norm:l1x2"  ||x|| = 2 * sum_i |x_i|                                   *)
(*   "dist:l1"    d(x,y) = sum_i |x_i - y_i|                                *)
(* Documented defaults: norm = sqrt(inner(x,x)), dist = norm(x - y);        *)
(* a custom norm has no inner product, a custom dist has neither.           *)
IsCustom(spc) == spc.w.k = "custom"
CustomKind(spc) == CASE spc.w.tag \in {"inner:iw"}  -> "inne"
                     [] spc.w.tag \in {"norm:l1x2"} -> "norm"
                     [] spc.w.tag \in {"dist:l1"}   -> "dist"

\* power by which norms / distances of this space are represented
Pow(spc) ==
  IF IsCustom(spc) THEN (IF CustomKind(spc) = "inne" THEN 2 ELSE 1)
  ELSE IF spc.p = PInf THEN 1 ELSE spc.p

(* ============================ tree arithmetic =========================== *)
RECURSIVE TSub(_, _, _), TAdd(_, _, _), TScal(_, _, _), TConst(_, _), TIsZero(_, _), TAbsOk(_, _)
TSub(spc, x, y) == IF IsLeaf(spc) THEN VSub(x, y)
                   ELSE [k \in 1..Len(spc.parts) |-> TSub(spc.parts[k], x[k], y[k])]
TAdd(spc, x, y) == IF IsLeaf(spc) THEN VAdd(x, y)
                   ELSE [k \in 1..Len(spc.parts) |-> TAdd(spc.parts[k], x[k], y[k])]
TScal(spc, a, x) == IF IsLeaf(spc) THEN VScal(a, x)
                    ELSE [k \in 1..Len(spc.parts) |-> TScal(spc.parts[k], a, x[k])]
TConst(spc, c) == IF IsLeaf(spc) THEN VConst(spc.n, c)
                  ELSE [k \in 1..Len(spc.parts) |-> TConst(spc.parts[k], c)]
TZero(spc) == TConst(spc, CZero)
TOne(spc)  == TConst(spc, COne)
TIsZero(spc, x) == IF IsLeaf(spc) THEN \A i \in 1..Len(x) : x[i] = CZero
                   ELSE \A k \in 1..Len(spc.parts) : TIsZero(spc.parts[k], x[k])
\* every entry has a rational modulus
TAbsOk(spc, x) == IF IsLeaf(spc) THEN \A i \in 1..Len(x) : AbsOk(x[i])
                  ELSE \A k \in 1..Len(spc.parts) : TAbsOk(spc.parts[k], x[k])

RECURSIVE FlatSize(_), FlatSizeTo(_, _)
FlatSizeTo(spc, k) == IF k = 0 THEN 0 ELSE FlatSizeTo(spc, k - 1) + FlatSize(spc.parts[k])
FlatSize(spc) == IF IsLeaf(spc) THEN spc.n ELSE FlatSizeTo(spc, Len(spc.parts))
\* cut a flat sequence into the tree shape of spc
RECURSIVE Unflatten(_, _)
Offset(spc, k) == FlatSizeTo(spc, k - 1)
Unflatten(spc, flat) ==
  IF IsLeaf(spc) THEN flat
  ELSE [k \in 1..Len(spc.parts) |->
          Unflatten(spc.parts[k], SubSeq(flat, Offset(spc, k) + 1, Offset(spc, k) + FlatSize(spc.parts[k])))]

(* ============================ weight trees ============================== *)
(* All weights of a space, computed ONCE and handed to the operators below   *)
(* (TLC does not memoise): leaf [w |-> Weights, sub |-> <<>>], product space *)
(* [w |-> component weights, sub |-> weight trees of the components].        *)
RECURSIVE WTree(_)
WTree(spc) ==
  IF IsLeaf(spc) THEN [w |-> (IF IsCustom(spc) THEN [i \in 1..spc.n |-> QI(i)] ELSE Weights(spc)), sub |-> <<>>]
  ELSE [w |-> CompWeights(spc), sub |-> [k \in 1..Len(spc.parts) |-> WTree(spc.parts[k])]]

(* ============================ inner product ============================= *)
RECURSIVE InnerDefined(_), InnerW(_, _, _, _)
\* an inner product exists exactly for exponent 2 (at every level of a product space)
InnerDefined(spc) ==
  IF IsLeaf(spc) THEN (IF IsCustom(spc) THEN CustomKind(spc) = "inne" ELSE spc.p = 2)
  ELSE spc.p = 2 /\ ~IsCustom(spc) /\ \A k \in 1..Len(spc.parts) : InnerDefined(spc.parts[k])

LeafInner(w, x, y) == CSumSeq([i \in 1..Len(x) |-> CScal(w[i], CMul(x[i], CConj(y[i])))])

\* <x,y> = sum_i w_i x_i conj(y_i)  (linear in the FIRST argument);  custom "inner:iw": w_i = i;
\* product space: sum_k omega_k <x_k, y_k>_k
InnerW(wt, spc, x, y) ==
  IF IsLeaf(spc) THEN LeafInner(wt.w, x, y)
  ELSE CSumSeq([k \in 1..Len(spc.parts) |-> CScal(wt.w[k], InnerW(wt.sub[k], spc.parts[k], x[k], y[k]))])
Inner(spc, x, y) == InnerW(WTree(spc), spc, x, y)

(* ================================ norms ================================= *)
(* NormOk: every modulus / root the exact representation needs exists.       *)
(* NormPow(spc, x) = ||x||^Pow(spc);  NormVal = the norm itself when it is   *)
(* rational (needed only where a product space and a component use           *)
(* different exponents).                                                     *)
LeafNormOk(spc, x) ==
  IF IsCustom(spc) THEN (CustomKind(spc) = "inne" \/ \A i \in 1..Len(x) : AbsOk(x[i]))
  ELSE \A i \in 1..Len(x) : AbsPowOk(x[i], Pow(spc))

\* ||x||_p^p = sum_i w_i |x_i|^p ;   <> ||x||_inf = max_i w_i |x_i|  (w_i = c for a constant)
LeafNormPowW(w, spc, x) ==
  IF IsCustom(spc)
    THEN CASE spc.w.tag = "inner:iw"  -> LeafInner(w, x, x)[1]
           [] spc.w.tag = "norm:l1x2" -> QMul(QI(2), QSumSeq([i \in 1..Len(x) |-> CAbsQ(x[i])]))
  ELSE IF Len(x) = 0 THEN QZero          \* the only element of a zero-size space is 0, and ||0|| = 0
       ELSE IF spc.p = PInf THEN QMaxSeq([i \in 1..Len(x) |-> QMul(w[i], CAbsQ(x[i]))])
       ELSE QSumSeq([i \in 1..Len(x) |-> QMul(w[i], AbsPow(x[i], spc.p))])

RECURSIVE NormOkW(_, _, _), NormPowW(_, _, _)
NormDefined(spc) == ~(IsCustom(spc) /\ CustomKind(spc) = "dist")

\* ||x_k||^q from the component's own representation ||x_k||^Pk
CompTermOk(np, pk, q) == pk = q \/ HasRoot(np, pk)
CompTerm(np, pk, q)   == IF pk = q THEN np ELSE QPowN(Root(np, pk), q)

NormOkW(wt, spc, x) ==
  IF IsLeaf(spc) THEN NormDefined(spc) /\ LeafNormOk(spc, x)
  ELSE /\ ~IsCustom(spc)
       /\ \A k \in 1..Len(spc.parts) :
            /\ NormOkW(wt.sub[k], spc.parts[k], x[k])
            /\ CompTermOk(NormPowW(wt.sub[k], spc.parts[k], x[k]), Pow(spc.parts[k]), Pow(spc))

\* product space: ||x||_p^p = sum_k omega_k ||x_k||^p ;  <> p = inf: max_k omega_k ||x_k||
NormPowW(wt, spc, x) ==
  IF IsLeaf(spc) THEN LeafNormPowW(wt.w, spc, x)
  ELSE LET t == [k \in 1..Len(spc.parts) |->
                    QMul(wt.w[k], CompTerm(NormPowW(wt.sub[k], spc.parts[k], x[k]), Pow(spc.parts[k]), Pow(spc)))]
       IN  IF spc.p = PInf THEN QMaxSeq(t) ELSE QSumSeq(t)

NormOk(spc, x)  == NormOkW(WTree(spc), spc, x)
NormPow(spc, x) == NormPowW(WTree(spc), spc, x)
NormInf(spc, x) == NormPow(spc, x)       \* meaningful for spc.p = PInf (Pow = 1)

NormValOk(spc, x) == NormOk(spc, x) /\ HasRoot(NormPow(spc, x), Pow(spc))
NormVal(spc, x)   == Root(NormPow(spc, x), Pow(spc))

(* =============================== distance =============================== *)
\* dist(x, y) = ||x - y||  (custom "dist:l1": sum_i |x_i - y_i|)
IsCustomDist(spc) == IsCustom(spc) /\ CustomKind(spc) = "dist"
DistOkW(wt, spc, x, y) ==
  IF IsCustomDist(spc) THEN \A i \in 1..Len(x) : AbsOk(CSub(x[i], y[i]))
  ELSE NormOkW(wt, spc, TSub(spc, x, y))
DistPowW(wt, spc, x, y) ==
  IF IsCustomDist(spc) THEN QSumSeq([i \in 1..Len(x) |-> CAbsQ(CSub(x[i], y[i]))])
  ELSE NormPowW(wt, spc, TSub(spc, x, y))
DistOk(spc, x, y)  == DistOkW(WTree(spc), spc, x, y)
DistPow(spc, x, y) == DistPowW(WTree(spc), spc, x, y)

(* ================================ tiling ================================ *)
(* A long concrete vector is the k-fold periodic repetition of the abstract *)
(* one; constant weights stay constant, array weights are tiled too.        *)
(* TilingLemma (checked by TLC for small k) is what allows the harness to   *)
(* compare  observed / k  with the per-period value.                        *)
Tile(v, k) == [i \in 1..(Len(v) * k) |-> v[((i - 1) % Len(v)) + 1]]
TileSpace(spc, k) ==
  [spc EXCEPT !.n = spc.n * k, !.w = [spc.w EXCEPT !.arr = Tile(spc.w.arr, k)]]
TilingLemma(spc, x, y, k) ==
  LET s2 == TileSpace(spc, k)  x2 == Tile(x, k)  y2 == Tile(y, k) IN
  /\ InnerDefined(spc) => Inner(s2, x2, y2) = CScal(QI(k), Inner(spc, x, y))
  /\ NormOk(spc, x) => NormPow(s2, x2) = (IF spc.p = PInf THEN NormPow(spc, x)
                                          ELSE QMul(QI(k), NormPow(spc, x)))
=============================================================================

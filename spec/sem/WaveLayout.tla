------------------------------ MODULE WaveLayout ------------------------------
(***************************************************************************)
(* Layer A for C18, wavelet part: the coefficient layout of a multi-level  *)
(* separable discrete wavelet decomposition as integer arithmetic.         *)
(*                                                                         *)
(*   CoeffLen(n, flen, mode)   length of one band after one analysis step  *)
(*        periodization:  ceil(n / 2)                                      *)
(*        every other extension mode:  floor((n + flen - 1) / 2)           *)
(*   a decomposition with L levels over the axes `axes` of an array of     *)
(*   shape `shape` consists of one approximation block (coarsest level)    *)
(*   and, per level from the coarsest to the finest, 2^|axes| - 1 detail   *)
(*   blocks named by the words over {a, d} of length |axes| other than     *)
(*   a..a, in lexicographic order.  The flat coefficient vector is the     *)
(*   concatenation of the C-order ravelled blocks in that order.           *)
(* Written from the definition of the decimated filter-bank transform and  *)
(* the documented PyWavelets ordering, not from ODL's slicing code.        *)
(***************************************************************************)
EXTENDS Integers, Sequences, FiniteSets, TLC

Tup(f) == f \o <<>>
RECURSIVE IProdTo(_, _)
IProdTo(s, i) == IF i = 0 THEN 1 ELSE s[i] * IProdTo(s, i - 1)
Prod(s) == IProdTo(s, Len(s))

CoeffLen(n, flen, mode) ==
  IF mode = "periodization" THEN (n + 1) \div 2 ELSE (n + flen - 1) \div 2
\* length produced by one synthesis step from bands of length m
RecLen(m, flen, mode) == IF mode = "periodization" THEN 2 * m ELSE 2 * m - flen + 2

AxSet(axes) == {axes[i] : i \in 1..Len(axes)}

\* shape of every band after `lev` analysis steps
RECURSIVE LevelShape(_, _, _, _, _)
LevelShape(shape, axes, flen, mode, lev) ==
  IF lev = 0 THEN shape
  ELSE LET prev == LevelShape(shape, axes, flen, mode, lev - 1)
       IN  Tup([a \in 1..Len(shape) |-> IF (a - 1) \in AxSet(axes) THEN CoeffLen(prev[a], flen, mode)
                                          ELSE prev[a]])

\* detail keys of a transform over m axes, lexicographic: words over {a,d} without a..a
RECURSIVE Words(_)
Words(m) == IF m = 0 THEN <<"">>
            ELSE LET w == Words(m - 1)
                 IN  Tup([i \in 1..(2 * Len(w)) |-> IF i <= Len(w) THEN "a" \o w[i] ELSE "d" \o w[i - Len(w)]])
DetailKeys(m) == Tail(Words(m))

\* the blocks in flat order: [lev (0 = approximation, 1 = coarsest details, ...), key, shape, start, stop)
RECURSIVE AddBlocks(_, _, _)
AddBlocks(acc, todo, off) ==
  IF todo = <<>> THEN acc
  ELSE LET b == Head(todo)
           sz == Prod(b.shape)
       IN  AddBlocks(Append(acc, [lev |-> b.lev, key |-> b.key, shape |-> b.shape,
                                  start |-> off, stop |-> off + sz]),
                     Tail(todo), off + sz)

RECURSIVE DetailSeq(_, _, _, _, _, _)
DetailSeq(shape, axes, flen, mode, L, i) ==      \* i-th detail entry, i = 1 (coarsest) .. L (finest)
  IF i > L THEN <<>>
  ELSE LET shp == LevelShape(shape, axes, flen, mode, L - i + 1)
           keys == DetailKeys(Len(axes))
       IN  Tup([t \in 1..Len(keys) |-> [lev |-> i, key |-> keys[t], shape |-> shp]])
           \o DetailSeq(shape, axes, flen, mode, L, i + 1)

Layout(shape, axes, flen, mode, L) ==
  AddBlocks(<<>>,
            <<[lev |-> 0, key |-> "a", shape |-> LevelShape(shape, axes, flen, mode, L)]>>
              \o (IF L = 0 THEN <<>> ELSE DetailSeq(shape, axes, flen, mode, L, 1)),
            0)
Shapes(shape, axes, flen, mode, L) ==
  LET lay == Layout(shape, axes, flen, mode, L) IN Tup([i \in 1..Len(lay) |-> lay[i].shape])
Slices(shape, axes, flen, mode, L) ==
  LET lay == Layout(shape, axes, flen, mode, L) IN Tup([i \in 1..Len(lay) |-> <<lay[i].start, lay[i].stop>>])
Total(lay) == lay[Len(lay)].stop
\* level of every flat coefficient (what WaveletTransform.scales() documents)
RECURSIVE ScalesOf(_)
ScalesOf(lay) == IF lay = <<>> THEN <<>>
                 ELSE Tup([t \in 1..(Head(lay).stop - Head(lay).start) |-> Head(lay).lev]) \o ScalesOf(Tail(lay))

(* ---------------------- flatten / unflatten ----------------------------- *)
Unflatten(v, lay) == Tup([i \in 1..Len(lay) |-> SubSeq(v, lay[i].start + 1, lay[i].stop)])
RECURSIVE Flatten(_)
Flatten(blocks) == IF blocks = <<>> THEN <<>> ELSE Head(blocks) \o Flatten(Tail(blocks))

(* ------------------------------- laws ----------------------------------- *)
\* the slices tile 0..Total exactly, in order, with the sizes of their shapes
Tiles(lay) ==
  /\ lay[1].start = 0
  /\ \A i \in 1..Len(lay) : lay[i].stop - lay[i].start = Prod(lay[i].shape) /\ lay[i].stop >= lay[i].start
  /\ \A i \in 1..(Len(lay) - 1) : lay[i + 1].start = lay[i].stop
FlattenUnflattenId(lay) ==
  LET v == Tup([t \in 1..Total(lay) |-> t])
  IN  /\ Flatten(Unflatten(v, lay)) = v
      /\ Unflatten(Flatten(Unflatten(v, lay)), lay) = Unflatten(v, lay)
      /\ Len(ScalesOf(lay)) = Total(lay)
\* no information is lost (at least as many coefficients as samples), and periodization on
\* sizes divisible by 2^L is non-redundant (documented in WaveletTransform)
Divisible(shape, axes, L) == \A i \in 1..Len(axes) : shape[axes[i] + 1] % (2 ^ L) = 0
SizeLaw(shape, axes, flen, mode, L) ==
  LET lay == Layout(shape, axes, flen, mode, L)
  IN  /\ Total(lay) >= Prod(shape)
      /\ (mode = "periodization" /\ Divisible(shape, axes, L)) => Total(lay) = Prod(shape)
\* one synthesis step returns the analysed length or one sample more (odd lengths): the arithmetic
\* behind the cropping in WaveletTransformInverse._call and inside waverecn
CropLaw(shape, axes, flen, mode, L) ==
  \A lev \in 1..L : \A i \in 1..Len(axes) :
     LET nprev == LevelShape(shape, axes, flen, mode, lev - 1)[axes[i] + 1]
         m     == LevelShape(shape, axes, flen, mode, lev)[axes[i] + 1]
     IN  RecLen(m, flen, mode) - nprev \in {0, 1} /\ (RecLen(m, flen, mode) - nprev = 1 <=> nprev % 2 = 1)
=============================================================================

-------------------------- MODULE SampFuncMachine --------------------------
(***************************************************************************)
(* Layer B (EXT/sampfunc): the case table and the call histories.          *)
(*                                                                         *)
(* A state is either                                                       *)
(*   a CASE   cs = [t |-> "call", c, spell]   one call of the wrapper that  *)
(*            sampling_function returns: abstract case = (function shape   *)
(*            class, spelling, has-out, value shape, input form, out given *)
(*            or not, bounds_check, dtype, extra keyword)                  *)
(*            cs = [t |-> "fd", old, args, nob, tdt, gdt]                  *)
(*                 uniform_discr_fromdiscr on a template, per-axis given / *)
(*                 missing (min_pt, max_pt, shape, cell_sides)             *)
(*            cs = [t |-> "ud", axes]   uniform_discr / _fromintv /        *)
(*                 _frompartition                                          *)
(*   or an OBJECT with a history:  cs = [t |-> "obj", o |-> [F, dom,       *)
(*            spell, dt]], hist = the calls made so far on the ONE wrapper *)
(*            sampling_function(f, dom, out_dtype) :                       *)
(*              Call(i, om)  i-th input of HInputs (caller-owned, reused), *)
(*                           om = none | C | F | view (layout of the       *)
(*                           caller-owned out array, reused per (i, om))   *)
(*              MutRet       the caller overwrites the object the previous *)
(*                           call returned                                  *)
(* The laws: every call yields the documented outcome of ITS OWN arguments *)
(* (history-free, spelling-free); the dispatch as written (layer C) yields *)
(* it on every cell outside KnownCell, and KnownCell is tight.             *)
(***************************************************************************)
EXTENDS SampFuncImpl, TLC

CONSTANTS Cases, Objects, HInputs(_), MaxLen
VARIABLES cs, hist
vars == <<cs, hist>>

ObjStates == { [t |-> "obj", o |-> o] : o \in Objects }
Init == cs \in (Cases \cup ObjStates) /\ hist = <<>>

HCallRec(o, i, om) ==
  [F |-> o.F, dom |-> o.dom, inp |-> HInputs(o.F.nd)[i], bc |-> "dflt", out |-> IF om = "none" THEN "none" ELSE IF om = "C" THEN "ok" ELSE "nc",
   xbad |-> "", dt |-> o.dt, kw |-> 0]
HCall(i, om) ==
  /\ cs.t = "obj" /\ Len(hist) < MaxLen
  /\ (om # "none" => HInputs(cs.o.F.nd)[i].form # "pt")
  /\ hist' = Append(hist, [a |-> "call", i |-> i, om |-> om, exp |-> Documented(HCallRec(cs.o, i, om))])
  /\ UNCHANGED cs
HMutRet ==
  /\ cs.t = "obj" /\ Len(hist) \in 1..(MaxLen - 1) /\ hist[Len(hist)].a = "call"
  /\ hist' = Append(hist, [a |-> "mut", i |-> 0, om |-> "none", exp |-> Err("")])
  /\ UNCHANGED cs
Next == \/ HMutRet
        \/ \E i \in 1..Len(HInputs(IF cs.t = "obj" THEN cs.o.F.nd ELSE 1)), om \in {"none", "C", "F", "view"} : HCall(i, om)
Spec == Init /\ [][Next]_vars

(* ------------------------------- the laws -------------------------------- *)
\* layer C refines layer A on every cell outside the known ones, and the known ones are real deviations
CaseRefines == cs.t = "call" => Refines(cs.c, cs.spell)
KnownTight  == cs.t = "call" => KnownIsTight(cs.c, cs.spell)
\* the reference itself
SemLaws ==
  /\ (cs.t = "call" /\ Valid(cs.c)) => LawMeshIsArray(cs.c.F, cs.c.inp) /\ LawIgnoredVariable(cs.c.F, cs.c.inp)
  /\ cs.t = "fd" => \A k \in 1..Len(cs.old) : LawFdCopy(cs.old[k]) /\ LawFdTranslate(cs.old[k], <<3, 2>>)
\* uniform_discr_fromdiscr as written resolves every axis to a documented partition
FdCaseRefines == cs.t = "fd" => \A k \in 1..Len(cs.old) : FdRefines(cs.old[k], cs.args[k], cs.nob[k][1], cs.nob[k][2])
\* ... and the value type (repaired by ea69a05: FdDTypeKnown is empty, i.e. the transcription agrees everywhere)
FdDTypeCells == cs.t = "fd" => (FdImplDType(cs.tdt, cs.gdt) # FdDType(cs.tdt, cs.gdt) <=> FdDTypeKnown(cs.tdt, cs.gdt))
\* histories: the expectation of every call is a function of its own arguments; equal calls have equal expectations;
\* layer C (stateless) yields it outside the known cells
HistoryFree ==
  (cs.t = "obj" /\ hist # <<>> /\ hist[Len(hist)].a = "call") =>
    LET j == Len(hist) IN       \* older entries were checked in the predecessor states and never change
       /\ hist[j].exp = Documented(HCallRec(cs.o, hist[j].i, hist[j].om))
       /\ \A q \in 1..(j - 1) : (hist[q].a = "call" /\ hist[q].i = hist[j].i) => hist[q].exp.v = hist[j].exp.v
       /\ Refines(HCallRec(cs.o, hist[j].i, hist[j].om), cs.o.spell)
\* non-vacuity probe (must be REFUTED): histories never reach the bound
BogusShortHistories == Len(hist) < MaxLen
=============================================================================

------------------------------- MODULE DFTDerive -------------------------------
(***************************************************************************)
(* Layer B for C18 (derived operators): the option algebra of .inverse and *)
(* .adjoint.  A transform object is described by an option record           *)
(*   [kind    "dft" | "ft" | "wave",                                        *)
(*    dir     "fwd" | "inv"   (forward / reconstruction type),              *)
(*    sign    -1 | 1 (exponent sign parameter; 0 for wavelets),             *)
(*    axes, hc, shifts, impl, shape (real-space shape), field, prec,        *)
(*    wavelet, mode, nlevels, orth,                                         *)
(*    pow     exponent k of the scalar factor cellvolume^k in front]        *)
(* Meaning:  dir = "fwd":  vol^pow * F_sign ;  dir = "inv":  vol^pow *      *)
(* (F_{-sign})^{-1}.  Deriving an operator changes ONLY dir, sign and pow:  *)
(*   inverse: dir flips, sign flips, pow -> -pow                            *)
(*   adjoint: Fourier (exponent 2): documented to be the inverse;           *)
(*            wavelets (orthogonal only): W^* = vol^-1 W^-1,                *)
(*            (W^-1)^* = vol W, scalars are kept                            *)
(* every other option (axes, halfcomplex, shift, impl, pad mode, nlevels,   *)
(* wavelet, spaces) must survive every derivation, to any depth.            *)
(***************************************************************************)
EXTENDS Integers, Sequences, TLC

Flip(d) == IF d = "fwd" THEN "inv" ELSE "fwd"
Inverse(D) == [D EXCEPT !.dir = Flip(@), !.sign = -@, !.pow = -@]
HasAdjoint(D) == D.kind # "wave" \/ D.orth
Adjoint(D) ==
  IF D.kind = "wave"
    THEN [D EXCEPT !.dir = Flip(@), !.pow = @ + (IF D.dir = "fwd" THEN -1 ELSE 1)]
    ELSE Inverse(D)
Apply(D, a) == IF a = "i" THEN Inverse(D) ELSE Adjoint(D)
Enabled(D, a) == a = "i" \/ HasAdjoint(D)
RECURSIVE Chain(_, _)
Chain(D, path) == IF path = <<>> THEN D ELSE Chain(Apply(D, Head(path)), Tail(path))
RECURSIVE ChainEnabled(_, _)
ChainEnabled(D, path) == path = <<>> \/ (Enabled(D, Head(path)) /\ ChainEnabled(Apply(D, Head(path)), Tail(path)))

Options(D) == [axes |-> D.axes, hc |-> D.hc, shifts |-> D.shifts, impl |-> D.impl, shape |-> D.shape,
               field |-> D.field, prec |-> D.prec, wavelet |-> D.wavelet, mode |-> D.mode,
               nlevels |-> D.nlevels, orth |-> D.orth, kind |-> D.kind]

(* ------------------------------- machine -------------------------------- *)
CONSTANTS Bases, MaxLen
VARIABLES base, desc, path
vars == <<base, desc, path>>
Init == base \in Bases /\ desc = base /\ path = <<>>
Next == /\ Len(path) < MaxLen
        /\ \E a \in {"i", "a"} : /\ Enabled(desc, a)
                                 /\ desc' = Apply(desc, a)
                                 /\ path' = Append(path, a)
                                 /\ base' = base
Spec == Init /\ [][Next]_vars

\* all options survive every derivation
OptionsSurvive == Options(desc) = Options(base)
\* the state is the chain applied to the base
IsChain == desc = Chain(base, path)
\* algebra: involutions, commutation, and "an even number of derivations gives back the type"
Involutive == /\ Inverse(Inverse(desc)) = desc
              /\ HasAdjoint(desc) => Adjoint(Adjoint(desc)) = desc
              /\ HasAdjoint(desc) => Adjoint(Inverse(desc)) = Inverse(Adjoint(desc))
Parity == (desc.dir = base.dir) <=> (Len(path) % 2 = 0)
\* Fourier: the scalar factor is always 1 and the sign is tied to the type
FourierRole == desc.kind # "wave" => (desc.pow = 0 /\ (desc.sign = base.sign <=> desc.dir = base.dir))
=============================================================================

------------------------------ MODULE SampleHist ------------------------------
(***************************************************************************)
(* Layer B (C15): call HISTORIES on one function object.                   *)
(*                                                                         *)
(* State: the function object (descriptor + calling convention), what its  *)
(* wrapper has cached so far, and the calls made so far.  Actions: one per  *)
(* public way of sampling it                                               *)
(*     Call("inplace", dt)   point_collocation(sampling_function(f), mesh, out=<array of type dt>) *)
(*     Call("oop", dt)       point_collocation(sampling_function(f, out_dtype=dt), mesh)           *)
(*     Call("element", dt)   space_dt.element(f)                                                   *)
(*     Mutate(how)           the caller overwrites the object returned by the previous call        *)
(* Besides the values, the GRID of the space (coordinate vectors, mesh, cell boundaries) is part   *)
(* of the frame: it never changes, and an earlier result is not changed by a later sampling.       *)
(* Invariant from the statement: EVERY call yields exactly the callable's  *)
(* values in its own value type, whatever was called (or overwritten)      *)
(* before; the implementation-shaped model (VectorizeImpl) agrees outside  *)
(* the known cell.                                                         *)
(***************************************************************************)
EXTENDS VectorizeImpl, TLC

CONSTANTS Objects,     \* set of [fn, cvs, conv, pyint1] function objects
          MaxLen, DTs, Kinds,
          Hows         \* ways of overwriting a returned object: e *= c | e[:] = c | e.asarray()[...] = c | np.negative(e, out=e)
VARIABLES obj, cache, hist, ires
vars == <<obj, cache, hist, ires>>

Init == obj \in Objects /\ cache = "none" /\ hist = <<>> /\ ires = <<>>
Vals == SampleFn(obj.fn, obj.cvs)
\* a complex-valued callable is sampled into complex value types only (anything else is outside the statement)
Admissible(dt) == dt \in {"c64", "c128"} \/ \A t \in 1..Len(Vals) : Vals[t][2] = QZero
Call(kind, dt) ==
  /\ Len(hist) < MaxLen /\ Admissible(dt)
  /\ LET r == ImplCall(obj.conv, cache, dt, Vals, obj.pyint1)
     IN  /\ hist' = Append(hist, [kind |-> kind, dt |-> dt, exp |-> ExpectCall(obj.fn, obj.cvs, dt),
                                  def |-> DefinedCall(obj.fn, obj.cvs, dt)])
         /\ ires' = r.res /\ cache' = r.cache
  /\ UNCHANGED obj
\* results are fresh objects owned by the caller: overwriting one changes nothing (frame condition)
Mutate(how) ==
  /\ Len(hist) \in 1..(MaxLen - 1) /\ hist[Len(hist)].kind # "mutate"
  /\ hist' = Append(hist, [kind |-> "mutate", dt |-> hist[Len(hist)].dt, how |-> how, exp |-> <<>>, def |-> <<>>])
  /\ UNCHANGED <<obj, cache, ires>>
Next == (\E h \in Hows : Mutate(h)) \/ \E k \in Kinds, dt \in DTs : Call(k, dt)
Spec == Init /\ [][Next]_vars

\* the statement: the expectation of a call is a function of (callable, grid, value type) alone
\* (checked on the newest entry of every state; older entries were checked in the predecessor states and never change)
HistoryFree == (Len(hist) >= 1 /\ hist[Len(hist)].kind # "mutate") =>
                  /\ hist[Len(hist)].exp = ExpectCall(obj.fn, obj.cvs, hist[Len(hist)].dt)
                  /\ \A j \in 1..(Len(hist) - 1) : (hist[j].kind # "mutate" /\ hist[j].dt = hist[Len(hist)].dt)
                                                      => hist[j].exp = hist[Len(hist)].exp
\* layer C refines it: the model's result of the LAST call equals the expectation wherever it is defined
ImplRefines ==
  (Len(hist) >= 1 /\ hist[Len(hist)].kind # "mutate" /\ ~KnownIntFirst(obj.conv, Vals, obj.pyint1)) =>
     LET c == hist[Len(hist)]
     IN  \A t \in 1..Len(c.exp) : c.def[t] => ires[t] = c.exp[t]
\* the model's cache never records a value type
CacheIsTypeFree == cache \in {"none", "built"}
=============================================================================

------------------------- MODULE HashHistoryMachine -------------------------
(***************************************************************************)
(* Layer B / C for property C20: "equal objects have equal hashes" AT       *)
(* EVERY POINT OF A HISTORY of construction, hashing and in-place mutation  *)
(* of caller-owned arrays (SetSem: HAct / HStep / HEq).                     *)
(*                                                                         *)
(* Layer C, the hash keys as written on the current tree: every __hash__    *)
(* involved reads the array contents at the time of the call                *)
(*   ArrayWeighting.__hash__          (Weighting hash, array.tobytes())     *)
(*   NumpyTensorSpace / DiscretizedSpace / ProductSpace.__hash__            *)
(*                                    (..., weighting)                      *)
(*   RectGrid.__hash__                (type, (cv + 0.0).tobytes())          *)
(*   RectPartition.__hash__           (type, set, grid)                     *)
(* -- nothing is remembered between two calls, so hash(o) leaves the state   *)
(* unchanged and the key is a function of the contents NOW.                 *)
(* TLC enumerates every history of at most MaxLen actions, checks           *)
(* EqualImpliesEqualKey and exports the history for replay on real objects. *)
(***************************************************************************)
EXTENDS SetSem

CONSTANTS NW,        \* number of caller arrays
          Kinds,     \* kinds that may be constructed
          MaxLen, MaxObjs, MaxShifts

VARIABLES st, acts
hvars == <<st, acts>>

HistInit == st = HInit(NW) /\ acts = <<>>

Shifts == LET RECURSIVE S(_)
              S(k) == IF k = 0 THEN 0 ELSE S(k - 1) + st.ver[k]
              RECURSIVE M(_)
              M(k) == IF k = 0 THEN 0 ELSE M(k - 1) + st.objs[k].m
          IN  S(NW) + M(Len(st.objs))

Enabled(act) ==
  CASE act.a = "construct" -> Len(st.objs) < MaxObjs
    [] act.a = "mutate" -> Shifts < MaxShifts /\ Len(st.objs) > 0
    [] act.a = "mutate-internal" -> Shifts < MaxShifts /\ st.objs[act.o].kind \in CopyKinds
    [] act.a = "hash" -> TRUE

Acts ==
       {HAct("construct", k, w, 0) : k \in Kinds, w \in 1..NW}
  \cup {HAct("mutate", "", w, 0) : w \in 1..NW}
  \cup {HAct("hash", "", 0, o) : o \in 1..Len(st.objs)}
  \cup {HAct("mutate-internal", "", 0, o) : o \in 1..Len(st.objs)}

HistNext ==
  /\ Len(acts) < MaxLen
  /\ \E act \in Acts : /\ Enabled(act)
                       /\ (acts = <<>> => act.a = "construct")
                       /\ st' = HStep(st, act)
                       /\ acts' = Append(acts, act)
HistSpec == HistInit /\ [][HistNext]_hvars

(* ------------------------------- layer C -------------------------------- *)
\* the hash key of object o NOW (contents read at the time of the call)
ImplHistKey(o) == <<HClass(o.kind), HContent(st, o)>>
\* == as written: identity of the wrapped array (weighting kinds), np.array_equal of the coordinates (grids)
ImplHistEq(a, b) == HEq(st, a, b)

EqualImpliesEqualKey ==
  \A i \in 1..Len(st.objs), j \in 1..Len(st.objs) :
     ImplHistEq(st.objs[i], st.objs[j]) => ImplHistKey(st.objs[i]) = ImplHistKey(st.objs[j])
\* the state the history machine reaches is the fold of the layer-A step function
FoldAgrees == st = HFold(HInit(NW), acts, 1)
\* deliberately false (non-vacuity): objects built from one array before and after a mutation are never equal
BogusMutationSeparates ==
  \A i \in 1..Len(st.objs), j \in 1..Len(st.objs) :
     (i # j /\ st.objs[i].base # st.objs[j].base) => ~HEq(st, st.objs[i], st.objs[j])
=============================================================================

----------------------------- MODULE VecMachine -----------------------------
(***************************************************************************)
(* Layer B: the mutable-vector machine behind properties C01 / C10.        *)
(*                                                                         *)
(* State: a heap of NObj element objects of ONE space.  Aliasing is        *)
(* object identity: an action that names the same object twice is the      *)
(* aliased call.  Every public arithmetic entry point of ODL elements and  *)
(* spaces is one action; its meaning is given entry-wise from the          *)
(* PRE-state (layer A, module Vec), so every aliasing pattern has its      *)
(* meaning fixed by the formula and not by an evaluation order.            *)
(*                                                                         *)
(* An action is a record with the uniform field set                        *)
(*    [op, f, a, b, x, y, o, n]                                            *)
(* (unused fields hold the defaults of NoAct).  Post(h, A) is the          *)
(* constant-level transition function; the trace specification reuses it.  *)
(***************************************************************************)
EXTENDS Vec, TLC

CONSTANTS NObj,      \* number of heap objects
          VecSet,    \* initial values of objects
          Scalars,   \* scalar alphabet (C numbers)
          IntOnly,   \* TRUE: integer dtype (no division, no negative powers)
          Powers     \* exponents for pow / ipow

Obj == 1..NObj
None == 0
NoAct == [op |-> "init", f |-> "", a |-> CZero, b |-> CZero,
          x |-> 0, y |-> 0, o |-> 0, n |-> 0]

VARIABLES heap,   \* Obj -> value
          act,    \* last action (bookkeeping, hidden by VIEW)
          ret     \* [k |-> "obj", o |-> object]  or  [k |-> "new", v |-> value]

vars == <<heap, act, ret>>

RObj(o) == [k |-> "obj", o |-> o, v |-> <<>>]
RNew(v) == [k |-> "new", o |-> 0, v |-> v]
RAny    == [k |-> "any", o |-> 0, v |-> <<>>]

N(h) == Len(h[1])

(* ----------------------- transition function --------------------------- *)
\* write value v into object o (frame: everything else untouched)
Put(h, o, v) == [h EXCEPT ![o] = v]

Post(h, A) ==
  LET n == N(h) IN
  CASE A.op = "lincomb" ->
         LET v == VLincomb(A.a, h[A.x], A.b, h[A.y])
         IN IF A.o = None THEN [heap |-> h, ret |-> RNew(v)]
                          ELSE [heap |-> Put(h, A.o, v), ret |-> RObj(A.o)]
    [] A.op = "lincomb1" ->      \* space.lincomb(a, x1, out=o)
         LET v == VScal(A.a, h[A.x])
         IN IF A.o = None THEN [heap |-> h, ret |-> RNew(v)]
                          ELSE [heap |-> Put(h, A.o, v), ret |-> RObj(A.o)]
    [] A.op = "bin" ->           \* x f y          (fresh result)
         [heap |-> h, ret |-> RNew(VBin(A.f, h[A.x], h[A.y]))]
    [] A.op = "ibin" ->          \* x f= y         (returns x itself)
         [heap |-> Put(h, A.x, VBin(A.f, h[A.x], h[A.y])), ret |-> RObj(A.x)]
    [] A.op = "abin" ->          \* x f arr   where arr is the raw array of object y (array-like operand, fresh result)
         [heap |-> h, ret |-> RNew(VBin(A.f, h[A.x], h[A.y]))]
    [] A.op = "rabin" ->         \* arr f x   (reflected, array-like on the left)
         [heap |-> h, ret |-> RNew(VBin(A.f, h[A.y], h[A.x]))]
    [] A.op = "iabin" ->         \* x f= arr
         [heap |-> Put(h, A.x, VBin(A.f, h[A.x], h[A.y])), ret |-> RObj(A.x)]
    [] A.op = "pbin" ->          \* power-space broadcasting: X f y, y an element of the COMPONENT space: every component f y
         [heap |-> h, ret |-> RNew(VBin(A.f, h[A.x], h[A.y]))]      \* (object y holds one component-period)
    [] A.op = "rpbin" ->         \* y f X
         [heap |-> h, ret |-> RNew(VBin(A.f, h[A.y], h[A.x]))]
    [] A.op = "ipbin" ->         \* X f= y
         \* the components are updated in place; which wrapper object Python rebinds the name to is not specified
         [heap |-> Put(h, A.x, VBin(A.f, h[A.x], h[A.y])), ret |-> RAny]
    [] A.op = "sbin" ->          \* x f c          (scalar broadcast: c stands for c*one)
         [heap |-> h, ret |-> RNew(VBin(A.f, h[A.x], VConst(n, A.a)))]
    [] A.op = "rsbin" ->         \* c f x          (reflected)
         [heap |-> h, ret |-> RNew(VBin(A.f, VConst(n, A.a), h[A.x]))]
    [] A.op = "isbin" ->         \* x f= c
         [heap |-> Put(h, A.x, VBin(A.f, h[A.x], VConst(n, A.a))), ret |-> RObj(A.x)]
    [] A.op = "pow" ->
         [heap |-> h, ret |-> RNew(VPow(h[A.x], A.n))]
    [] A.op = "ipow" ->
         [heap |-> Put(h, A.x, VPow(h[A.x], A.n)), ret |-> RObj(A.x)]
    [] A.op = "neg" -> [heap |-> h, ret |-> RNew(VNeg(h[A.x]))]
    [] A.op = "pos" -> [heap |-> h, ret |-> RNew(h[A.x])]
    [] A.op = "multiply" ->      \* space.multiply(x, y, out=o)
         LET v == VMul(h[A.x], h[A.y])
         IN IF A.o = None THEN [heap |-> h, ret |-> RNew(v)]
                          ELSE [heap |-> Put(h, A.o, v), ret |-> RObj(A.o)]
    [] A.op = "divide" ->        \* space.divide(x, y, out=o)
         LET v == VDiv(h[A.x], h[A.y])
         IN IF A.o = None THEN [heap |-> h, ret |-> RNew(v)]
                          ELSE [heap |-> Put(h, A.o, v), ret |-> RObj(A.o)]
    [] A.op = "assign" ->        \* x.assign(y)
         [heap |-> Put(h, A.x, h[A.y]), ret |-> RObj(A.x)]
    [] A.op = "copy" -> [heap |-> h, ret |-> RNew(h[A.x])]
    [] A.op = "set_zero" -> [heap |-> Put(h, A.x, VZeroN(n)), ret |-> RObj(A.x)]
    [] A.op = "zero" -> [heap |-> h, ret |-> RNew(VZeroN(n))]
    [] A.op = "one"  -> [heap |-> h, ret |-> RNew(VOneN(n))]

(* ------------------------- action alphabet ----------------------------- *)
Ops2 == IF IntOnly THEN {"add", "sub", "mul"} ELSE {"add", "sub", "mul", "div"}
A0(op) == [NoAct EXCEPT !.op = op]

DivOk(h, f, v) == f # "div" \/ VNoZero(v)

Acts(h) ==
  LET n == N(h) IN
       { [NoAct EXCEPT !.op = "lincomb", !.a = a, !.b = b, !.x = x, !.y = y, !.o = o] :
            a \in Scalars, b \in Scalars, x \in Obj, y \in Obj, o \in Obj \cup {None} }
  \cup { [NoAct EXCEPT !.op = "lincomb1", !.a = a, !.x = x, !.o = o] :
            a \in Scalars, x \in Obj, o \in Obj \cup {None} }
  \cup { A \in { [NoAct EXCEPT !.op = "bin", !.f = f, !.x = x, !.y = y] :
                   f \in Ops2, x \in Obj, y \in Obj } : DivOk(h, A.f, h[A.y]) }
  \cup { A \in { [NoAct EXCEPT !.op = "ibin", !.f = f, !.x = x, !.y = y] :
                   f \in Ops2, x \in Obj, y \in Obj } : DivOk(h, A.f, h[A.y]) }
  \cup { A \in { [NoAct EXCEPT !.op = op, !.f = f, !.x = x, !.y = y] :
                   op \in {"abin", "iabin", "pbin", "ipbin"}, f \in Ops2, x \in Obj, y \in Obj } : A.x # A.y /\ DivOk(h, A.f, h[A.y]) }
  \cup { A \in { [NoAct EXCEPT !.op = op, !.f = f, !.x = x, !.y = y] :
                   op \in {"rabin", "rpbin"}, f \in Ops2, x \in Obj, y \in Obj } : A.x # A.y /\ DivOk(h, A.f, h[A.x]) }
  \cup { A \in { [NoAct EXCEPT !.op = "sbin", !.f = f, !.x = x, !.a = a] :
                   f \in Ops2, x \in Obj, a \in Scalars } : A.f # "div" \/ A.a # CZero }
  \cup { A \in { [NoAct EXCEPT !.op = "rsbin", !.f = f, !.x = x, !.a = a] :
                   f \in Ops2, x \in Obj, a \in Scalars } : DivOk(h, A.f, h[A.x]) }
  \cup { A \in { [NoAct EXCEPT !.op = "isbin", !.f = f, !.x = x, !.a = a] :
                   f \in Ops2, x \in Obj, a \in Scalars } : A.f # "div" \/ A.a # CZero }
  \cup { A \in { [NoAct EXCEPT !.op = op, !.x = x, !.n = k] :
                   op \in {"pow", "ipow"}, x \in Obj, k \in Powers } :
             A.n >= 0 \/ (~IntOnly /\ VNoZero(h[A.x])) }
  \cup { [NoAct EXCEPT !.op = op, !.x = x] : op \in {"neg", "pos", "copy", "set_zero"}, x \in Obj }
  \cup { A \in { [NoAct EXCEPT !.op = op, !.x = x, !.y = y, !.o = o] :
                   op \in {"multiply", "divide"}, x \in Obj, y \in Obj, o \in Obj \cup {None} } :
             A.op = "multiply" \/ (~IntOnly /\ VNoZero(h[A.y])) }
  \cup { [NoAct EXCEPT !.op = "assign", !.x = x, !.y = y] : x \in Obj, y \in Obj }
  \cup { A0("zero"), A0("one") }

(* ------------------------------ machine -------------------------------- *)
Init == /\ heap \in [Obj -> VecSet]
        /\ act = NoAct
        /\ ret = RObj(0)

Do(A) == /\ heap' = Post(heap, A).heap
         /\ ret'  = Post(heap, A).ret
         /\ act'  = A

Next == \E A \in Acts(heap) : Do(A)

Spec == Init /\ [][Next]_vars

(* ------------------------------ properties ----------------------------- *)
\* the object an action writes (0 = none)
Target(A) == CASE A.op \in {"lincomb", "lincomb1", "multiply", "divide"} -> A.o
               [] A.op \in {"ibin", "iabin", "ipbin", "isbin", "ipow", "assign", "set_zero"} -> A.x
               [] OTHER -> 0

\* operands read by an action
Reads(A) == CASE A.op \in {"lincomb", "bin", "ibin", "abin", "rabin", "iabin", "pbin", "rpbin", "ipbin", "multiply", "divide"} -> {A.x, A.y}
              [] A.op = "assign" -> {A.y}
              [] A.op \in {"zero", "one", "set_zero"} -> {}
              [] OTHER -> {A.x}

\* C01: operands that are not the output are never modified
Frame == [][\A o \in Obj : o # Target(act') => heap'[o] = heap[o]]_vars

\* C01: the previous contents of the output never influence the result:
\* replacing the pre-value of a non-operand output by anything gives the same post heap value
StaleOutputIndependent ==
  [][LET A == act' t == Target(A) IN
       (t # 0 /\ t \notin Reads(A)) =>
          \A g \in VecSet : Post(Put(heap, t, g), A).heap[t] = heap'[t]]_vars

\* C01: an in-place call returns the very object it wrote
ReturnsTarget == [][(Target(act') # 0 /\ act'.op # "ipbin") => ret' = RObj(Target(act'))]_vars

\* sanity of layer A: derived arithmetic agrees with the linear combination it is documented to be
DerivedAgree ==
  \A x \in Obj, y \in Obj :
     /\ VAdd(heap[x], heap[y]) = VLincomb(COne, heap[x], COne, heap[y])
     /\ VSub(heap[x], heap[y]) = VLincomb(COne, heap[x], CNeg(COne), heap[y])
     /\ VNeg(heap[x]) = VScal(CNeg(COne), heap[x])
     /\ VPowN(heap[x], 2) = VMul(heap[x], heap[x])
     /\ VPowN(heap[x], 3) = VMul(heap[x], VMul(heap[x], heap[x]))

View == heap
=============================================================================

------------------------------ MODULE FDMachine ------------------------------
(***************************************************************************)
(* Layer B (property C13): the configuration machine of the finite-         *)
(* difference operators.  A state is a configuration                         *)
(*     cfg = [op, shape, axis, hs, method, pad, c]                           *)
(*       op     "pd" (finite_diff / PartialDerivative along `axis`),         *)
(*              "grad", "div", "lap"                                         *)
(*       shape  <<n_1..n_d>>, hs per-axis cell sides (rationals),            *)
(*       c      pad constant (rational)                                      *)
(* together with one observation obs obtained by a query action, one per    *)
(* public way of looking at the operator:                                    *)
(*     Call        op(x)            -> full matrix M and affine part b       *)
(*     Adjoint     op.adjoint       -> matrix of the adjoint (= transpose)   *)
(*                                    and the scheme the documentation       *)
(*                                    pairs it with (acfg, sign)             *)
(*     Derivative  op.derivative(x) -> matrix of the zero-padding variant    *)
(* The invariants are the formal versions of the statement of C13 and the   *)
(* sanity laws the reference must satisfy.                                   *)
(***************************************************************************)
EXTENDS FDSem, TLC

CONSTANT Cfgs          \* the finite configuration space

VARIABLES cfg, obs
vars == <<cfg, obs>>

NoObs == [q |-> "none"]
CQ(c) == CR(c)

Dim(k)   == Len(k.shape)
NIn(k)   == IF k.op = "div" THEN Dim(k) * Size(k.shape) ELSE Size(k.shape)
NOut(k)  == IF k.op = "grad" THEN Dim(k) * Size(k.shape) ELSE Size(k.shape)

AdmissibleCfg(k) ==
  CASE k.op = "pd"  -> Admissible(k.pad, k.shape[k.axis])
    [] k.op = "lap" -> k.pad \in LapPads /\ AdmissibleShape(k.pad, k.shape)
    [] OTHER        -> AdmissibleShape(k.pad, k.shape)
LinearCfg(k) == IsLinearCfg(k.pad, CQ(k.c))

\* full matrix / affine part (for the configuration's own pad constant) on flat C-order arrays
Mat(k) ==
  CASE k.op = "pd"   -> PDMat(k.method, k.pad, k.hs, k.shape, k.axis)
    [] k.op = "grad" -> GradMat(k.method, k.pad, k.hs, k.shape)
    [] k.op = "div"  -> DivMat(k.method, k.pad, k.hs, k.shape)
    [] k.op = "lap"  -> LapMatND(k.pad, k.hs, k.shape)
AffCoef(k) ==
  CASE k.op = "pd"   -> PDAffV(k.method, k.pad, k.hs, k.shape, k.axis)
    [] k.op = "grad" -> GradAffV(k.method, k.pad, k.hs, k.shape)
    [] k.op = "div"  -> DivAffV(k.method, k.pad, k.hs, k.shape)
    [] k.op = "lap"  -> LapAffV(k.pad, k.hs, k.shape)
Aff(k) == VQScale(k.c, AffCoef(k))

\* the scheme the documentation pairs with the adjoint:  op.adjoint = sign * acfg
AdjCfg(k) ==
  CASE k.op = "pd"   -> [k EXCEPT !.method = AdjMethod(k.method), !.pad = AdjPad(k.pad)]
    [] k.op = "grad" -> [k EXCEPT !.op = "div", !.method = AdjMethod(k.method), !.pad = AdjPad(k.pad)]
    [] k.op = "div"  -> [k EXCEPT !.op = "grad", !.method = AdjMethod(k.method), !.pad = AdjPad(k.pad)]
    [] k.op = "lap"  -> [k EXCEPT !.c = QZero]          \* documented as self-adjoint
AdjSign(k) == IF k.op = "lap" THEN 1 ELSE -1
ZeroPadCfg(k) == [k EXCEPT !.c = QZero]

Observe(k, q) ==
  IF ~AdmissibleCfg(k) THEN [q |-> q, admissible |-> FALSE]
  ELSE CASE q = "call" ->
              [q |-> q, admissible |-> TRUE, linear |-> LinearCfg(k), mat |-> Mat(k), b |-> Aff(k)]
         [] q = "adjoint" ->
              [q |-> q, admissible |-> TRUE, linear |-> LinearCfg(k), mat |-> Transpose(Mat(k)),
               acfg |-> AdjCfg(k), sign |-> AdjSign(k)]
         [] q = "derivative" ->
              [q |-> q, admissible |-> TRUE, linear |-> LinearCfg(k), mat |-> Mat(ZeroPadCfg(k)),
               b |-> Aff(ZeroPadCfg(k)), dcfg |-> ZeroPadCfg(k)]

\* the adjoint exists for linear operators only
QueryEnabled(k, q) ==
  CASE q = "call" -> TRUE
    [] q = "adjoint" -> AdmissibleCfg(k) /\ LinearCfg(k)
    [] q = "derivative" -> AdmissibleCfg(k)

Init == cfg \in Cfgs /\ obs = NoObs
Query(q) == /\ obs = NoObs
            /\ QueryEnabled(cfg, q)
            /\ obs' = Observe(cfg, q)
            /\ UNCHANGED cfg
Next == \E q \in {"call", "adjoint", "derivative"} : Query(q)
Spec == Init /\ [][Next]_vars

(* ------------------------- the statement of C13 -------------------------- *)
\* "the operator returned as adjoint is exactly the transpose of the operator's matrix":
\* the scheme paired with the adjoint, with its sign, has the transposed matrix
AdjointIsTranspose ==
  (obs.q = "adjoint" /\ obs.admissible) =>
     /\ AdmissibleCfg(obs.acfg)
     /\ (IF obs.sign = 1 THEN Mat(obs.acfg) ELSE MNeg(Mat(obs.acfg))) = obs.mat
     /\ \A i \in 1..Len(AffCoef(obs.acfg)) : Aff(obs.acfg)[i] = QZero
\* "divergence is minus the adjoint of gradient"
DivIsMinusGradAdjoint ==
  (obs.q = "adjoint" /\ obs.admissible /\ cfg.op = "grad") =>
     DivMat(AdjMethod(cfg.method), AdjPad(cfg.pad), cfg.hs, cfg.shape) = MNeg(obs.mat)
\* "the derivative of the affine constant-padding variant is its zero-padding version"
DerivativeIsZeroPadding ==
  (obs.q = "derivative" /\ obs.admissible) =>
     /\ obs.mat = Mat(cfg)
     /\ \A i \in 1..Len(obs.b) : obs.b[i] = QZero
     /\ (cfg.pad # "constant" => obs.dcfg.pad = cfg.pad /\ Aff(cfg) = obs.b)

(* ------------------------- sanity laws of the reference ------------------ *)
OnesV(n) == [i \in 1..n |-> QOne]
IsZeroV(v) == \A i \in 1..Len(v) : v[i] = QZero
Ramp(n) == [i \in 1..n |-> QI(i)]
Squares(n) == [i \in 1..n |-> QI(i * i)]

\* one-axis laws, checked on the axis configurations ("pd" in 1-d)
AxisLaws ==
  (obs = NoObs /\ cfg.op = "pd" /\ Dim(cfg) = 1 /\ AdmissibleCfg(cfg)) =>
    LET n == cfg.shape[1]
        m == cfg.method
        p == cfg.pad
        M1 == FDMat1(m, p, n)
    IN
    \* constants have derivative zero (with constant padding: when the pad value continues the constant)
    /\ (p \in BasePads \ {"constant"} => IsZeroV(MatVecQ(M1, OnesV(n))))
    /\ (p = "constant" => IsZeroV(VQAdd(MatVecQ(M1, OnesV(n)), FDAff1(m, p, n))))
    \* linear extrapolation and second-order edges differentiate the ramp exactly
    /\ (p \in {"order1", "order2"} => MatVecQ(M1, Ramp(n)) = OnesV(n))
    \* second-order edges with the central method: exact on quadratics, and equal to the central
    \* stencil on the quadratic extrapolation
    /\ (p = "order2" /\ m = "central" =>
          /\ MatVecQ(M1, Squares(n)) = [i \in 1..n |-> QI(2 * i)]
          /\ \A j \in 1..n : \A i \in 1..n : M1[i][j] = StencilAt("central", "order2", QZero, Unit(n, j), i))
    \* periodic differences commute with cyclic shifts (circulant matrix)
    /\ (p = "periodic" => \A i, j \in 1..n : M1[i][j] = M1[(i % n) + 1][(j % n) + 1])
    \* adjoint-of-adjoint is the base scheme
    /\ AdjPad(AdjPad(p)) = p /\ AdjMethod(AdjMethod(m)) = m
    \* the second difference is forward minus backward difference, for every admissible mode
    /\ (p \in LapPads => LapMat1(p, n) = MSub(FDMat1("forward", p, n), FDMat1("backward", p, n)))
    /\ (p \in LapPads => LapAff1(p, n) = VQAdd(FDAff1("forward", p, n), VQScale(<<-1, 1>>, FDAff1("backward", p, n))))
    \* the Laplacian is symmetric in every admissible mode (documented: self-adjoint)
    /\ (p \in LapPads => LapMat1(p, n) = Transpose(LapMat1(p, n)))

\* line-wise application and full matrix are the same map
ProbeArr(N) == [k \in 1..N |-> <<QI(((k * k) % 5) - 2), QI((k % 3) - 1)>>]
ApplyAgreesWithMatrix ==
  (obs.q = "call" /\ obs.admissible /\ cfg.op \in {"pd", "lap"}) =>
    LET N == Size(cfg.shape)
        x == ProbeArr(N)
        lin == MatVecC(obs.mat, x)
        viaMat == [i \in 1..N |-> CAdd(lin[i], CR(obs.b[i]))]
    IN  IF cfg.op = "pd"
          THEN viaMat = PD(cfg.method, cfg.pad, CQ(cfg.c), cfg.hs, cfg.shape, cfg.axis, x)
          ELSE viaMat = Lap(cfg.pad, CQ(cfg.c), cfg.hs, cfg.shape, x)
=============================================================================

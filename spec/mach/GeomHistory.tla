---------------------------- MODULE GeomHistory ----------------------------
(***************************************************************************)
(* Layer B for C19, history part: a geometry is an OBJECT with a life.     *)
(* Its constructor receives arrays that stay owned by the caller, and it   *)
(* hands out arrays (attributes, query results) the caller may write to.   *)
(* The property quantifies over geometries "for every parameter": what a   *)
(* query answers is a function of the parameters given at construction,    *)
(* not of what happened to those arrays afterwards.                        *)
(*                                                                         *)
(*   Construct                 the geometry copies what it needs           *)
(*   MutateCaller(x)           the caller overwrites the array it passed   *)
(*                             as constructor argument x                   *)
(*   MutateReturned(y)         the caller overwrites an array the geometry *)
(*                             returned (attribute or query result y); a   *)
(*                             read-only array refuses, which is fine      *)
(*   Query                     all public queries                          *)
(*                                                                         *)
(* Invariant HistoryFree: every Query answers like the history-free        *)
(* reference (layer A, GeomSem, evaluated on the construction parameters). *)
(* In the reference no mutation reaches the internal state.  Layer C is    *)
(* the same machine with the sets of inputs / attributes / results that    *)
(* the IMPLEMENTATION shares with the caller (constants *ByRef); TLC then  *)
(* produces the shortest corrupting history.  Every history ending in a    *)
(* Query is exported and replayed on real geometry objects.                *)
(***************************************************************************)
EXTENDS Naturals, Sequences, FiniteSets

CONSTANTS Inputs,        \* constructor arguments given as caller-owned arrays
          Attrs,         \* array-valued attributes handed out
          Results,       \* query results handed out
          InputByRef,    \* layer C: inputs the implementation keeps by reference
          AttrByRef,     \* layer C: attributes that ARE the internal arrays (writable)
          ResultShared,  \* layer C: results that are cached or views of internal arrays
          MaxMut         \* mutations per history

VARIABLES hist,          \* sequence of [act, what]
          intact         \* the internal state still is what Construct was given

vars == <<hist, intact>>
Step(a, w) == [act |-> a, what |-> w]
NMut == Cardinality({ i \in 1..Len(hist) : hist[i].act \in {"MutateCaller", "MutateReturned"} })
Done == hist[Len(hist)].act = "Query"

Init == hist = <<Step("Construct", "-")>> /\ intact = TRUE

MutateCaller(x) ==
  /\ ~Done /\ NMut < MaxMut
  /\ hist' = Append(hist, Step("MutateCaller", x))
  /\ intact' = (intact /\ x \notin InputByRef)

MutateReturned(y) ==
  /\ ~Done /\ NMut < MaxMut
  /\ hist' = Append(hist, Step("MutateReturned", y))
  /\ intact' = (intact /\ y \notin (AttrByRef \cup ResultShared))

Query ==
  /\ ~Done /\ NMut >= 1
  /\ hist' = Append(hist, Step("Query", "-"))
  /\ UNCHANGED intact

Next == \/ \E x \in Inputs : MutateCaller(x)
        \/ \E y \in Attrs \cup Results : MutateReturned(y)
        \/ Query
Spec == Init /\ [][Next]_vars

\* query = history-free reference
HistoryFree == Done => intact
=============================================================================

---------------------------- MODULE BlockOpMachine ----------------------------
(***************************************************************************)
(* Layer B: block operators and what they HAND OUT, as a state machine.     *)
(*                                                                         *)
(* State: a user-written operator description `root` (a constructor call of *)
(* ProductSpaceOperator / BroadcastOperator / ReductionOperator /           *)
(* DiagonalOperator / ComponentProjection / ComponentProjectionAdjoint),    *)
(* the `chain` of public API calls applied to it so far, and `cur`, the     *)
(* MEANING (normal form of BlockOpSem) of the object the chain has produced.*)
(* Actions = the public calls that return another operator:                 *)
(*    .adjoint   .derivative(x)   P[i]   P[i, j] / B[i]   .inverse          *)
(* Every state is queried (evaluation at lattice points, domain, range,     *)
(* linearity, shape / len / size); the answers are layer A's and are        *)
(* exported for replay on the real objects.  The invariants are the laws    *)
(* the documentation states, checked on EVERY object reachable this way.    *)
(***************************************************************************)
EXTENDS BlockOpSem, TLC

CONSTANTS Roots,      \* set of operator descriptions (BlockOpSem!Desc)
          MaxChain,   \* bound on the number of derivation steps
          PtV, PtS,   \* sequences (length 3) of lattice points of the factors V and S
          NDeriv      \* number of points at which derivatives are taken (1 or 2)

VARIABLES root, chain, cur
bvars == <<root, chain, cur>>

\* lattice points of a product of factors: different values in different positions
XPt(types, a) ==
  [c \in 1..Len(types) |-> IF types[c] = "V" THEN PtV[((c + a) % 3) + 1] ELSE PtS[((c + a) % 3) + 1]]
EvalPts(types)  == { XPt(types, a) : a \in 0..1 }
DerivPts(types) == { XPt(types, a) : a \in 1..NDeriv }

St(a, i, j, x) == [a |-> a, i |-> i, j |-> j, x |-> x]

Terminal(N) == ~N.ok \/ N.k \in {"plain", "int0"}

\* .inverse is offered by the component classes identity / scaling / matrix only, so the machine takes it on a root
\* made of those (and on what .inverse itself returned)
InverseOffered(N, ch) ==
  /\ DiagInvertible(N)
  /\ \A q \in 1..Len(ch) : ch[q].a = "inverse"
  /\ \A i \in 1..NRows(N) : N.B[i][i].e.t \in {"id", "scale", "mat"}

Steps(N, ch) ==
  IF Terminal(N) THEN {}
  ELSE (IF LinearN(N) THEN {St("adjoint", 0, 0, <<>>)} ELSE {})
       \cup (IF ~LinearN(N) \/ Len(ch) = 0 THEN {St("deriv", 0, 0, x) : x \in DerivPts(N.dom)} ELSE {})
       \cup (IF N.k = "pso" THEN {St("row", i, 0, <<>>) : i \in 1..NRows(N)} ELSE {})
       \cup (IF N.k = "pso" THEN {St("block", i, j, <<>>) : i \in 1..NRows(N), j \in 1..NCols(N)} ELSE {})
       \cup (IF N.k \in {"bc", "red", "diag"} THEN {St("part", i, 0, <<>>) : i \in 1..LenN(N)} ELSE {})
       \cup (IF InverseOffered(N, ch) THEN {St("inverse", 0, 0, <<>>)} ELSE {})

PartBlk(N, i) == IF N.k = "bc" THEN N.B[i][1] ELSE IF N.k = "red" THEN N.B[1][i] ELSE N.B[i][i]

Apply(N, s) ==
  CASE s.a = "adjoint" -> AdjN(N)
    [] s.a = "deriv"   -> DerivN(N, s.x)
    [] s.a = "row"     -> RowN(N, s.i)
    [] s.a = "block"   -> BlockN(N, s.i, s.j)
    [] s.a = "part"    -> PlainN(PartBlk(N, s.i))
    [] s.a = "inverse" -> InvDiagN(N)

Init == /\ root \in Roots
        /\ chain = <<>>
        /\ cur = NormOp(root)

Next == /\ Len(chain) < MaxChain
        /\ \E s \in Steps(cur, chain) :
             /\ chain' = Append(chain, s)
             /\ cur' = Apply(cur, s)
        /\ UNCHANGED root

Spec == Init /\ [][Next]_bvars

(* ------------------------------ invariants ------------------------------ *)
Live == cur.ok /\ cur.k # "int0"

\* every block maps between the factors its position says
WellFormed ==
  Live => /\ Len(cur.B) = NRows(cur)
          /\ \A i \in 1..NRows(cur) : Len(cur.B[i]) = NCols(cur)
          /\ \A p \in Present(cur) : cur.B[p[1]][p[2]].d = cur.dom[p[2]] /\ cur.B[p[1]][p[2]].r = cur.ran[p[1]]

\* the transposed matrix of block adjoints IS the adjoint; adjoint of the adjoint acts like the operator
AdjointLaws == Live => LawAdjoint(cur) /\ LawBiAdjoint(cur)

\* the matrix of block derivatives IS the Frechet derivative; linear operators are their own derivative
DerivativeLaws == Live => LawDerivative(cur, DerivPts(cur.dom), chain = <<>> \/ MaxChain > 2)

IndexLaws == Live => LawRow(cur, EvalPts(cur.dom)) /\ LawBlock(cur, EvalPts(cur.dom))

InverseLaw == Live => LawInverse(cur, EvalPts(cur.dom))

\* linear block operators are additive and homogeneous on the lattice
LinearityLaw ==
  (Live /\ LinearN(cur) /\ (Len(chain) <= 1 \/ MaxChain > 2)) =>
     \A x \in EvalPts(cur.dom), y \in EvalPts(cur.dom) :
        /\ EvalN(cur, XAdd(x, y)) = [i \in 1..NRows(cur) |-> VAdd(EvalN(cur, x)[i], EvalN(cur, y)[i])]
        /\ EvalN(cur, XScal(CInt(3), x)) = [i \in 1..NRows(cur) |-> VScal(CInt(3), EvalN(cur, x)[i])]

\* Broadcast.adjoint = Reduction of the adjoints and vice versa; Diagonal.adjoint / derivative / inverse are
\* Diagonal of the parts'; Broadcast / Reduction .derivative(x) are Broadcast / Reduction of the parts' derivatives
Mk(k, parts) == Desc(k, parts, <<>>, <<>>, <<>>, FALSE, 0)
DualityLaws ==
  (chain = <<>> /\ cur.ok /\ root.k \in {"bc", "red", "diag"}) =>
     LET P == Parts(root) n == Len(P) IN
     /\ LinearN(cur) => AdjN(cur) = NormOp(Mk(AdjKind(root.k), [i \in 1..n |-> AdjBlk(P[i])]))
     /\ \A x \in DerivPts(cur.dom) :
           DerivN(cur, x) = NormOp(Mk(root.k, [i \in 1..n |-> DerivBlk(P[i], IF root.k = "bc" THEN x[1] ELSE x[i])]))
     /\ DiagInvertible(cur) => InvDiagN(cur) = NormOp(Mk("diag", [i \in 1..n |-> InvBlk(P[i])]))

\* projection after embedding is the identity; embedding after projection keeps the selected parts and zeroes the rest
ProjectionLaws ==
  (cur.ok /\ cur.k = "proj") =>
     LET E == AdjN(cur) IN
     /\ \A y \in EvalPts(cur.ran) : EvalN(cur, EvalN(E, y)) = y
     /\ \A x \in EvalPts(cur.dom) :
           EvalN(E, EvalN(cur, x)) =
             [c \in 1..NCols(cur) |-> IF \E r \in 1..NRows(cur) : cur.B[r][c].p THEN x[c] ELSE ZeroOf(cur.dom[c])]
     /\ \A x \in EvalPts(cur.dom), r \in 1..NRows(cur) :
           \E c \in 1..NCols(cur) : cur.B[r][c].p /\ EvalN(cur, x)[r] = x[c]
=============================================================================

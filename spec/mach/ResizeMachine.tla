---------------------------- MODULE ResizeMachine ----------------------------
(***************************************************************************)
(* Layer B (property C16): the configuration machine of array resizing.     *)
(* A state is a configuration                                               *)
(*     cfg = [shapeIn, shapeOut, offs, mode, dir, c]                        *)
(* (dir "forward" | "adjoint", c the integer pad constant) together with    *)
(* one observation obtained by a query action:                              *)
(*     Call     resize_array(arr, shapeOut, offs, mode, c, dir)             *)
(*              -> admissibility, full matrix and affine part               *)
(*     Inverse  (forward configurations) the cropping / re-extension        *)
(*              configuration that ResizingOperator.inverse denotes, its    *)
(*              matrix, and the product  inverse * forward                  *)
(* The invariants are the formal versions of the statement of C16 and the   *)
(* sanity laws the reference must satisfy.                                  *)
(***************************************************************************)
EXTENDS ResizeSem, TLC

CONSTANT Cfgs

VARIABLES cfg, obs
vars == <<cfg, obs>>
NoObs == [q |-> "none"]

Adm(k)  == AdmissibleND(k.mode, k.dir, k.shapeIn, k.shapeOut, k.offs)
Mat(k)  == FullMat(k.mode, k.dir, k.shapeIn, k.shapeOut, k.offs)
AffV(k) == LET a == FullAff(k.mode, k.dir, k.shapeIn, k.shapeOut, k.offs) IN [i \in 1..Len(a) |-> a[i] * k.c]
\* the configuration back from the range to the domain with the same offsets (what .inverse denotes)
InvCfg(k) == [k EXCEPT !.shapeIn = k.shapeOut, !.shapeOut = k.shapeIn]
\* the opposite direction between the same two shapes (what the adjoint of the operator computes)
AdjCfg(k) == [k EXCEPT !.shapeIn = k.shapeOut, !.shapeOut = k.shapeIn, !.dir = "adjoint", !.c = 0]
Grows(k)   == \A a \in 1..Len(k.shapeIn) : k.shapeOut[a] >= k.shapeIn[a]

\* operator geometry for every combination of nodes-on-boundary flags of domain (dL, dR) and range (rL, rR);
\* the domain is [GeoLo, hi] with cell side GeoH
GeoLo == <<-1, 1>>
GeoH  == <<1, 2>>
FlagSeq == [i \in 1..16 |-> <<(i - 1) \div 8, ((i - 1) \div 4) % 2, ((i - 1) \div 2) % 2, (i - 1) % 2>>]
GeoCase(k, f) ==
  LET m == k.shapeIn[1]  n == k.shapeOut[1]
      o == EffOffs(k.shapeIn, k.shapeOut, k.offs)[1]            \* ignored when the size does not change
      hi == QAdd(GeoLo, QMul(Q(CellsB2(m, f[1], f[2]), 2), GeoH))
  IN  [dL |-> f[1], dR |-> f[2], rL |-> f[3], rR |-> f[4], lo |-> GeoLo, hi |-> hi, off |-> o,
       cell   |-> CellSideB(GeoLo, hi, m, f[1], f[2]),
       node0  |-> RangeNode0B(GeoLo, hi, m, n, o, f[1], f[2]),
       ranlo  |-> RangeLoB(GeoLo, hi, m, n, o, f[1], f[2], f[3]),
       ranhi  |-> RangeHiB(GeoLo, hi, m, n, o, f[1], f[2], f[4])]
GeoCases(k) ==
  LET ok == SelectSeq(FlagSeq, LAMBDA f : FlagsOK(k.shapeIn[1], k.shapeOut[1], f[1], f[2], f[3], f[4]))
  IN  [i \in 1..Len(ok) |-> GeoCase(k, ok[i])]

Observe(k, q) ==
  IF q = "geometry" THEN [q |-> q, adm |-> TRUE, geo |-> GeoCases(k)]
  ELSE IF q = "call" THEN
    IF Adm(k) THEN [q |-> q, adm |-> TRUE, mat |-> Mat(k), aff |-> AffV(k)]
              ELSE [q |-> q, adm |-> FALSE]
  ELSE \* "inverse"
    [q |-> q, adm |-> TRUE, icfg |-> InvCfg(k), mat |-> Mat(InvCfg(k)), aff |-> AffV(InvCfg(k)),
     prod |-> MatMulI(Mat(InvCfg(k)), Mat(k), SizeR(k.shapeIn), SizeR(k.shapeOut), SizeR(k.shapeIn))]

QueryEnabled(k, q) ==
  IF q = "call" THEN TRUE
  ELSE IF q = "geometry" THEN Len(k.shapeIn) = 1 /\ k.dir = "forward" /\ k.c = 0 /\ k.mode = "constant"
  ELSE k.dir = "forward" /\ Adm(k) /\ Adm(InvCfg(k))

Init == cfg \in Cfgs /\ obs = NoObs
Query(q) == /\ obs = NoObs
            /\ QueryEnabled(cfg, q)
            /\ obs' = Observe(cfg, q)
            /\ UNCHANGED cfg
Next == \E q \in {"call", "inverse", "geometry"} : Query(q)
Spec == Init /\ [][Next]_vars

(* ------------------------- the statement of C16 -------------------------- *)
N1(k) == SizeR(k.shapeIn)
N2(k) == SizeR(k.shapeOut)
\* "forward and adjoint directions are transposes of each other"
AdjointIsTranspose ==
  (obs.q = "call" /\ obs.adm /\ cfg.dir = "forward" /\ cfg.c = 0) =>
     /\ Adm(AdjCfg(cfg))
     /\ Mat(AdjCfg(cfg)) = TransposeI(obs.mat, N2(cfg), N1(cfg))
\* "extending and then cropping with matching offsets is the identity"
ExtendThenCropIsIdentity ==
  (obs.q = "inverse" /\ Grows(cfg)) =>
     /\ obs.prod = IdentI(N1(cfg))
     /\ \A i \in 1..N1(cfg) : obs.aff[i] = 0
\* "copies the overlapping block unchanged": inside the overlap the source map is the shifted identity
Shift(k, a) == IF k.shapeOut[a] > k.shapeIn[a] THEN -k.offs[a] ELSE IF k.shapeOut[a] < k.shapeIn[a] THEN k.offs[a] ELSE 0
StrideR(shape, a) == ProdFromR(shape, a + 1)
CoordOf(shape, k, a) == ((k - 1) \div StrideR(shape, a)) % shape[a]
OverlapCopied ==
  (obs.q = "call" /\ obs.adm /\ cfg.dir = "forward") =>
    \A i \in 1..N2(cfg) :
      LET src == [a \in 1..Len(cfg.shapeIn) |-> CoordOf(cfg.shapeOut, i, a) + Shift(cfg, a)]
          inside == \A a \in 1..Len(cfg.shapeIn) : src[a] >= 0 /\ src[a] < cfg.shapeIn[a]
      IN  inside =>
            LET RECURSIVE FlatIx(_)
                FlatIx(a) == IF a > Len(cfg.shapeIn) THEN 0 ELSE src[a] * StrideR(cfg.shapeIn, a) + FlatIx(a + 1)
                j == 1 + FlatIx(1)
            IN  /\ obs.aff[i] = 0
                /\ \A l \in 1..N1(cfg) : obs.mat[i][l] = (IF l = j THEN 1 ELSE 0)

\* "the resizing operator's range covers the enlarged physical domain with unchanged cell sizes":
\* laws of the range geometry for every combination of nodes-on-boundary flags
GeometryLaws ==
  obs.q = "geometry" =>
    \A i \in 1..Len(obs.geo) :
      LET g == obs.geo[i]
          m == cfg.shapeIn[1]  n == cfg.shapeOut[1]  o == g.off
      IN  \* an unchanged axis keeps the domain's nodes whatever offset entry was given
          /\ (m = n => g.off = 0 /\ g.node0 = Node0B(g.lo, g.hi, m, g.dL, g.dR))
          \* the range is a uniform partition with the SAME cell side and the given flags
          /\ g.cell = GeoH
          /\ CellSideB(g.ranlo, g.ranhi, n, g.rL, g.rR) = g.cell
          /\ Node0B(g.ranlo, g.ranhi, n, g.rL, g.rR) = g.node0
          \* the copied block sits at the same physical grid points: range node o (growing) resp. 0 (shrinking)
          \* is domain node 0 resp. o
          /\ (IF n >= m THEN QAdd(g.node0, QMul(QI(o), g.cell)) ELSE QSub(g.node0, QMul(QI(o), g.cell)))
               = Node0B(g.lo, g.hi, m, g.dL, g.dR)
          \* going back with the same offset and the domain's flags recovers the domain (.inverse constructible)
          /\ RangeLoB(g.ranlo, g.ranhi, n, m, o, g.rL, g.rR, g.dL) = g.lo
          /\ RangeHiB(g.ranlo, g.ranhi, n, m, o, g.rL, g.rR, g.dR) = g.hi
          \* without flags this is the plain formula
          /\ (g.dL + g.dR + g.rL + g.rR = 0 =>
                g.ranlo = RangeLo(g.lo, g.hi, m, n, o) /\ g.ranhi = RangeHi(g.lo, g.hi, m, n, o))
          \* growing: the range covers the domain
          /\ (n >= m => QLe(g.ranlo, g.lo) \/ g.rL > g.dL)

\* offset entries on unchanged axes are ignored: the configuration with them set to 0 is the same map
\* (offset = k on an n-d resizing that changes only some axes means [k, 0] style offsets)
UnchangedAxisOffsetIgnored ==
  (obs.q = "call" /\ obs.adm /\ EffOffs(cfg.shapeIn, cfg.shapeOut, cfg.offs) # cfg.offs) =>
    LET k0 == [cfg EXCEPT !.offs = EffOffs(cfg.shapeIn, cfg.shapeOut, cfg.offs)]
    IN  Adm(k0) /\ Mat(k0) = obs.mat /\ AffV(k0) = obs.aff

(* ------------------------- sanity laws of the reference ------------------ *)
RowSum(M, i, n) == LET RECURSIVE S(_)
                       S(j) == IF j > n THEN 0 ELSE M[i][j] + S(j + 1)
                   IN  S(1)
RowLaws ==
  (obs.q = "call" /\ obs.adm /\ cfg.dir = "forward") =>
    \A i \in 1..N2(cfg) :
      \* every output entry is either the pad constant or an affine combination of inputs with weights summing to 1
      /\ (cfg.mode = "constant" => /\ obs.aff[i] \in {0, cfg.c}
                                   /\ RowSum(obs.mat, i, N1(cfg)) = (IF FullAff(cfg.mode, cfg.dir, cfg.shapeIn, cfg.shapeOut, cfg.offs)[i] = 1 THEN 0 ELSE 1))
      /\ (cfg.mode # "constant" => obs.aff[i] = 0 /\ RowSum(obs.mat, i, N1(cfg)) = 1)
      \* periodic / symmetric / order0 only copy entries
      /\ (cfg.mode \in {"periodic", "symmetric", "order0"} => \A l \in 1..N1(cfg) : obs.mat[i][l] \in {0, 1})
\* the composition over the axes does not depend on the order of the axes
AxisOrderIrrelevant ==
  (obs.q = "call" /\ obs.adm /\ Len(cfg.shapeIn) > 1) =>
    LET N == N1(cfg)
        x == [k \in 1..N |-> ((k * k) % 7) - 3]
    IN  FoldI(cfg.mode, cfg.dir, cfg.c, cfg.shapeIn, cfg.shapeOut, cfg.offs, RevAxesOf(cfg.shapeIn), Eager(x))
          = ResizeI(cfg.mode, cfg.dir, cfg.c, cfg.shapeIn, cfg.shapeOut, cfg.offs, Eager(x))
\* linear extrapolation continues a linear sequence exactly; periodic / symmetric extension of the sequence j
LinearRampLaw ==
  (obs.q = "call" /\ obs.adm /\ cfg.dir = "forward" /\ Len(cfg.shapeIn) = 1 /\ cfg.mode = "order1"
     /\ cfg.shapeOut[1] > cfg.shapeIn[1]) =>
    LET m == cfg.shapeIn[1]  n == cfg.shapeOut[1]  o == cfg.offs[1]
    IN  ResizeI("order1", "forward", 0, <<m>>, <<n>>, <<o>>, [j \in 1..m |-> 10 * j]) = [i \in 1..n |-> 10 * (i - o)]
\* the Gaussian-rational evaluation agrees with the integer matrices
ComplexAgrees ==
  (obs.q = "call" /\ obs.adm) =>
    LET N == N1(cfg)
        x == [k \in 1..N |-> ((k * k) % 7) - 3]
        xc == [k \in 1..N |-> CInt(x[k])]
        yi == ResizeI(cfg.mode, cfg.dir, cfg.c, cfg.shapeIn, cfg.shapeOut, cfg.offs, Eager(x))
    IN  Resize(cfg.mode, cfg.dir, CInt(cfg.c), cfg.shapeIn, cfg.shapeOut, cfg.offs, Eager(xc))
          = [k \in 1..Len(yi) |-> CInt(yi[k])]
=============================================================================

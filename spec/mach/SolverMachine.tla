--------------------------- MODULE SolverMachine ---------------------------
(***************************************************************************)
(* Layer B for C11 / C12: a solver CALL as a state machine.                *)
(*                                                                         *)
(* Two processes run side by side on one problem instance `inst`:           *)
(*   * the implementation-shaped process (layer C) executes the loop body  *)
(*     of the solver function on an aliased `heap`; for admm_linearized,   *)
(*     adupdates, doubleprox_dc and pdhg every Python statement is one      *)
(*     step, for the other solvers one step is one iteration;              *)
(*   * the reference process (layer A) performs the textbook / `_simple`   *)
(*     iteration, one whole iteration per `Iterate` action, on `ref`.      *)
(* `Start` is the code before the loop (fresh temporaries, defaults for    *)
(* state that was not passed), `Return` drops everything the API does not  *)
(* hand back.  `split` = n > 0 places a Return;Start boundary after n      *)
(* iterations; split = -1 is the single call.  `cb` logs the callback.     *)
(*                                                                         *)
(* pc:  0  outside the solver function (before Start / after Return)       *)
(*      1..Len(Body)  next statement of the current iteration              *)
(*      -1 the loop has finished, the function is about to return          *)
(*      -2 (C12 runs only) the KKT pairs have not been searched yet         *)
(***************************************************************************)
EXTENDS SolverADMMImpl, SolverADUImpl, SolverDPDCImpl, SolverPDHGImpl, SolverIterImpl

CONSTANTS Catalogue,      \* set of instances
          AliasZero,      \* TRUE: proximal of c*L1 called aliased returns 0 (tree as pinned)
          WithSplits,     \* TRUE: explore every Return;Start boundary as well
          LatX, LatY      \* lattices searched for KKT pairs (C12; empty: no search)

VARIABLES inst, split, k, rk, pc, heap, ref, cb,
          kkt             \* KKT pairs of the instance found on the lattices (computed once, in Init)
vars == <<inst, split, k, rk, pc, heap, ref, cb, kkt>>

StmtLevel == {"admm", "adu", "dpdc", "pdhg"}
NonSmooth == {"pdhg", "admm", "dr", "fb", "pg"}
\* solvers for which the property claims exact resumption
Resumable == {"pdhg", "landweber", "kaczmarz", "pg", "mlem", "sd"}
\* doubleprox_dc hands both iterates back, so it is resumable by construction (model only)
ModelResumable == Resumable \cup {"dpdc"}

Dim(I) == NCols(I.Ls[1])
ZeroDuals(I) == [j \in 1..Len(I.Ls) |-> RZero(NRows(I.Ls[j]))]

(* ------------------------- reference process --------------------------- *)
RefInit(I) ==
  CASE I.solver = "pdhg" -> [x |-> I.x0, y |-> RZero(NRows(L1of(I))), xr |-> I.x0]
    [] I.solver = "admm" -> [x |-> I.x0, z |-> RZero(NRows(L1of(I))), u |-> RZero(NRows(L1of(I)))]
    [] I.solver = "adu"  -> [x |-> I.x0, d |-> ZeroDuals(I)]
    [] I.solver = "dpdc" -> [x |-> I.x0, y |-> I.y0]
    [] I.solver = "dr"   -> [xi |-> I.x0, v |-> ZeroDuals(I), x |-> I.x0]
    [] I.solver = "fb"   -> [x |-> I.x0, v |-> ZeroDuals(I)]
    [] I.solver = "cg"   -> CGInit(I, I.x0)
    [] I.solver = "cgn"  -> CGNInit(I, I.x0)
    [] OTHER -> [x |-> I.x0]

RefStep(I, s) ==
  CASE I.solver = "pdhg" -> PDHGStep(I, s)
    [] I.solver = "admm" -> ADMMStep(I, s)
    [] I.solver = "adu"  -> ADUStep(I, s)
    [] I.solver = "dpdc" -> DPDCStep(I, s)
    [] I.solver = "dr"   -> DRStep(I, s)
    [] I.solver = "fb"   -> FBStep(I, s)
    [] I.solver = "pg"   -> PGStep(I, s)
    [] I.solver = "landweber" -> LandweberStep(I, s)
    [] I.solver = "kaczmarz"  -> KaczmarzStep(I, s)
    [] I.solver = "cg"   -> CGStep(I, s)
    [] I.solver = "cgn"  -> CGNStep(I, s)
    [] I.solver = "mlem" -> MLEMStep(I, s)
    [] I.solver = "sd"   -> SDStep(I, s)
    [] I.solver = "sdbt" -> SDArmijoStep(I, s)
    [] I.solver = "power" -> PowerStep(I, s)

RECURSIVE RefRun(_, _, _)
RefRun(I, s, n) == IF n = 0 THEN s ELSE RefRun(I, RefStep(I, s), n - 1)

(* ------------------------- implementation process ---------------------- *)
Passed == split # -1           \* the caller owns x_relax / y only if it intends to resume

CallerHeap(I) ==
  CASE I.solver = "pdhg" /\ Passed -> [x |-> I.x0, xr |-> I.x0, y |-> RZero(NRows(L1of(I)))]
    [] I.solver = "dpdc" -> [x |-> I.x0, y |-> I.y0]
    [] OTHER -> [x |-> I.x0]

StartHeap(I, h) ==
  CASE I.solver = "admm" -> ADMMStart(I, h)
    [] I.solver = "adu"  -> ADUStart(I, h)
    [] I.solver = "dpdc" -> DPDCStart(I, h)
    [] I.solver = "pdhg" -> PDHGStart(I, h)
    [] OTHER -> IterStart(I, h)

Body(I) ==
  CASE I.solver = "admm" -> ADMMBody(I)
    [] I.solver = "adu"  -> ADUBody(I)
    [] I.solver = "dpdc" -> DPDCBody(I)
    [] I.solver = "pdhg" -> PDHGBody(I)
    [] OTHER -> IterBody(I)

Persist(I) ==
  CASE I.solver = "admm" -> ADMMPersist
    [] I.solver = "adu"  -> ADUPersist(I)
    [] I.solver = "dpdc" -> DPDCPersist
    [] I.solver = "pdhg" -> PDHGPersist
    [] OTHER -> DOMAIN heap

ReturnHeap(I, h) ==
  CASE I.solver = "admm" -> Keep(h, ADMMApi)
    [] I.solver = "adu"  -> Keep(h, ADUApi)
    [] I.solver = "dpdc" -> Keep(h, DPDCApi)
    [] I.solver = "pdhg" -> Keep(h, PDHGApi(Passed))
    [] OTHER -> IterReturn(I, h)

\* the algorithm state the implementation heap represents (inside the function)
AbsHeap(I, h) ==
  CASE I.solver = "admm" -> ADMMAbs(I, h)
    [] I.solver = "adu"  -> ADUAbs(I, h)
    [] I.solver = "dpdc" -> DPDCAbs(I, h)
    [] I.solver = "pdhg" -> PDHGAbs(I, h)
    [] OTHER -> IterAbs(I, h)

ExecStmt(I, h, st) == IF st.op = "step" THEN IterStep(I, h) ELSE Exec(I, h, st, AliasZero)

(* ------------------------------ machine -------------------------------- *)
Splits(I) == IF WithSplits /\ I.solver \in ModelResumable THEN {-1} \cup 1..(I.N - 1) ELSE {-1}

Init ==
  /\ inst \in Catalogue
  /\ split \in Splits(inst)
  /\ k = 0 /\ rk = 0
  /\ pc = IF inst.solver \in NonSmooth /\ LatX # {} THEN -2 ELSE 0
  /\ heap = CallerHeap(inst)
  /\ ref = RefInit(inst)
  /\ cb = <<>>
  /\ kkt = {}

InSync == rk = k

\* C12: search the lattices for the KKT pairs of the instance (an action, so that TLC's workers share it)
Search ==
  /\ pc = -2
  /\ kkt' = KKTPoints(inst, LatX, LatY)
  /\ pc' = 0
  /\ UNCHANGED <<inst, split, k, rk, heap, ref, cb>>

Start ==
  /\ pc = 0 /\ InSync /\ k < inst.N
  /\ heap' = StartHeap(inst, heap)
  /\ pc' = 1
  /\ UNCHANGED <<inst, split, k, rk, ref, cb, kkt>>

Stmt ==
  /\ pc >= 1 /\ InSync
  /\ LET st == Body(inst)[pc]
         last == pc = Len(Body(inst))
         h1 == ExecStmt(inst, heap, st)
     IN  /\ cb' = IF st.op = "callback" THEN Append(cb, heap[st.x]) ELSE cb
         /\ heap' = IF last THEN Keep(h1, Persist(inst)) ELSE h1     \* anonymous temporaries die
         /\ k' = IF last THEN k + 1 ELSE k
         /\ pc' = IF ~last THEN pc + 1
                  ELSE IF k + 1 = inst.N \/ k + 1 = split THEN -1 ELSE 1
  /\ UNCHANGED <<inst, split, rk, ref, kkt>>

Return ==
  /\ pc = -1 /\ InSync
  /\ heap' = ReturnHeap(inst, heap)
  /\ pc' = 0
  /\ UNCHANGED <<inst, split, k, rk, ref, cb, kkt>>

\* the reference performs one whole iteration as soon as the implementation finished one
Iterate ==
  /\ rk < k
  /\ ref' = RefStep(inst, ref)
  /\ rk' = rk + 1
  /\ UNCHANGED <<inst, split, k, pc, heap, cb, kkt>>

Next == Search \/ Start \/ Stmt \/ Return \/ Iterate
Spec == Init /\ [][Next]_vars

(* ------------------------------ C11 ------------------------------------ *)
AtHead == InSync /\ pc \in {1, -1}          \* inside the function, between two iterations
Outside == InSync /\ pc = 0

\* lock-step refinement: after each outer iteration the optimised variables equal the reference's
Refinement == AtHead => AbsHeap(inst, heap) = ref
\* what the caller sees between two calls is the reference state the API exposes
ApiState(I, s) ==
  CASE I.solver = "pdhg" /\ Passed -> [x |-> s.x, xr |-> s.xr, y |-> s.y]
    [] I.solver = "dpdc" -> [x |-> s.x, y |-> s.y]
    [] OTHER -> [x |-> s.x]
ReturnedState == Outside => heap = ApiState(inst, ref)
\* the callback fires exactly once per iteration, with the current iterate
CallbackOnce ==
  /\ Len(cb) \in {k, k + 1}
  /\ (InSync /\ pc \in {0, 1, -1}) => (Len(cb) = k /\ (k > 0 => cb[k] = ref.x))
\* no uninitialised buffer content ever reaches the algorithm state
NoGarbage == AtHead => \A nm \in DOMAIN ref : IF nm \in {"d", "v"} THEN \A j \in 1..Len(ref[nm]) : ~HasNaN(ref[nm][j])
                                                  ELSE ~HasNaN(ref[nm])
NoGarbageImpl == (AtHead /\ inst.solver \in StmtLevel) =>
                   LET a == AbsHeap(inst, heap) IN ~HasNaN(a.x)
\* every run completes its N iterations (liveness as a bounded safety statement)
Finishes == (pc = 0 /\ InSync /\ k > 0 /\ split = -1) => k = inst.N

(* ------------------------- size of the numbers ------------------------- *)
\* every vector of a reference state, for the lattice denominator D_k
StateVecs(s) ==
  LET flat(nm) == IF nm \in {"d", "v"} THEN s[nm] ELSE <<s[nm]>>
      RECURSIVE cat(_)
      cat(S) == IF S = {} THEN <<>> ELSE LET nm == CHOOSE nm \in S : TRUE IN flat(nm) \o cat(S \ {nm})
  IN  cat(DOMAIN s)
RECURSIVE DenVecs(_)
DenVecs(vs) == IF vs = <<>> THEN 1 ELSE Lcm2(RDen(Head(vs)), DenVecs(Tail(vs)))
DenState(s) == DenVecs(StateVecs(s))
RECURSIVE NumMaxSeq(_)
NumMaxSeq(u) == IF u = <<>> THEN 0 ELSE Max2(Abs(Head(u)[1]), NumMaxSeq(Tail(u)))
RECURSIVE NumMaxVecs(_)
NumMaxVecs(vs) == IF vs = <<>> THEN 0 ELSE Max2(NumMaxSeq(Head(vs)), NumMaxVecs(Tail(vs)))
\* squares and three-term sums of squares of the state's entries fit TLC's 32-bit integers
SqSafe(s) == NumMaxVecs(StateVecs(s)) <= 16384 /\ DenState(s) <= 16384
\* the Fejer metrics involve the NEXT dual iterate (denominator up to 4 x finer) and weighted sums
FejerSafe(s) == NumMaxVecs(StateVecs(s)) <= 1024 /\ DenState(s) <= 1024

(* ------------------------------ C12 ------------------------------------ *)
Sol(I) == I.sol
Err(I, x) == RSub(x, Sol(I))
EnergyErr(I, x) == RDot(Err(I, x), MatVec(L1of(I), Err(I, x)))
Resid2(I, x) == RNorm2(RSub(Fwd(I, 1, x), I.b[1]))
Dist2(I, x) == RNorm2(Err(I, x))

\* well-formedness certificates of the instances (exact)
SolvesAll(I) == \A j \in 1..Len(I.Ls) : Fwd(I, j, Sol(I)) = I.b[j]
IsSym(M) == \A i \in 1..Len(M) : \A j \in 1..Len(M) : M[i][j] = M[j][i]
Det2(M) == SSub(SMul(M[1][1], M[2][2]), SMul(M[1][2], M[2][1]))
Det3(M) ==
  SAdd(SSub(SMul(M[1][1], SSub(SMul(M[2][2], M[3][3]), SMul(M[2][3], M[3][2]))),
            SMul(M[1][2], SSub(SMul(M[2][1], M[3][3]), SMul(M[2][3], M[3][1])))),
       SMul(M[1][3], SSub(SMul(M[2][1], M[3][2]), SMul(M[2][2], M[3][1]))))
Sub2(M, i, j) == << <<M[i][i], M[i][j]>>, <<M[j][i], M[j][j]>> >>
Det(M) == IF Len(M) = 1 THEN M[1][1] ELSE IF Len(M) = 2 THEN Det2(M) ELSE Det3(M)
\* positive definite (Sylvester) / positive semi-definite (all principal minors) for n <= 3
IsPD(M) ==
  /\ IsSym(M) /\ SPos(M[1][1])
  /\ (Len(M) >= 2 => SPos(Det2(Sub2(M, 1, 2))))
  /\ (Len(M) >= 3 => SPos(Det3(M)))
IsPSD(M) ==
  /\ IsSym(M) /\ \A i \in 1..Len(M) : SLe(QZero, M[i][i])
  /\ \A i \in 1..Len(M) : \A j \in 1..Len(M) : i < j => SLe(QZero, Det2(Sub2(M, i, j)))
  /\ (Len(M) = 3 => SLe(QZero, Det3(M)))
Gram(M) == [i \in 1..NCols(M) |-> [j \in 1..NCols(M) |-> SSum([r \in 1..Len(M) |-> SMul(M[r][i], M[r][j])])]]
ShiftNeg(M, lam) == [i \in 1..Len(M) |-> [j \in 1..Len(M) |-> IF i = j THEN SSub(lam, M[i][j]) ELSE SNeg(M[i][j])]]
\* lam is the largest eigenvalue of A^T A  <=>  lam I - A^T A is PSD and singular
IsLamMax(M, lam) == LET S == ShiftNeg(Gram(M), lam) IN IsPSD(S) /\ SIsZero(Det(S))

WellFormed ==
  CASE inst.solver = "cg" -> IsPD(L1of(inst)) /\ SolvesAll(inst)
    [] inst.solver = "kaczmarz" -> SolvesAll(inst) /\ KaczmarzAdmissible(inst)
    [] inst.solver = "landweber" -> LandweberAdmissible(inst)
    [] inst.solver = "power" -> IsLamMax(L1of(inst), inst.lam)
    [] OTHER -> TRUE

\* monotone quantities, as properties of the reference step ref -> ref'
Stepped == rk' = rk + 1 /\ SqSafe(ref) /\ SqSafe(ref')
CGEnergyDecreases ==
  [][(Stepped /\ inst.solver = "cg") =>
       IF SIsZero(EnergyErr(inst, ref.x)) THEN ref'.x = ref.x
       ELSE SLt(EnergyErr(inst, ref'.x), EnergyErr(inst, ref.x))]_vars
CGExactAfterDim == (inst.solver = "cg" /\ rk >= Dim(inst)) => ref.x = Sol(inst)
ResidualNeverIncreases ==
  [][(Stepped /\ inst.solver \in {"cgn", "landweber"}) =>
       SLe(Resid2(inst, ref'.x), Resid2(inst, ref.x))]_vars
KaczmarzDistNeverIncreases ==
  [][(Stepped /\ inst.solver = "kaczmarz") => SLe(Dist2(inst, ref'.x), Dist2(inst, ref.x))]_vars
ArmijoObjectiveDecreases ==
  [][(Stepped /\ inst.solver = "sdbt") =>
       IF SIsZero(RNorm2(LSQGrad(inst, ref.x))) THEN ref'.x = ref.x
       ELSE SLt(LSQVal(inst, ref'.x), LSQVal(inst, ref.x))]_vars
\* the line search finds a step within the modelled number of halvings and never sits on a tie
\* (a tie could be decided either way by floating point; such instances are not exported)
ArmijoFinds == (inst.solver = "sdbt" /\ ~SIsZero(RNorm2(LSQGrad(inst, ref.x)))) =>
                  SPos(ArmijoAlpha(inst, ref.x)[1])
PowerBound == inst.solver = "power" => SLe(PowerEst4(inst, ref.x), SSq(inst.lam))

\* ---- non-smooth solvers: KKT points are fixed points; Fejer monotonicity
KKTSet(I) == kkt
\* the full solver state that represents the KKT pair <<x, ys>>
StateAt(I, x, ys) ==
  CASE I.solver = "pdhg" -> [x |-> x, y |-> ys[1], xr |-> x]
    [] I.solver = "admm" -> [x |-> x, z |-> MatVec(L1of(I), x), u |-> RScal(S1of(I), ys[1])]
    [] I.solver = "fb"   -> [x |-> x, v |-> ys]
    [] I.solver = "pg"   -> [x |-> x]
    \* DR: the fixed point (xi, v) of the DR operator sits above the KKT pair:
    \*     v_i = y_i + sigma_i/2 L_i xi ,  xi = x - tau/2 sum L_i^T (2 y_i - v_i)
    [] I.solver = "dr"   -> [xi |-> x, v |-> ys, x |-> x]
FixedPointLaw ==
  (k = 0 /\ pc = 0 /\ inst.solver \in (NonSmooth \ {"dr"})) =>
     \A w \in KKTSet(inst) : \E s \in {StateAt(inst, w[1], w[2])} : RefStep(inst, s) = s
\* DR (any number of operators, domain R^2): the KKT tuple <<x, y_1..y_m>> lifts to the state (xi, v) with
\*     v_i = y_i + sigma_i/2 L_i xi ,   xi = x - tau/2 sum L_i^T (2 y_i - v_i)
\* i.e. (I - tau/4 sum sigma_i L_i^T L_i) xi = x - tau/2 sum L_i^T y_i  (Cramer's rule; the matrix is positive
\* definite for admissible steps); that state is a fixed point and reports x
Solve2(M, r) ==
  LET d == Det2(M) IN
  << SDiv(SSub(SMul(r[1], M[2][2]), SMul(M[1][2], r[2])), d),
     SDiv(SSub(SMul(M[1][1], r[2]), SMul(M[2][1], r[1])), d) >>
DRLiftXi(I, x, ys) ==
  LET m == Len(I.Ls)
      c == SMul(I.tau, <<1, 4>>)
      G(a, b) == SSum([i \in 1..m |-> SMul(I.sig[i], Gram(I.Ls[i])[a][b])])      \* sum_i sigma_i L_i^T L_i
      M == [a \in 1..2 |-> [b \in 1..2 |-> SSub(IF a = b THEN QOne ELSE QZero, SMul(c, G(a, b)))]]
  IN  Solve2(M, RSub(x, RScal(SMul(I.tau, Half), AdjSum(I.Ls, ys, 2))))
DRLift(I, x, ys) ==
  LET xi == DRLiftXi(I, x, ys)
  IN  [xi |-> xi, x |-> x,
       v |-> [i \in 1..Len(I.Ls) |-> RAdd(ys[i], RScal(SMul(I.sig[i], Half), MatVec(I.Ls[i], xi)))]]
DRFixedPointLaw ==
  (k = 0 /\ pc = 0 /\ inst.solver = "dr" /\ Dim(inst) = 2) =>
     \A w \in KKTSet(inst) : \E s \in {DRLift(inst, w[1], w[2])} : RefStep(inst, s) = s
\* the as-coded forward-backward variant has the same fixed points
FBCodeFixedPointLaw ==
  (k = 0 /\ pc = 0 /\ inst.solver = "fb") =>
     \A w \in KKTSet(inst) : \E s \in {StateAt(inst, w[1], w[2])} : FBStepCode(inst, s) = s
\* conversely a fixed point of the iteration satisfies the optimality conditions (lattice search)
FixedIsKKT ==
  (k = 0 /\ pc = 0 /\ inst.solver = "pg") =>
     \A x \in VecsOver(LatX, Dim(inst)) :
        PGStep(inst, [x |-> x]).x = x => \E w \in KKTSet(inst) : w[1] = x

\* the state a real call starts from when the caller passes the KKT pair the way the API allows:
\* x always; the dual only to pdhg (y=, x_relax=); every other solver initialises its duals itself
ApiStart(I, x, ys) ==
  CASE I.solver = "pdhg" -> [x |-> x, y |-> ys[1], xr |-> x]
    [] I.solver = "admm" -> [x |-> x, z |-> RZero(NRows(L1of(I))), u |-> RZero(NRows(L1of(I)))]
    [] I.solver = "dr"   -> [xi |-> x, v |-> ZeroDuals(I), x |-> x]
    [] I.solver = "fb"   -> [x |-> x, v |-> ZeroDuals(I)]
    [] I.solver = "pg"   -> [x |-> x]
\* KKT pairs from which the reported iterate stays put when started through the API
\* (quantifier over a singleton: TLC evaluates the bound state once instead of once per use)
RECURSIVE StaysAt(_, _, _, _)
StaysAt(I, s, x, n) ==
  IF n = 0 THEN TRUE ELSE \E s1 \in {RefStep(I, s)} : s1.x = x /\ StaysAt(I, s1, x, n - 1)
ApiFixed(I, w) == \E s0 \in {ApiStart(I, w[1], w[2])} : StaysAt(I, s0, w[1], 3)

Admissible(I) ==
  CASE I.solver = "pdhg" -> PDHGAdmissible(I) /\ I.th = QOne
    [] I.solver = "admm" -> ADMMAdmissible(I)
    [] I.solver = "dr"   -> DRAdmissible(I)
    [] I.solver = "fb"   -> FBAdmissible(I)
    [] I.solver = "pg"   -> PGAdmissible(I)
    [] OTHER -> FALSE
\* Fejer monotonicity of the reference iteration with respect to every lattice KKT pair
FejerQty(I, s, w) ==
  CASE I.solver = "pdhg" -> PDMetric(I, RSub(s.x, w[1]), RSub(PDHGDual(I, s), w[2][1]))
    [] I.solver = "fb"   -> PDMetric(I, RSub(s.x, w[1]), RSub(s.v[1], w[2][1]))
    [] I.solver = "pg"   -> RNorm2(RSub(s.x, w[1]))
Fejer ==
  [][(Stepped /\ FejerSafe(ref) /\ FejerSafe(ref') /\ inst.solver \in {"pdhg", "fb", "pg"} /\ Admissible(inst)
        /\ (inst.solver = "fb" => Len(inst.Ls) = 1 /\ inst.ls = <<>>)) =>
       \A w \in KKTSet(inst) : SLe(FejerQty(inst, ref', w), FejerQty(inst, ref, w))]_vars
=============================================================================

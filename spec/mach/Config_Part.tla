----------------------------- MODULE Config_Part -----------------------------
(***************************************************************************)
(* Layer B (C14), ConfigMachine pattern: a partition is chosen in Init     *)
(* from a finite catalogue, every public query of the partition API is one *)
(* action; the query is stored together with the answer the reference      *)
(* semantics (PartSem) gives.  Invariants = the clauses of C14 on every     *)
(* (partition, query) pair + agreement of the implementation-shaped model  *)
(* (PartitionImpl).  One state = one replayable case on real ODL objects.   *)
(***************************************************************************)
EXTENDS PartitionImpl, TLC

CONSTANTS Mode,      \* "axis" (1-d, complete query sets) | "nd" (2-/3-d) | "uniform" (constructor routes)
          Parts,     \* set of partitions explored in modes "axis" / "nd"
          Others,    \* set of sequences of partitions offered to insert / append
          UCases     \* set of [a, b, n, L, R] uniform axis descriptions (mode "uniform")

VARIABLES ph, part, q
vars == <<ph, part, q>>
NoQ == [kind |-> "none"]

(* ------------------------- probe points (tie rule) ---------------------- *)
Dyadic(x)      == x[2] \in {1, 2, 4, 8, 16, 32, 64, 128, 256}
AxisDyadic(ax) == Dyadic(ax.min) /\ Dyadic(ax.max) /\ \A i \in 1..NN(ax) : Dyadic(ax.nodes[i])
\* a probe point may sit exactly on an interior cell boundary only if the whole axis is dyadic
\* (exactly representable); otherwise it keeps a distance >= 1/64 from every interior boundary
ProbeOK(ax, p) ==
  /\ InAxis(ax, p)
  /\ (AxisDyadic(ax) \/ \A j \in 2..NN(ax) : QLe(<<1, 64>>, QAbs(QSub(p, Bdry(ax)[j]))))
Eighths(ax) == {QAdd(ax.min, Q(k, 8)) : k \in 0..QFloor(QMul(QI(8), Extent(ax)))} \cup {ax.max}
ProbePts(ax) ==
  {p \in Eighths(ax) \cup (IF AxisDyadic(ax)
                             THEN {Bdry(ax)[j] : j \in 1..(NN(ax) + 1)} \cup {ax.nodes[i] : i \in 1..NN(ax)}
                             ELSE {}) : ProbeOK(ax, p)}
MidPt(ax)  == QAdd(ax.min, Q(QFloor(QMul(QI(4), Extent(ax))), 8))
ProbeFew(ax) == {p \in {ax.min, ax.max, MidPt(ax), Bdry(ax)[2]} : ProbeOK(ax, p)}
RECURSIVE TupleSets(_)
\* all tuples <<x1..xk>> with xi \in sets[i]
TupleSets(sets) ==
  IF sets = <<>> THEN {<<>>}
  ELSE {<<x>> \o t : x \in Head(sets), t \in TupleSets(Tail(sets))}

(* ------------------------- index expressions ---------------------------- *)
OptInts(n) == {NONE} \cup (-(n + 1))..(n + 1)
Ints1(n)   == {IInt(i) : i \in (-n)..(n - 1)}
Slices1(n) == {it \in {ISlice(a, b, s) : a \in OptInts(n), b \in OptInts(n), s \in {NONE, 1, 2, 3}} : ItemOK(it, n)}
RECURSIVE SortedSeq(_)
SortedSeq(S) == IF S = {} THEN <<>>
                ELSE LET m == CHOOSE x \in S : \A y \in S : x <= y IN <<m>> \o SortedSeq(S \ {m})
Lists1(n) ==
  LET pos == {SortedSeq(S) : S \in (SUBSET (0..(n - 1))) \ {{}}}
  IN  pos \cup {[l EXCEPT ![Len(l)] = -1] : l \in {l \in pos : l[Len(l)] = n - 1}}
              \cup {[t \in 1..Len(l) |-> l[t] - n] : l \in {l \in pos : Len(l) <= 2}}
ItemsND(nd) ==
  IF nd = 2 THEN {IInt(0), IInt(-1), IFull, ISlice(1, NONE, NONE), ISlice(NONE, NONE, 2),
                  ISlice(NONE, -1, NONE), ISlice(0, NONE, 3)}
  ELSE {IInt(-1), IFull, ISlice(1, NONE, NONE), ISlice(NONE, NONE, 2)}
TuplesND(nd) ==
  LET I == ItemsND(nd)
  IN  {<<IEll>>} \cup {<<x>> : x \in I} \cup {<<x, IEll>> : x \in I} \cup {<<IEll, x>> : x \in I}
      \cup {<<x, y>> : x \in I, y \in I} \cup {<<x, IEll, y>> : x \in I, y \in I}
      \cup (IF nd = 3 THEN {<<x, y, z>> : x \in I, y \in I, z \in I}
                           \cup {<<x, y, IEll>> : x \in I, y \in I} \cup {<<IEll, y, z>> : y \in I, z \in I}
            ELSE {})
IdxSet(p) ==
  LET n1 == NN(p[1])
  IN  IF Mode = "axis"
        THEN {ITuple(<<it>>) : it \in Ints1(n1) \cup Slices1(n1)} \cup {IList(l) : l \in Lists1(n1)}
             \cup {ITuple(<<IEll>>), ITuple(<<IFull, IEll>>), ITuple(<<IEll, IInt(-1)>>)}
        ELSE {ix \in {ITuple(t) : t \in TuplesND(Len(p))} : IdxOK(p, ix)}
             \cup {IList(l) : l \in {<<0>>, <<-1>>} \cup (IF n1 > 1 THEN {<<0, n1 - 1>>, <<0, -1>>} ELSE {})}

(* ------------------------- other query arguments ------------------------ *)
BySeqs(nd) == LET A == (-1)..(nd - 1)
              IN  {<<x>> : x \in A} \cup {<<x, y>> : x \in A, y \in A}
                  \cup {<<x, y, z>> : x \in 0..(nd - 1), y \in 0..(nd - 1), z \in 0..(nd - 1)}
ByItems(nd) == {it \in {IInt(i) : i \in (-nd)..(nd - 1)}
                       \cup {IFull, ISlice(1, NONE, NONE), ISlice(NONE, -1, NONE), ISlice(NONE, NONE, 2), ISlice(0, 1, NONE)}
                  : ItemOK(it, nd)}

(* ------------------------- answers (layer A) ---------------------------- *)
QDerived(p)      == [kind |-> "derived", ans |-> [k \in 1..Len(p) |-> DerivedOf(p[k])]]
QIndex(p, x)     == [kind |-> "index", x |-> x, ans |-> Index(p, x, FALSE), fans |-> Index(p, x, TRUE),
                     fdef |-> [k \in 1..Len(p) |-> ~Degenerate(p[k])]]
QGetItem(p, ix)  == [kind |-> "getitem", idx |-> ix, ans |-> GetItem(p, ix)]
QInsert(p, i, o) == [kind |-> "insert", index |-> i, others |-> o, ans |-> Insert(p, i, o)]
QAppend(p, o)    == [kind |-> "append", others |-> o, ans |-> AppendParts(p, o)]
QSqueeze(p, all, axs) == [kind |-> "squeeze", all |-> all, axes |-> SortedSeq(axs), ans |-> Squeeze(p, axs)]
QByItem(p, it)   == [kind |-> "byaxis_item", item |-> it, ans |-> ByAxisItem(p, it)]
QBySeq(p, s)     == [kind |-> "byaxis_seq", axes |-> s, ans |-> ByAxisSeq(p, s)]
\* construction routes for the very axis ax (1-d)
QFromGrid(ax, mn, mx) == [kind |-> "fromgrid", nodes |-> ax.nodes, min |-> mn, max |-> mx,
                          ans |-> <<FromGridAxis(ax.nodes, mn, mx)>>]
QNonuni(ax, mn, mx, L, R) == [kind |-> "nonuniform", nodes |-> ax.nodes, min |-> mn, max |-> mx, L |-> L, R |-> R,
                              ans |-> <<NonuniformAxis(ax.nodes, mn, mx, L, R)>>]
\* uniform routes: which of (min, max, n, h) are given
Routes == {<<TRUE, TRUE, TRUE, FALSE>>, <<TRUE, FALSE, TRUE, TRUE>>, <<FALSE, TRUE, TRUE, TRUE>>,
           <<TRUE, TRUE, FALSE, TRUE>>, <<TRUE, TRUE, TRUE, TRUE>>}
ArgsOf(c, r) == LET h == SideOf(c.a, c.b, c.n, c.L, c.R)
                IN  [min |-> IF r[1] THEN c.a ELSE NoneQ, max |-> IF r[2] THEN c.b ELSE NoneQ,
                     n |-> IF r[3] THEN c.n ELSE NONE, h |-> IF r[4] THEN h ELSE NoneQ]
Forms(c) == {"nested", "flat"} \cup (IF c.L = c.R THEN {"bool"} ELSE {})
QUniform(c, r, form) ==
  [kind |-> "uniform", c |-> c, args |-> ArgsOf(c, r), form |-> form,
   ans |-> <<UniformPartitionAxis(ArgsOf(c, r), c.L, c.R)>>]

(* ------------------------- the machine ----------------------------------- *)
Init == /\ ph = "cfg" /\ q = NoQ
        /\ IF Mode = "uniform" THEN part = <<>> ELSE part \in Parts

AskDerived == q' = QDerived(part)
AskIndex   == \E x \in TupleSets([k \in 1..Len(part) |->
                                    IF Mode = "axis" THEN ProbePts(part[k]) ELSE ProbeFew(part[k])]) :
                 q' = QIndex(part, x)
AskGetItem == \E ix \in IdxSet(part) : IdxOK(part, ix) /\ q' = QGetItem(part, ix)
AskInsert  == \E o \in Others : \/ \E i \in (-Len(part))..Len(part) : q' = QInsert(part, i, o)
                                \/ q' = QAppend(part, o)
AskSqueeze == \E axs \in SUBSET AllAxes(part) :
                 \/ q' = QSqueeze(part, FALSE, axs)
                 \/ axs = AllAxes(part) /\ q' = QSqueeze(part, TRUE, axs)
AskByAxis  == \/ \E it \in ByItems(Len(part)) : q' = QByItem(part, it)
              \/ \E s \in BySeqs(Len(part)) : q' = QBySeq(part, s)
AskRoutes  == /\ Len(part) = 1
              /\ LET ax == part[1]  n == NN(ax)
                 IN  \/ \E mn \in {ax.min, NoneQ}, mx \in {ax.max, NoneQ} :
                          /\ ((IsNoneQ(mn) \/ IsNoneQ(mx)) => n >= 2)
                          /\ AxisOK(FromGridAxis(ax.nodes, mn, mx))
                          /\ q' = QFromGrid(ax, mn, mx)
                     \/ \E mn \in {ax.min, NoneQ}, mx \in {ax.max, NoneQ}, L \in BOOLEAN, R \in BOOLEAN :
                          /\ ~(L /\ ~IsNoneQ(mn)) /\ ~(R /\ ~IsNoneQ(mx))     \* documented as redundant input
                          /\ AxisOK(NonuniformAxis(ax.nodes, mn, mx, L, R))
                          /\ q' = QNonuni(ax, mn, mx, L, R)
AskUniform == \E c \in UCases, r \in Routes : \E form \in Forms(c) : q' = QUniform(c, r, form)

Next == /\ ph = "cfg" /\ ph' = "query" /\ UNCHANGED part
        /\ IF Mode = "uniform" THEN AskUniform
           ELSE IF Mode = "axis" THEN AskDerived \/ AskIndex \/ AskGetItem \/ AskRoutes \/ AskSqueeze
           ELSE AskDerived \/ AskIndex \/ AskGetItem \/ AskInsert \/ AskSqueeze \/ AskByAxis
Spec == Init /\ [][Next]_vars

(* ------------------------- invariants = the property --------------------- *)
PartLaws == (ph = "cfg" /\ Mode # "uniform") =>
              \A k \in 1..Len(part) : AxisOK(part[k]) /\ AxisLaws(part[k]) /\ RefinesCellSizes(part[k])

SelLaw(ax, it) == IF UnitStepItem(it) THEN LawSelUnit(ax, it) ELSE LawSelStep(ax, it)
GetItemLaws ==
  LET ix == q.idx
  IN  /\ PartOK(q.ans) /\ Len(q.ans) = Len(part)
      /\ IF ix.k = "list"
           THEN /\ Tail(q.ans) = Tail(part)
                /\ LET l == [t \in 1..Len(ix.l) |-> NormInt(ix.l[t], NN(part[1]))]  sub == q.ans[1]
                   IN  /\ sub.nodes = [t \in 1..Len(l) |-> part[1].nodes[l[t] + 1]]
                       /\ sub.min = Bdry(part[1])[l[1] + 1] /\ sub.max = Bdry(part[1])[l[Len(l)] + 2]
                       \* a list of consecutive cells is a unit-step selection
                       /\ ((\A t \in 1..(Len(l) - 1) : l[t + 1] = l[t] + 1)
                             => Bdry(sub) = SubSeq(Bdry(part[1]), l[1] + 1, l[Len(l)] + 2))
           ELSE LET nrm == Normalise(ix.items, Len(part))
                IN  \A k \in 1..Len(part) : /\ SelLaw(part[k], nrm[k])
                                            /\ RefinesSel(part[k], nrm[k])
                                            /\ (nrm[k] = IFull => q.ans[k] = part[k])
InsertLaws ==
  LET o  == Flatten(q.others)
      i0 == IF q.kind = "append" THEN Len(part) ELSE IF q.index < 0 THEN q.index + Len(part) ELSE q.index
  IN  /\ Len(q.ans) = Len(part) + Len(o)
      /\ SubSeq(q.ans, i0 + 1, i0 + Len(o)) = o
      /\ SubSeq(q.ans, 1, i0) \o SubSeq(q.ans, i0 + Len(o) + 1, Len(q.ans)) = part
SqueezeLaws ==
  LET axs  == {q.axes[t] : t \in 1..Len(q.axes)}
      kept == {k \in 1..Len(part) : ~((k - 1) \in axs /\ NN(part[k]) = 1)}
  IN  /\ Len(q.ans) = Cardinality(kept)
      /\ q.ans = KeepAxes(part, kept, 1)
      /\ \A t \in 1..Len(q.ans) : \E k \in kept : q.ans[t] = part[k]
ByAxisLaws ==
  IF q.kind = "byaxis_seq"
    THEN /\ Len(q.ans) = Len(q.axes)
         /\ \A t \in 1..Len(q.axes) : q.ans[t] = part[NormInt(q.axes[t], Len(part)) + 1]
    ELSE /\ q.ans = ImplByAxisItem(part, q.item)
         /\ \A t \in 1..Len(q.ans) : \E k \in 1..Len(part) : q.ans[t] = part[k]
RouteLaws ==
  LET ax == q.ans[1]
  IN  /\ AxisOK(ax) /\ ax.nodes = q.nodes /\ AxisLaws(ax)
      /\ (~IsNoneQ(q.min) => ax.min = q.min) /\ (~IsNoneQ(q.max) => ax.max = q.max)
      \* default limits put the outermost nodes in the centre of their cells
      /\ ((q.kind = "fromgrid" /\ IsNoneQ(q.min)) => BdryFrac(ax)[1] = QOne)
      /\ ((q.kind = "fromgrid" /\ IsNoneQ(q.max)) => BdryFrac(ax)[2] = QOne)
      /\ ((q.kind = "nonuniform" /\ IsNoneQ(q.min)) =>
             IF q.L \/ Len(q.nodes) = 1 THEN NodesOnBdry(ax)[1] ELSE BdryFrac(ax)[1] = QOne)
      /\ ((q.kind = "nonuniform" /\ IsNoneQ(q.max)) =>
             IF q.R \/ Len(q.nodes) = 1 THEN NodesOnBdry(ax)[2] ELSE BdryFrac(ax)[2] = QOne)
UniformLaws ==
  LET c == q.c
  IN  /\ LawUniform(c.a, c.b, c.n, c.L, c.R)
      \* every route describes the same partition
      /\ q.ans[1] = UniformAxis(c.a, c.b, c.n, c.L, c.R)
      /\ AxisLaws(q.ans[1])
      \* layer C: node placement and completion agree with the reference for every route and spelling
      /\ ImplUniformGrid(c.a, c.b, c.n, c.L, c.R) = UniformNodes(c.a, c.b, c.n, c.L, c.R)
      /\ RefinesUniform(q.args, q.form, c.L, c.R)
QueryLaws ==
  ph = "query" =>
    CASE q.kind = "derived"  -> \A k \in 1..Len(part) : q.ans[k].extent = QSumSeq(q.ans[k].sizes)
      [] q.kind = "index"    -> \A k \in 1..Len(part) :
                                   /\ LawIndex(part[k], q.x[k]) /\ RefinesIndex(part[k], q.x[k])
                                   /\ q.ans[k] = QI(Index0(part[k], q.x[k]))
      [] q.kind = "getitem"  -> GetItemLaws
      [] q.kind \in {"insert", "append"} -> InsertLaws
      [] q.kind = "squeeze"  -> SqueezeLaws
      [] q.kind \in {"byaxis_item", "byaxis_seq"} -> ByAxisLaws
      [] q.kind \in {"fromgrid", "nonuniform"} -> RouteLaws
      [] q.kind = "uniform"  -> UniformLaws
      [] OTHER -> FALSE
=============================================================================

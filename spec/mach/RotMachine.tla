------------------------------ MODULE RotMachine ------------------------------
(***************************************************************************)
(* Layer B (EXT/rotphantom): a rigid body moved by the rotation utilities. *)
(* State: the accumulated linear part M (starts as the identity), two body *)
(* points p, q and the history of public calls.  Actions = public API      *)
(* calls of odl.tomo.util.utility:                                         *)
(*   axrot(k, cs, s)  p, q := axis_rotation(k, angle, [p, q], axis_shift=s) *)
(*                    M := axis_rotation_matrix(k, angle) M                 *)
(*   euler(c1,c2,c3)  R := euler_matrix(phi, theta, psi); p, q := R p, R q  *)
(*   fromto(t)        R := rotation_matrix_from_to(p - q, t)                *)
(*   tsys(t)          (_, p, q, None) := transform_system(|d| t, p - q,     *)
(*                    [p, q, None]); M from the same call on the columns    *)
(*   undo             (d, p, q) := transform_system(d, _, [p, q],           *)
(*                    matrix=M^T): the inverse of a rotation is its         *)
(*                    transpose, afterwards M = I                           *)
(* The documented semantics (RotSem) give the successor state; the         *)
(* invariants are the laws: M stays a rotation, the body stays rigid,      *)
(* p - q = M (p0 - q0), an axis is fixed by its rotation, transpose =      *)
(* inverse = rotation by the negative angle, rotations about one axis      *)
(* compose by adding angles, the Euler matrix is the ZXZ product of axis   *)
(* rotations, only the perpendicular part of a shift matters.              *)
(***************************************************************************)
EXTENDS RotSem

CONSTANTS Axes,        \* rational unit vectors
          Angles,      \* rational points of the unit circle
          Shifts,      \* axis_shift vectors (NONE = argument omitted)
          Targets,     \* rational unit vectors to rotate the body direction to
          EulerSet,    \* triples of angles
          P0, Q0,      \* the body
          MaxLen, Budget

VARIABLES M, p, q, hist
rvars == <<M, p, q, hist>>

D0 == GSub(P0, Q0)
RECURSIVE MaxDenSeq(_)
MaxDenSeq(v) == IF v = <<>> THEN 1 ELSE Max2(Head(v)[2], MaxDenSeq(Tail(v)))
MaxDenM(A) == Max2(MaxDenSeq(A[1]), Max2(MaxDenSeq(A[2]), MaxDenSeq(A[3])))
Fits(R) == MaxDenM(R) * MaxDenM(M) <= Budget /\ MaxDenM(R) * Max2(MaxDenSeq(p), MaxDenSeq(q)) <= Budget

Act(a, k, cs, s, e, t) == [a |-> a, k |-> k, cs |-> cs, s |-> s, e |-> e, t |-> t]
NoV == <<>>

Init == M = MIdent(3) /\ p = P0 /\ q = Q0 /\ hist = <<>>

\* the documented effect of one call on the body  s = [M, p, q]
ActMatrix(s, act) ==
  CASE act.a = "axrot" -> AxisRotMat(act.k, act.cs)
    [] act.a = "euler" -> EulerDoc(act.e[1], act.e[2], act.e[3])
    [] act.a \in {"fromto", "tsys"} -> RotFromTo(GUnit(GSub(s.p, s.q)), act.t)
    [] act.a = "undo" -> MTranspose(s.M)
ApplyAct(s, act) ==
  LET R == ActMatrix(s, act) IN
  IF act.a = "axrot"
    THEN [M |-> MatMul(R, s.M), p |-> AxisRot(act.k, act.cs, s.p, act.s), q |-> AxisRot(act.k, act.cs, s.q, act.s)]
    ELSE [M |-> MatMul(R, s.M), p |-> MatVec(R, s.p), q |-> MatVec(R, s.q)]
\* the documented rotation from the body direction to t is determined unless the two are anti-parallel
Posed(s, act) ==
  act.a \in {"fromto", "tsys"} =>
    LET d == GSub(s.p, s.q) IN GHasRatNorm(d) /\ FromToCell(d, act.t) \in {"3d", "3d-parallel"}
RECURSIVE RunHist(_, _, _)
RunHist(s, h, i) == IF i > Len(h) THEN s
                    ELSE IF ~Posed(s, h[i]) THEN [M |-> <<>>, p |-> <<>>, q |-> <<>>]
                    ELSE RunHist(ApplyAct(s, h[i]), h, i + 1)
Cur == [M |-> M, p |-> p, q |-> q]

Do(act) ==
  /\ Posed(Cur, act)
  /\ (act.a \in {"fromto", "tsys"} => MaxDenM(M) <= 50 /\ MaxDenSeq(GSub(p, q)) <= 50)
  /\ (act.a # "undo" => Fits(ActMatrix(Cur, act)))
  /\ (act.a = "undo" => hist # <<>> /\ hist[Len(hist)].a # "undo")
  /\ LET n == ApplyAct(Cur, act) IN M' = n.M /\ p' = n.p /\ q' = n.q
  /\ hist' = Append(hist, act)
AxRot(k, cs, s) == Do(Act("axrot", k, cs, s, NoV, NoV))
EulerAct(e) == Do(Act("euler", NoV, NoV, NONE, e, NoV))
FromToAct(kind, t) == Do(Act(kind, NoV, NoV, NONE, NoV, t))
Undo == Do(Act("undo", NoV, NoV, NONE, NoV, NoV))

Next ==
  /\ Len(hist) < MaxLen
  /\ \/ \E k \in Axes, cs \in Angles, s \in Shifts : AxRot(k, cs, s)
     \/ \E e \in EulerSet : EulerAct(e)
     \/ \E t \in Targets : FromToAct("fromto", t) \/ FromToAct("tsys", t)
     \/ Undo
Spec == Init /\ [][Next]_rvars

(* ------------------------------- laws ---------------------------------- *)
StaysRotation == IsRotation(M)
Rigid == GNorm2(GSub(p, q)) = GNorm2(D0)
LinearPart == GSub(p, q) = MatVec(M, D0)
Last == hist[Len(hist)]
\* after fromto / tsys the body direction is the target; after undo it is the initial one
Directed == hist # <<>> =>
  /\ Last.a \in {"fromto", "tsys"} => GSub(p, q) = GScale(QSqrt(GNorm2(D0)), Last.t)
  /\ Last.a = "undo" => GSub(p, q) = D0
\* laws of a single axis rotation, evaluated on the parameters of the last action
AxisLaws == (hist # <<>> /\ Last.a = "axrot") =>
  LET k == Last.k  cs == Last.cs  R == AxisRotMat(k, cs) IN
  /\ MatVec(R, k) = k                                           \* the axis is fixed by its rotation
  /\ MTranspose(R) = AxisRotMat(k, CsNeg(cs))                   \* transpose = rotation by the negative angle
  /\ MatMul(R, MTranspose(R)) = MIdent(3)                       \* ... = inverse
  /\ AxisRotMat(GNeg(k), CsNeg(cs)) = R                         \* (-k, -a) is the same rotation
  /\ Last.s # NONE => ShiftLaw(k, cs, P0, Last.s)               \* only the perpendicular part of a shift matters
  /\ Last.s # NONE => AxisRot(k, cs, Last.s, Last.s) = Last.s   \* the rotation centre is fixed
\* two consecutive rotations about one axis add their angles (and commute)
ComposeLaw == (Len(hist) >= 2 /\ Last.a = "axrot" /\ hist[Len(hist) - 1].a = "axrot" /\ hist[Len(hist) - 1].k = Last.k) =>
  LET c1 == hist[Len(hist) - 1].cs  c2 == Last.cs  k == Last.k IN
  /\ MatMul(AxisRotMat(k, c2), AxisRotMat(k, c1)) = AxisRotMat(k, CsMul(c1, c2))
  /\ MatMul(AxisRotMat(k, c1), AxisRotMat(k, c2)) = MatMul(AxisRotMat(k, c2), AxisRotMat(k, c1))
\* the documented ZXZ convention: euler_matrix(phi, theta, psi) = Rz(phi) Rx(theta) Rz(psi) with the axis rotations of
\* axis_rotation_matrix, and its columns are orthonormal and right-handed
EulerLaw == (hist # <<>> /\ Last.a = "euler") =>
  LET e == Last.e IN
  /\ EulerDoc(e[1], e[2], e[3]) = MatMul(AxisRotMat(E3(3), e[1]), MatMul(AxisRotMat(E3(1), e[2]), AxisRotMat(E3(3), e[3])))
  /\ IsRotation(EulerDoc(e[1], e[2], e[3]))
  /\ MTranspose(EulerDoc(e[1], e[2], e[3])) = EulerDoc(CsNeg(e[3]), CsNeg(e[2]), CsNeg(e[1]))
\* a deliberately false law (the run must refute it: the laws above are not vacuous)
BogusCommute ==
  (Len(hist) >= 2 /\ hist[1].a = "axrot" /\ hist[2].a = "axrot") =>
     MatMul(AxisRotMat(hist[1].k, hist[1].cs), AxisRotMat(hist[2].k, hist[2].cs))
       = MatMul(AxisRotMat(hist[2].k, hist[2].cs), AxisRotMat(hist[1].k, hist[1].cs))
=============================================================================

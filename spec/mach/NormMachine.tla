----------------------------- MODULE NormMachine -----------------------------
(***************************************************************************)
(* Layer B (extension EXT/normalize).                                      *)
(*                                                                         *)
(* 1. Case machine: one state per call  [fn, a]  of a pure normaliser /    *)
(*    utility (the bounded argument space is a constant of the instance).  *)
(*    Invariants = the laws of the reference semantics:                    *)
(*      totality, idempotence (normalising a normalised value is the       *)
(*      identity), agreement with NumPy's own axis / index normalisation,  *)
(*      consistency between functions, and C [= A (NormImpl refines        *)
(*      NormSem with all repair switches on).                              *)
(*                                                                         *)
(* 2. History machines for the objects WITH state:                         *)
(*      "wa"    writable_array(obj, kwargs): enter / mutate the array /      *)
(*              mutate the object / leave (normally or by an exception),   *)
(*              nested use on one object; aliasing (asarray returns the    *)
(*              object itself) and snapshot targets                        *)
(*      "rng"   npy_random_seed(seed): enter / draw / user re-seed / leave *)
(*      "po"    npy_printoptions(options): enter   / user set / leave         *)
(*      "cache" cache_arguments(f) (documented: functools.lru_cache):      *)
(*              calls with equal-but-differently-typed and keyword         *)
(*              arguments, eviction beyond maxsize, cache_clear            *)
(*    The state is kept incrementally and the invariant HistoryFree says   *)
(*    that it equals the fold of the documented step function over the     *)
(*    history from the initial state (no hidden state).                    *)
(***************************************************************************)
EXTENDS NormImpl

CONSTANTS Cases,        \* set of [fn, a] records (case machine)
          Machines,     \* subset of {"wa-alias", "wa-snap", "rng", "po", "cache"}
          MaxLenOf(_)   \* history length per machine
VARIABLES case, m, hist, st
nvars == <<case, m, hist, st>>

(* ============================ case machine ============================== *)
NoCase == [fn |-> "none", a |-> 0]
InitCases == case \in Cases /\ m = "cases" /\ hist = <<>> /\ st = 0

WellFormed(al) == al = ANY \/ (al # {} /\ \A o \in al : o.k \in {"ok", "err"})
Total == case.fn = "none" \/ WellFormed(Allowed(case.fn, case.a))
RefinesAllFixed == case.fn = "none" \/ Refines(case.fn, case.a, AllSwitches)
Oks(al) == IF al = ANY THEN {} ELSE {o.v : o \in {x \in al : x.k = "ok"}}
ToList(x) == IF x.k = "tuple" THEN VL(x.v) ELSE x

\* NumPy's normalize_axis_index: a % ndim for -ndim <= a < ndim
AxesLaw ==
  case.fn = "axes" =>
    LET al == Allowed("axes", case.a) IN
    \A t \in Oks(al) :
       LET src == IF case.a.axes.k = "int" THEN <<case.a.axes.v>> ELSE [i \in 1..Len(case.a.axes.v) |-> case.a.axes.v[i].v]
           nd  == case.a.ndim.v
       IN  /\ t.k = "tuple" /\ Len(t.v) = Len(src)
           /\ \A i \in 1..Len(src) : t.v[i].v \in 0..(nd - 1) /\ t.v[i].v = src[i] % nd       \* agrees with NumPy
           /\ (Cardinality(al) = 1 => AxesAllowed(VL(t.v), case.a.ndim) = al)                  \* idempotent
IndexLaw ==
  case.fn = "index" =>
    LET al == Allowed("index", case.a)  shape == case.a.shape  items == IdxItems(case.a.ind) IN
    \A r \in Oks(al) :
       /\ r.k = "tuple" /\ Len(r.v) = Len(shape)
       /\ \A ax \in 1..Len(shape) : IdxEntryOK(r.v[ax]) /\ (case.a.i2s = 1 => r.v[ax].k = "slice")
       \* selects the same entries as NumPy does with the caller's expression
       /\ FlatSel(r.v, shape) = FlatSel(IdxExpand(items, Len(shape)), shape)
       \* normalising the normalised expression is the identity
       /\ Ok(r) \in IndexAllowed(VL(r.v), shape, case.a.i2s)
NobLaw ==
  case.fn = "nob" =>
    LET al == Allowed("nob", case.a) IN
    \A l \in Oks(al) :
       /\ l.k = "list" /\ Len(l.v) = case.a.length.v
       /\ \A i \in 1..Len(l.v) : l.v[i].k = "tuple" /\ Len(l.v[i].v) = 2 /\ \A j \in 1..2 : l.v[i].v[j].k = "bool"
       /\ Ok(l) \in NobAllowed(VL([i \in 1..Len(l.v) |-> ToList(l.v[i])]), case.a.length)
SplLaw ==
  (case.fn = "spl" /\ case.a.conv = "none" /\ case.a.ret = 0) =>
    LET al == Allowed("spl", case.a) IN
    \A l \in Oks(al) :
       /\ l.k = "list" /\ Len(l.v) = case.a.length.v
       /\ LET again == SplAllowed(l, case.a.length, "none", case.a.keep, 0) IN again = ANY \/ Ok(l) \in again
\* consistency between the dtype functions
DtypeLaw ==
  case.fn = "dtype" =>
    LET b == case.a.base  shp == case.a.shape  d == VNone
        One(f, bb) == CHOOSE o \in DtypeAllowed(f, bb, shp, d) : TRUE
        T(f, bb) == One(f, bb) = Ok(VB(1))
    IN  /\ (b \in FloatBases \ {"float16"} =>
              /\ One("complex_dtype", b).v.v[2] = shp
              /\ One("real_dtype", One("complex_dtype", b).v.v[1]) = Ok(VDt(b, shp)))
        /\ (b \in ComplexBases => One("complex_dtype", One("real_dtype", b).v.v[1]) = Ok(VDt(b, shp)))
        /\ (b \in FloatBases \cup ComplexBases =>
              One("real_dtype", One("real_dtype", b).v.v[1]) = One("real_dtype", b))             \* idempotent
        /\ (T("is_floating_dtype", b) <=> (T("is_real_floating_dtype", b) \/ T("is_complex_floating_dtype", b)))
        /\ (b \notin VagueBases =>
              /\ (T("is_numeric_dtype", b) <=> (T("is_real_dtype", b) \/ T("is_complex_floating_dtype", b)))
              /\ ~(T("is_real_dtype", b) /\ T("is_complex_floating_dtype", b))
              /\ (T("is_int_dtype", b) => T("is_real_dtype", b) /\ ~T("is_floating_dtype", b)))
UniqueLaw ==
  case.fn = "unique" =>
    \A u \in Oks(Allowed("unique", case.a)) :
       LET its == SeqItems(case.a.seq) IN
       /\ \A i, j \in 1..Len(u.v) : i < j => ~PyEq(u.v[i], u.v[j])
       /\ \A i \in 1..Len(its) : \E j \in 1..Len(u.v) : PyEq(its[i], u.v[j])
       /\ UniqueRef(u.v, <<>>) = u.v
TextLaw ==
  /\ (case.fn = "indent" /\ PlainText(case.a.lines, case.a.ind)) =>
        /\ PlainText(IndentRef(case.a.lines, case.a.ind), case.a.ind)
        /\ DedentRef(IndentRef(case.a.lines, case.a.ind), case.a.ind, 1) = case.a.lines    \* dedent reverts indent
  /\ (case.fn = "dedent" /\ PlainText(case.a.lines, case.a.ind) /\ case.a.maxlv = NONE) =>
        MinOf([i \in 1..Len(case.a.lines) |-> Levels(DedentRef(case.a.lines, case.a.ind, NONE)[i], case.a.ind)]) = 0
  /\ (case.fn = "arrstr1") => \A r \in ArrayStr1Set(case.a.row, case.a.nprint) :
        /\ Cardinality({i \in 1..Len(r) : r[i] # DOTS}) <= Max2(case.a.nprint, 0)
        /\ (Len(case.a.row) <= case.a.nprint => r = case.a.row)
\* with the function "+1" on every side the result counts how often a point was processed
AobLaw ==
  (case.fn = "aob" /\ Allowed("aob", case.a) # ANY /\ Oks(Allowed("aob", case.a)) # {}
     /\ (\A ax \in 1..Len(case.a.funcs) : case.a.funcs[ax] = <<"p1", "p1">>)) =>
    LET a == case.a
        res == AobRef(a.shape, a.vals, a.funcs, a.which, a.order, a.once)
        NSl(p) == Cardinality({<<ax, s>> \in (1..Len(a.shape)) \X {1, 2} :
                                  a.which[ax][s] = 1 /\ Coord(p, a.shape, ax) = (IF s = 1 THEN 0 ELSE a.shape[ax] - 1)})
    IN  \A p \in 0..(Len(a.vals) - 1) :
           res[p + 1] - a.vals[p + 1] = IF a.once = 1 THEN Min2(NSl(p), 1) ELSE NSl(p)
CaseLaws == Total /\ AxesLaw /\ IndexLaw /\ NobLaw /\ SplLaw /\ DtypeLaw /\ UniqueLaw /\ TextLaw /\ AobLaw

(* ========================== history machines ============================ *)
(* actions are records [a |-> name, ...]; Step(m, s, act) is the documented effect                                    *)
MapTok(f, vec) == [i \in 1..Len(vec) |-> IF f = "set7" THEN (IF i = 1 THEN 7 ELSE vec[i]) ELSE ApplyTok(f, vec[i])]
\* ---- writable_array: s = [obj, ctxs (stack of [arr]), exc (number of exceptions that reached the caller)]
\* mode "alias": numpy.asarray returns the object itself (same dtype, no copy needed), changes are immediate;
\* mode "snap": asarray makes a new array (list input, dtype / order keyword), "changes are only saved upon exiting"
WaInit == [obj |-> <<1, 2>>, ctxs |-> <<>>, exc |-> 0]
WaStep(mode, s, act) ==
  CASE act.a = "enter"  -> [s EXCEPT !.ctxs = Append(s.ctxs, s.obj)]
    [] act.a = "mutarr" -> IF mode = "wa-alias" THEN [s EXCEPT !.obj = MapTok(act.f, s.obj)]
                           ELSE [s EXCEPT !.ctxs[act.i] = MapTok(act.f, s.ctxs[act.i])]
    [] act.a = "mutobj" -> [s EXCEPT !.obj = MapTok(act.f, s.obj)]
    [] act.a \in {"exit", "raise"} ->
         [obj |-> IF mode = "wa-alias" THEN s.obj ELSE s.ctxs[Len(s.ctxs)],       \* written back on ANY exit
          ctxs |-> SubSeq(s.ctxs, 1, Len(s.ctxs) - 1),
          exc |-> s.exc + (IF act.a = "raise" THEN 1 ELSE 0)]                      \* the exception is not swallowed
\* what the open arrays show: in alias mode they ARE the object
WaArrs(mode, s) == IF mode = "wa-alias" THEN [i \in 1..Len(s.ctxs) |-> s.obj] ELSE s.ctxs
WaActs(s) ==
  (IF Len(s.ctxs) < 2 THEN {[a |-> "enter", i |-> 0, f |-> ""]} ELSE {})
  \cup {[a |-> "mutarr", i |-> i, f |-> f] : i \in 1..Len(s.ctxs), f \in {"x2", "p1"}}
  \cup (IF Len(s.ctxs) > 0 THEN {[a |-> "mutobj", i |-> 0, f |-> "set7"]} ELSE {})      \* a direct write while a context is open
  \cup (IF Len(s.ctxs) > 0 THEN {[a |-> "exit", i |-> 0, f |-> ""], [a |-> "raise", i |-> 0, f |-> ""]} ELSE {})

\* ---- scoped globals: s = [g (the global), stack (of [set, saved]), obs (what the user saw)]
\* rng: g = <<source, position>> of the global generator; source 100 = the state the user had before
RngInit == [g |-> <<100, 0>>, stack |-> <<>>, obs |-> <<>>]
RngStep(s, act) ==
  CASE act.a = "enter" -> [s EXCEPT !.stack = Append(s.stack, [set |-> act.x, saved |-> s.g]),
                                    !.g = IF act.x = NONE THEN s.g ELSE <<act.x, 0>>]     \* None: keep the current seed
    [] act.a = "draw"  -> [s EXCEPT !.obs = Append(s.obs, s.g), !.g = <<s.g[1], s.g[2] + 1>>]
    [] act.a = "user"  -> [s EXCEPT !.g = <<act.x, 0>>]                                  \* np.random.seed(x) by the user
    [] act.a \in {"exit", "raise"} ->
         LET top == s.stack[Len(s.stack)] IN
         [s EXCEPT !.stack = SubSeq(s.stack, 1, Len(s.stack) - 1),
                   !.g = IF top.set = NONE THEN s.g ELSE top.saved]                       \* restored, also on exception
RngActs(s) ==
  (IF Len(s.stack) < 2 THEN {[a |-> "enter", x |-> x] : x \in {NONE, 0, 7}} ELSE {})
  \cup {[a |-> "draw", x |-> 0], [a |-> "user", x |-> 5]}
  \cup (IF Len(s.stack) > 0 THEN {[a |-> "exit", x |-> 0], [a |-> "raise", x |-> 0]} ELSE {})
\* print options: g = <<precision, threshold>>; an option set is <<precision or NONE, threshold or NONE>>
PoInit == [g |-> <<8, 1000>>, stack |-> <<>>, obs |-> <<>>]
PoSet(g, x) == <<IF x[1] = NONE THEN g[1] ELSE x[1], IF x[2] = NONE THEN g[2] ELSE x[2]>>
PoStep(s, act) ==
  CASE act.a = "enter" -> [s EXCEPT !.stack = Append(s.stack, [set |-> act.x, saved |-> s.g]), !.g = PoSet(s.g, act.x)]
    [] act.a = "user"  -> [s EXCEPT !.g = PoSet(s.g, act.x)]
    [] act.a \in {"exit", "raise"} ->
         [s EXCEPT !.stack = SubSeq(s.stack, 1, Len(s.stack) - 1), !.g = s.stack[Len(s.stack)].saved]
PoActs(s) ==
  (IF Len(s.stack) < 2 THEN {[a |-> "enter", x |-> x] : x \in {<<NONE, NONE>>, <<3, NONE>>, <<5, 7>>}} ELSE {})
  \cup {[a |-> "user", x |-> <<6, NONE>>]}
  \cup (IF Len(s.stack) > 0 THEN {[a |-> "exit", x |-> <<>>], [a |-> "raise", x |-> <<>>]} ELSE {})

\* ---- cache_arguments = functools.lru_cache(): maxsize entries, least recently used evicted, typed = False
\* (f(1) and f(1.0) are one entry), keyword calls are separate entries, unhashable arguments raise TypeError.
\* s = [lru (sequence of [key, val], most recent last), hits, misses, last (result of the last call)]
CacheCap == 2
KeyOf(act) == <<act.kw, IF IsNum(act.x) THEN NumOf(act.x) ELSE <<0, 0>>>>
CacheInit == [lru |-> <<>>, hits |-> 0, misses |-> 0, last |-> VNone]
CacheStep(s, act) ==
  CASE act.a = "clear" -> [CacheInit EXCEPT !.last = VNone]
    [] act.a = "call" ->
         IF act.x.k = "list" THEN [s EXCEPT !.last = Err("TypeError")]                    \* unhashable
         ELSE LET k == KeyOf(act)
                  pos == {i \in 1..Len(s.lru) : s.lru[i].key = k}
              IN  IF pos # {}
                    THEN LET i == CHOOSE j \in pos : TRUE
                         IN  [s EXCEPT !.lru = SubSeq(s.lru, 1, i - 1) \o SubSeq(s.lru, i + 1, Len(s.lru)) \o <<s.lru[i]>>,
                                       !.hits = s.hits + 1, !.last = Ok(s.lru[i].val)]
                    ELSE LET ins == Append(s.lru, [key |-> k, val |-> act.x])             \* the wrapped function echoes
                         IN  [s EXCEPT !.lru = IF Len(ins) > CacheCap THEN Tail(ins) ELSE ins,
                                       !.misses = s.misses + 1, !.last = Ok(act.x)]
CacheActs(s) ==
  \* (whether f(1) and f(1.0) share an entry is left open by the functools documentation: not asked)
  {[a |-> "call", x |-> x, kw |-> 0] : x \in {VI(1), VI(2), VI(3), VL(<<VI(1)>>)}}
  \cup {[a |-> "call", x |-> VI(1), kw |-> 1], [a |-> "clear", x |-> VNone, kw |-> 0]}

MInit(mm) == CASE mm \in {"wa-alias", "wa-snap"} -> WaInit [] mm = "rng" -> RngInit [] mm = "po" -> PoInit
               [] mm = "cache" -> CacheInit
MStep(mm, s, act) == CASE mm \in {"wa-alias", "wa-snap"} -> WaStep(mm, s, act) [] mm = "rng" -> RngStep(s, act)
                       [] mm = "po" -> PoStep(s, act) [] mm = "cache" -> CacheStep(s, act)
MActs(mm, s) == CASE mm \in {"wa-alias", "wa-snap"} -> WaActs(s) [] mm = "rng" -> RngActs(s) [] mm = "po" -> PoActs(s)
                  [] mm = "cache" -> CacheActs(s)

InitHist == case = NoCase /\ m \in Machines /\ hist = <<>> /\ st = MInit(m)
NextHist == /\ Len(hist) < MaxLenOf(m)
            /\ \E act \in MActs(m, st) : hist' = Append(hist, act) /\ st' = MStep(m, st, act)
            /\ UNCHANGED <<case, m>>
Init == InitCases \/ InitHist
Next == m # "cases" /\ NextHist
Spec == Init /\ [][Next]_nvars

(* ---- laws of the history machines ---- *)
RECURSIVE Run(_, _)
Run(mm, h) == IF h = <<>> THEN MInit(mm) ELSE MStep(mm, Run(mm, SubSeq(h, 1, Len(h) - 1)), h[Len(h)])
HistoryFree == m = "cases" \/ st = Run(m, hist)
\* writable_array: without direct writes to the object and without nesting, aliasing and snapshot targets agree
\* whenever no context is open, and the object then holds the composition of all changes made to the arrays
RECURSIVE FoldMut(_, _)
FoldMut(h, v) == IF h = <<>> THEN v ELSE FoldMut(Tail(h), IF Head(h).a = "mutarr" THEN MapTok(Head(h).f, v) ELSE v)
Depth(h) == Cardinality({i \in 1..Len(h) : h[i].a = "enter"}) - Cardinality({i \in 1..Len(h) : h[i].a \in {"exit", "raise"}})
NeverNested(h) == \A i \in 1..Len(h) : Depth(SubSeq(h, 1, i)) <= 1
WaLaw ==
  (m \in {"wa-alias", "wa-snap"} /\ st.ctxs = <<>> /\ NeverNested(hist) /\ \A i \in 1..Len(hist) : hist[i].a # "mutobj")
    => /\ st.obj = FoldMut(hist, WaInit.obj)
       /\ Run("wa-alias", hist).obj = Run("wa-snap", hist).obj
\* random seed: outside every seeding context the user's own stream continues as if the contexts had not been there
RngOuterDraws(h) ==
  \* positions in h of draws made while no seeding (non-None) context is open
  {i \in 1..Len(h) : h[i].a = "draw" /\
     LET s == Run("rng", SubSeq(h, 1, i - 1)) IN \A j \in 1..Len(s.stack) : s.stack[j].set = NONE}
RngLaw ==
  (m = "rng" /\ \A i \in 1..Len(hist) : hist[i].a # "user") =>
    /\ \A i \in RngOuterDraws(hist) :
          Run("rng", SubSeq(hist, 1, i - 1)).g = <<100, Cardinality({j \in RngOuterDraws(hist) : j < i})>>
    \* the first draw after entering with a seed is the first number of that seed's stream (repeatable)
    /\ \A i \in 2..Len(hist) : (hist[i].a = "draw" /\ hist[i - 1].a = "enter" /\ hist[i - 1].x # NONE)
          => Run("rng", SubSeq(hist, 1, i - 1)).g = <<hist[i - 1].x, 0>>
PoLaw == (m = "po" /\ st.stack = <<>> /\ \A i \in 1..Len(hist) :
            (hist[i].a = "user" => Len(Run("po", SubSeq(hist, 1, i - 1)).stack) > 0)) => st.g = PoInit.g
\* the cache is transparent up to Python equality, and size / counters are those of an LRU cache
CacheLaw ==
  m = "cache" =>
    /\ Len(st.lru) <= CacheCap
    /\ (Len(hist) > 0 /\ hist[Len(hist)].a = "call" /\ st.last.k = "ok") => PyEq(st.last.v, hist[Len(hist)].x)
    /\ \A i, j \in 1..Len(st.lru) : i # j => st.lru[i].key # st.lru[j].key
HistLaws == HistoryFree /\ WaLaw /\ RngLaw /\ PoLaw /\ CacheLaw
\* non-vacuity: this "law" is false (an exception does NOT skip the write-back) and TLC must refute it
BogusNoWriteBackOnRaise ==
  ~(m = "wa-snap" /\ Len(hist) > 0 /\ hist[Len(hist)].a = "raise" /\ st.obj # Run(m, SubSeq(hist, 1, Len(hist) - 1)).obj)
BogusNegativeIndexKept == ~(case.fn = "index" /\ Err("*") \in Allowed("index", case.a) /\ Cardinality(Allowed("index", case.a)) = 1)
=============================================================================

--------------------------- MODULE SmoothMachine ---------------------------
(***************************************************************************)
(* Layer B (extension stage "smooth"): calls of ODL's smooth solvers and   *)
(* of its step-length objects as a state machine over the reference        *)
(* semantics SmoothSem.                                                    *)
(*                                                                         *)
(* Solver instances (inst.solver # "ls").  One `Iterate` action = one      *)
(* iteration of the documented method = one call of the line-search rule,  *)
(* one in-place update of the caller's x and one callback with the new     *)
(* iterate.  `split` = n > 0 places a Return ; call-again boundary after n *)
(* iterations (`Restart`): the second call gets the caller's x and the     *)
(* caller's line-search OBJECT (its memory persists), everything the       *)
(* solver keeps internally (BFGS / Broyden estimate, CG direction, ADAM    *)
(* moments) starts afresh - the docstrings promise nothing else.  `ref`    *)
(* is the same run without the boundary, `cg` the linear CG iteration.     *)
(*                                                                         *)
(* Line-search instances (inst.solver = "ls"): histories of calls          *)
(* `LSCall(q)` on ONE object (BacktrackingLineSearch with its remembered   *)
(* step length and counters, LineSearchFromIterNum with its call counter,  *)
(* ConstantLineSearch), q ranging over the queries (x, d) of the instance. *)
(*                                                                         *)
(* The invariants are the laws the cited texts prove for these methods;    *)
(* they hold on every instance of the catalogue (2-d and 3-d, several SPD  *)
(* matrices incl. ill-conditioned ones, several starts, weighted spaces).  *)
(***************************************************************************)
EXTENDS SmoothSem

CONSTANTS Catalogue,      \* set of instances
          WithSplits      \* TRUE: explore every Return ; call-again boundary as well

VARIABLES inst, split, seg, st, ref, cg, k, log
vars == <<inst, split, seg, st, ref, cg, k, log>>

IsLS(I) == I.solver = "ls"
\* solvers whose whole state is the iterate (and the caller's rule object): n then m iterations = n + m iterations
Resumable == {"newton", "sd"}
\* the instances for which the linear CG iteration is the reference of a law
NeedsCG(I) ==
  /\ ~IsLS(I) /\ I.P.kind = "quad" /\ I.ls.k = "exact"
  /\ (I.solver = "ncg" \/ (I.solver = "bfgs" /\ I.h0 = <<>> /\ I.store # 0))
Splits(I) == IF WithSplits /\ ~IsLS(I) /\ I.N >= 2 THEN {-1} \cup 1..(I.N - 1) ELSE {-1}

Init ==
  /\ inst \in Catalogue
  /\ split \in Splits(inst)
  /\ seg = 0
  /\ st = IF IsLS(inst) THEN [lo |-> LOInit(inst.ls), hist |-> <<>>]
          ELSE StartState(inst, inst.x0, LOInit(inst.ls))
  /\ ref = IF IsLS(inst) THEN <<>> ELSE StartState(inst, inst.x0, LOInit(inst.ls))
  /\ cg = IF NeedsCG(inst) THEN LCGInit(inst.P, inst.x0) ELSE <<>>
  /\ k = 0
  /\ log = <<>>

Live(I, s) == s.ok /\ ~Converged(I, s)
Running == ~IsLS(inst) /\ k < inst.N /\ Live(inst, st)
AtBoundary == split > 0 /\ k = split /\ seg = 0

\* (bound variables of a quantifier are evaluated once; LET definitions are re-evaluated at every use)
Iterate ==
  /\ Running /\ ~AtBoundary
  /\ \E s1 \in {StepA(inst, st)} :
       /\ st' = s1
       /\ log' = Append(log, [x |-> st.x, d |-> s1.d, dd |-> s1.dd, a |-> s1.a, xn |-> s1.x, seg |-> seg])
  /\ ref' = IF Live(inst, ref) THEN StepA(inst, ref) ELSE ref
  /\ cg' = IF cg = <<>> THEN cg ELSE LCGStep(inst.P, cg)
  /\ k' = k + 1
  /\ UNCHANGED <<inst, split, seg>>

Restart ==
  /\ Running /\ AtBoundary
  /\ st' = StartState(inst, st.x, st.lo)
  /\ seg' = 1
  /\ UNCHANGED <<inst, split, ref, cg, k, log>>

\* one call of the step-length object of a line-search instance
LSResult(I, lo, q) ==
  LET P == I.P
      dd == DirDeriv(P, q.x, q.d)
  IN  IF I.ls.k = "bt"
        THEN LET r == BTCall(P, I.ls, lo, q.x, q.d, dd)
             IN  [status |-> r.status, a |-> r.a, j |-> r.j, tie |-> r.tie, lo |-> BTNext(lo, r),
                  law |-> BTLaw(P, I.ls, lo, q.x, q.d, dd, r)]
        ELSE LET r == StepLen(P, I.ls, lo, q.x, q.d, dd)
             IN  [status |-> "ok", a |-> r.a, j |-> 0, tie |-> FALSE, lo |-> r.lo, law |-> TRUE]
LSCall(qi) ==
  /\ IsLS(inst) /\ Len(st.hist) < inst.N
  /\ \E r \in {LSResult(inst, st.lo, inst.queries[qi])} :
       /\ ~r.tie                      \* an exact tie of the decrease condition may go either way in floating point
       /\ st' = [lo |-> r.lo,
                 hist |-> Append(st.hist, [q |-> qi, status |-> r.status, a |-> r.a, j |-> r.j, law |-> r.law,
                                           start |-> BTStart(inst.ls, st.lo)])]
  /\ UNCHANGED <<inst, split, seg, ref, cg, k, log>>

Next == Iterate \/ Restart \/ (\E qi \in 1..(IF IsLS(inst) THEN Len(inst.queries) ELSE 0) : LSCall(qi))
Spec == Init /\ [][Next]_vars

\* the solver call(s) are over
Finished == IF IsLS(inst) THEN Len(st.hist) >= 1 ELSE ~Running

(* ============================== the laws ================================ *)
PP == inst.P
Quad == ~IsLS(inst) /\ PP.kind = "quad"
Unsplit == split = -1
ExactLS == inst.ls.k = "exact"
FullStep == inst.ls.k = "const" /\ inst.ls.a = QOne
nn == Dim(PP)

WellFormed == ProblemOK(inst.P)

\* Newton with full step on a quadratic: exact after one step, for any start
NewtonOneStep ==
  (Quad /\ inst.solver = "newton" /\ FullStep /\ inst.cgit = 0 /\ k >= 1) => st.x = PP.sol
\* dim conjugate-gradient iterations solve the Newton system exactly (what the default cg_iter relies on)
NewtonCGSolves ==
  (Quad /\ inst.solver = "newton" /\ k = 0) =>        \* (at the start point: later iterates have large denominators)
     WCGRun(PP, st.x, WCGInit(RNeg(QGrad(PP, st.x))), nn).p = NewtonExactDir(PP, st.x)
\* Newton on the separable quartic: the error contracts by exactly 2/3 per full step
NewtonQuartic ==
  (~IsLS(inst) /\ PP.kind = "quart" /\ inst.solver = "newton" /\ FullStep /\ inst.cgit = 0) =>
     st.x = RAdd(PP.t, RScal(TauPow(<<2, 3>>, k), RSub(inst.x0, PP.t)))

\* BFGS (any memory >= 1, H_0 = identity) and nonlinear CG (all four betas) with exact line search on a quadratic
\* generate the iterates of linear CG, hence are exact after dim steps
CGLike == NeedsCG(inst)
SameAsCG == CGLike => ref.x = cg.x
ExactAfterDim == (CGLike /\ Unsplit /\ k >= nn) => st.x = PP.sol
\* the search directions are mutually conjugate
Conjugate ==
  (CGLike /\ Unsplit) =>
     \A i, j \in 1..Len(log) : i < j => SIsZero(WInner(PP, log[i].d, QHessV(PP, log[i].x, log[j].d)))

\* BFGS: the inverse Hessian estimate satisfies the secant equation after every update (any line search, any memory
\* >= 1, any H_0), is self-adjoint in X, and on a quadratic with exact line search it satisfies all stored secant
\* equations and IS the inverse Hessian after dim updates
LastPair == st.pairs[Len(st.pairs)]
HNow(v) == BFGSApply(inst, st.pairs, Len(st.pairs), v)
Secant ==
  (~IsLS(inst) /\ inst.solver = "bfgs" /\ st.pairs # <<>>) => HNow(LastPair.y) = LastPair.s
SelfAdjoint ==
  (~IsLS(inst) /\ inst.solver = "bfgs") =>
     \A i, j \in 1..nn : WInner(PP, Unit(nn, i), HNow(Unit(nn, j))) = WInner(PP, HNow(Unit(nn, i)), Unit(nn, j))
HereditarySecant ==
  (Quad /\ inst.solver = "bfgs" /\ ExactLS /\ inst.store = -1 /\ Unsplit) =>
     \A j \in 1..Len(st.pairs) : HNow(st.pairs[j].y) = st.pairs[j].s
InverseAfterDim ==
  (Quad /\ inst.solver = "bfgs" /\ ExactLS /\ inst.store = -1 /\ Unsplit /\ Len(st.pairs) = nn) =>
     \A j \in 1..nn : HNow(QHessV(PP, st.x, Unit(nn, j))) = Unit(nn, j)
\* limited memory 0 stores nothing: steepest descent preconditioned with H_0
NoMemoryIsSD ==
  (~IsLS(inst) /\ inst.solver = "bfgs" /\ inst.store = 0) =>
     \A i \in 1..Len(log) : log[i].d = RNeg(H0Apply(inst, QGrad(PP, log[i].x)))

\* Broyden: secant equation after every update (both variants); on a linear system with full steps the method
\* terminates within 2 dim iterations (Gay 1979), unless it breaks down
LastE == log[Len(log)]
BroydenSecant ==
  (~IsLS(inst) /\ inst.solver = "broyden" /\ st.ok /\ log # <<>> /\ LastE.seg = seg) =>
     MatVec(st.H, RSub(QGrad(PP, LastE.xn), QGrad(PP, LastE.x))) = RSub(LastE.xn, LastE.x)
BroydenFinite ==
  (Quad /\ inst.solver = "broyden" /\ FullStep /\ Unsplit /\ st.ok /\ k >= 2 * nn) => Stationary(PP, st.x)

\* steepest descent with exact line search: consecutive gradients are orthogonal
SDOrthogonal ==
  (Quad /\ inst.solver = "sd" /\ ExactLS /\ inst.box = <<>>) =>
     \A i \in 1..Len(log) : SIsZero(WInner(PP, QGrad(PP, log[i].x), QGrad(PP, log[i].xn)))
\* descent methods with a line search that guarantees decrease: the objective decreases strictly
Descent ==
  (~IsLS(inst) /\ inst.ls.k \in {"exact", "bt"} /\ inst.solver \in {"newton", "bfgs", "ncg", "sd"} /\ st.ok) =>
     \A i \in 1..Len(log) : inst.box = <<>> => SLt(QVal(PP, log[i].xn), QVal(PP, log[i].x))
\* every step chosen by backtracking fulfils the decrease condition it documents
ArmijoHolds ==
  (~IsLS(inst) /\ inst.ls.k = "bt" /\ st.ok) =>
     \A i \in 1..Len(log) : BTArmijo(PP, log[i].x, log[i].d, log[i].dd, log[i].a, inst.ls.disc)
\* projected iterates stay in the box
InBox ==
  (~IsLS(inst) /\ inst.solver = "sd" /\ inst.box # <<>>) =>
     \A i \in 1..Len(log) : \A c \in 1..nn : SLe(inst.box[1], log[i].xn[c]) /\ SLe(log[i].xn[c], inst.box[2])
\* ADAM: the first step has magnitude exactly lr in every component ([KB2015] section 2.1), with the sign of -g
AdamFirstStep ==
  (~IsLS(inst) /\ inst.solver = "adam" /\ st.ok /\ k >= 1) =>
     \A c \in 1..nn : SSub(log[1].xn[c], log[1].x[c]) =
                        SMul(inst.lr, SNeg(QSign(QGrad(PP, log[1].x)[c])))
\* n then m iterations = n + m iterations where the iterate (and the caller's rule object) is the whole state
ResumeExact ==
  (~IsLS(inst) /\ inst.solver \in Resumable) => (st.x = ref.x /\ st.lo = ref.lo)
\* the callback sees one iterate per iteration: the iterates are exactly the `xn` of the log, and the caller's x is
\* the last of them
IterateIsResult == (~IsLS(inst) /\ log # <<>>) => (st.x = LastE.xn /\ Len(log) = k)

\* step-length objects: every successful backtracking call obeys the documented rule; the counters add up
RECURSIVE SumJ(_)
SumJ(h) == IF h = <<>> THEN 0 ELSE (IF h[1].status \in {"ok", "edge"} THEN h[1].j ELSE 0) + SumJ(Tail(h))
LSLaws ==
  IsLS(inst) =>
     /\ \A i \in 1..Len(st.hist) : st.hist[i].law
     /\ st.lo.calls = Len(st.hist)
     /\ st.lo.total = SumJ(st.hist)
\* without estimate_step every call starts from the initial guess; with it from the last returned step length
LSStartRule ==
  (IsLS(inst) /\ inst.ls.k = "bt") =>
     \A i \in 1..Len(st.hist) :
        st.hist[i].start =
          IF inst.ls.est /\ \E l \in 1..(i - 1) : st.hist[l].status \in {"ok", "edge"}
            THEN LET l == CHOOSE l \in 1..(i - 1) : st.hist[l].status \in {"ok", "edge"}
                                /\ \A l2 \in (l + 1)..(i - 1) : st.hist[l2].status \notin {"ok", "edge"}
                 IN  SAbs(st.hist[l].a)
            ELSE inst.ls.alpha0
=============================================================================

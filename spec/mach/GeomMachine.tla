---------------------------- MODULE GeomMachine ----------------------------
(***************************************************************************)
(* Layer B for C19 (ConfigMachine pattern, DESIGN 2.1): a configuration    *)
(* (geometry descriptor cg, motion parameter ca, detector parameter cu) is *)
(* chosen from a finite configuration space (the geometry in Init, the     *)
(* parameters by the single action Query); the observations are the        *)
(* layer-A values of all public queries.  The invariants are the formal    *)
(* version of the property statement evaluated ON THE MODEL (sanity of the *)
(* reference): they must hold for every configuration.                     *)
(***************************************************************************)
EXTENDS GeomSem, TLC

CONSTANTS Geoms,          \* set of geometry descriptors
          AnglesOf(_),    \* geometry -> set of motion parameters
          ParamsOf(_)     \* geometry -> set of detector parameters (tuples of params)

VARIABLES cg, ca, cu, ph
vars == <<cg, ca, cu, ph>>

Init == cg \in Geoms /\ ca = <<>> /\ cu = <<>> /\ ph = 0
Query == /\ ph = 0
         /\ ca' \in AnglesOf(cg)
         /\ cu' \in ParamsOf(cg)
         /\ ph' = 1
         /\ UNCHANGED cg
Next == Query
Spec == Init /\ [][Next]_vars

(* ----------------------------- observations ---------------------------- *)
Obs(gg, aa, uu) ==
  LET f == Frame(gg)
      R == RotAtF(gg, f, aa)
  IN  [ rot    |-> R,
        ref    |-> DetRefPointF(gg, f, R, aa),
        axes   |-> DetAxesF(f, R),
        detpt  |-> DetPointF(gg, f, R, aa, uu),
        src    |-> IF IsParallel(gg.cls) THEN <<>> ELSE SrcPosF(gg, f, R, aa),
        d2s    |-> DetToSrcF(gg, f, R, aa, uu) ]

(* ------------------- the property statement on the model --------------- *)
\* All clauses are evaluated in ONE invariant so that the frame and the rotation are computed once
\* per configuration; the named clauses are reported by PropertyClauses.
PropertyClauses(gg, aa, uu) ==
  LET f  == Frame(gg)
      R  == RotAtF(gg, f, aa)
      Rt == MTranspose(R)
      par == IsParallel(gg.cls)
      s  == Surface(gg.det, f.axes, uu)
      ref == DetRefPointF(gg, f, R, aa)
      dp == DetPointF(gg, f, R, aa, uu)
      d  == DetToSrcF(gg, f, R, aa, uu)
      nrm == Normal(f.axes)
  IN
  \* rotation matrix orthonormal with determinant one
  (IF IsRotation(R) THEN {} ELSE {"rotation"})
  \* frame sanity: unit detector axes / axis / source direction, angles on the unit circle
  \cup (IF /\ \A j \in 1..Len(f.axes) : GNorm2(f.axes[j]) = QOne
           /\ (IsAxisCls(gg.cls) => GNorm2(f.k) = QOne)
           /\ (~par => GNorm2(f.e) = QOne)
           /\ (gg.cls = "par3deu" => \A i \in 1..3 : OnCircle(AngCS(aa[i])))
           /\ (gg.cls # "par3deu" => OnCircle(AngCS(aa)))
        THEN {} ELSE {"frame"})
  \* detector point = reference point + rotated intrinsic surface point (un-rotating the offset
  \* gives the intrinsic point back; with RotationOK this is the isometry statement)
  \cup (IF MatVec(Rt, GSub(dp, ref)) = s THEN {} ELSE {"detpoint"})
  \* the axis of an axis-oriented geometry is fixed by the motion
  \cup (IF IsAxisCls(gg.cls) => MatVec(R, f.k) = f.k THEN {} ELSE {"axis-fixed"})
  \* divergent beams: detector-to-source vector consistent with the source position, and the
  \* source is the rigidly moved initial source
  \cup (IF ~par =>
            LET src == SrcPosF(gg, f, R, aa)
                zs == IF gg.cls = "cone" THEN GScale(QAddL(AxisShift(gg, aa), Pad3(gg.ss)), f.k)
                      ELSE GZeroV(NDim(gg.cls))
            IN  /\ GAdd(dp, d) = src
                /\ MatVec(Rt, GSub(GSub(src, f.t), zs)) = CenterToSrc0(gg, f)
        THEN {} ELSE {"divergent"})
  \* parallel beams: unit direction, orthogonal to the detector axes, the same for every u
  \cup (IF par =>
            /\ GNorm2(nrm) = QOne
            /\ \A j \in 1..Len(f.axes) : GDot(nrm, f.axes[j]) = QZero
            /\ MatVec(Rt, d) = nrm
            /\ \A vv \in ParamsOf(gg) : DetToSrcF(gg, f, R, aa, vv) = d
        THEN {} ELSE {"parallel"})
  \* sanity of the angle carrier: doubling the multiplier squares the rotation
  \cup (IF gg.cls # "par3deu" => RotAtF(gg, f, [aa EXCEPT !.m = 2 * aa.m]) = MatMul(R, R)
        THEN {} ELSE {"group"})

PropertyOK == ph = 1 => PropertyClauses(cg, ca, cu) = {}

\* sanity of the rotation constructors
ASSUME RodriguesIsRotZ ==
  \A cs \in { <<Q(3, 5), Q(4, 5)>>, <<Q(-8, 17), Q(15, 17)>>, <<QZero, QOne>> } :
     /\ Rodrigues(E3z, cs) = RotZ(cs)
     /\ Euler(cs, <<QOne, QZero>>, <<QOne, QZero>>) = RotZ(cs)
     /\ Euler(<<QOne, QZero>>, cs, <<QOne, QZero>>) = RotX(cs)
     /\ Euler(cs, <<QOne, QZero>>, cs) = RotZ(CsMul(cs, cs))
ASSUME RotFromToMaps ==
  /\ \A v \in { <<Q(2, 3), Q(2, 3), Q(1, 3)>>, <<Q(3, 5), QZero, Q(4, 5)>>, <<QZero, QZero, QNeg(QOne)>>, E3z } :
        /\ MatVec(RotFromTo3(E3z, v), E3z) = v
        /\ IsRotation(RotFromTo3(E3z, v))
  /\ \A v \in { <<Q(3, 5), Q(4, 5)>>, <<Q(-5, 13), Q(12, 13)>>, <<QZero, QNeg(QOne)>> } :
        /\ MatVec(RotFromTo2(E2y, v), E2y) = v
        /\ IsRotation(RotFromTo2(E2y, v))
=============================================================================

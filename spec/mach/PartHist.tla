------------------------------- MODULE PartHist -------------------------------
(***************************************************************************)
(* Layer B (C14): HISTORIES on partitions that share sub-objects and are   *)
(* built from caller-owned arrays.                                         *)
(*                                                                         *)
(* A scenario fixes coordinate vectors (held by the caller as float64      *)
(* arrays, and by ONE RectGrid object G built from them) and two sets of   *)
(* domain limits (caller-owned arrays too).  Actions:                      *)
(*   C(route, lim)   construct a partition on limits `lim`                 *)
(*        rect_shared      RectPartition(IntervalProd(min, max), G)        *)
(*        fromgrid_shared  uniform_partition_fromgrid(G, min, max)         *)
(*        rect_fresh       RectPartition(IntervalProd(..), RectGrid(arrays)) *)
(*        nonuniform       nonuniform_partition(arrays, min_pt=, max_pt=)  *)
(*   Q(i, q)         query object i: lite | sides | index | sub            *)
(*   MC(which)       the caller shifts ITS arrays (nodes | min | max)      *)
(*   MR(i, attr)     the caller overwrites an array RETURNED by object i   *)
(*   CM(i, m)        the caller CALLS a non-mutating public method m of    *)
(*                   the shared sub-objects of object i (its IntervalProd  *)
(*                   `set.*`, its RectGrid `grid.*`, the partition itself  *)
(*                   `part.*`: everything documented as returning a NEW    *)
(*                   object or a value - collapse, squeeze, insert, append,*)
(*                   min, max, corners, arithmetic, ...) and overwrites    *)
(*                   every array the call hands out.  The model state does *)
(*                   not move: that IS the specification of these methods. *)
(*   SWEEP           every query on every object, in both orders           *)
(* Invariant (from the statement, which speaks of "every partition"):      *)
(* the answer to a query is a function of the partition's own defining     *)
(* data at construction - whatever was built, asked, or overwritten        *)
(* before, on this object or on a sibling.                                 *)
(***************************************************************************)
EXTENDS PartitionImpl, TLC

CONSTANTS Scenarios, MaxLen, Routes, Attrs, Methods
VARIABLES sc, objs, hist
vars == <<sc, objs, hist>>

PartOf(o) == [k \in 1..Len(sc.nodes) |-> Axis(sc.lims[o.lim].min[k], sc.lims[o.lim].max[k], sc.nodes[k])]
Step(a, route, lim, i, q, attr, exp) == [a |-> a, route |-> route, lim |-> lim, i |-> i, q |-> q, attr |-> attr, exp |-> exp]
Mutated  == \E j \in 1..Len(hist) : hist[j].a \in {"MC", "MR", "CM"}
CallerMutated == \E j \in 1..Len(hist) : hist[j].a = "MC"
Called   == \E j \in 1..Len(hist) : hist[j].a = "CM"
Swept    == Len(hist) >= 1 /\ hist[Len(hist)].a = "SWEEP"

Init == sc \in Scenarios /\ objs = <<>> /\ hist = <<>>
Construct(route, lim) ==
  /\ Len(objs) < 2 /\ ~CallerMutated            \* (a construction after MC would legitimately see the shifted arrays)
  /\ ~Called                                    \* (bound: C, C, CM already covers a sibling on the shared grid)
  /\ objs' = Append(objs, [route |-> route, lim |-> lim])
  /\ hist' = Append(hist, Step("C", route, lim, Len(objs) + 1, "", "", <<>>))
Query(i, q) ==
  /\ hist' = Append(hist, Step("Q", "", 0, i, q, "", Ref(PartOf(objs[i]), q)))
  /\ UNCHANGED objs
MutCaller(which) ==
  /\ ~Mutated /\ hist' = Append(hist, Step("MC", "", 0, 0, "", which, <<>>)) /\ UNCHANGED objs
MutReturned(i, attr) ==
  /\ ~Mutated /\ hist' = Append(hist, Step("MR", "", 0, i, "", attr, <<>>)) /\ UNCHANGED objs
\* a call of a non-mutating method of the set / grid / partition of the most recently built object (a shared grid is
\* the same object for all siblings): objs - the defining data of every partition - is unchanged by definition
CallShared(i, m) ==
  /\ ~Mutated /\ i = Len(objs) /\ hist' = Append(hist, Step("CM", "", 0, i, "", m, <<>>)) /\ UNCHANGED objs
Sweep ==
  /\ hist' = Append(hist, Step("SWEEP", "", 0, 0, "", "", [i \in 1..Len(objs) |-> RefAll(PartOf(objs[i]))]))
  /\ UNCHANGED objs
Next ==
  /\ ~Swept /\ UNCHANGED sc
  /\ IF Len(hist) = MaxLen THEN Sweep
     ELSE \/ \E r \in Routes, l \in 1..Len(sc.lims) : Construct(r, l)
          \/ (Len(objs) >= 1 /\ \E i \in 1..Len(objs) : \/ \E q \in Queries : Query(i, q)
                                                         \/ \E at \in Attrs : MutReturned(i, at)
                                                         \/ \E m \in Methods : CallShared(i, m))
          \/ (Len(objs) >= 1 /\ \E w \in {"nodes", "min", "max"} : MutCaller(w))
Spec == Init /\ [][Next]_vars

(* ------------------------- invariants ------------------------------------- *)
\* the reference answer of every recorded query depends on the object's own defining data only
HistoryFree ==
  Len(hist) >= 1 =>
    LET s == hist[Len(hist)]
    IN  CASE s.a = "Q" -> s.exp = Ref(PartOf(objs[s.i]), s.q)
          [] s.a = "SWEEP" -> \A i \in 1..Len(objs) : s.exp[i] = RefAll(PartOf(objs[i]))
          [] OTHER -> TRUE
\* siblings on the same grid and the same limits are the same partition; on different limits they differ only in
\* what depends on the limits (nodes are shared, cells of the interior are identical)
Siblings ==
  \A i \in 1..Len(objs), j \in 1..Len(objs) :
     LET p == PartOf(objs[i])  r == PartOf(objs[j])
     IN  /\ (objs[i].lim = objs[j].lim => p = r)
         /\ \A k \in 1..Len(p) : p[k].nodes = r[k].nodes /\ AxisLaws(p[k])
\* layer C: RectGrid.stride is computed once per GRID object and returned as a copy; cell_sides fills the zero
\* entries of that copy with the extent of the asking partition - the model's answer never depends on who asked first
ImplStride(g) == IF Len(g) = 1 THEN QZero ELSE QSub(g[2], g[1])
ImplSides(part) == [k \in 1..Len(part) |-> IF ~IsUniform(part[k]) THEN NoneQ
                                            ELSE IF ImplStride(part[k].nodes) = QZero THEN Extent(part[k])
                                            ELSE ImplStride(part[k].nodes)]
ImplRefines == \A i \in 1..Len(objs) : ImplSides(PartOf(objs[i])) = Ref(PartOf(objs[i]), "sides")
=============================================================================

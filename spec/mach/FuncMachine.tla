---------------------------- MODULE FuncMachine ----------------------------
(***************************************************************************)
(* Layer B for C07 / C08 / C09: the functional-expression machine.         *)
(*                                                                         *)
(* State: a stack of functional expressions under construction (each with  *)
(* the space it lives on and the number of rules applied so far).  One     *)
(* action per way the public API builds a functional:                      *)
(*   PushLeaf                     a catalogue functional on Sp             *)
(*   PushSecond / PushPart        second operand / component functional    *)
(*   Unary(r)                     f.translated(t), f*s, s*f, f*v, f+c,     *)
(*                                FunctionalQuadraticPerturb, .convex_conj,*)
(*                                f.bregman(y,p), f*MatrixOperator         *)
(*   Binary(op)                   f+g, SeparableSum, FunctionalProduct,    *)
(*                                FunctionalQuotient, InfimalConvolution   *)
(* Queries (constant-level, shared with the trace specification):          *)
(*   QValue, QProx, QGrad, QDirDeriv, QConj, QLipschitz.                   *)
(* The meaning of every query is layer A (FuncSem).                        *)
(***************************************************************************)
EXTENDS FuncSem

CONSTANTS Sp,          \* the space of the finished functional
          Depth,       \* bound on the number of rule applications
          LeafFilter,  \* set of leaf op names admitted (partitioning of runs) ; {} = all
          RuleFilter,  \* set of rule op names admitted ; {} = all
          DeepLeaves   \* leaf ops on which a second rule may be stacked ; {} = all

VARIABLES stack
vars == <<stack>>

Entry(sp, f, k) == [sp |-> sp, f |-> f, k |-> k]
Rule(op, s, c, v, u) == [op |-> op, s |-> s, c |-> c, v |-> v, u |-> u]
Apply(r, f)      == Mk(r.op, r.s, r.c, r.v, r.u, <<f>>)
Apply2(op, f, g) == Mk(op, QZero, QZero, <<>>, <<>>, <<f, g>>)

(* ------------- parameter vectors (dimension-generic, fixed) ------------- *)
\* alternating patterns on the quarter lattice
PVecT(n) == Strict([i \in 1..n |-> IF i % 2 = 1 THEN QOne ELSE Q(-1, 2)])        \* translation / linear term
PVecV(n) == Strict([i \in 1..n |-> IF i % 2 = 1 THEN QI(2) ELSE Q(-1, 2)])       \* multiplier (no zero)
PVecD(n) == Strict([i \in 1..n |-> IF i % 2 = 1 THEN QOne ELSE Q(1, 2)])         \* positive diagonal
PVecG(n) == Strict([i \in 1..n |-> IF i % 2 = 1 THEN QOne ELSE QI(2)])           \* KL prior (positive)
PVecY(n) == Strict([i \in 1..n |-> IF i % 2 = 1 THEN Q(1, 2) ELSE QOne])         \* Bregman point
PVecP(n) == Strict([i \in 1..n |-> IF i % 2 = 1 THEN QI(-1) ELSE Q(1, 2)])       \* Bregman sub-gradient (any vector)
\* upper-triangular shear, row-major, for composition with a matrix operator
Shear(n) == Strict([j \in 1..n * n |-> LET r == (j - 1) \div n + 1  c == ((j - 1) % n) + 1
                                       IN IF r = c THEN QOne ELSE IF c = r + 1 THEN QI(2) ELSE QZero])

(* ---------------------------- catalogue --------------------------------- *)
\* leaf filters name ops; the name "Lin" stands for the LINEAR leaf <b, x> (QuadraticForm(vector=b), is_linear)
LeafMatches(l, F) == IF F = {"Lin"} THEN l.op = "Quad" /\ l.v = <<>> /\ l.c = QZero ELSE l.op \in F
Catalogue(sp) ==
  LET n == Dim(sp)
      scalarSpace == sp.m = 1
      all ==
        {Leaf("L1"), Leaf("L2"), Leaf("L2sq"),
         LeafS("Huber", Q(1, 2)), LeafS("Huber", QZero),                 \* gamma = 0: documented boundary value
         LeafSC("IndBox", QOne, QOne),                                   \* lower = upper
         LeafSC("IndBox", QI(-1), QI(2)), Leaf("IndNonneg"),
         LeafSC("IndZero", QZero, QZero), LeafSC("IndZero", QZero, QOne),
         Leaf("IndBall2"), Leaf("IndBallInf"),
         LeafSC("Const", QZero, QI(3)),
         Mk("Quad", QZero, QOne, RConst(n, QI(2)), PVecT(n), <<>>),      \* 2|x|^2 + <b,x> + 1 (ScalingOperator)
         Mk("Quad", QZero, QOne, <<>>, PVecT(n), <<>>),                  \* affine <b,x> + 1
         Mk("Quad", QZero, QZero, <<>>, PVecT(n), <<>>),                 \* LINEAR <b,x> (is_linear: rewrites f*s into s*f)
         Mk("KL", QZero, QZero, PVecG(n), <<>>, <<>>),
         Mk("KLcc", QZero, QZero, PVecG(n), <<>>, <<>>)}
      scal == {Leaf("Linf"), Leaf("IndBall1"), LeafS("IndSum", QOne), LeafS("IndSimplex", QI(2)),
               Mk("Quad", QZero, QZero, PVecD(n), <<>>, <<>>)}                 \* <x, diag x>  (MatrixOperator)
      \* group functionals with every point-wise exponent of the parametrised pair (field s: 1, default 2, Inf)
      vf   == {Leaf("GroupL1"), LeafS("GroupL1", QOne), LeafS("GroupL1", Inf),
               Leaf("IndGroupBall"), LeafS("IndGroupBall", QOne), LeafS("IndGroupBall", Inf)}
      \* documented domains: Huber needs a tensor or POWER space, the KL functionals a tensor space
      het  == {l \in all : l.op \notin {"Huber", "KL", "KLcc"}}
      cat  == (IF sp.kind = "pspace" THEN het ELSE all) \cup
              (IF scalarSpace THEN scal ELSE {}) \cup (IF IsVF(sp) THEN vf ELSE {})
  IN IF LeafFilter = {} THEN cat ELSE {l \in cat : LeafMatches(l, LeafFilter)}

\* smooth finite operands for the binary rules
SecondOperands(sp) ==
  LET n == Dim(sp) IN
  {Leaf("L2sq"), Leaf("L1"), Mk("Quad", QZero, QOne, RConst(n, QI(2)), PVecT(n), <<>>)} \cup
  (IF sp.kind = "pspace" THEN {} ELSE {LeafS("Huber", Q(1, 2))})

\* FunctionalQuadraticPerturb(f, quadratic_coeff, linear_term, constant): every combination of
\* {coefficient zero / nonzero} x {linear term absent / explicitly zero / nonzero} x {constant zero / nonzero}
\* (the three parts are handled by separate branches of value, gradient, proximal and convex conjugate), and the
\* Bregman distance with the sub-gradient 0 (at a minimiser): its internal perturbation has a ZERO linear term and the
\* constant -f(point).  Run partitioning: a grid member is applied directly on a leaf, and only .convex_conj is
\* stacked on it (GridOk) - the grid multiplies the programs of depth 1, not those of depth 2.
GridRules(n) ==
  ({Rule("QuadPert", a, c, <<>>, u) : a \in {QZero, Q(1, 2)}, c \in {QZero, QI(-1)},
                                      u \in {<<>>, RConst(n, QZero), PVecT(n)}}
     \ {Rule("QuadPert", Q(1, 2), QZero, <<>>, <<>>)}) \cup          \* (member of the core list below)
  {Rule("Bregman", QZero, QZero, PVecY(n), RConst(n, QZero))}
GridOk(r, e) ==
  LET G == GridRules(Dim(e.sp)) IN
  IF r \in G THEN e.k = 0
  ELSE IF ~IsLeaf(e.f) /\ Rule(e.f.op, e.f.s, e.f.c, e.f.v, e.f.u) \in G THEN r.op = "Conj"
  ELSE TRUE
UnaryRulesAll(sp) ==
  LET n == Dim(sp) IN
  {Rule("Translate", QZero, QZero, <<>>, PVecT(n)),
   Rule("ArgScale", QI(2), QZero, <<>>, <<>>), Rule("ArgScale", Q(-1, 2), QZero, <<>>, <<>>),
   Rule("LScale", QI(2), QZero, <<>>, <<>>), Rule("LScale", Q(1, 2), QZero, <<>>, <<>>),
   Rule("LScale", Q(5, 2), QZero, <<>>, <<>>), Rule("LScale", QI(-1), QZero, <<>>, <<>>),
   Rule("RVec", QZero, QZero, PVecV(n), <<>>),
   Rule("AddConst", QZero, QI(3), <<>>, <<>>),
   Rule("QuadPert", Q(1, 2), QZero, <<>>, <<>>),                          \* + |x|^2 / 2
   Rule("QuadPert", QZero, QOne, <<>>, PVecT(n)),                         \* + <x,u> + 1
   Rule("QuadPert", QOne, QI(-1), <<>>, PVecT(n)),                        \* + |x|^2 + <x,u> - 1
   Rule("Conj", QZero, QZero, <<>>, <<>>),
   Rule("Bregman", QZero, QZero, PVecY(n), PVecP(n))} \cup GridRules(n) \cup
  (IF sp.kind \in {"rn", "rnw"} THEN {Rule("Comp", QZero, QZero, Shear(n), <<>>)} ELSE {}) \cup
  \* nonlinear inner operators with domain = range: PowerOperator(2), PowerOperator(3)
  (IF sp.m = 1 THEN {Rule("CompPow", QI(2), QZero, <<>>, <<>>), Rule("CompPow", QI(3), QZero, <<>>, <<>>)} ELSE {})
UnaryRules(sp) == IF RuleFilter = {} THEN UnaryRulesAll(sp)
                  ELSE {r \in UnaryRulesAll(sp) : r.op \in RuleFilter}
BinOps == {"Sum", "Prod", "Quot", "InfConv"}

(* well-formedness of a rule application (mathematics, not ODL) *)
Rescaling == {"ArgScale", "RVec", "Comp", "CompPow"}
Applicable(r, e) ==
  IF e.f.op = "InfConv" THEN r.op = "Conj"
  \* (two argument rescalings in a row add nothing but 32-bit pressure on the exact stencil)
  ELSE IF r.op \in Rescaling /\ e.f.op \in Rescaling THEN FALSE
  ELSE IF r.op = "LScale" /\ r.s[1] < 0 THEN FiniteValued(e.f)
  ELSE IF r.op = "Conj" THEN Convex(e.f) /\ HasSubdiff(e.f)
  ELSE IF r.op \in {"Comp", "CompPow"} THEN e.sp.kind # "part"
  ELSE IF r.op = "Bregman" THEN XKnown(Val(e.sp, e.f, r.v))      \* the reference point lies in dom f
  ELSE TRUE

(* ------------------------------ actions --------------------------------- *)
Budget == IF Len(stack) = 2 THEN stack[1].k + stack[2].k + 1 ELSE IF Len(stack) = 1 THEN stack[1].k ELSE 0
\* a second rule is stacked only on the leaves named in DeepLeaves (run partitioning / tier bound)
RECURSIVE FirstLeaf(_)
FirstLeaf(f) == IF IsLeaf(f) THEN f ELSE FirstLeaf(f.args[1])
DeepOk(e) == IF e.k = 0 \/ DeepLeaves = {} THEN TRUE ELSE LeafMatches(FirstLeaf(e.f), DeepLeaves)

Init == stack = <<>>
PushLeaf   == /\ stack = <<>>
              /\ \E l \in Catalogue(Sp) : stack' = <<Entry(Sp, l, 0)>>
PushSecond == /\ Len(stack) = 1 /\ stack[1].sp = Sp /\ stack[1].k + 1 <= Depth
              /\ FiniteValued(stack[1].f)
              /\ \E l \in SecondOperands(Sp) : stack' = Append(stack, Entry(Sp, l, 0))
PushPart   == /\ Sp.kind = "pspace" /\ Len(stack) < 2 /\ Budget + 1 <= Depth
              /\ \A j \in 1..Len(stack) : stack[j].sp.kind = "part"
              /\ \E l \in Catalogue(Part(Sp, Len(stack) + 1)) :
                    stack' = Append(stack, Entry(Part(Sp, Len(stack) + 1), l, 0))
Unary      == /\ Len(stack) >= 1 /\ Budget + 1 <= Depth
              /\ LET e == stack[Len(stack)] IN
                 /\ DeepOk(e)
                 /\ \E r \in UnaryRules(e.sp) :
                      /\ Applicable(r, e)
                      /\ GridOk(r, e)
                      /\ stack' = [stack EXCEPT ![Len(stack)] = Entry(e.sp, Apply(r, e.f), e.k + 1)]
Binary     == /\ Len(stack) = 2 /\ Budget <= Depth
              /\ IF stack[1].sp.kind = "part"
                   THEN stack' = <<Entry(Sp, Apply2("SepSum", stack[1].f, stack[2].f), Budget)>>
                   ELSE \E op \in BinOps :
                          /\ (IF RuleFilter = {} THEN TRUE ELSE op \in RuleFilter)
                          /\ (IF op = "InfConv" THEN Convex(stack[1].f) /\ HasSubdiff(stack[1].f) ELSE TRUE)
                          /\ stack' = <<Entry(Sp, Apply2(op, stack[1].f, stack[2].f), Budget)>>
Next == PushLeaf \/ PushSecond \/ PushPart \/ Unary \/ Binary
Spec == Init /\ [][Next]_vars

Finished == Len(stack) = 1 /\ stack[1].sp = Sp
Top == stack[1]

(* ------------------------------ queries --------------------------------- *)
QValue(e, x)            == Val(e.sp, e.f, x)
QProx(e, sig, x, K, D)  == ArgminSet(e.sp, e.f, sig, x, K, D)
QGrad(e, x)             == Grad(e.sp, e.f, x)
QDirDeriv(e, x, d)      == DirDeriv(e.sp, e.f, x, d)
QConj(e, y)             == ConjVal(e.sp, e.f, y)
QLipschitz(e, L, x, y)  == LET gx == QGrad(e, x)  gy == QGrad(e, y)
                           IN GradKnown(gx) /\ GradKnown(gy) => LipschitzHolds(e.sp, L, x, y, gx, gy)
ProxQueryable(e)        == Convex(e.f) /\ HasSubdiff(e.f)
\* per-component / per-point steps are DOCUMENTED for: proximal_l1, proximal_l2_squared,
\* proximal_convex_conj_l1 (element-valued sigma) and combine_proximals (one step per component)
VecSigmaDocumented(f) ==
  \/ IsLeaf(f) /\ f.op \in {"L1", "L2sq", "IndBallInf"}
  \/ f.op = "Conj" /\ Arg(f).op = "L1"
  \/ f.op = "SepSum"
\* an indicator-type functional: values in {0, Inf}
RECURSIVE IsIndicator(_)
IsIndicator(f) ==
  IF IsLeaf(f) THEN f.op \in {"IndBox", "IndNonneg", "IndSum", "IndSimplex", "IndBall1", "IndBall2",
                              "IndBallInf", "IndGroupBall"} \/ (f.op = "IndZero" /\ f.c = QZero)
  ELSE /\ f.op \in {"Translate", "ArgScale", "RVec", "SepSum"} \/ (f.op = "LScale" /\ f.s[1] > 0)
       /\ \A k \in 1..Len(f.args) : IsIndicator(f.args[k])
=============================================================================

------------------------------ MODULE OpMachine ------------------------------
(***************************************************************************)
(* Layer B: operator expressions under construction (C04, C05, C06).        *)
(*                                                                         *)
(* State: a stack of expressions.  A behaviour IS a well-typed program:    *)
(* each action is one Python-level construction step (a leaf constructor   *)
(* or one overloaded operator applied to the top of the stack).  Whenever  *)
(* the stack holds exactly one expression, the program is complete and can *)
(* be queried: Call(x), IsLinear, Domain, Range, Adjoint matrix,           *)
(* Derivative(x)(d) - the query results are given by layer A (OpSem).      *)
(***************************************************************************)
EXTENDS OpSem, TLC

CONSTANTS Scal,      \* scalar alphabet (C numbers)
          Vecs,      \* vector alphabet (values of length 2)
          Mats,      \* matrix alphabet
          LeafSet,   \* leaf kinds in use
          UnSet,     \* unary combinators in use
          BinSet,    \* binary combinators in use
          MaxSteps,  \* bound on construction steps
          MaxHeight  \* bound on stack height

VARIABLES stack, steps
ovars == <<stack, steps>>

Leaves ==
       { Leaf(t, CZero, <<>>, <<>>) : t \in LeafSet \cap {"id", "zero", "sq", "l2sq", "l1", "swap", "rpart", "cmod2", "sqr"} }
  \cup { Leaf("scale", a, <<>>, <<>>) : a \in (IF "scale" \in LeafSet THEN Scal ELSE {}) }
  \cup { Leaf("mat", CZero, <<>>, m) : m \in (IF "mat" \in LeafSet THEN Mats ELSE {}) }
  \cup { Leaf(t, CZero, v, <<>>) : t \in LeafSet \cap {"mulvec", "inner", "const", "shift", "smul", "linfn"}, v \in Vecs }

UnCands(e) ==
       { Un(t, CZero, <<>>, 0, e) : t \in UnSet \cap {"neg"} }
  \cup { Un(t, a, <<>>, 0, e) : t \in UnSet \cap {"lscal", "rscal", "rdiv", "addscal"}, a \in Scal }
  \cup { Un(t, CZero, v, 0, e) : t \in UnSet \cap {"lvec", "flvm", "rvec", "addvec", "raddvec", "rsubvec", "subvec"}, v \in Vecs }
  \cup { Un("pow", CZero, <<>>, n, e) : n \in (IF "pow" \in UnSet THEN {2, 3} ELSE {}) }

Init == stack = <<>> /\ steps = 0

Push == /\ Len(stack) < MaxHeight
        /\ \E lf \in Leaves : stack' = Append(stack, lf)
        /\ steps' = steps + 1

ApplyUn == /\ Len(stack) >= 1
           /\ \E c \in UnCands(stack[Len(stack)]) :
                 /\ WellTyped(c) /\ Tame(c)
                 /\ stack' = [stack EXCEPT ![Len(stack)] = c]
           /\ steps' = steps + 1

ApplyBin == /\ Len(stack) >= 2
            /\ \E t \in BinSet :
                 LET c == Bin(t, stack[Len(stack) - 1], stack[Len(stack)])
                 IN /\ WellTyped(c) /\ Tame(c)
                    /\ stack' = Append(SubSeq(stack, 1, Len(stack) - 2), c)
            /\ steps' = steps + 1

Next == steps < MaxSteps /\ (Push \/ ApplyUn \/ ApplyBin)
Spec == Init /\ [][Next]_ovars

(* ---------------- sanity of the reference (checked by TLC) -------------- *)
PtsV == { <<CInt(1), CInt(2)>>, <<CInt(-2), CInt(1)>> }
PtsS == { <<CInt(2)>>, <<CInt(-1)>> }
Pts(s) == IF IsVecSp(s) THEN PtsV ELSE PtsS
Complete == Len(stack) = 1
Top == stack[1]

\* semantic linearity on the probe points (necessary condition for a linear map)
SemLin(e) ==
  \A x \in Pts(Dom(e)), y \in Pts(Dom(e)) :
     /\ Eval(e, VAdd(x, y)) = VAdd(Eval(e, x), Eval(e, y))
     /\ Eval(e, VScal(CInt(3), x)) = VScal(CInt(3), Eval(e, x))

\* structurally linear expressions are additive and homogeneous on the probe points
LinearIsLinear ==
  (Complete /\ IsLinear(Top)) =>
     \A x \in Pts(Dom(Top)), y \in Pts(Dom(Top)) :
        /\ Eval(Top, VAdd(x, y)) = VAdd(Eval(Top, x), Eval(Top, y))
        /\ Eval(Top, VScal(CInt(3), x)) = VScal(CInt(3), Eval(Top, x))
\* the reference adjoint is an involution and satisfies the weighted adjoint identity on the basis
AdjointSane ==
  (Complete /\ IsLinear(Top)) =>
     LET M == MatOf(Top) N == AdjMatOf(Top)
         wd == WOf(Dom(Top)) wr == WOf(Ran(Top))
     IN \A i \in 1..Len(N), j \in 1..Len(M) :
           CScal(wd[i], N[i][j]) = CScal(wr[j], CConj(M[j][i]))
\* a linear map is its own derivative (stencil definition agrees with the map itself)
LinearOwnDerivative ==
  (Complete /\ IsLinear(Top)) =>
     \A x \in Pts(Dom(Top)), d \in Pts(Dom(Top)) : DirDeriv(Top, x, d) = Eval(Top, d)
\* types are well defined
TypeOK == \A i \in 1..Len(stack) : WellTyped(stack[i]) /\ Dom(stack[i]) \in {"V", "S", "VR"} /\ Ran(stack[i]) \in {"V", "S", "VR"}
=============================================================================

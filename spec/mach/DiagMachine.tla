----------------------------- MODULE DiagMachine -----------------------------
(***************************************************************************)
(* Layer B (EXT/diag).                                                     *)
(*                                                                         *)
(* 1. Case machine: one state per call of a diagnostic / test utility      *)
(*      "optest"  OperatorTest(op, operator_norm=N, verbose=vb, tol).meth() *)
(*                on an exact operator with a planted defect                *)
(*      "sptest"  SpaceTest(space, verbose=vb, tol).meth() on a toy space   *)
(*      "cmp"     all_equal / all_almost_equal(x, y, ndigits)               *)
(*      "subdict" is_subdict(sub, dict)     "digits" dtype_ndigits          *)
(*    Invariants: the verdict table is robust (no sample tuple near the     *)
(*    tolerance), correct twins are clean, far-above defects are reported   *)
(*    and far-below ones are not, joint scaling of defect and tolerance     *)
(*    leaves the verdict unchanged, and C (DiagImpl) refines A.             *)
(*                                                                         *)
(* 2. History machines for the objects with state:                          *)
(*      "fc"  fail_counter: enter / fail() / fail(string) / leave normally  *)
(*            or by an exception; several blocks one after the other        *)
(*      "pb"  ProgressBar(text, njobs...): update() / update(indices...),       *)
(*            beyond the end, backwards                                     *)
(*    The state is kept incrementally; HistoryFree says it is the fold of   *)
(*    the documented step function over the history.                        *)
(***************************************************************************)
EXTENDS DiagImpl

CONSTANTS Cases,        \* set of case records
          Machines,     \* set of machine records [name |-> "fc", haserr] / [name |-> "pb", njobs]
          MaxLenOf(_)
VARIABLES case, m, hist, st
dvars == <<case, m, hist, st>>

NoCase == [fn |-> "none"]
CaseMode == [name |-> "cases"]
InitCases == case \in Cases /\ m = CaseMode /\ hist = <<>> /\ st = 0

(* ----------------------------- case laws ------------------------------- *)
Half(q) == QMul(q, Q(1, 4))
\* joint scaling of the planted perturbation and of the tolerance by 1/4 (fields of the twin are kept)
ScV(v, t) == VAdd(t, VScal(Q(1, 4), VSub(v, t)))
ScaledOp(op, tw) ==
  [op EXCEPT !.b = ScV(op.b, tw.b),
             !.adj = << ScV(op.adj[1], tw.adj[1]), ScV(op.adj[2], tw.adj[2]) >>,
             !.AA = << ScV(op.AA[1], tw.AA[1]), ScV(op.AA[2], tw.AA[2]) >>,
             !.dJ = << VScal(Q(1, 4), op.dJ[1]), VScal(Q(1, 4), op.dJ[2]) >>]
OpLaws ==
  case.fn = "optest" =>
    LET c == case  e == Expected(c.op, c.meth, c.N, c.tol, c.vb) IN
    /\ OpFar(c.op, c.meth, c.N, c.tol)                                             \* never near the tolerance
    /\ (c.law = "clean" => \A i \in 1..Len(e) : e[i][1] \notin {"F", "M"})          \* correct twin / far below: nothing reported
    /\ (c.law = "reports" => Verdict(e) = "reports")                              \* far above: reported by the tests that see it
    /\ (c.scalable => Expected(ScaledOp(c.op, c.twin), c.meth, c.N, Half(c.tol), c.vb) = e)
    /\ (~c.vb => \A i \in 1..Len(e) : e[i][1] # "C")
OpRefinesFixed == case.fn = "optest" =>
    ImplExpected(case.op, case.meth, case.N, case.tol, case.vb, AllSwitches) = Expected(case.op, case.meth, case.N, case.tol, case.vb)
OpRefinesCurrent(fixed) == case.fn = "optest" =>
    ImplExpected(case.op, case.meth, case.N, case.tol, case.vb, fixed) = Expected(case.op, case.meth, case.N, case.tol, case.vb)
SpLaws ==
  case.fn = "sptest" =>
    LET c == case  e == SpExpected(c.sp, c.meth, c.tol, c.vb) IN
    /\ SpAllFar(c.sp, c.meth, c.tol)
    /\ (c.law = "clean" => \A i \in 1..Len(e) : e[i][1] # "F")
    /\ (c.law = "reports" => Verdict(e) = "reports")
    /\ (c.vb => Len(e) = Len(SpKeys(c.sp, c.meth)))
CmpLaws ==
  case.fn = "cmp" =>
    LET x == case.x  y == case.y  nd == case.nd
        a == IF case.f = "eq" THEN AllEqual(x, y) ELSE AllAlmostEqual(x, y, nd)
        cimpl == IF case.f = "eq" THEN ImplEqual(x, "py", y, "py") ELSE ImplAlmost(x, "py", y, "py", nd)
    IN  /\ a \in {"T", "F", "any"}
        /\ (x = y => a = "T")                                                              \* reflexive
        /\ a = (IF case.f = "eq" THEN AllEqual(y, x) ELSE AllAlmostEqual(y, x, nd))         \* symmetric
        /\ (case.f = "eq" /\ a = "T" => AllAlmostEqual(x, y, NoneD) = "T")                 \* equal => almost equal
        /\ (case.f = "almost" /\ nd = 6 /\ a = "T" => AllAlmostEqual(x, y, 3) # "F")       \* fewer digits: weaker
        /\ RefinesCmp(a, cimpl)
CaseLaws == OpLaws /\ SpLaws /\ CmpLaws

(* --------------------------- history machines -------------------------- *)
\* fail_counter: st = [open, n, strs, blocks]; blocks = summaries of the closed with-blocks (plus how they were left)
FcInit == [open |-> FALSE, n |-> 0, strs |-> <<>>, blocks |-> <<>>]
FcActs(s) == IF s.open THEN {[a |-> "fail", s |-> i] : i \in 0..2} \cup {[a |-> "exit", s |-> 0], [a |-> "raise", s |-> 0]}
             ELSE IF Len(s.blocks) < 2 THEN {[a |-> "enter", s |-> 0]} ELSE {}
FcStep(mm, s, act) ==
  CASE act.a = "enter" -> [s EXCEPT !.open = TRUE, !.n = 0, !.strs = <<>>]
    [] act.a = "fail"  -> [s EXCEPT !.n = s.n + 1, !.strs = IF act.s = 0 THEN s.strs ELSE Append(s.strs, act.s)]
    [] act.a \in {"exit", "raise"} ->
         [s EXCEPT !.open = FALSE,
                   !.blocks = Append(s.blocks, [sum |-> FcSummary(s.n, s.strs, mm.haserr), exc |-> IF act.a = "raise" THEN 1 ELSE 0,
                                                num_failed |-> s.n])]
\* ProgressBar: the machine follows the write of the implementation model and records whether the documentation allows it
PbMInit(mm) == [pb |-> PbInit(mm.njobs), writes |-> <<>>, ok |-> TRUE]
RECURSIVE MultiIdx(_)
MultiIdx(njobs) == IF njobs = <<>> THEN {<<>>}
                   ELSE {Append(p, i) : p \in MultiIdx(SubSeq(njobs, 1, Len(njobs) - 1)), i \in 0..(njobs[Len(njobs)] - 1)}
PbActs(mm, s) == {[a |-> "upd", ind |-> <<>>]} \cup {[a |-> "upd", ind |-> i] : i \in MultiIdx(mm.njobs)}
PbMStep(mm, s, act) ==
  LET w == ImplPbWrite(s.pb, act.ind) IN
  [pb |-> PbStep(s.pb, act.ind, w), writes |-> Append(s.writes, w), ok |-> s.ok /\ w \in PbAllowed(s.pb, act.ind)]

MInit(mm) == IF mm.name = "fc" THEN FcInit ELSE PbMInit(mm)
MActs(mm, s) == IF mm.name = "fc" THEN FcActs(s) ELSE PbActs(mm, s)
MStep(mm, s, act) == IF mm.name = "fc" THEN FcStep(mm, s, act) ELSE PbMStep(mm, s, act)

InitHist == case = NoCase /\ m \in Machines /\ hist = <<>> /\ st = MInit(m)
NextHist == /\ Len(hist) < MaxLenOf(m)
            /\ \E act \in MActs(m, st) : hist' = Append(hist, act) /\ st' = MStep(m, st, act)
            /\ UNCHANGED <<case, m>>
Init == InitCases \/ InitHist
Next == m # CaseMode /\ NextHist
Spec == Init /\ [][Next]_dvars

RECURSIVE Run(_, _)
Run(mm, h) == IF h = <<>> THEN MInit(mm) ELSE MStep(mm, Run(mm, SubSeq(h, 1, Len(h) - 1)), h[Len(h)])
HistoryFree == m = CaseMode \/ st = Run(m, hist)
\* number of fail actions of the k-th block of a history
RECURSIVE FailsOfBlocks(_, _, _)
FailsOfBlocks(h, cur, acc) ==
  IF h = <<>> THEN acc
  ELSE LET a == Head(h) IN
       IF a.a = "enter" THEN FailsOfBlocks(Tail(h), 0, acc)
       ELSE IF a.a = "fail" THEN FailsOfBlocks(Tail(h), cur + 1, acc)
       ELSE FailsOfBlocks(Tail(h), 0, Append(acc, cur))
FcLaws ==
  (m # CaseMode /\ m.name = "fc") =>
    LET f == FailsOfBlocks(hist, 0, <<>>) IN
    /\ Len(f) = Len(st.blocks)
    /\ \A i \in 1..Len(f) :
         LET b == st.blocks[i] IN
         /\ b.num_failed = f[i]                                      \* counts do not leak between blocks
         /\ (f[i] = 0 <=> b.sum.stdout = <<>>)                       \* reports IFF at least one failure
         /\ (f[i] > 0 => b.sum.stdout[Len(b.sum.stdout)] = <<"failed", f[i]>> /\ b.sum.stdout[1] = <<"name", 0>>)
PbLaws ==
  (m # CaseMode /\ m.name = "pb") =>
    /\ st.ok                                                        \* the implementation's writes are allowed by the documentation
    /\ st.pb.idx >= 0
    \* "Done" is written exactly once, at the first update that reaches the end
    /\ Cardinality({i \in 1..Len(st.writes) : st.writes[i] = PbDone}) = (IF st.pb.done THEN 1 ELSE 0)
    /\ (st.pb.done <=> \E i \in 1..Len(hist) : Run(m, SubSeq(hist, 1, i)).pb.idx >= Prod(m.njobs))
    \* the bar never shows more than 30 marks and the percentage stays below 100 before the end
    /\ \A i \in 1..Len(st.writes) : st.writes[i][1] = "bar" => st.writes[i][2] \in 0..29 /\ st.writes[i][3] \in 0..1000
HistLaws == HistoryFree /\ FcLaws /\ PbLaws
=============================================================================

---------------------------- MODULE CallbackMachine ----------------------------
(***************************************************************************)
(* Layer B (extension beyond the listed properties; serves the C11 clause   *)
(* "callbacks observe exactly one iterate per iteration"): the solver       *)
(* callback objects of odl/solvers/util/callback.py as a state machine.     *)
(*                                                                         *)
(* A callback expression is a tree: leaves "store"/"apply"/"printiter" with *)
(* a step parameter, combined with & (call all, in order) and * (compose    *)
(* with an operator applied to the iterate first; the operator is x -> 10x).*)
(* State: for every leaf (addressed by its index in a pre-order traversal)  *)
(* the counter `it` and the log of what it has observed.  Actions: Call(v)  *)
(* feeds iterate v to the root, Reset resets the root.                      *)
(*                                                                         *)
(* Reference (from the documentation): a leaf with step s observes exactly  *)
(* the iterates number 0, s, 2s, ... since the last reset (the print        *)
(* callback observes the iteration NUMBER); & preserves the order of its    *)
(* operands; reset clears everything.                                       *)
(***************************************************************************)
EXTENDS Integers, Sequences, TLC

CONSTANTS Shapes,     \* set of callback expressions (records, see MC module)
          Values,     \* iterates fed to the callback
          MaxLen

VARIABLES shape, it, log, hist
cvars == <<shape, it, log, hist>>

\* pre-order leaf list of an expression: sequence of [kind, step, scale] (scale = product of composed operators)
RECURSIVE Leaves(_, _)
Leaves(e, scale) ==
  IF e.k = "and" THEN Leaves(e.l, scale) \o Leaves(e.r, scale)
  ELSE IF e.k = "compose" THEN Leaves(e.l, scale * 10)
  ELSE << [kind |-> e.k, step |-> e.step, scale |-> scale] >>

NL == Len(Leaves(shape, 1))

Init == /\ shape \in Shapes
        /\ it = [i \in 1..Len(Leaves(shape, 1)) |-> 0]
        /\ log = [i \in 1..Len(Leaves(shape, 1)) |-> <<>>]
        /\ hist = <<>>

Observed(leaf, counter, v) == IF leaf.kind = "printiter" THEN counter ELSE v * leaf.scale

Call(v) ==
  /\ Len(hist) < MaxLen
  /\ LET L == Leaves(shape, 1) IN
       /\ log' = [i \in 1..Len(L) |-> IF it[i] % L[i].step = 0 THEN Append(log[i], Observed(L[i], it[i], v)) ELSE log[i]]
       /\ it' = [i \in 1..Len(L) |-> it[i] + 1]
  /\ hist' = Append(hist, [a |-> "call", v |-> v])
  /\ UNCHANGED shape

Reset ==
  /\ Len(hist) < MaxLen
  /\ it' = [i \in 1..NL |-> 0]
  /\ log' = [i \in 1..NL |-> <<>>]
  /\ hist' = Append(hist, [a |-> "reset", v |-> 0])
  /\ UNCHANGED shape

Next == (\E v \in Values : Call(v)) \/ Reset
Spec == Init /\ [][Next]_cvars

(* --------- properties of the reference, checked by TLC --------- *)
\* calls since the last reset, as a sequence of values
RECURSIVE SinceReset(_)
SinceReset(h) == IF h = <<>> THEN <<>>
                 ELSE IF h[Len(h)].a = "reset" THEN <<>>
                 ELSE Append(SinceReset(SubSeq(h, 1, Len(h) - 1)), h[Len(h)].v)
\* every leaf has seen exactly the iterates 0, s, 2s, ... since the last reset, in order: one observation per selected iteration
OnePerSelectedIteration ==
  LET L == Leaves(shape, 1) S == SinceReset(hist) IN
    \A i \in 1..Len(L) :
       /\ it[i] = Len(S)
       /\ Len(log[i]) = (IF Len(S) = 0 THEN 0 ELSE ((Len(S) - 1) \div L[i].step) + 1)
       /\ \A j \in 1..Len(log[i]) : log[i][j] = Observed(L[i], (j - 1) * L[i].step, S[(j - 1) * L[i].step + 1])
\* with step 1 a store callback holds exactly one entry per iteration (the C11 clause)
StepOneStoresEveryIterate ==
  LET L == Leaves(shape, 1) S == SinceReset(hist) IN
    \A i \in 1..Len(L) : (L[i].kind = "store" /\ L[i].step = 1) => log[i] = [j \in 1..Len(S) |-> S[j] * L[i].scale]
=============================================================================

------------------------- MODULE SpaceChainMachine -------------------------
(***************************************************************************)
(* Layer B / C for property C20: derived spaces as HISTORIES.               *)
(*                                                                         *)
(* A chain is a sequence of at most MaxLen derived-space operations          *)
(*     astype(t) | real_space | complex_space | byaxis(idx)                 *)
(* applied to ONE start space.  The machine state is the object graph the   *)
(* code builds while the chain runs: every TensorSpace object carries the   *)
(* cache slots of odl/space/base_tensors.py (TensorSpace.__init__ / astype):*)
(*     rdt, cdt   __real_dtype, __complex_dtype  (TYPE_MAP_C2R / _R2C)       *)
(*     rs, cs     __real_space, __complex_space  (object numbers, 0 = None)  *)
(* `cur` is the object the chain has reached (0 after an exception), `ids`  *)
(* the objects reached after each step (the identity pattern), `exp` what   *)
(* layer A expects: derived spaces are FUNCTIONS of the space they are taken *)
(* from (no history), so the expectation is the fold of SetSem's views:      *)
(* "equal spaces have equal counterparts".                                   *)
(*                                                                         *)
(* TLC enumerates all chains, checks the model of the code against layer A  *)
(* (ChainRefines) and exports every chain for replay on real spaces.        *)
(***************************************************************************)
EXTENDS DerivedSpaceImpl

CONSTANTS Starts,     \* sequence of start descriptors (tensor / discretised spaces, no array weighting)
          MaxLen

ChainDts == {"f16", "f32", "f64", "c64", "c128", "i64"}
\* layer C: TYPE_MAP_C2R / TYPE_MAP_R2C as the code builds them (integers have no complex counterpart: None)
CRealDt(dt) == ARealDt(dt)
CCplxDt(dt) == ACplxDt(dt)

OpsOf(v, cls) ==
       {COp("astype", t, <<>>) : t \in ChainDts}
  \cup {COp("real_space", "", <<>>), COp("complex_space", "", <<>>)}
  \cup (IF cls = "Tensor" /\ Len(v.shape) = 2 THEN {COp("byaxis", "", <<1>>), COp("byaxis", "", <<2, 1>>)} ELSE {})

(* ------------------------------- layer C -------------------------------- *)
\* TensorSpace.__init__: a real space is its own real space, a complex space its own complex space
NewObj(v, self) ==
  IF IsCplx(v.dt) THEN [v |-> v, rdt |-> CRealDt(v.dt), cdt |-> v.dt, rs |-> 0, cs |-> self]
  ELSE [v |-> v, rdt |-> v.dt, cdt |-> CCplxDt(v.dt), rs |-> self, cs |-> 0]
\* _astype: the weighting is passed on for floating target dtypes only
CView(v, t) == IF FloatingX(t) THEN AView(v, t) ELSE [AView(v, t) EXCEPT !.w = DefaultW]

VARIABLES si,      \* number of the start descriptor
          objs,    \* the object graph
          cur,     \* current object (0: the last step raised)
          ids,     \* objects reached after each step
          path,    \* the operations so far
          exp      \* layer-A expectation
cvars == <<si, objs, cur, ids, path, exp>>

StartCls == Starts[si].cls
ChainInit ==
  /\ si \in 1..Len(Starts)
  /\ objs = <<NewObj(View(Starts[si]), 1)>>
  /\ cur = 1 /\ ids = <<>> /\ path = <<>>
  /\ exp = [k |-> "ok", view |-> View(Starts[si]), wclaim |-> TRUE]

\* astype(t) on object c (TensorSpace.astype as written)
Astype(c, t) ==
  LET o == objs[c]  n == Len(objs) + 1 IN
  IF t = "none" THEN /\ cur' = 0 /\ objs' = objs                      \* astype(None): ValueError
  ELSE IF t = o.v.dt THEN /\ cur' = c /\ objs' = objs                 \* dtype == self.dtype: return self
  ELSE IF t = o.rdt THEN                                              \* cached real version
       (IF o.rs # 0 THEN /\ cur' = o.rs /\ objs' = objs
        ELSE /\ cur' = n /\ objs' = Append([objs EXCEPT ![c].rs = n], NewObj(CView(o.v, t), n)))
  ELSE IF t = o.cdt THEN                                              \* cached complex version
       (IF o.cs # 0 THEN /\ cur' = o.cs /\ objs' = objs
        ELSE /\ cur' = n /\ objs' = Append([objs EXCEPT ![c].cs = n], NewObj(CView(o.v, t), n)))
  ELSE /\ cur' = n /\ objs' = Append(objs, NewObj(CView(o.v, t), n))  \* anything else: a fresh space, not cached

Step(o) ==
  /\ cur # 0 /\ Len(path) < MaxLen
  /\ CASE o.op = "astype" -> Astype(cur, o.dt)
       [] o.op = "real_space" -> Astype(cur, objs[cur].rdt)
       [] o.op = "complex_space" -> Astype(cur, objs[cur].cdt)
       [] o.op = "byaxis" ->      \* a fresh space of the selected axes (constant / custom weighting kept)
            LET v == objs[cur].v  n == Len(objs) + 1 IN
            /\ cur' = n
            /\ objs' = Append(objs, NewObj([v EXCEPT !.shape = [k \in 1..Len(o.idx) |-> v.shape[o.idx[k]]]], n))
  /\ ids' = Append(ids, cur')
  /\ path' = Append(path, o)
  /\ exp' = AStep(exp, o)
  /\ UNCHANGED si

ChainNext == cur # 0 /\ \E o \in OpsOf(objs[cur].v, StartCls) : Step(o)
ChainSpec == ChainInit /\ [][ChainNext]_cvars

(* ------------------------------ properties ------------------------------ *)
ModelK == IF cur = 0 THEN "raise" ELSE "ok"
ModelView == IF cur = 0 THEN NoView ELSE objs[cur].v
\* the model of the code reaches what layer A expects, whatever the history in the caches
ChainRefines ==
  exp.k = "ok" => /\ cur # 0
                  /\ ViewDiff(objs[cur].v, exp.view, exp.wclaim) = {}
\* cached counterparts are consistent: a cache slot points to a space of the cached dtype
CachesConsistent ==
  \A c \in 1..Len(objs) : /\ (objs[c].rs # 0 => objs[objs[c].rs].v.dt = objs[c].rdt)
                          /\ (objs[c].cs # 0 => objs[objs[c].cs].v.dt = objs[c].cdt)
\* deliberately false (non-vacuity): the chain never returns to an earlier object
BogusNeverSameObject == \A a \in 1..Len(ids), b \in 1..Len(ids) : a # b => ids[a] # ids[b]
=============================================================================

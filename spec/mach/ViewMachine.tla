---------------------------- MODULE ViewMachine ----------------------------
(***************************************************************************)
(* Layer B (extension EXT/views): histories of public calls on a heap of    *)
(* tensors / discretised elements / product-space elements / ndarrays.     *)
(*                                                                         *)
(* State: st = [bufs, objs] of ViewSem; hist = the calls made so far, each   *)
(* with what a run on real objects must observe after it (the value of     *)
(* EVERY live object, which leaves share memory, what the call returned).  *)
(* Alph(level, st) is the action alphabet of the bounded instance (MC       *)
(* module); an action is taken only where ViewSem!Legal allows it.          *)
(*                                                                         *)
(* Laws (checked by TLC on every transition / state):                       *)
(*   Frame        a call changes only the component-cells it documents      *)
(*   ObjFrame     an object that shares no memory with what was written     *)
(*                keeps every value                                        *)
(*   ViewLaw      a documented view equals the selection of its source at   *)
(*                ALL later times (write-through in both directions)        *)
(*   DocTable     what a call hands out agrees with the documentation       *)
(*                table: views live inside their source's memory, copies    *)
(*                share with nothing that existed, "unspec" changes nothing *)
(*   ReadBack     after x[idx] = v the selection reads v (from the pre-state)*)
(*   Stable       objects never change what they see; buffers keep size    *)
(*   ReturnsOut   calls with out= return that very object                  *)
(***************************************************************************)
EXTENDS ViewSem

CONSTANTS InitSt, MaxLen, MaxObj, Alph(_, _)

VARIABLES st, hist
vars == <<st, hist>>

Init == st = InitSt /\ hist = <<>>

Do(A) == LET r == Step(st, A) IN
           /\ Len(r.st.objs) <= MaxObj
           /\ st' = r.st
           /\ hist' = Append(hist, [act |-> A, obs |-> Obs(r.st, r.ret)])

Next == /\ Len(hist) < MaxLen
        /\ \E A \in Alph(Len(hist) + 1, st) : Legal(st, A) /\ Do(A)

Spec == Init /\ [][Next]_vars

(* ------------------------------- laws ---------------------------------- *)
Last(h) == h[Len(h)]

Frame ==
  [][LET A == Last(hist').act
         W == WriteSet(st, A)
     IN  \A b \in 1..Len(st.bufs) : \A c \in 1..Len(st.bufs[b].v) :
           /\ (<<b, c, "re">> \notin W => st'.bufs[b].v[c][1] = st.bufs[b].v[c][1])
           /\ (<<b, c, "im">> \notin W => st'.bufs[b].v[c][2] = st.bufs[b].v[c][2])]_vars

ObjFrame ==
  [][LET W == WriteSet(st, Last(hist').act) IN
       \A o \in 1..Len(st.objs) : Foot(st.objs, o) \cap W = {} => Val(st', o) = Val(st, o)]_vars

Stable ==
  [][/\ Len(st'.objs) >= Len(st.objs) /\ Len(st'.bufs) >= Len(st.bufs)
     /\ \A o \in 1..Len(st.objs) : st'.objs[o] = st.objs[o]
     /\ \A b \in 1..Len(st.bufs) : Len(st'.bufs[b].v) = Len(st.bufs[b].v)]_vars

\* a documented view reads the selection of its source, whatever happened since it was made
ViewLaw ==
  \A o \in 1..Len(st.objs) :
    LET p == st.objs[o] IN
      (p.k = "leaf" /\ p.src # 0) =>
        LET s == st.objs[p.src]
            vs == Val(st, p.src)
        IN  Val(st, o) = [k \in 1..Len(p.cells) |-> GetC(IF s.comp = p.comp THEN "full" ELSE p.comp, vs[p.spos[k]])]

DocTable ==
  [][LET A == Last(hist').act
         r == Last(hist').obs.ret
         d == DocShare(st, A)
         old == UNION {Foot(st.objs, o) : o \in 1..Len(st.objs)}
     IN  CASE d = "view" -> /\ r.k = "new" /\ r.o = Len(st'.objs) /\ Len(st'.objs) = Len(st.objs) + 1
                            /\ Foot(st'.objs, r.o) \subseteq
                                 (IF A.op = "pelement" THEN UNION {Foot(st.objs, A.ps[t]) : t \in 1..Len(A.ps)}
                                  ELSE Foot(st.objs, DocSource(st, A)))
                            /\ st'.bufs = st.bufs
            [] d = "copy" -> /\ r.k = "new" /\ r.o = Len(st'.objs)
                             /\ Foot(st'.objs, r.o) \cap old = {}
                             /\ Val(st', r.o) =
                                  (IF A.op = "getitem"
                                     THEN LET t == DocSource(st, A)
                                              ix == IF st.objs[A.x].k = "leaf" THEN A.idx ELSE Descend(st.objs, A.x, A.idx).idx
                                              S == Sel(st.objs[t].shp, ix)
                                              v == Val(st, t)
                                          IN [k \in 1..Len(S.pos) |-> v[S.pos[k]]]
                                     ELSE IF A.op = "sample" THEN [k \in 1..OSize(st.objs, A.x) |-> A.v.c]
                                     ELSE Val(st, A.x))
                             /\ \A b \in 1..Len(st.bufs) : st'.bufs[b] = st.bufs[b]
            [] d = "unspec" -> r.k = "val" /\ st' = st
            [] OTHER -> Len(st'.objs) = Len(st.objs)]_vars

ReadBack ==
  [][LET A == Last(hist').act IN
       (A.op = "setitem" /\ st.objs[A.x].k = "leaf") =>
          LET t == st.objs[A.x]
              S == Sel(t.shp, A.idx)
              w == AssignVals(st, A.v, Len(S.pos), S.shp)
              v == Val(st', A.x)
          IN  \A k \in 1..Len(S.pos) : v[S.pos[k]] = w[k]]_vars

ReturnsOut ==
  [][LET A == Last(hist').act r == Last(hist').obs.ret IN
       /\ (A.op \in {"asarray_out", "conj_out"} => r = RSame(A.y))
       /\ (A.op \in {"lincomb", "ibin"} => r = RSame(A.x))]_vars

\* deliberately false (self-test: the law runs are not vacuous)
BogusFrame == [][\A o \in 1..Len(st.objs) : Val(st', o) = Val(st, o)]_vars
=============================================================================

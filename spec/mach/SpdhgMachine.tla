---------------------------- MODULE SpdhgMachine ----------------------------
(***************************************************************************)
(* Layer B (EXT/spdhg): the solver calls of odl/contrib/solvers/spdhg as a  *)
(* state machine over the layer-A steps (SpdhgSem).                        *)
(*                                                                         *)
(* A CASE is a documented call: a saddle problem P, step sizes, theta,      *)
(* extra / prob, start point (x0, y0) - the caller passes y and z = A^* y0. *)
(* State = the algorithm registers r = [x, y, z, zr], the current step      *)
(* sizes st = [tau, sigma, sigt], the history of actions, and (pdhg only)   *)
(* the registers d of the direct dual-extrapolated Chambolle-Pock form.     *)
(* Actions:                                                                *)
(*   Start         choose a case and an algorithm                          *)
(*   Select(S)     one iteration with fun_select(k) = S, for EVERY subset   *)
(*                 S of the blocks (serial, full, empty, arbitrary); the    *)
(*                 callback observes (x, y) - and z through the caller's    *)
(*                 object - after it                                       *)
(*   Resume        the call returns and a new call is made with the         *)
(*                 documented state arguments y, z passed back (x is in-    *)
(*                 out): zr is NOT a documented argument - the new call     *)
(*                 starts from zr = z                                      *)
(* Laws (invariants / action properties, checked by TLC):                   *)
(*   ZInv          z = sum_i A_i^* y_i after every step ("z = A^* y")      *)
(*   Frame         blocks not selected keep y_i; S = {} keeps y, z, zr = z  *)
(*   PdhgDirectOK  pdhg = [CP2011a] Alg. 1 with dual extrapolation written  *)
(*                 on (x, y, ybar): x, y agree and zr = A^* ybar            *)
(*   SaddleFixed   a saddle point (optimality conditions) with zr = z is a  *)
(*                 fixed point under every selection                       *)
(*   StepProducts  pa_: tau_k sigma_i,k constant; da_: tau_k sigt_k constant*)
(*   ResumeFrame   Resume changes nothing but zr := z (so n + m iterations  *)
(*                 = n, return, m iterations whenever zr = z at the split,  *)
(*                 always for spdhg_pesquet)                               *)
(***************************************************************************)
EXTENDS SpdhgSem, TLC

CONSTANTS Cases,      \* sequence of case records (see MC_Spdhg)
          MaxLen,     \* bound on the history
          MaxAccel    \* bound on the history of the accelerated variants (theta rational only for the first step)

VARIABLES cid, alg, r, st, hist, d
vars == <<cid, alg, r, st, hist, d>>

C == Cases[cid]
P == C.P
All == Blocks(P)

Algs == {"generic", "spdhg", "pesquet", "pa", "da", "pdhg"}
InvP(c)  == [i \in 1..Len(c.prob) |-> QInv(c.prob[i])]
ExtraOf(a, c) == IF a = "generic" THEN c.extra ELSE IF a = "pdhg" THEN <<QOne>> ELSE InvP(c)

Reg0(c) == LET z0 == AdjAll(c.P, c.y0) IN [x |-> c.x0, y |-> c.y0, z |-> z0, zr |-> z0]

Init == /\ cid \in 1..Len(Cases)
        /\ alg \in Cases[cid].algs
        /\ r = Reg0(Cases[cid])
        /\ st = [tau |-> Cases[cid].tau, sigma |-> Cases[cid].sigma, sigt |-> Cases[cid].sigt]
        /\ hist = <<>>
        /\ d = [x |-> Cases[cid].x0, y |-> Cases[cid].y0[1], yb |-> Cases[cid].y0[1]]

\* the value of theta used in the next iteration (Irr: not rational - the exact machine stops there)
ThetaNow == CASE alg = "pa" -> PaTheta(C.mug, st.tau)
              [] alg = "da" -> DaTheta(st.sigt)
              [] OTHER -> C.theta
SigmaNow == IF alg = "da" THEN [i \in 1..NB(P) |-> DaSigma(st.sigt, C.mu[i], C.prob[i])] ELSE st.sigma

StepReg(S) == IF alg = "pesquet" THEN PesquetStep(P, r, S, st.tau, st.sigma)
              ELSE SpdhgStep(P, r, S, st.tau, SigmaNow, ThetaNow, ExtraOf(alg, C))
StepSizes == CASE ThetaNow = Irr -> st          \* the exact machine stops after this step (zr is not rational)
               [] alg = "pa" -> [tau |-> QMul(st.tau, ThetaNow),
                                 sigma |-> [i \in 1..NB(P) |-> QDiv(st.sigma[i], ThetaNow)], sigt |-> st.sigt]
               [] alg = "da" -> [tau |-> QDiv(st.tau, ThetaNow), sigma |-> SigmaNow, sigt |-> QMul(st.sigt, ThetaNow)]
               [] OTHER -> st

Bound == IF alg \in {"pa", "da"} THEN MaxAccel ELSE MaxLen

Select(S) ==
  /\ Len(hist) < Bound
  /\ r.zr # Irr
  /\ alg = "pdhg" => S = {1}
  /\ r' = StepReg(S)
  /\ st' = StepSizes
  /\ hist' = Append(hist, [a |-> "sel", S |-> S])
  /\ d' = IF alg = "pdhg" THEN PdhgDirect(P, d, st.tau, st.sigma[1], C.theta) ELSE d
  /\ UNCHANGED <<cid, alg>>

Resume ==
  /\ alg \in {"generic", "spdhg", "pesquet", "pdhg"}
  /\ hist # <<>> /\ hist[Len(hist)].a = "sel"
  /\ Len(hist) < Bound - 1
  /\ r' = [r EXCEPT !.zr = r.z]
  /\ hist' = Append(hist, [a |-> "resume", S |-> {}])
  /\ d' = [d EXCEPT !.yb = d.y]
  /\ UNCHANGED <<cid, alg, st>>

Next == (\E S \in SUBSET All : Select(S)) \/ Resume
Spec == Init /\ [][Next]_vars

\* ---------------------------------------------------------------- laws
ZInv == r.z = AdjAll(P, r.y)
PdhgDirectOK == alg = "pdhg" => /\ r.x = d.x /\ r.y[1] = d.y /\ r.zr = Adj(P, 1, d.yb)
PesquetNoRelax == alg = "pesquet" => r.zr = r.z
StepProducts ==
  /\ alg = "pa" => \A i \in All : QMul(st.tau, st.sigma[i]) = QMul(C.tau, C.sigma[i])
  /\ alg = "da" => QMul(st.tau, st.sigt) = QMul(C.tau, C.sigt)
\* a case flagged as starting in a saddle point really does, and then nothing ever moves
SaddleCasesOK == C.saddle => /\ IsSaddle(P, C.x0, C.y0)
                             /\ r.x = C.x0 /\ r.y = C.y0 /\ r.zr = r.z
TypeOK == /\ Len(r.x) = P.n /\ Len(r.z) = P.n /\ (r.zr # Irr => Len(r.zr) = P.n) /\ Len(r.y) = NB(P)

LastIsSel == hist' # hist /\ hist'[Len(hist')].a = "sel"
LastS     == hist'[Len(hist')].S
Frame == [][LastIsSel => /\ \A i \in All \ LastS : r'.y[i] = r.y[i]
                         /\ (LastS = {} => r'.y = r.y /\ r'.z = r.z /\ r'.zr = r.z)]_vars
SaddleFixed == [][(LastIsSel /\ IsSaddle(P, r.x, r.y) /\ r.zr = r.z)
                    => (r'.x = r.x /\ r'.y = r.y /\ r'.z = r.z /\ r'.zr = r.z)]_vars
ResumeFrame == [][(hist' # hist /\ hist'[Len(hist')].a = "resume")
                    => (r'.x = r.x /\ r'.y = r.y /\ r'.z = r.z /\ r'.zr = r.z /\ st' = st)]_vars
\* the selection is a SET: the result does not depend on anything but which blocks are in it (full sampling of a
\* one-block problem is the deterministic algorithm): spdhg with one block and p = 1 takes exactly pdhg's step
OneBlockIsPdhg == (NB(P) = 1 /\ alg \in {"generic", "spdhg"} /\ ExtraOf(alg, C) = <<QOne>>)
                    => \A S \in {{1}} : SpdhgStep(P, r, S, st.tau, st.sigma, C.theta, <<QOne>>) = StepReg(S)
=============================================================================

---------------------------- MODULE OpUtilMachine ----------------------------
(***************************************************************************)
(* Layer B: case machine over OpUtilSem.                                    *)
(*                                                                         *)
(* A state is one CASE of a public call of the operator utilities           *)
(*   part = "expr"   : matrix_representation(op) / as_scipy_operator(op)    *)
(*                     for an operator expression `e`                       *)
(*   part = "pm"     : power_method_opnorm(op, xstart=x0, maxiter=k * c)    *)
(*                     the machine ITERATES the power method on the exact   *)
(*                     (unnormalised, gcd-reduced) iterate: one action =    *)
(*                     one iteration = one callback; the estimate of every  *)
(*                     reached state is exact (its square / fourth power is *)
(*                     rational)                                            *)
(*   part = "pmarg"  : the documented argument errors of power_method_opnorm*)
(*   part = "nd"     : NumericalGradient / NumericalDerivative              *)
(*   part = "uf"     : ufunc operators / functionals                        *)
(* The invariants and action properties are the laws the documentation      *)
(* implies; the bounded instances and the export are in MC_OpUtil.          *)
(***************************************************************************)
EXTENDS OpUtilSem

CONSTANTS Cases,      \* the catalogue of the run (records of ONE part)
          MaxK        \* iterations of the power method that are explored

VARIABLES c,          \* the case
          k,          \* power method: iterations done
          x,          \* power method: current exact iterate (direction only), <<>> otherwise
          est         \* power method: exact (estimate)^p of the last iteration, p = 2 (plain) / 4 (normal)
vars == <<c, k, x, est>>

IsPM(cc) == cc.part = "pm"

Init == /\ c \in Cases
        /\ k = 0
        /\ x = (IF IsPM(c) THEN c.x0 ELSE <<>>)
        /\ est = QZero

Iterate ==
  /\ IsPM(c) /\ k < Min2(MaxK, c.kmax)
  /\ NormSqW(x, c.wd) # QZero
  /\ LET y == PMIter(c.M, c.wd, c.wr, c.normal, x)
     IN /\ est' = PMEstPow(c.wd, x, y)
        /\ x' = Reduce(y)
  /\ k' = k + 1
  /\ UNCHANGED c

Next == Iterate
Spec == Init /\ [][Next]_vars

(* ------------------------------ laws ------------------------------------ *)
\* expr: the documented use of the representation reproduces the operator: tensordot(T, x, axes=dom.ndim) = op(x)
ProbeOf(n) == [i \in 1..n |-> <<QI(i), QI((i % 2) * (3 - i))>>]
MatRepReproducesOp ==
  (c.part = "expr" /\ MatRepOutcome(c.e) # "raises") =>
     LET e == c.e  T == MatRepFlat(e) \o <<>>  xx == ProbeOf(SizeOf(ODom(e)))
     IN TensorDot(T, ShapeOf(ORan(e)), ShapeOf(ODom(e)), xx) = OApply(e, xx)
\* expr: the reference adjoint really is the adjoint: <A x, y>_ran = <x, N y>_dom
AdjointIsAdjoint ==
  (c.part = "expr" /\ OLinear(c.e)) =>
     LET e == c.e  M == FlatMat(e) \o <<>>  wd == FlatW(ODom(e))  wr == FlatW(ORan(e))
         N == AdjOf(M, wd, wr) \o <<>>
         xx == ProbeOf(Len(wd))  yy == ProbeOf(Len(wr))
     IN WInnerF(MatVecC(M, xx), yy, wr) = WInnerF(xx, MatVecC(N, yy), wd)
\* expr: shapes are consistent
MatRepShapeConsistent ==
  c.part = "expr" => Prod(MatRepShape(c.e)) = SizeOf(ORan(c.e)) * SizeOf(ODom(c.e)) \/ MatRepOutcome(c.e) = "raises"

\* pm: the estimates of the iteration on a self-adjoint operator (plain) or on A*A (normal) never decrease ...
PMMonotone == [][(IsPM(c) /\ k >= 1) => QLe(est, est')]_vars
\* ... and never exceed the operator norm (nsq = ||A||^2 where the catalogue declares it; <<0,0>> = undeclared)
PMBounded ==
  (IsPM(c) /\ k >= 1 /\ c.nsq # NaN) => QLe(est, IF c.normal THEN QMul(c.nsq, c.nsq) ELSE c.nsq)
\* the declared norm is an upper bound of |A x|^2 / |x|^2 on a probe lattice and is attained at the declared vector
PMNormDeclared ==
  (IsPM(c) /\ c.nsq # NaN) =>
     /\ \A a \in -2..2, b \in -2..2 :
          LET xx == [i \in 1..Len(c.wd) |-> CInt(IF i = 1 THEN a ELSE IF i = 2 THEN b ELSE a - b)]
          IN QLe(NormSqW(MatVecC(c.M, xx), c.wr), QMul(c.nsq, NormSqW(xx, c.wd)))
     /\ NormSqW(MatVecC(c.M, c.top), c.wr) = QMul(c.nsq, NormSqW(c.top, c.wd))
\* a plain iteration is only declared for operators that are self-adjoint w.r.t. the weighted inner product
PMPlainOnlySelfAdjoint ==
  (IsPM(c) /\ ~c.normal) => (c.wd = c.wr /\ AdjOf(c.M, c.wd, c.wr) = c.M)

\* nd: the difference formulas are exact on polynomials of the right degree and differ by the documented
\* truncation term otherwise
NDTrue(cc) == IF cc.kind = "grad" THEN [i \in 1..Len(cc.x) |-> CScal(QInv(cc.w), PolyFnPartial(cc.fam, cc.c, cc.b, cc.x, i))]
              ELSE PolyOpDeriv(cc.fam, cc.c, cc.b, cc.x, cc.dx)
NDVal(cc) == IF cc.kind = "grad" THEN NumGradW(cc.method, cc.h, cc.w, cc.fam, cc.c, cc.b, cc.x)
             ELSE NumDeriv(cc.method, cc.h, cc.nd, cc.fam, cc.c, cc.b, cc.x, cc.dx)
NDDeg(cc) == IF cc.kind = "grad" THEN PolyFnDeg(cc.fam) ELSE PolyOpDeg(cc.fam)
NDExactOnLowDegree ==
  (c.part = "nd" /\ (NDDeg(c) <= 1 \/ (NDDeg(c) <= 2 /\ c.method = "central"))) => NDVal(c) = NDTrue(c)
\* forward and backward differences of the same step average to the central difference of the doubled step
NDForwardBackwardCentral ==
  c.part = "nd" =>
     LET f == NDVal([c EXCEPT !.method = "forward"])  b == NDVal([c EXCEPT !.method = "backward"])
         ce == NDVal([c EXCEPT !.method = "central", !.h = QMul(QI(2), c.h)])
     IN VAdd(f, b) = VScal(CInt(2), ce)

\* uf: exact ufuncs are consistent with each other
UfLaws ==
  c.part = "uf" =>
     /\ (c.name = "square" => \A i \in 1..Len(c.x) : Uf1("square", c.x[i]) = Uf2("multiply", c.x[i], c.x[i]))
     /\ (c.name = "subtract" => \A i \in 1..Len(c.x) : Uf2("subtract", c.x[i], c.y[i]) = Uf2("add", c.x[i], Uf1("negative", c.y[i])))
     /\ (c.name \in {"floor", "ceil", "trunc"} =>
           \A i \in 1..Len(c.x) : QLe(Uf1("floor", c.x[i])[1], c.x[i][1]) /\ QLe(c.x[i][1], Uf1("ceil", c.x[i])[1])
                                   /\ QLe(QAbs(Uf1("trunc", c.x[i])[1]), QAbs(c.x[i][1])))
     /\ (c.name \in UfDerivExact =>
           \* the exact multiplier is the limit of exact central difference quotients: check the polynomial ones
           (c.name = "square" => \A i \in 1..Len(c.x) :
               CSub(Uf1("square", CAdd(c.x[i], COne)), Uf1("square", CSub(c.x[i], COne)))
                 = CMul(CInt(2), UfDerivMul("square", c.x[i]))))
=============================================================================

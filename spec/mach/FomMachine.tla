----------------------------- MODULE FomMachine -----------------------------
(***************************************************************************)
(* Layer B (extension EXT/fom): case machine  option record x data class.  *)
(* One state per case [fn, cs, shape, f, g, m, norm, flb, x] of the        *)
(* bounded instance; the invariants are the laws the docstrings state or   *)
(* that follow from the documented formulas:                               *)
(*   LawOptimum      FOM(x, x) = documented optimum (0; psnr +inf; ssim 1) *)
(*   LawRange        normalized variants lie in [0, 1] (ssim in [-1, 1])   *)
(*   LawSymmetric    the formulas symmetric in (f, g) are symmetric        *)
(*   LawMaskOnes     mask of ones = no mask                                *)
(*   LawMasked       FOM with mask m = FOM of the masked images (norm      *)
(*                   FOMs: f*m, g*m on the WHOLE space; rd: restriction)   *)
(*   LawFlb          force_lower_is_better: no-op for the five norm FOMs,  *)
(*                   psnr negated (R -> 1/R), ssim negated; normalized +   *)
(*                   flb = 1 - normalized ssim, still in [0, 1]            *)
(*   LawCellVolume   mse / mae / mvd / normalized sdd do not depend on the *)
(*                   cell volume, unnormalised sdd scales with sqrt(cv)    *)
(*   LawPsnrZ        use_zscore: invariant under gt -> 3 + 4 gt            *)
(*   LawDocExamples  the literal docstring examples                        *)
(*   Refines         layer C (FomImpl) refines layer A                     *)
(***************************************************************************)
EXTENDS FomImpl

CONSTANTS Cases
VARIABLES case
vars == <<case>>

Init == case \in Cases
Next == FALSE /\ UNCHANGED case
Spec == Init /\ [][Next]_vars

NormFoms == {"mse", "mae", "mvd", "sdd", "rd"}
With(c, fld, v) == [c EXCEPT ![fld] = v]
Def(al) == ~IsAny(al) /\ ~IsIrr(al)
TheVal(al) == (CHOOSE o \in al : TRUE).v
IsOnes(m) == m # <<>> /\ \A i \in 1..Len(m) : m[i] = QOne

LawOptimum ==
  LET c == With(case, "g", case.f)  al == Allowed(c) IN
  CASE case.fn \in NormFoms -> Def(al) => al = {Val(QZero)}
    [] case.fn = "blur" -> Def(al) => Val(QZero) \in al /\ \A o \in al : o = Val(QZero)
    [] case.fn = "psnr" -> Def(al) => al = {Val(IF case.flb = 1 THEN QZero ELSE Inf)}
    [] case.fn = "ssim1" -> Def(al) => al = {Val(SsimFlip(QOne, case.norm, case.flb))}
    [] OTHER -> TRUE
LawRange ==
  LET al == Allowed(case) IN
  CASE case.fn \in NormFoms \cup {"blur"} ->
         Def(al) => \A o \in al : QLe(QZero, o.v) /\ (case.norm = 1 /\ case.fn # "blur" => QLe(o.v, QOne))
    [] case.fn = "ssim1" ->
         Def(al) => LET v == TheVal(al) IN
                    IF case.norm = 1 THEN QLe(QZero, v) /\ QLe(v, QOne) ELSE QLe(QI(-1), v) /\ QLe(v, QOne)
    [] OTHER -> TRUE
LawSymmetric ==
  case.fn \in NormFoms \cup {"blur"} =>
    Allowed(case) = Allowed([case EXCEPT !.f = case.g, !.g = case.f])
LawMaskOnes ==
  (case.fn \in NormFoms \cup {"blur"} /\ IsOnes(case.m)) => Allowed(case) = Allowed(With(case, "m", <<>>))
LawMasked ==
  (case.fn \in NormFoms /\ case.m # <<>>) =>
    IF case.fn = "rd"
      THEN ((Roi(case.f, case.m) # <<>> /\ Def(Allowed(case))) =>
              Allowed(case) = Allowed([case EXCEPT !.f = Roi(case.f, case.m), !.g = Roi(case.g, case.m), !.m = <<>>]))
    ELSE Allowed(case) = Allowed([case EXCEPT !.f = VMul(case.f, case.m), !.g = VMul(case.g, case.m), !.m = <<>>])
LawFlb ==
  LET a0 == Allowed(With(case, "flb", 0))  a1 == Allowed(With(case, "flb", 1)) IN
  CASE case.fn \in NormFoms \cup {"blur"} -> a0 = a1
    [] case.fn = "psnr" -> (Def(a0) /\ Def(a1)) => TheVal(a1) = QInvX(TheVal(a0))
    [] case.fn = "ssim1" ->
         (Def(a0) /\ Def(a1)) =>
           IF case.norm = 1 THEN TheVal(a1) = QSub(QOne, TheVal(a0)) ELSE TheVal(a1) = QNeg(TheVal(a0))
    [] OTHER -> TRUE
Four == <<4, 1>>
LawCellVolume ==
  case.fn \in {"mse", "mae", "mvd", "sdd"} =>
    LET c4 == With(case, "cs", [a \in 1..Len(case.cs) |-> IF a = 1 THEN QMul(case.cs[a], Four) ELSE case.cs[a]])
        a1 == Allowed(case)  a4 == Allowed(c4) IN
    IF case.fn = "sdd" /\ case.norm = 0
      THEN (Def(a1) /\ Def(a4)) => TheVal(a4) = QMul(QI(2), TheVal(a1))
    ELSE (Def(a1) /\ Def(a4)) => a1 = a4
Affine(g) == [i \in 1..Len(g) |-> QAdd(QI(3), QMul(QI(4), g[i]))]
LawPsnrZ ==
  (case.fn = "psnr" /\ case.norm = 1) => Allowed(case) = Allowed(With(case, "g", Affine(case.g)))
LawDocExamples(dummy) ==
  LET I(s) == [i \in 1..Len(s) |-> QI(s[i])] IN
  /\ PSNR(QOne, I(<<1, 1, 1, 1, 1>>), I(<<1, 1, 1, 1, 2>>), 0, 0) = {Val(QI(20))}      \* 13.010 dB = 10 log10(20)
  /\ PSNR(QOne, I(<<1, 1, 1, 1, 2>>), I(<<1, 1, 1, 1, 2>>), 0, 0) = {Val(Inf)}
  /\ ZSCORE(I(<<1, 0>>)) = {Arr(I(<<1, -1>>))}
  /\ ZSCORE(I(<<1, 1>>)) = {Arr(I(<<0, 0>>))}
  /\ FSM(<<<<1, 5>>>>, <<5>>, I(<<0, 0, 1, 0, 0>>), 0)
       = {Arr(<<QSq(<<2, 5>>), QSq(<<1, 5>>), QZero, QSq(<<1, 5>>), QSq(<<2, 5>>)>>)}
DocExamples == LawDocExamples(0)
LawZscore ==
  case.fn = "zscore" =>
    LET al == Allowed(case) IN
    Def(al) => LET z == TheVal(al) IN
               /\ QIsZero(PlainMean(z))
               /\ PlainVar(z) = (IF QIsZero(PlainVar(case.f)) THEN QZero ELSE QOne)
Laws == /\ LawOptimum /\ LawRange /\ LawSymmetric /\ LawMaskOnes /\ LawMasked /\ LawFlb /\ LawCellVolume
        /\ LawPsnrZ /\ LawZscore
RefinesC == Refines(case)
RefinesBlurStrictC == RefinesBlurStrict(case)
\* deliberately false reading (the normalisation volume is the ROI): must be refuted
BogusMaskVolume ==
  (case.fn = "mse" /\ case.norm = 0 /\ case.m # <<>> /\ Roi(case.f, case.m) # <<>>) =>
    Allowed(case) = Allowed([case EXCEPT !.f = Roi(case.f, case.m), !.g = Roi(case.g, case.m), !.m = <<>>,
                                         !.shape = <<Len(Roi(case.f, case.m))>>, !.cs = <<CellVol(case.cs)>>])
=============================================================================

--------------------------- MODULE IterMiscMachine ---------------------------
(***************************************************************************)
(* Layer B (extension stage "itermisc"): one solver run as a history        *)
(* machine over the catalogue `Cat` of instances.                          *)
(*                                                                         *)
(* instance record (uniform fields; unused ones are <<>> / 0 / QOne):      *)
(*   kind  "cg" | "gn" | "os" | "dca" | "pdca" | "zseq" | "lw" | "kz"      *)
(*   lw: L, b, om = <<omega>>, proj ; kz: As, gs (operators / right-hand   *)
(*       sides per block), om = one omega per block                         *)
(*   L     cg: the operator matrix A ; gn: L of F(x) = L x^pw + M x        *)
(*   M     gn: linear part (<<>> none)        pw : 1 | 2                   *)
(*   b     right-hand side (cg, gn)           w  : weights of <.,.>_w (cg) *)
(*   As, gs  os: operator matrices / data per subset                       *)
(*   sens  os: <<>> = default, else one vector per subset                  *)
(*   ac    factor of the adjoint  A* = ac A^T  (gn, os)                    *)
(*   ts    gn: the zero sequence values t_1, t_2, ...                      *)
(*   f, g  dca / pdca functionals (SolverSem records)  gam : step (pdca),  *)
(*         base (zseq)                                                     *)
(*   x0    start                              n  : iterations explored     *)
(* state   hist = <<s_0, s_1, ...>>, s = [x, r, p, done]: x the iterate    *)
(*         (zseq: <<value yielded>>), r / p the CG residual / direction    *)
(*         (zseq: r = counters of the two generators), done = terminated   *)
(* action  Iterate(c): one documented iteration (zseq: next() on generator *)
(*         c); the public call with niter = k is the k-fold composition.   *)
(***************************************************************************)
EXTENDS IterMiscSem

CONSTANTS Cat
VARIABLES i, hist
mvars == <<i, hist>>

Inst == Cat[i]
Last == hist[Len(hist)]
K == Len(hist) - 1

St(x) == [x |-> x, r |-> <<>>, p |-> <<>>, done |-> FALSE]
Start(I) ==
  CASE I.kind = "cg" -> CGStart(I.L, I.b, I.x0)
    [] I.kind = "zseq" -> [x |-> <<>>, r |-> <<0, 0>>, p |-> <<>>, done |-> FALSE]
    [] OTHER -> St(I.x0)

Choices(I) == IF I.kind = "zseq" THEN {1, 2} ELSE {1}
StepOf(I, h, c) ==
  LET s == h[Len(h)] IN
  CASE I.kind = "cg"   -> CGNext(I.L, I.w, s)
    [] I.kind = "gn"   -> St(GNStep(I, I.x0, s.x, I.ts[Len(h)]))
    [] I.kind = "os"   -> St(OSFrom(I, s.x, 1))
    [] I.kind = "dca"  -> St(DCAStep(I.f, I.g, s.x))
    [] I.kind = "pdca" -> St(PDCAStep(I.f, I.g, I.gam, s.x))
    [] I.kind = "lw"   -> St(LWStep(I, s.x))
    [] I.kind = "kz"   -> St(KZFrom(I, s.x, 1))
    [] I.kind = "zseq" -> [s EXCEPT !.x = <<ExpZero(I.gam, s.r[c])>>, !.r = [s.r EXCEPT ![c] = @ + 1], !.p = Append(s.p, c)]

Init == /\ i \in 1..Len(Cat) /\ hist = <<Start(Cat[i])>>
Iterate(c) == /\ K < Inst.n /\ hist' = Append(hist, StepOf(Inst, hist, c)) /\ UNCHANGED i
Next == \E c \in Choices(Inst) : Iterate(c)
Spec == Init /\ [][Next]_mvars

(* ------------------------------- laws ------------------------------------ *)
Dim(I) == Len(I.x0)

\* CG: the catalogue operators are self-adjoint in <.,.>_w; residuals are mutually orthogonal, directions A-conjugate
\* (both in the space's inner product), the iterate is the exact solution after at most dim steps, and with unit
\* weights the iteration is the one of SolverSem (C12 checks its monotonicity only).
Live(j) == ~hist[j].done
CGOrth ==
  Inst.kind = "cg" =>
    \A a \in 1..Len(hist), c \in 1..Len(hist) :
       (a < c /\ Live(a) /\ Live(c)) =>
          /\ SIsZero(WDot(Inst.w, hist[a].r, hist[c].r))
          /\ SIsZero(WDot(Inst.w, hist[a].p, MatVec(Inst.L, hist[c].p)))
CGExact ==
  (Inst.kind = "cg" /\ K >= Dim(Inst)) => Last.done /\ Last.x = Solve(Inst.L, Inst.b)
CGSelfAdjoint == Inst.kind = "cg" => SelfAdjointW(Inst.L, Inst.w)
CGIsTextbook ==
  (Inst.kind = "cg" /\ K >= 1 /\ Inst.w = ROne(Dim(Inst)) /\ ~hist[K].done) =>
     LET s == hist[K] t == CGStep([Ls |-> <<Inst.L>>, b |-> <<Inst.b>>], [x |-> s.x, r |-> s.r, p |-> s.p])
     IN  t.x = Last.x /\ t.r = Last.r /\ t.p = Last.p
CGIterAgrees == Inst.kind = "cg" => Last = CGIter(Inst.L, Inst.w, Inst.b, Inst.x0, K)
CGTakenBound == Inst.kind = "cg" => CGTaken(Inst.L, Inst.w, Inst.b, Inst.x0, K) <= Min2(K, Dim(Inst))

\* zero sequence: closed form = recurrence, positive and strictly decreasing (base > 1), generators are independent
ZSeqLaw ==
  (Inst.kind = "zseq" /\ K >= 1) =>
     LET c == Last.p[K] m == Last.r[c] - 1 t == Last.x[1] IN
     /\ t = ExpZero(Inst.gam, m)
     /\ SPos(t)
     /\ (m >= 1 => t = SDiv(ExpZero(Inst.gam, m - 1), Inst.gam) /\ SLt(t, ExpZero(Inst.gam, m - 1)))
     /\ (m = 0 => t = SInv(Inst.gam))
     /\ Last.r[3 - c] = hist[K].r[3 - c]

\* Gauss-Newton: on an affine operator the step does not depend on the current iterate; a start value that solves the
\* equation is a fixed point; the machine agrees with the closed recursion
GNAffine ==
  (Inst.kind = "gn" /\ Inst.pw = 1 /\ Inst.M = <<>> /\ K >= 1) =>
     LET A == Inst.L  Aa == MatScal(Inst.ac, MatT(A))
     IN  Last.x = RAdd(Inst.x0, Solve(MatAddDiag(MatMul(Aa, A), Inst.ts[K]), MatVec(Aa, RSub(Inst.b, MatVec(A, Inst.x0)))))
GNFixed == (Inst.kind = "gn" /\ GNF(Inst, Inst.x0) = Inst.b) => Last.x = Inst.x0
GNIterAgrees == Inst.kind = "gn" => Last.x = GNIter(Inst, Inst.x0, K)
\* the regularised normal equation is really solved (Cramer is exact)
GNSolves ==
  (Inst.kind = "gn" /\ K >= 1) =>
     LET x == hist[K].x  J == GNJ(Inst, x)  Ja == MatScal(Inst.ac, MatT(J))
         N == MatAddDiag(MatMul(Ja, J), Inst.ts[K])
         u == MatVec(Ja, RSub(RSub(Inst.b, GNF(Inst, x)), MatVec(J, RSub(Inst.x0, x))))
     IN  MatVec(N, RSub(Last.x, Inst.x0)) = u

\* MLEM / OSMLEM: positivity is invariant, data-consistent points are fixed (default sensitivities), one subset with
\* the default sensitivities is the MLEM step of SolverSem, the sweep is the composition of the partial updates in order
OSPositive == Inst.kind = "os" => RPos(Last.x)
OSDefinedAll == Inst.kind = "os" => OSDefined(Inst, Last.x)
OSFixed ==
  (Inst.kind = "os" /\ Inst.sens = <<>> /\ K >= 1
     /\ \A q \in 1..Len(Inst.As) : MatVec(Inst.As[q], hist[1].x) = Inst.gs[q]) => Last.x = hist[1].x
OSOneIsMLEM ==
  (Inst.kind = "os" /\ Len(Inst.As) = 1 /\ Inst.sens = <<>> /\ K >= 1) =>
     Last.x = MLEMStep([Ls |-> <<Inst.As[1]>>, b |-> <<Inst.gs[1]>>], [x |-> hist[K].x]).x
OSOrder ==
  (Inst.kind = "os" /\ K >= 1) =>
     LET ps == OSPartials(Inst, hist[K].x, 1) IN Len(ps) = Len(Inst.As) /\ ps[Len(ps)] = Last.x
\* given sensitivities equal to the default ones change nothing
OSSensDefault ==
  (Inst.kind = "os" /\ K >= 1) =>
     LET D == [Inst EXCEPT !.sens = <<>>]
         G == [Inst EXCEPT !.sens = [q \in 1..Len(Inst.As) |-> OSSens(D, q)]]
     IN  OSFrom(D, hist[K].x, 1) = OSFrom(G, hist[K].x, 1)

\* classical MLEM identity (one subset, default sensitivities):  <A* 1, x_new> = <1, g>_ran  - the total number of
\* counts is reproduced after every step.  With A* = ac A^T:  sum_j ac (A^T 1)_j x_j = ac sum_i g_i.
OSCounts ==
  (Inst.kind = "os" /\ Len(Inst.As) = 1 /\ Inst.sens = <<>> /\ K >= 1) =>
     RDot(OSSens(Inst, 1), Last.x) = SMul(Inst.ac, SSum(Inst.gs[1]))
\* scaling the given sensitivities by c scales every (single-subset) MLEM step by 1/c
OSSensScale ==
  (Inst.kind = "os" /\ Len(Inst.As) = 1 /\ Inst.sens # <<>> /\ K >= 1) =>
     LET H == [Inst EXCEPT !.sens = << RScal(<<2, 1>>, Inst.sens[1]) >>]
     IN  RScal(<<2, 1>>, OSFrom(H, hist[K].x, 1)) = OSFrom(Inst, hist[K].x, 1)

\* d.c. algorithms: f - g does not increase
DCMonotone ==
  (Inst.kind \in {"dca", "pdca"} /\ K >= 1) => SLe(DCObj(Inst.f, Inst.g, Last.x), DCObj(Inst.f, Inst.g, hist[K].x))
\* dca: the new point x+ satisfies  grad g(x) \in df(x+)  (definition of x+ \in df*(y)); prox_dca: optimality of the prox
DCAOptimal ==
  (Inst.kind = "dca" /\ K >= 1) => InSubdiff(Inst.f, Last.x, Grad(Inst.g, hist[K].x))
PDCAOptimal ==
  (Inst.kind = "pdca" /\ K >= 1) =>
     LET z == RAdd(hist[K].x, RScal(Inst.gam, Grad(Inst.g, hist[K].x)))
     IN  InSubdiff(Inst.f, Last.x, RScal(SInv(Inst.gam), RSub(z, Last.x)))

\* landweber with a projection: every iterate is feasible, a feasible solution is a fixed point, without projection
\* (and ac = 1) the step is SolverSem's; kaczmarz: one block = landweber ("coincides with the Landweber method for a
\* single operator"), blocks in order, with ac = 1 the sweep is SolverSem's
LWFeasible == (Inst.kind = "lw" /\ K >= 1) => InProj(Inst.proj, Last.x)
LWFixed == (Inst.kind = "lw" /\ MatVec(Inst.L, Inst.x0) = Inst.b /\ InProj(Inst.proj, Inst.x0)) => Last.x = Inst.x0
LWIsSolverSem ==
  (Inst.kind = "lw" /\ Inst.proj = "none" /\ Inst.ac = QOne /\ K >= 1) =>
     Last.x = LandweberStep([Ls |-> <<Inst.L>>, b |-> <<Inst.b>>, tau |-> Inst.om[1], pw |-> 1], [x |-> hist[K].x]).x
KZOneIsLW ==
  (Inst.kind = "kz" /\ Len(Inst.As) = 1 /\ K >= 1) =>
     Last.x = LWStep([Inst EXCEPT !.L = Inst.As[1], !.b = Inst.gs[1], !.proj = "none"], hist[K].x)
KZIsSolverSem ==
  (Inst.kind = "kz" /\ Inst.ac = QOne /\ K >= 1) =>
     Last.x = KaczmarzStep([Ls |-> Inst.As, b |-> Inst.gs, sig |-> Inst.om, pw |-> 1], [x |-> hist[K].x]).x
KZOrder ==
  (Inst.kind = "kz" /\ K >= 1) =>
     LET ps == KZPartials(Inst, hist[K].x, 1) IN Len(ps) = Len(Inst.As) /\ ps[Len(ps)] = Last.x

\* NOT laws (non-vacuity probes: TLC must refute them)
BogusCGOneStep == (Inst.kind = "cg" /\ K >= 1) => Last.done
BogusOSOrderFree ==
  (Inst.kind = "os" /\ Len(Inst.As) = 2 /\ K >= 1) =>
     Last.x = OSFrom([Inst EXCEPT !.As = <<Inst.As[2], Inst.As[1]>>, !.gs = <<Inst.gs[2], Inst.gs[1]>>,
                                  !.sens = IF Inst.sens = <<>> THEN <<>> ELSE <<Inst.sens[2], Inst.sens[1]>>], hist[K].x, 1)
BogusLWProjIdle == (Inst.kind = "lw" /\ K >= 1) => Last.x = LWStep([Inst EXCEPT !.proj = "none"], hist[K].x)
BogusDCStrict == (Inst.kind \in {"dca", "pdca"} /\ K >= 1) => Last.x # hist[K].x
=============================================================================

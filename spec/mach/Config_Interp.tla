---------------------------- MODULE Config_Interp ----------------------------
(***************************************************************************)
(* Layer B (C15), ConfigMachine pattern.  A configuration (grid, data or   *)
(* function, per-axis schemes, ...) is chosen in Init, every query is one  *)
(* action and is stored with the answer of the reference semantics         *)
(* (InterpSem).  Invariants: the laws of C15 and agreement of the          *)
(* implementation-shaped model (InterpImpl) wherever the reference is      *)
(* defined.  One state = one replayable case.                              *)
(*   Mode "sample"   cfg = [cvs, poly, pname]                               *)
(*   Mode "interp"   cfg = [cvs, f, fname, poly, schemes, pts]  q = point   *)
(*   Mode "resample" cfg = [src, tgt, cvs, tcvs, f, fname, schemes]         *)
(*   Mode "deform"   cfg = [src, cvs, f, fname, schemes, disp, dname]       *)
(***************************************************************************)
EXTENDS InterpImpl, TLC

CONSTANTS Mode, Cfgs
VARIABLES ph, cfg, q
vars == <<ph, cfg, q>>
NoQ == [kind |-> "none"]

RECURSIVE TupleSeqs(_)
TupleSeqs(seqs) ==
  IF seqs = <<>> THEN {<<>>}
  ELSE {<<Head(seqs)[i]>> \o t : i \in 1..Len(Head(seqs)), t \in TupleSeqs(Tail(seqs))}

AllNearest(s) == \A k \in 1..Len(s) : s[k] = "nearest"
AllLinear(s)  == \A k \in 1..Len(s) : s[k] = "linear"

QSample == [kind |-> "sample", ans |-> Sample(cfg.poly, cfg.cvs)]
QPoint(x) == [kind |-> "interp", x |-> x,
              defined |-> Defined(cfg.cvs, cfg.schemes, x), inhull |-> InHull(cfg.cvs, x),
              ans |-> IF Defined(cfg.cvs, cfg.schemes, x) THEN PerAxis(cfg.f, cfg.cvs, cfg.schemes, x) ELSE CNaN,
              nidx |-> NearestMulti(cfg.cvs, x), nans |-> Nearest(cfg.f, cfg.cvs, x)]
QResample == [kind |-> "resample",
              ans |-> [t \in 1..GSize(cfg.tcvs) |-> PerAxis(cfg.f, cfg.cvs, cfg.schemes, NodeOf(cfg.tcvs, t - 1))]]
Shifted(t) == LET x == NodeOf(cfg.cvs, t - 1) IN [k \in 1..Len(cfg.cvs) |-> QAdd(x[k], cfg.disp[k][t])]
QDeform == [kind |-> "deform", pts |-> [t \in 1..GSize(cfg.cvs) |-> Shifted(t)],
            ans |-> [t \in 1..GSize(cfg.cvs) |-> PerAxis(cfg.f, cfg.cvs, cfg.schemes, Shifted(t))]]

Init == ph = "cfg" /\ q = NoQ /\ cfg \in Cfgs
Next == /\ ph = "cfg" /\ ph' = "query" /\ UNCHANGED cfg
        /\ CASE Mode = "sample"   -> q' = QSample
             [] Mode = "interp"   -> \E x \in TupleSeqs(cfg.pts) : q' = QPoint(x)
             [] Mode = "resample" -> q' = QResample
             [] Mode = "deform"   -> q' = QDeform
Spec == Init /\ [][Next]_vars

(* ------------------------- invariants ------------------------------------- *)
UnusedAxes(poly, d) == {k \in 1..d : \A m \in 1..Len(poly) : poly[m].e[k] = 0}
SampleLaws ==
  LET shape == GShape(cfg.cvs)  d == Len(cfg.cvs)
  IN  /\ Len(q.ans) = GSize(cfg.cvs)
      /\ \A t \in 1..GSize(cfg.cvs) : q.ans[t] = EvalPoly(cfg.poly, NodeOf(cfg.cvs, t - 1))
      \* a function of some coordinates only is constant along the others (broadcasting)
      /\ \A k \in UnusedAxes(cfg.poly, d) : \A t \in 1..GSize(cfg.cvs) :
            q.ans[t] = q.ans[t - MultiOf(shape, t - 1)[k] * Stride(shape, k)]
CfgLaws ==
  (ph = "cfg" /\ Mode # "sample") =>
     /\ LawNodes(cfg.f, cfg.cvs, cfg.schemes)
     /\ \A k \in 1..Len(cfg.cvs) : LawZeroExt(cfg.cvs[k])
PointLaws ==
  LET x == q.x
  IN  /\ RefinesPerAxis(cfg.f, cfg.cvs, cfg.schemes, x)
      /\ RefinesNearest(cfg.f, cfg.cvs, x)
      /\ LawWeights(cfg.cvs, cfg.schemes, x)
      /\ \A k \in 1..Len(cfg.cvs) : LawNearest(cfg.cvs[k], x[k])
      /\ LawPerAxisNearest(cfg.f, cfg.cvs, x)
      /\ (AllNearest(cfg.schemes) => q.ans = q.nans)
      \* interpolation commutes with an affine change of coordinates (grid and point moved and scaled together): the
      \* harness uses this to replay every case far from the origin with fine cells (coordinates float32 cannot hold)
      /\ ((Len(cfg.cvs) = 1 /\ Defined(cfg.cvs, cfg.schemes, x)) =>
             LET A(v) == QAdd(<<3, 1>>, QMul(<<1, 2>>, v))
             IN  PerAxis(cfg.f, [k \in 1..Len(cfg.cvs) |-> [i \in 1..Len(cfg.cvs[k]) |-> A(cfg.cvs[k][i])]], cfg.schemes,
                         [k \in 1..Len(x) |-> A(x[k])]) = q.ans)
      /\ ((cfg.fname = "affine" /\ AllLinear(cfg.schemes)) => LawAffine(cfg.poly, cfg.cvs, x))
ResampleLaws ==
  /\ \A t \in 1..GSize(cfg.tcvs) : RefinesPerAxis(cfg.f, cfg.cvs, cfg.schemes, NodeOf(cfg.tcvs, t - 1))
  /\ \A t \in 1..GSize(cfg.tcvs) : Defined(cfg.cvs, cfg.schemes, NodeOf(cfg.tcvs, t - 1))
  /\ (cfg.tcvs = cfg.cvs => q.ans = cfg.f)                      \* resampling onto the same grid is the identity
DeformLaws ==
  /\ \A t \in 1..GSize(cfg.cvs) : Defined(cfg.cvs, cfg.schemes, q.pts[t])
  /\ \A t \in 1..GSize(cfg.cvs) : RefinesPerAxis(cfg.f, cfg.cvs, cfg.schemes, q.pts[t])
  /\ (cfg.dname = "zero" => q.ans = cfg.f)                      \* zero displacement leaves the template unchanged
  \* linear interpolation of an affine template is exact wherever the displaced point stays inside the hull
  /\ ((cfg.fname = "affine" /\ AllLinear(cfg.schemes)) =>
        \A t \in 1..GSize(cfg.cvs) : InHull(cfg.cvs, q.pts[t]) => q.ans[t] = EvalPoly(cfg.poly, q.pts[t]))
  \* a shift by exactly one cell makes nearest-neighbour interpolation return the neighbouring node value (edge node at the edge)
  /\ ((cfg.dname \in {"minus", "plus"} /\ AllNearest(cfg.schemes)) =>
        \A t \in 1..GSize(cfg.cvs) : \E u \in 1..GSize(cfg.cvs) : q.ans[t] = cfg.f[u])
QueryLaws ==
  ph = "query" =>
    CASE q.kind = "sample"   -> SampleLaws
      [] q.kind = "interp"   -> PointLaws
      [] q.kind = "resample" -> ResampleLaws
      [] q.kind = "deform"   -> DeformLaws
      [] OTHER -> FALSE
=============================================================================

--------------------------- MODULE DetectorMachine ---------------------------
(***************************************************************************)
(* Layer B (EXT/detector): a detector object under a HISTORY of public     *)
(* calls.  A detector is immutable by its documentation ("Fixed axis along *)
(* which this detector is aligned", "Fixed array of unit vectors ...",     *)
(* surface_deriv of the flat classes "is a constant function evaluating to *)
(* axis / axes everywhere"): no action changes `det`, so every query       *)
(* answers like the history-free reference DetectorSem!Expected            *)
(*   Construct(d)   the constructor with the axes as given                 *)
(*   Query(q)       surface / surface_deriv / surface_normal /             *)
(*                  surface_measure in one parameter form                  *)
(*   MutAxis        the caller overwrites the array it passed as axis/axes *)
(*   MutRet         the caller overwrites the array the last query returned*)
(* Every reachable state is exported (history + documented outcome of the  *)
(* last action) and replayed on ONE real object.                           *)
(***************************************************************************)
EXTENDS DetectorSem
CONSTANTS Dets, MaxLen, QueriesOf(_)
VARIABLES det, hist, res
vars == <<det, hist, res>>
NoDet == [cls |-> "none"]

Init == det = NoDet /\ hist = <<>> /\ res = [k |-> "none"]
Construct(d) ==
  /\ hist = <<>>
  /\ hist' = << [a |-> "ctor", d |-> d] >>
  /\ det' = IF AxesOK(d) THEN d ELSE NoDet
  /\ res' = [k |-> IF AxesOK(d) THEN "ok" ELSE "err"]
Query(q) ==
  /\ det # NoDet /\ Len(hist) < MaxLen
  /\ hist' = Append(hist, [a |-> "query", q |-> q])
  /\ res' = Expected(det, q)
  /\ UNCHANGED det
Mutate(what) ==
  /\ det # NoDet /\ Len(hist) < MaxLen - 1          \* a mutation is only observable by a later query
  /\ what = "mutret" => (hist[Len(hist)].a = "query" /\ res.k = "ok")
  /\ hist[Len(hist)].a # what
  /\ hist' = Append(hist, [a |-> what])
  /\ res' = [k |-> "none"]
  /\ UNCHANGED det                                   \* the documented effect on the detector: none
Next == \/ \E d \in Dets : Construct(d)
        \/ \E q \in QueriesOf(det) : Query(q)
        \/ \E w \in {"mutaxis", "mutret"} : Mutate(w)
Spec == Init /\ [][Next]_vars

\* the laws of the history: answers do not depend on what happened before
HistoryFree ==
  (hist # <<>> /\ hist[Len(hist)].a = "query") => res = Expected(hist[1].d, hist[Len(hist)].q)
Repeatable ==
  \A i, j \in 1..Len(hist) :
    (i < j /\ hist[i].a = "query" /\ hist[j].a = "query" /\ hist[i].q = hist[j].q /\ j = Len(hist))
      => res = Expected(hist[1].d, hist[i].q)
DetFixed == [][det = NoDet \/ det' = det]_vars
=============================================================================

---------------------------- MODULE UfuncMachine ----------------------------
(***************************************************************************)
(* Layer B for C17 (ConfigMachine pattern): a ufunc call configuration     *)
(*                                                                         *)
(*   [kind, method, ucls, shapes, axis, keepdims, outkind, outdt, order,   *)
(*    dtkw, idx]                                                           *)
(*                                                                         *)
(* is chosen from the complete cross product of                            *)
(*   element kind  x  method  x  nin/nout class  x  shape  x  axis subset  *)
(*   x  keepdims  x  out kind  x  operand order  x  dtype keyword          *)
(* restricted to the combinations NumPy itself accepts.  The invariants    *)
(* say that the protocol rules of UfuncSem are total and consistent with   *)
(* the value semantics; every configuration is exported for replay.        *)
(***************************************************************************)
EXTENDS UfuncSem

CONSTANTS Shapes,        \* operand shapes
          OuterPairs,    \* pairs of shapes for ufunc.outer
          KindsSel       \* element kinds enumerated by this run (export runs are split per kind)

VARIABLES cfg, ph
vars == <<cfg, ph>>

Kinds == {"tensor", "discr", "power"}
\* nin/nout classes: u1 unary, u2 unary with two outputs, b1 binary, b2 binary with two outputs
UClasses == {"u1", "u2", "b1", "b2"}
NIn(u)  == IF u \in {"u1", "u2"} THEN 1 ELSE 2
NOut(u) == IF u \in {"u1", "b1"} THEN 1 ELSE 2
\* out kinds: "element" of the operands' own kind; an element of the OTHER array-backed kind ("tensor" for
\* discretised operands, "discr" for tensor operands); a plain ndarray
OutKinds(kind) == CASE kind = "discr" -> {"none", "element", "tensor", "ndarray"}
                    [] kind = "tensor" -> {"none", "element", "discr", "ndarray"}
                    [] OTHER -> {"none", "element", "ndarray"}
\* dtype keyword: absent / the operand dtype / a narrower / a wider one; dtype of the out object relative to the
\* dtype the call would produce without out
DtKws == {"none", "same", "narrower", "wider"}
OutDts == {"same", "wider", "narrower"}
Orders(u) == IF NIn(u) = 1 THEN {"e"} ELSE {"ee", "ea", "ae"}

\* all axis arguments for a reduction over an nd-dimensional operand: keyword absent, None, every
\* non-empty subset given with non-negative numbers, single negative axes, one mixed-sign pair
Subsets(nd) == (SUBSET (0..(nd - 1))) \ {{}}
RECURSIVE SetToSeq(_)
SetToSeq(S) == IF S = {} THEN <<>> ELSE LET m == CHOOSE x \in S : \A y \in S : x <= y IN <<m>> \o SetToSeq(S \ {m})
ReduceAxes(nd) ==
  {AxisDefault, AxisNone}
  \cup { SetToSeq(S) : S \in Subsets(nd) }
  \cup { <<-k>> : k \in 1..nd }
  \cup (IF nd >= 2 THEN { <<0, -1>> } ELSE {})
SingleAxes(nd) == {AxisDefault} \cup { <<k>> : k \in 0..(nd - 1) } \cup { <<-1>> }

C0(kind, method, ucls, shapes) ==
  [kind |-> kind, method |-> method, ucls |-> ucls, shapes |-> shapes, axis |-> AxisDefault,
   keepdims |-> FALSE, outkind |-> "none", order |-> IF NIn(ucls) = 1 \/ method \notin {"call", "outer"} THEN "e" ELSE "ee",
   dtkw |-> "none", idx |-> <<>>, outdt |-> "same"]

Configs ==
  \* __call__
  { [C0(k, "call", u, IF NIn(u) = 1 THEN <<s>> ELSE <<s, s>>) EXCEPT !.outkind = o, !.order = r, !.dtkw = d] :
       k \in Kinds, u \in UClasses, s \in Shapes, o \in {"none", "element", "tensor", "discr", "ndarray"},
       r \in {"e", "ee", "ea", "ae"}, d \in {"none", "wider"} }
  \cup
  { [C0(k, "reduce", "b1", <<s>>) EXCEPT !.axis = a, !.keepdims = kd, !.outkind = o, !.dtkw = d] :
       k \in Kinds, s \in Shapes, a \in UNION { ReduceAxes(n) : n \in 1..3 }, kd \in BOOLEAN,
       o \in {"none", "element", "tensor", "discr", "ndarray"}, d \in {"none", "wider"} }
  \cup
  { [C0(k, "accumulate", "b1", <<s>>) EXCEPT !.axis = a, !.outkind = o, !.dtkw = d] :
       k \in Kinds, s \in Shapes, a \in UNION { SingleAxes(n) : n \in 1..3 },
       o \in {"none", "element", "tensor", "discr", "ndarray"}, d \in {"none", "wider"} }
  \cup
  { [C0(k, "outer", "b1", p) EXCEPT !.outkind = o, !.order = r] :
       k \in Kinds, p \in OuterPairs, o \in {"none", "element", "tensor", "discr", "ndarray"}, r \in {"ee", "ea", "ae"} }
  \cup
  \* the keyword options crossed with the out kinds and out dtypes (array-backed kinds, shape (2, 3))
  { [C0(k, "call", u, IF NIn(u) = 1 THEN <<<<2, 3>>>> ELSE <<<<2, 3>>, <<2, 3>>>>)
        EXCEPT !.outkind = o, !.outdt = od, !.order = r, !.dtkw = d] :
       k \in {"tensor", "discr"}, u \in UClasses, o \in {"none", "element", "tensor", "discr", "ndarray"},
       od \in OutDts, r \in {"e", "ee", "ea", "ae"}, d \in DtKws }
  \cup
  { [C0(k, "reduce", "b1", <<<<2, 3>>>>) EXCEPT !.axis = a, !.keepdims = kd, !.outkind = o, !.outdt = od, !.dtkw = d] :
       k \in {"tensor", "discr"}, a \in {AxisDefault, <<-1>>, AxisNone}, kd \in BOOLEAN,
       o \in {"none", "element", "tensor", "discr", "ndarray"}, od \in OutDts, d \in DtKws }
  \cup
  { [C0(k, "accumulate", "b1", <<<<2, 3>>>>) EXCEPT !.axis = a, !.outkind = o, !.outdt = od, !.dtkw = d] :
       k \in {"tensor", "discr"}, a \in {AxisDefault, <<1>>},
       o \in {"none", "element", "tensor", "discr", "ndarray"}, od \in OutDts, d \in DtKws }
  \cup
  { [C0(k, "outer", "b1", <<<<2, 3>>, <<2>>>>) EXCEPT !.outkind = o, !.outdt = od, !.order = r, !.dtkw = d] :
       k \in {"tensor", "discr"}, o \in {"none", "element", "tensor", "discr", "ndarray"}, od \in OutDts,
       r \in {"ee", "ea", "ae"}, d \in DtKws }
  \cup
  { [C0(k, "at", u, <<s>>) EXCEPT !.idx = <<0, -1, 0>>] : k \in Kinds, u \in {"u1", "b1"}, s \in Shapes }
  \cup
  { [C0(k, "reduceat", "b1", <<s>>) EXCEPT !.axis = a, !.outkind = o, !.idx = i] :
       k \in Kinds, s \in Shapes, a \in UNION { SingleAxes(n) : n \in 1..3 },
       o \in {"none", "element", "tensor", "discr", "ndarray"}, i \in { <<0, 1>>, <<1, 0>> } }

\* the combinations that are well-formed (NumPy accepts them on plain arrays)
Legal(c) ==
  LET nd == Len(c.shapes[1]) IN
  /\ c.outkind \in OutKinds(c.kind)
  /\ (c.outkind = "none" => c.outdt = "same")
  /\ c.order \in (IF c.method \in {"call", "outer"} THEN Orders(c.ucls) ELSE {"e"})
  /\ AxisValid(c.axis, nd)
  /\ (c.method = "reduce" => c.axis \in ReduceAxes(nd))
  /\ (c.method \in {"accumulate", "reduceat"} => c.axis \in SingleAxes(nd) /\ (c.axis # AxisDefault => NormAxis(c.axis[1], nd) < nd))
  /\ (c.method = "reduceat" => \A i \in 1..Len(c.idx) : c.idx[i] < c.shapes[1][AxisOf(c.axis, nd) + 1])
  /\ (c.kind = "power" => nd >= 2)            \* a power space X^n of tensor spaces has at least two axes

\* two phases so that TLC's workers share the enumeration: (kind, method) in Init, the rest in Choose
Init == ph = 0 /\ cfg \in [kind : KindsSel, method : Methods]
Choose == /\ ph = 0
          /\ cfg' \in { c \in Configs : Legal(c) /\ c.kind = cfg.kind /\ c.method = cfg.method }
          /\ ph' = 1
Next == Choose
Spec == Init /\ [][Next]_vars

(* ----------------------------- canonical operands ---------------------- *)
XArr(s) == [sh |-> s, v |-> [i \in 1..Prod(s) |-> CInt(((i * 5) % 7) - 3)]]
YArr(s) == [sh |-> s, v |-> [i \in 1..Prod(s) |-> CInt(((i * 3) % 5) - 2)]]
AtScalar == CInt(2)

(* ------------------------------ expectations --------------------------- *)
FullReduce(c) == c.method = "reduce" /\ AxesOf(c.axis, Len(c.shapes[1])) = 0..(Len(c.shapes[1]) - 1)
Mixed(c) == c.order \in {"ea", "ae"}
ExpShape(c) == ResShape(c.method, c.shapes, c.axis, c.keepdims, Len(c.idx))
ExpKind(c)  == ResKind(c.kind, c.method, c.outkind, c.keepdims, FullReduce(c), Mixed(c))

\* exact values for the canonical operands
ValNames(c) ==
  IF c.method = "call" THEN (IF c.ucls = "b1" THEN ExactBinary ELSE IF c.ucls = "u1" THEN ExactUnary ELSE {})
  ELSE IF c.method = "at" /\ c.ucls = "u1" THEN {"negative", "square"}
  ELSE {"add", "subtract", "multiply", "maximum", "minimum", "logical_and", "logical_or"}
ExpValue(c, name) ==
  ExactUfunc(name, [method |-> c.method, unary |-> NIn(c.ucls) = 1, x |-> XArr(c.shapes[1]),
                    y |-> YArr(IF Len(c.shapes) = 2 THEN c.shapes[2] ELSE c.shapes[1]),
                    axis |-> c.axis, keepdims |-> c.keepdims, idx |-> c.idx, b |-> AtScalar])

\* expected result dtype of the exact ufuncs per operand dtype: the dtype keyword is RelDT(dtkw, operand dtype),
\* the out object has dtype RelDT(outdt, dtype the call would produce without out); "n/a" = no such dtype
DTypes == {"int32", "int64", "float32", "float64", "complex64", "complex128"}
ExpDType(c, name, dt) ==
  LET dtk == RelDT(c.dtkw, dt)
      comp == IF dtk = "n/a" THEN "n/a" ELSE ResDType(name, c.method, dt, dtk)
      odt == IF c.outkind = "none" \/ c.method = "at" THEN "none" ELSE IF comp = "n/a" THEN "n/a" ELSE RelDT(c.outdt, comp)
  IN  IF "n/a" \in {dtk, comp, odt} THEN "n/a" ELSE ResDTypeOut(name, c.method, dt, dtk, odt)

(* ------------------------------- invariants ---------------------------- *)
IsShape(s) == \A i \in 1..Len(s) : s[i] >= 1
ResultKinds == {"tensor", "discr", "power", "ndarray", "scalar", "none", "refused", "any"}

\* the protocol rules are total
RulesTotal == ph = 1 =>
  /\ IsShape(ExpShape(cfg))
  /\ ExpKind(cfg) \in ResultKinds
  /\ (ExpKind(cfg) = "scalar" <=> (cfg.method = "reduce" /\ FullReduce(cfg) /\ ~cfg.keepdims /\ cfg.outkind = "none"
                                   /\ ~(cfg.kind = "discr" /\ cfg.keepdims)))
  /\ (cfg.method = "reduce" =>
        Len(ExpShape(cfg)) = (IF cfg.keepdims THEN Len(cfg.shapes[1])
                              ELSE Len(cfg.shapes[1]) - Cardinality(AxesOf(cfg.axis, Len(cfg.shapes[1])))))
  /\ (cfg.outkind # "none" /\ ExpKind(cfg) \notin {"refused", "none"} =>
        ExpKind(cfg) = (IF cfg.outkind = "element" THEN cfg.kind ELSE cfg.outkind))
  \* the dtype rule is total: a dtype of the ladder or "n/a"
  /\ \A name \in ValNames(cfg), dt \in DTypes : ExpDType(cfg, name, dt) \in DTypes \cup {"bool", "n/a"}

\* ... and consistent with the value semantics (one commutative-associative and one non-commutative ufunc)
\* (the value semantics and the method laws do not depend on the out / dtype options: evaluated once per
\*  shape / axis / method configuration)
PlainOptions == cfg.outkind = "none" /\ cfg.dtkw = "none" /\ cfg.outdt = "same"
RulesConsistent == (ph = 1 /\ PlainOptions) =>
  \A name \in (ValNames(cfg) \cap {"add", "subtract", "maximum", "negative", "less"}) :
    LET r == ExpValue(cfg, name) IN
    /\ r.sh = ExpShape(cfg)
    /\ Len(r.v) = Prod(ExpShape(cfg))
    /\ \A i \in 1..Len(r.v) : r.v[i][2] = QZero /\ r.v[i][1][2] = 1        \* integers stay integers

\* laws of the methods among each other (sanity of the reference)
MethodLaws == (ph = 1 /\ PlainOptions) =>
  LET x == XArr(cfg.shapes[1])
      nd == Len(cfg.shapes[1])
  IN
  /\ (cfg.method = "reduce" =>
        \A name \in {"add", "maximum"} :
           LET A == AxesOf(cfg.axis, nd)
               m == CHOOSE a \in A : \A b \in A : b <= a
               full == ExactReduce(name, x, cfg.axis, FALSE)
           IN  \* keepdims only reshapes
               /\ ExactReduce(name, x, cfg.axis, TRUE).v = full.v
               \* negative axes mean what their normal form means
               /\ ExactReduce(name, x, SetToSeq(A), FALSE) = full
               \* reducing over A = reducing over its largest axis, then over the rest
               /\ (Cardinality(A) >= 2 =>
                     ExactReduce(name, ExactReduce(name, x, <<m>>, FALSE), SetToSeq(A \ {m}), FALSE) = full))
  /\ (cfg.method = "accumulate" =>
        \A name \in {"add", "subtract"} :
           LET ax == AxisOf(cfg.axis, nd)
               acc == ExactAccumulate(name, x, cfg.axis)
               red == ExactReduce(name, x, <<ax>>, FALSE)
               rs == ReducedShape(x.sh, {ax}, FALSE)
           IN  \* the last slice of the running result is the reduction
               \A j \in 1..Prod(rs) :
                  LET c == Coords(j - 1, rs)
                      cfull == SubSeq(c, 1, ax) \o <<x.sh[ax + 1] - 1>> \o SubSeq(c, ax + 1, Len(c))
                  IN  acc.v[Flat(cfull, x.sh) + 1] = red.v[j])
  /\ (cfg.method = "reduceat" =>
        \* a single segment starting at 0 is the reduction with keepdims
        ExactReduceAt("add", x, <<0>>, cfg.axis).v = ExactReduce("add", x, <<AxisOf(cfg.axis, nd)>>, TRUE).v)
  /\ (cfg.method = "outer" =>
        LET y == YArr(cfg.shapes[2]) IN
        \* outer with the operands swapped is the transposed block of the commutative ufunc
        \A i \in 1..Len(x.v), j \in 1..Len(y.v) :
           ExactOuter("add", x, y).v[(i - 1) * Len(y.v) + j] = ExactOuter("add", y, x).v[(j - 1) * Len(x.v) + i])
  /\ (cfg.method = "at" =>
        \* applying at the same row twice is applying the function twice (unbuffered)
        ExactAt("add", x, <<0, 0>>, AtScalar, FALSE) = ExactAt("add", ExactAt("add", x, <<0>>, AtScalar, FALSE), <<0>>, AtScalar, FALSE))
=============================================================================

---------------------------- MODULE GeomSetMachine ----------------------------
(***************************************************************************)
(* Layer B (extension EXT/geomsets): chains of operations on interval      *)
(* products and rectilinear grids.                                         *)
(*                                                                         *)
(* State: the current object `cur` (a box or a grid), the initial object   *)
(* `init` and the chain `hist` of public API calls that produced `cur`     *)
(* from `init` - every derived object is exercised itself (insert ->       *)
(* squeeze -> getitem -> corners ..., box -> uniform grid -> convex hull   *)
(* -> box).  One action = one object-valued public call.  Queries are the  *)
(* calls asked of every reached object (Queries(cur): values, predicates   *)
(* with tolerances probed exactly at, inside and outside the tolerance,    *)
(* documented errors); their expected results are computed by layer A      *)
(* (GeomSetSem!Eval) and exported for replay on real ODL objects.          *)
(*                                                                         *)
(* The invariants are the algebraic laws the reference has to satisfy.     *)
(***************************************************************************)
EXTENDS GeomSetSem

CONSTANTS InitObjs,        \* set of initial objects
          MaxLen,          \* maximal chain length
          MaxDim,          \* maximal number of axes of a reached object
          FullDepth,       \* chains shorter than this are extended by the full derive alphabet, longer ones by the core
          InsBoxes,        \* sequence of boxes used as operands of insert / append
          InsGrids,        \* sequence of grids used as operands of insert / append
          FixedOthers      \* sequence of 1-d grids asked as `other` of every 1-d grid (is_subgrid corner cases)

VARIABLES init, hist, cur,
          exact            \* every object of the chain was computed WITHOUT rounding (see ExactStep): only then the float
                           \* coordinates of the real object are the rationals of `cur` and tolerances may be probed exactly
vars == <<init, hist, cur, exact>>

Eighth  == Q(1, 8)
Tols    == <<QZero, Eighth>>
\* an object all of whose coordinates are exactly representable floats: tolerances can be probed EXACTLY
Small(x)  == Abs(x[1]) <= 100000 /\ x[2] <= 1024
BoxExact(b)  == \A a \in 1..Len(b) : IsDyadic(b[a][1]) /\ IsDyadic(b[a][2])
GridExact(g) == \A a \in 1..Len(g) : \A i \in 1..Len(g[a]) : IsDyadic(g[a][i])
ObjExact(o)  == IF o.k = "box" THEN BoxExact(o.v) ELSE GridExact(o.v)
ObjSmall(o)  == IF o.k = "box" THEN \A a \in 1..Len(o.v) : Small(o.v[a][1]) /\ Small(o.v[a][2])
                ELSE \A a \in 1..Len(o.v) : \A i \in 1..Len(o.v[a]) : Small(o.v[a][i])
\* gaps probed outside a boundary: exactly on it / exactly the tolerance / beyond the tolerance by 1/16 for exact
\* objects; well inside the tolerance (1/16) / beyond it by 1/16 for the others
Gaps3(ex) == IF ex THEN <<QZero, Eighth, Q(3, 16)>> ELSE <<Q(1, 16), Q(3, 16)>>
Margin == Q(1, 64)
SeqSet(s) == {s[t] : t \in 1..Len(s)}
RECURSIVE SetToSeq(_)
SetToSeq(S) == IF S = {} THEN <<>> ELSE LET x == CHOOSE x \in S : TRUE IN <<x>> \o SetToSeq(S \ {x})
With(s, a, x) == Fz([s EXCEPT ![a] = x])

(* ------------------------- operands built from cur ---------------------- *)
PatAxis(a) == CASE a % 3 = 1 -> <<Q(-1, 1), Q(2, 1)>> [] a % 3 = 2 -> <<Q(1, 2), Q(3, 1)>> [] OTHER -> <<Q(-3, 1), Q(-1, 1)>>
PatBox(n, sh) == Fz([a \in 1..n |-> PatAxis(a + sh)])
PosBox(n) == Fz([a \in 1..n |-> IF a % 2 = 1 THEN <<Q(1, 2), Q(4, 1)>> ELSE <<Q(-4, 1), Q(-1, 4)>>])       \* no axis contains 0

\* points probing a box: the midpoint, and per axis a point off one boundary by each gap
SidePt(b, a, side, g) == With(BMid(b), a, IF side = 0 THEN QSub(b[a][1], g) ELSE QAdd(b[a][2], g))
BoxProbePts(b, ex, rich) ==
  LET G == Gaps3(ex)
  IN  <<BMid(b)>> \o
      Flatten([a \in 1..Len(b) |-> Flatten([j \in 1..Len(G) |->
         IF rich THEN <<SidePt(b, a, 0, G[j]), SidePt(b, a, 1, G[j])>> ELSE <<SidePt(b, a, (a + j) % 2, G[j])>>])])
\* a point that is off in every axis (3 below on odd axes, 4 above on even ones): exercises the norm of dist
FarPt(b) == Fz([a \in 1..Len(b) |-> IF a % 2 = 1 THEN QSub(b[a][1], QI(3)) ELSE QAdd(b[a][2], QI(4))])
InnerPt(b) == Fz([a \in 1..Len(b) |-> QAdd(b[a][1], QMul(Q(1, 4), QSub(b[a][2], b[a][1])))])
\* boxes probing a box: one end moved outwards by each gap; a shrunk copy
GrownBox(b, a, side, g) == With(b, a, IF side = 0 THEN <<QSub(b[a][1], g), b[a][2]>> ELSE <<b[a][1], QAdd(b[a][2], g)>>)
Shrunk(b) == Fz([a \in 1..Len(b) |-> LET e == QMul(Q(1, 4), QSub(b[a][2], b[a][1])) IN <<QAdd(b[a][1], e), QSub(b[a][2], e)>>])
BoxProbeBoxes(b, ex) ==
  LET G == Gaps3(ex)
  IN  <<b, Shrunk(b)>> \o Flatten([a \in 1..Len(b) |-> [j \in 1..Len(G) |-> GrownBox(b, a, (a + j) % 2, G[j])]])

\* decision margins for objects that are not exactly representable: the signed distance of every coordinate to the
\* set differs from the tolerance by more than Margin
SignedGap(ax, p) == QMax(QSub(ax[1], p), QSub(p, ax[2]))
SafeBoxPt(b, pt, t) == Len(pt) # Len(b) \/ \A a \in 1..Len(b) : QLe(Margin, QDist(SignedGap(b[a], pt[a]), t))
SafeGridPt(g, pt, t) == Len(pt) # Len(g) \/ \A a \in 1..Len(g) : \A i \in 1..Len(g[a]) : QLe(Margin, QDist(QDist(g[a][i], pt[a]), t))

(* ------------------------------ box calls ------------------------------- *)
InsB(k) == Box(InsBoxes[k])
InsG(k) == Grid(InsGrids[k])
NbFlat(n, L, R) == Flatten([a \in 1..n |-> <<L, R>>])
NbMixed(n) == Flatten([a \in 1..n |-> IF a % 2 = 1 THEN <<1, 0>> ELSE <<0, 1>>])
UShape(b, k) == Fz([a \in 1..Len(b) |-> IF Degen(b[a]) THEN 1 ELSE 1 + ((a + k) % 3)])       \* 1..3 nodes, rotating
UShapeN(b, m) == Fz([a \in 1..Len(b) |-> IF Degen(b[a]) THEN 1 ELSE m])
UCall(b, shp, nb) == Call("uniform_grid", shp \o nb, <<>>, <<>>, "", <<>>)
UCalls(b) ==
  LET n == Len(b)
      cands == <<UCall(b, UShapeN(b, 2), NbFlat(n, 1, 1)), UCall(b, UShapeN(b, 3), NbFlat(n, 0, 0)),
                 UCall(b, UShape(b, 0), NbMixed(n)), UCall(b, UShape(b, 1), NbFlat(n, 0, 1)),
                 UCall(b, UShape(b, 2), NbFlat(n, 1, 0)), UCall(b, UShapeN(b, 4), NbFlat(n, 1, 1)),
                 UCall(b, UShapeN(b, 5), NbMixed(n))>>
  IN  SelectSeq(cands, LAMBDA c : UGridSpecified(b, SubSeq(c.i, 1, n), NbOf(c, n)))

ColVal(b, ex, a) == IF ex THEN b[a][1] ELSE InnerPt(b)[a]
ZeroSafe(b, ex) == ex \/ \A a \in 1..Len(b) : QLe(Margin, QAbs(b[a][1])) /\ QLe(Margin, QAbs(b[a][2]))
BoxDeriveFull(b, ex) ==
  LET n == Len(b) IN
  {K0("neg"), K0("squeeze"), KQ("mul_s", <<Q(-2, 1)>>), KQ("add_s", <<Q(3, 4)>>), KQ("div_s", <<Q(-4, 1)>>),
   KO("sub_b", <<Box(PatBox(n, 0))>>), KO("mul_b", <<Box(PatBox(n, 1))>>), KO("div_b", <<Box(PosBox(n))>>),
   Call("insert", <<0>>, <<>>, <<InsB(1)>>, "", <<>>), Call("insert", <<-1>>, <<>>, <<InsB(2)>>, "", <<>>),
   Call("insert", <<n>>, <<>>, <<InsB(1), InsB(2)>>, "", <<>>), KO("append", <<InsB(3)>>),
   Call("getitem", <<>>, <<>>, <<>>, "", <<IInt(0)>>), Call("getitem", <<>>, <<>>, <<>>, "", <<IInt(-1)>>),
   Call("getitem", <<>>, <<>>, <<>>, "", <<ISlice(1, NONE, NONE)>>),
   Call("getitem", <<>>, <<>>, <<>>, "", <<IList(<<n - 1, 0>>)>>)}
  \cup {Call("collapse", <<a - 1>>, <<ColVal(b, ex, a)>>, <<>>, "", <<>>) : a \in {a \in 1..Min2(n, 2) : ex \/ ~Degen(b[a])}}
  \cup (IF ex THEN {Call("collapse", <<n - 1>>, <<BMid(b)[n]>>, <<>>, "", <<>>)} ELSE {})
  \cup (IF BHasZero(b) \/ ~ZeroSafe(b, ex) THEN {} ELSE {KQ("rdiv_s", <<Q(3, 1)>>)})
  \cup SeqSet(UCalls(b))
BoxDeriveCore(b, ex) ==
  LET n == Len(b) IN
  {K0("neg"), K0("squeeze"), Call("insert", <<-1>>, <<>>, <<InsB(1)>>, "", <<>>),
   Call("getitem", <<>>, <<>>, <<>>, "", <<IInt(-1)>>)}
  \cup (IF ex THEN {Call("collapse", <<0>>, <<b[1][2]>>, <<>>, "", <<>>)} ELSE {})
  \cup (IF Len(UCalls(b)) >= 3 THEN {UCalls(b)[3]} ELSE {})

(* ------------------------------ grid calls ------------------------------ *)
GIdx(items) == Call("getitem", <<>>, <<>>, <<>>, "", items)
\* index expressions asked of a grid with n axes (results: points, grids, documented errors)
GridIdxs(g) ==
  LET n == Len(g)  shp == GShape(g)
      ints(v) == [a \in 1..n |-> IInt(v)]
  IN  << ints(0), ints(-1), [a \in 1..n |-> IInt(shp[a] - 1)], With(ints(0), n, IInt(shp[n])),      \* points / out of range
         <<IInt(0)>>, <<IInt(-1)>>, <<ISlice(1, NONE, NONE)>>, <<ISlice(NONE, NONE, 2)>>, <<ISlice(NONE, -1, NONE)>>,
         <<IEll>>, <<IEll, IInt(0)>>, <<IInt(0), IEll>>, <<ISlice(NONE, NONE, 2), IEll, ISlice(NONE, NONE, 2)>>,
         <<ISlice(1, NONE, NONE), IEll>>, <<IEll, ISlice(NONE, 1, NONE)>>,
         [a \in 1..n |-> IF a % 2 = 1 THEN IFull ELSE IInt(0)], [a \in 1..n |-> ISlice(0, 2, NONE)],
         With(ints(0), 1, ISlice(NONE, NONE, 3)),
         <<ISlice(0, 0, NONE)>>, <<ISlice(shp[1], NONE, NONE)>>, <<INone>>, <<IEll, IEll>>,      \* not supported: errors
         [a \in 1..(n + 1) |-> IInt(0)], [a \in 1..(n + 1) |-> IFull] >>
GridDeriveFull(g) ==
  LET n == Len(g) IN
  {K0("corner_grid"), K0("convex_hull"), KS("squeeze", "all"), Call("squeeze", <<n - 1>>, <<>>, <<>>, "axes", <<>>),
   Call("insert", <<0>>, <<>>, <<InsG(1)>>, "", <<>>), Call("insert", <<-1>>, <<>>, <<InsG(2)>>, "", <<>>),
   Call("insert", <<n>>, <<>>, <<InsG(1), InsG(3)>>, "", <<>>), KO("append", <<InsG(2)>>),
   GIdx(<<IInt(0)>>), GIdx(<<ISlice(NONE, NONE, 2)>>), GIdx(<<IEll, ISlice(1, NONE, NONE)>>),
   GIdx([a \in 1..n |-> IF a % 2 = 1 THEN IFull ELSE IInt(-1)])}
GridDeriveCore(g) ==
  {K0("convex_hull"), KS("squeeze", "all"), Call("insert", <<-1>>, <<>>, <<InsG(1)>>, "", <<>>),
   GIdx(<<ISlice(1, NONE, NONE)>>), GIdx(<<IEll, IInt(0)>>)}

Derive(o, ex, depth) ==
  IF o.k = "box" THEN (IF depth < FullDepth THEN BoxDeriveFull(o.v, ex) ELSE BoxDeriveCore(o.v, ex))
  ELSE (IF depth < FullDepth THEN GridDeriveFull(o.v) ELSE GridDeriveCore(o.v))

(* ------------------------------- queries -------------------------------- *)
PtTolCalls(op, pts, ok(_, _)) ==
  Flatten([r \in 1..Len(pts) |-> Flatten([j \in 1..Len(Tols) |->
     IF ok(pts[r], Tols[j]) THEN <<Call(op, <<>>, <<Tols[j]>> \o pts[r], <<>>, "", <<>>)>> ELSE <<>>])])
OtherTolCalls(op, others, ok(_, _)) ==
  Flatten([r \in 1..Len(others) |-> Flatten([j \in 1..Len(Tols) |->
     IF ok(others[r], Tols[j]) THEN <<Call(op, <<>>, <<Tols[j]>>, <<others[r]>>, "", <<>>)>> ELSE <<>>])])

BoxQueries(b, ex0, rich) ==
  LET n == Len(b)
      ex == ex0 /\ BoxExact(b)
      pts == BoxProbePts(b, ex, rich)
      bxs == BoxProbeBoxes(b, ex)
      okp(pt, t) == ex \/ SafeBoxPt(b, pt, t)
      okb(o, t) == ex \/ o.k \notin {"box", "grid"} \/ Len(o.v) # n \/
                   LET c == IF o.k = "box" THEN o.v ELSE GHull(o.v)
                   IN  \A a \in 1..n : /\ QLe(Margin, QDist(QSub(b[a][1], c[a][1]), t)) /\ QLe(Margin, QDist(QSub(c[a][2], b[a][2]), t))
      oke(o, t) == ex \/ o.k # "box" \/ Len(o.v) # n \/
                   \A a \in 1..n : /\ QLe(Margin, QDist(QDist(b[a][1], o.v[a][1]), t))
                                   /\ QLe(Margin, QDist(QDist(o.v[a][2], b[a][2]), t))
      okp0(pt) == okp(pt, QZero)
      Asked(op, ps) == Flatten([r \in 1..Len(ps) |-> IF okp0(ps[r]) THEN <<KQ(op, ps[r])>> ELSE <<>>])
      zerosafe == ex \/ \A a \in 1..n : QLe(Margin, QAbs(b[a][1])) /\ QLe(Margin, QAbs(b[a][2]))
      colvals(a) == IF ex THEN <<b[a][1], BMid(b)[a], QAdd(b[a][2], QOne)>>
                    ELSE (IF Degen(b[a]) THEN <<>> ELSE <<InnerPt(b)[a]>>) \o <<QAdd(b[a][2], QOne)>>
      cgrid == Grid(CornerVecs(b))
      ogrid(g) == Grid(With(CornerVecs(b), 1, IF Degen(b[1]) THEN <<QAdd(b[1][1], g)>> ELSE <<b[1][1], QAdd(b[1][2], g)>>))
      G == Gaps3(ex)
      others == [r \in 1..Len(bxs) |-> Box(bxs[r])]
                \o (IF n >= 2 THEN <<Box(SubSeq(b, 1, n - 1))>> ELSE <<>>) \o <<Box(Append(b, b[n])), cgrid>>
                \o [j \in 1..Len(G) |-> ogrid(G[j])]
      ptsets == <<Pts(<<BMid(b), BMin(b)>>), Pts(<<BMax(b), InnerPt(b), BMin(b)>>)>>
                \o [j \in 1..Len(G) |-> Pts(<<BMid(b), SidePt(b, n, j % 2, G[j])>>)]
                \o <<cgrid>> \o [j \in 1..Len(G) |-> ogrid(G[j])]
      okall(o, t) == ex \/ (IF o.k = "grid" THEN \A r \in 1..GSize(o.v) : SafeBoxPt(b, PointsOf(o.v, "C")[r], t)
                            ELSE \A r \in 1..Len(o.v) : SafeBoxPt(b, o.v[r], t))
  IN  <<K0("ndim"), K0("len"), K0("true_ndim"), K0("min_pt"), K0("max_pt"), K0("mid_pt"), K0("extent"), K0("nondegen"),
        K0("volume"), K0("length"), K0("area"), K0("squeeze"), K0("pos"), K0("neg"), KS("corners", "C"), KS("corners", "F"),
        KS("element", "none"), KQ("element", FarPt(b))>>
      \o Asked("element", <<BMid(b), InnerPt(b)>>)
      \o (IF TrueNdim(b) = 0 THEN <<>> ELSE <<KI("measure", <<NONE>>)>>)
      \o [m \in 1..(n + 1) |-> KI("measure", <<m>>)]
      \o (IF TrueNdim(b) > 0 THEN <<KI("measure", <<0>>)>> ELSE <<>>)
      \* membership, exact and with tolerance; wrong lengths and NaN are not members
      \o Asked("contains", pts \o <<InnerPt(b)>>)
      \o <<KQ("contains", Append(BMid(b), QZero)), KQ("contains", With(BMid(b), n, NaN))>>
      \o (IF n >= 2 THEN <<KQ("contains", SubSeq(BMid(b), 1, n - 1))>> ELSE <<>>)
      \o PtTolCalls("approx_contains", pts, okp)
      \* distances
      \o Flatten([e \in 1..3 |-> LET ee == <<"1", "2", "inf">>[e] IN
            <<Call("dist", <<>>, FarPt(b), <<>>, ee, <<>>), Call("dist", <<>>, BMid(b), <<>>, ee, <<>>),
              Call("dist", <<>>, pts[Len(pts)], <<>>, ee, <<>>), Call("dist", <<>>, With(FarPt(b), 1, NaN), <<>>, ee, <<>>)>>])
      \o <<Call("dist", <<>>, Append(BMid(b), QZero), <<>>, "2", <<>>)>>
      \* set relations
      \o OtherTolCalls("contains_set", others, okb) \o <<Call("contains_set", <<>>, <<QZero>>, <<Res("reals", <<>>)>>, "", <<>>)>>
      \o OtherTolCalls("approx_equals", SubSeq(others, 1, Len(others) - Len(G)), oke)
      \o OtherTolCalls("contains_all", ptsets, okall)
      \* structure
      \o Flatten([a \in 1..n |-> [t \in 1..Len(colvals(a)) |-> Call("collapse", <<a - 1>>, <<colvals(a)[t]>>, <<>>, "", <<>>)]])
      \o <<Call("collapse", <<n>>, <<BMid(b)[1]>>, <<>>, "", <<>>), Call("collapse", <<0>>, <<>>, <<>>, "", <<>>)>>
      \o (IF ex THEN <<Call("collapse", [a \in 1..n |-> a - 1], BMax(b), <<>>, "", <<>>)>> ELSE <<>>)
      \o [t \in 1..(2 * n + 3) |-> Call("insert", <<t - n - 2>>, <<>>, <<InsB(1 + (t % Len(InsBoxes)))>>, "", <<>>)]
      \o <<Call("insert", <<1>>, <<>>, <<InsB(2), InsB(1)>>, "", <<>>), Call("insert", <<0>>, <<>>, <<>>, "", <<>>),
           KO("append", <<InsB(1)>>), KO("append", <<InsB(3), InsB(2)>>), KO("append", <<InsG(1)>>)>>
      \o [t \in 1..(2 * n + 2) |-> Call("getitem", <<>>, <<>>, <<>>, "", <<IInt(t - n - 2)>>)]
      \o <<Call("getitem", <<>>, <<>>, <<>>, "", <<IFull>>), Call("getitem", <<>>, <<>>, <<>>, "", <<ISlice(NONE, NONE, 2)>>),
           Call("getitem", <<>>, <<>>, <<>>, "", <<ISlice(NONE, -1, NONE)>>), Call("getitem", <<>>, <<>>, <<>>, "", <<ISlice(1, NONE, NONE)>>),
           Call("getitem", <<>>, <<>>, <<>>, "", <<IList(<<0, 0>>)>>), Call("getitem", <<>>, <<>>, <<>>, "", <<IList(<<n - 1, 0, -1>>)>>),
           Call("getitem", <<>>, <<>>, <<>>, "", <<IList(<<0, n>>)>>)>>
      \* interval arithmetic: every sign class on every axis, scalars of both signs
      \o <<KQ("add_s", <<Q(-1, 1)>>), KQ("add_s", <<Q(3, 4)>>), KQ("sub_s", <<Q(5, 2)>>), KQ("mul_s", <<Q(-2, 1)>>),
           KQ("mul_s", <<Q(1, 2)>>), KQ("mul_s", <<QZero>>), KQ("div_s", <<Q(-4, 1)>>), KQ("div_s", <<Q(1, 2)>>),
           KQ("sub_s", <<Q(-1, 4)>>)>>
      \o (IF zerosafe THEN <<KQ("rdiv_s", <<Q(3, 1)>>), KQ("rdiv_s", <<Q(-1, 2)>>)>> ELSE <<>>)
      \o Flatten([sh \in 1..3 |-> <<KO("add_b", <<Box(PatBox(n, sh))>>), KO("sub_b", <<Box(PatBox(n, sh))>>),
                                    KO("mul_b", <<Box(PatBox(n, sh))>>), KO("div_b", <<Box(PatBox(n, sh))>>)>>])
      \o <<KO("div_b", <<Box(PosBox(n))>>), KO("mul_b", <<Box(b)>>), KO("sub_b", <<Box(b)>>),
           KO("add_b", <<Box(PatBox(n + 1, 0))>>), KO("mul_b", <<Box(PatBox(n + 1, 0))>>)>>
      \* uniform sampling
      \o UCalls(b)
      \o (IF \E a \in 1..n : Degen(b[a]) THEN <<UCall(b, [a \in 1..n |-> 2], NbFlat(n, 1, 1))>> ELSE <<>>)

\* grids probing a grid
ShiftAxis(g, a, d) == With(g, a, [i \in 1..Len(g[a]) |-> QAdd(g[a][i], d)])
ShiftNode(g, a, i, d) == With(g, a, With(g[a], i, QAdd(g[a][i], d)))
EveryOther(g, a) == With(g, a, Pick(g[a], SlIdx(ISlice(NONE, NONE, 2), Len(g[a]))))
MinSpacing(g) == IF \A a \in 1..Len(g) : Len(g[a]) = 1 THEN QI(1000)
                 ELSE QMinSeq(Flatten([a \in 1..Len(g) |-> [i \in 1..(Len(g[a]) - 1) |-> QSub(g[a][i + 1], g[a][i])]]))
GridQueries(g, ex0, rich, rot) ==
  LET n == Len(g)
      ex == ex0 /\ GridExact(g)
      G == Gaps3(ex)
      first == GMin(g)
      last == GMax(g)
      aL == 1 + (rot % n)                              \* the axis probed in lean mode rotates with the chain length
      axes == IF rich THEN [a \in 1..n |-> a] ELSE <<aL>>
      pts == <<first, last, GMid(g)>>
             \o Flatten([t \in 1..Len(axes) |-> Flatten([j \in 1..Len(G) |->
                   <<With(first, axes[t], QAdd(first[axes[t]], G[j])), With(last, axes[t], QSub(last[axes[t]], G[j]))>>])])
      okp(pt, t) == ex \/ SafeGridPt(g, pt, t)
      others == <<Grid(g)>>
                \o Flatten([t \in 1..Len(axes) |-> LET a == axes[t] IN
                     <<Grid(EveryOther(g, a))>>
                     \o [j \in 1..Len(G) |-> Grid(ShiftAxis(g, a, IF j % 2 = 1 THEN G[j] ELSE QNeg(G[j])))]
                     \o (IF Len(g[a]) >= 3 THEN [j \in 1..Len(G) |-> Grid(ShiftNode(g, a, 2, G[j]))] ELSE <<>>)])
                \o (IF n = 1 THEN [k \in 1..Len(FixedOthers) |-> Grid(FixedOthers[k])] ELSE <<>>)
      extra == <<Grid(Append(g, <<QZero, QOne>>)), Box(GHull(g))>>
      lower == IF n >= 2 THEN <<Grid(SubSeq(g, 1, n - 1))>> ELSE <<>>
      \* a subgrid question is asked only if the tolerance is smaller than half the spacing of the tested grid (then two of
      \* its nodes cannot be near the same node of the other grid) and, for inexact coordinates, is decided with a margin
      oksub(self, oth, t) ==
         /\ oth.k = "grid" => GridOK(oth.v)
         /\ QIsZero(t) \/ QLt(QMul(QI(2), t), MinSpacing(self))
         /\ ex \/ oth.k # "grid" \/ Len(oth.v) # Len(self) \/
               \A a \in 1..Len(self) : \A i \in 1..Len(self[a]) : \A j \in 1..Len(oth.v[a]) :
                   QLe(Margin, QDist(QDist(self[a][i], oth.v[a][j]), t))
      oksub1(o, t) == oksub(g, o, t)
      oksup1(o, t) == o.k = "grid" /\ oksub(o.v, Grid(g), t)
      okeq(o, t) == /\ o.k = "grid" => GridOK(o.v)
                    /\ ex \/ o.k # "grid" \/ GShape(o.v) # GShape(g) \/
                         \A a \in 1..n : \A i \in 1..Len(g[a]) : QLe(Margin, QDist(QDist(g[a][i], o.v[a][i]), t))
      okp0(pt) == okp(pt, QZero)
      idxs == GridIdxs(g)
  IN  <<K0("ndim"), K0("shape"), K0("size"), K0("len"), K0("min_pt"), K0("max_pt"), K0("mid_pt"), K0("extent"), K0("stride"),
        K0("nondegen"), K0("is_uniform_byaxis"), K0("is_uniform"), K0("coord_vectors"), K0("element"), K0("corner_grid"),
        K0("convex_hull"), K0("meshgrid"), KS("corners", "C"), KS("corners", "F"), K0("stride")>>
      \o (IF GSize(g) <= 40 THEN <<KS("points", "C"), KS("points", "F")>> ELSE <<>>)
      \o Flatten([r \in 1..Len(pts) |-> IF okp0(pts[r]) THEN <<KQ("contains", pts[r])>> ELSE <<>>])
      \o <<KQ("contains", Append(first, QZero))>> \o (IF n >= 2 THEN <<KQ("contains", SubSeq(first, 1, n - 1))>> ELSE <<>>)
      \o PtTolCalls("approx_contains", pts, okp)
      \o OtherTolCalls("is_subgrid", others \o extra, oksub1) \o OtherTolCalls("is_supergrid", others, oksup1)
      \* the fixed partners also with a tolerance that is a sizeable fraction of their spacing
      \o (IF n = 1 THEN Flatten([k \in 1..Len(FixedOthers) |->
              IF oksub1(Grid(FixedOthers[k]), Q(1, 4))
                THEN <<Call("is_subgrid", <<>>, <<Q(1, 4)>>, <<Grid(FixedOthers[k])>>, "", <<>>)>> ELSE <<>>]) ELSE <<>>)
      \o OtherTolCalls("approx_equals", others \o extra \o lower, okeq)
      \o [t \in 1..Len(idxs) |-> GIdx(idxs[t])]
      \o <<KS("squeeze", "all"), Call("squeeze", [a \in 1..n |-> a - 1], <<>>, <<>>, "axes", <<>>),
           Call("squeeze", <<n>>, <<>>, <<>>, "axes", <<>>), Call("squeeze", <<-1, 0>>, <<>>, <<>>, "axes", <<>>)>>
      \o [a \in 1..n |-> Call("squeeze", <<a - 1>>, <<>>, <<>>, "axes", <<>>)]
      \o [a \in 1..n |-> Call("squeeze", <<-a>>, <<>>, <<>>, "axes", <<>>)]
      \o [t \in 1..(2 * n + 3) |-> Call("insert", <<t - n - 2>>, <<>>, <<InsG(1 + (t % Len(InsGrids)))>>, "", <<>>)]
      \o <<Call("insert", <<1>>, <<>>, <<InsG(2), InsG(1)>>, "", <<>>), Call("insert", <<0>>, <<>>, <<>>, "", <<>>),
           KO("append", <<InsG(1)>>), KO("append", <<InsG(3), InsG(2)>>), KO("append", <<InsB(1)>>)>>

Queries(o, ex, rich, rot) == IF o.k = "box" THEN BoxQueries(o.v, ex, rich) ELSE GridQueries(o.v, ex, rich, rot)
Expected(o, ex, rich, rot) == LET Q0 == Queries(o, ex, rich, rot) IN [t \in 1..Len(Q0) |-> [c |-> Q0[t], r |-> Eval(o, Q0[t])]]

(* ------------------------------ the machine ----------------------------- *)
ObjOK(o) == IF o.k = "box" THEN BoxOK(o.v) ELSE GridOK(o.v)
\* a call computes without rounding if its result is exactly representable and - for the division by an interval
\* product, which multiplies with the rounded reciprocals - the divisor consists of powers of two
IsPow2(x) == (Abs(x[1]) = 1 /\ IsDyadic(x)) \/ (x[2] = 1 /\ Abs(x[1]) \in {1, 2, 4, 8, 16, 32, 64, 128, 256, 512, 1024})
ExactStep(c, r) == /\ ObjExact(r)
                   /\ c.op = "div_b" => \A a \in 1..Len(c.o[1].v) : IsPow2(c.o[1].v[a][1]) /\ IsPow2(c.o[1].v[a][2])
Init == /\ init \in InitObjs /\ cur = init /\ hist = <<>> /\ exact = ObjExact(init)
Step(c) ==
  /\ Len(hist) < MaxLen
  /\ LET r == Eval(cur, c)
     IN  /\ IsObj(r) /\ Len(r.v) >= 1 /\ Len(r.v) <= MaxDim /\ ObjSmall(r)
         /\ cur' = r
         /\ exact' = (exact /\ ExactStep(c, r))
  /\ hist' = Append(hist, c)
  /\ UNCHANGED init
Next == \E c \in Derive(cur, exact, Len(hist)) : Step(c)
Spec == Init /\ [][Next]_vars
View == <<cur, exact>>            \* one state per distinct (object, exactness); every generated chain is exported

(* ================================ laws =================================== *)
TypeOK == ObjOK(cur)
\* every query of the alphabet is understood by layer A and errors are exactly the documented ones
NoUnknownOp == LET Q0 == Queries(cur, exact, TRUE, 0) IN \A t \in 1..Len(Q0) : Eval(cur, Q0[t]).k # "unknown-op"

BoxLaws(b) ==
  LET n == Len(b)
      cs == BCorners(b, "C")
      fam == BoxProbeBoxes(b, TRUE)
      pts == BoxProbePts(b, TRUE, TRUE) \o <<InnerPt(b), FarPt(b)>>
      T == {QZero, Eighth, Q(1, 2)}
      Sub(x, y, t) == BContainsSet(x, y, t)
  IN  \* corners are contained, there are 2^m of them, C and F order list the same points
      /\ Len(cs) = 2 ^ TrueNdim(b)
      /\ \A r \in 1..Len(cs) : BContains(b, cs[r])
      /\ SeqSet(BCorners(b, "F")) = SeqSet(cs) /\ Len(BCorners(b, "F")) = Len(cs)
      /\ cs[1] = BMin(b) /\ cs[Len(cs)] = BMax(b)
      \* contains_set: decided by the corners = the per-axis closed form; exact containment is a partial order
      \* compatible with membership
      /\ \A i \in 1..Len(fam) : \A j \in 1..Len(fam) : \A t \in T :
            Sub(fam[i], fam[j], t) = BContainsSetAxes(fam[i], fam[j], t)
      /\ \A i \in 1..Len(fam) : Sub(fam[i], fam[i], QZero)
      /\ \A i \in 1..Len(fam) : \A j \in 1..Len(fam) :
            /\ (Sub(fam[i], fam[j], QZero) /\ Sub(fam[j], fam[i], QZero)) => fam[i] = fam[j]
            /\ Sub(fam[i], fam[j], QZero) => \A r \in 1..Len(pts) : BContains(fam[j], pts[r]) => BContains(fam[i], pts[r])
            /\ \A k \in 1..Len(fam) : (Sub(fam[i], fam[j], QZero) /\ Sub(fam[j], fam[k], QZero)) => Sub(fam[i], fam[k], QZero)
      \* tolerant membership is monotone in the tolerance and is membership in the grown box
      /\ \A r \in 1..Len(pts) :
            /\ BContains(b, pts[r]) = BApproxContains(b, pts[r], QZero)
            /\ BApproxContains(b, pts[r], Eighth) => BApproxContains(b, pts[r], Q(1, 2))
            /\ BApproxContains(b, pts[r], Eighth) = BContains([a \in 1..n |-> <<QSub(b[a][1], Eighth), QAdd(b[a][2], Eighth)>>], pts[r])
            /\ BContains(b, pts[r]) = (DistPow(b, pts[r], "inf") = QZero)
            /\ QLe(DistPow(b, pts[r], "inf"), DistPow(b, pts[r], "1"))
      \* measure
      /\ Measure(b, n) = (IF TrueNdim(b) = n THEN QProdSeq(BExtent(b)) ELSE QZero)
      /\ TrueNdim(b) > 0 => /\ Measure(b, NONE) = Measure(BSqueeze(b), Len(BSqueeze(b)))
                            /\ QLt(QZero, Measure(b, NONE)) /\ IsFinite(Measure(b, NONE))
      \* insert / collapse / squeeze round trips
      /\ \A k \in 1..Len(InsBoxes) : \A i \in (-n)..n :
            LET D == InsBoxes[k]  ins == SeqInsert(b, i, <<D>>)  i0 == IF i < 0 THEN i + n ELSE i
            IN  /\ Len(ins) = n + Len(D)
                /\ BGetItem(ins, ISlice(i0, i0 + Len(D), NONE)) = Box(D)
                /\ SubSeq(ins, 1, i0) \o SubSeq(ins, i0 + Len(D) + 1, Len(ins)) = b
                /\ (TrueNdim(D) = 0) => BSqueeze(ins) = BSqueeze(b)
                /\ Measure(ins, NONE) = (IF TrueNdim(b) = 0 THEN Measure(D, NONE) ELSE IF TrueNdim(D) = 0 THEN Measure(b, NONE)
                                         ELSE QMul(Measure(b, NONE), Measure(D, NONE)))
      /\ \A a \in 1..n : \A v \in {b[a][1], BMid(b)[a], b[a][2]} :
            LET col == BCollapse(b, <<a - 1>>, <<v>>)
            IN  /\ col.k = "box" /\ Sub(b, col.v, QZero)
                /\ BSqueeze(col.v) = BSqueeze(Keep(b, (1..n) \ {a}, 1))
                /\ BContains(col.v, With(BMid(b), a, v))
      \* interval arithmetic encloses the pointwise results and is tight at the corners
      /\ \A sh \in 0..2 :
            LET c == IF sh = 2 /\ ~BHasZero(PosBox(n)) THEN PosBox(n) ELSE PatBox(n, sh)
                xs == <<BMin(b), BMax(b), BMid(b), InnerPt(b)>>
                ys == <<BMin(c), BMax(c), BMid(c), InnerPt(c)>>
                Encl(res, f(_, _)) ==
                  /\ BoxOK(res)
                  /\ \A i \in 1..4 : \A j \in 1..4 : BContains(res, [a \in 1..n |-> f(xs[i][a], ys[j][a])])
                  /\ \A a \in 1..n : /\ \E i \in 1..2 : \E j \in 1..2 : res[a][1] = f(xs[i][a], ys[j][a])
                                     /\ \E i \in 1..2 : \E j \in 1..2 : res[a][2] = f(xs[i][a], ys[j][a])
            IN  /\ Encl(BAddB(b, c), QAdd) /\ Encl(BSubB(b, c), QSub) /\ Encl(BMulB(b, c), QMul)
                /\ ~BHasZero(c) => Encl(BMulB(b, BRecip(c)), QDiv)
                /\ BMulB(b, c) = BMulB(c, b)
      /\ \A s \in {Q(-2, 1), Q(1, 2), QZero} :
            /\ BMulS(b, s) = BMulB(b, [a \in 1..n |-> <<s, s>>])
            /\ BAddS(b, s) = BAddB(b, [a \in 1..n |-> <<s, s>>])
      /\ BNeg(BNeg(b)) = b /\ BNeg(b) = BMulS(b, Q(-1, 1))
      \* uniform sampling: uniform, inside the box, the flagged sides on the boundary, the others half a stride inside
      /\ \A t \in 1..Len(UCalls(b)) :
            LET c == UCalls(b)[t]  r == Eval(Box(b), c)  shp == SubSeq(c.i, 1, n)  nb == NbOf(c, n)
            IN  /\ r.k = "grid" /\ GridOK(r.v) /\ GShape(r.v) = shp
                /\ \A a \in 1..n : UniformVec(r.v[a])
                /\ BContainsSet(b, GHull(r.v), QZero)
                /\ \A a \in 1..n : ~Degen(b[a]) =>
                      LET v == r.v[a]  s == UStride(b[a], shp[a], nb[a][1], nb[a][2])
                      IN  /\ QSub(v[1], b[a][1]) = (IF nb[a][1] = 1 THEN QZero ELSE QHalf(s))
                          /\ QSub(b[a][2], v[Len(v)]) = (IF nb[a][2] = 1 THEN QZero ELSE QHalf(s))
                          /\ Len(v) >= 2 => QSub(v[2], v[1]) = s

GridLaws(g) ==
  LET n == Len(g)
      small == GSize(g) <= 40
      P == PointsOf(g, "C")
      others == <<g>> \o [a \in 1..n |-> EveryOther(g, a)] \o [a \in 1..n |-> ShiftAxis(g, a, Eighth)]
                \o (IF n = 1 THEN FixedOthers ELSE <<>>)
      idxs == GridIdxs(g)
  IN  /\ small =>
            /\ Len(P) = GSize(g) /\ Cardinality(SeqSet(P)) = GSize(g)
            /\ SeqSet(PointsOf(g, "F")) = SeqSet(P)
            /\ \A r \in 1..Len(P) : GContains(g, P[r]) /\ BContains(GHull(g), P[r])
            /\ P[1] = GMin(g) /\ P[Len(P)] = GMax(g)
            \* is_subgrid (exact) => every point is contained; conversely for point sets of product form
            /\ \A k \in 1..Len(others) : GridOK(others[k]) =>
                  /\ GIsSubgrid(g, others[k], QZero) = (\A r \in 1..Len(P) : GContains(others[k], P[r]))
                  /\ GIsSubgrid(g, others[k], Eighth) = (\A r \in 1..Len(P) : GApproxContains(others[k], P[r], Eighth))
                  /\ (GIsSubgrid(g, others[k], QZero) /\ GIsSubgrid(others[k], g, QZero)) => others[k] = g
            \* grid[idx].points() are exactly the selected points
            /\ \A t \in 1..Len(idxs) :
                  LET r == GGetItem(g, idxs[t])
                  IN  CASE r.k = "grid" -> /\ GridOK(r.v) /\ Len(r.v) = n /\ GIsSubgrid(r.v, g, QZero)
                                           /\ \A a \in 1..n : Len(r.v[a]) <= Len(g[a])
                        [] r.k = "qs" -> GContains(g, r.v)
                        [] OTHER -> r.k = "err"
      \* corners / hull
      /\ PointsOf(GCornerGrid(g), "C") = BCorners(GHull(g), "C")
      /\ PointsOf(GCornerGrid(g), "F") = BCorners(GHull(g), "F")
      /\ GIsSubgrid(GCornerGrid(g), g, QZero)
      /\ GHull(GCornerGrid(g)) = GHull(g)
      \* stride reproduces a uniform axis
      /\ \A a \in 1..n : (UniformVec(g[a]) /\ Len(g[a]) >= 2) =>
            \A i \in 1..Len(g[a]) : g[a][i] = QAdd(g[a][1], QMul(QI(i - 1), StrideVec(g[a])))
      \* insert / squeeze round trips
      /\ \A k \in 1..Len(InsGrids) : \A i \in (-n)..n :
            LET D == InsGrids[k]  ins == SeqInsert(g, i, <<D>>)  i0 == IF i < 0 THEN i + n ELSE i
            IN  /\ SubSeq(ins, i0 + 1, i0 + Len(D)) = D
                /\ SubSeq(ins, 1, i0) \o SubSeq(ins, i0 + Len(D) + 1, Len(ins)) = g
                /\ GSize(ins) = GSize(g) * GSize(D)
                /\ (GSize(D) = 1) => GSqueeze(ins, 0..(Len(ins) - 1)) = GSqueeze(g, 0..(n - 1))
      /\ GSize(GSqueeze(g, 0..(n - 1))) = GSize(g)

Laws == IF cur.k = "box" THEN BoxLaws(cur.v) ELSE GridLaws(cur.v)
=============================================================================

------------------------------ MODULE DFTMachine ------------------------------
(***************************************************************************)
(* Layer B for C18 (b): call histories on ONE transform object T.          *)
(*                                                                         *)
(* T keeps internal state between calls (a pyFFTW plan, the temporaries    *)
(* _tmp_r / _tmp_f which it shares with T.inverse).  The property is that  *)
(* none of this is observable: every call returns the transform of the     *)
(* CURRENT value of its argument, whatever happened before, and changes    *)
(* nothing but its output.                                                 *)
(*                                                                         *)
(* Values are symbolic: two distinct inputs "a", "b", their transforms     *)
(* "Fa", "Fb", the garbage pre-fill "nan" of an output that was never      *)
(* written, "none" for a register that holds no object.                    *)
(* Objects:  x1, x2 (domain elements), z (domain element used as `out` of  *)
(* the inverse), y (range element used as `out`), r (the fresh object      *)
(* returned by the last out-of-place call), q (the object r named before). *)
(* Actions (records [op, x, o]):                                           *)
(*   call    r' = T(x)            callip   T(x, out=y)                     *)
(*   inv     r' = T.inverse(x)    invip    T.inverse(x, out=z)             *)
(*   plan    T.init_fftw_plan()   temps    T.create_temporaries()          *)
(*   planinv / tempsinv   the same two on a KEPT T.inverse object (the one  *)
(*           every later inv / invip uses): which object of the family      *)
(*           receives the plan / the temporaries is part of the history -   *)
(*           the code decides direction / which temporary is the real-space *)
(*           one per OBJECT, from its class or from its sign option, and    *)
(*           the two only agree for the default sign.  The sign option of T *)
(*           ('-' / '+') is a concretisation axis: no expectation changes.  *)
(*   scribble  the CALLER mutates objects it owns and passed to the        *)
(*           constructor (axes list, shift list, tmp_r / tmp_f arrays):    *)
(*           the operator must not change                                  *)
(* Call keywords: every call may name the documented FFTW planning effort   *)
(* (field e of the action: "-" default, "estimate", "measure", "patient";   *)
(* FourierTransform: planning_effort=, DiscreteFourierTransform: flags=).   *)
(* The plan store is state of T (and of a kept T.inverse: planinv), so a    *)
(* call with a measuring planner on a FRESH operator, after a first call    *)
(* and after plan(e) are different histories - and none of it may change    *)
(* a value: Post ignores e.                                                 *)
(* T itself may be a derived operator (T0.inverse.inverse, ...): the option *)
(* algebra of derivations is module DFTDerive.                              *)
(***************************************************************************)
EXTENDS Integers, Sequences, TLC

Objs == {"x1", "x2", "y", "z", "r", "q"}
Fwd(v) == CASE v = "a" -> "Fa" [] v = "b" -> "Fb" [] OTHER -> "undef"
Inv(v) == CASE v = "Fa" -> "a" [] v = "Fb" -> "b" [] OTHER -> "undef"
IsSignal(v)   == v \in {"a", "b"}
IsSpectrum(v) == v \in {"Fa", "Fb"}

Heap0 == [o \in Objs |-> CASE o = "x1" -> "a" [] o = "x2" -> "b" [] o \in {"y", "z"} -> "nan" [] OTHER -> "none"]

ActE(op, x, o, e) == [op |-> op, x |-> x, o |-> o, e |-> e]
Act(op, x, o) == ActE(op, x, o, "-")
NoAct == Act("init", "-", "-")

Enabled(h, A) ==
  CASE A.op \in {"call", "callip"} -> IsSignal(h[A.x])
    [] A.op \in {"inv", "invip"}   -> IsSpectrum(h[A.x])
    [] OTHER -> TRUE

\* the transition function: everything but the target keeps its value (frame), the target gets the
\* transform of the argument's CURRENT value; plan / temps change nothing observable
Post(h, A) ==
  CASE A.op = "call"   -> [h EXCEPT !["q"] = h["r"], !["r"] = Fwd(h[A.x])]
    [] A.op = "inv"    -> [h EXCEPT !["q"] = h["r"], !["r"] = Inv(h[A.x])]
    [] A.op = "callip" -> [h EXCEPT ![A.o] = Fwd(h[A.x])]
    [] A.op = "invip"  -> [h EXCEPT ![A.o] = Inv(h[A.x])]
    [] OTHER -> h

CONSTANTS MaxLen,
          Efforts,   \* planning efforts named as call keywords (slim alphabet only)
          Slim       \* TRUE: the call-keyword alphabet on x1 / y / r; FALSE: the full alphabet, default keywords

FullActs ==
       {Act("call", x, "r") : x \in {"x1", "x2", "z", "r"}}
  \cup {Act("callip", x, "y") : x \in {"x1", "x2", "z", "r"}}
  \cup {Act("inv", x, "r") : x \in {"y", "r"}}
  \cup {Act("invip", x, "z") : x \in {"y", "r"}}
  \cup {Act("plan", "-", "-"), Act("temps", "-", "-"), Act("scribble", "-", "-")}
  \cup {Act("planinv", "-", "-"), Act("tempsinv", "-", "-")}
SlimActs ==
  UNION {{ActE("call", "x1", "r", e), ActE("callip", "x1", "y", e), ActE("inv", "r", "r", e),
          ActE("invip", "y", "z", e), ActE("plan", "-", "-", e), ActE("planinv", "-", "-", e)} : e \in Efforts}
Acts(h) == {A \in (IF Slim THEN SlimActs ELSE FullActs) : Enabled(h, A)}

VARIABLES heap, hist       \* hist: the behaviour so far, << [act, heap after] >>
vars == <<heap, hist>>
Init == heap = Heap0 /\ hist = <<>>
Next == /\ Len(hist) < MaxLen
        /\ \E A \in Acts(heap) :
             /\ heap' = Post(heap, A)
             /\ hist' = Append(hist, [act |-> A, heap |-> Post(heap, A)])
Spec == Init /\ [][Next]_vars

(* ------------------------------ properties ------------------------------ *)
LastAct == IF hist = <<>> THEN NoAct ELSE hist[Len(hist)].act
Target(A) == CASE A.op \in {"call", "inv"} -> {"r", "q"}
               [] A.op \in {"callip", "invip"} -> {A.o}
               [] OTHER -> {}
\* the argument and every other object survive a call
Frame == [][\A o \in Objs \ Target(LastAct') : heap'[o] = heap[o]]_vars
\* the previous fresh result is not destroyed when a new one is returned
KeepsOld == [][LastAct'.op \in {"call", "inv"} => heap'["q"] = heap["r"]]_vars
\* the result is a function of the argument's current value only
ResultOnly ==
  [][LET A == LastAct' IN
       /\ A.op = "call"   => heap'["r"] = Fwd(heap[A.x])
       /\ A.op = "callip" => heap'[A.o] = Fwd(heap[A.x])
       /\ A.op = "inv"    => heap'["r"] = Inv(heap[A.x])
       /\ A.op = "invip"  => heap'[A.o] = Inv(heap[A.x])]_vars
\* no reachable value is undefined, and the inverse recovers the input
WellDefined == \A o \in Objs : heap[o] # "undef"
InvRecovers == \A v \in {"a", "b"} : Inv(Fwd(v)) = v
=============================================================================

---------------------------- MODULE LeafOpMachine ----------------------------
(***************************************************************************)
(* Layer B: the built-in leaf operators and what they HAND OUT.             *)
(*                                                                         *)
(* State: `root`, a constructor call as the user writes it (a description   *)
(* of LeafOpSem), the `chain` of public calls that returned another         *)
(* operator (.adjoint, .inverse, .derivative(x)) and `cur`, the MEANING of  *)
(* the object the chain has produced (again a description, or the           *)
(* documented error).  Every state is queried: domain, range, linearity     *)
(* and the value at lattice points - these answers are layer A's and are    *)
(* exported for replay on the real objects.  The invariants are laws that   *)
(* the documented formulas must satisfy among themselves (adjointness with  *)
(* respect to the documented inner products - weighting constants, cell     *)
(* volumes, power-space weights included -, inverse, derivative as          *)
(* symmetric difference of the quadratic operators, linearity).             *)
(***************************************************************************)
EXTENDS LeafOpSem

CONSTANTS Roots,        \* set of root descriptions
          MaxChain,     \* bound on the number of derivation steps
          PoolR, PoolC  \* value pools: PoolX[a] = sequence of C numbers (a = 1 integer entries, a = 2 with halves)

VARIABLES root, chain, cur
lvars == <<root, chain, cur>>

(* ------------------------------ admissibility --------------------------- *)
\* documented preconditions of the constructors ("" = admissible, else the class of the documented error)
Admit(D) ==
  CASE D.k = "pwnorm" ->
         IF D.q # Inf /\ QLt(D.q, QOne) THEN "ValueError"                       \* exponents below 1 are not supported
         ELSE IF \E j \in 1..Len(D.w) : ~QLt(QZero, D.w[j]) THEN "ValueError"    \* all entries must be positive
         ELSE ""
    [] D.k = "mat" ->
         IF D.var # "dom0" /\ D.sp.shape[D.ax + 1] # Len(D.m[1]) THEN "ValueError"
         ELSE IF D.var = "domran" /\ D.ran.shape # [D.sp.shape EXCEPT ![D.ax + 1] = Len(D.m)] THEN "ValueError"
         \* the dtype of the result must be castable to the dtype of the range
         ELSE IF D.var = "domran" /\ D.ran.fld = "R" /\ (D.sp.fld = "C" \/ \E i \in 1..Len(D.m) : ~VIsReal(D.m[i])) THEN "ValueError"
         ELSE ""
    [] D.k = "sample" -> IF D.var \notin {"point_eval", "integrate"} THEN "ValueError" ELSE ""
    [] D.k = "wsum"   -> IF D.var \notin {"char_fun", "dirac"} THEN "ValueError" ELSE ""
    [] D.k = "flat"   -> IF D.var \notin {"C", "F"} THEN "ValueError" ELSE ""
    [] OTHER -> ""
NormRoot(D) == IF Admit(D) = "" THEN D ELSE Err(Admit(D))

(* -------------------------------- points -------------------------------- *)
PoolOf(fld, a) == IF fld = "C" THEN PoolC[a] ELSE PoolR[a]
Pick(P, k) == P[(k % Len(P)) + 1]
\* different values in different positions and parts
Pt(sp, a) == [j \in 1..sp.n |-> [i \in 1..SizeOf(sp) |-> Pick(PoolOf(sp.fld, ((a - 1) % 2) + 1), i + 3 * j + 2 * a)]]
EvalPts(sp) == { Pt(sp, a) : a \in 1..2 }

\* points at which the derivative has an exact documented value: Pythagorean directions
TVec(n) == CASE n = 1 -> <<1>> [] n = 2 -> <<3, -4>> [] n = 3 -> <<1, -2, 2>> [] n = 4 -> <<1, -1, 1, 1>>
             [] n = 6 -> <<1, -2, 2, 0, 0, 0>> [] n = 8 -> <<1, 1, -1, 1, 1, 1, 1, -3>> [] OTHER -> [i \in 1..n |-> IF i = 1 THEN 2 ELSE 0]
Signs == <<1, -2, 2, -1, 3>>
SqrtQ(q) == QSqrt(q)
DPt(D, a) ==
  LET N == SizeOf(D.sp) IN
  CASE D.k = "pwnorm" /\ D.q = <<2, 1>> /\ \A j \in 1..D.n : QIsSquare(WEff(D)[j]) ->
         [j \in 1..D.n |-> [i \in 1..N |-> CR(QDiv(QI(TVec(D.n)[j] * Pick(Signs, i + a)), SqrtQ(WEff(D)[j])))]]
    [] D.k = "pwnorm" -> [j \in 1..D.n |-> [i \in 1..N |-> CInt(Pick(Signs, i + j + a))]]
    [] D.k = "norm" /\ QIsSquare(D.env.wt) -> << [i \in 1..N |-> CInt(a * TVec(N)[i])] >>
    [] D.k = "dist" /\ QIsSquare(D.env.wt) -> << [i \in 1..N |-> CAdd(D.v[1][i], CInt(a * TVec(N)[i]))] >>
    [] D.k = "cmod" -> << [i \in 1..N |-> LET z == Pick(PoolOf(D.sp.fld, 1), i + a) IN IF z = CZero THEN CInt(2) ELSE z] >>
    [] OTHER -> Pt(Dom(D), a)
DerivPts(D) == { DPt(D, a) : a \in 1..2 }

(* -------------------------------- steps --------------------------------- *)
St(a, x) == [a |-> a, x |-> x]
\* .derivative is taken where the documentation gives an exact formula (or a documented error)
DerivOffered(D, x) == HasDeriv(D) /\ (Deriv(D, x).ok => DerivDefined(D, x))
Steps(D) ==
  IF ~D.ok THEN {}
  ELSE (IF AdjOffered(D) THEN {St("adjoint", <<>>)} ELSE {})
       \cup (IF InvOffered(D) THEN {St("inverse", <<>>)} ELSE {})
       \cup { St("deriv", x) : x \in { p \in DerivPts(D) : DerivOffered(D, p) } }
Apply(D, s) ==
  CASE s.a = "adjoint" -> Adj(D)
    [] s.a = "inverse" -> Inv(D)
    [] s.a = "deriv"   -> Deriv(D, s.x)

Init == /\ root \in Roots
        /\ chain = <<>>
        /\ cur = NormRoot(root)
Next == /\ Len(chain) < MaxChain
        /\ \E s \in Steps(cur) :
             /\ chain' = Append(chain, s)
             /\ cur' = Apply(cur, s)
        /\ UNCHANGED root
Spec == Init /\ [][Next]_lvars

(* ------------------------------ invariants ------------------------------ *)
Live == cur.ok
Pts(D) == { x \in EvalPts(Dom(D)) : Evaluable(D, x) }

WellFormed ==
  Live => /\ cur.k \in Kinds
          /\ \A x \in Pts(cur) : LET y == Eval(cur, x) IN
                /\ Len(y) = Ran(cur).n
                /\ \A j \in 1..Len(y) : Len(y[j]) = SizeOf(Ran(cur))

\* <A x, y>_range = <x, A^* y>_domain with the documented inner products (operators between spaces over one field).
\* The documented adjoints of sampling / flattening use the CELL VOLUME: they are adjoints where the weighting of the
\* space is its cell volume (discretised spaces, unweighted tensor spaces), which is what their docstrings show.
AdjointLaw ==
  (Live /\ Linear(cur) /\ AdjOffered(cur) /\ Adj(cur).ok /\ Dom(cur).fld = Ran(cur).fld /\ cur.k \notin {"cmodd", "cmodda", "cmod2d", "cmod2da"}
   /\ (cur.k \in {"sample", "wsum", "flat", "unflat"} => cur.env.wt = cur.env.cv)) =>
     LET A == Adj(cur) IN
     /\ Dom(A) = Ran(cur) /\ Ran(A) = Dom(cur)
     /\ \A x \in EvalPts(Dom(cur)), y \in EvalPts(Ran(cur)) :
          InnerSp(Ran(cur), cur.env, cur.pw, Eval(cur, x), y) = InnerSp(Dom(cur), cur.env, cur.pw, x, Eval(A, y))

\* the adjoint of the adjoint acts like the operator and lives between the same spaces
BiAdjointLaw ==
  (Live /\ AdjOffered(cur) /\ Adj(cur).ok /\ AdjOffered(Adj(cur))) =>
     LET B == Adj(Adj(cur)) IN
     /\ B.ok /\ Dom(B) = Dom(cur) /\ Ran(B) = Ran(cur)
     /\ \A x \in Pts(cur) : Eval(B, x) = Eval(cur, x)

\* inverse(op(x)) = x where an inverse is documented; the pseudo-inverses of the real / imaginary part are right inverses
InverseLaw ==
  (Live /\ InvOffered(cur) /\ Inv(cur).ok) =>
     LET I == Inv(cur) IN
     /\ Dom(I) = Ran(cur) /\ Ran(I) = Dom(cur)
     /\ IF cur.k = "reim"
          THEN (I.k = "cemb" => \A y \in EvalPts(Ran(cur)) : Eval(cur, Eval(I, y)) = y)
          ELSE \A x \in EvalPts(Dom(cur)) : Eval(I, Eval(cur, x)) = x
     /\ (cur.k \in {"mat", "flat", "unflat", "scale", "id"} => \A y \in EvalPts(Ran(cur)) : Eval(cur, Eval(I, y)) = y)

\* symmetric differences of (at most) quadratic maps are exact:  [Q(x + h) - Q(x - h)] / 2 = Q'(x) h, with
\* Q = the operator (pow 1 / 2, squared modulus, constant, real / imaginary part) or its square (norms, modulus:
\* (N^2)'(x) h = 2 N(x) N'(x) h)
DerivLaw ==
  (Live /\ HasDeriv(cur)) =>
     \A x \in { p \in DerivPts(cur) : DerivOffered(cur, p) /\ Deriv(cur, p).ok } :
        LET Dx == Deriv(cur, x) IN
        /\ Linear(Dx) /\ Dom(Dx) = Dom(cur) /\ Ran(Dx) = Ran(cur)
        /\ \A h \in EvalPts(Dom(cur)) :
             LET hh == PScal(CR(Q(1, 8)), h)                   \* small enough not to cross a sign change of the 1-norm
                 sd == PScal(CR(Q(1, 2)), PSub(Eval(cur, PAdd(x, hh)), Eval(cur, PSub(x, hh))))
                 dv == Eval(Dx, hh)
             IN  CASE cur.k \in {"const", "reim", "cmod2"} \/ (cur.k = "pow" /\ cur.n <= 2) -> sd = dv
                   [] cur.k \in {"norm", "dist"} \/ (cur.k = "pwnorm" /\ cur.q = <<2, 1>>) ->
                        \* Eval is the square of the norm; its root at x is rational by the choice of x
                        LET nx == Eval(cur, x) IN
                        \A j \in 1..Len(sd) : \A i \in 1..Len(sd[j]) :
                           sd[j][i] = CScal(QMul(QI(2), QSqrt(Re(nx[j][i]))), dv[j][i])
                   [] cur.k = "pwnorm" /\ cur.q = QOne -> sd = dv
                   [] cur.k = "cmod" ->
                        LET S == [cur EXCEPT !.k = "cmod2"]
                            sq == PScal(CR(Q(1, 2)), PSub(Eval(S, PAdd(x, hh)), Eval(S, PSub(x, hh))))
                            nx == Eval(cur, x)
                        IN  \A i \in 1..Len(sq[1]) : sq[1][i] = CMul(CScal(QI(2), nx[1][i]), dv[1][i])
                   [] OTHER -> TRUE

LinearityLaw ==
  (Live /\ Linear(cur) /\ cur.k \notin {"reim", "cmodd", "cmod2d"}) =>
     \A x \in EvalPts(Dom(cur)), y \in EvalPts(Dom(cur)) :
        /\ Eval(cur, PAdd(x, y)) = PAdd(Eval(cur, x), Eval(cur, y))
        /\ Eval(cur, PScal(CInt(3), x)) = PScal(CInt(3), Eval(cur, x))
=============================================================================

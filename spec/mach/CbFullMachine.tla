--------------------------- MODULE CbFullMachine ---------------------------
(***************************************************************************)
(* Layer B (extension stage "cbfull"): the callback library as a state      *)
(* machine.  One behaviour = one callback object (an expression of          *)
(* CbFullSem) and a history of Call(v) / Reset on its root.  The state is   *)
(* kept INCREMENTALLY per leaf (counter, stored results, emitted stream,    *)
(* files) plus the shared channel `out`; the invariants say that this       *)
(* incremental state is the documented function of the history (layer A):   *)
(*   LeafSeesDocumentedCalls  every leaf has seen exactly the calls its     *)
(*                            step / counter rule documents, with the       *)
(*                            documented value                              *)
(*   ChannelInOrder           the shared channel is the tree semantics of   *)
(*                            & (in sequence as listed) and * (operator     *)
(*                            first)                                        *)
(*   Associative, Distributive   regrouping & / distributing * over & does  *)
(*                            not change the observable effect              *)
(*   ResetIsRestart           after a reset the object behaves like a new   *)
(*                            one: state = state of a fresh object after    *)
(*                            the calls since the reset; what was emitted   *)
(*                            before stays emitted                          *)
(*   ResetRestores (action)   a reset puts counters and result lists back   *)
(*                            to the constructor state and emits nothing    *)
(***************************************************************************)
EXTENDS CbFullSem

CONSTANTS Shapes, Values, MaxLen

VARIABLES shape, hist, cnt, res, strm, out
cvars == <<shape, hist, cnt, res, strm, out>>

LL == Leaves(shape, 1)
NL == Len(LL)

Init == /\ shape \in Shapes
        /\ hist = <<>>
        /\ cnt = [i \in 1..Len(Leaves(shape, 1)) |-> 0]
        /\ res = [i \in 1..Len(Leaves(shape, 1)) |-> <<>>]
        /\ strm = [i \in 1..Len(Leaves(shape, 1)) |-> <<>>]
        /\ out = <<>>

\* emission of leaf i for a call with iterate v when its counter is k (sequence of length <= 1)
LeafEmit(i, k, v, j) ==
  LET lf == LL[i].leaf IN
    IF Emits(lf) /\ Selected(lf, k) THEN << <<j, ItShown(lf, k), Val(lf, k, v * LL[i].scale)>> >> ELSE <<>>

RECURSIVE Cat(_, _)
Cat(f, n) == IF n = 0 THEN <<>> ELSE Cat(f, n - 1) \o f[n]

Call(v) ==
  /\ Len(hist) < MaxLen
  /\ LET j == Len(hist) + 1
         E == [i \in 1..NL |-> LeafEmit(i, cnt[i], v, j)]
     IN /\ strm' = [i \in 1..NL |-> strm[i] \o E[i]]
        /\ res' = [i \in 1..NL |-> IF LL[i].leaf.k = "store" THEN res[i] \o [q \in 1..Len(E[i]) |-> E[i][q][3]] ELSE res[i]]
        /\ out' = out \o Cat([i \in 1..NL |-> IF LL[i].leaf.k \in LoudKinds
                                                THEN [q \in 1..Len(E[i]) |-> <<i, E[i][q][1], E[i][q][2], E[i][q][3]>>]
                                                ELSE <<>>], NL)
  /\ cnt' = [i \in 1..NL |-> cnt[i] + 1]
  /\ hist' = Append(hist, [a |-> "call", v |-> v])
  /\ UNCHANGED shape

Reset ==
  /\ Len(hist) < MaxLen
  /\ cnt' = [i \in 1..NL |-> 0]
  /\ res' = [i \in 1..NL |-> <<>>]
  /\ hist' = Append(hist, [a |-> "reset", v |-> 0])
  /\ UNCHANGED <<shape, strm, out>>

Next == (\E v \in Values : Call(v)) \/ Reset
Spec == Init /\ [][Next]_cvars

\* the counter as documented (-1: the class has none) / as kept here
CntObs == [i \in 1..NL |-> IF LL[i].leaf.k \in CounterKinds THEN cnt[i] ELSE -1]

(* ----------------------------- invariants ------------------------------ *)
LeafSeesDocumentedCalls ==
  LET O == Obs(shape, hist) IN
    /\ CntObs = O.cnt
    /\ strm = O.strm
    /\ \A i \in 1..NL : LL[i].leaf.k = "store" => res[i] = O.res[i]

ChannelInOrder == out = Out(shape, hist)

Strip(o) == [i \in 1..Len(o) |-> <<o[i][2], o[i][3], o[i][4]>>]
Associative == Out(Reassoc(shape), hist) = out
\* distribution renumbers no leaf either (the pre-order of the leaves is unchanged)
Distributive == Out(Distribute(shape), hist) = out

ResetIsRestart ==
  LET r == LastReset(hist, Len(hist))
      tail == SubSeq(hist, r + 1, Len(hist))
      head == SubSeq(hist, 1, r)
      Ot == Obs(shape, tail)
      Oh == Obs(shape, head)
      Shift(s) == [q \in 1..Len(s) |-> <<s[q][1] + r, s[q][2], s[q][3]>>]
  IN  /\ CntObs = Ot.cnt
      /\ \A i \in 1..NL : LL[i].leaf.k = "store" => res[i] = Ot.res[i]
      /\ \A i \in 1..NL : strm[i] = Oh.strm[i] \o Shift(Ot.strm[i])

\* a step-1 store holds exactly one entry per iteration since the reset; a store never holds more entries than calls
StoreBounds ==
  \A i \in 1..NL : LL[i].leaf.k = "store" =>
     /\ Len(res[i]) <= cnt[i]
     /\ (LL[i].leaf.step = 1 => Len(res[i]) = cnt[i])
     /\ (cnt[i] > 0 => Len(res[i]) = ((cnt[i] - 1) \div LL[i].leaf.step) + 1)

(* --------------------------- action property --------------------------- *)
ResetRestores ==
  [][ (hist'[Len(hist')].a = "reset") =>
        /\ cnt' = [i \in 1..NL |-> 0] /\ res' = [i \in 1..NL |-> <<>>] /\ strm' = strm /\ out' = out ]_cvars

\* the files a leaf has written (function of the stream), exported with the state
FilesObs == Obs(shape, hist).files
=============================================================================

----------------------------- MODULE Trace_Interp -----------------------------
(***************************************************************************)
(* Layer D (C15): validates events recorded from the REAL sampling and     *)
(* interpolation code by re-evaluating the layer-A operators of InterpSem. *)
(*   sample       [cvs, poly, obs]            obs = Sample(poly, cvs)       *)
(*   interp       [cvs, f, schemes, xs, obs]  obs[i] = PerAxis(..., xs[i])  *)
(*                                            wherever the reference is     *)
(*                                            defined                       *)
(*   nearest_idx  [cvs, xs, obs]              obs[i] = NearestMulti(xs[i])  *)
(*   history      [fn, cvs, calls]            every call of a behaviour on  *)
(*                ONE function object: obs = ExpectCall(fn, cvs, dt)       *)
(* TOTAL: a rejected event prints <<"FAIL", line, id, clauses>> and the    *)
(* validation continues; TraceAccepted checks every line was consumed.     *)
(***************************************************************************)
EXTENDS InterpSem, TLC, Json, IOUtils

Trace == ndJsonDeserialize(IOEnv.TRACE_FILE)
VARIABLE l

Clauses(e) ==
  IF e.err # "" THEN {<<"raised", 0>>}
  ELSE CASE e.kind = "sample" ->
         LET exp == Sample(e.poly, e.cvs)
         IN  IF Len(e.obs) # Len(exp) THEN {<<"length", 0>>}
             ELSE {<<"sample", t>> : t \in {t \in 1..Len(exp) : exp[t] # e.obs[t]}}
    [] e.kind = "interp" ->
         IF Len(e.obs) # Len(e.xs) THEN {<<"length", 0>>}
         ELSE IF Len(e.f) # GSize(e.cvs) THEN {<<"precondition", 0>>}
         ELSE {<<"value", i>> : i \in {i \in 1..Len(e.xs) :
                  Defined(e.cvs, e.schemes, e.xs[i]) /\ PerAxis(e.f, e.cvs, e.schemes, e.xs[i]) # e.obs[i]}}
    [] e.kind = "nearest_idx" ->
         IF Len(e.obs) # Len(e.xs) THEN {<<"length", 0>>}
         ELSE {<<"node", i>> : i \in {i \in 1..Len(e.xs) : NearestMulti(e.cvs, e.xs[i]) # e.obs[i]}}
    [] e.kind = "history" ->
         UNION {LET c == e.calls[j]
                IN  IF c.kind = "mutate" THEN {}
                    ELSE IF c.err # "" THEN {<<"raised", j>>}
                    ELSE LET exp == ExpectCall(e.fn, e.cvs, c.dt)  def == DefinedCall(e.fn, e.cvs, c.dt)
                         IN  IF Len(c.obs) # Len(exp) THEN {<<"length", j>>}
                             ELSE (IF \E t \in 1..Len(exp) : def[t] /\ c.obs[t] # exp[t] THEN {<<"hist", j>>} ELSE {})
                                  \* frame: the grid of the space is what it was, nothing else of the space moved,
                                  \* and the result is still the same at the end of the behaviour unless the caller overwrote it
                                  \cup (IF c.grid # e.cvs THEN {<<"grid", j>>} ELSE {})
                                  \cup (IF c.frame # "" THEN {<<"frame", j>>} ELSE {})
                                  \cup (IF c.obs_end # <<>> /\ (\A t \in 1..Len(exp) : def[t] => c.obs[t] = exp[t])
                                           /\ (\E t \in 1..Len(exp) : def[t] /\ c.obs_end[t] # exp[t])
                                         THEN {<<"changed-later", j>>} ELSE {})
                : j \in 1..Len(e.calls)}
    [] OTHER -> {<<"unknown-kind", 0>>}

TraceInit == l = 1
TraceStep ==
  /\ l <= Len(Trace)
  /\ LET e == Trace[l]  bad == Clauses(e)
     IN  IF bad = {} THEN TRUE ELSE PrintT(<<"FAIL", l, e.id, bad>>)
  /\ l' = l + 1
TraceSpec == TraceInit /\ [][TraceStep]_l
TraceAccepted == TLCGet("stats").diameter - 1 = Len(Trace)
=============================================================================

------------------------------ MODULE Trace_FD ------------------------------
(***************************************************************************)
(* Layer D (property C13): validates events recorded from REAL calls of     *)
(* odl.discr.diff_ops.finite_diff and of PartialDerivative / Gradient /     *)
(* Divergence / Laplacian (and their .adjoint / .derivative(x)) by           *)
(* re-evaluating the layer-A operators of FDSem on the logged input.         *)
(*                                                                         *)
(* One event = one public call:                                             *)
(*   [id, op, variant, shape, axis, hs, method, pad, c, x, y, err]          *)
(*     op       "pd" | "grad" | "div" | "lap"                               *)
(*     variant  "call" | "derivative" | "adjoint"                           *)
(*     x, y     input / observed output as tuples of flat C-order arrays of *)
(*              Gaussian rationals (one block, or one block per component)  *)
(*     err      "" or the exception class name                              *)
(* The specification is TOTAL: a rejected event is reported as              *)
(* <<"FAIL", line, id, clauses>> and validation continues.                  *)
(***************************************************************************)
EXTENDS FDSem, TLC, Json, IOUtils

Trace == ndJsonDeserialize(IOEnv.TRACE_FILE)

VARIABLES l,      \* next line of the trace
          nf      \* number of rejected events so far (printed after the last event, cross-checked by the harness)

AdmissibleEvent(e) ==
  CASE e.op = "pd"  -> Admissible(e.pad, e.shape[e.axis])
    [] e.op = "lap" -> e.pad \in LapPads /\ AdmissibleShape(e.pad, e.shape)
    [] OTHER        -> AdmissibleShape(e.pad, e.shape)

\* what the reference says the call returns (tuple of blocks)
Expected(e) ==
  LET m == e.method  p == e.pad  hs == e.hs  s == e.shape
      c == IF e.variant = "call" THEN e.c ELSE CZero       \* derivative = zero-padding variant
  IN
  IF e.variant = "adjoint" THEN
    CASE e.op = "pd"   -> << PDAdj(m, p, hs, s, e.axis, e.x[1]) >>
      [] e.op = "grad" -> << GradAdj(m, p, hs, s, e.x) >>
      [] e.op = "div"  -> DivAdj(m, p, hs, s, e.x[1])
      [] e.op = "lap"  -> << LapAdj(p, hs, s, e.x[1]) >>
  ELSE
    CASE e.op = "pd"   -> << PD(m, p, c, hs, s, e.axis, e.x[1]) >>
      [] e.op = "grad" -> Grad(m, p, c, hs, s, e.x[1])
      [] e.op = "div"  -> << Div(m, p, c, hs, s, e.x) >>
      [] e.op = "lap"  -> << Lap(p, c, hs, s, e.x[1]) >>

Clauses(e) ==
  IF ~AdmissibleEvent(e)
    THEN (IF e.err = "" THEN {<<"not-raised", 0>>} ELSE {})
  ELSE IF e.variant = "adjoint" /\ ~IsLinearCfg(e.pad, e.c)
    THEN (IF e.err = "" THEN {<<"not-raised", 0>>} ELSE {})
  ELSE IF e.err # "" THEN {<<"raised", 0>>}
  ELSE LET exp == Expected(e)
       IN  IF Len(e.y) # Len(exp) THEN {<<"blocks", Len(e.y)>>}
           ELSE {<<"value", b>> : b \in {b \in 1..Len(exp) :
                    \/ Len(e.y[b]) # Len(exp[b])
                    \/ \E k \in 1..Len(exp[b]) : e.y[b][k] # exp[b][k]}}

TraceInit == l = 1 /\ nf = 0
TraceStep ==
  /\ l <= Len(Trace)
  /\ LET e == Trace[l]
         bad == Clauses(e)
     IN  /\ (IF bad = {} THEN TRUE ELSE PrintT(<<"FAIL", l, e.id, bad>>))
         /\ nf' = nf + (IF bad = {} THEN 0 ELSE 1)
  /\ (IF l = Len(Trace) THEN PrintT(<<"NFAIL", nf'>>) ELSE TRUE)
  /\ l' = l + 1
TraceSpec == TraceInit /\ [][TraceStep]_<<l, nf>>

\* every line of the trace was consumed
TraceAccepted == TLCGet("stats").diameter - 1 = Len(Trace)
=============================================================================

------------------------------ MODULE Trace_Rot ------------------------------
(***************************************************************************)
(* Layer D (EXT/rotphantom): validates events recorded from the REAL       *)
(* functions of odl/tomo/util/utility.py and odl/phantom/geometric.py.     *)
(*   event  [id, fn, a, o]   one public call (or one history executed on   *)
(*          real arrays): abstract arguments a (exact rationals; angles as *)
(*          rational points of the unit circle), projected outcome o:      *)
(*          [k |-> "ok", ...] or [k |-> "err", exc |-> class name]         *)
(* Layer A (RotSem) / the machine (RotMachine) is re-evaluated on the      *)
(* logged arguments.  TOTAL: a rejected event prints                       *)
(* <<"FAIL", line, id, {<<clause, fn, cell>>}>> and validation continues;  *)
(* TraceAccepted checks that every line was consumed.                      *)
(***************************************************************************)
EXTENDS RotMachine, RotImpl, Json, IOUtils

Trace == ndJsonDeserialize(IOEnv.TRACE_FILE)
VARIABLE l

Tag(cl, fn, cell) == {<<c, fn, cell>> : c \in cl}
MatsClauses(exp, o) ==
  (IF o.sh # exp.sh THEN {"shape"} ELSE {})
  \cup (IF Len(o.mats) # Len(exp.mats) THEN {"shape"}
        ELSE IF \E i \in 1..Len(exp.mats) : o.mats[i] # exp.mats[i] THEN {"value"} ELSE {})
Vectorised(arg) == IF arg.sh = <<>> THEN "scalar" ELSE "array"
\* observed integer array v / D against an expectation with OFFQ = no demand
ArrClauses(exp, o) ==
  IF Len(o.v) # Len(exp) THEN {"shape"}
  ELSE IF \E k \in 1..Len(exp) : exp[k] # OFFQ /\ exp[k] # Q(o.v[k], o.D) THEN {"value"} ELSE {}
Rotated(ells) == IF \E i \in 1..Len(ells) : \E j \in 1..Len(ells[i].rot) : ells[i].rot[j] # CsZero THEN "rot" ELSE "axis-aligned"
DimName(n) == IF n = 1 THEN "1d" ELSE IF n = 2 THEN "2d" ELSE IF n = 3 THEN "3d" ELSE "nd"

Clauses(e) ==
  LET a == e.a  o == e.o  fn == e.fn IN
  IF fn = "hist" THEN
    LET s == RunHist([M |-> MIdent(3), p |-> a.p0, q |-> a.q0], a.hist, 1)
        lastact == IF a.hist = <<>> THEN "init" ELSE a.hist[Len(a.hist)].a IN
    \* outside the documented domain (anti-parallel / collinear fromto) or beyond the projection lattice (denominators
    \* above 10^5 cannot be recovered from floats): the event decides nothing
    IF s.M = <<>> \/ MaxDenM(s.M) > 100000 \/ MaxDenSeq(s.p) > 100000 \/ MaxDenSeq(s.q) > 100000
      THEN {<<"ill-posed", fn, lastact>>}
    ELSE IF o.k # "ok" THEN {<<"raised", fn, lastact>>}
    ELSE Tag((IF o.M # s.M THEN {"history-matrix"} ELSE {}) \cup (IF o.p # s.p \/ o.q # s.q THEN {"history-points"} ELSE {}),
             fn, lastact)
  ELSE IF fn = "euler" THEN
    LET cell == DimName(EulerNDim(IF a.theta = NoArg THEN NONE ELSE a.theta.v, IF a.psi = NoArg THEN NONE ELSE a.psi.v)) IN
    IF o.k # "ok" THEN {<<"raised", fn, cell>>}
    ELSE Tag(MatsClauses(EulerVec(a.phi, a.theta, a.psi), o), fn, cell)
  ELSE IF fn = "axmat" THEN
    IF o.k # "ok" THEN {<<"raised", fn, Vectorised(a.ang)>>}
    ELSE Tag(MatsClauses(AxisRotMatVec(a.k, a.ang), o), fn, Vectorised(a.ang))
  ELSE IF fn = "axrot" THEN
    LET cell == IF a.s = NONE THEN "no-shift" ELSE "shift" IN
    IF o.k # "ok" THEN {<<"raised", fn, cell>>}
    ELSE IF o.v # [i \in 1..Len(a.vecs) |-> AxisRot(a.k, a.cs, a.vecs[i], a.s)] THEN {<<"value", fn, cell>>} ELSE {}
  ELSE IF fn = "fromto" THEN
    LET cell == FromToCell(a.u, a.v) IN
    IF ~FromToPosed(a.u, a.v) THEN {<<"ill-posed", fn, cell>>}
    ELSE IF o.k # "ok" THEN (IF cell \in {"2d-parallel", "2d-antiparallel"} THEN {} ELSE {<<"raised", fn, cell>>})
    ELSE Tag(FromToClauses(a.u, a.v, o.v), fn, cell)
  ELSE IF fn = "tsys" THEN
    LET cell == IF a.mat = NONE /\ ~FromToPosed(a.pd, a.pv) THEN "-" ELSE TSysCell(a.pv, a.pd, a.mat) IN
    IF a.mat = NONE /\ ~FromToPosed(a.pd, a.pv) THEN {<<"ill-posed", fn, "-">>}
    ELSE IF o.k # "ok" THEN {<<"raised", fn, cell>>}
    ELSE Tag(TSysClauses(a.pv, a.pd, a.others, a.mat, o.v), fn, cell)
  ELSE IF fn = "perp" THEN
    LET cell == DimName(Len(a.vecs[1])) IN
    IF o.k # "ok" THEN {<<"raised", fn, cell>>}
    ELSE Tag(PerpClauses(a.sh, a.vecs, o.sh, o.v), fn, cell)
  ELSE IF fn = "inside" THEN
    IF o.k # "ok" THEN {<<"raised", fn, a.mode>>}
    ELSE IF o.v # InsideBounds(InsidePts(a.mode, a.pts), a.lo, a.hi) THEN {<<"value", fn, a.mode>>} ELSE {}
  ELSE IF fn = "ell" THEN
    LET cell == BoxCell(a.i0, a.i1) \o "/" \o DimName(Len(a.shape)) \o "/" \o (IF a.cyl THEN "cylinders" ELSE Rotated(a.ells)) IN
    IF o.k # "ok" THEN {<<"raised", fn, cell>>}
    ELSE Tag(ArrClauses(IF a.cyl THEN CylPhantom(a.shape, a.ells) ELSE EllPhantomBox(a.shape, a.ells, a.i0, a.i1), o), fn, cell)
  ELSE IF fn = "cub" THEN
    LET cell == (IF a.lo = NONE THEN "default-min" ELSE "min") \o "/" \o (IF a.hi = NONE THEN "default-max" ELSE "max") IN
    IF ~CubDemanded(a.lo, a.hi) THEN {}
    ELSE IF o.k # "ok" THEN {<<"raised", fn, cell>>}
    ELSE Tag(ArrClauses(CubPhantom(a.sp, a.lo, a.hi), o), fn, cell)
  ELSE IF fn = "smoothcub" THEN
    LET cell == IF Len(a.axes) = 1 THEN "one-axis" ELSE "several-axes" IN
    IF o.k # "ok" THEN {<<"raised", fn, cell>>}
    ELSE Tag(SmoothCubClauses(a.sp, a.lo, a.hi, a.axes, o), fn, cell)
  ELSE IF fn = "defrise" THEN
    LET cell == BoxCell(a.i0, a.i1) \o "/" \o DimName(Len(a.shape)) \o "/" \o (IF a.alt THEN "alternating" ELSE "plain") IN
    IF o.k # "ok" THEN {<<"raised", fn, cell>>}
    ELSE Tag(DefriseTableClauses(Len(a.shape), a.n, a.alt, a.tab, a.thin) \cup ArrClauses(EllPhantomBox(a.shape, a.tab, a.i0, a.i1), o),
             fn, cell)
  ELSE IF fn = "projaxis" THEN
    LET cell == DimName(Len(a.shape)) IN
    IF o.k # "ok" THEN {<<"raised", fn, cell>>}
    ELSE Tag((IF a.shape = <<8, 8>> /\ a.default /\ o.v # ProjAxisExample8x8 THEN {"example"} ELSE {})
             \cup (IF \E ax \in 1..Len(a.shape) : Components(ProjSupport(a.shape, o.v, ax)) # ax THEN {"rectangles"} ELSE {})
             \cup (IF \E k \in 1..Len(o.v) : o.v[k] \notin {0, 1} THEN {"indicator"} ELSE {}), fn, cell)
  ELSE {<<"unknown-event", fn, "-">>}

\* every call: the caller's arrays are left as they were (o.mut) and a second identical call returns the same (o.again)
AllClauses(e) ==
  Clauses(e) \cup (IF e.o.k = "ok" /\ e.o.mut THEN {<<"argument-mutated", e.fn, "-">>} ELSE {})
             \cup (IF e.o.k = "ok" /\ ~e.o.again THEN {<<"not-repeatable", e.fn, "-">>} ELSE {})

TraceInit == l = 1 /\ M = <<>> /\ p = <<>> /\ q = <<>> /\ hist = <<>>
TraceStep ==
  /\ l <= Len(Trace)
  /\ LET e == Trace[l]  bad == AllClauses(e)
     IN  IF bad = {} THEN TRUE ELSE PrintT(<<"FAIL", l, e.id, bad>>)
  /\ l' = l + 1
  /\ UNCHANGED rvars
TraceSpec == TraceInit /\ [][TraceStep]_<<l, M, p, q, hist>>
TraceAccepted == TLCGet("stats").diameter - 1 = Len(Trace)
NoSet == {}
NoVec == <<>>
Zero == 0
=============================================================================

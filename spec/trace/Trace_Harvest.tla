---------------------------- MODULE Trace_Harvest ----------------------------
(***************************************************************************)
(* Layer D: events HARVESTED from the repository's own test-suite with the *)
(* ODL_VERIF_TRACE hooks on (LinearSpace.lincomb, Operator.__call__).       *)
(* The tests' data are random floats, so value clauses are relational on    *)
(* quantised integers (unit 2^-10 of the event's scale):                    *)
(*                                                                         *)
(*  ev = "lincomb": A, B scalars, X1, X2 operand pre-values, O result       *)
(*     value   : | A*X1[i] + B*X2[i] - 1024*O[i] | <= slack       (C01)     *)
(*     frame   : an operand that is not the output is unchanged   (C01)     *)
(*     ret     : with out given, the returned object is out       (C01)     *)
(*  ev = "call":                                                            *)
(*     ret     : with out given, the returned object is out       (C03)     *)
(*     input   : digest of x unchanged unless x is out            (C03)     *)
(*     range   : the result is an element of op.range             (C03)     *)
(***************************************************************************)
EXTENDS Integers, Sequences, TLC, Json, IOUtils

Trace == ndJsonDeserialize(IOEnv.TRACE_FILE)
VARIABLE l
IAbs(n) == IF n < 0 THEN -n ELSE n

LincombClauses(e) ==
  (IF e.hasval /\ \E i \in 1..Len(e.O) :
        IAbs(e.A * e.X1[i] + e.B * e.X2[i] - 1024 * e.O[i])
          > IAbs(e.A) + IAbs(e.B) + IAbs(e.X1[i]) + IAbs(e.X2[i]) + 1024
     THEN {<<"lincomb-value", e.pattern>>} ELSE {})
  \cup (IF ~e.x1_kept \/ ~e.x2_kept THEN {<<"lincomb-operand-modified", e.pattern>>} ELSE {})
  \cup (IF e.out_given /\ ~e.ret_is_out THEN {<<"lincomb-does-not-return-out", e.pattern>>} ELSE {})

CallClauses(e) ==
  (IF e.out_given /\ ~e.ret_is_out THEN {<<"in-place-does-not-return-out", e.cls>>} ELSE {})
  \cup (IF ~e.x_kept THEN {<<"input-modified", e.cls>>} ELSE {})
  \cup (IF ~e.in_range THEN {<<"result-not-in-range", e.cls>>} ELSE {})

Clauses(e) == IF e.ev = "lincomb" THEN LincombClauses(e) ELSE CallClauses(e)

TraceInit == l = 1
TraceStep ==
  /\ l <= Len(Trace)
  /\ LET e == Trace[l] bad == Clauses(e)
     IN IF bad = {} THEN TRUE ELSE PrintT(<<"FAIL", l, e.id, bad>>)
  /\ l' = l + 1
TraceSpec == TraceInit /\ [][TraceStep]_l
TraceAccepted == TLCGet("stats").diameter - 1 = Len(Trace)
=============================================================================

----------------------------- MODULE Trace_Sets -----------------------------
(***************************************************************************)
(* Layer D for property C20: validates observations recorded from REAL ODL  *)
(* objects.  The first `nobj` lines describe the instantiated universe, one *)
(* event per object (line number = object number):                          *)
(*   [ev |-> "obj", oid, k, copy, nobj, d (instance descriptor),            *)
(*    eq   |-> row of the observed == matrix  ("T" | "F" | "E" raised | "N"),*)
(*    hs   |-> "ok" | "raised",  h |-> class number of the hash value,      *)
(*    isin |-> for a space: (an element of this space) in (object j):       *)
(*             "T" | "F" | "E", "-" where object j is not a space,          *)
(*    own  |-> the element's .space is this very object]                    *)
(* then one event per element() / derived-space / indexing case.            *)
(*                                                                         *)
(* Clauses (all evaluated by TLC):                                          *)
(*  - the equivalence laws, equal => equal hash, x in S <=> x.space == S    *)
(*    ON THE OBSERVED relation;                                             *)
(*  - the observed relation against layer A (SetSem!SetEq);                 *)
(*  - element(), astype / real / complex / byaxis / byaxis_in / product     *)
(*    space indexing against SetSem; element indexing commutes with asarray *)
(*  - DRIFT (not a violation): the observations against layer C (EqHashImpl)*)
(* A hash that RAISES is not an unequal hash: it is reported as a NOTE.     *)
(* Output: "FAIL {json}", "DRIFT {json}", "NOTE {json}" lines; total.       *)
(***************************************************************************)
EXTENDS DerivedSpaceImpl, Json, IOUtils

Trace == ndJsonDeserialize(IOEnv.TRACE_FILE)
NObj  == Trace[1].nobj
\* layer-C hash keys of the universe, computed once
Keys  == [j \in 1..NObj |-> ImplHashKey(Trace[j].d)]

VARIABLE l

IsT(s) == s = "T"

ObjClauses(e) ==
  LET n == NObj
      i == e.oid
      T(j) == IsT(e.eq[j])
      eqset == {j \in 1..n : T(j)}
  IN
       (IF ~T(i) THEN {<<"reflexive", i, i, 0>>} ELSE {})
  \cup {<<"eq-raises", i, j, 0>> : j \in {j \in 1..n : e.eq[j] \notin {"T", "F"}}}
  \cup {<<"symmetric", i, j, 0>> : j \in {j \in (i + 1)..n : T(j) # IsT(Trace[j].eq[i])}}
  \cup UNION { {<<"transitive", i, j, k>> : k \in {k \in 1..n : IsT(Trace[j].eq[k]) /\ ~T(k)}} : j \in eqset \ {i} }
  \cup {<<"equal-objects-unequal-hash", i, j, 0>> :
          j \in {j \in eqset : j > i /\ e.hs = "ok" /\ Trace[j].hs = "ok" /\ e.h # Trace[j].h}}
  \cup (IF IsSpace(e.d)
          THEN {<<"membership", i, j, 0>> :
                  j \in {j \in 1..n : IsSpace(Trace[j].d) /\ (IsT(e.isin[j]) # T(j))}}
               \cup (IF e.own THEN {} ELSE {<<"element-space-is-not-its-space", i, i, 0>>})
          ELSE {})
  \cup {<<"differs-from-reference", i, j, 0>> : j \in {j \in 1..n : T(j) # SetEq(e.d, Trace[j].d)}}

ObjDrift(e) ==
  LET n == NObj  i == e.oid  T(j) == IsT(e.eq[j]) IN
       {<<"eq", i, j>> : j \in {j \in 1..n : T(j) # ImplEq(e.d, Trace[j].d, i = j)}}
  \cup (IF (e.hs = "raised") # ImplHashRaises(e.d) THEN {<<"hash-raises", i, i>>} ELSE {})
  \cup {<<"hash-key", i, j>> :
          j \in {j \in (i + 1)..n : e.hs = "ok" /\ Trace[j].hs = "ok" /\ ((e.h = Trace[j].h) # (Keys[i] = Keys[j]))}}

ObjNotes(e) == IF e.hs = "raised" THEN {<<"hash-raises", e.oid>>} ELSE {}

(* ---- element(): e.spc, e.inp = [k, spc, shape, vals], e.out = [k, vals] ---- *)
ElementClauses(e) ==
  LET exp == ElementOf(e.spc, e.inp) IN
  IF e.out.k # exp.k
    THEN {<<"element-" \o exp.k \o "-expected-got-" \o e.out.k, e.id, 0, 0>>}
  ELSE IF exp.k # "raise" /\ e.out.vals # exp.vals THEN {<<"element-values", e.id, 0, 0>>}
  ELSE {}

(* ---- derived spaces: e.op, e.spc, e.dt, e.idx, e.form, e.out = [k |-> "ok"|"raise", view] ---- *)
CaseOf(e) == DCase(e.op, e.dt, e.idx, e.form)
\* e.pair: what failed between the derived object and the DIRECTLY constructed object SetSem!DerivedDesc describes
\* (==, both ways, hash, set / dict membership, element membership); judged only where the derived object has the
\* expected view (otherwise the view clause reports) and layer A defines the descriptor
PairSet(e) == {e.pair[i] : i \in 1..Len(e.pair)} \ {"n/a"}
DerivedClauses(e) ==
  LET dd == DerivedDiff(e.spc, CaseOf(e), e.out) IN
       {<<"derived-" \o f \o ":" \o e.op, e.id, 0, 0>> : f \in dd}
  \cup (IF dd = {} /\ e.out.k = "ok" /\ DerivedDescDefined(e.spc, CaseOf(e))
          THEN {<<"derived-vs-direct-" \o f \o ":" \o e.op, e.id, 0, 0>> : f \in PairSet(e)} ELSE {})
\* layer C (DerivedSpaceImpl) against the observation
DerivedDrift(e) ==
  LET m == ImplDerived(e.spc, CaseOf(e)) IN
  IF m.k # e.out.k THEN {<<"derived-" \o e.op \o ":" \o m.k \o "-modelled-" \o e.out.k \o "-observed", e.id, 0>>}
  ELSE IF m.k = "ok" /\ m.view # e.out.view THEN {<<"derived-view:" \o e.op, e.id, 0>>} ELSE {}

(* ---- chains (histories) on ONE cached object: e.d start, e.path, e.out = [k, view], e.fresh, e.elem,        *)
(*      e.ids / e.mk / e.mview: what SpaceChainMachine (layer C) predicted for this chain, e.oids observed ---- *)
ChainClauses(e) ==
  LET x == ChainExpect(e.d, e.path)
      rx == AStep(x, COp("real_space", "", <<>>))        \* the space x.real / x.imag live in
  IN  IF x.k # "ok" THEN {}
      ELSE (IF e.out.k = "raise" THEN {<<"chain-raises", e.id, 0, 0>>}
            ELSE {<<"chain-" \o f, e.id, 0, 0>> : f \in ViewDiff(e.out.view, x.view, x.wclaim)})
      \cup (IF e.out.k = "ok" /\ ViewDiff(e.out.view, x.view, x.wclaim) = {} /\ x.wclaim
             THEN {<<"chain-vs-direct-" \o f, e.id, 0, 0>> : f \in PairSet(e)} ELSE {})
      \* the same chain from an independently constructed equal space gives an equal space
      \cup (IF e.fresh \notin {"equal", "n/a"} THEN {<<"chain-history-dependent:" \o e.fresh, e.id, 0, 0>>} ELSE {})
      \* element level: real / imaginary part and conjugate against NumPy on asarray, and the space they live in
      \cup (IF e.elem.k = "ok"
             THEN {<<"chain-element-" \o f, e.id, 0, 0>> : f \in {e.elem.bad[i] : i \in 1..Len(e.elem.bad)}}
                  \cup {<<"chain-real-part-space-" \o f, e.id, 0, 0>> : f \in ViewDiff(e.elem.rview, rx.view, rx.wclaim)}
             ELSE IF e.elem.k = "raise" THEN {<<"chain-element-raises", e.id, 0, 0>>} ELSE {})
ChainDrift(e) ==
       (IF e.mk # e.out.k THEN {<<"chain-" \o e.mk \o "-modelled-" \o e.out.k \o "-observed", e.id, 0>>} ELSE {})
  \cup (IF e.mk = "ok" /\ e.out.k = "ok" /\ e.mview # e.out.view THEN {<<"chain-view", e.id, 0>>} ELSE {})
  \cup (IF e.out.k = "ok" /\ e.ids # e.oids THEN {<<"chain-identity-pattern", e.id, 0>>} ELSE {})

(* ---- histories of construction / hashing / in-place mutation: e.acts, e.nw, e.eq (observed matrix at the   *)
(*      end of the history), e.hs / e.h (hash status / class of every live object at the end) ---- *)
HistClauses(e) ==
  LET stt == HFold(HInit(e.nw), e.acts, 1)
      n == Len(stt.objs)
      T(i, j) == e.eq[i][j] = "T"
  IN   {<<"history-eq-raises", e.id, i, j>> : <<i, j>> \in {p \in (1..n) \X (1..n) : e.eq[p[1]][p[2]] \notin {"T", "F"}}}
  \cup {<<"history-reflexive", e.id, i, i>> : i \in {i \in 1..n : ~T(i, i)}}
  \cup {<<"history-symmetric", e.id, p[1], p[2]>> : p \in {p \in (1..n) \X (1..n) : p[1] < p[2] /\ T(p[1], p[2]) # T(p[2], p[1])}}
  \cup {<<"history-equal-objects-unequal-hash", e.id, p[1], p[2]>> :
          p \in {p \in (1..n) \X (1..n) : /\ p[1] < p[2] /\ T(p[1], p[2])
                                           /\ e.hs[p[1]] = "ok" /\ e.hs[p[2]] = "ok" /\ e.h[p[1]] # e.h[p[2]]}}
  \cup {<<"history-differs-from-reference", e.id, p[1], p[2]>> :
          p \in {p \in (1..n) \X (1..n) : T(p[1], p[2]) # HEq(stt, stt.objs[p[1]], stt.objs[p[2]])}}
  \cup (IF Len(e.eq) # n THEN {<<"history-object-count", e.id, 0, 0>>} ELSE {})

(* ---- parts of a partition against the directly constructed set: e.k, e.pair ---- *)
PartClauses(e) ==
  IF e.k = "raise" THEN {<<"partition-" \o e.op \o "-raises", e.id, 0, 0>>}
  ELSE {<<"partition-" \o e.op \o "-vs-direct-" \o f, e.id, 0, 0>> : f \in PairSet(e)}

(* ---- element indexing commutes with asarray: e.out in equal | differ | raise-elem | raise-array | raise-both ---- *)
IndexClauses(e) ==
  IF e.out \in {"equal", "raise-both"} THEN {} ELSE {<<"indexing-" \o e.out, e.id, 0, 0>>}

Clauses(e) ==
  CASE e.ev = "obj" -> ObjClauses(e)
    [] e.ev = "element" -> ElementClauses(e)
    [] e.ev = "derived" -> DerivedClauses(e)
    [] e.ev = "index" -> IndexClauses(e)
    [] e.ev = "chain" -> ChainClauses(e)
    [] e.ev = "hist" -> HistClauses(e)
    [] e.ev = "part" -> PartClauses(e)

\* family features of a pair of objects (they name the cell in the signature of a finding); none is left on the
\* current tree, the classes of the two objects identify the family
Feat(a, b) == {}
WithFeat(e, bad) ==
  {[c |-> t[1], i |-> t[2], j |-> t[3], k |-> t[4],
    f |-> IF e.ev = "obj" THEN Feat(Trace[t[2]].d, Trace[t[3]].d)
                               \cup (IF t[4] # 0 THEN Feat(Trace[t[3]].d, Trace[t[4]].d) \cup Feat(Trace[t[2]].d, Trace[t[4]].d) ELSE {})
          ELSE {}] : t \in bad}

TraceInit == l = 1

TraceStep ==
  /\ l <= Len(Trace)
  /\ LET e == Trace[l]
         bad == Clauses(e)
         drift == IF e.ev = "obj" THEN ObjDrift(e) ELSE IF e.ev = "derived" THEN DerivedDrift(e)
                  ELSE IF e.ev = "chain" THEN ChainDrift(e) ELSE {}
         notes == IF e.ev = "obj" THEN ObjNotes(e) ELSE {}
     IN  /\ (IF bad = {} THEN TRUE ELSE PrintT("FAIL " \o ToJson([line |-> l, bad |-> WithFeat(e, bad)])))
         /\ (IF drift = {} THEN TRUE ELSE PrintT("DRIFT " \o ToJson([line |-> l, drift |-> drift])))
         /\ (IF notes = {} THEN TRUE ELSE PrintT("NOTE " \o ToJson([line |-> l, notes |-> notes])))
  /\ l' = l + 1

TraceSpec == TraceInit /\ [][TraceStep]_l

\* every line of the trace was consumed
TraceAccepted == TLCGet("stats").diameter - 1 = Len(Trace)
=============================================================================

----------------------------- MODULE Trace_Norm -----------------------------
(***************************************************************************)
(* Layer D (EXT/normalize): validates events recorded from the REAL        *)
(* functions of odl/util/normalize.py, utility.py, numerics.py.            *)
(*   case event     [id, fn, a, o, x]   one public call: abstract          *)
(*                  arguments a (the projection of the concrete ones), the *)
(*                  projected outcome o, extras x (index: the flat entries *)
(*                  NumPy selects with the caller's expression (sin) and   *)
(*                  with the normalised one (sout); <<-1>> = NumPy raised; *)
(*                  axes: NumPy's normalize_axis_tuple (np))               *)
(*   history event  [id, fn |-> "hist", a |-> [m, hist], o]  the observed  *)
(*                  state of a real object after the history               *)
(* Layer A (NormSem) / the documented step functions (NormMachine) are     *)
(* re-evaluated on the logged arguments.  TOTAL: a rejected event prints   *)
(* <<"FAIL", line, id, clauses>> and validation continues; TraceAccepted   *)
(* checks that every line was consumed.                                    *)
(***************************************************************************)
EXTENDS NormMachine, Json, IOUtils

Trace == ndJsonDeserialize(IOEnv.TRACE_FILE)
VARIABLE l

ErrIn(al) == al # ANY /\ \E a \in al : a.k = "err"
OkIn(al) == al # ANY /\ \E a \in al : a.k = "ok"
CaseClauses(e) ==
  LET al == Allowed(e.fn, e.a)
      cell == Cell(e.fn, e.a)
  IN  IF ~MatchesCase(e.fn, e.a, e.o)
        THEN {<<(IF e.o.k = "err"
                   THEN (IF ErrIn(al) THEN (IF e.o.v \in Internal THEN "error-class-internal" ELSE "error-class") ELSE "raised")
                 ELSE IF e.o.k # "ok" THEN "projection"
                 ELSE IF ~OkIn(al) THEN "no-error" ELSE "value"), e.fn, cell>>}
      ELSE IF e.fn = "index" /\ e.o.k = "ok" /\ al # ANY
        THEN LET r == CHOOSE a \in al : a.k = "ok"
                 want == FlatSel(r.v.v, e.a.shape)
             IN  (IF e.x.sout # want THEN {<<"selects-other-entries", e.fn, cell>>} ELSE {})
                 \cup (IF e.x.sin # <<-1>> /\ e.x.sin # want THEN {<<"numpy-disagrees", e.fn, cell>>} ELSE {})
      \* NumPy's own normalize_axis_tuple on the same arguments (<<-1>> = NumPy raised)
      ELSE IF e.fn = "axes" /\ e.o.k = "ok" /\ al # ANY /\ e.x.np # <<-1>>
        THEN (IF e.o.v.k = "tuple" /\ [i \in 1..Len(e.o.v.v) |-> e.o.v.v[i].v] = e.x.np THEN {}
              ELSE {<<"numpy-disagrees", e.fn, cell>>})
      ELSE {}
LastAct(h) == IF h = <<>> THEN "init" ELSE h[Len(h)].a
HistClauses(e) ==
  LET mm == e.a.m  h == e.a.hist  o == e.o IN
  IF mm = "wa-either"
    THEN (IF o.obj \in {Run("wa-alias", h).obj, Run("wa-snap", h).obj} /\ o.exc = Run("wa-snap", h).exc THEN {}
          ELSE {<<"history-state", mm, LastAct(h)>>})
  ELSE LET s == Run(mm, h) IN
       IF CASE mm \in {"wa-alias", "wa-snap"} -> o.obj = s.obj /\ o.arrs = WaArrs(mm, s) /\ o.exc = s.exc
            [] mm = "rng" -> o.g = s.g /\ o.obs = s.obs
            [] mm = "po" -> o.g = s.g
            [] mm = "cache" -> o.hits = s.hits /\ o.misses = s.misses /\ o.size = Len(s.lru) /\ o.last = s.last
         THEN {} ELSE {<<"history-state", mm, LastAct(h)>>}
Clauses(e) == IF e.fn = "hist" THEN HistClauses(e) ELSE CaseClauses(e)

TraceInit == l = 1 /\ case = NoCase /\ m = "trace" /\ hist = <<>> /\ st = 0
TraceStep ==
  /\ l <= Len(Trace)
  /\ LET e == Trace[l]  bad == Clauses(e)
     IN  IF bad = {} THEN TRUE ELSE PrintT(<<"FAIL", l, e.id, bad>>)
  /\ l' = l + 1
  /\ UNCHANGED nvars
TraceSpec == TraceInit /\ [][TraceStep]_<<l, case, m, hist, st>>
TraceAccepted == TLCGet("stats").diameter - 1 = Len(Trace)
NoCases == {}
NoMachines == {}
NoLen(mm) == 0
=============================================================================

SPECIFICATION TraceSpec
CONSTANTS
  W <- TrW
  Roots <- TrRoots
  MaxChain <- TrMaxChain
  PtV <- TrPt
  PtS <- TrPt
  NDeriv <- TrNDeriv
POSTCONDITION TraceAccepted
CHECK_DEADLOCK FALSE

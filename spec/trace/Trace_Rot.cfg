SPECIFICATION TraceSpec
CONSTANTS
  Axes <- NoSet
  Angles <- NoSet
  Shifts <- NoSet
  Targets <- NoSet
  EulerSet <- NoSet
  P0 <- NoVec
  Q0 <- NoVec
  MaxLen <- Zero
  Budget <- Zero
POSTCONDITION TraceAccepted
CHECK_DEADLOCK FALSE

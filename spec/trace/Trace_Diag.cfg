SPECIFICATION TraceSpec
CONSTANTS
  Cases <- NoCases
  Machines <- NoMachines
  MaxLenOf <- NoLen
POSTCONDITION TraceAccepted
CHECK_DEADLOCK FALSE

--------------------------- MODULE Trace_Derivative ---------------------------
(***************************************************************************)
(* Layer D for C06 (built-in operators with closed-form derivatives).       *)
(* The limit of central differences cannot be computed inside TLA+ for      *)
(* non-polynomial maps, so this clause is RELATIONAL: the numbers come from *)
(* the real code, the relation from the specification.  One event per       *)
(* (operator, base point x, direction d):                                   *)
(*   q1, q2, q3 : || (op(x+h d)-op(x-h d))/(2h) - op.derivative(x)(d) ||    *)
(*                for h = h0, h0/2, h0/4, relative to the scale of the      *)
(*                derivative, quantised to integers (unit 2^-26)            *)
(*   lin, domok, ranok : op.derivative(x) is flagged linear / has the       *)
(*                operator's domain / range                                 *)
(* A central difference has error O(h^2): halving h must divide the error   *)
(* by about 4 (we demand 3, plus a rounding floor), and the last error must *)
(* be small.  A wrong derivative leaves a constant error: q2 ~ q1.          *)
(***************************************************************************)
EXTENDS Integers, Sequences, TLC, Json, IOUtils

Trace == ndJsonDeserialize(IOEnv.TRACE_FILE)
VARIABLE l
Floor == 24
Small == 67108            \* 1e-3 in units of 2^-26

Clauses(e) ==
  IF e.err # "" THEN {<<"raised", e.err>>}
  ELSE (IF ~e.lin THEN {<<"derivative-not-linear", "">>} ELSE {})
       \cup (IF ~e.domok \/ ~e.ranok THEN {<<"derivative-wrong-spaces", "">>} ELSE {})
       \cup (IF 3 * e.q2 > e.q1 + Floor \/ 3 * e.q3 > e.q2 + Floor THEN {<<"no-central-difference-convergence", "">>} ELSE {})
       \cup (IF e.q3 > Small THEN {<<"far-from-limit", "">>} ELSE {})

TraceInit == l = 1
TraceStep ==
  /\ l <= Len(Trace)
  /\ LET e == Trace[l] bad == Clauses(e)
     IN IF bad = {} THEN TRUE ELSE PrintT(<<"FAIL", l, e.id, bad>>)
  /\ l' = l + 1
TraceSpec == TraceInit /\ [][TraceStep]_l
TraceAccepted == TLCGet("stats").diameter - 1 = Len(Trace)
=============================================================================

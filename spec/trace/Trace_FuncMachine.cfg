SPECIFICATION TraceSpec
CONSTANTS
  Sp <- TrSp
  Depth <- TrDepth
  LeafFilter <- TrNone
  RuleFilter <- TrNone
  DeepLeaves <- TrNone
POSTCONDITION TraceAccepted
CHECK_DEADLOCK FALSE

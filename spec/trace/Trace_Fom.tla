------------------------------ MODULE Trace_Fom ------------------------------
(***************************************************************************)
(* Layer D (EXT/fom): validates events recorded from the REAL functions of *)
(* odl.contrib.fom, odl.util.zscore and odl.contrib.param_opt.             *)
(*   exact event   [id, c, o]   c = the abstract case (FomSem case record: *)
(*                 the projection of the concrete arguments), o = [k, v]   *)
(*                 the projected outcome ("q" rational / token, "arr"      *)
(*                 sequence, "sph" <<bins, total>>, "err" exception name,  *)
(*                 "off" not on any small-denominator lattice)             *)
(*   relational    [id, c |-> [fn |-> "rel", rule, x, ...], o]  quantised  *)
(*                 observations x (denominator 2^14) of irrational FOMs;   *)
(*                 the documented identities are checked with +-SLACK      *)
(* Layer A (FomSem.Allowed) is re-evaluated on the logged arguments.       *)
(* TOTAL: a rejected event prints <<"FAIL", line, id, clauses>> and        *)
(* validation continues; TraceAccepted checks every line was consumed.     *)
(* Where layer A is silent (degenerate denominators) the event is compared *)
(* with the code model (FomImpl) and a difference prints <<"DRIFT", ...>>. *)
(***************************************************************************)
EXTENDS FomImpl, Json, IOUtils

Trace == ndJsonDeserialize(IOEnv.TRACE_FILE)
VARIABLE l

QD == 16384
\* overflow-safe comparison in units of 1/QD (observations are dyadic with denominator dividing QD; TLC is 32-bit)
ToQD(q) == IF Mod(QD, q[2]) = 0 THEN q[1] * (QD \div q[2])
           ELSE IF Mod(q[2], QD) = 0 THEN q[1] \div (q[2] \div QD)
           ELSE (q[1] * QD) \div q[2]
Near(a, b, k) == Abs(ToQD(a) - ToQD(b)) <= k + 1
Within(a, lo, hi, k) == ToQD(lo) - k - 1 <= ToQD(a) /\ ToQD(a) <= ToQD(hi) + k + 1
GeQ(a, lo, k) == ToQD(lo) - k - 1 <= ToQD(a)
S == 3

RelBad(c) ==
  LET x == c.x IN
  IF \E i \in 1..Len(x) : x[i][2] = 0 THEN {"not-finite"} ELSE
  CASE c.rule = "ssim" ->
         \* x = <<s, s_normalized, s_flb, s_both, s_explicit_dynamic_range, s(g, g)>>
         (IF Within(x[1], QI(-1), QOne, S) THEN {} ELSE {"range"})
         \cup (IF Near(x[2], QHalf(QAdd(x[1], QOne)), S) THEN {} ELSE {"normalized"})
         \cup (IF Near(x[3], QNeg(x[1]), S) THEN {} ELSE {"flb"})
         \cup (IF Near(x[4], QHalf(QSub(QOne, x[1])), S) THEN {} ELSE {"normalized-flb"})
         \cup (IF Near(x[5], x[1], S) THEN {} ELSE {"dynamic-range-default"})
         \cup (IF Near(x[6], QOne, S) THEN {} ELSE {"optimum"})
    [] c.rule = "haarpsi" ->
         \* x = <<h(f, g; c), h(g, f; c), h(g, g), h(f, g) default c, h(f, g; c = 3 sqrt(max|g|)) explicit>>
         (IF Within(x[1], QZero, QOne, S) /\ Within(x[4], QZero, QOne, S) THEN {} ELSE {"range"})
         \cup (IF Near(x[1], x[2], S) THEN {} ELSE {"symmetric"})
         \cup (IF Near(x[3], QOne, S) THEN {} ELSE {"optimum"})
         \cup (IF Near(x[4], x[5], S) THEN {} ELSE {"default-c"})
    [] c.rule = "hsmap" ->
         \* x = <<min HS, max HS, max |HS(f,g) - HS(g,f)|, min W, max |W(f,g) - W(g,f)|>>
         (IF GeQ(x[1], <<1, 2>>, S) /\ GeQ(QOne, x[2], S) THEN {} ELSE {"range"})
         \cup (IF Near(x[3], QZero, S) /\ Near(x[5], QZero, S) THEN {} ELSE {"symmetric"})
         \cup (IF GeQ(x[4], QZero, S) THEN {} ELSE {"weight-nonnegative"})
    [] c.rule = "nps" ->
         \* x = <<max |NPS(g, g)|, min NPS(f, g), max |NPS(f, g) - NPS(g, f)|>>
         (IF Near(x[1], QZero, S) THEN {} ELSE {"optimum"})
         \cup (IF GeQ(x[2], QZero, S) THEN {} ELSE {"nonnegative"})
         \cup (IF Near(x[3], QZero, S) THEN {} ELSE {"symmetric"})
    [] c.rule = "blurk" ->
         \* x = <<blurring(f, g, m, k), mse(f, g, mask = exp(-EDT(m)/k)), the same two normalized>>
         \* (either documented reading: "equivalent to mean_squared_error" or the displayed formulas)
         \* x[5], x[6]: the displayed formulas ||a(f-g)||^2 and ||a(f-g)||^2 / (||af||^2 + ||ag||^2) from ODL norms
         (IF Near(x[1], x[2], S) \/ Near(x[1], x[5], S) THEN {} ELSE {"weight"})
         \cup (IF Near(x[3], x[4], S) \/ Near(x[3], x[6], S) THEN {} ELSE {"weight-normalized"})
    [] c.rule = "optpar" ->
         \* x = <<theta observed>>, xs / ys the exact phantoms / data: theta* = sum <x_i, y_i> / sum <y_i, y_i>
         (IF Near(x[1], ArgminScale(c.xs, c.ys), 16) THEN {} ELSE {"argmin"})
    [] c.rule = "noise" ->
         \* x = <<est(const), est(affine), est(f), est(3 f), est(randn)>>
         (IF Near(x[1], QZero, S) /\ Near(x[2], QZero, S) THEN {} ELSE {"noise-free"})
         \cup (IF Abs(ToQD(x[4]) - 3 * ToQD(x[3])) <= 3 * S + 4 THEN {} ELSE {"homogeneous"})
         \cup (IF GeQ(x[3], QZero, 0) THEN {} ELSE {"nonnegative"})
         \* x[5] = est(standard normal image with >= 40000 pixels): documented "should be about 1"
         \cup (IF Within(x[5], <<9, 10>>, <<11, 10>>, 0) THEN {} ELSE {"about-one"})
    [] OTHER -> {"unknown-rule"}

HasErr(al) == \E a \in al : a.k = "err"
Clauses(e) ==
  IF e.c.fn = "rel" THEN {<<b, e.c.rule>> : b \in RelBad(e.c)}
  ELSE LET al == Allowed(e.c) IN
       IF e.mut = 1 THEN {<<"input-mutated", e.c.fn>>}
       ELSE IF IsAny(al) \/ IsIrr(al) \/ Member(e.o, al)
         \* filter_image_sep2d: "its dtype is np.result_type(image, fh, fv)" (dtdoc, when all three are arrays)
         THEN (IF "dt" \in DOMAIN e.o /\ "dtdoc" \in DOMAIN e.c /\ e.o.dt # e.c.dtdoc THEN {<<"dtype", e.c.fn>>} ELSE {})
       ELSE {<<(IF e.o.k = "err" THEN "raised"
                ELSE IF HasErr(al) THEN "no-error"
                ELSE IF e.o.k = "off" THEN "value-off-lattice"
                ELSE "value"), e.c.fn>>}
Drift(e) ==
  e.c.fn # "rel" /\ HasImpl(e.c) /\ IsAny(Allowed(e.c)) /\ ~IsIrr(Impl(e.c)) /\ ~Member(e.o, Impl(e.c))

TraceInit == l = 1
TraceStep ==
  /\ l <= Len(Trace)
  /\ LET e == Trace[l]  bad == Clauses(e)
     IN  /\ IF bad = {} THEN TRUE ELSE PrintT(<<"FAIL", l, e.id, bad>>)
         /\ IF Drift(e) THEN PrintT(<<"DRIFT", l, e.id, e.c.fn>>) ELSE TRUE
  /\ l' = l + 1
TraceSpec == TraceInit /\ [][TraceStep]_l
TraceAccepted == TLCGet("stats").diameter - 1 = Len(Trace)
=============================================================================

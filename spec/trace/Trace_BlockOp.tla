---------------------------- MODULE Trace_BlockOp ----------------------------
(***************************************************************************)
(* Layer D: validates events recorded from REAL ODL block operators against *)
(* BlockOpSem / BlockOpMachine.  One event = one real object and the calls  *)
(* made on it (the history on that one object):                            *)
(*   [id, tid, root, chain, built, err, int0, dom, df, ran, rf, lin,        *)
(*    shape, len, size, calls]                                              *)
(*   root  : operator description (BlockOpSem!Desc) the driver wrote        *)
(*   chain : the public calls applied to it (BlockOpMachine steps)          *)
(*   built : the constructor call returned;  err : "" or what raised        *)
(*   dom / ran : factor types of the real object's domain / range, df / rf  *)
(*           whether they are the factor itself rather than a product space *)
(*   calls : [mode, x, y, tok, note] - x the input, y the projected result  *)
(*           (tok # "" : raised / left the lattice), note : protocol breach *)
(* The meaning of the object is recomputed from layer A; the specification  *)
(* is TOTAL: a rejected event is printed <<"FAIL", line, id, clauses>> and  *)
(* validation continues.  clauses = set of <<clause, call mode>>.           *)
(***************************************************************************)
EXTENDS BlockOpMachine, Json, IOUtils

Impl == INSTANCE BlockOpImpl WITH RowZeroRangeBug <- (IOEnv.BO_ROWBUG # "0")

Trace == ndJsonDeserialize(IOEnv.TRACE_FILE)
VARIABLE l

TrW == CASE IOEnv.BO_PROFILE = "RW" -> <<Q(2, 1), Q(1, 2)>>
         [] IOEnv.BO_PROFILE = "RD" -> <<Q(1, 2), Q(1, 2)>>
         [] OTHER -> <<QOne, QOne>>

\* is the step one the machine offers on this object (the drivers only take enabled steps)?
Enabled(N, s, pre) ==
  CASE s.a = "adjoint" -> LinearN(N)
    [] s.a = "deriv"   -> Len(s.x) = NCols(N)
    [] s.a = "row"     -> N.k = "pso" /\ s.i \in 1..NRows(N)
    [] s.a = "block"   -> N.k = "pso" /\ s.i \in 1..NRows(N) /\ s.j \in 1..NCols(N)
    [] s.a = "part"    -> N.k \in {"bc", "red", "diag"} /\ s.i \in 1..LenN(N)
    [] s.a = "inverse" -> InverseOffered(N, pre)
    [] OTHER -> FALSE

\* meaning of the object after the first k steps; [ok |-> FALSE, why |-> "step-not-enabled"] if the driver left the machine
RECURSIVE Replay(_, _, _)
Replay(N, ch, k) ==
  IF k = 0 THEN N
  ELSE LET P == Replay(N, ch, k - 1)
       IN  IF ~P.ok THEN P
           ELSE IF Terminal(P) \/ ~Enabled(P, ch[k], SubSeq(ch, 1, k - 1)) THEN Rej("step-not-enabled")
           ELSE Apply(P, ch[k])

\* the open row-extraction finding: a P[i] step on a row with an absent entry in a column of another factor
DefectOnChain(N0, ch) ==
  \E k \in 1..Len(ch) :
     /\ ch[k].a = "row"
     /\ LET P == Replay(N0, ch, k - 1) IN P.ok /\ P.k = "pso" /\ ch[k].i \in 1..NRows(P) /\ Impl!RowDefectCell(P, ch[k].i)

CallClauses(o, N, c) ==
  (IF c.mode = "alias" /\ ~AliasClaimed(o, N) THEN {}
   ELSE IF c.tok # "" THEN {<<"value", c.mode>>}
   ELSE IF Len(c.x) # NCols(N) THEN {<<"harness-point-shape", c.mode>>}
   ELSE IF c.y # EvalN(N, c.x) THEN {<<"value", c.mode>>} ELSE {})
  \cup (IF c.note # "" THEN {<<c.note, c.mode>>} ELSE {})

Clauses0(e) ==
  LET N0 == NormOp(e.root) IN
  IF ~N0.ok THEN (IF e.built THEN {<<"construction-accepted", "">>} ELSE {})
  ELSE IF ~e.built THEN {<<"construction-raised", "">>}
  ELSE LET N == Replay(N0, e.chain, Len(e.chain))
       IN  IF ~N.ok THEN {<<"harness-step-not-enabled", "">>}
           ELSE IF e.err # "" THEN {<<"raised", "">>}
           ELSE IF N.k = "int0" THEN (IF e.int0 THEN {} ELSE {<<"absent-block-is-not-0", "">>})
           ELSE (IF e.dom # N.dom \/ e.df # N.df THEN {<<"domain", "">>} ELSE {})
                \cup (IF e.ran # N.ran \/ e.rf # N.rf THEN {<<"range", "">>} ELSE {})
                \cup (IF e.lin # LinearN(N) THEN {<<"linear-flag", "">>} ELSE {})
                \cup (IF N.k \in {"pso", "diag"} /\ e.shape # ShapeN(N) THEN {<<"bookkeeping-shape", "">>} ELSE {})
                \cup (IF N.k \in {"pso", "bc", "red", "diag"} /\ e.len # LenN(N) THEN {<<"bookkeeping-len", "">>} ELSE {})
                \cup (IF N.k \in {"pso", "bc", "red", "diag"} /\ e.size # SizeN(N) THEN {<<"bookkeeping-size", "">>} ELSE {})
                \cup UNION { CallClauses(e.root, N, e.calls[q]) : q \in 1..Len(e.calls) }

\* a rejected event whose chain goes through a cell of the open row-extraction finding carries the marker
Clauses(e) ==
  LET bad == Clauses0(e)
  IN  IF bad # {} /\ NormOp(e.root).ok /\ DefectOnChain(NormOp(e.root), e.chain)
        THEN bad \cup {<<"row-defect-cell", "">>} ELSE bad

TraceInit == /\ l = 1 /\ root = <<>> /\ chain = <<>> /\ cur = <<>>
TraceStep ==
  /\ l <= Len(Trace)
  /\ LET e == Trace[l] bad == Clauses(e)
     IN IF bad = {} THEN TRUE ELSE PrintT(<<"FAIL", l, e.id, bad>>)
  /\ l' = l + 1
  /\ UNCHANGED <<root, chain, cur>>
TraceSpec == TraceInit /\ [][TraceStep]_<<l, root, chain, cur>>
TraceAccepted == TLCGet("stats").diameter - 1 = Len(Trace)

TrRoots == {}
TrMaxChain == 0
TrPt == <<>>
TrNDeriv == 1
=============================================================================

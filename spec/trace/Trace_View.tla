----------------------------- MODULE Trace_View -----------------------------
(***************************************************************************)
(* Layer D (extension EXT/views): validates histories recorded from REAL    *)
(* ODL objects against the transition function of ViewSem.  One event = one *)
(* public call:  [id, tid, act, init, obs]                                  *)
(*   act.op = "init" starts an episode on the heap `init` ([bufs, objs]);    *)
(*   obs = [vals, sh, ret]: the value of every live object after the call,   *)
(*   the pairs of leaves that share memory, what the call returned.         *)
(* The model state is carried along the episode (st' = Step(st, act).st).   *)
(* TOTAL: an event the model does not allow is reported                     *)
(* (<<"FAIL", line, id, clauses>>), the rest of ITS episode is skipped (the  *)
(* real heap and the model heap are no longer comparable) and validation    *)
(* continues with the next episode.                                        *)
(***************************************************************************)
EXTENDS ViewSem, Json, IOUtils

Trace == ndJsonDeserialize(IOEnv.TRACE_FILE)

VARIABLES l, st, bad
tvars == <<l, st, bad>>

Empty == [bufs |-> <<>>, objs |-> <<>>]

RetClauses(o, x) ==
  IF o = x THEN {}
  ELSE IF o.k # x.k THEN
         {<<IF o.k = "raises" THEN "raised" ELSE IF x.k = "raises" THEN "not-raised"
            ELSE IF x.k = "same" THEN "ret-identity" ELSE "ret-kind", o.e>>}
  ELSE {<<IF o.k \in {"scalar", "val"} THEN "ret-value" ELSE IF o.k = "raises" THEN "raised-type" ELSE "ret-identity", o.e>>}

ObsClauses(o, x) ==
  RetClauses(o.ret, x.ret)
  \cup (IF Len(o.vals) # Len(x.vals) THEN {<<"heap-size", "">>}
        ELSE {<<"value", "">> : i \in {i \in 1..Len(x.vals) : o.vals[i] # x.vals[i]}})
  \cup (IF {o.sh[i] : i \in 1..Len(o.sh)} # {x.sh[i] : i \in 1..Len(x.sh)} THEN {<<"sharing", "">>} ELSE {})

Clauses(e, s) ==
  IF e.act.op = "init" THEN
    LET x == Obs(e.init, RNone) IN
      {<<"init-" \o c[1], "">> : c \in ObsClauses(e.obs, x)}
  ELSE IF ~Legal(s, e.act) THEN {<<"illegal-action", e.act.op>>}
  ELSE LET r == Step(s, e.act) IN ObsClauses(e.obs, Obs(r.st, r.ret))

TraceInit == l = 1 /\ st = Empty /\ bad = 0

TraceStep ==
  /\ l <= Len(Trace)
  /\ LET e == Trace[l]
         skip == e.act.op # "init" /\ bad = e.tid
         cl == IF skip THEN {} ELSE Clauses(e, st)
     IN  /\ (IF cl = {} THEN TRUE ELSE PrintT(<<"FAIL", l, e.id, cl>>))
         /\ st' = IF e.act.op = "init" THEN e.init
                  ELSE IF skip \/ cl # {} THEN st
                  ELSE Step(st, e.act).st
         /\ bad' = IF cl # {} THEN e.tid ELSE IF e.act.op = "init" THEN 0 ELSE bad
  /\ l' = l + 1

TraceSpec == TraceInit /\ [][TraceStep]_tvars

\* every line of the trace was consumed
TraceAccepted == TLCGet("stats").diameter - 1 = Len(Trace)
=============================================================================

SPECIFICATION TraceSpec
CONSTANTS
  Catalogue <- TrCatalogue
  AliasZero <- TrFalse
  WithSplits <- TrFalse
  LatX <- TrEmpty
  LatY <- TrEmpty
POSTCONDITION TraceAccepted
CHECK_DEADLOCK FALSE

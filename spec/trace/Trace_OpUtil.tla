---------------------------- MODULE Trace_OpUtil ----------------------------
(***************************************************************************)
(* Layer D: validates events recorded from REAL ODL (operator utilities,    *)
(* ufunc operators, numerical derivatives) against OpUtilSem.  One event =  *)
(* one public call (or one short history on one object) with its inputs in  *)
(* the vocabulary of layer A and the PROJECTED observation; the expectation *)
(* is recomputed here.  The specification is TOTAL: a rejected event prints *)
(* <<"FAIL", line, id, clauses>> and validation continues.                  *)
(*                                                                         *)
(* kinds:                                                                   *)
(*  expr   [e, mr [status, shape, cplx, flat, off], sc [status, shape, cplx,*)
(*          mv, rmv, adj, off]]   matrix_representation / as_scipy_operator *)
(*          mv[j] = matvec(e_j), rmv[i] = rmatvec(e_i), adj[i] = the direct *)
(*          call op.adjoint(e_i)                                            *)
(*  pm     exact run (rtol = atol = 0): [M, wd, wr, x0, maxiter, status,    *)
(*          normal, niter, ncalls, ncb, pow, off, frame]                    *)
(*  pmrel  relational run: [ests, diag, rn, rd, atq, maxit, K, rq, ncb,     *)
(*          conv]   (quanta = 1/4096)                                       *)
(*  pmarg  [mnone, maxiter, square, hasadj, x0zero, status]                 *)
(*  nd     [kind2, fam, c, b, x, dx, nd, w, method, h, zero, status, val, off] *)
(*          kind2 = grad | deriv | hess (NumericalGradient.derivative)      *)
(*  ndstep [dtype, errq]  default step: error of the forward difference of  *)
(*          a quadratic in quanta of 2^-16                                  *)
(*  uf     [name, nin, x, y, status, val, off, lin, dstatus, dval, d]       *)
(*  ufrel  [name, recipe, dq, rq]                                           *)
(*  sf     [fam, c, b, x, val, grad, gndim, frame, off, gstatus, gw]        *)
(*          gw: weight of the space w.r.t. which the wrapped gradient is    *)
(*          the Riesz representative                                        *)
(***************************************************************************)
EXTENDS OpUtilSem, Json, IOUtils, TLC

Trace == ndJsonDeserialize(IOEnv.TRACE_FILE)
VARIABLE l

(* ------------------------------ expr ------------------------------------ *)
Cols(M, n) == [j \in 1..n |-> [i \in 1..Len(M) |-> M[i][j]]]
ExprClauses(ev) ==
  LET e == ev.e
      mro == MatRepOutcome(e)
      sco == ScipyOutcome(e)
      lin == OLinear(e)
      M == IF lin THEN FlatMat(e) \o <<>> ELSE <<>>
      wd == FlatW(ODom(e))  wr == FlatW(ORan(e))
      N == IF lin THEN AdjOf(M, wd, wr) \o <<>> ELSE <<>>
      mr == ev.mr  sc == ev.sc
      mrc == IF mro = "raises" THEN (IF mr.status # "raises" THEN {"matrep-accepted"} ELSE {})
             ELSE IF mr.status = "raises" THEN (IF mro = "ok" THEN {"matrep-raised"} ELSE {})
             ELSE IF mr.shape # MatRepShape(e) THEN {"matrep-shape"}
             ELSE (IF mr.off \/ mr.flat # MatRepFlat(e) THEN {"matrep-value"} ELSE {})
                  \cup (IF mr.cplx # MatRepCplx(e) THEN {"matrep-dtype"} ELSE {})
      scc == IF sc.status = "skipped" THEN {}
             ELSE IF sco = "raises" THEN (IF sc.status # "raises" THEN {"scipy-accepted"} ELSE {})
             ELSE IF sc.status = "raises" THEN (IF sco = "ok" THEN {"scipy-raised"} ELSE {})
             ELSE IF sc.shape # ScipyShape(e) THEN {"scipy-shape"}
             ELSE (IF sc.off \/ sc.mv # Cols(M, Len(wd)) THEN {"scipy-matvec"} ELSE {})
                  \cup (IF sc.rmv # sc.adj THEN {"scipy-rmatvec-is-not-adjoint-call"} ELSE {})
                  \cup (IF sc.adj # Cols(N, Len(wr)) THEN {"adjoint-value"} ELSE {})
                  \cup (IF sc.cplx # ODom(e).cplx THEN {"scipy-dtype"} ELSE {})
  IN mrc \cup scc

(* ------------------------------ pm -------------------------------------- *)
RECURSIVE PMIterN(_, _, _, _, _, _)
PMIterN(M, wd, wr, normal, x, n) == IF n = 0 THEN x ELSE Reduce(PMIter(M, wd, wr, normal, PMIterN(M, wd, wr, normal, x, n - 1)))
PMEstAt(ev, n) == LET xa == PMIterN(ev.M, ev.wd, ev.wr, ev.normal, ev.x0, n - 1)
                  IN PMEstPow(ev.wd, xa, PMIter(ev.M, ev.wd, ev.wr, ev.normal, xa))
PMClauses(ev) ==
  LET per == IF ev.normal THEN 2 ELSE 1
      K == ev.niter
      maxit == ev.maxiter \div per
      selfadj == ev.wd = ev.wr /\ AdjOf(ev.M, ev.wd, ev.wr) = ev.M
  IN IF ev.status # "ok" THEN {"pm-raised"}
     ELSE (IF ~ev.normal /\ ~selfadj THEN {"pm-plain-on-nonselfadjoint"} ELSE {})
          \cup (IF ev.ncalls > ev.maxiter THEN {"pm-too-many-calls"} ELSE {})
          \cup (IF K < 1 THEN {"pm-no-iteration"}
                ELSE (IF ev.off \/ ev.pow # PMEstAt(ev, K) THEN {"pm-value"} ELSE {})
                     \cup (IF K < maxit /\ (K < 2 \/ PMEstAt(ev, K) # PMEstAt(ev, K - 1)) THEN {"pm-stopped-early"} ELSE {}))
          \cup (IF ev.ncb # K /\ ev.ncb # K - 1 THEN {"pm-callback-count"} ELSE {})
          \cup (IF ~ev.frame THEN {"pm-xstart-modified"} ELSE {})

MaxAbsSeq(s) == LET RECURSIVE F(_) F(i) == IF i = 0 THEN 0 ELSE Max2(Abs(s[i]), F(i - 1)) IN F(Len(s))
PMRelClauses(ev) ==
  LET E == ev.ests  n == Len(E)  K == ev.K
      normq == IF ev.diag = <<>> THEN -1 ELSE 4096 * MaxAbsSeq(ev.diag)
  IN (IF \E j \in 1..(n - 1) : E[j + 1] < E[j] - 2 THEN {"pm-not-monotone"} ELSE {})
     \cup (IF normq >= 0 /\ \E j \in 1..n : E[j] > normq + 2 THEN {"pm-exceeds-norm"} ELSE {})
     \cup (IF normq >= 0 /\ ev.conv /\ normq - E[n] > 3 THEN {"pm-not-converged"} ELSE {})
     \cup (IF K < 1 \/ K > ev.maxit \/ K > n THEN {"pm-iteration-count"}
           ELSE (IF K < ev.maxit /\ (K < 2 \/ ~PossiblyClose(E[K], E[K - 1], ev.rn, ev.rd, ev.atq)) THEN {"pm-stopped-early"} ELSE {})
                \cup (IF \E j \in 2..(K - 1) : SurelyClose(E[j], E[j - 1], ev.rn, ev.rd, ev.atq) THEN {"pm-stopped-late"} ELSE {})
                \cup (IF Abs(ev.rq - E[K]) > 2 THEN {"pm-result"} ELSE {}))
     \cup (IF ev.ncb # K /\ ev.ncb # K - 1 THEN {"pm-callback-count"} ELSE {})

PMArgClauses(ev) ==
  LET o == PMArgOutcome(ev.mnone, ev.maxiter, ev.square, ev.hasadj, ev.x0zero)
  IN (IF ev.status = "nonfinite" THEN {"pm-nonfinite-estimate"} ELSE {})
     \cup (IF o = "raises" /\ ev.status # "raises" THEN {"pmarg-accepted"} ELSE {})
     \cup (IF o = "returns" /\ ev.status = "raises" THEN {"pmarg-raised"} ELSE {})

(* ------------------------------ nd -------------------------------------- *)
\* NumericalGradient.derivative(point): "Numerical estimate of the derivative. Uses the same method as this operator
\* does, but with half the number of significant digits in the step size" = NumericalDerivative of the numerical
\* gradient OPERATOR with step sqrt(h).  For the cubic functional sum c_i x_i^3 the numerical gradient is the pointwise
\* quadratic 3c x^2 +- 3c h x (+ constant), so the documented value is again exact.
HessExp(ev) ==
  LET c3 == VScal(CInt(3), ev.c)  hs == QSqrt(ev.h)
      lin == CASE ev.method = "forward" -> VScal(CR(ev.h), c3)
               [] ev.method = "backward" -> VScal(CR(QNeg(ev.h)), c3)
               [] ev.method = "central" -> VZeroN(Len(ev.x))
  IN NumDeriv(ev.method, hs, ev.nd, "quad", c3, lin, ev.x, ev.dx)
NDClauses(ev) ==
  LET exp == IF ev.zero THEN VZeroN(Len(ev.x))
             ELSE IF ev.kind2 = "hess" THEN HessExp(ev)
             ELSE IF ev.kind2 = "grad" THEN NumGradW(ev.method, ev.h, ev.w, ev.fam, ev.c, ev.b, ev.x)
             ELSE NumDeriv(ev.method, ev.h, ev.nd, ev.fam, ev.c, ev.b, ev.x, ev.dx)
  IN IF ev.status # "ok" THEN {IF ev.zero THEN "nd-zero-direction-raised" ELSE "nd-raised"}
     ELSE IF ev.off \/ ev.val # exp THEN {IF ev.zero THEN "nd-zero-direction-value" ELSE "nd-value"} ELSE {}
\* "Default: selects the step according to the dtype of the space": the forward difference of a quadratic with
\* curvature 2 at a point of size <= 4 then has error h + rounding/h, far below these bounds (quanta 2^-16)
NDStepTol(dt) == IF dt = "float64" THEN 2 ELSE 4096
NDStepClauses(ev) == IF ev.errq > NDStepTol(ev.dtype) THEN {"nd-default-step"} ELSE {}

(* ------------------------------ uf -------------------------------------- *)
UfClauses(ev) ==
  LET two == ev.nin = 2
      \* only evaluated for the exactly representable ufuncs (ev.exact)
      exp == [i \in 1..Len(ev.x) |-> IF two THEN Uf2(ev.name, ev.x[i], ev.y[i]) ELSE Uf1(ev.name, ev.x[i])]
  IN (IF ev.status # "ok" THEN {"uf-raised"}
      ELSE IF ev.exact /\ (ev.off \/ ev.val # exp) THEN {"uf-value"} ELSE {})
     \cup (IF ev.lin /\ ev.name \notin UfTrulyLinear THEN {"uf-linear-flag"} ELSE {})
     \cup (IF ev.name \in UfWithDeriv /\ ev.dstatus \in {"raises", "raises-other"} THEN {"uf-deriv-raised"} ELSE {})
     \* Operator.derivative: "Raises OpNotImplementedError if the operator is not linear" (and has no derivative)
     \cup (IF ev.name \notin UfWithDeriv /\ ev.dstatus = "raises-other" THEN {"uf-deriv-error-class"} ELSE {})
     \cup (IF ev.name \in UfDerivExact /\ ~two /\ ev.dstatus = "ok"
              /\ ev.dval # [i \in 1..Len(ev.x) |-> CMul(UfDerivMul(ev.name, ev.x[i]), ev.d[i])]
           THEN {"uf-deriv-value"} ELSE {})
\* quantised relation: derivative(x)(d) against the recipe evaluated with the OTHER real ufunc operators
UfRelClauses(ev) ==
  (IF ev.status # "ok" THEN {"uf-deriv-raised"} ELSE {})
  \cup (IF ev.recipe # UfDerivRecipe(ev.name) THEN {"uf-deriv-recipe"} ELSE {})
  \cup (IF ev.status = "ok" /\ (Len(ev.dq) # Len(ev.rq) \/ \E i \in 1..Len(ev.dq) : Abs(ev.dq[i] - ev.rq[i]) > 2 + Abs(ev.rq[i]) \div 65536)
        THEN {"uf-deriv-relation"} ELSE {})

(* ------------------------------ sf -------------------------------------- *)
SFClauses(ev) ==
  (IF ev.status # "ok" THEN {"sf-raised"}
   ELSE (IF ev.off \/ ev.val # PolyFn(ev.fam, ev.c, ev.b, ev.x) THEN {"sf-value"} ELSE {})
        \cup (IF ev.gstatus = "raises" THEN {"sf-gradient-raised"}
              ELSE IF ev.gstatus = "ok" THEN
                   (IF ev.gndim # 1 THEN {"sf-gradient-not-flat"} ELSE {})
                   \cup (IF ev.grad # [i \in 1..Len(ev.x) |-> CScal(QInv(ev.gw), PolyFnPartial(ev.fam, ev.c, ev.b, ev.x, i))] THEN {"sf-gradient"} ELSE {})
              ELSE {})
        \cup (IF ~ev.frame THEN {"sf-input-modified"} ELSE {}))

Clauses(ev) ==
  CASE ev.kind = "expr"   -> ExprClauses(ev)
    [] ev.kind = "pm"     -> PMClauses(ev)
    [] ev.kind = "pmrel"  -> PMRelClauses(ev)
    [] ev.kind = "pmarg"  -> PMArgClauses(ev)
    [] ev.kind = "nd"     -> NDClauses(ev)
    [] ev.kind = "ndstep" -> NDStepClauses(ev)
    [] ev.kind = "uf"     -> UfClauses(ev)
    [] ev.kind = "ufrel"  -> UfRelClauses(ev)
    [] ev.kind = "sf"     -> SFClauses(ev)
    [] OTHER -> {"unknown-event-kind"}

TraceInit == l = 1
TraceStep ==
  /\ l <= Len(Trace)
  /\ LET ev == Trace[l] bad == Clauses(ev)
     IN IF bad = {} THEN TRUE ELSE PrintT(<<"FAIL", l, ev.id, bad>>)
  /\ l' = l + 1
TraceSpec == TraceInit /\ [][TraceStep]_l
TraceAccepted == TLCGet("stats").diameter - 1 = Len(Trace)
=============================================================================

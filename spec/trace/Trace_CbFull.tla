---------------------------- MODULE Trace_CbFull ----------------------------
(***************************************************************************)
(* Layer D: validates events recorded from REAL odl.solvers callbacks       *)
(* against CbFullSem.  One event = one real callback object (built from the *)
(* expression `shape` through the public constructors, & and *, or from     *)
(* eval(repr(...)) of such an object) and the history of calls / resets     *)
(* made on it, with everything that was observed:                          *)
(*   cnt    per leaf: the `iter` attribute (-1: class without counter)      *)
(*   strm   per leaf: emissions <<j, it, val>> (see CbFullSem)              *)
(*   sk     leaves whose stream could not be observed (files only)          *)
(*   res    per store leaf: the stored values seen through len / iter /     *)
(*          getitem / .results (projected AFTER the iterate object was      *)
(*          overwritten: stored items are copies)                           *)
(*   ext    per store leaf with a caller-owned list: that list              *)
(*   files  per save/show leaf: <<index, value>> of the files found         *)
(*   out    the shared channel <<leaf, j, it, val>> in the order observed   *)
(*   times  per timing leaf: <<j, microseconds printed>>                    *)
(*   nap    microseconds the driver slept before every call (lower bounds)  *)
(*   durs   per action: wall microseconds the call of the root took         *)
(*   err    "" or the class of an exception that escaped                    *)
(* Values that could not be projected are logged as -99 and therefore       *)
(* differ.  The specification is TOTAL: a rejected event prints             *)
(* <<"FAIL", line, id, clauses>>, clauses = set of <<clause, leaf index>>.  *)
(***************************************************************************)
EXTENDS CbFullSem, Json, IOUtils

Trace == ndJsonDeserialize(IOEnv.TRACE_FILE)
VARIABLE l

InSeq(x, s) == \E i \in 1..Len(s) : s[i] = x

\* calls among h[a+1..b]
RECURSIVE CallsIn(_, _, _)
CallsIn(h, a, b) == IF b <= a THEN 0 ELSE CallsIn(h, a, b - 1) + (IF h[b].a = "call" THEN 1 ELSE 0)
SameSegment(h, a, b) == \A q \in (a + 1)..b : h[q].a # "reset"

\* printed times are relational only: never negative; cumulative ("time since the initialization", restarted by reset):
\* non-decreasing between resets and at least the time that provably passed since construction / reset (the naps of
\* the driver before every call + the CallbackSleep leaves called before this leaf in every call); incremental ("runtime
\* since the last iterate" - since the previous iterate or the previous print, the weaker reading): at least ONE nap
\* from the second print of a segment on.
RECURSIVE SumSeq(_)
SumSeq(sq) == IF sq = <<>> THEN 0 ELSE sq[1] + SumSeq(Tail(sq))
SleepBefore(L, i) == SumSeq([q \in 1..(i - 1) |-> SleepUs(L[q].leaf)])
TimeClauses(leaf, i, h, T, nap) ==
  (IF \E q \in 1..Len(T) : T[q][2] < 0 THEN {<<"time-negative", i>>} ELSE {})
  \cup (IF leaf.opt = "cum" /\ \E q \in 2..Len(T) : SameSegment(h, T[q - 1][1], T[q][1]) /\ T[q][2] < T[q - 1][2]
        THEN {<<"time-not-monotone", i>>} ELSE {})
  \cup (IF leaf.opt = "cum" /\ \E q \in 1..Len(T) : T[q][2] < nap * CallsIn(h, LastReset(h, T[q][1]), T[q][1])
        THEN {<<"time-cumulative-too-small", i>>} ELSE {})
  \cup (IF leaf.opt = "inc" /\ \E q \in 2..Len(T) : SameSegment(h, T[q - 1][1], T[q][1]) /\ T[q][2] < nap
        THEN {<<"time-increment-too-small", i>>} ELSE {})

\* an incremental step-1 leaf to the right of a cumulative step-1 leaf measures consecutive pieces of the interval the
\* cumulative one measures: within a segment the increments up to a call sum to at most the cumulative time printed in
\* that call + the wall time of that call of the root (durs[j], measured by the driver: the two prints of one call lie
\* inside it) + 2 ms for rounding of the printed numbers.  Only for events recorded with naps.
PairClauses(e, L) ==
  IF e.nap = 0 THEN {}
  ELSE { <<"time-increments-exceed-cumulative", i2>> : i2 \in
           { b \in 1..Len(L) : /\ L[b].leaf.k = "timing" /\ L[b].leaf.opt = "inc" /\ L[b].leaf.step = 1
                               /\ \E a \in 1..(b - 1) :
                                    /\ L[a].leaf.k = "timing" /\ L[a].leaf.opt = "cum" /\ L[a].leaf.step = 1
                                    /\ \E q \in 1..Len(e.times[a]) :
                                         LET j == e.times[a][q][1]
                                             inc == SelectSeq(e.times[b], LAMBDA t : t[1] <= j /\ SameSegment(e.hist, t[1], j))
                                         IN  SumSeq([p \in 1..Len(inc) |-> inc[p][2]]) > e.times[a][q][2] + e.durs[j] + 2000 } }

LeafClauses(e, O, L, i) ==
  LET lf == L[i].leaf IN
  (IF e.cnt[i] # O.cnt[i] THEN {<<"counter", i>>} ELSE {})
  \cup (IF ~InSeq(i, e.sk) /\ e.strm[i] # O.strm[i] THEN {<<"stream", i>>} ELSE {})
  \cup (IF lf.k = "store" /\ e.res[i] # O.res[i] THEN {<<"results", i>>} ELSE {})
  \cup (IF lf.k = "store" /\ lf.opt = "caller" /\ e.ext[i] # O.res[i] THEN {<<"caller-list", i>>} ELSE {})
  \cup (IF e.files[i] # O.files[i] THEN {<<"files", i>>} ELSE {})
  \cup (IF lf.k = "timing" THEN TimeClauses(lf, i, e.hist, e.times[i], e.nap + SleepBefore(L, i)) ELSE {})

Arity(e, n) == Len(e.cnt) = n /\ Len(e.strm) = n /\ Len(e.res) = n /\ Len(e.ext) = n /\ Len(e.files) = n /\ Len(e.times) = n /\ Len(e.durs) = Len(e.hist)

Clauses(e) ==
  LET L == Leaves(e.shape, 1) O == Obs(e.shape, e.hist) IN
  IF e.err # "" THEN {<<"raised", 0>>}
  ELSE IF ~Arity(e, Len(L)) THEN {<<"harness-arity", 0>>}
  ELSE LET per == UNION { LeafClauses(e, O, L, i) : i \in 1..Len(L) }
       IN  per \cup PairClauses(e, L) \cup (IF { c \in per : c[1] = "stream" } = {} /\ e.out # O.out THEN {<<"channel-order", 0>>} ELSE {})

TraceInit == l = 1
TraceStep ==
  /\ l <= Len(Trace)
  /\ LET e == Trace[l] bad == Clauses(e)
     IN IF bad = {} THEN TRUE ELSE PrintT(<<"FAIL", l, e.id, bad>>)
  /\ l' = l + 1
TraceSpec == TraceInit /\ [][TraceStep]_l
TraceAccepted == TLCGet("stats").diameter - 1 = Len(Trace)
=============================================================================

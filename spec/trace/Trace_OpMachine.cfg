SPECIFICATION TraceSpec
CONSTANTS
  W <- TrW
POSTCONDITION TraceAccepted
CHECK_DEADLOCK FALSE

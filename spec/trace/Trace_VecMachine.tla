-------------------------- MODULE Trace_VecMachine --------------------------
(***************************************************************************)
(* Layer D: validates events recorded from REAL ODL elements against the   *)
(* VecMachine transition function.  One event = one public call:           *)
(*   [id, tid, act, pre, post, ret, err]                                   *)
(* pre/post: projected heap (tuple of values, one per live object);        *)
(* ret: [k |-> "obj", o] (the very object o was returned) or               *)
(*      [k |-> "new", v] (a fresh object with value v).                    *)
(* The specification is TOTAL: an event the machine does not allow is      *)
(* reported (PrintT <<"FAIL", line, id, clauses>>) and validation goes on. *)
(***************************************************************************)
EXTENDS VecMachine, Json, IOUtils

Trace == ndJsonDeserialize(IOEnv.TRACE_FILE)

VARIABLE l
tvars == <<heap, act, ret, l>>

Clauses(e, prev) ==
  LET exp == Post(e.pre, e.act)
      nobj == Len(e.pre)
  IN  IF e.err # "" THEN {<<"raised", e.err>>}
      ELSE
        {<<"value", o>> : o \in {o \in 1..nobj : e.post[o] # exp.heap[o]}}
        \cup (IF Len(e.post) # nobj THEN {<<"heap-size", 0>>} ELSE {})
        \cup (IF exp.ret.k = "obj" /\ (e.ret.k # "obj" \/ e.ret.o # exp.ret.o)
                THEN {<<"ret-is-not-out", exp.ret.o>>} ELSE {})
        \cup (IF exp.ret.k = "new" /\ e.ret.k # "new"
                THEN {<<"ret-not-fresh", e.ret.o>>} ELSE {})
        \cup (IF exp.ret.k = "new" /\ e.ret.k = "new" /\ e.ret.v # exp.ret.v
                THEN {<<"ret-value", 0>>} ELSE {})
        \* continuity inside an episode: nothing changes between two calls
        \cup (IF prev.tid = e.tid /\ prev.tid # 0 /\ SubSeq(e.pre, 1, Len(prev.post)) # prev.post
                THEN {<<"discontinuity", 0>>} ELSE {})

NoEvent == [tid |-> 0, post |-> <<>>]

TraceInit == /\ l = 1 /\ heap = <<>> /\ act = NoAct /\ ret = RObj(0)

TraceStep ==
  /\ l <= Len(Trace)
  /\ LET e == Trace[l]
         prev == IF l = 1 THEN NoEvent ELSE [tid |-> Trace[l - 1].tid, post |-> Trace[l - 1].post]
         bad == Clauses(e, prev)
     IN  /\ (IF bad = {} THEN TRUE ELSE PrintT(<<"FAIL", l, e.id, bad>>))
         /\ heap' = e.post
         /\ act' = e.act
         /\ ret' = [k |-> e.ret.k, o |-> e.ret.o, v |-> e.ret.v]
  /\ l' = l + 1

TraceSpec == TraceInit /\ [][TraceStep]_tvars

\* every line of the trace was consumed
TraceAccepted == TLCGet("stats").diameter - 1 = Len(Trace)

\* constants of VecMachine are irrelevant for Post; fixed dummies
TrNObj == 3
TrVecSet == {}
TrScalars == {}
TrIntOnly == FALSE
TrPowers == {}
=============================================================================

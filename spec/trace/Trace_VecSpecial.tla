------------------------- MODULE Trace_VecSpecial -------------------------
(* Layer D for the special-value stage of C01: every event is one public    *)
(* call on real ODL elements, [id, case |-> [op, a, b, x, y], val, err];    *)
(* the observed vector must be entry-wise acceptable (VecSpecial!Allowed).  *)
(* Total: a rejected event prints <<"FAIL", line, id, clauses>>.            *)
EXTENDS VecSpecial, Json, IOUtils, TLC

Trace == ndJsonDeserialize(IOEnv.TRACE_FILE)
VARIABLE l

Clauses(e) ==
  IF e.err # "" THEN {<<"raised", e.err>>}
  ELSE {<<"entry", k, IF k = 0 THEN NaN ELSE Expect(e.case)[k]>> : k \in BadEntries(e.case, e.val)}

TraceInit == l = 1
TraceStep ==
  /\ l <= Len(Trace)
  /\ LET e == Trace[l]
         bad == Clauses(e)
     IN  IF bad = {} THEN TRUE ELSE PrintT(<<"FAIL", l, e.id, bad>>)
  /\ l' = l + 1
TraceSpec == TraceInit /\ [][TraceStep]_l
TraceAccepted == TLCGet("stats").diameter - 1 = Len(Trace)
=============================================================================

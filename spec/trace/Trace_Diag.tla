----------------------------- MODULE Trace_Diag -----------------------------
(***************************************************************************)
(* Layer D (EXT/diag): validates events recorded from the REAL             *)
(* odl.diagnostics.OperatorTest / SpaceTest and odl.util.testutils.        *)
(*   optest   [op, meth, N, tol, vb, obs, exc]  one public method of an     *)
(*            OperatorTest on a planted-defect operator; obs = the tokens   *)
(*            parsed from the captured output (see DiagSem!Tok)             *)
(*   sptest   [sp, meth, tol, vb, obs, exc]     the same for SpaceTest      *)
(*   generic  [cls, expect, obs]  a real ODL space / operator (no exact     *)
(*            model): correct objects are clean, grossly wrong ones are     *)
(*            reported                                                      *)
(*   cmp      [f, x, y, nd, obs]  all_equal / all_almost_equal              *)
(*   subdict  [sub, dict, obs]    digits [dt, default, nd, tolexp]          *)
(*   noise    [flags]             noise_array / _element / _elements        *)
(*   fc       [haserr, hist, obs] a history on real fail_counter objects    *)
(*   pb       [njobs, acts, writes]  a history on one real ProgressBar      *)
(*   prange   [n, values, writes]    list(ProgressRange(text, n))           *)
(*   fixture  [name, params, fmt, ids, exc]  simple_fixture naming          *)
(* Layer A is re-evaluated on the logged arguments.  TOTAL: a rejected     *)
(* event prints <<"FAIL", line, id, clauses>> and validation continues;    *)
(* TraceAccepted checks that every line was consumed.                      *)
(***************************************************************************)
EXTENDS DiagMachine, Json, IOUtils

Trace == ndJsonDeserialize(IOEnv.TRACE_FILE)
VARIABLE l

\* first sub-test on which two token sequences differ
RECURSIVE FirstDiff(_, _)
FirstDiff(a, b) == IF a = <<>> /\ b = <<>> THEN "none"
                   ELSE IF a = <<>> THEN b[1][2] ELSE IF b = <<>> THEN a[1][2]
                   ELSE IF a[1] # b[1] THEN a[1][2] ELSE FirstDiff(Tail(a), Tail(b))
TokClauses(kind, meth, exp, obs, exc) ==
  IF exc # "" THEN {<<"diagnostic-raised", kind, meth, exc>>}
  ELSE IF obs = exp THEN {}
  ELSE LET ve == Verdict(exp)  vo == Verdict(obs) IN
       {<<(IF ve = "reports" /\ vo = "clean" THEN "missed-defect"
           ELSE IF ve = "clean" /\ vo = "reports" THEN "false-alarm" ELSE "wrong-count-or-subtest"),
          kind, meth, FirstDiff(exp, obs)>>}
OpClauses(e) ==
  IF ~OpFar(e.op, e.meth, e.N, e.tol) THEN {}                     \* some sample is near the tolerance: no verdict
  ELSE TokClauses("OperatorTest", e.meth, Expected(e.op, e.meth, e.N, e.tol, e.vb), e.obs, e.exc)
SpClauses(e) ==
  IF ~SpAllFar(e.sp, e.meth, e.tol) THEN {}
  ELSE TokClauses("SpaceTest", e.meth, SpExpected(e.sp, e.meth, e.tol, e.vb), e.obs, e.exc)
\* real objects without an exact model: only the verdict class
GenClauses(e) ==
  IF e.exc # "" THEN {<<"diagnostic-raised", e.cls, e.meth, e.exc>>}
  ELSE IF e.expect = "clean" /\ Verdict(e.obs) # "clean" THEN {<<"false-alarm", e.cls, e.meth, FirstDiff(<<>>, SelectSeq(e.obs, LAMBDA t : t[1] # "C"))>>}
  ELSE IF e.expect = "reports" /\ Verdict(e.obs) # "reports" THEN {<<"missed-defect", e.cls, e.meth, "none">>}
  ELSE {}
CmpClauses(e) ==
  LET a == IF e.f = "eq" THEN AllEqual(e.x, e.y) ELSE AllAlmostEqual(e.x, e.y, e.nd) IN
  IF a = "T" /\ e.obs # "T" THEN {<<"equal-values-rejected", e.f, e.obs>>}
  ELSE IF a = "F" /\ e.obs = "T" THEN {<<"different-values-accepted", e.f, e.obs>>}
  ELSE {}
ToSet(s) == {s[i] : i \in 1..Len(s)}
SubdictClauses(e) == IF e.obs = IsSubdict(ToSet(e.sub), ToSet(e.dict)) THEN {} ELSE {<<"is_subdict", "value">>}
DigitsClauses(e) ==
  LET d == DtDigits(e.dt, e.default) IN
  (IF e.nd # d THEN {<<"dtype_ndigits", e.dt>>} ELSE {}) \cup (IF e.tolexp # d THEN {<<"dtype_tol", e.dt>>} ELSE {})
\* noise_*: documented dtype / shape / membership / equality of arrays and elements / value range / reproducibility
NoiseClauses(e) == {<<"noise", e.fnname, e.flags[i][1]>> : i \in {j \in 1..Len(e.flags) : e.flags[j][2] # 1}}
FcClauses(e) ==
  LET mm == [name |-> "fc", haserr |-> e.haserr]  s == Run(mm, e.hist) IN
  IF Len(e.obs) # Len(s.blocks) THEN {<<"fail_counter", "blocks">>}
  ELSE UNION {LET b == s.blocks[i]  o == e.obs[i] IN
              (IF o.num_failed # b.num_failed THEN {<<"fail_counter", "num_failed">>} ELSE {})
              \cup (IF o.stdout # b.sum.stdout THEN {<<"fail_counter", IF b.num_failed = 0 THEN "output-without-failure" ELSE "summary">>} ELSE {})
              \cup (IF o.logged # b.sum.logged THEN {<<"fail_counter", "logger">>} ELSE {})
              \cup (IF o.exc # b.exc THEN {<<"fail_counter", "exception-swallowed-or-raised">>} ELSE {})
              : i \in 1..Len(s.blocks)}
RECURSIVE PbFold(_, _, _)
PbFold(s0, acts, writes) ==
  IF acts = <<>> THEN {}
  ELSE (IF writes[1] \in PbAllowed(s0, acts[1]) THEN {}
        ELSE {<<"ProgressBar", (IF writes[1][1] = "other" THEN "form"
                                ELSE IF PbIndex(s0, acts[1]) >= Prod(s0.njobs) THEN "end"
                                ELSE IF writes[1][1] # "bar" THEN "no-bar" ELSE "bar-or-percent"),
                (IF acts[1] = <<>> THEN "update()" ELSE "update(indices)")>>})
       \cup PbFold(PbStep(s0, acts[1], IF writes[1] \in PbAllowed(s0, acts[1]) THEN writes[1] ELSE ImplPbWrite(s0, acts[1])),
                   Tail(acts), Tail(writes))
PbClauses(e) == IF Len(e.acts) # Len(e.writes) THEN {<<"ProgressBar", "events">>} ELSE PbFold(PbInit(e.njobs), e.acts, e.writes)
PrClauses(e) ==
  (IF e.values = [i \in 1..e.n |-> i - 1] THEN {} ELSE {<<"ProgressRange", "values">>})
  \cup (IF Len(e.writes) # e.n THEN {<<"ProgressRange", "updates">>}
        ELSE {<<"ProgressRange", c[2]>> : c \in PbFold(PbInit(<<e.n>>), [i \in 1..e.n |-> <<>>], e.writes)})
FixClauses(e) ==
  IF e.exc # "" THEN {<<"simple_fixture", "raised">>}
  ELSE IF e.ids = [i \in 1..Len(e.params) |-> FixtureId(e.name, e.params[i], e.fmt)] THEN {}
  ELSE {<<"simple_fixture", IF e.fmt = "default" THEN "default-ids" ELSE "fmt-ids">>}
Clauses(e) ==
  CASE e.fn = "optest" -> OpClauses(e)
    [] e.fn = "fixture" -> FixClauses(e)
    [] e.fn = "sptest" -> SpClauses(e)
    [] e.fn = "generic" -> GenClauses(e)
    [] e.fn = "cmp" -> CmpClauses(e)
    [] e.fn = "subdict" -> SubdictClauses(e)
    [] e.fn = "digits" -> DigitsClauses(e)
    [] e.fn = "noise" -> NoiseClauses(e)
    [] e.fn = "fc" -> FcClauses(e)
    [] e.fn = "pb" -> PbClauses(e)
    [] e.fn = "prange" -> PrClauses(e)
    [] OTHER -> {<<"unknown-event", e.fn>>}

TraceInit == l = 1 /\ case = NoCase /\ m = CaseMode /\ hist = <<>> /\ st = 0
TraceStep ==
  /\ l <= Len(Trace)
  /\ LET e == Trace[l]  bad == Clauses(e)
     IN  IF bad = {} THEN TRUE ELSE PrintT(<<"FAIL", l, e.id, bad>>)
  /\ l' = l + 1
  /\ UNCHANGED dvars
TraceSpec == TraceInit /\ [][TraceStep]_<<l, case, m, hist, st>>
TraceAccepted == TLCGet("stats").diameter - 1 = Len(Trace)
NoCases == {}
NoMachines == {}
NoLen(mm) == 0
=============================================================================

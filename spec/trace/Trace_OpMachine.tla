--------------------------- MODULE Trace_OpMachine ---------------------------
(***************************************************************************)
(* Layer D for C04/C06/C05: every event is one evaluation performed on a    *)
(* REAL ODL operator that was built from the abstract program `prog`:       *)
(*   kind = "eval" : [prog, x, val]      val must equal Eval(prog, x)       *)
(*   kind = "deriv": [prog, x, d, val]   val must equal DirDeriv(prog,x,d)  *)
(*   kind = "adj"  : [prog, x, val]      val must equal AdjMatOf(prog) * x  *)
(*   kind = "inv"  : [prog, x, val]      val = prog.inverse(x) observed:    *)
(*                   Eval(prog, val) must equal x (no matrix inverse is     *)
(*                   needed in the specification)                           *)
(* Total: a rejected event is printed and validation continues.             *)
(***************************************************************************)
EXTENDS OpSem, TLC, Json, IOUtils

Trace == ndJsonDeserialize(IOEnv.TRACE_FILE)
VARIABLE l

Expected(e) ==
  CASE e.kind = "eval"  -> Eval(e.prog, e.x)
    [] e.kind = "deriv" -> DirDeriv(e.prog, e.x, e.d)
    [] e.kind = "adj"   -> MatVec(AdjMatOf(e.prog), e.x)

Clauses(e) ==
  IF e.err # "" THEN {<<"raised", e.err>>}
  ELSE IF ~WellTyped(e.prog) THEN {<<"ill-typed-program", "">>}
  ELSE IF e.kind = "inv" THEN (IF Eval(e.prog, e.val) # e.x THEN {<<"value-inv", e.mode>>} ELSE {})
  ELSE IF e.val # Expected(e) THEN {<<"value-" \o e.kind, e.mode>>} ELSE {}

TraceInit == l = 1
TraceStep ==
  /\ l <= Len(Trace)
  /\ LET e == Trace[l] bad == Clauses(e)
     IN IF bad = {} THEN TRUE ELSE PrintT(<<"FAIL", l, e.id, bad>>)
  /\ l' = l + 1
TraceSpec == TraceInit /\ [][TraceStep]_l
TraceAccepted == TLCGet("stats").diameter - 1 = Len(Trace)

TrW == IF IOEnv.OM_PROFILE = "RW" THEN <<Q(2, 1), Q(1, 2)>> ELSE <<QOne, QOne>>
=============================================================================

---------------------------- MODULE Trace_Detector ----------------------------
(***************************************************************************)
(* Layer D (EXT/detector): validates events recorded from the REAL classes *)
(* of odl/tomo/geometry/detector.py, flying_focal_spot and                 *)
(* ParallelHoleCollimatorGeometry.                                         *)
(*   event [id, fn, a, o]: abstract arguments a (exact rationals, angles   *)
(*   as rational points of the unit circle), projected outcome o           *)
(*     fn = "query"  a = [d, q]          o = [k "ok", sh, v] | [k "err"]   *)
(*     fn = "ctor"   a = [d]             o = [k]                           *)
(*     fn = "hist"   a = [hist]          o = [res]  one outcome per action *)
(*     fn = "dq"     a = [cls, m]        o = [dq, dv] quantised pairs      *)
(*     fn = "ffs"    a = [idx, shifts]   o = [k, v]                        *)
(*     fn = "spect"  a = [r, t, e, form] o = [k, radius, ref0, n2]         *)
(*     fn = "repr"   a = [cls, fun]      o = [k]                           *)
(*     fn = "props"  a = [cls, cb, sd, nd] o = [k, shape, size, ndim, ...] *)
(*     fn = "elekta" a = [sys, mode, sad, sdd, shape, pp, nang, given]     *)
(*                   o = [k, src, det, shape, nang, pp, given, first, last]*)
(* Layer A (DetectorSem) is re-evaluated on the logged arguments.  TOTAL:  *)
(* a rejected event prints <<"FAIL", line, id, {<<clause, cls, m, cell,    *)
(* prev>>}>> and validation continues; TraceAccepted checks that every     *)
(* line was consumed.                                                      *)
(***************************************************************************)
EXTENDS DetectorImpl, Json

Trace == ndJsonDeserialize(IOEnv.TRACE_FILE)
VARIABLE l

Outcome(e, o) ==
  IF e.k = "any" THEN {}
  ELSE IF e.k = "err" THEN (IF o.k = "err" THEN {} ELSE {"not-raised"})
  ELSE IF o.k # "ok" THEN {"raised"}
  ELSE IF o.sh # e.sh THEN {"shape"}
  ELSE IF o.v # e.v THEN {"value"} ELSE {}
CellOf(d, q) == IF q.m = "measure" /\ RaggedMeasure(d.cls, q.sh) THEN "ragged"
                ELSE IF FrameFlipD(d) THEN "flip" ELSE "plain"
QueryClauses(d, q, o, prev) == { <<cl, d.cls, q.m, CellOf(d, q), prev>> : cl \in Outcome(Expected(d, q), o) }
\* what happened to the object before action i: a caller-side mutation anywhere earlier names the family
PrevOf(hist, i) == IF \E j \in 2..(i - 1) : hist[j].a = "mutret" THEN "mutret"
                   ELSE IF \E j \in 2..(i - 1) : hist[j].a = "mutaxis" THEN "mutaxis"
                   ELSE IF i <= 2 THEN "fresh" ELSE "query"
HistClauses(hist, res) ==
  IF hist[1].a # "ctor" \/ Len(res) # Len(hist) THEN {<<"malformed", "-", "-", "-", "-">>}
  ELSE IF ~AxesOK(hist[1].d) THEN (IF res[1].k = "err" THEN {} ELSE {<<"not-raised", hist[1].d.cls, "ctor", "degenerate", "fresh">>})
  ELSE IF res[1].k # "ok" THEN {<<"raised", hist[1].d.cls, "ctor", "plain", "fresh">>}
  ELSE UNION { IF hist[i].a = "query" THEN QueryClauses(hist[1].d, hist[i].q, res[i], PrevOf(hist, i)) ELSE {} : i \in 2..Len(hist) }
QAbsDiff(a, b) == IF a >= b THEN a - b ELSE b - a
Clauses(e) ==
  LET a == e.a  o == e.o  fn == e.fn IN
  IF fn = "query" THEN QueryClauses(a.d, a.q, o, "fresh")
  ELSE IF fn = "ctor" THEN
    (IF SemCtor(a.d) = o.k THEN {}
     ELSE {<<IF o.k = "ok" THEN "not-raised" ELSE "raised", a.d.cls, "ctor", IF AxesOK(a.d) THEN "plain" ELSE "degenerate", "fresh">>})
  ELSE IF fn = "hist" THEN HistClauses(a.hist, o.res)
  ELSE IF fn = "dq" THEN
    \* relational: the symmetric difference quotient of surface against surface_deriv, both from the real object,
    \* quantised to 2^-20 of the larger magnitude; slack 16 quanta
    \* a.m = "flatlimit": the same comparison between a curved detector of radius 2^24 (arc length parameter) and the
    \* flat detector with the same axes, surface points and normals
    (IF o.k # "ok" THEN {<<"raised", a.cls, a.m, "plain", "fresh">>}
     ELSE IF Len(o.dq) # Len(o.dv) \/ \E i \in 1..Len(o.dq) : QAbsDiff(o.dq[i], o.dv[i]) > 16
       THEN {<<IF a.m = "flatlimit" THEN "flat-limit" ELSE "deriv-vs-difference-quotient", a.cls, a.m, "plain", "fresh">>} ELSE {})
  ELSE IF fn = "ffs" THEN
    (IF o.k # "ok" THEN {<<"raised", "ffs", a.form, "plain", "fresh">>}
     ELSE IF o.v # FFS(a.idx, a.shifts) THEN {<<"value", "ffs", a.form, "plain", "fresh">>} ELSE {})
  ELSE IF fn = "spect" THEN
    \* "det_radius: radius of the circular detector orbit": every detector reference point has distance det_radius from
    \* the (translated) rotation centre; at angle 0 it is translation + det_radius * (unit vector towards the detector)
    (IF o.k # "ok" THEN {<<"raised", "spect", a.form, "plain", "fresh">>}
     ELSE (IF o.radius # a.r THEN {<<"det-radius-property", "spect", a.form, "plain", "fresh">>} ELSE {})
          \cup (IF o.ref0 # GAdd(a.t, DScale(a.r, a.e)) THEN {<<"refpoint-at-zero", "spect", a.form, "plain", "fresh">>} ELSE {})
          \cup (IF \E i \in 1..Len(o.n2) : o.n2[i] # DMul(a.r, a.r) THEN {<<"orbit-radius", "spect", a.form, "plain", "fresh">>} ELSE {}))
  ELSE IF fn = "elekta" THEN
    \* docstrings of elekta_icon_geometry / elekta_xvi_geometry: sad = source to axis distance, sdd = source to detector
    \* distance, piercing_point = detector position (pixel coordinates) hit by the central beam, detector_shape = shape
    \* of the detector, angles = the angles of the projections, num_angles = their number, "exclusive" with angles;
    \* documented default angles np.linspace(1.2, 5.0, 332) / np.linspace(0, 2 pi, 650, endpoint=False)
    (IF a.mode = "both" THEN (IF o.k = "err" THEN {} ELSE {<<"not-raised", "elekta", a.sys, "plain", "fresh">>})
     ELSE IF o.k # "ok" THEN {<<"raised", "elekta", a.sys, "plain", "fresh">>}
     ELSE (IF o.src # a.sad \/ QAddL(o.src, o.det) # a.sdd THEN {<<"source-detector-distances", "elekta", a.sys, "plain", "fresh">>} ELSE {})
          \cup (IF o.shape # a.shape THEN {<<"detector-shape", "elekta", a.sys, "plain", "fresh">>} ELSE {})
          \cup (IF o.pp # a.pp THEN {<<"piercing-point", "elekta", a.sys, "plain", "fresh">>} ELSE {})
          \cup (IF o.nang # a.nang THEN {<<"number-of-angles", "elekta", a.sys, "plain", "fresh">>} ELSE {})
          \cup (IF a.mode = "given" /\ o.given # a.given THEN {<<"given-angles", "elekta", a.sys, "plain", "fresh">>} ELSE {})
          \cup (IF a.mode = "default" /\ (o.first # QZero \/ o.last # QOne)
                  THEN {<<"default-angles", "elekta", a.sys, "plain", "fresh">>} ELSE {}))
  ELSE IF fn = "props" THEN
    \* Detector: "params = partition.set, grid = partition.grid, shape = partition.shape, size = total number of pixels,
    \* ndim = number of dimensions of the parameters, space_ndim: positive int, default partition.ndim + 1";
    \* a.sd = the space_ndim argument (-1 omitted, -3 = the partition argument is not a RectPartition)
    LET nd == IF a.cls = "base" THEN a.nd ELSE NDimOf(a.cls)
        sdim == IF a.cls = "base" /\ a.sd > 0 THEN a.sd ELSE nd + 1 IN
    (IF a.cls = "base" /\ (a.sd = -3 \/ a.sd = 0 \/ a.sd = -2)
       THEN (IF o.k = "err" THEN {} ELSE {<<"not-raised", a.cls, "props", "plain", "fresh">>})
     ELSE IF o.k # "ok" THEN {<<"raised", a.cls, "props", "plain", "fresh">>}
     ELSE IF o.shape # o.pshape \/ ~o.same \/ o.size # Prod(o.pshape) \/ o.ndim # nd \/ Len(o.pshape) # nd
             \/ o.space_ndim # sdim \/ o.cb # a.cb
       THEN {<<"value", a.cls, "props", "plain", "fresh">>} ELSE {})
  ELSE IF fn = "repr" THEN
    \* "Return repr(self)" / "Return str(self)": a string naming the class, not an exception
    (IF o.k = "ok" THEN {} ELSE {<<IF o.k = "err" THEN "raised" ELSE "value", a.cls, "repr", "plain", "fresh">>})
  ELSE {<<"unknown-event", "-", "-", "-", "-">>}

TraceInit == l = 1
TraceStep ==
  /\ l <= Len(Trace)
  /\ LET e == Trace[l]  bad == Clauses(e)
     IN  IF bad = {} THEN TRUE ELSE PrintT(<<"FAIL", l, e.id, bad>>)
  /\ l' = l + 1
TraceSpec == TraceInit /\ [][TraceStep]_l
TraceAccepted == TLCGet("stats").diameter - 1 = Len(Trace)
=============================================================================

---------------------------- MODULE Trace_Resize ----------------------------
(***************************************************************************)
(* Layer D (property C16): validates events recorded from REAL calls of     *)
(* odl.util.numerics.resize_array and odl.ResizingOperator by re-evaluating *)
(* the layer-A operators of ResizeSem on the logged input.                  *)
(*                                                                         *)
(* Event kinds                                                              *)
(*  "resize"  one call that maps an array:                                  *)
(*      [variant, dom, ran, offs, mode, dir, c, x, y, err]                  *)
(*      variant "array"      resize_array(x: dom -> ran, offs, mode, c, dir)*)
(*              "call"       op(x),              op : dom -> ran            *)
(*              "derivative" op.derivative(p)(x)                            *)
(*              "adjoint"    op.adjoint(x)       (x in ran, result in dom)  *)
(*              "inverse"    op.inverse(x)       (x in ran, result in dom)  *)
(*      x, y flat C-order arrays of Gaussian rationals, c Gaussian rational *)
(*      xafter  contents of the caller's input object after the call        *)
(*      rdt     data type class of the result (= of the fill), odt of the   *)
(*              operator's range; linear: op.is_linear (1 | 0, -1 n/a)      *)
(*  "range"   geometry of a constructed ResizingOperator:                   *)
(*      [lo, hi, dom, ran, given, offs, ranlo, ranhi, ranshape, rancell,    *)
(*       axes, dbdry, rbdry, rannode0, invok]                               *)
(*      given[a] = -1: no offset was supplied for axis a; dbdry / rbdry:    *)
(*      per-axis <<L, R>> nodes-on-boundary flags (0 | 1) of the domain and *)
(*      those requested for the range; rannode0: first grid node of the     *)
(*      range; invok = 1: .inverse was constructed and leads back           *)
(*  "adjid"   adjoint identity in the weighted inner products:              *)
(*      [wd, wr, x, y, rx, rty, ipran, ipdom]  (ipran = <R x, y>_ran and    *)
(*      ipdom = <x, R* y>_dom as returned by the real .inner)               *)
(* The specification is TOTAL: a rejected event is reported as              *)
(* <<"FAIL", line, id, clauses>> and validation continues.                  *)
(***************************************************************************)
EXTENDS ResizeSem, TLC, Json, IOUtils

Trace == ndJsonDeserialize(IOEnv.TRACE_FILE)

VARIABLES l,      \* next line of the trace
          nf      \* number of rejected events so far (printed after the last event, cross-checked by the harness)

\* the array-level map a variant denotes: <<dir, c, shapeIn, shapeOut>>
Meaning(e) ==
  CASE e.variant = "array"      -> <<e.dir, e.c, e.dom, e.ran>>
    [] e.variant = "call"       -> <<"forward", e.c, e.dom, e.ran>>
    [] e.variant = "derivative" -> <<"forward", CZero, e.dom, e.ran>>
    [] e.variant = "adjoint"    -> <<"adjoint", CZero, e.ran, e.dom>>
    [] e.variant = "inverse"    -> <<"forward", e.c, e.ran, e.dom>>

ResizeClauses(e) ==
  LET mg == Meaning(e)
      offs == EffOffs(mg[3], mg[4], e.offs)          \* entries on unchanged axes are ignored
      adm == AdmissibleND(e.mode, mg[1], mg[3], mg[4], offs)
      lin == IsLinearResize(e.mode, e.c)
      grows == \E a \in 1..Len(mg[3]) : mg[4][a] > mg[3][a]
      \* the fill is a value of the result's data type e.rdt; decided here iff the constant is representable in it
      fillok == ~(e.mode = "constant" /\ grows) \/ Representable(mg[2], e.rdt)
      \* the caller's input (array-like of any kind, possibly sharing memory with the array worked on) is unchanged
      frame == IF e.xafter # e.x THEN {<<"input-modified", 0>>} ELSE {}
      \* is_linear of the operator, judged on the actual constant (operator events only; -1: not applicable)
      flag == IF e.linear # -1 /\ Representable(e.c, e.odt) /\ ((e.linear = 1) # lin)
                THEN {<<"linear-flag", 0>>} ELSE {}
      value ==
        IF ~ValidOffsets(mg[3], mg[4], offs) THEN {<<"bad-event-offsets", 0>>}
        \* what a pseudo-inverse fills in where it has to extend is not fixed by the statement: values are judged only
        \* when the inverse is a pure cropping (the operator is a pure extension)
        ELSE IF e.variant = "inverse" /\ \E a \in 1..Len(e.dom) : e.dom[a] > e.ran[a] THEN {}
        ELSE IF ~adm \/ (e.variant = "adjoint" /\ ~lin) \/ (e.variant = "array" /\ e.dir = "adjoint" /\ ~lin)
          THEN (IF e.err = "" THEN {<<"not-raised", 0>>} ELSE {})
        ELSE IF e.err # "" THEN {<<"raised", 0>>}
        ELSE IF ~fillok THEN {}
        ELSE LET exp == Resize(e.mode, mg[1], mg[2], mg[3], mg[4], offs, e.x)
             IN  IF Len(e.y) # Len(exp) THEN {<<"shape", Len(e.y)>>}
                 ELSE IF \E k \in 1..Len(exp) : e.y[k] # exp[k] THEN {<<"value", 0>>} ELSE {}
  IN  value \cup frame \cup flag

RangeClauses(e) ==
  LET d == Len(e.dom)
      ax(a) ==
        LET m == e.dom[a]  n == e.ran[a]  o == e.offs[a]
            dL == e.dbdry[a][1]  dR == e.dbdry[a][2]  rL == e.rbdry[a][1]  rR == e.rbdry[a][2]
            h == CellSideB(e.lo[a], e.hi[a], m, dL, dR)
        IN  (IF e.ranshape[a] # n THEN {<<"range-shape", a>>} ELSE {})
            \* "unchanged cell sizes"
            \cup (IF e.rancell[a] # h THEN {<<"cell-side", a>>} ELSE {})
            \cup (IF m = n THEN (IF o # 0 THEN {<<"offset", a>>} ELSE {})
                  ELSE IF e.given[a] >= 0 THEN (IF o # e.given[a] THEN {<<"offset", a>>} ELSE {})
                  ELSE (IF ~DefaultOffsetOK(m, n, o) THEN {<<"default-offset", a>>} ELSE {}))
            \* "the range covers the enlarged physical domain": limits for the requested nodes-on-boundary flags
            \cup (IF ValidOffset(m, n, o) /\ (e.ranlo[a] # RangeLoB(e.lo[a], e.hi[a], m, n, o, dL, dR, rL)
                                              \/ e.ranhi[a] # RangeHiB(e.lo[a], e.hi[a], m, n, o, dL, dR, rR))
                    THEN {<<(IF n >= m THEN "range-domain" ELSE "range-domain-shrink"), a>>} ELSE {})
            \* the copied block sits at the same physical grid points in domain and range
            \cup (IF ValidOffset(m, n, o) /\ e.rannode0[a] # RangeNode0B(e.lo[a], e.hi[a], m, n, o, dL, dR)
                    THEN {<<"grid-aligned", a>>} ELSE {})
            \cup (IF (a - 1 \in {e.axes[j] : j \in 1..Len(e.axes)}) # (m # n) THEN {<<"axes", a>>} ELSE {})
  IN  UNION {ax(a) : a \in 1..d}
      \* .inverse can be constructed and maps the range back to the domain with the same offsets
      \cup (IF e.invok # 1 THEN {<<"inverse-constructible", 0>>} ELSE {})

Dot(w, u, v) == CScal(w, CSumSeq([i \in 1..Len(u) |-> CMul(u[i], CConj(v[i]))]))
AdjIdClauses(e) ==
  (IF e.ipran # e.ipdom THEN {<<"adjoint-identity", 0>>} ELSE {})
  \cup (IF Dot(e.wr, e.rx, e.y) # Dot(e.wd, e.x, e.rty) THEN {<<"adjoint-identity-formula", 0>>} ELSE {})
  \cup (IF Dot(e.wr, e.rx, e.y) # e.ipran THEN {<<"inner-product", 0>>} ELSE {})

Clauses(e) ==
  CASE e.kind = "resize" -> ResizeClauses(e)
    [] e.kind = "range"  -> RangeClauses(e)
    [] e.kind = "adjid"  -> AdjIdClauses(e)

TraceInit == l = 1 /\ nf = 0
TraceStep ==
  /\ l <= Len(Trace)
  /\ LET e == Trace[l]
         bad == Clauses(e)
     IN  /\ (IF bad = {} THEN TRUE ELSE PrintT(<<"FAIL", l, e.id, bad>>))
         /\ nf' = nf + (IF bad = {} THEN 0 ELSE 1)
  /\ (IF l = Len(Trace) THEN PrintT(<<"NFAIL", nf'>>) ELSE TRUE)
  /\ l' = l + 1
TraceSpec == TraceInit /\ [][TraceStep]_<<l, nf>>

TraceAccepted == TLCGet("stats").diameter - 1 = Len(Trace)
=============================================================================

---------------------------- MODULE Trace_Adjoint ----------------------------
(***************************************************************************)
(* Layer D for C05 (built-in linear operators).  One event per operator     *)
(* instance, recorded from the REAL code by applying A, A.adjoint and       *)
(* A.adjoint.adjoint to every basis vector:                                 *)
(*   M  (nr x nd) matrix of A          N (nd x nr) matrix of A.adjoint      *)
(*   N2 (nr x nd) matrix of A.adjoint.adjoint (<<>> if not requested)       *)
(*   Gd, Gr  diagonal Gram weights <e_i,e_i> of domain / range              *)
(* The adjoint identity <Ax,y>_ran = <x,A*y>_dom FOR ALL x,y is equivalent  *)
(* to the entry-wise statement  Gd[i] * N[i][j] = conj(M[j][i]) * Gr[j].    *)
(* (Operators between a real and a complex space are logged in the real     *)
(* basis {e_k, i e_k}, which is the real-part form of the identity.)        *)
(* exact = TRUE : entries are exact rationals, equality is demanded.        *)
(* exact = FALSE: entries are quantised to multiples of 2^-8; the identity  *)
(* is demanded up to the quantisation slack.                                *)
(***************************************************************************)
EXTENDS ExactNum, TLC, Json, IOUtils

Trace == ndJsonDeserialize(IOEnv.TRACE_FILE)
VARIABLE l

\* quantised entries are multiples of 1/256; ToI gives the integer numerator over 256
ToI(q) == q[1] * (256 \div q[2])
IAbs(n) == IF n < 0 THEN -n ELSE n
\* |a*b - c*d| within the quantisation error of the four factors (each exact to +-1/2 unit of 1/256)
QuantClose(a, b, c, d) == IAbs(a * b - c * d) <= IAbs(a) + IAbs(b) + IAbs(c) + IAbs(d) + 4

AdjBad(e) ==
  { <<i, j>> \in (1..Len(e.N)) \X (1..Len(e.M)) :
      IF e.exact
        THEN <<QMul(e.Gd[i], e.N[i][j][1]), QMul(e.Gd[i], e.N[i][j][2])>>
               # <<QMul(e.Gr[j], e.M[j][i][1]), QNeg(QMul(e.Gr[j], e.M[j][i][2]))>>
        ELSE \/ ~QuantClose(ToI(e.Gd[i]), ToI(e.N[i][j][1]), ToI(e.Gr[j]), ToI(e.M[j][i][1]))
             \/ ~QuantClose(ToI(e.Gd[i]), ToI(e.N[i][j][2]), ToI(e.Gr[j]), -ToI(e.M[j][i][2])) }

BiadjBad(e) ==
  IF e.N2 = <<>> THEN {}
  ELSE { <<i, j>> \in (1..Len(e.M)) \X (1..Len(e.N)) :
           IF e.exact THEN e.N2[i][j] # e.M[i][j]
           ELSE \/ IAbs(ToI(e.N2[i][j][1]) - ToI(e.M[i][j][1])) > 2
                \/ IAbs(ToI(e.N2[i][j][2]) - ToI(e.M[i][j][2])) > 2 }

ShapeBad(e) == \/ Len(e.Gd) # Len(e.N) \/ Len(e.Gr) # Len(e.M)
               \/ \E i \in 1..Len(e.N) : Len(e.N[i]) # Len(e.M)
               \/ \E j \in 1..Len(e.M) : Len(e.M[j]) # Len(e.N)

Clauses(e) ==
  IF e.err # "" THEN {<<"raised", e.err>>}
  ELSE IF ShapeBad(e) THEN {<<"adjoint-maps-wrong-spaces", "">>}
  ELSE (IF AdjBad(e) # {} THEN {<<"adjoint-identity", ToString(CHOOSE p \in AdjBad(e) : TRUE)>>} ELSE {})
       \cup (IF BiadjBad(e) # {} THEN {<<"adjoint-adjoint", ToString(CHOOSE p \in BiadjBad(e) : TRUE)>>} ELSE {})

TraceInit == l = 1
TraceStep ==
  /\ l <= Len(Trace)
  /\ LET e == Trace[l] bad == Clauses(e)
     IN IF bad = {} THEN TRUE ELSE PrintT(<<"FAIL", l, e.id, bad>>)
  /\ l' = l + 1
TraceSpec == TraceInit /\ [][TraceStep]_l
TraceAccepted == TLCGet("stats").diameter - 1 = Len(Trace)
=============================================================================

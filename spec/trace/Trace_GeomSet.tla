---------------------------- MODULE Trace_GeomSet ----------------------------
(***************************************************************************)
(* Layer D (EXT/geomsets): validates events recorded from REAL             *)
(* IntervalProd / RectGrid objects by re-evaluating layer A (GeomSetSem)   *)
(* on the logged receiver and arguments.  One event = one public call:     *)
(*   [id, tid, obj |-> [k, v], c |-> call, r |-> [k, v]]                   *)
(* obj is the projection of the real receiver (for a derived object: of    *)
(* the object the previous real call returned), r the projected result.    *)
(* TOTAL: a rejected event prints <<"FAIL", line, id, clauses>> and the    *)
(* validation continues; TraceAccepted checks every line was consumed.     *)
(***************************************************************************)
EXTENDS GeomSetSem, Json, IOUtils

Trace == ndJsonDeserialize(IOEnv.TRACE_FILE)
VARIABLE l

ObjOKT(o) == IF o.k = "box" THEN BoxOK(o.v) ELSE IF o.k = "grid" THEN GridOK(o.v) ELSE FALSE
Clauses(e) ==
  IF ~ObjOKT(e.obj) THEN {<<"receiver-invalid", e.obj.k>>}
  ELSE LET exp == Eval(e.obj, e.c)  obs == e.r
       IN  IF exp.k = "unknown-op" THEN {<<"unknown-op", e.c.op>>}
           ELSE IF obs.k # exp.k
             THEN {<<(IF obs.k = "err" THEN "raised" ELSE IF exp.k = "err" THEN "no-error"
                      ELSE IF obs.k = "off" THEN "offlattice" ELSE "type"), e.c.op, exp.k, obs.k>>}
           ELSE IF exp.k = "err" THEN (IF exp.v # "" /\ obs.v # exp.v THEN {<<"error-class", e.c.op, exp.v, obs.v>>} ELSE {})
           ELSE IF obs.v # exp.v THEN {<<"value", e.c.op, exp.k, obs.k>>}
           ELSE {}

TraceInit == l = 1
TraceStep ==
  /\ l <= Len(Trace)
  /\ LET e == Trace[l]  bad == Clauses(e)
     IN  IF bad = {} THEN TRUE ELSE PrintT(<<"FAIL", l, e.id, bad>>)
  /\ l' = l + 1
TraceSpec == TraceInit /\ [][TraceStep]_l
TraceAccepted == TLCGet("stats").diameter - 1 = Len(Trace)
=============================================================================

----------------------------- MODULE Trace_OpCall -----------------------------
(***************************************************************************)
(* Layer D for C03 / C10: events recorded from calls of REAL operators.     *)
(*  mode = "oop"    : y = op(x)                                             *)
(*  mode = "ip"     : r = op(x, out=y), y pre-filled with garbage           *)
(*                    (fill = "nan" | "prev" | "other")                     *)
(*  mode = "alias"  : r = op(x, out=x)                      (C10)           *)
(*  mode = "reject-x" / "reject-out" : call with an input that cannot be    *)
(*                    cast / an out that is not a range element             *)
(* Logged: in_range (result in op.range), ret_is_out (returned object is    *)
(* the out object), x_same (bytes of x identical before/after), dist        *)
(* (distance of the result to the reference result op(x), in units of the   *)
(* relative tolerance, capped), raised (exception class or ""),             *)
(* out_same (bytes of out unchanged - for rejections).                      *)
(***************************************************************************)
EXTENDS Integers, Sequences, TLC, Json, IOUtils

Trace == ndJsonDeserialize(IOEnv.TRACE_FILE)
VARIABLE l
MaxDist == 10            \* 10 units of the dtype's relative tolerance

Clauses(e) ==
  CASE e.mode = "oop" ->
         IF e.raised # "" THEN {<<"call-raised", e.raised>>}
         ELSE (IF ~e.in_range THEN {<<"result-not-in-range", "">>} ELSE {})
              \cup (IF ~e.x_same THEN {<<"input-modified", "oop">>} ELSE {})
              \cup (IF e.dist > MaxDist THEN {<<"not-deterministic", "">>} ELSE {})
    [] e.mode = "ip" ->
         IF e.raised # "" THEN {<<"in-place-raised", e.raised>>}
         ELSE (IF ~e.ret_is_out THEN {<<"in-place-does-not-return-out", "">>} ELSE {})
              \cup (IF ~e.x_same THEN {<<"input-modified", "ip">>} ELSE {})
              \cup (IF e.dist > MaxDist THEN {<<"in-place-differs-from-out-of-place", e.fill>>} ELSE {})
    [] e.mode = "alias" ->
         IF e.raised # "" THEN {<<"aliased-call-raised", e.raised>>}
         ELSE (IF ~e.ret_is_out THEN {<<"aliased-call-does-not-return-out", "">>} ELSE {})
              \cup (IF e.dist > MaxDist THEN {<<"aliased-call-differs", "">>} ELSE {})
    [] e.mode = "reject-x" ->
         (IF e.raised # "OpDomainError" THEN {<<"bad-input-not-rejected-with-OpDomainError", e.raised>>} ELSE {})
         \cup (IF ~e.out_same THEN {<<"out-written-before-rejection", "">>} ELSE {})
    [] e.mode = "reject-out" ->
         (IF e.raised # "OpRangeError" THEN {<<"bad-out-not-rejected-with-OpRangeError", e.raised>>} ELSE {})
         \cup (IF ~e.out_same THEN {<<"out-written-before-rejection", "">>} ELSE {})

TraceInit == l = 1
TraceStep ==
  /\ l <= Len(Trace)
  /\ LET e == Trace[l] bad == Clauses(e)
     IN IF bad = {} THEN TRUE ELSE PrintT(<<"FAIL", l, e.id, bad>>)
  /\ l' = l + 1
TraceSpec == TraceInit /\ [][TraceStep]_l
TraceAccepted == TLCGet("stats").diameter - 1 = Len(Trace)
=============================================================================

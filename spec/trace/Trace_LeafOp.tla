---------------------------- MODULE Trace_LeafOp ----------------------------
(***************************************************************************)
(* Layer D: validates events recorded from REAL ODL leaf operators against  *)
(* LeafOpSem / LeafOpMachine.  One event = one real object and the calls    *)
(* made on it (the history on that one object):                            *)
(*   [id, root, chain, built, err, errcls, dom, ran, lin, calls]            *)
(*   root   : description (LeafOpSem!Mk) of the constructor call            *)
(*   chain  : the public calls applied to it (LeafOpMachine steps)          *)
(*   built  : the constructor returned;  err : "" | "ctor" | "step:<k>",    *)
(*            errcls the classes (MRO) of the exception                     *)
(*   dom / ran : projection of the real spaces [t, n, shape, fld, b, pwt]:  *)
(*            b = the labels ("base" / "plain" / "wplain") whose concrete   *)
(*            space the real one equals, pwt = weights of a power space     *)
(*   calls  : [mode, x, y, tok, neg, note] - x the input, y the projected   *)
(*            result raised to Pw, quantised (tok # "" : raised / not a     *)
(*            number of the expected shape),                               *)
(*            neg : a norm-like result was negative, note : protocol breach *)
(* The meaning of the object is recomputed from layer A; the specification  *)
(* is TOTAL: a rejected event is printed <<"FAIL", line, id, clauses>> and  *)
(* validation continues.  clauses = set of <<clause, call mode>>.           *)
(***************************************************************************)
EXTENDS LeafOpMachine, Json, IOUtils

Trace == ndJsonDeserialize(IOEnv.TRACE_FILE)
VARIABLE l

Enabled(N, s) ==
  CASE s.a = "adjoint" -> AdjOffered(N)
    [] s.a = "inverse" -> InvOffered(N)
    [] s.a = "deriv"   -> HasDeriv(N) /\ Len(s.x) = Dom(N).n /\ (Deriv(N, s.x).ok => DerivDefined(N, s.x))
    [] OTHER -> FALSE

RECURSIVE Replay(_, _, _)
Replay(N, ch, k) ==
  IF k = 0 THEN N
  ELSE LET P == Replay(N, ch, k - 1)
       IN  IF ~P.ok THEN P
           ELSE IF ~Enabled(P, ch[k]) THEN Err("harness-step-not-enabled")
           ELSE Apply(P, ch[k])

InSeq(x, s) == \E i \in 1..Len(s) : s[i] = x
SpMatch(sp, o, pw) ==
  /\ o.t = sp.t /\ o.n = sp.n /\ o.shape = sp.shape /\ o.fld = sp.fld
  /\ InSeq(sp.b, o.b)
  /\ (sp.t = "P" /\ pw # <<>> => o.pwt = pw)

\* observed entries are logged QUANTISED: k = round(4096 * value) for the real and the imaginary part; the comparison
\* allows +-3 quanta (rounding of the floating point computation << 1 quantum << any change of the documented value).
\* Entries whose exact value is too wide for 32-bit arithmetic are not compared.
CloseQ(k, q) == IF q[2] > 512 \/ Abs(q[1]) > 262144 THEN TRUE ELSE Abs(k * q[2] - q[1] * 4096) <= 3 * q[2]
CloseV(yq, y) ==
  /\ Len(yq) = Len(y)
  /\ \A j \in 1..Len(y) : /\ Len(yq[j]) = Len(y[j])
                           /\ \A i \in 1..Len(y[j]) : CloseQ(yq[j][i][1], y[j][i][1]) /\ CloseQ(yq[j][i][2], y[j][i][2])

ShapeOK(N, x) == Len(x) = Dom(N).n /\ \A j \in 1..Len(x) : Len(x[j]) = SizeOf(Dom(N))

CallClauses(N, c) ==
  (IF ~ShapeOK(N, c.x) THEN {<<"harness-point-shape", c.mode>>}
   ELSE IF ~Evaluable(N, c.x) THEN {}
   ELSE IF c.tok # "" THEN {<<(IF c.tok = "raised" THEN "raised" ELSE "value"), c.mode>>}
   ELSE IF ~CloseV(c.yq, Eval(N, c.x)) THEN {<<"value", c.mode>>}
   ELSE IF Pw(N) = 2 /\ c.neg THEN {<<"sign", c.mode>>} ELSE {})
  \cup (IF c.note # "" THEN {<<c.note, c.mode>>} ELSE {})

ErrClassOK(why, cls) == (why \in {"NotImplementedError", "OpNotImplementedError"}) => InSeq(why, cls)

\* first step whose result is an error (0: none)
FailAt(N0, ch) == IF \A k \in 1..Len(ch) : Replay(N0, ch, k).ok THEN 0 ELSE CHOOSE k \in 1..Len(ch) : ~Replay(N0, ch, k).ok /\ \A j \in 1..(k - 1) : Replay(N0, ch, j).ok

Clauses(e) ==
  LET N0 == NormRoot(e.root) IN
  IF ~N0.ok THEN (IF e.built THEN {<<"construction-accepted", "">>} ELSE {})
  ELSE IF ~e.built THEN {<<"construction-raised", "">>}
  ELSE LET N == Replay(N0, e.chain, Len(e.chain))
       IN  IF ~N.ok /\ N.why = "harness-step-not-enabled" THEN {<<"harness-step-not-enabled", "">>}
           ELSE IF ~N.ok THEN
                  \* the documented error of the LAST step (earlier steps succeed by construction of Replay)
                  (IF e.err = "" THEN {<<"step-accepted", "">>}
                   ELSE IF e.err # "step:" \o ToString(FailAt(N0, e.chain)) THEN {<<"raised", "">>}
                   ELSE IF ~ErrClassOK(N.why, e.errcls) THEN {<<"wrong-exception", "">>} ELSE {})
           ELSE IF e.err # "" THEN {<<"raised", "">>}
           ELSE (IF ~SpMatch(Dom(N), e.dom, IF N.k = "lincomb" THEN <<>> ELSE N.pw) THEN {<<"domain", "">>} ELSE {})
                \cup (IF ~SpMatch(Ran(N), e.ran, N.pw) THEN {<<"range", "">>} ELSE {})
                \cup (IF e.lin # Linear(N) THEN {<<"linear-flag", "">>} ELSE {})
                \cup UNION { CallClauses(N, e.calls[q]) : q \in 1..Len(e.calls) }

TraceInit == /\ l = 1 /\ root = <<>> /\ chain = <<>> /\ cur = <<>>
TraceStep ==
  /\ l <= Len(Trace)
  /\ LET e == Trace[l] bad == Clauses(e)
     IN IF bad = {} THEN TRUE ELSE PrintT(<<"FAIL", l, e.id, bad>>)
  /\ l' = l + 1
  /\ UNCHANGED <<root, chain, cur>>
TraceSpec == TraceInit /\ [][TraceStep]_<<l, root, chain, cur>>
TraceAccepted == TLCGet("stats").diameter - 1 = Len(Trace)

TrRoots == {}
TrMaxChain == 0
TrPool == <<>>
=============================================================================

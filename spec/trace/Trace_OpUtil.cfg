SPECIFICATION TraceSpec
POSTCONDITION TraceAccepted
CHECK_DEADLOCK FALSE

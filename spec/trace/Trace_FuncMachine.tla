-------------------------- MODULE Trace_FuncMachine --------------------------
(***************************************************************************)
(* Layer D for C07 / C08 / C09: validates events recorded from REAL ODL    *)
(* functionals against the queries of FuncMachine (layer A semantics).     *)
(*                                                                         *)
(* One event = one observation of the public API on a functional built     *)
(* from the program e.f on the space e.sp.  Numbers are either snapped     *)
(* rationals <<n,d>> (NaN <<0,0>> = "not on the declared lattice", Inf     *)
(* <<1,0>>) or fixed-point integers round(v * 2^16) for relational clauses *)
(* (suffix q).  Kinds (field k):                                           *)
(*   prox    p = f.proximal(sig)(x); probes z with f_real(z), F(z), F(p)   *)
(*   probe   the same for a functional outside the catalogue (literal       *)
(*           clauses only)                                                 *)
(*   pair    two proximal calls of one operator (firm non-expansiveness)   *)
(*   fy      f(x), f.convex_conj(y), x.inner(y)                            *)
(*   biconj  f(x), f.convex_conj.convex_conj(x)                            *)
(*   moreau  p = prox_{sig f}(x), q = prox_{f*/sig}(x/sig)                 *)
(*   grad    g = f.gradient(x), <g,d>, f.derivative(x)(d)                  *)
(*   lip     gradients at two points and f.grad_lipschitz                  *)
(*   cdrel   central-difference errors e(h), e(h/2) (relational only)      *)
(*   value   f(x)                                                          *)
(*   rel     a named relation lhs >= rhs / lhs = rhs between observed      *)
(*           numbers (objects outside the catalogue)                       *)
(*   outside an indicator evaluated at b + 2^-k d, a whole ray outside its set *)
(*   numgrad gradient of a functional whose .gradient is NumericalGradient     *)
(*   lin     f.is_linear together with f(x), f(y), f(x+y), f(2x), f(0)     *)
(* The specification is TOTAL: a rejected event prints                     *)
(*   <<"FAIL", line, id, clauses>>   and validation continues.             *)
(***************************************************************************)
EXTENDS FuncMachine, Json, IOUtils

Trace == ndJsonDeserialize(IOEnv.TRACE_FILE)

VARIABLE l
tvars == <<stack, l>>

IsOn(v)      == \A i \in 1..Len(v) : v[i][2] # 0            \* every entry snapped onto the lattice
SameX(a, b)  == a = b                                       \* snapped values compare exactly
\* observed value o against the reference r (both extended): only where the reference is a known number
ValueBad(o, r) == IF r = Inf THEN o # Inf
                  ELSE IF XKnown(r) THEN o # r
                  ELSE FALSE

Narrow(v) == \A i \in 1..Len(v) : Abs(v[i][1]) * v[i][2] <= 160
\* every scalar parameter of the program is moderate (scalings multiply denominators inside InSubdiff)
RECURSIVE ScalarsNarrow(_)
ScalarsNarrow(f) == /\ (f.s[2] = 0 \/ Abs(f.s[1]) * f.s[2] <= 10)
                    /\ \A k \in 1..Len(f.args) : ScalarsNarrow(f.args[k])
ProxClauses(e) ==
  LET ent == Entry(e.sp, e.f, 0)
      q   == ProxQueryable(ent)
  IN  (IF e.finite = 0 THEN {"f(p)-not-finite"} ELSE {}) \cup
      \* the property read literally, on the implementation's own numbers
      (IF e.finite = 1 /\ \E j \in 1..Len(e.probes) : e.probes[j].fin = 1 /\ e.probes[j].Fq < e.Fpq - e.slackq
         THEN {"probe-has-smaller-objective"} ELSE {}) \cup
      \* sub-gradient inclusion at the snapped p
      \* (only on data narrow enough for 32-bit rationals; elsewhere the literal clause above stands alone)
      (IF q /\ IsOn(e.p) /\ Narrow(e.p) /\ Narrow(e.sig) /\ ScalarsNarrow(e.f) /\
          Narrow([i \in 1..Len(e.x) |-> QDiv(QSub(e.x[i], e.p[i]), e.sig[i])]) /\
          ~Cert(e.sp, e.f, e.sig, e.x, e.p) THEN {"not-the-minimiser(subgradient)"} ELSE {}) \cup
      \* the implementation's f takes the documented values on the probes
      \* (programs holding a conjugate are valued by the dedicated fy / value events: each value is a lattice scan)
      (IF ~HasConj(e.f) /\ \E j \in 1..Len(e.probes) : IsOn(e.probes[j].z) /\ e.probes[j].fz # NaN /\
              ValueBad(e.probes[j].fz, QValue(ent, e.probes[j].z))
         THEN {"value"} ELSE {}) \cup
      \* indicator functionals: lands in the set (f(p) = 0) and idempotent
      (IF q /\ IsIndicator(e.f) /\ e.finite = 1 /\ e.idemq > e.slackq THEN {"indicator-prox-not-idempotent"} ELSE {})

\* a functional outside the catalogue: only what the implementation's own numbers say
ProbeClauses(e) ==
  (IF e.finite = 0 THEN {"f(p)-not-finite"} ELSE {}) \cup
  (IF e.finite = 1 /\ \E j \in 1..Len(e.probes) : e.probes[j].fin = 1 /\ e.probes[j].Fq < e.Fpq - e.slackq
     THEN {"probe-has-smaller-objective"} ELSE {}) \cup
  (IF e.isind = 1 /\ e.finite = 1 /\ e.idemq > e.slackq THEN {"indicator-prox-not-idempotent"} ELSE {})

PairClauses(e) ==
  (IF e.lhsq > e.rhsq + e.slackq THEN {"not-firmly-nonexpansive"} ELSE {}) \cup
  (IF IsOn(e.p1) /\ IsOn(e.p2) /\
      QLt(Inner(e.sp, RSub(e.p1, e.p2), RSub(e.x1, e.x2)), NormSq(e.sp, RSub(e.p1, e.p2)))
     THEN {"not-firmly-nonexpansive(exact)"} ELSE {})

FYClauses(e) ==
  LET ent == Entry(e.sp, e.f, 0)
      known == XKnown(e.fx) /\ XKnown(e.cy) /\ XKnown(e.ip)
      q == ProxQueryable(ent)
  IN  (IF known /\ QLt(QAdd(e.fx, e.cy), e.ip) THEN {"fenchel-young-inequality"} ELSE {}) \cup
      (IF e.fin = 1 /\ e.fxq + e.cyq < e.ipq - e.slackq THEN {"fenchel-young-inequality(q)"} ELSE {}) \cup
      (IF known /\ (e.atgrad = 1 \/ (q /\ InSubdiff(e.sp, e.f, e.x, e.y))) /\ QAdd(e.fx, e.cy) # e.ip
         THEN {"fenchel-young-equality"} ELSE {}) \cup
      (IF e.atgrad = 1 /\ e.fin = 1 /\ (e.fxq + e.cyq - e.ipq > e.slackq \/ e.ipq - e.fxq - e.cyq > e.slackq)
         THEN {"fenchel-young-equality(q)"} ELSE {}) \cup
      (IF e.fx # NaN /\ ValueBad(e.fx, QValue(ent, e.x)) THEN {"value"} ELSE {}) \cup
      (IF e.chk = 1 /\ e.cy # NaN /\ (q \/ e.f.op = "InfConv") /\ ValueBad(e.cy, QConj(ent, e.y))
         THEN {"conjugate-value"} ELSE {})

BiconjClauses(e) ==
  (IF e.fx # NaN /\ e.fccx # NaN /\ e.fx # e.fccx THEN {"biconjugate"} ELSE {}) \cup
  (IF (e.fx = NaN \/ e.fccx = NaN) /\ e.fin = 1 /\ (e.fxq - e.fccxq > e.slackq \/ e.fccxq - e.fxq > e.slackq)
     THEN {"biconjugate(q)"} ELSE {}) \cup
  (IF e.fx # NaN /\ ValueBad(e.fx, QValue(Entry(e.sp, e.f, 0), e.x)) THEN {"value"} ELSE {})

MoreauClauses(e) ==
  (IF IsOn(e.p) /\ IsOn(e.q) /\ RAdd(e.p, RMul(e.sig, e.q)) # e.x THEN {"moreau"} ELSE {}) \cup
  (IF e.resq > e.slackq THEN {"moreau(q)"} ELSE {})

GradClauses(e) ==
  LET ent == Entry(e.sp, e.f, 0)
      dd  == QDirDeriv(ent, e.x, e.d)
  IN  (IF e.gd # NaN /\ e.dd # NaN /\ e.gd # e.dd THEN {"derivative-differs-from-inner(gradient)"} ELSE {}) \cup
      (IF (e.gd = NaN \/ e.dd = NaN) /\ (e.gdq - e.ddq > e.slackq \/ e.ddq - e.gdq > e.slackq)
         THEN {"derivative-differs-from-inner(gradient)(q)"} ELSE {}) \cup
      (IF XKnown(dd) /\ e.gd # NaN /\ e.gd # dd THEN {"gradient-vs-values"} ELSE {}) \cup
      (IF ProxQueryable(ent) /\ IsOn(e.g) /\ Differentiable(e.sp, e.f, e.x) /\ ~InSubdiff(e.sp, e.f, e.x, e.g)
         THEN {"gradient-not-subgradient"} ELSE {}) \cup
      (IF e.fx # NaN /\ ValueBad(e.fx, QValue(ent, e.x)) THEN {"value"} ELSE {})

LipClauses(e) ==
  (IF IsOn(e.gx) /\ IsOn(e.gy) /\ XKnown(e.L) /\ ~LipschitzHolds(e.sp, e.L, e.x, e.y, e.gx, e.gy)
     THEN {"lipschitz-bound"} ELSE {}) \cup
  (IF e.lhsq > e.rhsq + e.slackq THEN {"lipschitz-bound(q)"} ELSE {})

\* central differences of a smooth non-polynomial functional: e(h/2) <= e(h)/3 + floor
\* (only where the specification says the segment x +- d/64 stays inside one smooth piece; opaque = 1: a
\* smooth functional outside the catalogue)
CdClauses(e) ==
  IF (IF e.opaque = 1 THEN TRUE ELSE SmoothAlong(e.sp, e.f, e.x, e.d, Q(1, 64))) /\ 3 * e.e2q > e.e1q + 3 * e.floorq
    THEN {"central-difference-convergence"} ELSE {}

\* a relation between numbers observed on objects outside the catalogue (parametrised conjugate pairs with a
\* generic exponent, nuclear norms, functionals on the scalar field): lhs >= rhs or lhs = rhs, named by the driver
AbsI(a) == IF a < 0 THEN -a ELSE a
RelClauses(e) ==
  IF e.mode = "ge" THEN (IF e.lhsq < e.rhsq - e.slackq THEN {e.cl} ELSE {})
  ELSE (IF AbsI(e.lhsq - e.rhsq) > e.slackq THEN {e.cl} ELSE {})

\* f.is_linear claims a linear map; the observed values and the values of the specification may refute it
LinClauses(e) ==
  IF e.flag = 0 THEN {}
  ELSE (IF e.fin = 1 /\ (AbsI(e.fxyq - e.fxq - e.fyq) > e.slackq \/ AbsI(e.f2xq - 2 * e.fxq) > e.slackq
                          \/ AbsI(e.f0q) > e.slackq)
          THEN {"is_linear-refuted-by-observed-values"} ELSE {}) \cup
       (IF e.opaque = 0 /\ LinearRefutedAt(e.sp, e.f, e.x, e.y)
          THEN {"is_linear-refuted-by-specification"} ELSE {})

\* an indicator asked at b + 2^-k d (exactly representable): +inf whenever the whole ray is outside the set
OutsideClauses(e) ==
  IF e.fin = 1 /\ OutsideRay(e.sp, e.f, e.b, e.d) THEN {"indicator-finite-outside-the-set"} ELSE {}

\* a functional whose gradient is NumericalGradient(f, method, step), possibly under a rule:
\* rule "none" | "Translate" (u) | "LScale" (s) | "Sum" (second program g, same method and step)
NumGradClauses(e) ==
  LET base(x) == NumGrad(e.sp, e.f, x, e.m, e.h)
      exp == CASE e.rule = "none"      -> base(e.x)
               [] e.rule = "Translate" -> base(RSub(e.x, e.u))
               [] e.rule = "LScale"    -> LET g == base(e.x) IN
                                          [i \in 1..Len(g) |-> IF XKnown(g[i]) THEN QMul(e.s, g[i]) ELSE NaN]
               [] e.rule = "Sum"       -> LET g == base(e.x)  g2 == NumGrad(e.sp, e.g, e.x, e.m, e.h) IN
                                          [i \in 1..Len(g) |-> IF XKnown(g[i]) /\ XKnown(g2[i]) THEN QAdd(g[i], g2[i]) ELSE NaN]
  IN IF \E i \in 1..Len(e.grad) : XKnown(exp[i]) /\ e.grad[i] # NaN /\ e.grad[i] # exp[i]
       THEN {"numerical-gradient"} ELSE {}

ValueClauses(e) ==
  IF e.fx # NaN /\ ValueBad(e.fx, QValue(Entry(e.sp, e.f, 0), e.x)) THEN {"value"} ELSE {}

Clauses(e) ==
  CASE e.k = "prox"   -> ProxClauses(e)
    [] e.k = "probe"  -> ProbeClauses(e)
    [] e.k = "pair"   -> PairClauses(e)
    [] e.k = "fy"     -> FYClauses(e)
    [] e.k = "biconj" -> BiconjClauses(e)
    [] e.k = "moreau" -> MoreauClauses(e)
    [] e.k = "grad"   -> GradClauses(e)
    [] e.k = "lip"    -> LipClauses(e)
    [] e.k = "cdrel"  -> CdClauses(e)
    [] e.k = "value"  -> ValueClauses(e)
    [] e.k = "rel"    -> RelClauses(e)
    [] e.k = "outside" -> OutsideClauses(e)
    [] e.k = "numgrad" -> NumGradClauses(e)
    [] e.k = "lin"    -> LinClauses(e)
    [] OTHER -> {"unknown-event-kind"}

TraceInit == l = 1 /\ stack = <<>>
TraceStep ==
  /\ l <= Len(Trace)
  /\ LET e == Trace[l]
         bad == Clauses(e)
     IN  /\ (IF bad = {} THEN TRUE ELSE PrintT(<<"FAIL", l, e.id, bad>>))
         /\ stack' = <<>>
  /\ l' = l + 1
TraceSpec == TraceInit /\ [][TraceStep]_tvars
TraceAccepted == TLCGet("stats").diameter - 1 = Len(Trace)

TrSp == SpRn(1)
TrDepth == 0
TrNone == {}
=============================================================================

----------------------------- MODULE Trace_Ufunc -----------------------------
(***************************************************************************)
(* Layer D for C17: validates events recorded from REAL ODL elements.      *)
(* Event kinds (field k):                                                  *)
(*                                                                         *)
(*  "uf"     one ufunc call  np.<name>[.method](operands, **kw)  on space  *)
(*           elements:  case = the configuration record of UfuncMachine,   *)
(*           name, dt (operand dtype), dtk (dtype keyword or "none"),      *)
(*           odt (dtype of the out object or "none"),                      *)
(*           per output k:  rkind, rshape, rdtype  (observed),             *)
(*                          ref_shape, ref_dtype   (the SAME call on the   *)
(*                          raw ndarrays: NumPy is the oracle the property *)
(*                          names), ulp (integer ulp distance, worst entry)*)
(*                          isout / outulp (out= protocol),                *)
(*           unchanged (operands not modified), err,                       *)
(*           layout (C / F / S = strided view: memory layout of operands   *)
(*           and out objects), wrapshare (element shares memory with the   *)
(*           caller array it wraps), backulp (at: that caller array vs the *)
(*           reference), gaps (buffer entries outside a strided view kept),*)
(*           exact = 1: xin, yin, b, vals  -- the specification recomputes *)
(*           the values itself (ExactCall.. of UfuncSem)                   *)
(*  "wrap"   space.element(arr): shares memory, asarray() round trip       *)
(*  "legacy" x.ufuncs.<name>(...) against the NumPy call on the element    *)
(*                                                                         *)
(* TOTAL: a rejected event prints <<"FAIL", line, id, clauses>>; an event  *)
(* on which the NumPy reference contradicts the shape / dtype rule of the  *)
(* specification prints <<"SPEC", ...>> (machinery, never a verdict).      *)
(***************************************************************************)
EXTENDS UfuncSem, Json, IOUtils

Trace == ndJsonDeserialize(IOEnv.TRACE_FILE)
MaxUlp == 2

VARIABLE l

Arr(sh, v) == [sh |-> sh, v |-> v]

ExactValue(e) ==
  LET c == e.case IN
  ExactUfunc(e.name, [method |-> c.method, unary |-> c.ucls \in {"u1", "u2"},
                      x |-> Arr(c.shapes[1], e.xin),
                      y |-> Arr(IF Len(c.shapes) = 2 THEN c.shapes[2] ELSE c.shapes[1], e.yin),
                      axis |-> c.axis, keepdims |-> c.keepdims, idx |-> c.idx, b |-> e.b])

Tuplify(f) == [i \in 1..Len(f) |-> f[i]]

UfClauses(e) ==
  LET c    == e.case
      nd   == Len(c.shapes[1])
      full == c.method = "reduce" /\ AxesOf(c.axis, nd) = 0..(nd - 1)
      expk == ResKind(c.kind, c.method, c.outkind, c.keepdims, full, c.order \in {"ea", "ae"})
      exps == ResShape(c.method, c.shapes, c.axis, c.keepdims, Len(c.idx))
      nout == Len(e.ref_shape)
      spec == (IF \E k \in 1..nout : e.ref_shape[k] # exps THEN {"spec-vs-numpy-shape"} ELSE {})
              \cup (IF e.exact = 1 /\ ResDTypeOut(e.name, e.case.method, e.dt, e.dtk, e.odt) # e.ref_dtype[1]
                      THEN {"spec-vs-numpy-dtype"} ELSE {})
  IN
  IF spec # {} THEN spec
  ELSE IF e.err # "" THEN (IF expk = "refused" THEN {} ELSE {"raised"})
  ELSE
    UNION { (IF expk \notin {"any", "refused"} /\ e.rkind[k] # expk THEN {"kind"} ELSE {})
            \cup (IF expk = "any" /\ e.rkind[k] \notin {"power", "ndarray", "tensor"} THEN {"kind"} ELSE {})
            \cup (IF e.rshape[k] # exps THEN {"shape"} ELSE {})
            \cup (IF e.rdtype[k] # e.ref_dtype[k] THEN {"dtype"} ELSE {})
            \cup (IF e.ulp[k] > MaxUlp THEN {"value"} ELSE {})
            \cup (IF c.outkind # "none" /\ e.isout[k] # "yes" THEN {"out-not-returned"} ELSE {})
            \cup (IF c.outkind # "none" /\ e.outulp[k] > MaxUlp THEN {"out-not-written"} ELSE {})
            : k \in 1..nout }
    \cup (IF e.unchanged = 0 THEN {"operand-modified"} ELSE {})
    \* memory: the element wraps the caller's array without copy; `at` changes that very array;
    \* nothing outside a strided view is written
    \cup (IF e.wrapshare = 0 THEN {"wrap-copies"} ELSE {})
    \cup (IF e.backulp > MaxUlp THEN {"at-not-in-place"} ELSE {})
    \cup (IF e.gaps = 0 THEN {"wrote-outside-view"} ELSE {})
    \cup (IF e.exact = 1 /\ Tuplify(ExactValue(e).v) # e.vals[1] THEN {"exact-value"} ELSE {})

WrapClauses(e) ==
  (IF e.shares = 0 THEN {"wrap-copies"} ELSE {})
  \cup (IF e.roundtrip = 0 THEN {"asarray-roundtrip"} ELSE {})
  \cup (IF e.sees_write = 0 THEN {"wrap-not-a-view"} ELSE {})

\* x.ufuncs.<name>(...) agrees with np.<name>(x, ...): same outcome class, kind, shape, dtype, numbers
LegacyClauses(e) ==
  IF e.nerr # "" THEN {}                                   \* the NumPy call itself is refused: nothing to agree with
  ELSE IF e.err # "" THEN {"legacy-raised"}
  ELSE UNION { \* without out= the same kind of object as the NumPy call; with out= the very out object
               (IF e.isout[k] = "na" /\ e.lkind[k] # e.nkind[k] THEN {"legacy-kind"} ELSE {})
               \cup (IF e.lshape[k] # e.nshape[k] THEN {"legacy-shape"} ELSE {})
               \cup (IF e.ldtype[k] # e.ndtype[k] THEN {"legacy-dtype"} ELSE {})
               \cup (IF e.ulp[k] > MaxUlp THEN {"legacy-value"} ELSE {})
               \cup (IF e.isout[k] = "no" THEN {"legacy-out-not-returned"} ELSE {})
               : k \in 1..Len(e.nkind) }
       \cup (IF Len(e.lkind) # Len(e.nkind) THEN {"legacy-arity"} ELSE {})

Clauses(e) == CASE e.k = "uf" -> UfClauses(e)
                [] e.k = "wrap" -> WrapClauses(e)
                [] e.k = "legacy" -> LegacyClauses(e)
                [] OTHER -> {"unknown-event-kind"}

TraceInit == l = 1
TraceStep ==
  /\ l <= Len(Trace)
  /\ LET e == Trace[l]
         bad == Clauses(e)
     IN  IF bad = {} THEN TRUE
         ELSE IF bad \subseteq {"spec-vs-numpy-shape", "spec-vs-numpy-dtype"} THEN PrintT(<<"SPEC", l, e.id, bad>>)
         ELSE PrintT(<<"FAIL", l, e.id, bad>>)
  /\ l' = l + 1
TraceSpec == TraceInit /\ [][TraceStep]_l

TraceAccepted == TLCGet("stats").diameter - 1 = Len(Trace)
=============================================================================

------------------------------- MODULE Trace_FT -------------------------------
(***************************************************************************)
(* Layer D for C18: validates events recorded from REAL ODL transform       *)
(* objects.  TOTAL: an event that the reference rejects is reported as      *)
(*     <<"FAIL", line, id, clauses>>                                        *)
(* and validation continues; POSTCONDITION TraceAccepted checks that every  *)
(* line was consumed.  Event kinds (field k):                               *)
(*  "tab"   projected matrix of a transform (entries: exponent e >= 0 of    *)
(*          w_M^e, -1 exact zero, -2 magnitude off the lattice, -3 angle    *)
(*          off the lattice) against DFTExp / IDFTExp / FTPhaseExp /        *)
(*          IFTPhaseExp of the logged configuration; src = "odl" | "numpy"  *)
(*  "id"    a round trip  inverse(forward(e_j))  snapped to the lattice Z   *)
(*          must be the identity matrix (Fourier and wavelet)               *)
(*  "mag"   relational: quantised row magnitudes of the continuous FT       *)
(*          against the documented kernel factor, slack in quanta           *)
(*  "magf"  the same with the reference frequencies the harness used        *)
(*  "conv"  relational: quantised errors against the analytic transform of  *)
(*          a Gaussian under refinement n -> 2n -> 4n must at least halve   *)
(*  "adj"   relational: quantised <W x, y> against <x, W^* y>               *)
(*  "lay"   coefficient layout observed on a WaveletTransform against       *)
(*          WaveLayout!Layout                                               *)
(*  "deriv" option record read from an operator obtained by .inverse /     *)
(*          .adjoint along a path against DFTDerive!Chain(base, path)       *)
(*  "hist"  one call of a history on one transform object against           *)
(*          DFTMachine!Post (value, argument survives, frame)               *)
(* Every event may carry err # "" (the public call raised).                 *)
(***************************************************************************)
EXTENDS DFTSem, Json, IOUtils

VARIABLES l, heap, hist
WL == INSTANCE WaveLayout
DM == INSTANCE DFTMachine WITH MaxLen <- 0, Efforts <- {}, Slim <- FALSE
DD == INSTANCE DFTDerive WITH Bases <- {}, MaxLen <- 0, base <- 0, desc <- 0, path <- <<>>

Trace == ndJsonDeserialize(IOEnv.TRACE_FILE)

IAbs(a) == IF a < 0 THEN -a ELSE a

ExpectedTab(e) ==
  CASE e.t = "dft"  -> DFTExp(e.shape, e.axes, e.sign, e.hc)
    [] e.t = "idft" -> IDFTExp(e.shape, e.axes, e.sign)
    [] e.t = "ft"   -> FTPhaseExp(e.shape, e.axes, e.sign, e.hc, e.shifts, e.x0)
    [] e.t = "ift"  -> IFTPhaseExp(e.shape, e.axes, e.sign, e.shifts, e.x0)

SameDims(a, b) == Len(a) = Len(b) /\ \A i \in 1..Len(a) : Len(a[i]) = Len(b[i])
NumDiff(a, b) ==
  IF ~SameDims(a, b) THEN -1
  ELSE Cardinality({p \in (1..Len(a)) \X (1..Len(a[1])) : a[p[1]][p[2]] # b[p[1]][p[2]]})

TabClauses(e) ==
  LET exp == ExpectedTab(e)
      per == IF e.t \in {"dft", "idft"} THEN DFTPeriod(e.shape, e.axes) ELSE FTPeriod(e.shape, e.axes, e.x0)
  IN  (IF e.obs = exp THEN {} ELSE {<<IF e.src = "numpy" THEN "numpy-table" ELSE "table", NumDiff(e.obs, exp)>>})
      \cup (IF e.M = per THEN {} ELSE {<<"period", per>>})

IdClauses(e) ==
  LET n == Len(e.obs)
      bad == {p \in (1..n) \X (1..n) : Len(e.obs[p[1]]) # n \/ e.obs[p[1]][p[2]] # (IF p[1] = p[2] THEN 1 ELSE 0)}
  IN  IF bad = {} /\ n = e.n THEN {} ELSE {<<"identity", Cardinality(bad)>>}

MagClauses(e) ==
  LET bad == {i \in 1..Len(e.rows) : IAbs(e.rows[i][1] - e.rows[i][3]) > e.slack
                                      \/ IAbs(e.rows[i][2] - e.rows[i][3]) > e.slack}
  IN  IF bad = {} THEN {} ELSE {<<"magnitude", Cardinality(bad)>>}

\* the same for configurations beyond the export constants: the harness mirrored the reference
\* frequencies to evaluate the documented kernel factor; they must be the reference grid of layer A
MagfClauses(e) ==
  MagClauses(e) \cup (IF e.freqs = FTRowFreqs(e.shape, e.axes, e.hc, e.shifts) THEN {} ELSE {<<"freqs", 0>>})

\* errors quantised relative to the first one; each refinement must at least halve the error
\* (second order would quarter it) unless the error already sits on the floor
ConvClauses(e) ==
  LET bad == {i \in 1..(Len(e.errs) - 1) : ~(2 * e.errs[i + 1] <= e.errs[i] + 2 \/ e.errs[i + 1] <= e.floor)}
  IN  IF bad = {} /\ Len(e.errs) >= 3 THEN {} ELSE {<<"convergence", Cardinality(bad)>>}

AdjClauses(e) ==
  LET bad == {i \in 1..Len(e.a) : IAbs(e.a[i] - e.b[i]) > 2}
  IN  IF Len(e.a) = Len(e.b) /\ bad = {} THEN {} ELSE {<<"adjoint", Cardinality(bad)>>}

LayClauses(e) ==
  LET lay == WL!Layout(e.shape, e.axes, e.flen, e.mode, e.L)
      blk == WL!Tup([i \in 1..Len(lay) |-> <<lay[i].lev, lay[i].key, lay[i].shape, lay[i].start, lay[i].stop>>])
  IN  (IF e.blocks = blk THEN {} ELSE {<<"layout-blocks", Len(blk)>>})
      \cup (IF e.total = WL!Total(lay) THEN {} ELSE {<<"layout-total", WL!Total(lay)>>})
      \cup (IF e.scales = WL!ScalesOf(lay) THEN {} ELSE {<<"layout-scales", 0>>})

HistClauses(e) ==
  IF ~DM!Enabled(e.pre, e.act) THEN {<<"not-enabled", 0>>}
  ELSE LET exp == DM!Post(e.pre, e.act)
       IN  {<<"hist", o>> : o \in {o \in DM!Objs : e.post[o] # exp[o]}}

DerivClauses(e) ==
  IF ~DD!ChainEnabled(e.base, e.path) THEN {<<"not-enabled", 0>>}
  ELSE LET exp == DD!Chain(e.base, e.path)
       IN  IF DOMAIN e.obs # DOMAIN exp THEN {<<"derived", "fields">>}
           ELSE {<<"derived", f>> : f \in {f \in DOMAIN exp : e.obs[f] # exp[f]}}

Clauses(e) ==
  IF e.err # "" THEN {<<"raised", e.err>>}
  ELSE CASE e.k = "tab"  -> TabClauses(e)
         [] e.k = "id"   -> IdClauses(e)
         [] e.k = "mag"  -> MagClauses(e)
         [] e.k = "magf" -> MagfClauses(e)
         [] e.k = "conv" -> ConvClauses(e)
         [] e.k = "adj"  -> AdjClauses(e)
         [] e.k = "lay"  -> LayClauses(e)
         [] e.k = "hist" -> HistClauses(e)
         [] e.k = "deriv" -> DerivClauses(e)
         [] OTHER -> {<<"unknown-kind", 0>>}

tvars == <<l, heap, hist>>
TraceInit == l = 1 /\ heap = <<>> /\ hist = <<>>
TraceStep ==
  /\ l <= Len(Trace)
  /\ LET e == Trace[l]
         bad == Clauses(e)
     IN  IF bad = {} THEN TRUE ELSE PrintT(<<"FAIL", l, e.id, bad>>)
  /\ l' = l + 1
  /\ UNCHANGED <<heap, hist>>
TraceSpec == TraceInit /\ [][TraceStep]_tvars
TraceAccepted == TLCGet("stats").diameter - 1 = Len(Trace)
=============================================================================

---------------------------- MODULE Trace_Smooth ----------------------------
(***************************************************************************)
(* Layer D (extension stage "smooth"): validates what REAL ODL smooth      *)
(* solvers and step-length objects did, recorded from outside through the  *)
(* caller's own objects (the line-search rule, the callback, x).  One line *)
(* = one public call; the lines of one solver run / one object history     *)
(* share a `tid`:                                                          *)
(*   op "begin"    a run starts: inst (record of SmoothSem), nreset,        *)
(*                 recorded (the rule's calls are on the tape), hascb       *)
(*   op "call"     the solver function is called: maxiter, start (<<>> =    *)
(*                 the caller's x as it is, else new start values), nops =  *)
(*                 number of "iter" lines of this call                      *)
(*   op "iter"     the solver called the rule (call = [has, x, d, dd, a]:   *)
(*                 current point, direction, directional derivative it      *)
(*                 handed over, step the rule returned) and then the        *)
(*                 callback (cbs = the iterates it was given before the     *)
(*                 next rule call); unrecorded rules: one line per callback *)
(*   op "ret"      the solver returned: x (the caller's element), raised,   *)
(*                 ret (type of a non-None return value), same (x is still  *)
(*                 the same object)                                         *)
(*   op "lsbegin"  a step-length object is created: inst (with queries)     *)
(*   op "lscall"   it is called on query q: raised, a                       *)
(*   op "pair"     relational: two quantised iterate sequences (real run /  *)
(*                 plain re-implementation of the documented recursion)     *)
(*   op "btdefault"  default max_num_iter of BacktrackingLineSearch for     *)
(*                 tau = 2^-k and a dtype with `mant` mantissa bits         *)
(* Observed numbers are snapped onto the lattice of the instance; an       *)
(* off-lattice value is the token <<0, 0>>.  The reference state `rs` is   *)
(* carried along the episode (one StepA per "iter" line).                  *)
(*                                                                         *)
(* TOTAL: a line the reference does not allow prints                        *)
(* <<"FAIL", line, id, clauses>>, the rest of ITS episode is skipped and   *)
(* validation continues; TraceAccepted checks every line was consumed.     *)
(***************************************************************************)
EXTENDS SmoothSem, Json, IOUtils

Trace == ndJsonDeserialize(IOEnv.TRACE_FILE)

VARIABLES l,      \* line being consumed
          rs,     \* reference state: solver state (S0 record) / [lo] of a step-length object
          cx,     \* episode context [inst, nreset, recorded, hascb, maxiter, nit, nrs, over]
          bad     \* tid of the episode that is being skipped (0 = none)
tvars == <<l, rs, cx, bad>>

CX0 == [inst |-> <<>>, nreset |-> 0, recorded |-> FALSE, hascb |-> FALSE, maxiter |-> 0, nops |-> 0, nit |-> 0,
        nrs |-> 0, over |-> FALSE]
Live(I, s) == s.ok /\ ~Converged(I, s)

\* the reference performs up to n further iterations without being observed
RECURSIVE RunSilent(_, _, _)
RunSilent(I, s, n) == IF n = 0 \/ ~Live(I, s) THEN s ELSE RunSilent(I, E(StepA(I, s)), n - 1)

(* ------------------------- one iteration line --------------------------- *)
\* nonlinear CG with nreset > 0: "number of times the solver should be reset" - the docstring does not say when, so an
\* iteration may either continue the recursion or restart it with the steepest-descent direction
Restarted(s) == [s EXCEPT !.gp = <<>>, !.sp = <<>>]
CallClauses(I, c, s0, s1) ==
  (IF c.x # s0.x THEN {"rule-point"} ELSE {})
  \cup (IF I.solver # "adam" /\ c.d # s1.d THEN {"direction"} ELSE {})
  \cup (IF I.solver # "adam" /\ c.dd # s1.dd THEN {"dir-derivative"} ELSE {})
  \cup (IF I.solver # "adam" /\ c.a # s1.a THEN {"step-length"} ELSE {})
CbClauses(e, s1, first) ==
  IF ~cx.hascb THEN {}
  ELSE (IF cx.recorded /\ e.orphan THEN {"callback-without-iteration"}
        ELSE IF Len(e.cbs) = 0 THEN {IF first THEN "callback-missing-first" ELSE "callback-missing"}
        ELSE IF Len(e.cbs) > 1 THEN {"callback-extra"} ELSE {})
       \cup (IF Len(e.cbs) >= 1 /\ e.cbs[1] # s1.x THEN {IF first THEN "iterate-first" ELSE "iterate"} ELSE {})
\* result of an "iter" line: [cl, rs, cx]
IterLine(e) ==
  LET I == cx.inst IN
  IF e.call.has /\ e.call.raised THEN [cl |-> {"rule-raised"}, rs |-> rs, cx |-> cx]
  ELSE IF cx.nit >= cx.maxiter
    THEN [cl |-> {IF cx.nops = cx.maxiter + 1 THEN "maxiter-plus-one" ELSE "maxiter-exceeded"}, rs |-> rs,
          cx |-> [cx EXCEPT !.over = TRUE]]
  ELSE IF ~rs.ok THEN [cl |-> {"harness-not-comparable"}, rs |-> rs, cx |-> cx]
  ELSE IF Converged(I, rs)
    THEN \* junk iterations at the stationary point are fine as long as nothing moves
         [cl |-> IF (e.call.has /\ e.call.x # rs.x) \/ \E i \in 1..Len(e.cbs) : e.cbs[i] # rs.x
                   THEN {"moved-after-convergence"} ELSE {},
          rs |-> rs, cx |-> cx]
  ELSE W(E(StepA(I, rs)), LAMBDA sc :
       W(IF I.solver = "ncg" /\ cx.nreset > 0 /\ rs.sp # <<>> /\ e.call.has /\ e.call.d # sc.d
           THEN E(StepA(I, Restarted(rs))) ELSE sc, LAMBDA s1 :
         [cl |-> (IF e.call.has THEN CallClauses(I, e.call, rs, s1) ELSE {})
                 \cup CbClauses(e, s1, cx.nit = 0)
                 \cup (IF s1 # sc /\ cx.nrs >= cx.nreset THEN {"too-many-resets"} ELSE {})
                 \cup (IF ~s1.ok \/ s1.tie THEN {"harness-not-comparable"} ELSE {}),
          rs |-> s1,
          cx |-> [cx EXCEPT !.nit = cx.nit + 1, !.nrs = IF s1 # sc THEN cx.nrs + 1 ELSE cx.nrs]]))

\* result of a "ret" line
RetLine(e) ==
  LET I == cx.inst
      quiet == ~cx.recorded /\ ~cx.hascb
  IN  IF e.raised # "" THEN [cl |-> {"raised"}, rs |-> rs, cx |-> cx]
      ELSE W(IF quiet THEN E(RunSilent(I, rs, cx.maxiter - cx.nit)) ELSE rs, LAMBDA s1 :
             \* (nreset > 0 spreads maxiter over nreset + 1 cycles of maxiter \div (nreset + 1) iterations: up to
             \*  nreset iterations fewer than maxiter are within "maximum number of iterations")
             [cl |-> (IF ~quiet /\ ~cx.over /\ Live(I, s1) /\ cx.nit < cx.maxiter - cx.nreset
                        THEN {IF cx.nit = 0 THEN "early-stop-first" ELSE "early-stop"} ELSE {})
                     \cup (IF ~cx.over /\ e.x # s1.x /\ (quiet \/ ~(Live(I, s1) /\ cx.nit < cx.maxiter - cx.nreset))
                             THEN {IF cx.nit <= 1 /\ ~quiet THEN "final-first" ELSE "final"} ELSE {})
                     \cup (IF e.ret # "" THEN {"return-value"} ELSE {})
                     \cup (IF ~e.same THEN {"x-object"} ELSE {})
                     \cup (IF ~s1.ok \/ s1.tie THEN {"harness-not-comparable"} ELSE {}),
              rs |-> s1, cx |-> cx])

(* ------------------------- step-length objects --------------------------- *)
LSLine(e) ==
  LET I == cx.inst
      qq == I.queries[e.q]
      dd == DirDeriv(I.P, qq.x, qq.d)
  IN  IF I.ls.k = "bt"
        THEN W(E(BTCall(I.P, I.ls, rs.lo, qq.x, qq.d, dd)), LAMBDA r :
               [cl |-> IF r.tie THEN {"harness-tie"}
                       ELSE IF r.status \in {"raise", "nodescent"}
                         THEN (IF e.raised THEN {} ELSE {"no-error"})
                       ELSE IF r.status = "edge" /\ e.raised THEN {}
                       ELSE IF e.raised THEN {"raised"}
                       ELSE IF e.a # r.a THEN {IF rs.lo.calls = 0 THEN "step-first-call" ELSE "step"} ELSE {},
                rs |-> [lo |-> BTNext(rs.lo, r)],
                \* after an error the remembered step of the object is not specified: with estimate_step the episode ends
                cx |-> [cx EXCEPT !.over = e.raised /\ I.ls.est]])
        ELSE W(E(StepLen(I.P, I.ls, rs.lo, qq.x, qq.d, dd)), LAMBDA r :
               [cl |-> IF e.raised THEN {"raised"} ELSE IF e.a # r.a THEN {"step"} ELSE {},
                rs |-> [lo |-> r.lo], cx |-> cx])

(* ------------------------- relational lines ------------------------------ *)
Min2i(a, b) == IF a <= b THEN a ELSE b
VecClose(u, v) == Len(u) = Len(v) /\ \A i \in 1..Len(u) : Abs(u[i] - v[i]) <= 2
PairClauses(e) ==
  (IF Len(e.a) # e.niter \/ Len(e.b) # e.niter THEN {"length"} ELSE {})
  \cup (IF \E j \in 1..Min2i(Len(e.a), Len(e.b)) : ~VecClose(e.a[j], e.b[j])
          THEN {IF VecClose(e.a[1], e.b[1]) THEN "differs-later" ELSE "differs-first"} ELSE {})
  \cup (IF e.na \notin {-1, e.niter} THEN {"callback-count"} ELSE {})
  \cup (IF ~VecClose(e.fa, e.fb) THEN {"final-differs"} ELSE {})
\* "if None, this number is calculated to allow a shortest step length of 10 times machine epsilon": with tau = 2^-k
\* and eps = 2^-mant the smallest step 2^-(k mx) lies within a factor 16 of 10 eps ("machine epsilon" read loosely):
\*   2^-(k mx) <= 160 eps   and   2^-(k (mx - 1)) > 10 eps / 16     (log2 160 = 7.32, log2 (10/16) = -0.68)
BTDefaultClauses(e) ==
  IF e.k * e.mx >= e.mant - 7 /\ e.k * (e.mx - 1) <= e.mant THEN {} ELSE {"default-max-num-iter"}

(* ------------------------- the trace machine ----------------------------- *)
TraceInit == l = 1 /\ rs = <<>> /\ cx = CX0 /\ bad = 0

Report(e, cl) == IF cl = {} THEN TRUE ELSE PrintT(<<"FAIL", l, e.id, cl>>)

\* what a line does: [cl, rs, cx]
Line(e) ==
  CASE e.op = "begin" ->
         [cl |-> IF ProblemOK(e.inst.P) THEN {} ELSE {"harness-ill-formed"},
          rs |-> StartState(e.inst, e.inst.x0, LOInit(e.inst.ls)),
          cx |-> [CX0 EXCEPT !.inst = e.inst, !.nreset = e.nreset, !.recorded = e.recorded, !.hascb = e.hascb]]
    [] e.op = "call" ->
         [cl |-> {}, rs |-> StartState(cx.inst, IF e.start = <<>> THEN rs.x ELSE e.start, rs.lo),
          cx |-> [cx EXCEPT !.maxiter = e.maxiter, !.nops = e.nops, !.nit = 0, !.nrs = 0, !.over = FALSE]]
    [] e.op = "iter" -> IterLine(e)
    [] e.op = "ret" -> RetLine(e)
    [] e.op = "lsbegin" ->
         [cl |-> IF ProblemOK(e.inst.P) THEN {} ELSE {"harness-ill-formed"},
          rs |-> [lo |-> LOInit(e.inst.ls)], cx |-> [CX0 EXCEPT !.inst = e.inst]]
    [] e.op = "lscall" -> LSLine(e)
    [] e.op = "pair" -> [cl |-> PairClauses(e), rs |-> rs, cx |-> cx]
    [] e.op = "btdefault" -> [cl |-> BTDefaultClauses(e), rs |-> rs, cx |-> cx]
    [] OTHER -> [cl |-> {"unknown-op"}, rs |-> rs, cx |-> cx]

Opens(e) == e.op \in {"begin", "lsbegin", "pair", "btdefault"}
\* clauses after which the real run and the reference are still comparable
NonFatal == {"callback-missing-first", "callback-missing", "callback-extra", "callback-without-iteration",
             "return-value", "x-object"}
TraceStep ==
  /\ l <= Len(Trace)
  /\ \E e \in {Trace[l]} :
       IF ~Opens(e) /\ (bad = e.tid \/ (cx.over /\ e.op = "lscall"))
         THEN /\ UNCHANGED <<rs, cx, bad>>                         \* the rest of a rejected episode is skipped
       ELSE \E r \in {Line(e)} :
              /\ Report(e, r.cl)
              /\ rs' = r.rs /\ cx' = r.cx
              /\ bad' = IF r.cl \ NonFatal # {} THEN e.tid ELSE IF Opens(e) THEN 0 ELSE bad
  /\ l' = l + 1

TraceSpec == TraceInit /\ [][TraceStep]_tvars
\* every line of the trace was consumed
TraceAccepted == TLCGet("stats").diameter - 1 = Len(Trace)
=============================================================================

---------------------------- MODULE Trace_Space ----------------------------
(***************************************************************************)
(* Layer D for property C02: validates observations recorded from REAL ODL  *)
(* spaces.  One event = one abstract case executed on one concretisation:   *)
(*   [id, tid, spc, pw, x, y, z, a, xzero, o, qn]                           *)
(* o.<name> = [s |-> "ok" | "raised" | "off", v |-> C]  for                 *)
(*   ixy iyx ixx iyy ixz iyz  <.,.> of the named vectors                    *)
(*   ilin  <a*x + y, z>                                                      *)
(*   nx ny nax nxpy nxmy none   ||.||^pw of x, y, a*x, x+y, x-y, one        *)
(*   dxy dyx                    dist(.,.)^pw                                 *)
(* (sums over a k-fold periodic tiling already divided by k: TilingLemma).  *)
(* qn = <<nx, ny, nxpy, valid>> raw norms as integers on a common scale     *)
(* (relational triangle clause for generic p).                              *)
(*                                                                         *)
(* Two families of clauses, all evaluated by TLC:                           *)
(*   value:<name>  the observation equals layer A (SpaceSem) recomputed     *)
(*                 here from the logged inputs -- the documented weighting  *)
(*   ax-*          the axioms of C02 hold ON THE OBSERVED VALUES            *)
(* The specification is total: a rejected event is printed as               *)
(*   "FAIL {line, id, bad: [[clause, observable]..], feat: [..]}" (one JSON   *)
(* string per line) and validation continues.                               *)
(***************************************************************************)
EXTENDS WeightingImpl, Json, IOUtils

Trace == ndJsonDeserialize(IOEnv.TRACE_FILE)

VARIABLE l

\* 32-bit guard: the axiom clauses multiply observed numbers; an absurdly large observation is
\* reported by its value clause and is not fed into arithmetic
\* (observations are multiples of 1/D, D = the lattice denominator the harness snapped with)
SmallQ(p, D) == Abs(p[1]) < 8192 /\ p[2] > 0 /\ D % p[2] = 0 /\ Abs(p[1]) * (D \div p[2]) < 8192
SmallC(c, D) == SmallQ(c[1], D) /\ SmallQ(c[2], D)
\* the integer  q * D
IntOf(p, D) == p[1] * (D \div p[2])
Val(ob)   == ob.v
RealOf(ob) == ob.v[1]

\* observation `ob` against the layer-A value `c` (defined = the reference defines it for this case)
ValueClause(name, ob, defined, c) ==
  IF ~defined THEN {}
  ELSE IF ob.s = "raised" THEN {<<"raised", name>>}
  ELSE IF ob.s = "off" THEN {<<"offlattice", name>>}
  ELSE IF ob.v # c THEN {<<"value", name>>} ELSE {}

\* wt: the weight tree of e.spc, bound EAGERLY by the caller (TLC re-evaluates LET definitions on every use)
ClausesW(e, wt) ==
  LET spc == e.spc
      o   == e.o
      P   == Pow(spc)
      x == e.x  y == e.y  z == e.z  a == e.a
      ax  == TScal(spc, a, x)
      idef == InnerDefined(spc)
      IPc(u, v) == InnerW(wt, spc, u, v)
      NOk(v) == NormOkW(wt, spc, v)
      Nc(v) == CR(NormPowW(wt, spc, v))
      DOk(u, v) == DistOkW(wt, spc, u, v)
      Dc(u, v) == CR(DistPowW(wt, spc, u, v))
      xpy == TAdd(spc, x, y)
      xmy == TSub(spc, x, y)
      one == TOne(spc)
      \* an observation takes part in an axiom clause only if the reference says its true value is
      \* an exact lattice number (otherwise the snapped number means nothing) and it is small
      U(ob, defined) == defined /\ ob.s = "ok" /\ SmallC(ob.v, e.D)
      I(q) == IntOf(q, e.D)
      uixy == U(o.ixy, idef)  uiyx == U(o.iyx, idef)  uixx == U(o.ixx, idef)  uiyy == U(o.iyy, idef)
      uixz == U(o.ixz, idef)  uiyz == U(o.iyz, idef)  uilin == U(o.ilin, idef)
      unx == U(o.nx, NOk(x))  uny == U(o.ny, NOk(y))  unax == U(o.nax, NOk(ax))
      unxpy == U(o.nxpy, NOk(xpy))  unxmy == U(o.nxmy, NOk(xmy))  unone == U(o.none, NOk(one))
      udxy == U(o.dxy, DOk(x, y))  udyx == U(o.dyx, DOk(y, x))
      \* ---- the documented weighting (values) ----
      values ==
             ValueClause("ixy", o.ixy, idef, IPc(x, y))
        \cup ValueClause("iyx", o.iyx, idef, IPc(y, x))
        \cup ValueClause("ixx", o.ixx, idef, IPc(x, x))
        \cup ValueClause("iyy", o.iyy, idef, IPc(y, y))
        \cup ValueClause("ixz", o.ixz, idef, IPc(x, z))
        \cup ValueClause("iyz", o.iyz, idef, IPc(y, z))
        \cup ValueClause("ilin", o.ilin, idef, IPc(TAdd(spc, ax, y), z))
        \cup ValueClause("nx", o.nx, NOk(x), Nc(x))
        \cup ValueClause("ny", o.ny, NOk(y), Nc(y))
        \cup ValueClause("nax", o.nax, NOk(ax), Nc(ax))
        \cup ValueClause("nxpy", o.nxpy, NOk(xpy), Nc(xpy))
        \cup ValueClause("nxmy", o.nxmy, NOk(xmy), Nc(xmy))
        \cup ValueClause("none", o.none, NOk(one), Nc(one))
        \cup ValueClause("dxy", o.dxy, DOk(x, y), Dc(x, y))
        \cup ValueClause("dyx", o.dyx, DOk(y, x), Dc(y, x))
      \* ---- the axioms, on the observed values ----
      conj == IF uixy /\ uiyx /\ Val(o.ixy) # CConj(Val(o.iyx)) THEN {<<"ax-conj-symmetry", "ixy">>} ELSE {}
      lin  == IF uilin /\ uixz /\ uiyz /\ Val(o.ilin) # CAdd(CMul(a, Val(o.ixz)), Val(o.iyz))
              THEN {<<"ax-linearity", "ilin">>} ELSE {}
      pos  == IF uixx /\ ~( /\ IsRealC(Val(o.ixx)) /\ QLe(QZero, RealOf(o.ixx))
                           /\ ((Val(o.ixx) = CZero) <=> e.xzero) )
              THEN {<<"ax-positivity", "ixx">>} ELSE {}
      cs   == IF uixy /\ uixx /\ uiyy /\ IsRealC(Val(o.ixx)) /\ IsRealC(Val(o.iyy))
                 /\ I(Val(o.ixy)[1]) * I(Val(o.ixy)[1]) + I(Val(o.ixy)[2]) * I(Val(o.ixy)[2])
                      > I(RealOf(o.ixx)) * I(RealOf(o.iyy))
              THEN {<<"ax-cauchy-schwarz", "ixy">>} ELSE {}
      nin  == IF idef /\ unx /\ uixx /\ Val(o.nx) # Val(o.ixx)
              THEN {<<"ax-norm-is-sqrt-inner", "nx">>} ELSE {}
      hom  == IF unax /\ unx /\ AbsPowOk(a, P) /\ RealOf(o.nax) # QMul(AbsPow(a, P), RealOf(o.nx))
              THEN {<<"ax-homogeneity", "nax">>} ELSE {}
      npos == IF unx /\ ~(QLe(QZero, RealOf(o.nx)) /\ ((RealOf(o.nx) = QZero) <=> e.xzero))
              THEN {<<"ax-norm-positivity", "nx">>} ELSE {}
      tri  == IF P = 3
              \* generic p: relation on the quantised raw norms (no lattice needed), slack 2 quanta
              THEN (IF e.qn[4] = 1 /\ e.qn[3] > e.qn[1] + e.qn[2] + 2 THEN {<<"ax-triangle-quantised", "nxpy">>} ELSE {})
              ELSE IF unx /\ uny /\ unxpy
              THEN LET nx == RealOf(o.nx)  ny == RealOf(o.ny)  ns == RealOf(o.nxpy) IN
                   IF P = 1 THEN (IF QLe(ns, QAdd(nx, ny)) THEN {} ELSE {<<"ax-triangle", "nxpy">>})
                   \* ||x+y|| <= ||x|| + ||y||  <=>  d <= 0 \/ d^2 <= 4 ||x||^2 ||y||^2,  d = ||x+y||^2 - ||x||^2 - ||y||^2
                   \* (integers: everything times D; |.| < 2^13, so d^2 < 2^30 and 4*nx*ny < 2^28)
                   ELSE LET d == I(ns) - I(nx) - I(ny)
                        IN  IF d <= 0 \/ d * d <= 4 * I(nx) * I(ny) THEN {}
                            ELSE {<<"ax-triangle", "nxpy">>}
              ELSE {}
      dn   == IF udxy /\ unxmy /\ Val(o.dxy) # Val(o.nxmy)
              THEN {<<"ax-dist-is-norm-of-difference", "dxy">>} ELSE {}
      ds   == IF udxy /\ udyx /\ Val(o.dxy) # Val(o.dyx)
              THEN {<<"ax-dist-symmetry", "dxy">>} ELSE {}
      vol  == IF spc.kind = "discr" /\ spc.p # PInf /\ unone /\ RealOf(o.none) # Volume(spc)
              THEN {<<"ax-one-has-domain-volume", "none">>} ELSE {}
      meta == IF e.pw # P THEN {<<"projection-power", "pw">>} ELSE {}
  IN values \cup conj \cup lin \cup pos \cup cs \cup nin \cup hom \cup npos \cup tri \cup dn \cup ds \cup vol \cup meta

Clauses(e) == UNION { ClausesW(e, wt) : wt \in {WTree(e.spc)} }

TraceInit == l = 1

TraceStep ==
  /\ l <= Len(Trace)
  /\ LET e == Trace[l]
         bad == Clauses(e)
     IN  (IF bad = {} THEN TRUE
          ELSE PrintT("FAIL " \o ToJson([line |-> l, id |-> e.id, bad |-> bad, feat |-> Features(e.spc)])))
  /\ l' = l + 1

TraceSpec == TraceInit /\ [][TraceStep]_l

\* every line of the trace was consumed
TraceAccepted == TLCGet("stats").diameter - 1 = Len(Trace)
=============================================================================

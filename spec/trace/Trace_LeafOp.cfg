SPECIFICATION TraceSpec
CONSTANTS
  Roots <- TrRoots
  MaxChain <- TrMaxChain
  PoolR <- TrPool
  PoolC <- TrPool
POSTCONDITION TraceAccepted
CHECK_DEADLOCK FALSE

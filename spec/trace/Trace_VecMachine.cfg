SPECIFICATION TraceSpec
CONSTANTS
  NObj <- TrNObj
  VecSet <- TrVecSet
  Scalars <- TrScalars
  IntOnly <- TrIntOnly
  Powers <- TrPowers
POSTCONDITION TraceAccepted
CHECK_DEADLOCK FALSE

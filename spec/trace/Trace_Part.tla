------------------------------ MODULE Trace_Part ------------------------------
(***************************************************************************)
(* Layer D (C14): validates events recorded from REAL RectPartition /      *)
(* RectGrid / IntervalProd objects and the partition constructors by       *)
(* re-evaluating the layer-A operators of PartSem on the logged inputs.    *)
(* One event = one public call: [id, tid, kind, part, <args>, obs, err].   *)
(* TOTAL: a rejected event prints <<"FAIL", line, id, clauses>> and the    *)
(* validation continues; TraceAccepted checks every line was consumed.     *)
(***************************************************************************)
EXTENDS PartSem, TLC, Json, IOUtils

Trace == ndJsonDeserialize(IOEnv.TRACE_FILE)
VARIABLE l

PartDiff(exp, obs) ==
  IF Len(exp) # Len(obs) THEN {<<"ndim", 0>>}
  ELSE UNION {{<<f, k>> : f \in {f \in {"min", "max", "nodes"} : exp[k][f] # obs[k][f]}} : k \in 1..Len(exp)}

DerivedDiff(part, obs) ==
  IF Len(part) # Len(obs) THEN {<<"ndim", 0>>}
  ELSE UNION {LET d == DerivedOf(part[k])  o == obs[k]
              IN  {<<f, k>> : f \in {f \in {"bdry", "sizes", "frac", "nob", "uniform", "extent"} : d[f] # o[f]}}
                  \cup (IF d.uniform /\ o.uniform /\ d.side # o.side THEN {<<"side", k>>} ELSE {})
              : k \in 1..Len(part)}

UniformExp(cases) == [k \in 1..Len(cases) |-> UniformPartitionAxis(cases[k].args, cases[k].L, cases[k].R)]

Clauses(e) ==
  IF e.err # "" THEN {<<"raised", 0>>}
  ELSE CASE e.kind = "derived" -> DerivedDiff(e.part, e.obs)
    [] e.kind = "index" ->
         IF Len(e.x) # Len(e.part) \/ \E k \in 1..Len(e.part) : ~InAxis(e.part[k], e.x[k])
           THEN {<<"precondition", 0>>}
         ELSE LET exp == Index(e.part, e.x, e.floating)
              IN  IF Len(e.obs) # Len(exp) THEN {<<"ndim", 0>>}
                  ELSE {<<"index", k>> : k \in {k \in 1..Len(exp) :
                           ~(e.floating /\ Degenerate(e.part[k])) /\ exp[k] # e.obs[k]}}
    [] e.kind = "getitem" ->
         IF ~IdxOK(e.part, e.idx) THEN {<<"precondition", 0>>} ELSE PartDiff(GetItem(e.part, e.idx), e.obs)
    [] e.kind = "insert"  -> PartDiff(Insert(e.part, e.index, e.others), e.obs)
    [] e.kind = "append"  -> PartDiff(AppendParts(e.part, e.others), e.obs)
    [] e.kind = "squeeze" ->
         PartDiff(Squeeze(e.part, IF e.all THEN AllAxes(e.part) ELSE {e.axes[t] : t \in 1..Len(e.axes)}), e.obs)
    [] e.kind = "byaxis_item" -> PartDiff(ByAxisItem(e.part, e.item), e.obs)
    [] e.kind = "byaxis_seq"  -> PartDiff(ByAxisSeq(e.part, e.axes), e.obs)
    [] e.kind = "fromgrid"    -> PartDiff(<<FromGridAxis(e.nodes, e.min, e.max)>>, e.obs)
    [] e.kind = "nonuniform"  -> PartDiff(<<NonuniformAxis(e.nodes, e.min, e.max, e.L, e.R)>>, e.obs)
    [] e.kind = "uniform"     ->
         IF \E k \in 1..Len(e.cases) : IsErrAxis(UniformExp(e.cases)[k]) THEN {<<"precondition", 0>>}
         ELSE PartDiff(UniformExp(e.cases), e.obs)
    [] e.kind = "phist" ->
         LET PartE(o) == [k \in 1..Len(e.sc.nodes) |->
                            Axis(e.sc.lims[o.lim].min[k], e.sc.lims[o.lim].max[k], e.sc.nodes[k])]
             Bad(s, j) ==
               IF s.err # "" THEN {<<"raised", j>>}
               ELSE IF s.a = "Q"
                 THEN (IF AnsSame(s.q, Ref(PartE(e.objs[s.i]), s.q), s.obs) THEN {} ELSE {<<s.q, j>>})
               ELSE IF s.a = "SWEEP"
                 THEN UNION {{<<q, j>> : q \in {q \in Queries :
                                  LET r == Ref(PartE(e.objs[i]), q)
                                  \* obs_first (first pass of the sweep) is logged only where it differs from the second pass
                                  IN  ~AnsSame(q, r, s.obs[i][q]) \/ (s.obs_first # <<>> /\ ~AnsSame(q, r, s.obs_first[i][q]))}}
                             : i \in 1..Len(e.objs)}
               ELSE {}
         IN  UNION {Bad(e.steps[j], j) : j \in 1..Len(e.steps)}
    [] OTHER -> {<<"unknown-kind", 0>>}

TraceInit == l = 1
TraceStep ==
  /\ l <= Len(Trace)
  /\ LET e == Trace[l]  bad == Clauses(e)
     IN  IF bad = {} THEN TRUE ELSE PrintT(<<"FAIL", l, e.id, bad>>)
  /\ l' = l + 1
TraceSpec == TraceInit /\ [][TraceStep]_l
TraceAccepted == TLCGet("stats").diameter - 1 = Len(Trace)
=============================================================================

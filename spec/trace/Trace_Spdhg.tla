----------------------------- MODULE Trace_Spdhg -----------------------------
(***************************************************************************)
(* Layer D (EXT/spdhg): validates EPISODES recorded from the real solvers   *)
(* of odl/contrib/solvers/spdhg.  One event = one history on real objects:  *)
(*   [id, tid, kind, alg, c, sched, n, obs, fin, err]                       *)
(*   kind   "episode" (the schedule is logged) | "defsel" (the documented   *)
(*          default selection ran for n iterations: TLC searches the serial *)
(*          schedules) ; err: the exception class if the call raised        *)
(*   c      the documented call (same record shape as MC_SpdhgCat!Case:     *)
(*          problem P, tau, sigma, theta, extra, prob, mug, mu, sigt, x0,   *)
(*          y0), projected from the concrete objects                        *)
(*   sched  the schedule that `fun_select` replayed: [a |-> "sel", S] per   *)
(*          iteration, [a |-> "resume"] where the call returned and a new   *)
(*          call was made with x, y, z passed back                          *)
(*   obs    what the callback saw after each entry: [x, y, z] (z = the      *)
(*          caller-owned object; <<>> where the caller did not pass one -   *)
(*          likewise y in `fin` when y was defaulted and nothing ran),      *)
(*          snapped onto rationals                                          *)
(*   fin    [x, y, z] after the last call returned (x is in-out, y and z    *)
(*          are the caller's objects)                                       *)
(* The layer-A step (SpdhgSem) is re-run from the documented start over     *)
(* the logged schedule and every observation is compared.  Where an         *)
(* accelerated variant's theta is irrational the exact comparison stops     *)
(* (entries after it are accepted unchecked; the Python driver does not     *)
(* log them).  TOTAL: a rejected event prints <<"FAIL", line, id, clauses>> *)
(* for the FIRST entry that disagrees; TraceAccepted checks that every line *)
(* was consumed.                                                           *)
(***************************************************************************)
EXTENDS SpdhgSem, TLC, Json, IOUtils

Trace == ndJsonDeserialize(IOEnv.TRACE_FILE)
VARIABLE l

SetOf(s) == {s[j] : j \in 1..Len(s)}
InvP(c)  == [i \in 1..Len(c.prob) |-> QInv(c.prob[i])]
ExtraOf(a, c) == IF a = "generic" THEN c.extra ELSE IF a = "pdhg" THEN <<QOne>> ELSE InvP(c)
ThetaNow(a, c, st) == CASE a = "pa" -> PaTheta(c.mug, st.tau) [] a = "da" -> DaTheta(st.sigt) [] OTHER -> c.theta
SigmaNow(a, c, st) == IF a = "da" THEN [i \in 1..NB(c.P) |-> DaSigma(st.sigt, c.mu[i], c.prob[i])] ELSE st.sigma

\* one entry of the schedule: -> [r, st, ok] (ok = FALSE: zr is not rational any more, the exact run has ended)
Entry(a, c, s, en) ==
  IF ~s.ok THEN s
  ELSE IF en.a = "resume" THEN [s EXCEPT !.r.zr = s.r.z]
  ELSE IF s.r.zr = Irr THEN [s EXCEPT !.ok = FALSE]
  ELSE LET th == ThetaNow(a, c, s.st)  S == SetOf(en.S)
           sg == SigmaNow(a, c, s.st)
           r1 == IF a = "pesquet" THEN PesquetStep(c.P, s.r, S, s.st.tau, s.st.sigma)
                 ELSE SpdhgStep(c.P, s.r, S, s.st.tau, sg, th, ExtraOf(a, c))
           st1 == CASE th = Irr -> s.st
                    [] a = "pa" -> [tau |-> QMul(s.st.tau, th),
                                    sigma |-> [i \in 1..NB(c.P) |-> QDiv(s.st.sigma[i], th)], sigt |-> s.st.sigt]
                    [] a = "da" -> [tau |-> QDiv(s.st.tau, th), sigma |-> sg, sigt |-> QMul(s.st.sigt, th)]
                    [] OTHER -> s.st
       IN  [r |-> r1, st |-> st1, ok |-> TRUE]

RECURSIVE RunSeq(_, _, _, _, _)
RunSeq(a, c, s, sched, j) ==
  IF j > Len(sched) THEN <<>>
  ELSE LET s1 == Entry(a, c, s, sched[j]) IN <<s1>> \o RunSeq(a, c, s1, sched, j + 1)

Start(c) == LET z0 == AdjAll(c.P, c.y0) IN
  [r |-> [x |-> c.x0, y |-> c.y0, z |-> z0, zr |-> z0],
   st |-> [tau |-> c.tau, sigma |-> c.sigma, sigt |-> c.sigt], ok |-> TRUE]

SelClass(c, en) ==
  IF en.a = "resume" THEN "resume"
  ELSE LET S == SetOf(en.S) IN
       IF S = {} THEN "empty" ELSE IF S = Blocks(c.P) THEN "full"
       ELSE IF Cardinality(S) = 1 THEN "serial" ELSE "subset"
EntryClass(c, sched, j) == (IF j > 1 /\ sched[j - 1].a = "resume" THEN "post-resume-" ELSE "") \o SelClass(c, sched[j])

RegBad(o, r) ==       \* which observed registers disagree with the layer-A registers
  (IF o.x # r.x THEN {"x"} ELSE {}) \cup (IF o.y # <<>> /\ o.y # r.y THEN {"y"} ELSE {})
  \cup (IF o.z # <<>> /\ o.z # r.z THEN {"z"} ELSE {})

EpisodeClauses(e) ==
  LET run == RunSeq(e.alg, e.c, Start(e.c), e.sched, 1)
      n == Len(e.sched)
      badAt == {j \in 1..n : run[j].ok /\ RegBad(e.obs[j], run[j].r) # {}}
  IN  IF Len(e.obs) # n THEN {<<"callback-count", e.alg, "any">>}
      ELSE IF badAt # {}
        THEN LET j == CHOOSE jj \in badAt : \A kk \in badAt : jj <= kk
             IN  {<<"register-" \o reg, e.alg, EntryClass(e.c, e.sched, j)>> : reg \in RegBad(e.obs[j], run[j].r)}
      ELSE IF n > 0 /\ run[n].ok /\ RegBad(e.fin, run[n].r) # {}
        THEN {<<"returned-" \o reg, e.alg, "any">> : reg \in RegBad(e.fin, run[n].r)}
      \* niter = 0: nothing is iterated, the in/out variables keep their values
      ELSE IF n = 0 /\ RegBad(e.fin, Start(e.c).r) # {}
        THEN {<<"returned-" \o reg, e.alg, "zero-iterations">> : reg \in RegBad(e.fin, Start(e.c).r)}
      ELSE {}

\* the documented DEFAULT of fun_select is serial sampling: what was observed must be the layer-A run of SOME schedule of
\* singletons (the draw itself is random and not logged)
SerialMatches(e, pick) ==
  LET sched == [j \in 1..e.n |-> [a |-> "sel", S |-> <<pick[j]>>]]
      run == RunSeq(e.alg, e.c, Start(e.c), sched, 1)
  IN  /\ \A j \in 1..e.n : run[j].ok => RegBad(e.obs[j], run[j].r) = {}
      /\ (e.n > 0 /\ run[e.n].ok) => RegBad(e.fin, run[e.n].r) = {}
DefSelClauses(e) ==
  IF Len(e.obs) # e.n THEN {<<"callback-count", e.alg, "default-selection">>}
  ELSE IF \E pick \in [1..e.n -> Blocks(e.c.P)] : SerialMatches(e, pick) THEN {}
  ELSE {<<"not-a-serial-run", e.alg, "default-selection">>}

\* ---- the helpers of misc.py: one public call per event  [kind |-> "misc", fn, a (arguments), o (projected outcome)]
Comp(e, F(_)) == [j \in 1..Len(e.a.y) |-> F(j)]
KLBranches(e, x) == IF \A j \in 1..Len(x) : QLe(QZero, x[j]) THEN "nonneg" ELSE IF \A j \in 1..Len(x) : QLt(x[j], QZero)
                    THEN "neg" ELSE "mixed"
MiscClauses(e) ==
  CASE e.fn = "part" ->
         IF e.a.order = "interlaced"
           THEN (IF e.o = Interlaced(e.a.arr, e.a.np) THEN {} ELSE {<<"parts", "partition_equally_1d", "interlaced">>})
           ELSE (IF IsBlockPartition(e.a.arr, e.o, e.a.np) THEN {} ELSE {<<"parts", "partition_equally_1d", "block">>})
    [] e.fn = "divide" ->
         (IF e.o.sub = Interlaced(e.a.ind, e.a.np) THEN {} ELSE {<<"sub2ind", "divide_1Darray_equally", "any">>})
         \cup (IF e.o.inv = Ind2Sub(e.a.ind, e.a.np) THEN {} ELSE {<<"ind2sub", "divide_1Darray_equally", "any">>})
    [] e.fn = "kl-val" ->
         LET want == SumOrIrr([j \in 1..Len(e.a.y) |-> KLVal1(e.a.x[j], e.a.y[j], e.a.r[j])]) IN
         IF want = Irr \/ e.o = want THEN {} ELSE {<<"value", "KullbackLeiblerSmooth", KLBranches(e, e.a.x)>>}
    [] e.fn = "klconj-val" ->
         LET want == SumOrIrr([j \in 1..Len(e.a.y) |-> KLConjVal1(e.a.x[j], e.a.y[j], e.a.r[j])]) IN
         IF want = Irr \/ e.o = want THEN {} ELSE {<<"value", "KullbackLeiblerSmoothConvexConj", IF want = Inf THEN "infinite" ELSE "finite">>}
    [] e.fn = "klconj-prox" ->
         IF \A j \in 1..Len(e.a.y) : IsKLConjProx1(e.o[j], e.a.x[j], e.a.s, e.a.y[j], e.a.r[j]) THEN {}
         ELSE {<<"proximal", "KullbackLeiblerSmoothConvexConj", e.a.mode>>}
    [] e.fn = "pair" ->
         IF e.o.same /\ e.o.cc = (IF e.a.cls = "KullbackLeiblerSmooth" THEN "KullbackLeiblerSmoothConvexConj"
                                  ELSE "KullbackLeiblerSmooth") THEN {}
         ELSE {<<"convex-conj-pairing", e.a.cls, "any">>}
    [] e.fn = "bregman" ->
         IF e.o = BregVal(e.a.f, e.a.w, e.a.x, e.a.v, e.a.p) THEN {} ELSE {<<"value", "bregman", e.a.f>>}
    [] e.fn = "tv" ->
         LET want == IF e.a.nn THEN TVNNVal(e.a.img, e.a.hx, e.a.hy, e.a.alpha, e.a.beta) ELSE TVVal(e.a.img, e.a.hx, e.a.hy) IN
         IF want = Irr \/ e.o = want THEN {}
         ELSE {<<"value", IF e.a.nn THEN "TotalVariationNonNegative" ELSE "total_variation", e.a.pattern>>}
    \* pa_spdhg over many iterations: the caller's sigma list shows sigma_k; th_k = sigma_k / sigma_k+1 (the same for
    \* every block), tau_k = tau_0 sigma_0 / sigma_k; documented theta_k = (1 + 2 mu_g tau_k)^(-1/2) - relational
    [] e.fn = "pa-steps" ->
         (IF \A k \in 1..Len(e.a.steps) : e.a.steps[k].same THEN {} ELSE {<<"sigma-blocks-differ", "pa", "relational">>})
         \cup (IF \A k \in 1..Len(e.a.steps) : PaThetaRel(e.a.steps[k].th, e.a.mu, e.a.steps[k].tau) THEN {}
               ELSE {<<"theta-rule", "pa", "relational">>})
    [] OTHER -> {<<"unknown-event", "misc", "any">>}

Clauses(e) ==
  IF e.kind = "misc" THEN (IF e.err # "" THEN {<<"raised", e.fn, "any">>} ELSE MiscClauses(e))
  ELSE IF e.err # "" THEN {<<"raised", e.alg, IF e.kind = "defsel" THEN "default-selection" ELSE "any">>}
  ELSE IF e.kind = "defsel" THEN DefSelClauses(e)
  ELSE EpisodeClauses(e)

TraceInit == l = 1
TraceStep ==
  /\ l <= Len(Trace)
  /\ LET e == Trace[l]  bad == Clauses(e)
     IN  IF bad = {} THEN TRUE ELSE PrintT(<<"FAIL", l, e.id, bad>>)
  /\ l' = l + 1
TraceSpec == TraceInit /\ [][TraceStep]_l
TraceAccepted == TLCGet("stats").diameter - 1 = Len(Trace)
=============================================================================

----------------------------- MODULE Trace_Geom -----------------------------
(***************************************************************************)
(* Layer D for C19: validates events recorded from REAL ODL geometry       *)
(* objects against the layer-A semantics (GeomSem).  Event kinds (field k):*)
(*                                                                         *)
(*  "val"    all public queries evaluated at ONE configuration (g, a, u)   *)
(*           in one calling form (scalar / vector / bcast / slice / ...):  *)
(*           rot, ref, axes, detpt, src, d2s  observed values projected to *)
(*           exact rationals (matrix = tuple of rows, a vector is a single *)
(*           row, <<>> = query not applicable, <<0,0>> = off-lattice),     *)
(*           shapes (observed array shape per query, <<-1>> = n/a),        *)
(*           rel = quantised relations of the NORMALISED det_to_src,       *)
(*           dev = quantised deviation vectorised-vs-single evaluation     *)
(*  "shape"  observed result shape of a query called with parameter arrays *)
(*           of shapes ms / ds (<<-1>> = the call raised)                  *)
(*  "slice"  which angles survive geom[start:stop:step]                    *)
(*  "vec"    one row of the per-angle back-end vectors (astra_setup.py)     *)
(*  "cover"  worst quantised excess of projected volume corners beyond the *)
(*           detector of a factory-made geometry (relational clause)       *)
(*                                                                         *)
(* TOTAL: a rejected event prints <<"FAIL", line, id, clauses>>, an event  *)
(* whose true values leave the declared lattice prints <<"SKIP", ...>>;    *)
(* validation continues.                                                   *)
(***************************************************************************)
EXTENDS GeomSem, TLC, Json, IOUtils

Trace == ndJsonDeserialize(IOEnv.TRACE_FILE)
DMax == 100000
Slack == 4

VARIABLE l

RECURSIVE MaxDenV(_)
MaxDenV(v) == IF Len(v) = 0 THEN 1 ELSE Max2(Head(v)[2], MaxDenV(Tail(v)))
RECURSIVE MaxDenM(_)
MaxDenM(M) == IF Len(M) = 0 THEN 1 ELSE Max2(MaxDenV(Head(M)), MaxDenM(Tail(M)))

Mismatch(name, obs, exp) == IF obs # <<>> /\ obs # exp THEN {name} ELSE {}
ShapeMismatch(name, obs, exp) == IF obs # <<-1>> /\ obs # exp THEN {"shape-" \o name} ELSE {}

ValClauses(e) ==
  LET gg == e.g
      f == Frame(gg)
      R == RotAtF(gg, f, e.a)
      nd == NDim(gg.cls)
      par == IsParallel(gg.cls)
      ref == DetRefPointF(gg, f, R, e.a)
      axs == DetAxesF(f, R)
      dp == DetPointF(gg, f, R, e.a, e.u)
      src == IF par THEN <<>> ELSE SrcPosF(gg, f, R, e.a)
      d2s == DetToSrcF(gg, f, R, e.a, e.u)
      big == Max2(MaxDenM(R), Max2(MaxDenV(ref), Max2(MaxDenM(axs), Max2(MaxDenV(dp), Max2(MaxDenV(src), MaxDenV(d2s))))))
  IN  IF big > DMax THEN {"outside-lattice"}
      ELSE IF e.err # "" THEN {"raised"}
      ELSE
        Mismatch("rot", e.rot, R)
        \cup Mismatch("ref", e.ref, <<ref>>)
        \cup Mismatch("axes", e.axes, axs)
        \cup Mismatch("detpt", e.detpt, <<dp>>)
        \cup (IF par THEN {} ELSE Mismatch("src", e.src, <<src>>))
        \* parallel beams: the (unit) ray direction is exact; divergent beams: un-normalised vector exact
        \cup Mismatch("d2s", e.d2s, <<d2s>>)
        \* normalised vector (divergent beams): unit length, parallel to and oriented like the
        \* un-normalised one -- relations on OBSERVED values, quantised in units of 2^-30
        \cup (IF e.rel # <<>> /\ ~(/\ Abs(e.rel[1]) <= Slack /\ e.rel[2] <= Slack /\ e.rel[3] >= -Slack)
                THEN {"d2s-normalized"} ELSE {})
        \* vectorised / broadcast evaluation returns the values of single evaluation
        \cup (IF e.dev > Slack THEN {"vectorized-differs"} ELSE {})
        \cup ShapeMismatch("rot", e.shapes.rot, <<nd, nd>>)
        \cup ShapeMismatch("ref", e.shapes.ref, <<nd>>)
        \cup ShapeMismatch("axes", e.shapes.axes, IF nd = 2 THEN <<2>> ELSE <<2, 3>>)
        \cup ShapeMismatch("detpt", e.shapes.detpt, <<nd>>)
        \cup ShapeMismatch("src", e.shapes.src, <<nd>>)
        \cup ShapeMismatch("d2s", e.shapes.d2s, <<nd>>)

ShapeClauses(e) ==
  LET tail == CASE e.q = "rot" -> <<e.nd, e.nd>>
                [] e.q = "axes" -> IF e.nd = 2 THEN <<2>> ELSE <<2, 3>>
                [] OTHER -> <<e.nd>>
      exp == IF e.q \in {"detpt", "d2s"} THEN BcastShape(e.ms, e.ds, e.nd) ELSE MShape(e.ms, tail)
  IN  IF e.obs # exp THEN {IF exp = <<-1>> THEN "shape-accepts-incompatible"
                           ELSE IF e.obs = <<-1>> THEN "shape-raised" ELSE "shape-rule"} ELSE {}

SliceClauses(e) ==
  IF e.obs # SliceIdx(e.sl.n, e.sl.start, e.sl.stop, e.sl.step) THEN {"slice-angles"} ELSE {}

\* coverage (the factories promise that the whole volume is covered with lines):
\*  (1) relational: exc[i] = (worst excess of a projected corner beyond the detector along detector axis i, over
\*      ALL corners of the volume and ALL angles of the produced geometry) / half-extent, in units of 2^-20
\*  (2) exact: the observed half width w (w2 = w^2, an exact rational or off-lattice) of the origin-centred
\*      detector is at least the layer-A bound for the cylinder radius taken over ALL corners:
\*      rho for parallel beams, rho (rs + rd) / sqrt(rs^2 - rho^2) for divergent beams
\* A failure of a divergent-beam factory is NAMED "coverage" if the observed width is what one gets from the
\* true radius when rho / rs is read as the tangent instead of the sine of the half fan angle (the known width
\* formula), and "coverage-radius" otherwise (the extent does not even belong to the true radius).
TangentAsSineWidth2(rho2, rs, rd) == QDiv(QMul(rho2, QSq(QAddL(rs, rd))), QSq(rs))
CoverClauses(e) ==
  IF e.err # "" THEN {"raised"}
  ELSE
    LET rho2 == Rho2(e.corners)
        par == e.fac = "parallel_beam_geometry"
        need2 == IF par THEN ParHalfWidth2(rho2) ELSE CoverHalfWidth2(rho2, e.rs, e.rd)
        narrow == e.w2[2] = 0 \/ QLt(e.w2, need2)
        outside == \E i \in 1..Len(e.exc) : e.exc[i] > Slack
        known == ~par /\ e.w2 = TangentAsSineWidth2(rho2, e.rs, e.rd)
    IN  IF ~narrow /\ ~outside THEN {}
        ELSE IF par \/ known \/ ~narrow THEN {"coverage"}
        ELSE {"coverage-radius"}

\* "vec": one row of the per-angle vectors that odl/tomo/backends/astra_setup.py derives from a geometry for the
\* projector back-end (documented per row: source position | ray direction, CENTRE OF THE DETECTOR, the vectors
\* from detector pixel (0,0) to (0,1) and to (1,0)), taken at an angle of the partition whose rotation is exactly
\* known, on an off-centre detector partition with unequal cell sides px.  The centre is the detector point at
\* the mid parameter e.u (reference point + rotated surface point), in the back-end's axis convention: (z, y, x)
\* component order in 3-d, the plane turned by -90 degrees in 2-d.
Rev3(v) == <<v[3], v[2], v[1]>>
RotM90(v) == <<v[2], QNeg(v[1])>>
VecClauses(e) ==
  LET gg == e.g
      f == Frame(gg)
      R == RotAtF(gg, f, e.a)
      d == DetPointF(gg, f, R, e.a, e.u)
      axs == DetAxesF(f, R)
      first == IF IsParallel(gg.cls) THEN GNeg(DetToSrcF(gg, f, R, e.a, e.u)) ELSE SrcPosF(gg, f, R, e.a)
      exp == IF NDim(gg.cls) = 3
               THEN Rev3(first) \o Rev3(d) \o Rev3(GScale(e.px[2], axs[2])) \o Rev3(GScale(e.px[1], axs[1]))
               ELSE RotM90(first) \o RotM90(d) \o RotM90(GScale(e.px[1], axs[1]))
      big == Max2(MaxDenV(exp), MaxDenM(R))
  IN  IF big > DMax THEN {"outside-lattice"}
      ELSE IF e.err # "" THEN {"raised"}
      ELSE IF e.row # exp THEN {"backend-vectors"} ELSE {}

Clauses(e) == CASE e.k = "val" -> ValClauses(e)
                [] e.k = "vec" -> VecClauses(e)
                [] e.k = "shape" -> ShapeClauses(e)
                [] e.k = "slice" -> SliceClauses(e)
                [] e.k = "cover" -> CoverClauses(e)
                [] OTHER -> {"unknown-event-kind"}

TraceInit == l = 1
TraceStep ==
  /\ l <= Len(Trace)
  /\ LET e == Trace[l]
         bad == Clauses(e)
     IN  IF bad = {} THEN TRUE
         ELSE IF bad = {"outside-lattice"} THEN PrintT(<<"SKIP", l, e.id, bad>>)
         ELSE PrintT(<<"FAIL", l, e.id, bad>>)
  /\ l' = l + 1
TraceSpec == TraceInit /\ [][TraceStep]_l

\* every line of the trace was consumed
TraceAccepted == TLCGet("stats").diameter - 1 = Len(Trace)
=============================================================================

------------------------- MODULE Trace_SolverMachine -------------------------
(***************************************************************************)
(* Layer D for C11 / C12: validates events recorded from REAL ODL solver   *)
(* runs.  One event = one comparison the properties demand; the numbers    *)
(* come from the implementation, the relation (and, for lattice instances, *)
(* the expected exact values) from the specification.                      *)
(*                                                                         *)
(*  kind "pair"   two real runs (optimised vs `_simple`, split vs unsplit) *)
(*                quantised iterate by iterate relative to the magnitude   *)
(*                of the pair: equal within 2 quanta; callback counts      *)
(*  kind "exact"  iterates of a lattice instance snapped with D_k: equal   *)
(*                to the reference iteration of SolverSem                  *)
(*  kind "mono"   a sequence that must not increase: 44-bit fixed point    *)
(*                relative to its first value, relative slack 2^-30        *)
(*                (~1e-9) plus an absolute floor of 1e-10 x first value    *)
(*  kind "fixed"  a run started at a KKT pair: TLC certifies the pair      *)
(*                (sub-gradient inclusion) and that the reference stays    *)
(*                there; the observed iterates must equal it               *)
(*  kind "conv"   KKT residual after N iterations <= residual at start/10  *)
(*  kind "power"  norm estimate <= true norm (quantised pair, 30 bits)     *)
(*  kind "power-exact"  estimate^4 of an integer instance = |A^T A v|^2 /  *)
(*                |v|^2 after the un-normalised iteration, <= lam_max^2    *)
(*  kind "cgfinal"  energy error after dim steps <= 2^-26 x initial        *)
(*  kind "stepsize" a default step-size rule: the chosen steps satisfy the *)
(*                documented admissibility condition (and equal layer C)   *)
(*                                                                         *)
(* TOTAL: a rejected event prints <<"FAIL", line, id, clauses>> and        *)
(* validation continues; TraceAccepted checks every line was consumed.     *)
(*                                                                         *)
(* Events that need the reference ITERATION ("exact", "fixed") are         *)
(* consumed over several TLC steps: one step per iteration, the reference  *)
(* state held in the variable `st` (TLC evaluates operator arguments       *)
(* lazily, a run of n iterations inside ONE expression costs ~2^n; with    *)
(* the state in a variable it costs n).                                    *)
(***************************************************************************)
EXTENDS SolverMachine, Json, IOUtils

Trace == ndJsonDeserialize(IOEnv.TRACE_FILE)

VARIABLES l,     \* line of the trace being consumed
          sub,   \* sub-step within a multi-step event (0 = not started)
          st,    \* reference state of the multi-step event
          acc    \* clauses collected so far for the multi-step event
tvars == <<vars, l, sub, st, acc>>

Min2i(a, b) == IF a <= b THEN a ELSE b

(* --------------------------- pair -------------------------------------- *)
VecClose(u, v) == Len(u) = Len(v) /\ \A i \in 1..Len(u) : Abs(u[i] - v[i]) <= 2
PairClauses(e) ==
  (IF Len(e.a) # e.niter \/ Len(e.b) # e.niter THEN {"length"} ELSE {})
  \cup (IF \E j \in 1..Min2i(Len(e.a), Len(e.b)) : ~VecClose(e.a[j], e.b[j]) THEN {"differs"} ELSE {})
  \cup (IF e.na \notin {-1, e.niter} \/ e.nb \notin {-1, e.niter} THEN {"callback-count"} ELSE {})

(* --------------------------- exact / fixed (multi-step) ---------------- *)
MultiStep(e) == e.kind \in {"exact", "fixed"}
Horizon(e) == IF e.kind = "exact" THEN e.nit ELSE 3          \* reference iterations to perform
StartState(e) == IF e.kind = "exact" THEN RefInit(e.inst) ELSE ApiStart(e.inst, e.xstar, e.ystar)
StartClauses(e) ==
  IF e.kind = "exact"
    THEN (IF Len(e.xs) # e.nit THEN {"length"} ELSE {})
         \cup (IF e.ncb \notin {-1, e.nit} THEN {"callback-count"} ELSE {})
    ELSE IF ~KKT(e.inst, e.xstar, e.ystar) THEN {"harness-not-kkt"} ELSE {}
\* clause contributed by reference iteration i, whose result is s
IterClauses(e, i, s) ==
  IF e.kind = "exact"
    THEN IF i <= Len(e.xs) /\ e.xs[i] # <<>> /\ e.xs[i] # s.x THEN {"textbook"} ELSE {}
    ELSE IF s.x # e.xstar THEN {"harness-not-api-fixed"} ELSE {}
FinalClauses(e, c) ==
  IF e.kind = "exact" THEN c
  ELSE IF c # {} THEN c                 \* ill-formed: not a KKT pair / not startable through the API
  ELSE (IF \E i \in 1..Len(e.obs) : e.obs[i] # e.xstar THEN {"moved"} ELSE {})
       \cup (IF Len(e.obs) # e.nit THEN {"callback-count"} ELSE {})
Steps(e) == IF MultiStep(e) THEN Horizon(e) + 2 ELSE 1

(* --------------------------- mono -------------------------------------- *)
\* v = <<hi, lo>> : value / first value = (hi * 2^22 + lo) / 2^44
LimbBase == 4194304                      \* 2^22
\* slack: relative 2^-30 of the predecessor (hi \div 256 units) + floor 1e-10 (1759 units) + 2 quanta
LimbLeSlack(w, v) ==                     \* w <= v * (1 + 2^-30) + 1e-10 (in units of the first value)
  LET L == v[2] + (v[1] \div 256) + 1761
      hi == v[1] + (L \div LimbBase)
      lo == L % LimbBase
  IN  w[1] < hi \/ (w[1] = hi /\ w[2] <= lo)
MonoClauses(e) ==
  IF \E j \in 1..(Len(e.v) - 1) : ~LimbLeSlack(e.v[j + 1], e.v[j]) THEN {"increase"} ELSE {}

(* --------------------------- conv / power / cgfinal -------------------- *)
ConvClauses(e) == IF 10 * e.rN > e.r0 + 20 THEN {"no-progress"} ELSE {}
PowerClauses(e) == IF e.est > e.norm + 2 THEN {"exceeds"} ELSE {}
PowerExactClauses(e) ==
  LET I == e.inst
      v == RefRun(I, RefInit(I), e.nit - 1).x
      est4 == PowerEst4(I, v)
  IN  IF ~IsLamMax(L1of(I), I.lam) THEN {"harness-not-lam-max"}
      ELSE (IF e.est4 # est4 THEN {"textbook"} ELSE {})
           \cup (IF e.est4[2] = 0 \/ ~SLe(e.est4, SSq(I.lam)) THEN {"exceeds"} ELSE {})
\* e0, eN quantised relative to e0 with 30 bits
CGFinalClauses(e) == IF e.eN > 16 THEN {"not-exact-after-dim"} ELSE {}

\* default step-size rules: obs = the constrained quantity (tau sigma |L|^2 resp. tau sum sigma_i |L_i|^2) snapped
\* on the lattice of the expected value P (NaN if off), obsq = the same number in units of 2^-20
StepsizeClauses(e) ==
  (IF e.branch # "both" /\ ~(e.obsq > 0 /\ e.obsq < (IF e.rule = "pdhg" THEN 1048576 ELSE 4194304))
     THEN {"inadmissible"} ELSE {})
  \cup (IF e.obs # e.P THEN {"textbook"} ELSE {})

Clauses(e) ==
  CASE e.kind = "pair" -> PairClauses(e)
    [] e.kind = "stepsize" -> StepsizeClauses(e)
    [] e.kind = "mono" -> MonoClauses(e)
    [] e.kind = "conv" -> ConvClauses(e)
    [] e.kind = "power" -> PowerClauses(e)
    [] e.kind = "power-exact" -> PowerExactClauses(e)
    [] e.kind = "cgfinal" -> CGFinalClauses(e)
    [] OTHER -> {"unknown-kind"}

TraceInit ==
  /\ l = 1 /\ sub = 0 /\ st = <<>> /\ acc = {}
  /\ inst = 0 /\ split = -1 /\ k = 0 /\ rk = 0 /\ pc = 0 /\ heap = <<>> /\ ref = <<>> /\ cb = <<>> /\ kkt = {}

Report(e, bad) == IF bad = {} THEN TRUE ELSE PrintT(<<"FAIL", l, e.id, bad>>)

\* (the event is bound by a quantifier over a singleton: TLC evaluates it once)
TraceStep ==
  /\ l <= Len(Trace)
  /\ \E e \in {Trace[l]} :
       IF ~MultiStep(e)
         THEN /\ \E bad \in {Clauses(e)} : Report(e, bad)
              /\ l' = l + 1 /\ UNCHANGED <<sub, st, acc>>
       ELSE IF sub = 0
         THEN /\ st' = StartState(e) /\ acc' = StartClauses(e) /\ sub' = 1 /\ l' = l
       ELSE IF sub <= Horizon(e)
         THEN /\ IF \E c \in acc : c \in {"harness-not-kkt", "harness-not-api-fixed", "harness-too-fine"}
                   THEN st' = st /\ acc' = acc         \* ill-formed event: do not iterate a state that moves
                   ELSE IF e.kind = "fixed" /\ ~SqSafe(st)
                   THEN st' = st /\ acc' = acc \cup {"harness-too-fine"}   \* internal variables drift off the
                                                                          \* 32-bit range: not startable either
                   ELSE /\ st' = RefStep(e.inst, st)
                        /\ acc' = acc \cup IterClauses(e, sub, st')
              /\ sub' = sub + 1 /\ l' = l
       ELSE /\ \E bad \in {FinalClauses(e, acc)} : Report(e, bad)
            /\ l' = l + 1 /\ sub' = 0 /\ st' = <<>> /\ acc' = {}
  /\ UNCHANGED vars

TraceSpec == TraceInit /\ [][TraceStep]_tvars
RECURSIVE StepsFrom(_)
StepsFrom(i) == IF i > Len(Trace) THEN 0 ELSE Steps(Trace[i]) + StepsFrom(i + 1)
\* every line of the trace was consumed
TraceAccepted == TLCGet("stats").diameter - 1 = StepsFrom(1)

TrCatalogue == {}
TrFalse == FALSE
TrEmpty == {}
=============================================================================

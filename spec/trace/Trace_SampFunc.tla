--------------------------- MODULE Trace_SampFunc ---------------------------
(***************************************************************************)
(* Layer D (EXT/sampfunc): validates events recorded from REAL ODL against *)
(* SampFuncSem.  One event = one public call:                              *)
(*   call [id, kind, api, c, spell, o, rdt, retisout, order, contig]        *)
(*        api = wrapper (sampling_function(f, dom, out_dtype)(x, ...)) |   *)
(*        collocation (point_collocation(wrapper, x, ...)) | element       *)
(*        (space.element(f, order=..., **kw) on the space whose grid is     *)
(*        c.inp); c the abstract call (SampFuncSem!Documented), o the       *)
(*        projected outcome [k, err, sh, v] (values snapped to the lattice *)
(*        1/16; <<0,0>> = off the lattice), rdt the scalar type of the     *)
(*        result, retisout "the returned object is a reference to out",    *)
(*        contig = <<C-contiguous, F-contiguous>> of the element's data    *)
(*   ctor [id, kind, seqshape, dtshape, o]   sampling_function(array-like   *)
(*        of callables, dom, out_dtype with shape dtshape): o = ok | err    *)
(*   fd   [id, kind, old, args, nob, tdt, gdt, o |-> [k, axes, dt]]         *)
(*        uniform_discr_fromdiscr(template, ...)                            *)
(*   ud   [id, kind, route, axes, gdt, wg, o |-> [k, axes, dt, w]]          *)
(*        uniform_discr / _fromintv / _frompartition                        *)
(*   arr  [id, kind, sh, v, inpkind, order, o |-> [k, sh, v], contig]       *)
(*        space.element(array-like | tensor | element of another space)    *)
(*   guard [id, kind, fn, breach, o]  a factory called with a breach of a    *)
(*        documented precondition ("none" = a valid control call)          *)
(* TOTAL: a rejected event prints <<"FAIL", line, id, clauses>> and         *)
(* validation continues; TraceAccepted checks every line was consumed.     *)
(***************************************************************************)
EXTENDS SampFuncSem, TLC, Json, IOUtils

Trace == ndJsonDeserialize(IOEnv.TRACE_FILE)
VARIABLE l

CallClauses(e) ==
  LET d == Documented(e.c)  o == e.o
  IN  IF d.k = "err"
        THEN (IF o.k # "err" THEN {<<"no-error", e.api>>}
              ELSE IF ~ErrMatches(d.err, o.err) THEN {<<"error-class", e.api>>} ELSE {})
      ELSE IF o.k = "err" THEN {<<"raised", e.api>>}
      ELSE (IF o.sh # d.sh THEN {<<"shape", e.api>>} ELSE IF o.v # d.v THEN {<<"value", e.api>>} ELSE {})
           \cup (IF e.rdt # ResDType(e.c.dt) THEN {<<"dtype", e.api>>} ELSE {})
           \cup (IF e.c.out \in {"ok", "nc"} /\ ~e.retisout THEN {<<"out-identity", e.api>>} ELSE {})
           \cup (IF (e.order = "C" /\ ~e.contig[1]) \/ (e.order = "F" /\ ~e.contig[2]) THEN {<<"order", e.api>>} ELSE {})
CtorClauses(e) ==
  LET d == CtorDocumented(e.seqshape, e.dtshape)
  IN  IF d = "reject" /\ e.o = "ok" THEN {<<"no-error", "ctor">>}
      ELSE IF d = "ok" /\ e.o # "ok" THEN {<<"raised", "ctor">>} ELSE {}
AxesOf(e, k) == FdAllowed(e.old[k], e.args[k], e.nob[k][1], e.nob[k][2])
FdClauses(e) ==
  LET n    == Len(e.old)
      must == \E k \in 1..n : FdMustRaise(e.old[k], e.args[k], e.nob[k][1], e.nob[k][2])
      may  == \E k \in 1..n : FdMayRaise(e.old[k], e.args[k], e.nob[k][1], e.nob[k][2])
  IN  IF e.o.k = "err" THEN (IF may THEN {} ELSE {<<"fd-raised", "fromdiscr">>})
      ELSE IF must THEN {<<"fd-no-error", "fromdiscr">>}
      ELSE (IF Len(e.o.axes) # n \/ \E k \in 1..n : ~\E ax \in AxesOf(e, k) : ~IsErrAxis(ax) /\ AxisSame(ax, e.o.axes[k])
              THEN {<<"fd-axis", "fromdiscr">>} ELSE {})
           \cup (IF e.o.dt # FdDType(e.tdt, e.gdt) THEN {<<"fd-dtype", "fromdiscr">>} ELSE {})
UdClauses(e) ==
  LET n   == Len(e.axes)
      ax(k) == UdAxis(e.axes[k].min, e.axes[k].max, e.axes[k].n, e.axes[k].L, e.axes[k].R)
      bad == \E k \in 1..n : IsErrAxis(ax(k))
      deg == \E k \in 1..n : e.axes[k].min = e.axes[k].max
  IN  IF bad THEN (IF e.o.k = "err" THEN {} ELSE {<<"ud-no-error", e.route>>})
      ELSE IF e.o.k = "err" THEN {<<"ud-raised", e.route>>}
      ELSE (IF Len(e.o.axes) # n \/ \E k \in 1..n : ~AxisSame(ax(k), e.o.axes[k]) THEN {<<"ud-axis", e.route>>} ELSE {})
           \cup (IF e.o.dt # (IF e.gdt = "" THEN "f64" ELSE e.gdt) THEN {<<"ud-dtype", e.route>>} ELSE {})
           \* weighting: None -> "Use the cell volume as weighting constant (default)"; float -> "Weighting by a constant"
           \cup (IF IsNoneQ(e.wg) THEN (IF ~deg /\ e.o.w # CellVolume(e.axes) THEN {<<"ud-weight", e.route>>} ELSE {})
                 ELSE IF e.o.w # e.wg THEN {<<"ud-weight-given", e.route>>} ELSE {})
ArrClauses(e) ==
  IF e.o.k = "err" THEN {<<"raised", "element-array">>}
  ELSE (IF e.o.sh # e.sh THEN {<<"shape", "element-array">>} ELSE IF e.o.v # e.v THEN {<<"value", "element-array">>} ELSE {})
       \cup (IF (e.order = "C" /\ ~e.contig[1]) \/ (e.order = "F" /\ ~e.contig[2]) THEN {<<"order", "element-array">>} ELSE {})
\* documented preconditions of the factories: "discr : DiscretizedSpace, uniformly discretized", "partition : RectPartition,
\* uniform", "the length of the sequence (nodes_on_bdry) must be len(shape) / discr.ndim" - a breach must be rejected
GuardedBreaches == {"not-a-discr", "nonuniform-discr", "not-a-partition", "nonuniform-partition", "nodes-on-bdry-length"}
GuardClauses(e) ==
  IF e.breach \in GuardedBreaches
    THEN (IF e.o = "ok" THEN {<<"no-error", e.fn>>} ELSE {})
    ELSE (IF e.o = "ok" THEN {} ELSE {<<"raised", e.fn>>})
Clauses(e) ==
  CASE e.kind = "call" -> CallClauses(e)
    [] e.kind = "guard" -> GuardClauses(e)
    [] e.kind = "ctor" -> CtorClauses(e)
    [] e.kind = "fd"   -> FdClauses(e)
    [] e.kind = "ud"   -> UdClauses(e)
    [] e.kind = "arr"  -> ArrClauses(e)
    [] OTHER -> {<<"harness-unknown-kind", "">>}

TraceInit == l = 1
TraceStep ==
  /\ l <= Len(Trace)
  /\ LET e == Trace[l]  bad == Clauses(e)
     IN  IF bad = {} THEN TRUE ELSE PrintT(<<"FAIL", l, e.id, bad>>)
  /\ l' = l + 1
TraceSpec == TraceInit /\ [][TraceStep]_l
TraceAccepted == TLCGet("stats").diameter - 1 = Len(Trace)
=============================================================================

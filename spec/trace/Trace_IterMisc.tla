--------------------------- MODULE Trace_IterMisc ---------------------------
(***************************************************************************)
(* Layer D (extension stage "itermisc"): validates events recorded from     *)
(* REAL ODL solver runs against IterMiscSem.  One event = one public call   *)
(* (or, for "zseq", one history of next() calls on two generators):         *)
(*   [id, kind, inst, k, ncb, ys, xf, same, frame, note, sel, vals,         *)
(*    ks, d, lq, loop]          (loop: callback_loop of kaczmarz, else "")  *)
(*   inst  : the instance (IterMiscMachine format) the real objects were    *)
(*           built from;  k : niter passed                                 *)
(*   ncb   : number of callback invocations;  ys : the iterates the         *)
(*           callback saw, xf : the caller's x after the call - all         *)
(*           projected onto the exact lattice (off-lattice entry = NaN)     *)
(*   same  : every callback argument was the caller's x object             *)
(*   frame : no other caller-owned array changed                           *)
(*   note  : "" or a protocol breach noticed by the driver ("raised:...")   *)
(*   zseq  : sel = which generator each next() went to, vals = the values   *)
(*   pll   : x = 2^ks (entrywise), data d, lq = round(1024 * value)         *)
(* Every step is RECOMPUTED from the logged previous iterate (where the     *)
(* iterate is the whole state; CG and Gauss-Newton carry more state and are *)
(* recomputed from the start).  The specification is TOTAL: a rejected      *)
(* event prints <<"FAIL", line, id, clauses>> and validation continues.     *)
(***************************************************************************)
EXTENDS IterMiscSem, Json, IOUtils

Trace == ndJsonDeserialize(IOEnv.TRACE_FILE)
VARIABLE l

NSub(I) == Len(I.As)
\* expected j-th observed iterate, given the previous logged one
Expect(e, j, prev) ==
  LET I == e.inst IN
  CASE e.kind = "cg"   -> CGIter(I.L, I.w, I.b, I.x0, j).x
    [] e.kind = "gn"   -> GNStep(I, I.x0, prev, I.ts[j])
    [] e.kind = "os"   -> IF e.ncb = e.k THEN OSFrom(I, prev, 1) ELSE OSSub(I, ((j - 1) % NSub(I)) + 1, prev)
    [] e.kind = "dca"  -> DCAStep(I.f, I.g, prev)
    [] e.kind = "pdca" -> PDCAStep(I.f, I.g, I.gam, prev)
    [] e.kind = "lw"   -> LWStep(I, prev)
    [] e.kind = "kz"   -> IF e.loop = "inner" THEN KZSub(I, ((j - 1) % NSub(I)) + 1, prev) ELSE KZFrom(I, prev, 1)

\* first mismatch stops the chain (nothing is recomputed from a value the specification does not vouch for)
RECURSIVE Chain(_, _, _)
Chain(e, j, prev) ==
  IF j > e.ncb THEN {}
  ELSE IF e.ys[j] # Expect(e, j, prev) THEN {"iterate"}
  ELSE Chain(e, j + 1, e.ys[j])

NcbOK(e) ==
  LET I == e.inst IN
  CASE e.kind = "cg" -> CGTaken(I.L, I.w, I.b, I.x0, e.k) <= e.ncb /\ e.ncb <= e.k
    [] e.kind = "os" -> e.ncb = e.k \/ e.ncb = e.k * NSub(I)      \* "after each iteration": sweep or partial update
    [] e.kind = "kz" -> e.ncb = (IF e.loop = "inner" THEN e.k * NSub(I) ELSE e.k)   \* callback_loop as documented
    [] OTHER -> e.ncb = e.k

Final(e) ==
  LET I == e.inst IN
  IF e.kind = "cg" THEN CGIter(I.L, I.w, I.b, I.x0, e.k).x
  ELSE IF e.ncb = 0 THEN I.x0 ELSE e.ys[e.ncb]

SolverClauses(e) ==
  IF e.note # "" THEN {e.note}
  ELSE IF Len(e.ys) # e.ncb THEN {"harness-ys-length"}
  ELSE IF ~NcbOK(e) THEN {"callback-count"}
  ELSE LET c == Chain(e, 1, e.inst.x0) IN
       c \cup (IF c = {} /\ e.xf # Final(e) THEN {"result"} ELSE {})
         \cup (IF ~e.same THEN {"callback-object"} ELSE {})
         \cup (IF ~e.frame THEN {"frame"} ELSE {})

\* zero sequences: the m-th value of EACH generator is base^(-m-1), whatever happened to the other one
CountBefore(sel, j) == Cardinality({q \in 1..(j - 1) : sel[q] = sel[j]})
ZSeqClauses(e) ==
  IF e.note # "" THEN {e.note}
  ELSE IF \E j \in 1..Len(e.sel) : e.vals[j] # ExpZero(e.inst.gam, CountBefore(e.sel, j)) THEN {"zero-sequence-value"} ELSE {}

\* poisson_log_likelihood(x, data) = sum(data log x - x) with x = 2^ks:  value = ln2 * S - X,
\* S = sum d ks, X = sum 2^ks;  709.78 < 1024 ln2 < 709.79;  lq = round(1024 value); slack 3 quanta
Pow2(kk) == IF kk >= 0 THEN <<2 ^ kk, 1>> ELSE <<1, 2 ^ (-kk)>>
PLLClauses(e) ==
  IF e.note # "" THEN {e.note}
  ELSE LET S  == SSum([q \in 1..Len(e.ks) |-> <<e.d[q] * e.ks[q], 1>>])[1]
           X  == SSum([q \in 1..Len(e.ks) |-> Pow2(e.ks[q])])
           lo == SSub(<<S * (IF S >= 0 THEN 70978 ELSE 70979), 100>>, SMul(X, <<1024, 1>>))
           hi == SSub(<<S * (IF S >= 0 THEN 70979 ELSE 70978), 100>>, SMul(X, <<1024, 1>>))
       IN  IF SLe(SSub(lo, <<3, 1>>), <<e.lq, 1>>) /\ SLe(<<e.lq, 1>>, SAdd(hi, <<3, 1>>)) THEN {} ELSE {"log-likelihood-value"}

Clauses(e) ==
  CASE e.kind = "zseq" -> ZSeqClauses(e)
    [] e.kind = "pll"  -> PLLClauses(e)
    [] OTHER -> SolverClauses(e)

TraceInit == l = 1
TraceStep ==
  /\ l <= Len(Trace)
  /\ LET e == Trace[l] bad == Clauses(e)
     IN IF bad = {} THEN TRUE ELSE PrintT(<<"FAIL", l, e.id, bad>>)
  /\ l' = l + 1
TraceSpec == TraceInit /\ [][TraceStep]_l
TraceAccepted == TLCGet("stats").diameter - 1 = Len(Trace)
=============================================================================

---------------------------- MODULE MC_LincombImpl ----------------------------
EXTENDS LincombImpl, IOUtils
Profile == IOEnv.VM_PROFILE
R(n)       == CInt(n)
RQ(n, d)   == CR(Q(n, d))
Z(p, q)    == <<QI(p), QI(q)>>
MC_IntDtype == Profile = "I"
MC_Fixed == IOEnv.LC_FIXED = "1"
MC_Scalars ==
  CASE Profile = "R" -> {R(0), R(1), R(-1), R(2), RQ(1, 2), R(-3)}
    [] Profile = "C" -> {R(0), R(1), R(-1), RQ(1, 2), Z(0, 1), Z(1, -2)}
    [] Profile = "I" -> {R(0), R(1), R(-1), R(2), R(-3)}
MC_VecSet ==
  CASE Profile = "R" -> {<<R(2), R(-1)>>, <<RQ(1, 2), R(4)>>}
    [] Profile = "C" -> {<<Z(1, 1), R(-2)>>, <<Z(0, 2), Z(2, -1)>>}
    [] Profile = "I" -> {<<R(2), R(-1)>>, <<R(-3), R(4)>>}
=============================================================================

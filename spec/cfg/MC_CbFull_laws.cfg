SPECIFICATION Spec
CONSTANTS
  Shapes <- MC_Shapes
  Values <- MC_Values
  MaxLen <- MC_MaxLen
INVARIANT LeafSeesDocumentedCalls
INVARIANT ChannelInOrder
INVARIANT Associative
INVARIANT Distributive
INVARIANT ResetIsRestart
INVARIANT StoreBounds
PROPERTY ResetRestores

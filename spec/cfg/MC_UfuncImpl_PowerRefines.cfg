SPECIFICATION Spec
CONSTANTS
  Shapes <- MC_Shapes
  OuterPairs <- MC_OuterPairs
  KindsSel <- MC_KindsSel
  FixedNegAxis <- MC_FixedNegAxis
  FixedZeroDimOut <- MC_FixedZeroDimOut
  FixedOuterBool <- MC_FixedOuterBool
  FixedPower <- MC_FixedPower
INVARIANT PowerRefines

---------------------------- MODULE MC_ViewLaws ----------------------------
(* Laws of the reference semantics (layer A) of ViewSem, checked on a bounded instance:                                *)
(*  SliceLaw   PySlice (the constructive form used by Sel) selects exactly the positions of the set characterisation,  *)
(*             in strictly monotone order, inside the axis                                                            *)
(*  SelLaw     a selection has as many positions as its result shape says, all inside the indexed object, and the     *)
(*             full slice is the identity; basic selections never repeat a position                                   *)
(*  ContigLaw  a whole buffer is contiguous in its own layout; rows of a C buffer / columns of an F buffer are         *)
(*             contiguous in both orders, columns of a C buffer in neither (unless trivial)                           *)
EXTENDS ViewSem, FiniteSets
VARIABLE q
Bounds == {NoneTok} \cup (-6..6)
N == NoneTok
Entries(n) == {IInt(i) : i \in (-n)..(n - 1)} \cup {ISl(a, b, s) : a \in {N, -1, 1, 5}, b \in {N, -2, 0, 2}, s \in {1, 2, -1}}
                \cup {IList(<<0>>), IList(<<n - 1, 0>>), IList(<<-1>>), IArr(<<n - 1, 0>>), IArr(<<-1>>),
                      IMask([k \in 1..n |-> k % 2]), IMask([k \in 1..n |-> 0]), IMask([k \in 1..n |-> 1])}
LInit == \/ q \in [t : {"slice"}, n : 0..4, a : Bounds, b : Bounds, s : {-3, -2, -1, 1, 2, 3}, i : {<<>>}, shp : {<<>>}]
         \/ q \in [t : {"sel"}, n : {0}, a : {0}, b : {0}, s : {0}, i : {<<e>> : e \in Entries(3)}, shp : {<<3>>}]
         \/ q \in [t : {"sel"}, n : {0}, a : {0}, b : {0}, s : {0},
                   i : {<<e>> : e \in Entries(2)} \cup {<<e, f>> : e \in Entries(2), f \in Entries(3)}
                       \cup {<<IMaskAll(<<1, 0, 0, 1, 1, 0>>)>>, <<IMaskAll(<<0, 0, 0, 0, 0, 0>>)>>}, shp : {<<2, 3>>}]
         \/ q \in [t : {"contig"}, n : {0}, a : {0}, b : {0}, s : {0}, i : {<<>>}, shp : {<<2, 3>>, <<3, 2>>, <<1, 3>>, <<3, 1>>, <<4>>}]
LNext == UNCHANGED q
LSpec == LInit /\ [][LNext]_q

SliceLaw ==
  q.t = "slice" =>
    LET p == PySlice(q.n, q.a, q.b, q.s)
        S == SliceSet(q.n, q.a, q.b, q.s)
    IN  /\ {p[k] : k \in 1..Len(p)} = S
        /\ Len(p) = Cardinality(S)
        /\ \A k \in 1..(Len(p) - 1) : IF q.s > 0 THEN p[k + 1] > p[k] ELSE p[k + 1] < p[k]
        /\ \A k \in 1..Len(p) : p[k] \in 0..(q.n - 1)

SelLaw ==
  (q.t = "sel" /\ IdxOk(q.shp, q.i)) =>
    LET S == Sel(q.shp, q.i) IN
      /\ Len(S.pos) = Size(S.shp)
      /\ \A k \in 1..Len(S.pos) : S.pos[k] \in 1..Size(q.shp)
      /\ (~S.adv => \A j, k \in 1..Len(S.pos) : j # k => S.pos[j] # S.pos[k])
      /\ (S.arr => S.adv)
      \* a boolean array selects every flagged position exactly once, in increasing order
      /\ (q.i[1].k = "maskall" => /\ \A k \in 1..(Len(S.pos) - 1) : S.pos[k] < S.pos[k + 1]
                                  /\ {S.pos[k] : k \in 1..Len(S.pos)} = {c \in 1..Size(q.shp) : q.i[1].l[c] = 1})
      /\ Sel(q.shp, <<IFull>>).pos = Iota(Size(q.shp))
      /\ Sel(q.shp, <<IFull>>).shp = q.shp

ContigLaw ==
  q.t = "contig" =>
    LET shp == q.shp
        bC == <<Buf([k \in 1..Size(shp) |-> CZero], shp, "C")>>
        bF == <<Buf([k \in 1..Size(shp) |-> CZero], shp, "F")>>
        w == Whole("arr", "tensor", FALSE, 1, shp, "same")
    IN  /\ Contig(bC, w, "C") /\ Contig(bF, w, "F")
        /\ (Len(shp) = 2 /\ shp[1] > 1 /\ shp[2] > 1) => (~Contig(bC, w, "F") /\ ~Contig(bF, w, "C"))
        /\ (Len(shp) = 2) =>
             LET row == Sel(shp, <<IInt(0)>>)
                 col == Sel(shp, <<IFull, IInt(0)>>)
                 r == [w EXCEPT !.cells = row.pos, !.shp = row.shp]
                 c == [w EXCEPT !.cells = col.pos, !.shp = col.shp]
             IN  /\ Contig(bC, r, "C") /\ Contig(bC, r, "F")
                 /\ Contig(bF, c, "C") /\ Contig(bF, c, "F")
                 /\ (shp[1] > 1 /\ shp[2] > 1) => (~Contig(bC, c, "C") /\ ~Contig(bF, r, "F"))
=============================================================================

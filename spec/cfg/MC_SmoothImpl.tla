---------------------------- MODULE MC_SmoothImpl ----------------------------
(***************************************************************************)
(* C [= A for the smooth solvers: on every finished behaviour of the       *)
(* SmoothMachine catalogue the code as transcribed in SmoothImpl (one or   *)
(* two consecutive calls) makes the same step-length calls, hands the same *)
(* iterates to the callback, leaves the same x and the same rule-object    *)
(* state as the reference semantics, and never compares a quantity with    *)
(* tol that is neither 0 nor >= 4 tol (so the floating-point run takes the *)
(* same branches).                                                         *)
(*   SMOOTH_QUIRKS  "pinned": the code as pinned (Quirks = all four);      *)
(*                  "none":   every quirk repaired as proposed              *)
(*                  or a comma-free list such as "adam-bias+store0"         *)
(* `Refines` exempts the instances a listed quirk affects; `RefinesAll`    *)
(* does not (with the pinned quirks TLC must find a counter-example, with  *)
(* none it must hold).                                                     *)
(***************************************************************************)
EXTENDS MC_Smooth, SmoothImpl

QSpec == IOEnv.SMOOTH_QUIRKS
AllQuirks == {"adam-bias", "ncg-first", "bt-alpha", "store0"}
\* (substring test on the environment string: each name either occurs or not)
RECURSIVE Occurs(_, _, _)
Occurs(pat, str, i) ==
  IF i + Len(pat) - 1 > Len(str) THEN FALSE
  ELSE IF SubSeq(str, i, i + Len(pat) - 1) = pat THEN TRUE ELSE Occurs(pat, str, i + 1)
MC_Quirks == IF QSpec = "pinned" THEN AllQuirks ELSE {qk \in AllQuirks : Occurs(qk, QSpec, 1)}
MC_TolInv == 1048576                             \* tol = 2^-20

Affected(I) ==
  \/ Has("adam-bias") /\ I.solver = "adam" /\ (I.b1 # QZero \/ I.b2 # QZero)
  \/ Has("ncg-first") /\ I.solver = "ncg"
  \/ Has("store0") /\ I.solver = "bfgs" /\ I.store = 0
  \/ Has("bt-alpha") /\ I.ls.k = "bt" /\ ~I.ls.est /\ I.ls.alpha0 # QOne

ACalls == [i \in 1..Len(log) |-> [x |-> log[i].x, d |-> IF inst.solver = "adam" THEN <<>> ELSE log[i].d,
                                   dd |-> log[i].dd, a |-> log[i].a]]
AIterates == [i \in 1..Len(log) |-> log[i].xn]
SameRun(h) ==
  /\ ~h.err /\ h.rob
  /\ h.x = st.x
  /\ h.lsl = ACalls
  /\ h.cb = AIterates
  /\ h.lo = st.lo
Comparable == Finished /\ ~IsLS(inst) /\ st.ok /\ ~st.tie
RefinesAll == Comparable => \E h \in {RunImpl(inst, split)} : SameRun(h)
Refines == (Comparable /\ ~Affected(inst)) => \E h \in {RunImpl(inst, split)} : SameRun(h)

\* step-length objects: the history of the machine replayed on the transcription of __call__
RECURSIVE LSReplay(_, _, _, _)
LSReplay(I, hist, i, lo) ==
  IF i > Len(hist) THEN lo = st.lo
  ELSE LET qq == I.queries[hist[i].q]
           dd == DirDeriv(I.P, qq.x, qq.d)
       IN  \E r \in {IF I.ls.k = "bt" THEN BTImpl(I.P, I.ls, lo, qq.x, qq.d, dd)
                      ELSE [status |-> "ok", a |-> StepLen(I.P, I.ls, lo, qq.x, qq.d, dd).a,
                            lo |-> StepLen(I.P, I.ls, lo, qq.x, qq.d, dd).lo]} :
             /\ CASE hist[i].status = "ok" -> r.status = "ok" /\ r.a = hist[i].a
                  [] hist[i].status = "edge" -> r.status = "raise" \/ (r.status = "ok" /\ r.a = hist[i].a)
                  [] OTHER -> r.status = hist[i].status
             /\ (r.status = "ok" /\ hist[i].status = "edge" /\ i < Len(hist)) \/ hist[i].status # "edge"
                  => LSReplay(I, hist, i + 1, r.lo)
LSRefinesAll == (IsLS(inst) /\ \A i \in 1..Len(st.hist) : st.hist[i].status # "edge")
                   => LSReplay(inst, st.hist, 1, LOInit(inst.ls))
LSRefines == ~Affected(inst) => LSRefinesAll
=============================================================================

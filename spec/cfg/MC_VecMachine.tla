---------------------------- MODULE MC_VecMachine ----------------------------
(* Model-checking / export wrapper for VecMachine: every (pre-state, action)  *)
(* pair over the bounded heap is one transition; each is written as one JSON  *)
(* line for replay on real ODL elements (DESIGN 2.2, per-transition export).  *)
EXTENDS VecMachine, Json, IOUtils

Profile == IOEnv.VM_PROFILE           \* "R" | "C" | "I"
Big     == IOEnv.VM_BIG = "1"

R(n)       == CInt(n)
RQ(n, d)   == CR(Q(n, d))
Z(a, b)    == <<QI(a), QI(b)>>

MC_NObj == 3
MC_IntOnly == Profile = "I"
MC_Scalars ==
  CASE Profile = "R" -> {R(0), R(1), R(-1), R(2), RQ(1, 2), R(-3)}
    [] Profile = "C" -> {R(0), R(1), R(-1), RQ(1, 2), Z(0, 1), Z(1, -2)}
    [] Profile = "I" -> {R(0), R(1), R(-1), R(2), R(-3)}
MC_VecSet ==
  CASE Profile = "R" -> {<<R(2), R(-1)>>, <<RQ(1, 2), R(4)>>} \cup (IF Big THEN {<<R(-3), R(0)>>} ELSE {})
    [] Profile = "C" -> {<<Z(1, 1), R(-2)>>, <<Z(0, 2), Z(2, -1)>>} \cup (IF Big THEN {<<R(0), Z(-1, 3)>>} ELSE {})
    [] Profile = "I" -> {<<R(2), R(-1)>>, <<R(-3), R(4)>>} \cup (IF Big THEN {<<R(0), R(5)>>} ELSE {})
MC_Powers == IF Profile = "I" THEN {0, 1, 2, 3} ELSE {-2, -1, 0, 1, 2, 3, 4, 5}


ExportLine ==
  Serialize(ToJson([pre |-> heap, act |-> act', post |-> heap', ret |-> ret']) \o "\n",
            IOEnv.OUT_FILE,
            [format |-> "TXT", charset |-> "UTF-8",
             openOptions |-> <<"WRITE", "CREATE", "APPEND">>]).exitValue = 0
\* only the initial states are expanded (one transition per (state, action) pair):
\* the action constraint writes the transition and then rejects the successor
Export == ExportLine /\ FALSE
\* property runs: expand two levels so that reached (non-initial) heaps are covered too
SmallQ(q) == Abs(q[1]) <= 6 /\ q[2] <= 6
SmallHeap == \A o \in Obj : \A i \in 1..Len(heap[o]) : SmallQ(heap[o][i][1]) /\ SmallQ(heap[o][i][2])
MaxLevel == IF IOEnv.VM_DEPTH = "2" THEN 2 ELSE 1
Depth2 == TLCGet("level") <= MaxLevel /\ SmallHeap
DerivedAgreeSmall == SmallHeap => DerivedAgree
\* deliberately false, used by the self-test to show the property run is not vacuous
BogusFrame == [][\A o \in Obj : heap'[o] = heap[o]]_vars
=============================================================================

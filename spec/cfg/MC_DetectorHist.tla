--------------------------- MODULE MC_DetectorHist ---------------------------
(***************************************************************************)
(* Bounded instance of DetectorMachine: a few detectors of every class,    *)
(* a few queries per class, all histories up to IOEnv.DET_LEN actions.     *)
(* Every reachable state is exported (history, documented outcome of the   *)
(* last action).                                                           *)
(***************************************************************************)
EXTENDS DetectorMachine, Json, IOUtils
I(n) == QI(n)
IV(s) == [i \in 1..Len(s) |-> I(s[i])]
Ap34 == PAng(Q(4, 5), Q(3, 5))     Am34 == PAng(Q(4, 5), Q(-3, 5))
Ap43 == PAng(Q(3, 5), Q(4, 5))     Am43 == PAng(Q(3, 5), Q(-4, 5))
A90 == PAng(QZero, QOne)
LoOf(cls, j) == IF Angular(cls, j) THEN Am43 ELSE PLen(I(-2))
HiOf(cls, j) == IF Angular(cls, j) THEN Ap43 ELSE PLen(I(2))
MkDet(cls, ax, r, cb) ==
  [cls |-> cls, ax |-> ax, r |-> r, cb |-> cb,
   lo |-> [j \in 1..NDimOf(cls) |-> LoOf(cls, j)], hi |-> [j \in 1..NDimOf(cls) |-> HiOf(cls, j)]]
MCDets == { MkDet("flat1", <<IV(<<3, 4>>)>>, QOne, TRUE), MkDet("flat1", <<IV(<<0, -2>>)>>, QOne, FALSE),
            MkDet("circ", <<IV(<<-4, 3>>)>>, I(2), TRUE),
            MkDet("flat2", <<IV(<<3, 4, 0>>), IV(<<0, 0, 1>>)>>, QOne, TRUE),
            MkDet("cyl", <<IV(<<1, 0, 0>>), IV(<<0, 0, 1>>)>>, Q(1, 2), TRUE),
            MkDet("sph", <<IV(<<0, 0, 1>>), IV(<<1, 0, 0>>)>>, I(2), FALSE),
            MkDet("flat1", <<IV(<<0, 0>>)>>, QOne, TRUE) }
PA(cls, j, k) == IF Angular(cls, j) THEN (CASE k = 0 -> PZero [] k = 1 -> Ap34 [] k = 2 -> Am34 [] OTHER -> A90)
                 ELSE (CASE k = 0 -> PZero [] k = 1 -> PLen(Q(1, 2))  [] k = 2 -> PLen(Q(-3, 2)) [] OTHER -> PLen(I(3)))
MCQueriesOf(d) ==
  IF d = NoDet THEN {}
  ELSE IF NDimOf(d.cls) = 1 THEN
    { [m |-> "deriv", sh |-> << <<>> >>, v |-> << <<PA(d.cls, 1, 0)>> >>],
      [m |-> "surface", sh |-> << <<>> >>, v |-> << <<PA(d.cls, 1, 1)>> >>],
      [m |-> "surface", sh |-> << <<2>> >>, v |-> << <<PA(d.cls, 1, 2), PA(d.cls, 1, 3)>> >>],
      [m |-> "normal", sh |-> << <<2>> >>, v |-> << <<PA(d.cls, 1, 1), PA(d.cls, 1, 2)>> >>],
      [m |-> "measure", sh |-> << <<>> >>, v |-> << <<PA(d.cls, 1, 2)>> >>] }
  ELSE
    { [m |-> "deriv", sh |-> << <<>>, <<>> >>, v |-> << <<PA(d.cls, 1, 0)>>, <<PA(d.cls, 2, 0)>> >>],
      [m |-> "surface", sh |-> << <<>>, <<>> >>, v |-> << <<PA(d.cls, 1, 1)>>, <<PA(d.cls, 2, 2)>> >>],
      [m |-> "surface", sh |-> << <<2>>, <<2>> >>, v |-> << <<PA(d.cls, 1, 2), PA(d.cls, 1, 3)>>, <<PA(d.cls, 2, 1), PA(d.cls, 2, 0)>> >>],
      [m |-> "normal", sh |-> << <<2>>, <<>> >>, v |-> << <<PA(d.cls, 1, 1), PA(d.cls, 1, 2)>>, <<PA(d.cls, 2, 1)>> >>],
      [m |-> "deriv", sh |-> << <<2>>, <<2>> >>, v |-> << <<PA(d.cls, 1, 1), PA(d.cls, 1, 2)>>, <<PA(d.cls, 2, 2), PA(d.cls, 2, 1)>> >>] }
MCMaxLen == IF IOEnv.DET_LEN = "5" THEN 5 ELSE IF IOEnv.DET_LEN = "4" THEN 4 ELSE 3
Export == Serialize(ToJson([hist |-> hist, res |-> res]) \o "\n", IOEnv.OUT_FILE,
                    [format |-> "TXT", charset |-> "UTF-8",
                     openOptions |-> <<"WRITE", "CREATE", "APPEND">>]).exitValue = 0
=============================================================================

------------------------------ MODULE MC_Sets ------------------------------
(***************************************************************************)
(* ConfigMachine for property C20: a finite universe of descriptors of      *)
(* sets, grids, partitions, weightings and spaces; every descriptor is      *)
(* instantiated three times (copies 1..3: independently constructed objects,*)
(* array weightings get their own array object per copy unless the slot is  *)
(* shared).  Level-1 states: one per object; level-2 states: one per pair.  *)
(*   MC_Sets_laws.cfg    the laws on layer A (reference is an equivalence)  *)
(*                       and on layer C (EqHashImpl) except the named cells *)
(*   MC_Sets_export.cfg  writes every object as a JSON line                 *)
(***************************************************************************)
EXTENDS DerivedSpaceImpl, Json, IOUtils, Sequences

QS(ints) == [k \in 1..Len(ints) |-> QI(ints[k])]
Cls0(c) == Dsc(c, <<>>, <<>>, "", 0)
Str(n) == Dsc("Strings", <<>>, <<<<QI(n)>>>>, "", 0)
Cart(subs) == Dsc("CartesianProduct", subs, <<>>, "", 0)
Uni(subs)  == Dsc("SetUnion", subs, <<>>, "", 0)
Isec(subs) == Dsc("SetIntersection", subs, <<>>, "", 0)
Fin(ints)  == Dsc("FiniteSet", <<>>, <<QS(ints)>>, "", 0)
Intv(mn, mx) == Dsc("IntervalProd", <<>>, <<mn, mx>>, "", 0)
Grid(vecs, flag) == Dsc("RectGrid", <<>>, vecs, flag, 0)
Part(iv, g) == Dsc("RectPartition", <<iv, g>>, <<>>, "", 0)
P2 == QI(2)
WC(cls, ex, c) == Dsc(cls, <<>>, <<<<ex>>, <<c>>>>, "", 0)
WA(cls, ex, arr, slot) == Dsc(cls, <<>>, <<<<ex>>, arr>>, "", slot)
WCu(cls, ex, tag) == Dsc(cls, <<>>, <<<<ex>>>>, tag, 0)
Tn(shape, dt, w) == Dsc("Tensor", <<w>>, <<QS(shape)>>, dt, 0)
Dis(pt, tn, hint) == Dsc("Discr", <<pt, tn>>, <<>>, hint, 0)
PS(w, comps) == Dsc("PSpace", <<w>> \o comps, <<>>, "", 0)

RR == Cls0("RealNumbers")
CC == Cls0("ComplexNumbers")
ZZ == Cls0("Integers")

H(n, d) == Q(n, d)
\* grids / partitions on dyadic coordinates (exact in binary floating point)
G3    == Grid(<<<<QI(0), H(1, 2), QI(1)>>>>, "")
G3b   == Grid(<<<<QI(0), H(1, 4), QI(1)>>>>, "")
G4    == Grid(<<<<H(1, 8), H(3, 8), H(5, 8), H(7, 8)>>>>, "")
GNeg  == Grid(<<<<QI(-1), H(-1, 2), QI(0)>>>>, "")
GNegZ == Grid(<<<<QI(-1), H(-1, 2), QI(0)>>>>, "negzero")
G23   == Grid(<<<<H(1, 4), H(3, 4)>>, <<H(1, 4), H(3, 4), H(5, 4)>>>>, "")
G32   == Grid(<<<<H(1, 4), H(3, 4), H(5, 4)>>, <<H(1, 4), H(3, 4)>>>>, "")
I01   == Intv(<<QI(0)>>, <<QI(1)>>)
I0101 == Intv(<<QI(0), QI(0)>>, <<QI(1), QI(1)>>)
I010101 == Intv(<<QI(0), QI(0), QI(0)>>, <<QI(1), QI(1), QI(1)>>)
I0102 == Intv(<<QI(0), QI(0)>>, <<QI(1), QI(2)>>)
I02   == Intv(<<QI(0)>>, <<QI(2)>>)
IDeg  == Intv(<<QI(0), QI(1)>>, <<QI(1), QI(1)>>)
IM10  == Intv(<<QI(-1)>>, <<QI(0)>>)
I0132 == Intv(<<QI(0), QI(0)>>, <<QI(1), H(3, 2)>>)
P4    == Part(I01, G4)                       \* uniform_partition(0, 1, 4)
P3nob == Part(I01, G3)                       \* uniform_partition(0, 1, 3, nodes_on_bdry=True)
P3non == Part(I01, Grid(<<<<H(1, 8), H(1, 2), H(7, 8)>>>>, ""))     \* non-uniform
P4b   == Part(Intv(<<QI(0)>>, <<QI(4)>>), Grid(<<<<H(1, 2), H(3, 2), H(5, 2), H(7, 2)>>>>, ""))  \* cell side 1
PNeg  == Part(IM10, GNeg)
PNegZ == Part(IM10, GNegZ)
P23   == Part(I0132, G23)                    \* uniform_partition([0,0],[1,3/2],(2,3))
\* cell sides 1/2 x 2: the cell VOLUME is exactly 1 although the space is cell-volume weighted (an "is it weighted?"
\* test that looks at the constant only cannot tell it from an unweighted space)
I0104 == Intv(<<QI(0), QI(0)>>, <<QI(1), QI(4)>>)
P22u  == Part(I0104, Grid(<<<<H(1, 4), H(3, 4)>>, <<QI(1), QI(3)>>>>, ""))      \* uniform_partition([0,0],[1,4],(2,2))
\* interval products whose zero end points are NEGATIVE zeros (-IntervalProd(0, 1), np.round(-0.2), 0.0 * -1):
\* equal to their positive-zero twins, so they have to hash alike
IntvZ(mn, mx) == Dsc("IntervalProd", <<>>, <<mn, mx>>, "negzero", 0)
IM10Z == IntvZ(<<QI(-1)>>, <<QI(0)>>)
I01Z  == IntvZ(<<QI(0)>>, <<QI(1)>>)
I0101Z == IntvZ(<<QI(0), QI(0)>>, <<QI(1), QI(1)>>)

W1 == <<QI(1), QI(2), QI(3)>>
W1b == <<QI(1), QI(2), QI(4)>>
W6 == <<QI(1), QI(2), QI(3), QI(4), QI(5), QI(6)>>
W4 == <<QI(1), QI(2), QI(3), QI(4)>>
TW1 == WC("TWConst", P2, QI(1))
TW2 == WC("TWConst", P2, QI(2))
PW1 == WC("PWConst", P2, QI(1))
PW2 == WC("PWConst", P2, QI(2))
\* array slots: 1, 3, 4, 5, 6 fresh array per copy; 2 and 7 ONE array object shared by all users
SharedSlots == {2, 7}

Rn3 == Tn(<<3>>, "f64", TW1)
Rn4 == Tn(<<4>>, "f64", TW1)
Rn23 == Tn(<<2, 3>>, "f64", TW1)
Rn22 == Tn(<<2, 2>>, "f64", TW1)
Rn3w(w) == Tn(<<3>>, "f64", w)
Q14 == H(1, 4)
\* uniform_discr(0, 1, 4): default weighting = cell volume 1/4
D4 == Dis(P4, Tn(<<4>>, "f64", WC("TWConst", P2, Q14)), "factory")

\* near-equal descriptors: interior node / end point / interval end / constant / exponent moved by 1-2 ulp
G3i   == Grid(<<<<QI(0), QU(1, 2, 1), QI(1)>>>>, "")              \* interior node + 1 ulp (still "uniform" by allclose)
G3i2  == Grid(<<<<QI(0), QU(1, 2, -2), QI(1)>>>>, "")
G3e   == Grid(<<<<QI(0), H(1, 2), QU(1, 1, -1)>>>>, "")           \* last node - 1 ulp
G4i   == Grid(<<<<H(1, 8), QU(3, 8, 1), H(5, 8), H(7, 8)>>>>, "")
I01u  == Intv(<<QI(0)>>, <<QU(1, 1, 1)>>)                         \* [0, 1 + ulp]
TW2c  == WC("TWConst", P2, QU(2, 1, 1))                           \* constant 2 + ulp
TW2e  == WC("TWConst", QU(2, 1, 1), QI(2))                        \* exponent 2 + ulp
PW2c  == WC("PWConst", P2, QU(2, 1, -1))
THalf == Tn(<<3>>, "f64", WC("TWConst", P2, H(1, 2)))
\* objects that differ ONLY in attributes equality does not compare (SetSem: x), and heterogeneous product spaces
D4a == WithX(D4, "labels:a")
D4b == WithX(D4, "labels:b")
D23 == Dis(P23, Tn(<<2, 3>>, "f64", WC("TWConst", P2, Q14)), "factory")
Rn3f == Tn(<<3>>, "f32", TW1)
Cn3s == Tn(<<3>>, "c64", TW1)
Cn3d == Tn(<<3>>, "c128", TW1)
D4f == Dis(P4, Tn(<<4>>, "f32", WC("TWConst", P2, Q14)), "factory")
UExtra == <<
  D4a, D4b, WithX(D23, "labels:a"), WithX(Dis(P3non, Rn3, ""), "labels:b"),
  WithX(PS(PW1, <<Rn3, Rn3>>), "field"), WithX(PS(PW2, <<Rn3, Rn3>>), "field"),
  WithX(PS(PW1, <<Cn3d, Cn3d>>), "field"), PS(PW1, <<D4a, D4b>>),
  \* components with different dtypes / kinds; nested with a homogeneous first component
  PS(PW1, <<Rn3f, Rn3>>), PS(PW1, <<Rn3, Rn3f>>), PS(PW1, <<Cn3s, Cn3d>>), PS(PW1, <<Rn3f, Rn3, Rn3f>>),
  PS(PW1, <<D4f, D4>>), PS(PW1, <<Rn4, D4>>),
  PS(PW1, <<PS(PW1, <<Rn3, Rn3>>), Rn3f>>), PS(PW1, <<PS(PW1, <<Rn3f, Rn3f>>), PS(PW1, <<Rn3, Rn3>>)>>),
  PS(PW1, <<Tn(<<3>>, "i64", TW1), Rn3>>), PS(PW2, <<Rn3f, Rn3>>)
>>

UNear == <<
  G3i, G3i2, G3e, G4i, I01u, Intv(<<QU(0, 1, 1)>>, <<QI(1)>>),
  Part(I01, G3i), Part(I01, G3e), Part(I01u, G3), Part(I01, G4i),
  TW2c, TW2e, PW2c, WC("PWConst", QU(2, 1, 1), QI(2)),
  Rn3w(TW2c), Rn3w(TW2e), Tn(<<3>>, "f64", WC("TWConst", P2, QU(1, 1, 1))),
  Dis(Part(I01, G3i), THalf, ""), Dis(Part(I01, G3e), THalf, ""), Dis(Part(I01u, G3), THalf, ""),
  Dis(Part(I01, G4i), Tn(<<4>>, "f64", WC("TWConst", P2, Q14)), ""),
  Dis(P3nob, Tn(<<3>>, "f64", WC("TWConst", P2, QU(1, 2, 1))), ""),
  PS(PW2c, <<Rn3, Rn3>>), PS(PW1, <<Rn3w(TW2c), Rn3w(TW2c)>>)
>>

UBase == <<
  \* ---- plain sets
  Cls0("EmptySet"), Cls0("UniversalSet"), RR, CC, ZZ, Str(3), Str(4),
  Cart(<<RR, ZZ>>), Cart(<<ZZ, RR>>), Cart(<<RR, ZZ, RR>>), Cart(<<RR>>),
  Uni(<<RR, ZZ>>), Uni(<<ZZ, RR>>), Uni(<<RR, CC>>), Uni(<<RR>>),
  Isec(<<RR, ZZ>>), Isec(<<ZZ, RR>>), Isec(<<RR, CC>>),
  Fin(<<1, 2, 3>>), Fin(<<3, 2, 1>>), Fin(<<1, 2>>),
  Cart(<<Uni(<<RR, ZZ>>), Str(3)>>), Uni(<<Cls0("UniversalSet"), RR>>),
  \* ---- interval products, grids, partitions
  I01, I0101, I010101, I0102, I02, IDeg, IM10, IM10Z, I01Z, I0101Z,
  G3, G3b, G4, GNeg, GNegZ, G23, G32,
  P4, P3nob, P3non, P4b, PNeg, PNegZ, P23, P22u, Part(IM10Z, GNeg), Part(IM10Z, GNegZ),
  \* ---- weightings of every class
  TW1, TW2, WC("TWConst", QI(1), QI(2)), WC("TWConst", Inf, QI(2)), WC("TWConst", P2, QI(3)),
  PW1, PW2, WC("PWConst", QI(1), QI(2)),
  WA("TWArray", P2, W1, 1), WA("TWArray", P2, W1, 2), WA("TWArray", P2, W1b, 3), WA("TWArray", QI(1), W1, 2),
  WA("PWArray", P2, W1, 2), WA("PWArray", P2, W1, 4),
  WCu("TWCustomInner", P2, "f1"), WCu("TWCustomInner", P2, "f2"), WCu("PWCustomInner", P2, "f1"),
  WCu("TWCustomNorm", QI(1), "g1"), WCu("PWCustomNorm", QI(1), "g1"),
  WCu("TWCustomDist", QI(1), "h1"), WCu("PWCustomDist", QI(1), "h1"),
  \* ---- tensor spaces
  Rn3, Tn(<<3>>, "f32", TW1), Tn(<<3>>, "c128", TW1), Tn(<<3>>, "i64", TW1), Tn(<<3, 1>>, "f64", TW1), Rn4,
  Rn3w(TW2), Rn3w(PW2), Rn3w(WC("TWConst", QI(1), QI(1))), Rn3w(WC("TWConst", Inf, QI(1))),
  Rn3w(WA("TWArray", P2, W1, 1)), Rn3w(WA("TWArray", P2, W1, 2)), Rn3w(WA("TWArray", P2, W1b, 3)),
  Rn3w(WCu("TWCustomInner", P2, "f1")), Rn3w(WCu("TWCustomNorm", QI(1), "g1")), Rn3w(WCu("TWCustomDist", QI(1), "h1")),
  Rn23, Tn(<<2, 3>>, "f64", TW2), Tn(<<2, 3>>, "f64", WA("TWArray", P2, W6, 5)), Tn(<<2, 3>>, "c128", TW1),
  Rn22, Tn(<<2, 2>>, "f64", WA("TWArray", P2, W4, 6)), Tn(<<4>>, "f64", WC("TWConst", P2, Q14)),
  \* ---- discretised spaces
  D4, Dis(P4, Tn(<<4>>, "c128", WC("TWConst", P2, Q14)), "factory"),
  Dis(P4, Tn(<<4>>, "f32", WC("TWConst", P2, Q14)), "factory"),
  Dis(P4, Tn(<<4>>, "f64", TW2), "factory"), Dis(P4, Tn(<<4>>, "f64", WC("TWConst", QI(1), Q14)), "factory"),
  Dis(P4b, Rn4, "factory"),
  Dis(P3nob, Tn(<<3>>, "f64", WC("TWConst", P2, H(1, 2))), "factory"),
  Dis(P3non, Rn3, ""), Dis(PNeg, Tn(<<3>>, "f64", WC("TWConst", P2, H(1, 2))), ""),
  Dis(PNegZ, Tn(<<3>>, "f64", WC("TWConst", P2, H(1, 2))), ""),
  Dis(P23, Tn(<<2, 3>>, "f64", WC("TWConst", P2, Q14)), "factory"),
  Dis(P4, Tn(<<4>>, "f64", WA("TWArray", P2, W4, 7)), ""),
  Dis(P23, Tn(<<2, 3>>, "f64", WC("TWConst", Inf, QI(1))), "factory"),
  Dis(P22u, Rn22, "factory"), Dis(Part(IM10Z, GNeg), Tn(<<3>>, "f64", WC("TWConst", P2, H(1, 2))), ""),
  \* ---- product spaces: flat, power, nested, weighted (const / array / custom), mixed
  PS(PW1, <<Rn3, Rn3>>), PS(PW1, <<Rn3, Rn3, Rn3>>), PS(PW1, <<Rn3, Rn4>>), PS(PW1, <<Rn4, Rn3>>),
  PS(PW1, <<PS(PW1, <<Rn3, Rn3>>), PS(PW1, <<Rn3, Rn3>>)>>), PS(PW1, <<Rn3, Rn3, Rn3, Rn3>>),   \* nested vs flattened
  PS(PW2, <<Rn3, Rn3>>), PS(TW2, <<Rn3, Rn3>>), PS(WC("PWConst", QI(1), QI(1)), <<Rn3, Rn3>>),
  PS(WA("PWArray", P2, W1, 2), <<Rn3, Rn3, Rn3>>), PS(WA("PWArray", P2, W1, 4), <<Rn3, Rn3, Rn3>>),
  PS(WCu("PWCustomInner", P2, "f1"), <<Rn3, Rn3>>),
  PS(PW1, <<Tn(<<3>>, "c128", TW1), Tn(<<3>>, "c128", TW1)>>),
  PS(PW1, <<Rn3w(TW2), Rn3w(TW2)>>), PS(PW1, <<D4, D4>>),
  PS(PW2, <<PS(PW2, <<Rn3, Rn3>>), Rn3>>),
  PS(PW1, <<Rn3w(WA("TWArray", P2, W1, 2)), Rn3w(WA("TWArray", P2, W1, 2))>>)
>>

\* thorough tier: more of every kind (other dtypes, 2-d / 3-d data, exponents, nestings, mixtures)
I3d  == Intv(<<QI(0), QI(0), QI(0)>>, <<QI(1), QI(2), QI(1)>>)
G222 == Grid(<<<<H(1, 4), H(3, 4)>>, <<H(1, 2), H(3, 2)>>, <<H(1, 4), H(3, 4)>>>>, "")
P222 == Part(I3d, G222)
P23nob == Part(I0132, Grid(<<<<QI(0), QI(1)>>, <<H(1, 4), H(3, 4), H(5, 4)>>>>, ""))   \* nodes on bdry in axis 0
Cn3 == Tn(<<3>>, "c128", TW1)
UBig == <<
  Str(1), Cart(<<RR, RR>>), Cart(<<CC, ZZ>>), Cart(<<Cart(<<RR, ZZ>>), RR>>), Cart(<<Str(3), Str(4)>>),
  Uni(<<RR, ZZ, CC>>), Uni(<<CC, ZZ, RR>>), Uni(<<Uni(<<RR, ZZ>>), CC>>), Uni(<<Str(3), RR>>), Uni(<<I01, RR>>),
  Isec(<<RR, ZZ, CC>>), Isec(<<Uni(<<RR, ZZ>>), RR>>), Isec(<<RR>>),
  Fin(<<1>>), Fin(<<2, 1>>), Fin(<<1, 2, 3, 4>>), Cart(<<Fin(<<1, 2>>), RR>>),
  I3d, Intv(<<QI(0), QI(0)>>, <<QI(2), QI(1)>>), Intv(<<H(1, 2)>>, <<QI(1)>>), Intv(<<QI(1)>>, <<QI(1)>>),
  Intv(<<QI(0), QI(0), QI(0)>>, <<QI(2), QI(2), QI(2)>>), Intv(<<QI(0)>>, <<Inf>>),
  G222, Grid(<<<<QI(0)>>>>, ""), Grid(<<<<QI(0)>>>>, "negzero"), Grid(<<<<QI(0), QI(1)>>, <<QI(0), QI(1)>>>>, ""),
  Grid(<<<<QI(0), QI(1)>>, <<QI(0), QI(1)>>>>, "negzero"), Grid(<<<<H(1, 8), H(3, 8), H(5, 8)>>>>, ""),
  P222, P23nob, Part(I02, G3), Part(Intv(<<QI(-1)>>, <<QI(2)>>), G3), Part(I0132, G23),
  WC("TWConst", QI(3), QI(2)), WC("PWConst", Inf, QI(2)), WC("PWConst", P2, QI(3)), WC("TWConst", P2, H(1, 2)),
  WA("TWArray", Inf, W1, 2), WA("PWArray", QI(1), W1, 2), WA("TWArray", P2, W4, 7), WA("PWArray", P2, W1b, 8),
  WCu("PWCustomInner", P2, "f2"), WCu("TWCustomNorm", QI(1), "g1"), WCu("TWCustomDist", QI(1), "h1"),
  Tn(<<3>>, "c64", TW1), Tn(<<3>>, "i32", TW1), Tn(<<1>>, "f64", TW1), Tn(<<3>>, "f32", TW2), Cn3,
  Tn(<<3>>, "c128", TW2), Tn(<<3>>, "c128", WA("TWArray", P2, W1, 2)), Tn(<<3>>, "f64", WC("TWConst", QI(3), QI(2))),
  Tn(<<3, 2>>, "f64", TW1), Tn(<<3, 2>>, "f64", WA("TWArray", P2, W6, 9)), Tn(<<2, 3>>, "f32", TW1),
  Tn(<<2, 2, 2>>, "f64", TW1), Tn(<<2, 2, 2>>, "f64", TW2), Tn(<<2, 3>>, "f64", WC("TWConst", QI(1), QI(2))),
  Tn(<<2, 3>>, "f64", WCu("TWCustomInner", P2, "f1")), Tn(<<3>>, "i64", TW2),
  Dis(P222, Tn(<<2, 2, 2>>, "f64", WC("TWConst", P2, H(1, 4))), "factory"),
  Dis(P23nob, Tn(<<2, 3>>, "f64", WC("TWConst", P2, H(1, 2))), "factory"),
  Dis(P23, Tn(<<2, 3>>, "c128", WC("TWConst", P2, Q14)), "factory"),
  Dis(P23, Tn(<<2, 3>>, "f64", TW2), "factory"),
  Dis(P23, Tn(<<2, 3>>, "f64", WA("TWArray", P2, W6, 5)), ""),
  Dis(Part(I02, G3), Tn(<<3>>, "f64", WC("TWConst", P2, H(1, 2))), ""),
  Dis(P4, Tn(<<4>>, "f64", WCu("TWCustomInner", P2, "f1")), ""),
  PS(PW1, <<Cn3, Cn3, Cn3>>), PS(PW1, <<Rn23, Rn23>>), PS(PW2, <<Rn23, Rn23>>),
  PS(WC("PWConst", Inf, QI(1)), <<Rn3, Rn3>>), PS(WC("PWConst", QI(1), QI(2)), <<Rn3, Rn3>>),
  PS(WA("PWArray", QI(1), W1, 2), <<Rn3, Rn3, Rn3>>), PS(WA("PWArray", P2, W1b, 8), <<Rn3, Rn3, Rn3>>),
  PS(PW1, <<PS(PW1, <<Rn3, Rn3>>), Rn3>>), PS(PW1, <<PS(PW2, <<Rn3, Rn3>>), PS(PW2, <<Rn3, Rn3>>)>>),
  PS(WA("PWArray", P2, <<QI(1), QI(2)>>, 10), <<PS(PW1, <<Rn3, Rn3>>), PS(PW1, <<Rn3, Rn3>>)>>),
  PS(PW1, <<Tn(<<3>>, "f32", TW1), Tn(<<3>>, "f32", TW1)>>),
  PS(WCu("PWCustomNorm", QI(1), "g1"), <<Rn3, Rn3>>), PS(WCu("PWCustomDist", QI(1), "h1"), <<Rn3, Rn3>>),
  PS(PW1, <<Dis(P23, Tn(<<2, 3>>, "f64", WC("TWConst", P2, Q14)), "factory"),
            Dis(P23, Tn(<<2, 3>>, "f64", WC("TWConst", P2, Q14)), "factory")>>)
>>
Big == IOEnv.ST_BIG = "1"
U == IF Big THEN UBase \o UNear \o UExtra \o UBig ELSE UBase \o UNear \o UExtra

(* ------------------------------ instances ------------------------------- *)
RECURSIVE Inst(_, _)
Inst(d, c) ==
  [d EXCEPT !.id = (IF d.id = 0 THEN 0 ELSE IF d.id \in SharedSlots THEN d.id * 10 ELSE d.id * 10 + c),
            !.sub = [k \in 1..Len(d.sub) |-> Inst(d.sub[k], c)]]
NU == Len(U)
\* three objects per descriptor: 1 generic constructors, 2 factory functions / keyword spellings,
\* 3 alternative spellings and constructor routes (rn / cn, dtype spellings, uniform_* routes, ** n, ...)
NC == 3
Obj(k, c) == [oid |-> NC * (k - 1) + c, k |-> k, copy |-> c, d |-> Inst(U[k], c)]
Objects == [o \in 1..(NC * NU) |-> Obj(((o - 1) \div NC) + 1, ((o - 1) % NC) + 1)]
NO == NC * NU

VARIABLES ox, oy         \* object numbers; oy = 0: level-1 state (one object)
vars == <<ox, oy>>
Init == ox \in 1..NO /\ oy = 0
Next == oy = 0 /\ oy' \in 1..NO /\ UNCHANGED ox
Spec == Init /\ [][Next]_vars

X == Objects[ox]
Y == Objects[oy]

(* ------------------- the laws on layer A (sanity of the reference) ------ *)
AEq(x, y) == SetEq(x.d, y.d)
A_Reflexive  == oy # 0 \/ AEq(X, X)
A_Symmetric  == oy = 0 \/ (AEq(X, Y) = AEq(Y, X))
A_Transitive == oy = 0 \/ ~AEq(X, Y) \/ \A o \in 1..NO : AEq(Y, Objects[o]) => AEq(X, Objects[o])
\* two independently constructed copies of one descriptor are equal unless an un-shared array is involved
RECURSIVE HasFreshArray(_)
HasFreshArray(d) == (d.id # 0 /\ d.id \notin SharedSlots) \/ \E k \in 1..Len(d.sub) : HasFreshArray(d.sub[k])
A_Copies == oy = 0 \/ X.k # Y.k \/ (AEq(X, Y) <=> (X.copy = Y.copy \/ ~HasFreshArray(U[X.k])))

(* --------------------------- the laws on layer C ------------------------ *)
(* no exclusions: on the current tree the model of the code obeys every law and refines layer A *)
CEq(x, y) == ImplEq(x.d, y.d, x.oid = y.oid)
CHashOk(x, y) == ImplHashRaises(x.d) \/ ImplHashRaises(y.d) \/ ImplHashKey(x.d) = ImplHashKey(y.d)
C_Reflexive == oy # 0 \/ CEq(X, X)
C_Symmetric == oy = 0 \/ (CEq(X, Y) = CEq(Y, X))
C_Transitive == oy = 0 \/ ~CEq(X, Y) \/ \A o \in 1..NO : CEq(Y, Objects[o]) => CEq(X, Objects[o])
C_Hash == oy = 0 \/ ~CEq(X, Y) \/ CHashOk(X, Y)
\* layer C against layer A
C_Refines == oy = 0 \/ (CEq(X, Y) = AEq(X, Y))
\* membership of an element of space X in space Y
C_Contains == oy = 0 \/ ~(IsSpace(X.d) /\ IsSpace(Y.d)) \/ (ImplSpaceContains(Y.d, X.d, X.oid = Y.oid) = CEq(X, Y))
\* derived-space constructors: layer C against layer A outside the open findings, which are real
C_Derived == oy # 0 \/ ~IsSpace(X.d) \/ HasUlp(X.d) \/ DerivedRefines(X.d)
OpenCellsAreReal ==
  /\ \E o \in 1..NO : LET s == Objects[o].d IN IsSpace(s) /\ \E c \in DerivedCases(s) :
        HasArrayW(s) /\ DtypeChange(c) /\ DerivedDiff(s, c, ImplDerived(s, c)) = {"raises"}
  /\ \E o \in 1..NO : LET s == Objects[o].d IN IsSpace(s) /\ \E c \in DerivedCases(s) :
        s.cls = "Tensor" /\ c.op = "byaxis" /\ DerivedDiff(s, c, ImplDerived(s, c)) = {"weighting"}
  /\ \E o \in 1..NO : LET s == Objects[o].d IN IsSpace(s) /\ \E c \in DerivedCases(s) :
        s.cls = "PSpace" /\ c.op = "getitem-list" /\ DerivedDiff(s, c, ImplDerived(s, c)) = {"weighting"}
OpenOnce == (ox # 1 \/ oy # 0) \/ OpenCellsAreReal
\* nothing hashes by raising any more
C_NoRaise == oy # 0 \/ ~ImplHashRaises(X.d)

BogusNoOpenCell == oy # 0 \/ ~IsSpace(X.d) \/ HasUlp(X.d) \/ \A c \in DerivedCases(X.d) : DerivedDiff(X.d, c, ImplDerived(X.d, c)) = {}
\* deliberately false, for the non-vacuity self-test (distinct objects never share a hash key)
BogusDistinctHash == oy = 0 \/ X.oid = Y.oid \/ ImplHashKey(X.d) # ImplHashKey(Y.d)

(* -------------------------------- export -------------------------------- *)
Export ==
  oy # 0 \/
  Serialize(ToJson([oid |-> X.oid, k |-> X.k, copy |-> X.copy, d |-> X.d,
                    cases |-> IF IsSpace(X.d) /\ X.copy = 1 /\ ~HasUlp(X.d)
                                THEN {[c EXCEPT !.form = c.form] @@ [hasdesc |-> DerivedDescDefined(X.d, c),
                                       desc |-> IF DerivedDescDefined(X.d, c) THEN DerivedDesc(X.d, c) ELSE Cls0("none")] :
                                      c \in DerivedCases(X.d)}
                                ELSE {},
                    pcases |-> IF X.d.cls = "RectPartition" /\ X.copy = 1 /\ ~HasUlp(X.d)
                                 THEN {c @@ [desc |-> PartDerivedDesc(X.d, c)] : c \in PartCases(X.d)} ELSE {}]) \o "\n", IOEnv.OUT_FILE,
            [format |-> "TXT", charset |-> "UTF-8",
             openOptions |-> <<"WRITE", "CREATE", "APPEND">>]).exitValue = 0
\* the export run does not expand pairs
NoPairs == oy = 0 /\ FALSE
=============================================================================

------------------------------- MODULE MC_Norm -------------------------------
(* Bounded instances of NormMachine (EXT/normalize).                                                               *)
(*   IOEnv.NORM_GROUP  selects the argument space: axes | index | nob | spl | misc | num | all (case machine),     *)
(*                     hist (history machines)                                                                     *)
(*   IOEnv.NORM_TIER   quick | thorough                                                                            *)
(*   IOEnv.NORM_FIXED  letters of the repair switches already applied in the tree under test                       *)
(*                     i index-neg-oob  n nob-badlen  s spl-str-split  z aob-size1  (- = none)                       *)
(*   IOEnv.OUT_FILE    export: one JSON line per case  [fn, a, allow, c]  (allow = outcomes the documentation      *)
(*                     accepts, c = what the CURRENT code's decision tree does and which leaf it takes) or per     *)
(*                     history state [m, hist, st, alt]                                                            *)
(* Configurations: MC_Norm_cases.cfg (laws + C refines A with all switches + export), MC_Norm_current.cfg (C with  *)
(* the tree's switches only: TLC has to refute it while a finding is open), MC_Norm_hist.cfg (history machines:    *)
(* laws + export), MC_Norm_bogus.cfg (non-vacuity).                                                                *)
EXTENDS NormMachine, Json, IOUtils

Group == IOEnv.NORM_GROUP
Thorough == IOEnv.NORM_TIER = "thorough"
Has(ch) == \E i \in 1..Len(IOEnv.NORM_FIXED) : SubSeq(IOEnv.NORM_FIXED, i, i) = ch
TreeFixed == (IF Has("i") THEN {"index-neg-oob"} ELSE {}) \cup (IF Has("n") THEN {"nob-badlen"} ELSE {})
             \cup (IF Has("s") THEN {"spl-str-split"} ELSE {})
             \cup (IF Has("z") THEN {"aob-size1"} ELSE {})

C(fn, a) == [fn |-> fn, a |-> a]
SeqsUpTo(S, n) == UNION {[1..k -> S] : k \in 0..n}

(* ---------------- normalized_axes_tuple ---------------- *)
AxScalars == {VI(i) : i \in -4..4} \cup
             {VB(0), VB(1), VNB(1), VF(1, 1), VF(-1, 1), VF(3, 2), VNone, VS(<<"1">>), VS(<<"a">>), VA0(VI(-1)), VA0(VF(3, 2))}
AxItems == {VI(i) : i \in -3..2}
AxOdd == {VL(<<VI(0), VF(1, 1)>>), VL(<<VF(3, 2)>>), VL(<<VI(0), VNone>>), VL(<<VS(<<"1">>)>>), VL(<<VB(1), VI(0)>>),
          VG(<<VI(0), VI(-1)>>), VG(<<VF(3, 2)>>), VL(<<VS(<<"a">>), VNone>>), VL(<<VNone, VS(<<"a">>)>>),
          VL(<<VI(0), VI(1), VI(2), VI(-1)>>), VL(<<VI(3), VI(2), VI(1), VI(0)>>)}
AxArgs == AxScalars \cup {VL(s) : s \in SeqsUpTo(AxItems, 3)} \cup AxOdd
AxesCases == {C("axes", [axes |-> x, ndim |-> VI(n)]) : x \in AxArgs, n \in (IF Thorough THEN -1..4 ELSE -1..3)}

(* ---------------- normalized_index_expression ---------------- *)
SlVals == {NONE, -4, -3, -1, 0, 1, 2, 3, 4}
SlSteps == {NONE, 1, 2, -1, -2}
AllSlices == {VSl(a, b, s) : a \in SlVals, b \in SlVals, s \in SlSteps}
R1 == {VI(i) : i \in -4..3} \cup AllSlices \cup {VEll, VNone}
R2 == {VI(i) : i \in -3..3} \cup
      {SlAll, VSl(1, NONE, NONE), VSl(NONE, -1, NONE), VSl(NONE, NONE, 2), VSl(NONE, NONE, -1), VSl(0, 0, NONE),
       VSl(2, 1, NONE), VSl(3, NONE, NONE), VSl(-1, NONE, -2), VSl(1, 3, NONE), VEll, VNone}
R3 == {VI(0), VI(-1), VI(-3), VI(2), SlAll, VEll, VSl(NONE, NONE, -1)}
Ind1 == R1 \cup {VL(<<x>>) : x \in R1} \cup {VL(<<x, VEll>>) : x \in R2} \cup {VL(<<VEll, x>>) : x \in R2}
        \cup {VL(<<>>), VL(<<VI(0), VI(0)>>), VL(<<VEll, VEll>>), VB(1), VF(1, 1), VS(<<"a">>), VL(<<VF(1, 1)>>)}
Ind2 == R2 \cup {VL(s) : s \in SeqsUpTo(R2, 2)} \cup {VL(s) : s \in [1..3 -> {VI(0), VI(-1), SlAll, VEll, VI(5)}]}
Ind3 == {VL(s) : s \in SeqsUpTo(R3, 3)} \cup R3 \cup
        {VL(<<VI(0), VI(0), VI(0), VI(0)>>), VL(<<VI(0), VEll, VI(0), VI(0)>>), VL(<<VI(1), VI(0), VEll, VI(-4)>>),
         VL(<<SlAll, SlAll, SlAll, SlAll>>)}
Shapes1 == {<<>>, <<1>>, <<2>>, <<3>>} \cup (IF Thorough THEN {<<4>>, <<0>>} ELSE {})
Shapes2 == {<<2, 3>>, <<3, 1>>} \cup (IF Thorough THEN {<<1, 1>>, <<3, 3>>} ELSE {})
Shapes3 == {<<2, 1, 3>>} \cup (IF Thorough THEN {<<3, 3, 2>>} ELSE {})
IdxC(ind, shp, b) == C("index", [ind |-> ind, shape |-> shp, i2s |-> b])
IndexCases == {IdxC(x, shp, b) : x \in Ind1, shp \in Shapes1, b \in {0, 1}}
              \cup {IdxC(x, shp, b) : x \in Ind2, shp \in Shapes2, b \in {0, 1}}
              \cup {IdxC(x, shp, b) : x \in Ind3, shp \in Shapes3, b \in {0, 1}}

(* ---------------- normalized_nodes_on_bdry ---------------- *)
NobItems == {VB(0), VB(1), VNB(1), VNB(0), VL(<<VB(1), VB(0)>>), VL(<<VB(0), VB(0)>>), VL(<<VNB(1), VB(0)>>),
             VL(<<VNB(0), VNB(1)>>), VL(<<VB(1)>>), VL(<<VB(1), VB(0), VB(1)>>), VL(<<>>), VI(1), VNone,
             VL(<<VI(1), VI(0)>>), VL(<<VL(<<VB(1), VB(0)>>)>>)}
NobItems3 == {VB(0), VB(1), VNB(1), VL(<<VB(1), VB(0)>>), VL(<<VB(1), VB(0), VB(1)>>), VI(1)}
NobArgs == {VB(0), VB(1), VNB(1), VI(1), VNone} \cup {VL(s) : s \in SeqsUpTo(NobItems, 2)}
           \cup {VL(s) : s \in [1..3 -> NobItems3]}
NobCases == {C("nob", [nob |-> x, length |-> VI(n)]) : x \in NobArgs, n \in 0..3}

(* ---------------- normalized_scalar_param_list ---------------- *)
SplScalars == {VNone, VI(1), VI(0), VF(3, 2), VF(3, 1), VB(1), VS(<<"1", "0">>), VS(<<"7">>), VS(<<"a", "b", "c">>),
               VS(<<"a", "b">>), VS(<<>>), VA0(VF(3, 2)), VG(<<VI(1), VI(2)>>)}
SplItems == {VI(1), VNone, VF(3, 1), VF(5, 2), VS(<<"2">>)}
SplNested == {VL(<<VL(<<VI(1), VI(2)>>)>>), VL(<<VL(<<VI(1), VI(2)>>), VL(<<VI(3), VI(4)>>)>>),
              VL(<<VL(<<VI(1), VI(2)>>), VI(3)>>), VL(<<VS(<<"a", "b">>), VS(<<"c">>)>>), VL(<<VA0(VI(2)), VI(1)>>),
              VL(<<VL(<<VI(1)>>), VL(<<VI(2), VI(3)>>)>>)}
SplParams == SplScalars \cup {VL(s) : s \in SeqsUpTo(SplItems, 3)} \cup SplNested
SplOpts == {<<"none", 1, 0>>, <<"none", 1, 1>>, <<"none", 0, 0>>, <<"int", 1, 0>>, <<"int", 0, 0>>, <<"int", 1, 1>>,
            <<"float", 1, 0>>, <<"myconv", 1, 0>>, <<"myconv", 0, 0>>, <<"safeint", 1, 0>>, <<"safeint", 0, 0>>}
SplCases == {C("spl", [param |-> p, length |-> VI(n), conv |-> o[1], keep |-> o[2], ret |-> o[3]]) :
               p \in SplParams, n \in -1..3, o \in SplOpts}

(* ---------------- safe_int_conv, dtypes, unique, text ---------------- *)
SicCases == {C("sic", [x |-> x]) : x \in {VI(i) : i \in -2..2} \cup
               {VB(0), VB(1), VNB(1), VF(2, 1), VF(5, 2), VF(-1, 2), VNone, VS(<<"1">>), VL(<<VI(1)>>), VL(<<VI(1), VI(2)>>),
                VA0(VI(3)), VA0(VF(3, 2))}}
DtShapes == {<<>>, <<3>>, <<2, 3>>}
DtPreds == {"is_numeric_dtype", "is_int_dtype", "is_floating_dtype", "is_real_dtype", "is_real_floating_dtype",
            "is_complex_floating_dtype", "dtype_str", "dtype_repr"}
DtypeCases == {C("dtype", [f |-> f, base |-> b, shape |-> shp, dflt |-> VNone]) : f \in DtPreds, b \in AllBases, shp \in DtShapes}
              \cup {C("dtype", [f |-> f, base |-> b, shape |-> shp, dflt |-> d]) :
                      f \in {"real_dtype", "complex_dtype"}, b \in AllBases, shp \in DtShapes,
                      d \in {VNone, VI(0), VS(<<"d">>)}}
UqItems == {VI(1), VI(2), VF(1, 1), VB(1), VS(<<"a">>), VL(<<VI(1)>>), VL(<<VF(1, 1)>>)}
UniqueCases == {C("unique", [seq |-> VL(s)]) : s \in SeqsUpTo(UqItems, IF Thorough THEN 5 ELSE 4)}
               \cup {C("unique", [seq |-> x]) : x \in {VS(<<"a", "b", "c", "a">>), VS(<<>>), VS(<<"a", "a">>), VG(<<VI(1), VI(1)>>)}}
Chars == {"-", "a"}
Lines == SeqsUpTo(Chars, 3)
Texts == [1..1 -> Lines] \cup [1..2 -> Lines] \cup {<<<<"-", "a">>, <<>>, <<"-", "-", "a">>>>}
Inds == {<<"-">>, <<"-", "-">>}
TextCases == {C("indent", [lines |-> t, ind |-> i]) : t \in Texts, i \in Inds \cup {<<>>}}
             \cup {C("dedent", [lines |-> t, ind |-> i, maxlv |-> mx]) : t \in Texts, i \in Inds \cup {<<>>}, mx \in {NONE, 0, 1, 2}}
Iota(n) == [i \in 1..n |-> i - 1]
ArrStrCases == {C("arrstr1", [row |-> Iota(n), nprint |-> np]) : n \in 0..9, np \in 1..8}
               \cup {C("arrstr2", [rows |-> [i \in 1..r |-> [j \in 1..c |-> (i - 1) * c + j - 1]], nprint |-> np]) :
                       r \in 1..7, c \in 1..7, np \in 2..6}
SigPos == {<<>>, <<"1">>, <<"'hello'">>, <<"1", "'hello'", "None">>, <<"None", "2">>}
SigOpt1 == {<<"dtype", "'float32'", "'float64'">>, <<"size", "1", "1">>, <<"size", "2", "1">>, <<"order", "'F'", "'C'">>,
            <<"axis", "None", "None">>, <<"axis", "0", "None">>}
SigOpts == {<<>>} \cup {<<o>> : o \in SigOpt1} \cup {<<o, p>> : o \in SigOpt1, p \in SigOpt1}
SigSeps == {<<", ">>, <<",", ",", ", ">>, <<"; ">>, <<", ", " ", " | ">>, <<",", ";">>}
SigStrCases == {C("sigstr", [pos |-> p, opt |-> o, sep |-> s]) : p \in SigPos, o \in SigOpts, s \in SigSeps}
IsStrCases == {C("isstr", [x |-> x]) : x \in {VS(<<>>), VS(<<"a">>), VS(<<"a", "b">>), VNone, VB(1), VI(0), VF(1, 2), VL(<<>>),
                                               VL(<<VS(<<"a">>)>>), VEll, VA0(VI(1)), VNB(1)}}
MiscCases == SicCases \cup DtypeCases \cup UniqueCases \cup TextCases \cup ArrStrCases \cup SigStrCases \cup IsStrCases

(* ---------------- apply_on_boundary, fast_1d_tensor_mult ---------------- *)
FPairs == {<<"x2", "x2">>, <<"x2", "x3">>, <<"p1", "p1">>, <<"none", "x2">>, <<"x3", "none">>}
FPairs2 == {<<"x2", "x2">>, <<"x2", "x3">>, <<"p1", "p1">>}
WPairs == {<<1, 1>>, <<1, 0>>, <<0, 1>>, <<0, 0>>}
AobC(shp, fs, ws, ord, once) ==
  C("aob", [shape |-> shp, vals |-> [t \in 1..Prod(shp, 1) |-> t], funcs |-> fs, which |-> ws, order |-> ord, once |-> once])
AobShapes1 == {<<1>>, <<2>>, <<3>>}
AobShapes2 == {<<1, 3>>, <<3, 1>>, <<2, 2>>, <<2, 3>>, <<3, 3>>} \cup (IF Thorough THEN {<<1, 1>>, <<4, 2>>} ELSE {})
AobCases ==
  {AobC(shp, <<f>>, <<w>>, <<1>>, o) : shp \in AobShapes1, f \in FPairs, w \in WPairs, o \in {0, 1}}
  \cup {AobC(shp, <<f, g>>, <<w, x>>, ord, o) : shp \in AobShapes2, f \in FPairs2, g \in FPairs2 \cup {<<"none", "x2">>},
          w \in WPairs, x \in WPairs, ord \in {<<1, 2>>, <<2, 1>>}, o \in {0, 1}}
  \cup {AobC(<<2, 1, 2>>, <<<<"x2", "x2">>, <<"x3", "x3">>, <<"p1", "p1">>>>, <<w, <<1, 1>>, x>>, ord, o) :
          w \in {<<1, 1>>, <<0, 1>>}, x \in {<<1, 1>>, <<1, 0>>},
          ord \in {<<1, 2, 3>>, <<3, 1, 2>>, <<2, 3, 1>>, <<3, 2, 1>>}, o \in {0, 1}}
  \* wrong lengths
  \cup {AobC(<<2, 2>>, <<<<"x2", "x2">>>>, <<<<1, 1>>, <<1, 1>>>>, <<1, 2>>, 1),
        AobC(<<2, 2>>, <<<<"x2", "x2">>, <<"x2", "x2">>>>, <<<<1, 1>>>>, <<1, 2>>, 1),
        AobC(<<2, 2>>, <<<<"x2", "x2">>, <<"x2", "x2">>>>, <<<<1, 1>>, <<1, 1>>>>, <<1>>, 1),
        AobC(<<3>>, <<<<"x2", "x2">>, <<"x2", "x2">>>>, <<<<1, 1>>>>, <<1>>, 0)}
VecFor(n, off) == [i \in 1..n |-> i + off]
F1dC(shp, vecs, axes) == C("f1d", [shape |-> shp, vals |-> [t \in 1..Prod(shp, 1) |-> t], vecs |-> vecs, axes |-> axes])
F1dCases ==
  {F1dC(<<n>>, <<VecFor(n, 1)>>, ax) : n \in {1, 2, 3}, ax \in {<<NONE>>, <<0>>, <<-1>>, <<1>>, <<-2>>, <<0, 0>>}}
  \cup {F1dC(<<2, 3>>, <<VecFor(3, 1)>>, ax) : ax \in {<<NONE>>, <<1>>, <<-1>>, <<2>>, <<-3>>}}
  \cup {F1dC(<<2, 3>>, <<VecFor(2, 2)>>, ax) : ax \in {<<0>>, <<-2>>}}
  \cup {F1dC(<<2, 3>>, <<VecFor(2, 2), VecFor(3, 1)>>, ax) : ax \in {<<NONE>>, <<0, 1>>, <<-2, -1>>, <<0, -1>>, <<0>>, <<0, 2>>}}
  \cup {F1dC(<<2, 3>>, <<VecFor(3, 1), VecFor(2, 2)>>, ax) : ax \in {<<1, 0>>, <<-1, 0>>, <<-1, -2>>}}
  \cup {F1dC(<<3, 2>>, <<VecFor(3, 1), VecFor(2, 2)>>, ax) : ax \in {<<NONE>>, <<0, 1>>}}
  \cup {F1dC(<<2, 1, 2>>, vs, ax) : vs \in {<<VecFor(2, 1)>>}, ax \in {<<NONE>>, <<0>>, <<2>>, <<-3>>}}
  \cup {F1dC(<<2, 1, 2>>, <<VecFor(2, 1), VecFor(2, 3)>>, ax) : ax \in {<<0, 2>>, <<2, 0>>, <<-1, 0>>}}
  \cup {F1dC(<<2, 1, 2>>, <<VecFor(2, 1), VecFor(1, 4), VecFor(2, 3)>>, ax) : ax \in {<<NONE>>, <<0, 1, 2>>, <<2, 1, 0>>, <<-1, 1, 0>>}}
  \cup {F1dC(<<2, 3>>, <<>>, <<NONE>>), F1dC(<<3>>, <<VecFor(3, 1), VecFor(3, 1)>>, <<NONE>>),
        F1dC(<<2, 3>>, <<VecFor(2, 1), VecFor(3, 1), VecFor(2, 1)>>, <<NONE>>), F1dC(<<2, 3>>, <<VecFor(2, 1)>>, <<0, 1>>),
        F1dC(<<2, 3>>, <<VecFor(2, 1), VecFor(2, 1)>>, <<0, 0>>)}
NumCases == AobCases \cup F1dCases

MC_Cases == CASE Group = "axes" -> AxesCases [] Group = "index" -> IndexCases [] Group = "nob" -> NobCases
              [] Group = "spl" -> SplCases [] Group = "misc" -> MiscCases [] Group = "num" -> NumCases
              [] Group = "all" -> AxesCases \cup IndexCases \cup NobCases \cup SplCases \cup MiscCases \cup NumCases
              [] OTHER -> {}
MC_Machines == IF Group = "hist" THEN {"wa-alias", "wa-snap", "rng", "po", "cache"} ELSE {}
MC_MaxLenOf(mm) == CASE mm \in {"wa-alias", "wa-snap"} -> (IF Thorough THEN 7 ELSE 6)
                     [] mm = "cache" -> (IF Thorough THEN 6 ELSE 5)
                     [] OTHER -> (IF Thorough THEN 6 ELSE 5)

Write(rec) == Serialize(ToJson(rec) \o "\n", IOEnv.OUT_FILE,
                        [format |-> "TXT", charset |-> "UTF-8", openOptions |-> <<"WRITE", "CREATE", "APPEND">>]).exitValue = 0
ExportCase == Write([fn |-> case.fn, a |-> case.a, cell |-> Cell(case.fn, case.a), allow |-> Allowed(case.fn, case.a), c |-> Impl(case.fn, case.a, TreeFixed),
                     cur |-> Refines(case.fn, case.a, TreeFixed)])
OtherMode == IF m = "wa-alias" THEN "wa-snap" ELSE IF m = "wa-snap" THEN "wa-alias" ELSE m
ExportHist == Write([m |-> m, hist |-> hist, st |-> st, arrs |-> IF m \in {"wa-alias", "wa-snap"} THEN WaArrs(m, st) ELSE <<>>,
                     alt |-> IF m \in {"wa-alias", "wa-snap"} THEN Run(OtherMode, hist).obj ELSE <<>>])
\* C with the switches of the tree only: refuted while a finding is open
RefinesCurrent == case.fn = "none" \/ Refines(case.fn, case.a, TreeFixed)
=============================================================================

---------------------------- MODULE MC_CbFullImpl ----------------------------
(* Bounded instance of layer C: the shapes, values and history lengths of MC_CbFull. *)
EXTENDS CbFullImpl, IOUtils
Lf(k, s, o) == [k |-> k, step |-> s, opt |-> o, l |-> <<>>, r |-> <<>>]
And(a, b) == [k |-> "and", step |-> 0, opt |-> "", l |-> a, r |-> b]
Comp(a) == [k |-> "compose", step |-> 0, opt |-> "", l |-> a, r |-> <<>>]
SaveOpts == {"pickle:idx", "pickle:fix", "numpy:idx", "numpy:fix", "txt:idx", "txt:fix"}
L1 == { Lf("store", s, o) : s \in 1..3, o \in {"own", "caller", "func"} }
      \cup { Lf(k, s, "") : k \in {"apply", "printiter", "print", "progress"}, s \in 1..3 }
      \cup { Lf("print", 2, "func"), Lf("printnorm", 1, ""), Lf("sleep", 1, ""), Lf("showconv", 1, "") }
      \cup { Lf("timing", s, o) : s \in 1..2, o \in {"cum", "inc"} }
      \cup { Lf("save", s, o) : s \in 1..2, o \in SaveOpts }
      \cup { Lf("show", s, o) : s \in 1..2, o \in {"", "saveto", "savefn"} }
Raw == Lf("raw", 1, "")
L2 == { And(Lf("store", 2, "caller"), b) : b \in {Raw, Lf("store", 1, "caller"), Lf("progress", 2, ""), Lf("store", 3, "own")} }
      \cup { Comp(a) : a \in {Lf("store", 2, "caller"), Lf("print", 1, "func"), Lf("progress", 3, "")} }
      \cup { Comp(And(Lf("store", 1, "func"), Comp(Lf("store", 2, "own")))), And(And(Lf("apply", 2, ""), Raw), Lf("save", 2, "txt:idx")) }
MC_Shapes == L1 \cup L2
MC_Values == {3, 5}
MC_MaxLen == IF "CBF_LEN" \in DOMAIN IOEnv /\ IOEnv.CBF_LEN = "5" THEN 5 ELSE IF "CBF_LEN" \in DOMAIN IOEnv /\ IOEnv.CBF_LEN = "3" THEN 3 ELSE 4
=============================================================================

---------------------------- MODULE MC_UfuncImpl ----------------------------
EXTENDS MC_Ufunc, UfuncResSpaceImpl
Flag(name) == name = "1"
MC_FixedNegAxis == Flag(IOEnv.UFUNC_FIXED_NEGAXIS)
MC_FixedZeroDimOut == Flag(IOEnv.UFUNC_FIXED_ZERODIM)
MC_FixedOuterBool == Flag(IOEnv.UFUNC_FIXED_OUTERBOOL)
MC_FixedPower == Flag(IOEnv.UFUNC_FIXED_POWER)
\* one invariant per kind so that the defective cells of each implementation are reported separately
TensorRefines == (ph = 1 /\ cfg.kind = "tensor") => \A v \in ValClasses : Refines(cfg, v)
DiscrRefines  == (ph = 1 /\ cfg.kind = "discr")  => \A v \in ValClasses : Refines(cfg, v)
PowerRefines  == (ph = 1 /\ cfg.kind = "power")  => \A v \in ValClasses : Refines(cfg, v)
=============================================================================

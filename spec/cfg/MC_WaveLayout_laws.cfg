SPECIFICATION Spec
INVARIANT TilesInv
INVARIANT FlatInv
INVARIANT SizeInv
INVARIANT CropInv
INVARIANT KeysInv

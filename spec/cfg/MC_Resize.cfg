SPECIFICATION Spec
CONSTANTS
  Cfgs <- MC_Cfgs
CONSTRAINT Export
INVARIANT AdjointIsTranspose
INVARIANT ExtendThenCropIsIdentity
INVARIANT OverlapCopied
INVARIANT RowLaws
INVARIANT AxisOrderIrrelevant
INVARIANT LinearRampLaw
INVARIANT ComplexAgrees
INVARIANT ImplCorrect
INVARIANT ImplRangeCorrect
INVARIANT GeometryLaws
INVARIANT UnchangedAxisOffsetIgnored

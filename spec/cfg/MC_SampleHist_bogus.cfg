SPECIFICATION Spec
CONSTANTS
  Objects <- MC_Objects
  MaxLen <- MC_MaxLen
  DTs <- MC_DTs
  Kinds <- MC_Kinds
  Hows <- MC_Hows
INVARIANT BogusFrozen

SPECIFICATION Spec
INVARIANT Refines

SPECIFICATION Spec
CONSTANTS
  Vals <- MC_Vals
  Sigmas <- MC_Sigmas
  L1Pinned <- MC_L1Pinned
INVARIANT AliasedEqualsPlain
INVARIANT PlainKeepsInput
INVARIANT L1IsSoftThreshold

------------------------------ MODULE MC_DFTDerive ------------------------------
(* Derivation chains of length <= MaxLen over representative option records; one JSON line per state *)
(* The harness builds the object of every exported state (base by constructor, then the path) and runs *)
(* DFTMachine histories ON THAT OBJECT: calls interleaved with init_fftw_plan / create_temporaries, so   *)
(* every (dir, sign, hc, field, impl, shifts) record x every node of the chain receives plan / temps.   *)
EXTENDS DFTDerive, Json, IOUtils
MC_MaxLen == IF IOEnv.C18_DLEN = "3" THEN 3 ELSE 2
Big == IOEnv.C18_DLEN = "3"
Rec(kind, dir, sign, axes, hc, shifts, impl, shape, field, wavelet, mode, nlevels, orth) ==
  [kind |-> kind, dir |-> dir, sign |-> sign, axes |-> axes, hc |-> hc, shifts |-> shifts, impl |-> impl,
   shape |-> shape, field |-> field, prec |-> 64, wavelet |-> wavelet, mode |-> mode, nlevels |-> nlevels,
   orth |-> orth, pow |-> 0]
Impls == {"numpy", "pyfftw"}
FShapes == {[shape |-> <<5>>, axes |-> <<0>>], [shape |-> <<3, 4>>, axes |-> <<1>>], [shape |-> <<4, 3>>, axes |-> <<1, 0>>]}
         \cup (IF Big THEN {[shape |-> <<2, 3, 4>>, axes |-> <<2, 0>>], [shape |-> <<4>>, axes |-> <<0>>],
                            [shape |-> <<3, 4>>, axes |-> <<0, 1>>]} ELSE {})
Variants == {[field |-> "C", hc |-> FALSE], [field |-> "R", hc |-> TRUE], [field |-> "R", hc |-> FALSE]}
AllTrue(n) == [i \in 1..n |-> TRUE]
LastTrue(n) == [i \in 1..n |-> i = n]
DftBases == {Rec("dft", dir, s, sa.axes, v.hc, <<>>, im, sa.shape, v.field, "", "", 0, FALSE) :
               dir \in {"fwd", "inv"}, s \in {-1, 1}, sa \in FShapes, v \in Variants, im \in Impls}
FtBases  == {Rec("ft", dir, s, sa.axes, v.hc, sh, im, sa.shape, v.field, "", "", 0, FALSE) :
               dir \in {"fwd", "inv"}, s \in {-1, 1}, sa \in FShapes, v \in Variants, im \in Impls,
               sh \in {<<>>}} \* shifts filled below
WShapes == {[shape |-> <<8>>, axes |-> <<0>>], [shape |-> <<8, 8>>, axes |-> <<0>>], [shape |-> <<8, 4>>, axes |-> <<1>>],
            [shape |-> <<4, 8>>, axes |-> <<0, 1>>], [shape |-> <<6, 5>>, axes |-> <<1>>]}
           \cup (IF Big THEN {[shape |-> <<9>>, axes |-> <<0>>], [shape |-> <<4, 4, 2>>, axes |-> <<0, 2>>]} ELSE {})
Wavelets == {[w |-> "haar", o |-> TRUE], [w |-> "db2", o |-> TRUE], [w |-> "bior2.2", o |-> FALSE]}
           \cup (IF Big THEN {[w |-> "sym4", o |-> TRUE], [w |-> "rbio1.3", o |-> FALSE]} ELSE {})
WModes == {"pywt_periodic", "symmetric"} \cup (IF Big THEN {"constant", "periodic"} ELSE {})
WaveBases == {Rec("wave", dir, 0, sa.axes, FALSE, <<>>, "pywt", sa.shape, "R", wv.w, mo, lv, wv.o) :
                dir \in {"fwd", "inv"}, sa \in WShapes, wv \in Wavelets, mo \in WModes, lv \in {1, 2}}
\* half-complex needs sign '-' for the forward type (sign '+' for the inverse type); the continuous transform
\* gets one shift list per base: all shifted, or only the last (halved) axis shifted / none for non-half-complex
SignOk(D) == D.hc => (IF D.dir = "fwd" THEN D.sign = -1 ELSE D.sign = 1)
WithShifts(D) == {[D EXCEPT !.shifts = AllTrue(Len(D.axes))]}
                 \cup (IF D.hc THEN {} ELSE {[D EXCEPT !.shifts = [i \in 1..Len(D.axes) |-> FALSE]]})
                 \cup (IF Len(D.axes) > 1 /\ ~D.hc THEN {[D EXCEPT !.shifts = LastTrue(Len(D.axes))]} ELSE {})
MC_Bases == {D \in DftBases : SignOk(D)}
            \cup UNION {WithShifts(D) : D \in {E \in FtBases : SignOk(E)}}
            \cup WaveBases
Export ==
  Serialize(ToJson([base |-> base, path |-> path, desc |-> desc]) \o "\n", IOEnv.OUT_FILE,
            [format |-> "TXT", charset |-> "UTF-8",
             openOptions |-> <<"WRITE", "CREATE", "APPEND">>]).exitValue = 0
=============================================================================

SPECIFICATION Spec
CONSTANTS
  MaxLen <- MC_MaxLen
  Efforts <- MC_Efforts
  Slim <- MC_Slim
CONSTRAINT Export
PROPERTY Frame
PROPERTY KeepsOld
PROPERTY ResultOnly
INVARIANT WellDefined
INVARIANT InvRecovers

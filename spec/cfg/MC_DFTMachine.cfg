SPECIFICATION Spec
CONSTANTS
  MaxLen <- MC_MaxLen
CONSTRAINT Export
PROPERTY Frame
PROPERTY KeepsOld
PROPERTY ResultOnly
INVARIANT WellDefined
INVARIANT InvRecovers

SPECIFICATION Spec
CONSTANTS
  Fixed <- MC_FixedTree
INVARIANT Refines

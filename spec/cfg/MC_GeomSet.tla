------------------------------ MODULE MC_GeomSet ------------------------------
(* Bounded instances and export wrapper of GeomSetMachine (EXT/geomsets).      *)
(*   MC_GeomSet_laws.cfg    laws of the reference on every reachable object      *)
(*   MC_GeomSet_export.cfg  one JSON line per GENERATED state: initial object,   *)
(*                          chain of calls, reached object, exactness flag and   *)
(*                          the expected result of every query (the constraint   *)
(*                          is evaluated before the VIEW merges equal objects,   *)
(*                          so every chain is exported)                          *)
(*   MC_GeomSet_bogus.cfg   a deliberately false invariant (non-vacuity)         *)
EXTENDS GeomSetMachine, Json, IOUtils

Thorough == IOEnv.GS_TIER = "thorough"
B(ax) == Box(ax)
G(vs) == Grid(vs)
Z(n)  == <<n, 1>>
MC_InitObjs ==
  { B(<< <<Q(-1, 2), Q(3, 2)>> >>),
    B(<< <<Z(-1), Z(2)>>, <<Z(3), Z(3)>> >>),
    B(<< <<Z(-2), Q(-1, 2)>>, <<Z(0), Q(3, 4)>>, <<Z(1), Z(4)>> >>),
    B(<< <<Q(1, 3), Q(5, 3)>> >>),                                          \* not exactly representable
    G(<< <<Z(0), Q(1, 2), Z(1), Q(3, 2), Z(2)>> >>),
    G(<< <<Z(-1), Z(0), Z(3)>>, <<Z(2), Z(4), Z(5)>> >>),
    G(<< <<Z(-1), Z(0), Z(3)>>, <<Z(5)>>, <<Z(2), Z(4), Z(7), Z(8)>> >>),
    G(<< <<Z(0), Q(5, 4), Q(5, 2), Q(15, 4), Z(5)>> >>),                     \* stride 5/4 against the unit grid
    G(<< <<Z(0), Q(131073, 256), Z(1024)>> >>) }                             \* 512 + 1/256: relative vs absolute tolerance
  \cup (IF Thorough THEN
    { B(<< <<Z(0), Z(0)>>, <<Q(-3, 4), Q(-1, 4)>> >>),
      B(<< <<Z(-4), Z(-4)>>, <<Z(1), Z(1)>> >>),
      B(<< <<Q(1, 3), Q(1, 3)>>, <<Q(-2, 3), Z(1)>> >>),
      G(<< <<Z(1)>>, <<Z(-2), Q(-1, 2)>> >>),
      G(<< <<Q(1, 3), Q(2, 3), Z(1)>>, <<Z(0), Z(1)>> >>) } ELSE {})
MC_MaxLen == IF Thorough THEN 3 ELSE 2
MC_MaxDim == 4
MC_FullDepth == 1
MC_InsBoxes == << << <<Z(5), Z(5)>> >>, << <<Q(-1, 2), Q(3, 4)>> >>, << <<Z(0), Z(1)>>, <<Z(-2), Z(-2)>> >> >>
MC_InsGrids == << << <<Z(1)>> >>, << <<Z(-6), Z(15)>> >>, << <<Z(7)>>, <<Z(0), Q(1, 2), Z(2)>> >> >>
MC_FixedOthers == << << <<Z(0), Z(1), Z(2), Z(3), Z(4), Z(5)>> >>,
                     << <<Z(0), Z(512), Z(1000), Z(1024)>> >>,
                     << <<Z(0), Q(1, 4), Q(1, 2), Q(3, 4), Z(1), Q(5, 4), Q(3, 2), Q(7, 4), Z(2)>> >> >>

Opts == [format |-> "TXT", charset |-> "UTF-8", openOptions |-> <<"WRITE", "CREATE", "APPEND">>]
Rich == Len(hist) <= MC_FullDepth
ExportState ==
  Serialize(ToJson([init |-> init, hist |-> hist, cur |-> cur, exact |-> exact,
                    queries |-> Expected(cur, exact, Rich, Len(hist))]) \o "\n", IOEnv.OUT_STATES, Opts).exitValue = 0
\* deliberately false: shows the law runs are not vacuous
Bogus == cur.k = "box" => TrueNdim(cur.v) = Len(cur.v)
=============================================================================

SPECIFICATION Spec
CONSTANTS
  Cfgs <- MC_Cfgs
INVARIANT BogusNoPadding

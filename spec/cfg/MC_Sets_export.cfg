SPECIFICATION Spec
CONSTRAINT Export
ACTION_CONSTRAINT NoPairs

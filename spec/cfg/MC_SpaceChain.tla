--------------------------- MODULE MC_SpaceChain ---------------------------
(* Chain enumeration for C20 (SpaceChainMachine): start spaces of every dtype incl. float16 and integers,   *)
(* unweighted / constant-weighted, 1-d / 2-d, tensor and discretised; every chain of <= MC_MaxLen operations *)
(* is checked against layer A and exported as one JSON line for replay on ONE real (cached) object per start. *)
EXTENDS SpaceChainMachine, Json, IOUtils

Big == IOEnv.ST_BIG = "1"
QS(ints) == [k \in 1..Len(ints) |-> QI(ints[k])]
WC(cls, ex, c) == Dsc(cls, <<>>, <<<<ex>>, <<c>>>>, "", 0)
Tn(shape, dt, w) == Dsc("Tensor", <<w>>, <<QS(shape)>>, dt, 0)
TW(c) == WC("TWConst", QI(2), c)
H(n, d) == Q(n, d)
P4 == Dsc("RectPartition", <<Dsc("IntervalProd", <<>>, <<<<QI(0)>>, <<QI(1)>>>>, "", 0),
                            Dsc("RectGrid", <<>>, <<<<H(1, 8), H(3, 8), H(5, 8), H(7, 8)>>>>, "", 0)>>, <<>>, "", 0)
Dis(dt) == Dsc("Discr", <<P4, Tn(<<4>>, dt, TW(H(1, 4)))>>, <<>>, "factory", 0)
AllDts == <<"f16", "f32", "f64", "c64", "c128", "i64", "i32">>
MC_Starts ==
     [k \in 1..7 |-> Tn(<<3>>, AllDts[k], TW(QI(1)))]
  \o [k \in 1..7 |-> Tn(<<3>>, AllDts[k], TW(QI(2)))]
  \o <<Tn(<<2, 3>>, "f64", TW(QI(2))), Tn(<<2, 3>>, "c64", TW(QI(1))), Tn(<<2, 3>>, "f16", TW(QI(2)))>>
  \o <<Dis("f64"), Dis("f32"), Dis("c128")>>
  \o (IF Big THEN [k \in 1..7 |-> Tn(<<2, 3>>, AllDts[k], WC("TWConst", QI(1), QI(2)))]
             \o <<Dis("c64"), Dis("f16"), Dis("i64"), Tn(<<3>>, "f64", Dsc("TWCustomInner", <<>>, <<<<QI(2)>>>>, "f1", 0))>>
      ELSE <<>>)
MC_MaxLen == IF Big THEN 3 ELSE 3

Export ==
  path = <<>> \/
  Serialize(ToJson([si |-> si, d |-> Starts[si], path |-> path, exp |-> exp, ids |-> ids,
                    mk |-> ModelK, mview |-> ModelView,
                    hasdesc |-> exp.k = "ok" /\ exp.wclaim, desc |-> ChainDesc(Starts[si], path)]) \o "\n", IOEnv.OUT_FILE,
            [format |-> "TXT", charset |-> "UTF-8",
             openOptions |-> <<"WRITE", "CREATE", "APPEND">>]).exitValue = 0
=============================================================================

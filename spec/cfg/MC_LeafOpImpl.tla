---------------------------- MODULE MC_LeafOpImpl ----------------------------
(* Bounded instances for layer C of the leaf operators: a case machine (one state per case) whose invariants are the    *)
(* refinement statements of LeafOpImpl; the factory cases are exported for replay on odl.vector / rn / cn / tensor_space. *)
EXTENDS LeafOpImpl, Json, IOUtils

VARIABLE cs
R(n) == CInt(n)
RQ(n, d) == CR(Q(n, d))
Z(a, b) == <<QI(a), QI(b)>>
Vals == <<R(1), R(-2), Z(3, 4), R(0), RQ(1, 2), Z(0, -1), R(5), Z(-4, 3), R(2), R(-3), RQ(3, 2), R(4)>>
TVal(n, off) == [i \in 1..n |-> Vals[((i * 5 + off) % Len(Vals)) + 1]]

Shapes == {<<2>>, <<3>>, <<2, 3>>, <<3, 2>>, <<2, 2, 2>>, <<2, 3, 2>>}
Wks == {"none", "const", "array"}
Flds == {"R", "C"}
SpRec(sh, f, w) == [shape |-> sh, fld |-> f, wk |-> w]
AxOf(sh) == 0..(Len(sh) - 1)
InitArgs ==
  { [rows |-> r, cols |-> c, mfld |-> mf, dom |-> <<>>, ax |-> 0, ran |-> <<>>] : r \in 1..3, c \in 1..3, mf \in Flds }
  \cup UNION { { [rows |-> r, cols |-> c, mfld |-> mf, dom |-> SpRec(sh, f, w), ax |-> ax, ran |-> <<>>] :
                   r \in 1..3, c \in 2..3, mf \in Flds, f \in Flds, w \in Wks, ax \in AxOf(sh) } : sh \in Shapes }
  \cup UNION { { [rows |-> r, cols |-> sh[ax + 1], mfld |-> mf, dom |-> SpRec(sh, f, "const"), ax |-> ax,
                  ran |-> SpRec([sh EXCEPT ![ax + 1] = r + dr], rf, "const")] :
                   r \in 2..3, mf \in Flds, f \in Flds, rf \in Flds, ax \in AxOf(sh), dr \in {0, 1} } : sh \in {<<2>>, <<2, 3>>, <<2, 2, 2>>} }
Mat(r, c, off) == [i \in 1..r |-> [j \in 1..c |-> Vals[((3 * i + 7 * j + off) % Len(Vals)) + 1]]]
CallArgs ==
  UNION { { [form |-> "dense", m |-> Mat(r, sh[ax + 1], off), ax |-> ax, shape |-> sh, t |-> TVal(Prod(sh), off)] :
              r \in 1..3, ax \in AxOf(sh), off \in {0, 1} } : sh \in Shapes }
  \cup { [form |-> "dot", m |-> Mat(r, c, off), ax |-> 0, shape |-> <<c>>, t |-> TVal(c, off)] : r \in 1..3, c \in 1..3, off \in {0, 1} }
SampArgs ==
  { [shape |-> <<3>>, sp |-> s] : s \in { [kind |-> "int", v |-> 1], [kind |-> "seq", v |-> <<1, 2, 1>>], [kind |-> "rowseq", v |-> << <<2, 0>> >>],
                                          [kind |-> "seq", v |-> <<0>>], [kind |-> "seq", v |-> <<2, 2, 2, 0>>] } }
  \cup { [shape |-> <<2, 3>>, sp |-> s] : s \in { [kind |-> "point", v |-> <<0, 2>>], [kind |-> "cols", v |-> << <<0, 1, 1>>, <<2, 1, 0>> >>],
                                                  [kind |-> "cols", v |-> << <<0, 1, 1, 0>>, <<0, 1, 2, 0>> >>] } }
  \cup { [shape |-> <<2, 2, 2>>, sp |-> s] : s \in { [kind |-> "point", v |-> <<1, 0, 1>>], [kind |-> "cols", v |-> << <<1, 0, 1>>, <<0, 1, 0>>, <<1, 0, 1>> >>] } }
  \cup { [shape |-> <<3, 2>>, sp |-> [kind |-> "cols", v |-> << <<2, 0, 2>>, <<1, 1, 0>> >>]] }
PwArgs ==
  UNION { { [q |-> q, w |-> w, x |-> [j \in 1..d |-> TVal(3, j + off)]] :
              q \in {QOne, <<2, 1>>, Inf}, off \in {0, 2},
              w \in { [j \in 1..d |-> QOne], [j \in 1..d |-> Q(4, 1)], SubSeq(<<Q(1, 4), Q(9, 1), QOne>>, 1, d), SubSeq(<<QOne, QOne, Q(4, 1)>>, 1, d) } } : d \in 1..3 }
Cls == {"bool", "int", "float", "complex"}
VecArgs == { [scalar |-> sc, depth |-> d, classes |-> S, dtype |-> dt] :
               sc \in BOOLEAN, d \in 1..2, S \in (SUBSET Cls) \ {{}}, dt \in {""} \cup Cls }
FacArgs == { [fn |-> f, dtype |-> dt] : f \in {"rn", "cn", "tensor_space"}, dt \in {""} \cup Cls }

Cases == { [t |-> "init", a |-> a] : a \in InitArgs } \cup { [t |-> "call", a |-> a] : a \in CallArgs }
         \cup { [t |-> "samp", a |-> a] : a \in SampArgs } \cup { [t |-> "pw", a |-> a] : a \in PwArgs }
         \cup { [t |-> "vec", a |-> a] : a \in { v \in VecArgs : v.scalar => (v.depth = 1 /\ Cardinality(v.classes) = 1) } }
         \cup { [t |-> "fac", a |-> a] : a \in FacArgs }
Init == cs \in Cases
Next == UNCHANGED cs
Spec == Init /\ [][Next]_cs

Refines ==
  CASE cs.t = "init" -> MatInitRefines(cs.a)
    [] cs.t = "call" -> MatCallRefines(cs.a.form, cs.a.m, cs.a.ax, cs.a.shape, cs.a.t)
    [] cs.t = "samp" -> LET sh == cs.a.shape pts == PtsNorm(Len(sh), cs.a.sp)
                        IN  /\ \A n \in 1..Len(pts) : InShape(sh, pts[n])
                            /\ \A cv \in {QOne, Q(1, 4)} : SamplingRefines(sh, pts, cv, TVal(Prod(sh), 1), TVal(Len(pts), 2))
    [] cs.t = "pw"   -> PwNormRefines(cs.a.q, cs.a.w, cs.a.x)
    [] cs.t = "vec"  -> VectorSpace(cs.a, 4) = VectorSpaceA(cs.a, 4)
    [] cs.t = "fac"  -> Factory(cs.a.fn, cs.a.dtype) = FactoryA(cs.a.fn, cs.a.dtype)
Quirk == cs.t = "init" => ArrayWeightingKeptWhenShapesAgree(cs.a)

SetToSeq(S) == LET RECURSIVE F(_) F(U) == IF U = {} THEN <<>> ELSE LET x == CHOOSE x \in U : TRUE IN <<x>> \o F(U \ {x}) IN F(S)
Line == CASE cs.t = "vec" -> [t |-> "vec", a |-> [scalar |-> cs.a.scalar, depth |-> cs.a.depth, classes |-> SetToSeq(cs.a.classes), dtype |-> cs.a.dtype],
                              want |-> VectorSpaceA(cs.a, 4)]
          [] cs.t = "fac" -> [t |-> "fac", a |-> cs.a, want |-> FactoryA(cs.a.fn, cs.a.dtype)]
          [] cs.t = "samp" -> [t |-> "samp", a |-> cs.a, want |-> PtsNorm(Len(cs.a.shape), cs.a.sp)]
          [] OTHER -> [t |-> "skip"]
Export == (cs.t \in {"vec", "fac", "samp"}) =>
            Serialize(ToJson(Line) \o "\n", IOEnv.OUT_FILE, [format |-> "TXT", charset |-> "UTF-8",
                      openOptions |-> <<"WRITE", "CREATE", "APPEND">>]).exitValue = 0
=============================================================================

SPECIFICATION Spec
CONSTRAINT Export

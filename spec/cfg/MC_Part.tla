------------------------------- MODULE MC_Part -------------------------------
(* Model-checking / export wrapper for Config_Part (C14).                     *)
(*   PART_MODE = axis | nd | uniform ; PART_BIG = 0 | 1 (thorough catalogue)  *)
(* Every (partition, query) state is written as one JSON line for replay on   *)
(* real RectPartition / RectGrid / IntervalProd objects and constructors.     *)
EXTENDS Config_Part, Json, IOUtils

Big == IOEnv.PART_BIG = "1"
MC_Mode == IOEnv.PART_MODE

H(n, d) == Q(n, d)
LimsSmall == {<<H(0, 1), H(1, 1)>>, <<H(-1, 2), H(5, 4)>>, <<H(-2, 1), H(1, 2)>>}
LimsBig   == {<<a, QAdd(a, e)>> : a \in {H(-5, 4), H(0, 1), H(1, 2)}, e \in {H(3, 4), H(1, 1), H(5, 2)}}
Lims      == IF Big THEN LimsBig \cup LimsSmall ELSE LimsSmall

UCasesOf(L) == {c \in [a : {l[1] : l \in L}, b : {l[2] : l \in L}, n : 1..5, L : BOOLEAN, R : BOOLEAN] :
                  /\ <<c.a, c.b>> \in L /\ PlacementOK(c.a, c.b, c.n, c.L, c.R)}
UAxes(L) == {UniformAxis(c.a, c.b, c.n, c.L, c.R) : c \in UCasesOf(L)}

S(n) == H(n, 1)
N1 == Axis(H(-1, 2), S(4), <<S(0), S(1), S(3)>>)                  \* nodes centred (natural limits)
N2 == Axis(S(-2), S(3), <<S(0), S(1), S(3)>>)                     \* right node on the boundary, wide left cell
N3 == Axis(S(0), S(3), <<S(0), S(1), S(3)>>)                      \* both on the boundary
N4 == Axis(H(-3, 2), H(5, 2), <<S(-1), H(-1, 2), H(1, 4), S(2)>>)
N5 == Axis(S(-1), H(3, 4), <<S(-1), S(0)>>)
N6 == Axis(S(0), S(2), <<H(1, 8), H(1, 2), H(3, 4), S(1), S(2)>>)
N7 == Axis(S(1), S(1), <<S(1)>>)                                  \* degenerate one-node axis
N8 == Axis(S(0), S(3), <<S(1)>>)                                  \* one node, not centred
N9 == Axis(S(-1), S(1), <<S(0), H(1, 4)>>)
N10 == Axis(H(-1, 3), H(4, 3), <<S(0), H(1, 3), S(1)>>)           \* non-dyadic, non-uniform
NonUni == {N1, N2, N3, N4, N5, N6, N7, N8, N9, N10}

U(a, b, n, L, R) == UniformAxis(a, b, n, L, R)
Cat2 == {U(S(0), S(1), 3, FALSE, FALSE), U(H(-1, 2), H(5, 4), 2, TRUE, FALSE), U(S(0), S(1), 1, FALSE, FALSE),
         N7, N1, U(S(-2), S(1), 4, TRUE, TRUE)}
Cat3 == {U(S(0), S(1), 2, FALSE, FALSE), U(S(0), S(1), 1, FALSE, TRUE), N7, N1}
Cat2Big == Cat2 \cup {N4, N6, U(S(0), S(1), 5, FALSE, TRUE), N8}
Cat3Big == Cat3 \cup {U(S(-2), S(1), 4, TRUE, TRUE)}
Parts1 == {<<ax>> : ax \in UAxes(Lims) \cup NonUni}
Parts2 == LET C == IF Big THEN Cat2Big ELSE Cat2 IN {<<x, y>> : x \in C, y \in C}
Parts3 == LET C == IF Big THEN Cat3Big ELSE Cat3 IN {<<x, y, z>> : x \in C, y \in C, z \in C}

MC_Parts  == IF MC_Mode = "axis" THEN Parts1 ELSE IF MC_Mode = "nd" THEN Parts2 \cup Parts3 ELSE {}
PA == <<U(S(0), S(2), 2, FALSE, FALSE)>>
PB == <<N7>>
PAB == <<U(S(0), S(2), 2, FALSE, FALSE), N1>>
MC_Others == {<<PA>>, <<PAB>>, <<PA, PB>>}
MC_UCases == IF MC_Mode = "uniform" THEN UCasesOf(LimsBig \cup LimsSmall) ELSE {}

ExportLine ==
  Serialize(ToJson([part |-> part, q |-> q]) \o "\n", IOEnv.OUT_FILE,
            [format |-> "TXT", charset |-> "UTF-8",
             openOptions |-> <<"WRITE", "CREATE", "APPEND">>]).exitValue = 0
Export == ph = "query" => ExportLine
\* deliberately false: shows the invariant run is not vacuous (self-test)
BogusIndexLaw == (ph = "query" /\ q.kind = "index") => \A k \in 1..Len(part) : q.ans[k] = QI(0)
=============================================================================

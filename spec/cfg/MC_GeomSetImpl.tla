---------------------------- MODULE MC_GeomSetImpl ----------------------------
(* Bounded refinement check  C (GeomSetImpl: the code as written)  [=  A (GeomSetSem: the documentation).      *)
(* One state per case; the family of the case selects the invariant clause.                                    *)
(*   MC_GeomSetImpl.cfg      Fixed = the repair switches of all open findings  -> must hold everywhere            *)
(*   MC_GeomSetImpl_all.cfg  Fixed = the switches of the findings already repaired in the tree (IOEnv.GS_FIXED)   *)
(*                           -> TLC has to find a counter-example while a finding is open                         *)
EXTENDS GeomSetImpl, IOUtils

VARIABLE case
AllSwitches == {"contains_all-atol", "approx_equals-ndim", "is_subgrid-rtol", "is_subgrid-ndim", "is_subgrid-shortcut"}
MC_FixedAll == AllSwitches
\* GS_FIXED: the letters a (contains_all-atol) e (approx_equals-ndim) r (rtol) n (ndim) s (shortcut) of the repaired ones
Has(ch) == \E i \in 1..Len(IOEnv.GS_FIXED) : SubSeq(IOEnv.GS_FIXED, i, i) = ch
MC_FixedTree == (IF Has("a") THEN {"contains_all-atol"} ELSE {}) \cup (IF Has("e") THEN {"approx_equals-ndim"} ELSE {})
                \cup (IF Has("r") THEN {"is_subgrid-rtol"} ELSE {}) \cup (IF Has("n") THEN {"is_subgrid-ndim"} ELSE {})
                \cup (IF Has("s") THEN {"is_subgrid-shortcut"} ELSE {})

Z(n) == <<n, 1>>
Vals == {Z(-1), Z(0), Q(1, 2), Z(1), Z(2)}
Axes == {ax \in Vals \X Vals : QLe(ax[1], ax[2])}
TolsC == {QZero, Q(1, 2), Z(1)}
Boxes1 == {<<ax>> : ax \in Axes}
SomeAxes == {<<Z(-1), Z(2)>>, <<Z(0), Z(0)>>, <<Q(1, 2), Z(1)>>, <<Z(0), Z(2)>>}
Boxes2 == {<<x, y>> : x \in SomeAxes, y \in SomeAxes}
Boxes3 == {<<x, y, z>> : x \in {<<Z(0), Z(1)>>, <<Z(2), Z(2)>>}, y \in {<<Z(-1), Q(1, 2)>>, <<Z(2), Z(2)>>}, z \in {<<Z(0), Z(2)>>, <<Z(1), Z(1)>>}}
\* arithmetic: intervals of every sign class, touching zero, degenerate
AVals == {Z(-2), Z(-1), Q(-1, 2), Z(0), Q(1, 2), Z(1), Z(3)}
AAxes == {ax \in AVals \X AVals : QLe(ax[1], ax[2])}
\* grids: increasing vectors over a small lattice
GVals == <<Z(0), Q(1, 2), Z(1), Q(3, 2), Z(2), Z(3), Z(4)>>
Vec2 == {v \in {<<GVals[i], GVals[j]>> : i \in 1..7, j \in 1..7} : QLt(v[1], v[2])}
Vec3 == {v \in {<<GVals[i], GVals[j], GVals[k]>> : i \in 1..7, j \in 1..7, k \in 1..7} : QLt(v[1], v[2]) /\ QLt(v[2], v[3])}
Vec4 == {v \in {<<GVals[i], GVals[j], GVals[k], GVals[m]>> : i \in 1..6, j \in 2..7, k \in 3..7, m \in 4..7} :
            QLt(v[1], v[2]) /\ QLt(v[2], v[3]) /\ QLt(v[3], v[4])}
Vec1 == {<<GVals[i]>> : i \in 1..7}
Vecs == Vec1 \cup Vec2 \cup Vec3 \cup Vec4
MinSp(v) == IF Len(v) = 1 THEN Z(1000) ELSE QMinSeq([i \in 1..(Len(v) - 1) |-> QSub(v[i + 1], v[i])])
\* the partners that expose the open defects (the same as in the machine)
G5 == <<Z(0), Q(5, 4), Q(5, 2), Q(15, 4), Z(5)>>
U5 == <<Z(0), Z(1), Z(2), Z(3), Z(4), Z(5)>>
GR == <<Z(0), Q(131073, 256), Z(1024)>>
OR == <<Z(0), Z(512), Z(1000), Z(1024)>>
Thorough == IOEnv.GS_TIER = "thorough"
VecsT == IF Thorough THEN Vecs ELSE Vec1 \cup Vec2 \cup Vec3
Shapes == {<<3>>, <<3, 1>>, <<2, 3, 1>>}
GridOfShape(shp) == [a \in 1..Len(shp) |-> [i \in 1..shp[a] |-> Z(10 * a + i)]]
Items == {IInt(-4), IInt(-1), IInt(0), IInt(2), IInt(3), IFull, ISlice(1, NONE, NONE), ISlice(NONE, NONE, 2), ISlice(0, 0, NONE),
          ISlice(3, NONE, NONE), ISlice(2, 1, NONE), ISlice(NONE, -1, NONE), IEll, INone}
IdxSeqs(n) == UNION {[1..k -> Items] : k \in 1..n}
\* the cases are generated in chunks (one initial state per chunk, its cases are the successors) so that TLC's workers
\* share the work
ChunkSets == <<
  {[f |-> "is_subgrid", v |-> v] : v \in VecsT}, {[f |-> "is_subgrid-2d", v |-> v] : v \in Vec2 \cup Vec3},
  {[f |-> "is_subgrid-fixed", v |-> <<>>]},
  {[f |-> "contains_all", v |-> b] : b \in Boxes1}, {[f |-> "contains_all-2d", v |-> b] : b \in Boxes2},
  {[f |-> "contains_set", v |-> b] : b \in Boxes1}, {[f |-> "contains_set", v |-> b] : b \in Boxes2},
  {[f |-> "approx_equals", v |-> b] : b \in Boxes1}, {[f |-> "approx_equals", v |-> b] : b \in Boxes2},
  {[f |-> "approx_equals", v |-> b] : b \in Boxes3},
  {[f |-> "measure", v |-> <<>>], [f |-> "muls", v |-> <<>>], [f |-> "ugrid", v |-> <<>>]},
  {[f |-> "mul", v |-> x] : x \in AAxes},
  {[f |-> "getitem", v |-> <<shp, it>>] : shp \in {<<3>>}, it \in Items},
  {[f |-> "getitem", v |-> <<shp, it>>] : shp \in {<<3, 1>>}, it \in Items},
  {[f |-> "getitem", v |-> <<shp, it>>] : shp \in {<<2, 3, 1>>}, it \in Items} >>
CasesOf(ch) ==
  CASE ch.f = "is_subgrid" -> {[f |-> "is_subgrid", g |-> <<ch.v>>, h |-> <<w>>, t |-> t] : w \in VecsT, t \in {QZero, Q(1, 8)}}
    [] ch.f = "is_subgrid-2d" ->
         {[f |-> "is_subgrid", g |-> <<ch.v, <<Z(0), Z(1)>> >>, h |-> <<w, x>>, t |-> QZero] :
             w \in Vec3, x \in {<<Z(0), Z(1)>>, <<Z(0), Q(1, 2), Z(1), Z(4)>>, <<Z(1)>>}}
         \cup {[f |-> "is_subgrid", g |-> <<ch.v>>, h |-> <<ch.v, <<Z(0), Z(1)>> >>, t |-> QZero]}
    [] ch.f = "is_subgrid-fixed" ->
         {[f |-> "is_subgrid", g |-> <<G5>>, h |-> <<U5>>, t |-> t] : t \in {QZero, Q(1, 8), Q(1, 4)}}
         \cup {[f |-> "is_subgrid", g |-> <<GR>>, h |-> <<OR>>, t |-> t] : t \in {QZero, Q(1, 8)}}
    [] ch.f = "contains_all" ->
         {[f |-> "contains_all", b |-> ch.v, o |-> [sp |-> sp, vecs |-> <<v>>, pts |-> [i \in 1..Len(v) |-> <<v[i]>>]], t |-> t] :
             v \in Vec2 \cup Vec3, t \in TolsC, sp \in {"grid", "meshgrid", "array"}}
    [] ch.f = "contains_all-2d" ->
         {[f |-> "contains_all", b |-> ch.v, o |-> [sp |-> sp, vecs |-> <<v, w>>, pts |-> PointsOf(<<v, w>>, "C")], t |-> t] :
             v \in {<<Z(-1), Z(2)>>, <<Q(-3, 2), Z(0)>>}, w \in {<<Z(0)>>, <<Q(1, 2), Z(3)>>}, t \in TolsC, sp \in {"grid", "array"}}
    [] ch.f = "contains_set" ->
         {[f |-> "contains_set", b |-> ch.v, c |-> c, t |-> t] :
             c \in (IF Len(ch.v) = 1 THEN Boxes1 ELSE Boxes2 \cup Boxes1 \cup Boxes3), t \in TolsC}
    [] ch.f = "approx_equals" ->
         {[f |-> "approx_equals", b |-> ch.v, c |-> c, t |-> t] :
             c \in (IF Len(ch.v) = 1 THEN Boxes1 \cup Boxes2 ELSE Boxes1 \cup Boxes2 \cup Boxes3), t \in TolsC}
    [] ch.f = "measure" -> {[f |-> "measure", b |-> b, nd |-> nd] : b \in Boxes1 \cup Boxes2 \cup Boxes3, nd \in {NONE, 0, 1, 2, 3, 4}}
    [] ch.f = "mul" -> {[f |-> "mul", x |-> ch.v, y |-> y] : y \in AAxes}
    [] ch.f = "muls" -> {[f |-> "muls", x |-> x, s |-> s] : x \in AAxes, s \in AVals}
    [] ch.f = "ugrid" ->
         {[f |-> "ugrid", ax |-> ax, n |-> n, L |-> L, R |-> R] :
             ax \in {<<Z(0), Z(1)>>, <<Z(-1), Z(2)>>, <<Q(1, 2), Q(1, 2)>>, <<Z(0), Q(3, 4)>>}, n \in 1..6, L \in {0, 1}, R \in {0, 1}}
    [] ch.f = "getitem" ->
         {[f |-> "getitem", shp |-> ch.v[1], idx |-> <<ch.v[2]>> \o rest] : rest \in {<<>>} \cup IdxSeqs(IF Thorough THEN 3 ELSE 2)}

Init == \E k \in 1..Len(ChunkSets) : \E ch \in ChunkSets[k] : case = [f |-> "chunk", ch |-> ch]
Next == case.f = "chunk" /\ case' \in CasesOf(case.ch)
Spec == Init /\ [][Next]_case

SameRes(c, a) == c.k = a.k /\ (c.k = "err" \/ c.v = a.v)
Refines ==
  CASE case.f = "chunk" -> TRUE
    [] case.f = "contains_set" ->
         Len(case.c) >= 1 => ContainsSetImpl(case.b, case.c, case.t) = BContainsSet(case.b, case.c, case.t)
    [] case.f = "approx_equals" -> SameRes(ApproxEqualsImpl(case.b, case.c, case.t), RBool(BApproxEquals(case.b, case.c, case.t)))
    [] case.f = "measure" ->
         (TrueNdim(case.b) = 0 /\ case.nd \in {NONE, 0}) \/ MeasureImpl(case.b, case.nd) = Measure(case.b, case.nd)
    [] case.f = "mul" ->
         /\ MulImpl(<<case.x>>, <<case.y>>) = BMulB(<<case.x>>, <<case.y>>)
         /\ SubImpl(<<case.x>>, <<case.y>>) = BSubB(<<case.x>>, <<case.y>>)
         /\ AddImpl(<<case.x>>, <<case.y>>) = BAddB(<<case.x>>, <<case.y>>)
         /\ SameRes(DivImpl(<<case.x>>, <<case.y>>),
                    IF HasZero(case.y) THEN RErr ELSE Box(BMulB(<<case.x>>, BRecip(<<case.y>>))))
    [] case.f = "muls" ->
         /\ MulSImpl(<<case.x>>, case.s) = BMulS(<<case.x>>, case.s)
         /\ SameRes(RDivImpl(case.s, <<case.x>>), IF HasZero(case.x) THEN RErr ELSE Box(BMulS(BRecip(<<case.x>>), case.s)))
         /\ NegImpl(<<case.x>>) = BNeg(<<case.x>>)
    [] case.f = "ugrid" ->
         LET b == <<case.ax>>  shp == <<case.n>>  nb == << <<case.L, case.R>> >>
         IN  UGridSpecified(b, shp, nb) => SameRes(UGridImpl(b, shp, nb), UGrid(b, shp, nb))
    [] case.f = "getitem" ->
         LET g == GridOfShape(case.shp) IN SameRes(GetItemImpl(g, case.idx), GGetItem(g, case.idx))
    [] case.f = "is_subgrid" ->
         \* asked as in the machine: atol below half the spacing of the tested grid; a lower-dimensional other is not asked
         (Len(case.h) >= Len(case.g) /\ (QIsZero(case.t) \/ \A a \in 1..Len(case.g) : QLt(QMul(Z(2), case.t), MinSp(case.g[a]))))
           => SameRes(IsSubgridImpl(case.g, case.h, case.t), RBool(GIsSubgrid(case.g, case.h, case.t)))
    [] case.f = "contains_all" -> ContainsAllImpl(case.b, case.o, case.t) = ContainsAllRef(case.b, case.o, case.t)
=============================================================================

SPECIFICATION Spec
CONSTANTS
  Which = "pm"
  FixedNone <- MC_FixedNone
  FixedNoAdjoint <- MC_FixedNoAdjoint
  FixedFirstStop <- MC_FixedFirstStop
INVARIANT ImplDeviatesNowhere

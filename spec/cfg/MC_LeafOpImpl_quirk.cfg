SPECIFICATION Spec
INVARIANT Quirk

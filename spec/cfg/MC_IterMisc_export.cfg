SPECIFICATION Spec
CONSTANTS
  Cat <- MC_Cat
CONSTRAINT Export

SPECIFICATION Spec
CONSTANTS
  Roots <- MC_Roots
  MaxChain <- MC_MaxChain
  PoolR <- MC_PoolR
  PoolC <- MC_PoolC
CONSTRAINT Export

SPECIFICATION Spec
CONSTANTS
  W <- MC_W
  Roots <- MC_Roots
  MaxChain <- MC_MaxChain
  PtV <- MC_PtV
  PtS <- MC_PtS
  NDeriv <- MC_NDeriv
INVARIANT BogusUnweightedAdjoint

----------------------------- MODULE MC_SampleHist -----------------------------
(* Model-checking / export wrapper for SampleHist (C15 call histories).        *)
(*   HIST_SET = deco-core | deco-rest | other | view ; HIST_LEN = 2 | 3 ; HIST_DTS = all | few *)
EXTENDS SampleHist, Json, IOUtils

H(n, d) == Q(n, d)
S(n)    == <<n, 1>>
\* values 1 + k * 2^-26 need 27 significant bits: float64 holds them, float32 does not
Fine1 == [kind |-> "poly", theta |-> QZero,
          poly |-> <<Mono(CInt(1), <<0>>), Mono(CR(H(1, 1048576)), <<1>>)>>]
Fine2 == [kind |-> "poly", theta |-> QZero,
          poly |-> <<Mono(CInt(1), <<0, 0>>), Mono(CR(H(1, 1048576)), <<1, 0>>), Mono(CR(H(3, 1048576)), <<0, 1>>)>>]
Ident == [kind |-> "poly", theta |-> QZero, poly |-> <<Mono(CInt(1), <<1>>)>>]
IntFirst == [kind |-> "pw", theta |-> H(1, 2), poly |-> <<>>]
GridA == <<<<S(0), H(1, 64), H(5, 64), H(37, 64), S(1)>>>>
GridB == <<<<S(0), H(3, 64)>>, <<H(1, 64), H(7, 64), S(2)>>>>
GridC == <<<<H(1, 8), H(3, 8), H(5, 8), H(7, 8)>>>>
O(fn, cvs, conv, pi) == [fn |-> fn, cvs |-> cvs, conv |-> conv, pyint1 |-> pi]
DecoCore == {O(Fine1, GridA, c, FALSE) : c \in {"vectorize_bare", "vectorize_f64"}}
DecoRest == {O(Fine2, GridB, "vectorize_bare", FALSE), O(IntFirst, GridC, "vectorize_bare", TRUE),
             O(IntFirst, GridC, "vectorize_f64", TRUE)}
Others == {O(Fine1, GridA, c, FALSE) : c \in {"native", "dual", "inplace", "object"}}
          \cup {O(Fine2, GridB, "dual", FALSE), O(IntFirst, GridC, "native", FALSE)}
\* callables that return (a view of) their argument: the returned object must still be the caller's own
Views == {O(Ident, GridC, c, FALSE) : c \in {"native_view", "native_view_x", "native"}}
         \cup {O([kind |-> "poly", theta |-> QZero, poly |-> <<Mono(CInt(1), <<0, 1>>)>>], GridB, "native_view_last", FALSE)}
\* SINGLETON AXES: all axes but one (or all) hold a single point, so one returned coordinate already has the full shape
G4s == <<H(1, 8), H(3, 8), H(5, 8), H(7, 8)>>
One == <<H(1, 2)>>
S41 == <<G4s, One>>
S14 == <<One, G4s>>
S141 == <<One, G4s, One>>
S11 == <<One, One>>
S1 == <<One>>
Ek(d, k) == [j \in 1..d |-> IF j = k THEN 1 ELSE 0]
Coord(d, k) == [kind |-> "poly", theta |-> QZero, poly |-> <<Mono(CInt(1), Ek(d, k))>>]
CCoord(d, k) == [kind |-> "poly", theta |-> QZero, poly |-> <<Mono(<<S(1), S(1)>>, Ek(d, k))>>]
Const3(d) == [kind |-> "poly", theta |-> QZero, poly |-> <<Mono(CInt(3), [j \in 1..d |-> 0])>>]
SingleCore == {O(Coord(2, 1), S41, "native_view", FALSE), O(Coord(2, 2), S41, "native_view", FALSE),
               O(Coord(2, 2), S14, "native_view", FALSE), O(Coord(3, 2), S141, "native_view", FALSE),
               O(Coord(2, 1), S11, "native_view", FALSE), O(Coord(1, 1), S1, "native_view", FALSE),
               O(Coord(1, 1), S1, "native_view_x", FALSE), O(Coord(2, 1), S41, "vectorize_bare", FALSE),
               O(Coord(2, 2), S14, "inplace", FALSE), O(Const3(3), S141, "native", FALSE), O(CCoord(2, 1), S41, "native", FALSE)}
ShapesOf == {S41, S14, S141, S11, S1}
SingleAll == UNION {{O(Coord(Len(g), k), g, c, FALSE) : k \in 1..Len(g), c \in {"native_view", "vectorize_bare", "inplace"}}
                    \cup {O(Const3(Len(g)), g, c, FALSE) : c \in {"native", "vectorize_bare"}}
                    \cup {O(CCoord(Len(g), 1), g, "native", FALSE)} : g \in ShapesOf}
              \cup {O(Coord(1, 1), S1, "native_view_x", FALSE)}
MC_Objects == CASE IOEnv.HIST_SET = "single" -> SingleCore
                [] IOEnv.HIST_SET = "single-all" -> SingleAll
                [] IOEnv.HIST_SET = "deco-core" -> DecoCore
                [] IOEnv.HIST_SET = "deco-rest" -> DecoRest
                [] IOEnv.HIST_SET = "view" -> Views
                [] OTHER -> Others
MC_MaxLen  == IF IOEnv.HIST_LEN = "3" THEN 3 ELSE 2
MC_DTs     == IF IOEnv.HIST_DTS = "few" THEN {"f32", "f64", "c128"}
              ELSE IF IOEnv.HIST_DTS = "two" THEN {"f64", "c128"} ELSE {"int", "f32", "f64", "c64", "c128"}
MC_Hows    == {"imul", "setitem", "asarray", "ufunc_out"}
MC_Kinds   == {"inplace", "oop", "element"}

ExportLine ==
  Serialize(ToJson([obj |-> obj, hist |-> hist]) \o "\n", IOEnv.OUT_FILE,
            [format |-> "TXT", charset |-> "UTF-8",
             openOptions |-> <<"WRITE", "CREATE", "APPEND">>]).exitValue = 0
\* complete behaviours only (every prefix is replayed as part of its extensions)
Export == (Len(hist) = MC_MaxLen) => ExportLine
\* deliberately false (self-test): a wrapper that froze the value type of the first call
BogusFrozen == (Len(hist) >= 2 /\ hist[Len(hist)].kind # "mutate") =>
                  hist[Len(hist)].exp = [t \in 1..Len(hist[1].exp) |-> CastC(hist[1].dt, Vals[t])]
=============================================================================

----------------------------- MODULE MC_IterMisc -----------------------------
(***************************************************************************)
(* Bounded instance of IterMiscMachine: the catalogue of solver instances   *)
(* (2-d / 3-d, several starts, weighted inner products, adjoint factors,    *)
(* given / default sensitivities, one / two subsets, affine / polynomial    *)
(* operators, quadratic / L1 d.c. parts, two zero-sequence bases) and the   *)
(* export of every reached state with the expected iterates.                *)
(***************************************************************************)
EXTENDS IterMiscMachine, Json, IOUtils

Base == [kind |-> "", L |-> <<>>, M |-> <<>>, pw |-> 1, b |-> <<>>, w |-> <<>>, As |-> <<>>, gs |-> <<>>,
         sens |-> <<>>, ac |-> QOne, ts |-> <<>>, f |-> FZero, g |-> FZero, gam |-> QOne, x0 |-> <<>>, n |-> 0, om |-> <<>>, proj |-> "none",
         tag |-> "c"]     \* tag "a": layer C is not compared on this instance (its exact inner CG leaves 32 bits)
V(t) == RInt(t)
WInvS(w, S) == [a \in 1..Len(S) |-> [c \in 1..Len(S) |-> SDiv(S[a][c], w[a])]]
\* CG instance with operator W^-1 S (S symmetric integer) - self-adjoint in <.,.>_w
CG(S, w, b, x0, n) == [Base EXCEPT !.kind = "cg", !.L = IF \A q \in 1..Len(w) : w[q] = w[1] THEN MInt(S) ELSE WInvS(w, MInt(S)),
                                   !.w = w, !.b = V(b), !.x0 = V(x0), !.n = n]
GN(L, M, pw, ac, b, x0, ts, n) ==
  [Base EXCEPT !.kind = "gn", !.L = MInt(L), !.M = IF M = <<>> THEN <<>> ELSE MInt(M), !.pw = pw, !.ac = ac, !.b = V(b),
               !.x0 = V(x0), !.ts = ts, !.n = n]
OS(As, gs, sens, ac, x0, n) ==
  [Base EXCEPT !.kind = "os", !.As = [q \in 1..Len(As) |-> MInt(As[q])], !.gs = [q \in 1..Len(gs) |-> V(gs[q])],
               !.sens = sens, !.ac = ac, !.x0 = x0, !.n = n]
DC(kind, f, g, gam, x0, n) == [Base EXCEPT !.kind = kind, !.f = f, !.g = g, !.gam = gam, !.x0 = V(x0), !.n = n]
LW(L, b, om, proj, ac, x0, n) ==
  [Base EXCEPT !.kind = "lw", !.L = MInt(L), !.b = V(b), !.om = <<om>>, !.proj = proj, !.ac = ac, !.x0 = x0, !.n = n]
KZ(As, gs, om, ac, x0, n) ==
  [Base EXCEPT !.kind = "kz", !.As = [q \in 1..Len(As) |-> MInt(As[q])], !.gs = [q \in 1..Len(gs) |-> V(gs[q])],
               !.om = om, !.ac = ac, !.x0 = x0, !.n = n]
ZS(base, n) == [Base EXCEPT !.kind = "zseq", !.gam = base, !.n = n]

S2 == << <<2, 1>>, <<1, 3>> >>
S2b == << <<4, 1>>, <<1, 3>> >>
S3 == << <<2, 1, 0>>, <<1, 2, 1>>, <<0, 1, 2>> >>
S3c == << <<2, 1, 1>>, <<1, 2, 1>>, <<1, 1, 2>> >>
T2 == <<Q(1, 2), Q(1, 4), Q(1, 8)>>
T4 == <<Q(1, 4), Q(1, 16)>>
A32 == << <<1, 2>>, <<3, 1>>, <<1, 1>> >>
A22 == << <<1, 2>>, <<3, 1>> >>
A12 == << <<1, 1>> >>
A33 == << <<1, 0, 2>>, <<0, 1, 1>>, <<2, 1, 0>> >>

MC_Cat == <<
  CG(S2, ROne(2), <<1, 2>>, <<0, 0>>, 3),
  CG(S2, ROne(2), <<1, 0>>, <<1, -1>>, 3),
  CG(S2, ROne(2), <<3, 4>>, <<1, 1>>, 2),                              \* start solves the system
  CG(<< <<2, 0>>, <<0, 2>> >>, ROne(2), <<2, 4>>, <<0, 0>>, 3),         \* exact after one step
  CG(S2, RConst(Q(1, 2), 2), <<6, 4>>, <<2, 1>>, 3),                   \* constant weight (cell volume 1/2)
  CG(S2b, <<QI(1), QI(2)>>, <<10, 3>>, <<2, 1>>, 3),                   \* array weights: A = W^-1 S
  CG(<< <<3>> >>, ROne(1), <<6>>, <<1>>, 2),
  CG(S3, ROne(3), <<1, 0, 0>>, <<0, 0, 0>>, 4),
  CG(S3c, ROne(3), <<1, 2, 0>>, <<0, 0, 0>>, 4),                        \* two distinct eigenvalues: exact after 2 steps
  CG(S3c, <<QI(1), QI(2), QI(1)>>, <<3, 1, 3>>, <<1, 0, 1>>, 4),
  CG(S3, RConst(Q(1, 4), 3), <<2, 3, 1>>, <<0, 1, 0>>, 4),
  GN(<< <<1, 1>>, <<0, 1>> >>, <<>>, 1, QOne, <<1, 1>>, <<0, 0>>, <<QI(1), Q(1, 2)>>, 2),
  GN(<< <<1, 0>>, <<0, 1>> >>, <<>>, 2, QOne, <<2, 1>>, <<1, 1>>, <<QI(1), QI(1)>>, 2),
  GN(<< <<2>> >>, <<>>, 1, QOne, <<3>>, <<1>>, T2, 3),
  [GN(S2, <<>>, 1, QOne, <<1, 2>>, <<0, 0>>, T2, 3) EXCEPT !.tag = "a"],
  [GN(A32, <<>>, 1, QOne, <<1, 2, 2>>, <<1, 1>>, T2, 3) EXCEPT !.tag = "a"],
  [GN(S2b, <<>>, 1, Q(2, 1), <<1, 2>>, <<1, 0>>, T4, 2) EXCEPT !.tag = "a"],
  GN(S2, <<>>, 1, QOne, <<3, 4>>, <<1, 1>>, T2, 2),                     \* start solves the equation
  [GN(<< <<1, 0>>, <<0, 1>> >>, <<>>, 2, QOne, <<4, 9>>, <<1, 2>>, T2, 2) EXCEPT !.tag = "a"],
  [GN(<< <<1, 0>>, <<0, 1>> >>, << <<0, 1>>, <<1, 0>> >>, 2, QOne, <<3, 3>>, <<1, 1>>, T4, 1) EXCEPT !.tag = "a"],
  [GN(A33, <<>>, 1, QOne, <<3, 2, 3>>, <<0, 0, 0>>, T2, 2) EXCEPT !.tag = "a"],
  OS(<<A32>>, << <<3, 4, 2>> >>, <<>>, QOne, V(<<1, 1>>), 2),           \* data-consistent start
  OS(<<A32>>, << <<2, 4, 1>> >>, <<>>, QOne, V(<<1, 1>>), 2),
  OS(<<A32>>, << <<2, 4, 1>> >>, <<>>, Q(1, 2), V(<<1, 2>>), 2),
  OS(<<A22, A12>>, << <<2, 4>>, <<1>> >>, <<>>, QOne, V(<<1, 2>>), 2),
  OS(<<A12, A22>>, << <<3>>, <<5, 5>> >>, <<>>, QOne, V(<<2, 1>>), 2),
  OS(<<A32>>, << <<2, 4, 1>> >>, << V(<<2, 4>>) >>, QOne, V(<<1, 1>>), 2),
  OS(<<A32>>, << <<2, 4, 1>> >>, << V(<<5, 4>>) >>, QOne, V(<<1, 1>>), 2),   \* the default sensitivities, given
  OS(<<A32>>, << <<2, 4, 1>> >>, << V(<<2, 2>>) >>, Q(1, 2), <<Q(1, 2), QI(1)>>, 2),
  OS(<<A22, A12>>, << <<2, 4>>, <<1>> >>, << V(<<4, 2>>), V(<<4, 2>>) >>, QOne, V(<<1, 2>>), 1),
  OS(<<A33>>, << <<3, 2, 3>> >>, <<>>, QOne, V(<<1, 1, 1>>), 2),
  OS(<<A33>>, << <<2, 4, 1>> >>, <<>>, QOne, V(<<1, 2, 1>>), 2),
  DC("dca", FL2sq(QOne, V(<<1, 2>>)), FL2sq(Q(1, 2), <<>>), QOne, <<0, 0>>, 3),
  DC("dca", FL2sq(QOne, V(<<1, 2>>)), FL2sq(Q(1, 2), <<>>), QOne, <<4, -2>>, 3),
  DC("dca", FL2sq(QOne, V(<<1, 2>>)), FL2sq(Q(1, 2), <<>>), QOne, <<2, 4>>, 2),                 \* a critical point: stays
  DC("dca", FL2sq(Q(2, 1), <<>>), FL2sq(Q(1, 2), V(<<1, 1, -2>>)), QOne, <<2, 0, 1>>, 3),
  DC("dca", FL2sq(Q(1, 2), V(<<2, 4>>)), FL2sq(Q(1, 2), V(<<1, 1>>)), QOne, <<1, 1>>, 2),
  DC("pdca", FL1(QOne, <<>>), FL2sq(Q(1, 2), V(<<2, -1>>)), Q(1, 2), <<3, 3>>, 3),
  DC("pdca", FL1(Q(1, 2), V(<<1, 0>>)), FL2sq(Q(1, 4), <<>>), QOne, <<4, -4>>, 3),
  DC("pdca", FL2sq(QOne, V(<<1, 2>>)), FL2sq(Q(1, 4), <<>>), QOne, <<0, 0>>, 3),
  DC("pdca", FL1(Q(2, 1), <<>>), FL2sq(Q(1, 2), <<>>), Q(1, 4), <<1, -8, 0>>, 3),
  LW(S2, <<1, -2>>, Q(1, 4), "nonneg", QOne, V(<<1, 1>>), 3),
  LW(S2, <<1, -2>>, Q(1, 4), "none", QOne, V(<<1, 1>>), 3),
  LW(A32, <<3, 4, 2>>, Q(1, 8), "box01", QOne, V(<<2, -1>>), 3),
  LW(A32, <<3, 4, 2>>, Q(1, 8), "nonneg", QOne, V(<<1, 1>>), 2),                \* feasible solution: fixed
  LW(S2b, <<2, -3>>, Q(1, 8), "nonneg", Q(2, 1), V(<<0, 2>>), 3),
  LW(A33, <<1, -2, 2>>, Q(1, 8), "box01", Q(1, 2), <<Q(1, 2), QI(0), QI(1)>>, 3),
  KZ(<<A22, A12>>, << <<2, 4>>, <<1>> >>, <<Q(1, 8), Q(1, 2)>>, QOne, V(<<1, 2>>), 2),
  KZ(<<A22, A12>>, << <<2, 4>>, <<1>> >>, <<Q(1, 4), Q(1, 4)>>, QOne, V(<<0, 0>>), 2),
  KZ(<<A12, A22>>, << <<3>>, <<5, 5>> >>, <<Q(1, 2), Q(1, 8)>>, Q(1, 2), V(<<2, 1>>), 2),
  KZ(<<A32>>, << <<2, 4, 1>> >>, <<Q(1, 8)>>, QOne, V(<<1, 1>>), 2),
  KZ(<<A12, A12, A22>>, << <<1>>, <<2>>, <<0, 1>> >>, <<Q(1, 2), Q(1, 4), Q(1, 8)>>, QOne, V(<<1, -1>>), 2),
  ZS(Q(2, 1), 4),
  ZS(Q(4, 1), 3),
  ZS(Q(3, 1), 3)
>>

CatOK == \A q \in 1..Len(MC_Cat) : MC_Cat[q].kind # ""

(* -------------------------------- export -------------------------------- *)
Line ==
  [id |-> i, inst |-> Inst, k |-> K,
   xs |-> [j \in 1..Len(hist) |-> hist[j].x],
   done |-> [j \in 1..Len(hist) |-> hist[j].done],
   taken |-> IF Inst.kind = "cg" THEN CGTaken(Inst.L, Inst.w, Inst.b, Inst.x0, K) ELSE K,
   parts |-> IF Inst.kind = "os" THEN [j \in 1..K |-> OSPartials(Inst, hist[j].x, 1)]
             ELSE IF Inst.kind = "kz" THEN [j \in 1..K |-> KZPartials(Inst, hist[j].x, 1)] ELSE <<>>,
   sel |-> IF Inst.kind = "zseq" THEN Last.p ELSE <<>>,
   obj |-> IF Inst.kind \in {"dca", "pdca"} THEN [j \in 1..Len(hist) |-> DCObj(Inst.f, Inst.g, hist[j].x)] ELSE <<>>]
Export == Serialize(ToJson(Line) \o "\n", IOEnv.OUT_FILE,
                    [format |-> "TXT", charset |-> "UTF-8",
                     openOptions |-> <<"WRITE", "CREATE", "APPEND">>]).exitValue = 0
=============================================================================

SPECIFICATION Spec
CONSTANTS
  Shapes <- MC_Shapes
  OuterPairs <- MC_OuterPairs
  KindsSel <- MC_KindsSel
INVARIANT BogusKeepdims

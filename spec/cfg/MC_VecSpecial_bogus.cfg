SPECIFICATION Spec
INVARIANT Bogus
CHECK_DEADLOCK FALSE

SPECIFICATION Spec
CONSTANTS
  NObj <- MC_NObj
  VecSet <- MC_VecSet
  Scalars <- MC_Scalars
  IntOnly <- MC_IntOnly
  Powers <- MC_Powers
VIEW View
ACTION_CONSTRAINT Export
PROPERTY Frame
PROPERTY StaleOutputIndependent
PROPERTY ReturnsTarget
INVARIANT DerivedAgree

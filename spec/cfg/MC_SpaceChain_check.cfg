SPECIFICATION ChainSpec
CONSTANTS
  Starts <- MC_Starts
  MaxLen <- MC_MaxLen
INVARIANT ChainRefines
INVARIANT CachesConsistent

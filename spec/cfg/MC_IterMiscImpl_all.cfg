SPECIFICATION Spec
CONSTANTS
  Cat <- MC_Cat
INVARIANT CGOrth
INVARIANT CGExact
INVARIANT CGSelfAdjoint
INVARIANT CGIsTextbook
INVARIANT CGIterAgrees
INVARIANT CGTakenBound
INVARIANT ZSeqLaw
INVARIANT GNAffine
INVARIANT GNFixed
INVARIANT GNIterAgrees
INVARIANT GNSolves
INVARIANT OSPositive
INVARIANT OSDefinedAll
INVARIANT OSFixed
INVARIANT OSOneIsMLEM
INVARIANT OSOrder
INVARIANT OSSensDefault
INVARIANT OSCounts
INVARIANT OSSensScale
INVARIANT LWFeasible
INVARIANT LWFixed
INVARIANT LWIsSolverSem
INVARIANT KZOneIsLW
INVARIANT KZIsSolverSem
INVARIANT KZOrder
INVARIANT DCMonotone
INVARIANT DCAOptimal
INVARIANT PDCAOptimal
INVARIANT ImplRefines
INVARIANT DefaultCallsStartAfresh
INVARIANT SensElementIsElementwise

------------------------------- MODULE MC_Diag -------------------------------
(* Bounded instances of DiagMachine (EXT/diag).                                                                    *)
(*   IOEnv.DIAG_GROUP  op | sp | cmp (case machine), hist (history machines)                                        *)
(*   IOEnv.DIAG_TIER   quick | thorough                                                                            *)
(*   IOEnv.DIAG_FIXED  letters of the repair switches already applied in the tree under test: s scale-abs (- none)  *)
(*   IOEnv.OUT_FILE    export: one JSON line per case (with the expectation of layer A and of the code model) or    *)
(*                     per history state                                                                            *)
(* Configurations: MC_Diag_cases.cfg (laws + C refines A with all switches + export), MC_Diag_current.cfg (C with   *)
(* the tree's switches only: refuted by TLC while a finding is open), MC_Diag_hist.cfg (history machines),          *)
(* MC_Diag_bogus.cfg (non-vacuity: a wrong law must be refuted).                                                    *)
EXTENDS DiagMachine, Json, IOUtils

Group == IOEnv.DIAG_GROUP
Thorough == IOEnv.DIAG_TIER = "thorough"
Has(ch) == \E i \in 1..Len(IOEnv.DIAG_FIXED) : SubSeq(IOEnv.DIAG_FIXED, i, i) = ch
TreeFixed == IF Has("s") THEN {"scale-abs"} ELSE {}

(* ----------------------------- operators ------------------------------- *)
ExOp == << [n |-> "Zero", v |-> QV(<<0, 0>>)], [n |-> "E1", v |-> QV(<<1, 0>>)], [n |-> "E2", v |-> QV(<<0, 1>>)],
           [n |-> "P", v |-> QV(<<3, 4>>)] >>
Z2 == QM(<< <<0, 0>>, <<0, 0>> >>)
M1 == QM(<< <<1, 2>>, <<0, 1>> >>)
M2 == QM(<< <<2, 1>>, <<1, 3>> >>)
Id2 == QM(<< <<1, 0>>, <<0, 1>> >>)
EntryM(i, j, d) == << << IF i = 1 /\ j = 1 THEN d ELSE QZero, IF i = 1 /\ j = 2 THEN d ELSE QZero >>,
                      << IF i = 2 /\ j = 1 THEN d ELSE QZero, IF i = 2 /\ j = 2 THEN d ELSE QZero >> >>
MScal(c, M) == << VScal(c, M[1]), VScal(c, M[2]) >>
BaseOp(kind, M, flag) == [kind |-> kind, M |-> M, b |-> ZeroV(2), q |-> QZero, flag |-> flag, adj |-> Transp(M),
                          adjadj |-> "self", AA |-> M, adjdom |-> "ok", dJ |-> Z2, ex |-> ExOp]
Quad(M) == [BaseOp("quad", M, FALSE) EXCEPT !.q = QOne]
\* planted defect `def` of size d on the base operator
Plant(base, def, d) ==
  CASE def = "none"        -> base
    [] def = "adj-entry"   -> [base EXCEPT !.adj = MAdd(base.adj, EntryM(1, 2, d))]
    [] def = "adj-scaled"  -> [base EXCEPT !.adj = MScal(QAdd(QOne, d), base.adj)]
    [] def = "adjadj-fresh" -> [base EXCEPT !.adjadj = "mat"]
    [] def = "adjadj-entry" -> [base EXCEPT !.adjadj = "mat", !.AA = MAdd(base.M, EntryM(2, 1, d))]
    [] def = "affine"      -> [base EXCEPT !.kind = "aff", !.b = << d, QZero >>]
    [] def = "abs"         -> [base EXCEPT !.kind = "abs"]
    [] def = "adjdom-dom"  -> [base EXCEPT !.adjdom = "dom"]
    [] def = "adjdom-ran"  -> [base EXCEPT !.adjdom = "ran"]
    [] def = "adjdom-both" -> [base EXCEPT !.adjdom = "both"]
    [] def = "deriv-entry" -> [base EXCEPT !.dJ = EntryM(1, 2, d)]
    [] def = "flag-nonlinear" -> [base EXCEPT !.flag = FALSE]
\* sizes relative to the tolerance: far above (128 tol) / far below (tol / 8); the invariant OpFar checks the margins
BigOf(t) == QMul(QI(128), t)
SmallOf(t) == QMul(Q(1, 8), t)
Scalable == {"adj-entry", "adj-scaled", "adjadj-entry", "affine", "deriv-entry"}
Sees(def) == CASE def \in {"adj-entry", "adj-scaled", "adjadj-entry", "adjdom-dom", "adjdom-ran", "adjdom-both"} -> {"adjoint", "run_tests"}
               [] def \in {"affine", "abs", "flag-nonlinear"} -> {"linear"}
               [] def = "deriv-entry" -> {"derivative", "run_tests"}
               [] OTHER -> {}
OpCase(base, bname, def, size, meth, N, tol, vb) ==
  LET d == IF size = "big" THEN BigOf(tol) ELSE IF size = "small" THEN SmallOf(tol) ELSE QZero IN
  [fn |-> "optest", op |-> Plant(base, def, d), twin |-> base, base |-> bname, def |-> def, size |-> size, meth |-> meth,
   N |-> N, tol |-> tol, vb |-> vb, scalable |-> ((def \in Scalable /\ size = "big") \/ def = "none"),
   law |-> IF meth = "self_adjoint" THEN (IF bname = "M1" THEN "reports" ELSE "clean")
           ELSE IF def = "affine" /\ meth = "linear" THEN "reports"                 \* ||A(0)|| != 0 is an exact test
           ELSE IF def = "affine" /\ size = "big" /\ meth = "adjoint" THEN "reports"
           ELSE IF def = "none" /\ bname = "Q1" /\ meth = "linear" THEN "reports"    \* "Operator is not linear"
           ELSE IF def = "deriv-entry" /\ meth = "linear" THEN "reports"
           ELSE IF size \in {"none", "small"} \/ def = "adjadj-fresh" THEN "clean"
           ELSE IF meth \in Sees(def) THEN "reports" ELSE "free"]
LinBases == {<<"M1", BaseOp("lin", M1, TRUE)>>, <<"M2", BaseOp("lin", M2, TRUE)>>}
LinMeths == {"self_adjoint", "adjoint", "linear", "derivative"}
Tols == IF Thorough THEN {Q(1, 16), Q(1, 4)} ELSE {Q(1, 16)}
OpTols == IF Thorough THEN {Q(1, 16), Q(1, 64)} ELSE {Q(1, 16)}
Norms == IF Thorough THEN {QI(2), QI(3)} ELSE {QI(2)}
VBs == {TRUE, FALSE}
SizedDefs == {"adj-entry", "adj-scaled", "adjadj-entry"}
FlagDefs == {"adjadj-fresh", "adjdom-dom", "adjdom-ran", "adjdom-both", "flag-nonlinear"}
OpCases ==
  {OpCase(b[2], b[1], "none", "none", me, N, t, vb) : b \in LinBases, me \in LinMeths, N \in Norms, t \in OpTols, vb \in VBs}
  \cup {OpCase(b[2], b[1], def, sz, me, N, t, vb) : b \in LinBases, def \in SizedDefs, sz \in {"big", "small"},
                                                   me \in {"adjoint", "linear"}, N \in Norms, t \in OpTols, vb \in VBs}
  \cup {OpCase(b[2], b[1], def, "flag", me, N, t, vb) : b \in LinBases, def \in FlagDefs, me \in {"adjoint", "linear"},
                                                        N \in Norms, t \in OpTols, vb \in VBs}
  \cup {OpCase(b[2], b[1], "affine", sz, me, N, t, vb) : b \in LinBases, sz \in {"big"}, me \in {"linear", "adjoint"},
                                                         N \in Norms, t \in OpTols, vb \in VBs}
  \cup {OpCase(BaseOp("lin", Id2, TRUE), "Id", def, "flag", me, N, t, vb) : def \in {"abs", "none"}, me \in {"linear", "adjoint", "self_adjoint"},
                                                                         N \in {QOne}, t \in OpTols, vb \in VBs}
  \cup {OpCase(Quad(M1), "Q1", def, sz, me, N, t, vb) : def \in {"deriv-entry"}, sz \in {"big", "small"}, me \in {"derivative", "linear"},
                                                        N \in {QI(2)}, t \in OpTols, vb \in VBs}
  \cup {OpCase(Quad(M1), "Q1", "none", "none", me, QI(2), t, vb) : me \in {"derivative", "linear"}, t \in OpTols, vb \in VBs}

(* ------------------------------ toy spaces ------------------------------ *)
ExSp == << [n |-> "Zero", v |-> QV(<<0, 0>>)], [n |-> "A", v |-> QV(<<3, 0>>)], [n |-> "B", v |-> QV(<<0, 4>>)] >>
SpOf(d, s, hi) == [d |-> d, s |-> s, ex |-> ExSp, hasinner |-> hi]
SpMethOf(d) == CASE d \in {"lincomb-alias-xx", "lincomb-alias-x", "add-noncomm"} -> {"linearity"}
                 [] d \in {"inner-asym", "zero-inner"} -> {"inner"}
                 [] d \in {"norm-triangle", "norm-homog"} -> {"norm"}
                 [] d = "dist-asym" -> {"dist"}
                 [] d = "mult-noncomm" -> {"multiply"}
SpBig(d) == IF d \in {"inner-asym", "zero-inner"} THEN QI(16) ELSE QI(256)
SpSmall(d) == IF d \in {"inner-asym"} THEN Q(1, 4096) ELSE Q(1, 256)
SpDefs == {"lincomb-alias-xx", "lincomb-alias-x", "add-noncomm", "inner-asym", "zero-inner", "norm-triangle", "norm-homog",
           "dist-asym", "mult-noncomm"}
SpCase(d, size, hi, meth, tol, vb) ==
  [fn |-> "sptest", sp |-> SpOf(d, IF size = "big" THEN SpBig(d) ELSE IF size = "small" THEN SpSmall(d) ELSE QZero, hi),
   size |-> size, meth |-> meth, tol |-> tol, vb |-> vb,
   \* <0,0> != 0 is an exact test: reported at every size
   law |-> IF size = "big" \/ (size = "small" /\ d = "zero-inner") THEN "reports" ELSE "clean"]
SpCases ==
  {SpCase("none", "none", hi, me, t, vb) : hi \in BOOLEAN, me \in {"linearity", "inner", "norm", "dist", "multiply"}, t \in Tols, vb \in VBs}
  \cup UNION {{SpCase(d, sz, TRUE, me, t, vb) : sz \in {"big", "small"}, me \in SpMethOf(d), t \in Tols, vb \in VBs} : d \in SpDefs}

(* ------------------------------ nested values --------------------------- *)
L0 == VNum(0, 99)
L1 == VNum(1, 99)
L7 == VNum(1, 7)
L4 == VNum(1, 4)
L2 == VNum(1, 2)
Leaves64 == {L0, L1, L7, L4, L2}
Leaves32 == {L0, L1, L4, L2}
Leaves16 == {L0, L1, L2}
PyLists == {VList(<<>>)} \cup {VList(<<a>>) : a \in Leaves64} \cup {VList(<<a, b>>) : a \in {L1, L7, L2}, b \in {L0, L1, L4}}
           \cup {VList(<<VNone>>), VList(<<VNone, L1>>), VList(<<L1, VNone>>)}
Arrays == {VArr("f64", <<a>>) : a \in Leaves64} \cup {VArr("f64", <<a, b>>) : a \in {L1, L7, L2}, b \in {L0, L1, L4}}
          \cup {VArr("f32", <<a>>) : a \in Leaves32} \cup {VArr("f32", <<a, b>>) : a \in {L1, L4}, b \in {L1, L2}}
          \cup {VArr("f16", <<a>>) : a \in Leaves16} \cup {VArr("f16", <<a, b>>) : a \in {L1, L2}, b \in {L1}}
          \cup {VArr("f64", <<L1, L1, L1>>), VArr("f32", <<L1, L4, L1>>)}
Nested == {VList(<<VList(<<L1>>), VArr("f32", <<L1, L4>>)>>), VList(<<VList(<<L1>>), VArr("f32", <<L1, L1>>)>>),
           VList(<<VList(<<L7>>), VArr("f64", <<L1, L4>>)>>), VList(<<VArr("f64", <<L1>>), VNone>>),
           VList(<<VList(<<L1>>), VList(<<L1, L4>>)>>), VList(<<VArr("f16", <<L2>>), VArr("f32", <<L4>>)>>),
           VList(<<VArr("f16", <<L1>>), VArr("f32", <<L1>>)>>)}
Universe == Leaves64 \cup {VNone} \cup PyLists \cup Arrays \cup Nested
NDs == IF Thorough THEN {NoneD, 1, 3, 6} ELSE {NoneD, 3, 6}
CmpCases == {[fn |-> "cmp", f |-> "eq", x |-> x, y |-> y, nd |-> NoneD] : x \in Universe, y \in Universe}
            \cup {[fn |-> "cmp", f |-> "almost", x |-> x, y |-> y, nd |-> nd] : x \in Universe, y \in Universe, nd \in NDs}

MC_Cases == CASE Group = "op" -> OpCases [] Group = "sp" -> SpCases [] Group = "cmp" -> CmpCases [] OTHER -> {}
MC_Machines == IF Group # "hist" THEN {}
               ELSE {[name |-> "fc", haserr |-> TRUE], [name |-> "fc", haserr |-> FALSE]}
                    \cup {[name |-> "pb", njobs |-> nj] : nj \in {<<3>>, <<2, 2>>} \cup (IF Thorough THEN {<<2, 3>>, <<7>>} ELSE {})}
MC_MaxLenOf(mm) == IF mm.name = "fc" THEN 6 ELSE (IF Thorough THEN 5 ELSE 4)

Write(rec) == Serialize(ToJson(rec) \o "\n", IOEnv.OUT_FILE,
                        [format |-> "TXT", charset |-> "UTF-8", openOptions |-> <<"WRITE", "CREATE", "APPEND">>]).exitValue = 0
ExportCase ==
  CASE case.fn = "optest" ->
         Write(case @@
               [exp |-> Expected(case.op, case.meth, case.N, case.tol, case.vb),
                cexp |-> ImplExpected(case.op, case.meth, case.N, case.tol, case.vb, TreeFixed),
                \* run_tests re-estimates the norm: the expectation must hold for every estimate in [N/2, 2N]
                robust |-> (Expected(case.op, "run_tests", QMul(case.N, Q(1, 2)), case.tol, case.vb)
                            = Expected(case.op, "run_tests", QMul(case.N, QI(2)), case.tol, case.vb))])
    [] case.fn = "sptest" -> Write(case @@ [exp |-> SpExpected(case.sp, case.meth, case.tol, case.vb)])
    [] case.fn = "cmp" ->
         Write(case @@ [exp |-> IF case.f = "eq" THEN AllEqual(case.x, case.y) ELSE AllAlmostEqual(case.x, case.y, case.nd),
                        cexp |-> IF case.f = "eq" THEN ImplEqual(case.x, "py", case.y, "py")
                                 ELSE ImplAlmost(case.x, "py", case.y, "py", case.nd)])
    [] OTHER -> TRUE
ExportHist == m = CaseMode \/ Write([m |-> m, hist |-> hist, st |-> st])
RefinesFixed == OpRefinesFixed
RefinesCurrent == OpRefinesCurrent(TreeFixed)
\* non-vacuity: "a flagged-linear operator always passes the homogeneity test" must be refuted
Bogus == case.fn = "optest" => \A i \in 1..Len(Expected(case.op, case.meth, case.N, case.tol, case.vb)) :
                                   Expected(case.op, case.meth, case.N, case.tol, case.vb)[i][2] # "scale"
         \/ Expected(case.op, case.meth, case.N, case.tol, case.vb)[i][1] # "F"
BogusHist == m = CaseMode \/ m.name # "pb" \/ \A i \in 1..Len(st.writes) : st.writes[i] # PbNone
=============================================================================

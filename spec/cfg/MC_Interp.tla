------------------------------ MODULE MC_Interp ------------------------------
(* Model-checking / export wrapper for Config_Interp (C15).                   *)
(*   INTERP_MODE = sample | interp1 | interp2 | interp3 | resample | deform   *)
(*   INTERP_BIG  = 0 | 1                                                      *)
EXTENDS Config_Interp, Json, IOUtils

Big    == IOEnv.INTERP_BIG = "1"
MMode  == IOEnv.INTERP_MODE
MC_Mode == IF MMode \in {"interp1", "interp2", "interp3"} THEN "interp" ELSE MMode

H(n, d) == Q(n, d)
S(n)    == <<n, 1>>
G2a == <<S(0), S(1)>>
G2b == <<H(-1, 2), H(1, 4)>>
G3u == <<S(0), H(1, 2), S(1)>>
G3n == <<S(0), S(1), S(3)>>
G3c == <<H(1, 4), H(3, 4), H(5, 4)>>
G4u == <<S(-1), S(0), S(1), S(2)>>
G4n == <<S(-1), H(-1, 2), H(1, 4), S(2)>>
G4d == <<S(0), H(1, 4), S(1), H(3, 2)>>
Grids1 == {G2a, G2b, G3u, G3n, G3c, G4u, G4n, G4d}

(* ---- function catalogue (integer / Gaussian-integer coefficients) ---- *)
Z0(d)      == [j \in 1..d |-> 0]
E(d, k, p) == [j \in 1..d |-> IF j = k THEN p ELSE 0]
R(n)       == CInt(n)
PConst(d)  == <<Mono(R(3), Z0(d))>>
PCConst(d) == <<Mono(<<S(1), S(-2)>>, Z0(d))>>
PAffine(d) == <<Mono(R(1), Z0(d)), Mono(R(2), E(d, 1, 1))>>
              \o (IF d >= 2 THEN <<Mono(R(-3), E(d, 2, 1))>> ELSE <<>>)
              \o (IF d >= 3 THEN <<Mono(R(1), E(d, 3, 1))>> ELSE <<>>)
PX0(d)     == <<Mono(R(2), E(d, 1, 1)), Mono(R(-1), Z0(d))>>
PLast(d)   == <<Mono(R(1), E(d, d, 2))>>
PQuad(d)   == IF d = 1 THEN <<Mono(R(1), E(1, 1, 2)), Mono(R(-1), E(1, 1, 1))>>
              ELSE <<Mono(R(1), [j \in 1..d |-> IF j <= 2 THEN 1 ELSE 0]), Mono(R(1), E(d, 1, 2)), Mono(R(-1), E(d, d, 1))>>
PCplx(d)   == <<Mono(COne, E(d, 1, 1)), Mono(COne, Z0(d)), Mono(<<S(0), S(2)>>, E(d, 1, 1)), Mono(<<S(0), S(-1)>>, E(d, d, 1))>>
PNeg(d)    == <<Mono(R(-1), E(d, 1, 1))>>
Polys(d)   == {[pname |-> "const", poly |-> PConst(d)], [pname |-> "cconst", poly |-> PCConst(d)],
               [pname |-> "affine", poly |-> PAffine(d)], [pname |-> "x0only", poly |-> PX0(d)],
               [pname |-> "lastonly", poly |-> PLast(d)], [pname |-> "quad", poly |-> PQuad(d)],
               [pname |-> "cplx", poly |-> PCplx(d)]}
              \cup (IF d = 1 THEN {[pname |-> "neg", poly |-> PNeg(1)]} ELSE {})

G1 == <<H(1, 2)>>                     \* one-node axis (sampling only)
GridsND == {<<g>> : g \in Grids1} \cup {<<G1>>, <<G3n, G1>>, <<G1, G2b>>, <<G2a, G1, G3n>>}
           \cup {<<g, h>> : g \in {G3n, G2b, G3c}, h \in {G3n, G2b, G3c}}
           \cup {<<g, h, i>> : g \in {G2a, G3n}, h \in {G2a, G3n}, i \in {G2a, G3n}}
SampleCfgs == {[cvs |-> g, poly |-> p.poly, pname |-> p.pname] : g \in GridsND, p \in Polys(3)}
SampleCfgsOK == {c \in SampleCfgs : \A m \in 1..Len(c.poly) : Len(c.poly[m].e) = Len(c.cvs)}
SampleAll == UNION {{[cvs |-> g, poly |-> p.poly, pname |-> p.pname] : p \in Polys(Len(g))} : g \in GridsND}

(* ---- data for interpolation ---- *)
DataNames == IF Big THEN {"affine", "quad", "idx", "cidx"} ELSE {"affine", "idx", "cidx"}
DataOf(name, cvs) ==
  CASE name = "affine" -> Sample(PAffine(Len(cvs)), cvs)
    [] name = "quad"   -> Sample(PQuad(Len(cvs)), cvs)
    [] name = "idx"    -> [t \in 1..GSize(cvs) |-> R(t * t + 1)]
    [] name = "cidx"   -> [t \in 1..GSize(cvs) |-> <<S(t), S(1 - t * t)>>]
    [] name = "delta"  -> [t \in 1..GSize(cvs) |-> IF t = 2 THEN R(1) ELSE R(0)]           \* node delta
PolyOf(name, d) == IF name = "affine" THEN PAffine(d) ELSE <<>>

RECURSIVE SortQ(_)
SortQ(X) == IF X = {} THEN <<>>
            ELSE LET m == CHOOSE x \in X : \A y \in X : QLe(x, y) IN <<m>> \o SortQ(X \ {m})
Mids(cv) == {QHalf(QAdd(cv[i], cv[i + 1])) : i \in 1..(Len(cv) - 1)}
Nodes(cv) == {cv[i] : i \in 1..Len(cv)}
\* 1-d: quarter lattice from min-1 to max+1, the interval midpoints (ties) and the nodes
Pts1(cv) == SortQ({QAdd(QSub(First(cv), QOne), H(k, 4)) :
                     k \in 0..QFloor(QMul(S(4), QAdd(QSub(Last(cv), First(cv)), S(2))))}
                  \cup Mids(cv) \cup Nodes(cv))
PtsFew(cv) == SortQ({QSub(First(cv), QHalf(FirstStep(cv))), First(cv),
                     QHalf(QAdd(cv[1], cv[2])), QAdd(First(cv), QMul(H(1, 4), FirstStep(cv))), Last(cv),
                     QAdd(Last(cv), QMul(H(1, 4), LastStep(cv))), QAdd(QAdd(Last(cv), LastStep(cv)), H(1, 4))}
                    \cup (IF Big THEN {QSub(First(cv), FirstStep(cv)), cv[2]} ELSE {}))
PtsTiny(cv) == SortQ({QSub(First(cv), QMul(H(1, 4), FirstStep(cv))), First(cv), QHalf(QAdd(cv[1], cv[2])),
                      QAdd(Last(cv), QHalf(LastStep(cv)))}
                     \cup (IF Big THEN {QAdd(First(cv), QMul(H(3, 4), FirstStep(cv)))} ELSE {}))
Schemes(d) == IF d = 1 THEN {<<"nearest">>, <<"linear">>}
              ELSE IF d = 2 THEN {<<a, b>> : a \in {"nearest", "linear"}, b \in {"nearest", "linear"}}
              ELSE {<<a, b, c>> : a \in {"nearest", "linear"}, b \in {"nearest", "linear"}, c \in {"nearest", "linear"}}
ICfg(cvs, name, sch, pts) == [cvs |-> cvs, f |-> DataOf(name, cvs), fname |-> name, poly |-> PolyOf(name, Len(cvs)),
                              schemes |-> sch, pts |-> pts]
Interp1 == {ICfg(<<g>>, nm, s, <<Pts1(g)>>) : g \in Grids1, nm \in DataNames \cup {"quad"}, s \in Schemes(1)}
G2set == {G3n, G2b, G4d}
Interp2 == {ICfg(<<g, h>>, nm, s, <<PtsFew(g), PtsFew(h)>>) : g \in G2set, h \in G2set, nm \in DataNames, s \in Schemes(2)}
G3set == {G2a, G3n}
Interp3 == {ICfg(<<g, h, i>>, nm, s, <<PtsTiny(g), PtsTiny(h), PtsTiny(i)>>) :
              g \in G3set, h \in G3set, i \in G3set, nm \in (IF Big THEN {"affine", "idx", "cidx"} ELSE {"idx"}), s \in Schemes(3)}

(* ---- uniform discretisations of [0, 1] for Resampling / linear_deform ---- *)
\* a discretisation of [0, b]: n nodes, per-side nodes_on_bdry (L, R), or explicit non-uniform nodes nu
SpG(b, n, lf, rt, nu) == [b |-> b, n |-> n, L |-> lf, R |-> rt, nu |-> nu]
Sp(n, nob) == SpG(S(1), n, nob, nob, <<>>)
UNodesG(sp) ==
  IF sp.nu # <<>> THEN sp.nu
  ELSE LET n  == sp.n
           g0 == IF sp.L THEN S(0) ELSE IF sp.R THEN QDiv(sp.b, S(2 * n - 1)) ELSE QDiv(sp.b, S(2 * n))
           g1 == IF sp.R THEN sp.b ELSE IF sp.L THEN QSub(sp.b, QDiv(sp.b, S(2 * n - 1))) ELSE QSub(sp.b, QDiv(sp.b, S(2 * n)))
       IN  [i \in 1..n |-> QAdd(g0, QMul(H(i - 1, n - 1), QSub(g1, g0)))]
Spaces1 == {Sp(2, FALSE), Sp(4, FALSE), Sp(8, FALSE), Sp(3, TRUE), Sp(5, TRUE)}
CvsOf(sp) == [k \in 1..Len(sp) |-> UNodesG(sp[k])]
RCfg(src, tgt, name, sch) == [src |-> src, tgt |-> tgt, cvs |-> CvsOf(src), tcvs |-> CvsOf(tgt),
                              f |-> DataOf(name, CvsOf(src)), fname |-> name, schemes |-> sch]
\* EQUAL shapes, different node placement (domain [0, 3/2]: every placement below is dyadic)
B32 == H(3, 2)
EqA == {SpG(B32, 2, l, r, <<>>) : l \in BOOLEAN, r \in BOOLEAN}
EqB == {SpG(B32, 3, TRUE, TRUE, <<>>), SpG(B32, 3, FALSE, FALSE, <<>>),
        SpG(B32, 3, FALSE, FALSE, <<H(1, 4), H(1, 2), H(5, 4)>>), SpG(B32, 3, TRUE, TRUE, <<S(0), S(1), H(3, 2)>>)}
EqA2 == {SpG(B32, 2, TRUE, FALSE, <<>>), SpG(B32, 2, FALSE, TRUE, <<>>)}
EqB2 == {SpG(B32, 3, TRUE, TRUE, <<>>), SpG(B32, 3, FALSE, FALSE, <<H(1, 4), H(1, 2), H(5, 4)>>)}
ResamplesEq == {RCfg(<<a>>, <<b>>, nm, s) : a \in EqA, b \in EqA, nm \in {"idx", "cidx"}, s \in Schemes(1)}
               \cup {RCfg(<<a>>, <<b>>, nm, s) : a \in EqB, b \in EqB, nm \in {"idx", "cidx"}, s \in Schemes(1)}
               \cup {RCfg(<<a1, a2>>, <<b1, b2>>, "idx", s) : a1 \in EqA2, b1 \in EqA2, a2 \in EqB2, b2 \in EqB2, s \in Schemes(2)}
Spaces2 == {<<Sp(2, FALSE), Sp(3, TRUE)>>, <<Sp(4, FALSE), Sp(5, TRUE)>>, <<Sp(3, TRUE), Sp(4, FALSE)>>}
Resamples == {RCfg(<<a>>, <<b>>, nm, s) : a \in Spaces1, b \in Spaces1, nm \in {"idx", "affine", "cidx"}, s \in Schemes(1)}
             \cup {RCfg(a, b, nm, s) : a \in Spaces2, b \in Spaces2, nm \in {"idx", "cidx"}, s \in Schemes(2)}
             \cup ResamplesEq

StepOf(sp) == IF sp.L THEN H(1, sp.n - 1) ELSE H(1, sp.n)      \* (unit interval, L = R)
\* displacement patterns (per axis k, flat C-order node index t); h = grid step of the axis
\*   zero | half (+h/2: every point on a tie) | minus / plus (exactly one cell: nearest must give the neighbouring node value) |
\*   alt, quarter (piecewise constant) | smooth (varies from node to node, stays inside the hull + zero-extension zone)
DispNames == {"zero", "half", "alt", "minus", "plus", "quarter", "smooth"}
DispAxis(name, sp, k, t) ==
  LET h == StepOf(sp)
  IN  CASE name = "zero"    -> QZero
        [] name = "half"    -> QHalf(h)
        [] name = "alt"     -> IF (t + k) % 2 = 0 THEN QMul(H(1, 4), h) ELSE QMul(H(-1, 2), h)
        [] name = "minus"   -> QNeg(h)
        [] name = "plus"    -> h
        [] name = "quarter" -> IF k = 1 THEN QMul(H(-1, 4), h) ELSE QMul(H(3, 4), h)
        [] name = "smooth"  -> QMul(H(((t * (k + 1)) % 5) - 2, 4), h)
DCfg(src, name, sch, dn) ==
  LET cvs == CvsOf(src)
  IN  [src |-> src, cvs |-> cvs, f |-> DataOf(name, cvs), fname |-> name, poly |-> PolyOf(name, Len(cvs)), schemes |-> sch, dname |-> dn,
       disp |-> [k \in 1..Len(src) |-> [t \in 1..GSize(cvs) |-> DispAxis(dn, src[k], k, t)]]]
\* non-cubic 3-d shapes: C and F order of the displacement components differ
Spaces3 == {<<Sp(2, FALSE), Sp(3, TRUE), Sp(2, FALSE)>>, <<Sp(3, TRUE), Sp(2, FALSE), Sp(4, FALSE)>>}
Schemes3D == IF Big THEN Schemes(3)
             ELSE {<<"nearest", "nearest", "nearest">>, <<"linear", "linear", "linear">>,
                   <<"nearest", "linear", "nearest">>, <<"linear", "nearest", "linear">>}
Deforms == {DCfg(<<a>>, nm, s, dn) : a \in Spaces1, nm \in {"idx", "affine", "delta"}, s \in Schemes(1), dn \in DispNames}
           \cup {DCfg(a, nm, s, dn) : a \in Spaces2, nm \in {"idx", "cidx", "affine"}, s \in Schemes(2), dn \in DispNames}
           \cup {DCfg(a, nm, s, dn) : a \in Spaces3, nm \in {"idx", "affine"}, s \in Schemes3D, dn \in DispNames}

MC_Cfgs == CASE MMode = "sample"   -> SampleAll
             [] MMode = "interp1"  -> Interp1
             [] MMode = "interp2"  -> Interp2
             [] MMode = "interp3"  -> Interp3
             [] MMode = "resample" -> Resamples
             [] MMode = "deform"   -> Deforms

ExportLine ==
  Serialize(ToJson([cfg |-> cfg, q |-> q]) \o "\n", IOEnv.OUT_FILE,
            [format |-> "TXT", charset |-> "UTF-8",
             openOptions |-> <<"WRITE", "CREATE", "APPEND">>]).exitValue = 0
Export == ph = "query" => ExportLine
\* deliberately false (self-test): nearest would prefer the LEFT neighbour on ties
BogusTie == (ph = "query" /\ q.kind = "interp") =>
              \A k \in 1..Len(cfg.cvs) : \A i \in 1..(q.nidx[k]) :
                 QLt(QAbs(QSub(q.x[k], cfg.cvs[k][q.nidx[k] + 1])), QAbs(QSub(q.x[k], cfg.cvs[k][i])))
=============================================================================

SPECIFICATION Spec
CONSTANTS
  Which = "uf"
  FixedNone <- MC_FixedNone
  FixedNoAdjoint <- MC_FixedNoAdjoint
  FixedFirstStop <- MC_FixedFirstStop
INVARIANT UfRefines
CONSTRAINT ImplExport

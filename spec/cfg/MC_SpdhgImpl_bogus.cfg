SPECIFICATION Spec
CONSTANTS
  Calls <- MC_Calls
  SelLists <- MC_SelLists
  NIter <- MC_NIter
INVARIANT BogusNeverDescending

SPECIFICATION Spec
INVARIANT NeverFlip

----------------------------- MODULE MC_Callback -----------------------------
EXTENDS CallbackMachine, Json, IOUtils
Lf(k, s) == [k |-> k, step |-> s, l |-> <<>>, r |-> <<>>]
And(a, b) == [k |-> "and", step |-> 0, l |-> a, r |-> b]
Comp(a) == [k |-> "compose", step |-> 0, l |-> a, r |-> <<>>]
Kinds == {"store", "apply", "printiter"}
Steps == {1, 2, 3}
L1 == { Lf(k, s) : k \in Kinds, s \in Steps }
MC_Shapes == L1 \cup { And(a, b) : a \in {Lf("store", 1), Lf("apply", 2)}, b \in L1 }
                \cup { Comp(a) : a \in {Lf("store", 1), Lf("store", 2), Lf("apply", 3)} }
                \cup { And(Comp(Lf("store", 2)), And(Lf("printiter", 2), Lf("store", 3))),
                       Comp(And(Lf("store", 1), Comp(Lf("apply", 2)))) }
MC_Values == {3, 5}
MC_MaxLen == IF IOEnv.CB_LEN = "6" THEN 6 ELSE 5
\* export every reached state (history + expected logs and counters)
Export == Serialize(ToJson([shape |-> shape, hist |-> hist, log |-> log, it |-> it]) \o "\n", IOEnv.OUT_FILE,
                    [format |-> "TXT", charset |-> "UTF-8",
                     openOptions |-> <<"WRITE", "CREATE", "APPEND">>]).exitValue = 0
=============================================================================

SPECIFICATION Spec
INVARIANT Laws
CONSTRAINT Export

------------------------------ MODULE MC_PartHist ------------------------------
(* Model-checking / export wrapper for PartHist (C14 histories).   PH_BIG = 0 | 1 *)
EXTENDS PartHist, Json, IOUtils
H(n, d) == Q(n, d)
S(n) == <<n, 1>>
Lim(mn, mx) == [min |-> mn, max |-> mx]
\* uniform axis + one-node axis (whose cell side is the extent given by the limits): the shared-stride scenario
ScA == [nodes |-> <<<<S(0), S(1), S(2)>>, <<S(1)>>>>,
        lims |-> <<Lim(<<H(-1, 2), S(0)>>, <<H(5, 2), S(3)>>), Lim(<<S(-1), H(1, 2)>>, <<S(3), S(2)>>)>>]
\* non-uniform 1-d grid, natural and widened limits
ScB == [nodes |-> <<<<S(0), S(1), S(3)>>>>,
        lims |-> <<Lim(<<H(-1, 2)>>, <<S(4)>>), Lim(<<S(-2)>>, <<S(3)>>)>>]
\* two one-node axes and a two-node axis
ScC == [nodes |-> <<<<H(1, 2)>>, <<S(0), H(1, 4)>>, <<S(2)>>>>,
        lims |-> <<Lim(<<S(0), H(-1, 8), S(1)>>, <<S(1), H(3, 8), S(3)>>), Lim(<<H(1, 4), S(-1), S(2)>>, <<S(2), S(1), S(2)>>)>>]
MC_Scenarios == IF IOEnv.PH_BIG = "1" THEN {ScA, ScB, ScC} ELSE {ScA, ScB}
MC_MaxLen == 3
MC_Routes == {"rect_shared", "fromgrid_shared", "rect_fresh", "nonuniform"}
MC_Attrs == {"cell_sides", "coord_vectors", "min_pt", "max_pt", "cell_boundary_vecs", "meshgrid", "grid_stride",
             "cell_sizes_vecs", "extent", "grid_min_pt"}
\* non-mutating public methods of the sub-objects a partition holds by reference (harness/c14lib.py:call_shared gives
\* the concrete spellings: every keyword / index form of each); arrays handed out by the call are overwritten
MC_Methods == {"set.collapse", "set.collapse_seq", "set.squeeze", "set.insert", "set.append", "set.min", "set.max",
               "set.corners", "set.extent", "set.mid_pt", "set.element", "set.getitem", "set.arith", "set.scalars",
               "grid.min", "grid.max", "grid.max_pt", "grid.mid_pt", "grid.extent", "grid.squeeze", "grid.insert",
               "grid.append", "grid.getitem", "grid.points", "grid.corners", "grid.corner_grid", "grid.convex_hull",
               "grid.scalars",
               "part.squeeze", "part.insert", "part.append", "part.getitem", "part.byaxis", "part.points", "part.index",
               "part.scalars"}
ExportLine ==
  Serialize(ToJson([sc |-> sc, objs |-> objs, hist |-> hist]) \o "\n", IOEnv.OUT_FILE,
            [format |-> "TXT", charset |-> "UTF-8",
             openOptions |-> <<"WRITE", "CREATE", "APPEND">>]).exitValue = 0
Export == Swept => ExportLine
\* deliberately false (self-test): the cell side of a one-node axis is that of the FIRST partition built on the grid
BogusFirstWins == Swept => \A i \in 1..Len(objs) :
                     hist[Len(hist)].exp[i].sides = Ref(PartOf(objs[1]), "sides")
=============================================================================

SPECIFICATION Spec
CONSTANTS
  Cases <- MC_Cases
INVARIANT BogusMaskVolume
CHECK_DEADLOCK FALSE

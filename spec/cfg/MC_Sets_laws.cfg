SPECIFICATION Spec
INVARIANT A_Reflexive
INVARIANT A_Symmetric
INVARIANT A_Transitive
INVARIANT A_Copies
INVARIANT C_Reflexive
INVARIANT C_Symmetric
INVARIANT C_Transitive
INVARIANT C_Hash
INVARIANT C_Refines
INVARIANT C_Contains
INVARIANT C_NoRaise
INVARIANT C_Derived
INVARIANT OpenOnce

----------------------------- MODULE MC_WaveLayout -----------------------------
(* Case enumeration for WaveLayout: one state per (shape, axes, filter length, mode, levels). *)
EXTENDS WaveLayout, Json, IOUtils
ToInt(s) == CHOOSE n \in 0..64 : ToString(n) = s
MaxN1 == ToInt(IOEnv.C18_WMAXN1)
MaxN2 == ToInt(IOEnv.C18_WMAXN2)
FLens == {2, 4, 6, 8, 10, 12, 18, 20}
Modes == {"periodization", "other"}
Shapes1 == {<<n>> : n \in 2..MaxN1} \cup {<<n1, n2>> : n1 \in 2..MaxN2, n2 \in 2..MaxN2}
AxesOf(nd) == IF nd = 1 THEN {<<0>>} ELSE {<<0>>, <<1>>, <<0, 1>>}
VARIABLES shape, axes, flen, mode, L
vars == <<shape, axes, flen, mode, L>>
Init == /\ shape \in Shapes1 /\ axes \in AxesOf(Len(shape)) /\ flen \in FLens /\ mode \in Modes /\ L \in 0..3
Next == FALSE /\ UNCHANGED vars
Spec == Init /\ [][Next]_vars
Lay == Layout(shape, axes, flen, mode, L)
TilesInv   == Tiles(Lay)
FlatInv    == FlattenUnflattenId(Lay)
SizeInv    == SizeLaw(shape, axes, flen, mode, L)
CropInv    == CropLaw(shape, axes, flen, mode, L)
KeysInv    == Len(Lay) = 1 + L * (2 ^ Len(axes) - 1)
Export1 ==
  Serialize(ToJson([shape |-> shape, axes |-> axes, flen |-> flen, mode |-> mode, L |-> L,
                    total |-> Total(Lay),
                    blocks |-> Tup([i \in 1..Len(Lay) |-> <<Lay[i].lev, Lay[i].key, Lay[i].shape, Lay[i].start, Lay[i].stop>>])])
            \o "\n", IOEnv.OUT_FILE,
            [format |-> "TXT", charset |-> "UTF-8",
             openOptions |-> <<"WRITE", "CREATE", "APPEND">>]).exitValue = 0
\* grouped export: one state per shape (the representative with the first axes / filter / mode / level),
\* one JSON line holding the layouts of ALL configurations of that shape (one file operation per shape)
CaseRec(sh, ax, fl, mo, lv) ==
  LET lay == Layout(sh, ax, fl, mo, lv)
  IN  [shape |-> sh, axes |-> ax, flen |-> fl, mode |-> mo, L |-> lv, total |-> Total(lay),
       blocks |-> Tup([i \in 1..Len(lay) |-> <<lay[i].lev, lay[i].key, lay[i].shape, lay[i].start, lay[i].stop>>])]
IsRep == axes = <<0>> /\ flen = 2 /\ mode = "other" /\ L = 0
Export ==
  (~IsRep) \/
  Serialize(ToJson({CaseRec(shape, ax, fl, mo, lv) : ax \in AxesOf(Len(shape)), fl \in FLens, mo \in Modes, lv \in 0..3})
            \o "\n", IOEnv.OUT_FILE,
            [format |-> "TXT", charset |-> "UTF-8",
             openOptions |-> <<"WRITE", "CREATE", "APPEND">>]).exitValue = 0
=============================================================================

SPECIFICATION Spec
CONSTANTS
  Axes <- MC_Axes
  Angles <- MC_Angles
  Shifts <- MC_Shifts
  Targets <- MC_Targets
  EulerSet <- MC_EulerSet
  P0 <- MC_P0
  Q0 <- MC_Q0
  MaxLen <- MC_MaxLen
  Budget <- MC_Budget
INVARIANT BogusCommute

---------------------------- MODULE MC_ViewSetImpl ----------------------------
EXTENDS ViewSetImpl, Json, IOUtils
R(n) == CInt(n)
RS(s) == [k \in 1..Len(s) |-> R(s[k])]
N == NoneTok
MC_EmptyIsWhole == IOEnv.VW_EMPTYWHOLE # "0"
\* leaves a (2), b (3), c (2), d (2), e (2: value source) ; products built on them
Leaves5 == <<Whole("elem", "tensor", FALSE, 1, <<2>>, "same"), Whole("elem", "tensor", FALSE, 2, <<3>>, "same"),
             Whole("elem", "tensor", FALSE, 3, <<2>>, "same"), Whole("elem", "tensor", FALSE, 4, <<2>>, "same"),
             Whole("elem", "tensor", FALSE, 5, <<2>>, "same")>>
Bufs5 == <<Buf(RS(<<1, 2>>), <<2>>, "C"), Buf(RS(<<3, 4, 5>>), <<3>>, "C"), Buf(RS(<<6, 7>>), <<2>>, "C"),
           Buf(RS(<<8, 9>>), <<2>>, "C"), Buf(RS(<<10, 11>>), <<2>>, "C")>>
\* 6 = (a, b) ; 7 = ((a, b), c) ; 8 = (((a, b), c), d) ; 9 = (a, c, d) power ; 10 = (c, d) power
MC_States == {[bufs |-> Bufs5, objs |-> Leaves5 \o <<Prod(FALSE, <<1, 2>>), Prod(FALSE, <<6, 3>>), Prod(FALSE, <<7, 4>>),
                                                     Prod(FALSE, <<1, 3, 4>>), Prod(FALSE, <<3, 4>>)>>]}
MC_Indices == {<<IInt(0)>>, <<IInt(-1)>>, <<ISl(0, 2, 1)>>, <<ISl(1, N, 1)>>, <<ISl(N, N, -1)>>, <<IList(<<0, 1>>)>>, <<IList(<<1, 0>>)>>,
               <<IInt(0), IInt(1)>>, <<IInt(1), ISl(1, N, 1)>>, <<IInt(0), IInt(0)>>, <<IInt(0), IInt(1), IInt(0)>>,
               <<IInt(0), ISl(0, 1, 1)>>, <<IInt(0), IInt(0), IInt(0)>>, <<IInt(0), IInt(0), IInt(1)>>, <<IInt(0), ISl(N, N, 1)>>,
               <<IInt(0), IInt(0), IInt(1), IInt(2)>>, <<IInt(0), IInt(0), ISl(N, N, 1)>>, <<IInt(1), IInt(0)>>, <<IInt(-1), IList(<<1, 0>>)>>}
MC_Values == {VScalar(R(20)), VPer(RS(<<31, 32>>)), VPer(RS(<<31, 32, 33>>)), VSeq(RS(<<41, 42>>)), VSeq(RS(<<41, 42, 43>>))}
               \cup {VObj(o) : o \in {5, 2, 6, 10}}
\* every case with the result of the transcription and of the reference (values of all objects, or "raise")
ValsOf(c, bufs) == IF bufs = Raise THEN <<>> ELSE Vals([bufs |-> bufs, objs |-> c.s.objs])
Export ==
  Serialize(ToJson([init |-> [bufs |-> cs.s.bufs, objs |-> SubSeq(cs.s.objs, 1, 5)],
                    prods |-> [i \in 6..Len(cs.s.objs) |-> cs.s.objs[i].parts],
                    act |-> ActOf(cs), emptyidx |-> EmptyIndexCell(cs.s, ActOf(cs)),
                    impl_raises |-> PSetItem(cs.s, cs.x, cs.idx, cs.v) = Raise,
                    impl |-> ValsOf(cs, PSetItem(cs.s, cs.x, cs.idx, cs.v)),
                    ref |-> ValsOf(cs, Step(cs.s, ActOf(cs)).st.bufs)]) \o "\n", IOEnv.OUT_FILE,
            [format |-> "TXT", charset |-> "UTF-8", openOptions |-> <<"WRITE", "CREATE", "APPEND">>]).exitValue = 0
=============================================================================

SPECIFICATION Spec
CONSTANTS
  Shapes <- MC_Shapes
  OuterPairs <- MC_OuterPairs
INVARIANT RulesTotal
INVARIANT RulesConsistent
INVARIANT MethodLaws

SPECIFICATION Spec
CONSTANTS
  Cases <- MC_Cases
  Machines <- MC_Machines
  MaxLen <- MC_MaxLen
INVARIANT RefinesCurrent

SPECIFICATION Spec
CONSTANTS
  Scalars <- MC_Scalars
  VecSet <- MC_VecSet
  IntDtype <- MC_IntDtype
  Fixed <- MC_Fixed
INVARIANT CorrectWhereDefined

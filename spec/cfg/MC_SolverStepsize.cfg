SPECIFICATION Spec
CONSTRAINT Export
INVARIANT ChosenStepsAdmissible
INVARIANT ChosenConstant

------------------------------ MODULE MC_OpUtil ------------------------------
(* Bounded instances of OpUtilMachine (one catalogue per part, selected by the environment variable OU_PART)  *)
(* and the per-state export: everything layer A says about the case, one JSON line per reached state.         *)
EXTENDS OpUtilMachine, MC_OpUtilCat, Json, IOUtils

Part == IOEnv.OU_PART        \* "expr" | "pm" | "pmarg" | "nd" | "uf"
(* ------------------------------ pm -------------------------------------- *)
One2 == <<QOne, QOne>>   One3 == <<QOne, QOne, QOne>>   Half2 == <<Q(1, 2), Q(1, 2)>>   Half3 == <<Q(1, 2), Q(1, 2), Q(1, 2)>>
PMRec(id, M, wd, wr, x0, nsq, top) ==
  [id |-> id, M |-> M, wd |-> wd, wr |-> wr, x0 |-> x0, nsq |-> nsq, top |-> top,
   kmax |-> IF id \in {"sym7", "rank1"} THEN 2 ELSE 3]
PMBase ==
  { PMRec("diag12", <<<<R(1), R(0)>>, <<R(0), R(2)>>>>, One2, One2, <<R(1), R(1)>>, QI(4), <<R(0), R(1)>>),
    PMRec("diag12b", <<<<R(1), R(0)>>, <<R(0), R(2)>>>>, One2, One2, <<R(2), R(1)>>, QI(4), <<R(0), R(1)>>),
    PMRec("diag12w", <<<<R(1), R(0)>>, <<R(0), R(2)>>>>, Half2, Half2, <<R(1), R(-1)>>, QI(4), <<R(0), R(1)>>),
    PMRec("diagm3", <<<<R(-3), R(0)>>, <<R(0), R(1)>>>>, One2, One2, <<R(1), R(2)>>, QI(9), <<R(1), R(0)>>),
    PMRec("sym3", <<<<R(1), R(2)>>, <<R(2), R(1)>>>>, One2, One2, <<R(1), R(0)>>, QI(9), <<R(1), R(1)>>),
    PMRec("sym7", <<<<R(3), R(4)>>, <<R(4), R(3)>>>>, One2, One2, <<R(1), R(0)>>, QI(49), <<R(1), R(1)>>),
    PMRec("proj2", <<<<R(1), R(1)>>, <<R(1), R(1)>>>>, One2, One2, <<R(1), R(0)>>, QI(4), <<R(1), R(1)>>),
    PMRec("eig", <<<<R(1), R(2)>>, <<R(2), R(1)>>>>, One2, One2, <<R(1), R(1)>>, QI(9), <<R(1), R(1)>>),
    PMRec("rank1", <<<<R(12), R(9)>>, <<R(16), R(12)>>>>, One2, One2, <<R(1), R(0)>>, QI(625), <<R(4), R(3)>>),
    PMRec("shear", <<<<R(1), R(2)>>, <<R(0), R(1)>>>>, One2, One2, <<R(1), R(0)>>, NaN, <<R(1), R(0)>>),
    PMRec("rect", <<<<R(1), R(0)>>, <<R(0), R(2)>>, <<R(0), R(0)>>>>, One2, One3, <<R(1), R(1)>>, QI(4), <<R(0), R(1)>>),
    PMRec("rectw", <<<<R(1), R(0)>>, <<R(0), R(2)>>, <<R(1), R(0)>>>>, One2, Half3, <<R(1), R(1)>>, QI(2), <<R(0), R(1)>>),
    PMRec("diag3", <<<<R(2), R(0), R(0)>>, <<R(0), R(1), R(0)>>, <<R(0), R(0), R(-1)>>>>, One3, One3,
          <<R(1), R(1), R(1)>>, QI(4), <<R(1), R(0), R(0)>>),
    \* start vectors of norm 1 whose first image has the norm of the start vector (the first estimate must not be
    \* compared with anything: there is no earlier estimate)
    PMRec("unitp", <<<<R(0), R(0)>>, <<R(0), RQ(5, 4)>>>>, One2, One2, <<RQ(3, 5), RQ(4, 5)>>, Q(25, 16), <<R(0), R(1)>>),
    PMRec("unitn", <<<<R(0), R(0)>>, <<R(0), RQ(1, 2)>>>>, One2, <<QI(5), QI(5)>>, <<RQ(3, 5), RQ(4, 5)>>, Q(5, 4), <<R(0), R(1)>>),
    PMRec("herm", <<<<R(1), Z(0, 1)>>, <<Z(0, -1), R(1)>>>>, One2, One2, <<R(1), R(0)>>, QI(4), <<R(1), Z(0, -1)>>) }
SelfAdj(b) == b.wd = b.wr /\ AdjOf(b.M, b.wd, b.wr) = b.M
PMCases == { [part |-> "pm", id |-> p[1].id, M |-> p[1].M, wd |-> p[1].wd, wr |-> p[1].wr, x0 |-> p[1].x0,
              nsq |-> p[1].nsq, top |-> p[1].top, kmax |-> p[1].kmax, normal |-> p[2]] :
              p \in { q \in PMBase \X BOOLEAN : q[2] \/ SelfAdj(q[1]) } }

PMArgCases == { [part |-> "pmarg", mnone |-> mn, maxiter |-> mi, square |-> sq, hasadj |-> ha, x0zero |-> xz] :
                  mn \in {FALSE}, mi \in {-2, 0, 1, 2, 3, 4}, sq \in BOOLEAN, ha \in BOOLEAN, xz \in BOOLEAN }
              \cup { [part |-> "pmarg", mnone |-> TRUE, maxiter |-> 0, square |-> sq, hasadj |-> ha, x0zero |-> xz] :
                  sq \in BOOLEAN, ha \in BOOLEAN, xz \in BOOLEAN }

(* ------------------------------ nd -------------------------------------- *)
CV(n) == SubSeq(<<R(1), R(2), R(-1), R(3)>>, 1, n)
BV(n) == SubSeq(<<R(0), R(1), R(-2), R(1)>>, 1, n)
XV(n, v) == IF v = 1 THEN SubSeq(<<R(1), R(2), R(3), R(-1)>>, 1, n)
            ELSE SubSeq(<<RQ(1, 2), R(-1), R(2), RQ(3, 2)>>, 1, n)
Steps == {Q(1, 2), Q(1, 4), QI(2)}
NDGrad == { [part |-> "nd", kind |-> "grad", fam |-> f, c |-> (IF f = "l2sq" THEN <<cw>> ELSE CV(n)), b |-> BV(n),
             x |-> XV(n, v), dx |-> <<>>, nd |-> QOne, w |-> cw[1], method |-> m, h |-> h, zero |-> FALSE] :
             f \in {"lin", "fquad", "fcube", "l2sq"}, n \in {2, 4}, v \in {1, 2}, m \in Methods, h \in Steps,
             cw \in {R(1), RQ(1, 2)} }
\* directions with rational norm in the space with constant weight w: |dx|^2 = w * sum dx_i^2
DirSet == { [n |-> 2, dx |-> <<R(3), R(4)>>, w |-> QOne, nd |-> QI(5)],
            [n |-> 2, dx |-> <<R(3), R(-4)>>, w |-> QI(4), nd |-> QI(10)],
            [n |-> 2, dx |-> <<R(0), R(2)>>, w |-> QOne, nd |-> QI(2)],
            [n |-> 4, dx |-> <<R(1), R(1), R(-1), R(1)>>, w |-> QOne, nd |-> QI(2)],
            [n |-> 4, dx |-> <<R(2), R(-2), R(2), R(2)>>, w |-> Q(1, 4), nd |-> QI(2)] }
NDDeriv == { [part |-> "nd", kind |-> "deriv", fam |-> t[1], c |-> CV(t[2].n), b |-> BV(t[2].n), x |-> XV(t[2].n, t[3]),
              dx |-> t[2].dx, nd |-> t[2].nd, w |-> t[2].w, method |-> t[4], h |-> t[5], zero |-> FALSE] :
              t \in { u \in {"sq", "cube", "aff", "quad"} \X DirSet \X {1, 2} \X Methods \X Steps :
                        \* keep the exact rationals of the cubic inside 32 bits
                        u[1] = "cube" => (u[2].nd # QI(10) /\ (u[5] # Q(1, 4) \/ u[2].nd = QI(2))) } }
\* the zero direction: the operator is linear, so it maps 0 to 0 (the formulas divide by |dx| and say nothing)
NDZero == { [part |-> "nd", kind |-> "deriv", fam |-> f, c |-> CV(2), b |-> BV(2), x |-> XV(2, 1), dx |-> <<R(0), R(0)>>,
             nd |-> QOne, w |-> QOne, method |-> m, h |-> Q(1, 2), zero |-> TRUE] : f \in {"sq", "aff"}, m \in Methods }
NDCases == NDGrad \cup NDDeriv \cup NDZero

(* ------------------------------ uf -------------------------------------- *)
UX == <<RQ(-3, 2), RQ(1, 2), R(2), RQ(5, 2), RQ(-7, 4)>>     UY == <<R(2), R(-1), RQ(1, 2), RQ(5, 2), R(-3)>>
UXc == <<Z(1, 1), R(2), Z(0, -1), Z(-2, 1), R(-1)>>      UYc == <<Z(0, 2), Z(1, -1), R(-1), Z(1, 1), Z(0, 1)>>
UfComplexOK == {"negative", "square", "reciprocal", "conj", "add", "subtract", "multiply", "true_divide", "divide"}
UfCases == { [part |-> "uf", name |-> nm, cplx |-> FALSE, x |-> UX, y |-> UY] : nm \in UfExact1 \cup UfExact2 }
           \cup { [part |-> "uf", name |-> nm, cplx |-> TRUE, x |-> UXc, y |-> UYc] : nm \in UfComplexOK }

MC_Cases == CASE Part = "expr" -> ExprCases [] Part = "pm" -> PMCases [] Part = "pmarg" -> PMArgCases
              [] Part = "nd" -> NDCases [] Part = "uf" -> UfCases
MC_MaxK == 3

(* ------------------------------ export ---------------------------------- *)
ExprLine(e) ==
  LET lin == OLinear(e)
      M == IF lin THEN FlatMat(e) \o <<>> ELSE <<>>
      wd == FlatW(ODom(e))  wr == FlatW(ORan(e))
      mro == MatRepOutcome(e)
  IN [part |-> "expr", e |-> e, lin |-> lin, dom |-> ODom(e), ran |-> ORan(e),
      mr_outcome |-> mro,
      mr_shape |-> IF mro = "raises" THEN <<>> ELSE MatRepShape(e),
      mr_cplx |-> MatRepCplx(e),
      mr_flat |-> IF mro = "raises" THEN <<>> ELSE MatRepFlat(e),
      sc_outcome |-> ScipyOutcome(e), sc_shape |-> ScipyShape(e),
      M |-> M, N |-> IF lin THEN AdjOf(M, wd, wr) ELSE <<>>, wd |-> wd, wr |-> wr]
PMLine ==
  [part |-> "pm", id |-> c.id, M |-> c.M, wd |-> c.wd, wr |-> c.wr, x0 |-> c.x0, normal |-> c.normal,
   nsq |-> c.nsq, k |-> k, est_pow |-> est, pw |-> IF c.normal THEN 4 ELSE 2,
   maxiter |-> IF c.normal THEN 2 * k ELSE k]
PMArgLine ==
  [part |-> "pmarg", mnone |-> c.mnone, maxiter |-> c.maxiter, square |-> c.square, hasadj |-> c.hasadj,
   x0zero |-> c.x0zero, outcome |-> PMArgOutcome(c.mnone, c.maxiter, c.square, c.hasadj, c.x0zero)]
NDLine ==
  [part |-> "nd", kind |-> c.kind, fam |-> c.fam, c |-> c.c, b |-> c.b, x |-> c.x, dx |-> c.dx, nd |-> c.nd, w |-> c.w,
   method |-> c.method, h |-> c.h, zero |-> c.zero,
   val |-> IF c.zero THEN VZeroN(Len(c.x)) ELSE NDVal(c), true |-> NDTrue(c), deg |-> NDDeg(c)]
UfLine ==
  LET two == c.name \in UfExact2
  IN [part |-> "uf", name |-> c.name, cplx |-> c.cplx, x |-> c.x, y |-> IF two THEN c.y ELSE <<>>, nin |-> IF two THEN 2 ELSE 1,
      val |-> [i \in 1..Len(c.x) |-> IF two THEN Uf2(c.name, c.x[i], c.y[i]) ELSE Uf1(c.name, c.x[i])],
      trulylinear |-> c.name \in UfTrulyLinear, hasderiv |-> c.name \in UfWithDeriv,
      dmul |-> IF c.name \in UfDerivExact /\ ~two THEN [i \in 1..Len(c.x) |-> UfDerivMul(c.name, c.x[i])] ELSE <<>>]
Line == CASE Part = "expr" -> ExprLine(c.e) [] Part = "pm" -> PMLine [] Part = "pmarg" -> PMArgLine
          [] Part = "nd" -> NDLine [] Part = "uf" -> UfLine
Export ==
  IF Part = "pm" /\ k = 0 THEN TRUE
  ELSE Serialize(ToJson(Line) \o "\n", IOEnv.OUT_FILE,
                 [format |-> "TXT", charset |-> "UTF-8",
                  openOptions |-> <<"WRITE", "CREATE", "APPEND">>]).exitValue = 0

\* a deliberately wrong law (bogus run: TLC must find the counterexample, otherwise the laws are vacuous)
BogusDomainAxesFirst ==
  (c.part = "expr" /\ MatRepOutcome(c.e) = "ok") => MatRepShape(c.e) = ShapeOf(ODom(c.e)) \o ShapeOf(ORan(c.e))
=============================================================================

------------------------------ MODULE MC_Spdhg ------------------------------
(* Bounded instances of SpdhgMachine (EXT/spdhg) over the catalogue MC_SpdhgCat.  Export: one JSON line per reachable *)
(* state = schedule-labelled behaviour prefix with all registers (the case record rides on the initial states).        *)
(* Environment: SP_LEN (history bound), OUT_FILE.                                                                      *)
EXTENDS SpdhgMachine, MC_SpdhgCat, Json, IOUtils

MC_MaxLen == IF IOEnv.SP_LEN = "4" THEN 4 ELSE 3
MC_MaxAccel == 2

Export == Serialize(ToJson([cid |-> cid, alg |-> alg, hist |-> hist, r |-> r, st |-> st,
                            case |-> IF hist = <<>> THEN <<C>> ELSE <<>>]) \o "\n", IOEnv.OUT_FILE,
                    [format |-> "TXT", charset |-> "UTF-8",
                     openOptions |-> <<"WRITE", "CREATE", "APPEND">>]).exitValue = 0
\* non-vacuity probe: "zr = z always" must FAIL (the extrapolation is real)
BogusNoRelax == r.zr = r.z
=============================================================================

SPECIFICATION Spec
CONSTANTS
  Catalogue <- MC_Catalogue
  AliasZero <- MC_AliasZero
  WithSplits <- MC_WithSplits
  LatX <- MC_LatX
  LatY <- MC_LatY
CONSTRAINT ExportC12
INVARIANT WellFormed
INVARIANT CGExactAfterDim
INVARIANT ArmijoFinds
INVARIANT PowerBound
INVARIANT FixedPointLaw
INVARIANT DRFixedPointLaw
INVARIANT FBCodeFixedPointLaw
INVARIANT FixedIsKKT
PROPERTY CGEnergyDecreases
PROPERTY ResidualNeverIncreases
PROPERTY KaczmarzDistNeverIncreases
PROPERTY ArmijoObjectiveDecreases
PROPERTY Fejer

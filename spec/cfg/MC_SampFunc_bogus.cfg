SPECIFICATION Spec
CONSTANTS
  Cases <- MC_Cases
  Objects <- MC_Objects
  HInputs <- MC_HInputs
  MaxLen <- MC_MaxLen
INVARIANT BogusShortHistories

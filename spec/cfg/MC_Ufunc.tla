------------------------------ MODULE MC_Ufunc ------------------------------
(* Configuration space of UfuncMachine (C17) and the per-state export of the  *)
(* expected result shape / kind and the exact values for the canonical operands *)
EXTENDS UfuncMachine, Json, IOUtils

Thorough == IOEnv.UFUNC_TIER = "thorough"
MC_Shapes == IF Thorough THEN { <<3>>, <<2, 3>>, <<2, 3, 2>>, <<1>>, <<2, 1>>, <<1, 3, 2>> }
             ELSE { <<3>>, <<2, 3>>, <<2, 3, 2>> }
MC_OuterPairs == { <<<<3>>, <<2>>>>, <<<<2, 3>>, <<2>>>>, <<<<2>>, <<2, 3>>>> }
                 \cup (IF Thorough THEN { <<<<2, 3>>, <<3, 2>>>>, <<<<1>>, <<3>>>> } ELSE {})

MC_KindsSel == IF IOEnv.UFUNC_KIND = "all" THEN Kinds ELSE {IOEnv.UFUNC_KIND}

ValRecord(c) == [name \in ValNames(c) |-> ExpValue(c, name).v]
ExportLine ==
  Serialize(ToJson([case |-> cfg,
                    exp |-> [shape |-> ExpShape(cfg), kind |-> ExpKind(cfg), vals |-> ValRecord(cfg),
                             dtypes |-> [name \in ValNames(cfg) |-> [dt \in DTypes |-> ExpDType(cfg, name, dt)]]]]) \o "\n",
            IOEnv.OUT_FILE,
            [format |-> "TXT", charset |-> "UTF-8",
             openOptions |-> <<"WRITE", "CREATE", "APPEND">>]).exitValue = 0
Export == ph = 1 => ExportLine

\* deliberately false (self-test): keepdims forgotten in the shape rule
BogusKeepdims == (ph = 1 /\ cfg.method = "reduce") => ExpShape(cfg) = ReducedShape(cfg.shapes[1], AxesOf(cfg.axis, Len(cfg.shapes[1])), FALSE)
=============================================================================

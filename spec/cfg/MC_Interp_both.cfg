SPECIFICATION Spec
CONSTANTS
  Mode <- MC_Mode
  Cfgs <- MC_Cfgs
INVARIANT CfgLaws
INVARIANT QueryLaws
CONSTRAINT Export

SPECIFICATION Spec
CONSTRAINT Export

SPECIFICATION Spec
INVARIANT ShapeRuleOK
INVARIANT SliceRuleOK
CONSTRAINT Export

--------------------------- MODULE MC_SolverSemLaws ---------------------------
(***************************************************************************)
(* Sanity of layer A (SolverSem): the closed-form proximals satisfy their  *)
(* defining optimality condition (a different characterisation than the    *)
(* formula), for every functional of the catalogue, step and lattice point.*)
(* One state per cell, no transitions.                                     *)
(***************************************************************************)
EXTENDS SolverSem
q(n, d) == Q(n, d)
T == <<q(1, 1), q(-2, 1)>>
Funcs == {FL1(QOne, <<>>), FL1(q(1, 2), <<>>), FL1(QOne, T), FL1(q(3, 1), T),
          FL2sq(q(1, 2), T), FL2sq(q(1, 8), <<>>), FL2sq(q(3, 2), T),
          FBox(q(-1, 1), q(2, 1)), FBox(q(1, 2), q(1, 2)), FZero}
Steps == {q(1, 4), q(1, 2), QOne, q(2, 1), q(3, 1)}
Lat == {q(j, 4) : j \in -14..14}
VARIABLES f, s, x
lvars == <<f, s, x>>
Init == f \in Funcs /\ s \in Steps /\ x \in (Lat \X {q(0, 1), q(-9, 4), q(5, 2)}) \cup ({q(1, 1)} \X Lat)
Next == UNCHANGED lvars
Spec == Init /\ [][Next]_lvars

ProxLaw == ProxOptimal(f, s, x)
ProxConjLaw == ProxConjOptimal(f, s, x)
\* known closed form of an independent kind: the conjugate of c|.|_1 is the indicator of the
\* box [-c, c], so its proximal is the projection
ConjL1IsProjection ==
  (f.k = "L1" /\ f.t = <<>>) =>
     ProxConj(f, s, x) = [i \in 1..2 |-> SMin(SMax(x[i], SNeg(f.c)), f.c)]
\* firm non-expansiveness against a second point (monotone operator check)
Firm == LET y == <<q(1, 2), q(-1, 1)>>
            px == Prox(f, s, x)  py == Prox(f, s, y)
        IN  SLe(RNorm2(RSub(px, py)), RDot(RSub(px, py), RSub(x, y)))
\* deliberately false (self-test of non-vacuity)
Bogus == Prox(f, s, x) = x
=============================================================================

SPECIFICATION Spec
CONSTANTS
  Inputs <- MC_Inputs
  Attrs <- MC_Attrs
  Results <- MC_Results
  InputByRef <- MC_InputByRef
  AttrByRef <- MC_AttrByRef
  ResultShared <- MC_ResultShared
  MaxMut <- MC_MaxMut
INVARIANT HistoryFree
CONSTRAINT Export

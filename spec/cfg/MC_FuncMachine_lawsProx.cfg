SPECIFICATION Spec
CONSTANTS
  Sp <- MC_Sp
  Depth <- MC_Depth
  LeafFilter <- MC_LeafFilter
  RuleFilter <- MC_RuleFilter
  DeepLeaves <- MC_DeepLeaves
INVARIANT LawsProx

SPECIFICATION Spec
CONSTRAINT Export

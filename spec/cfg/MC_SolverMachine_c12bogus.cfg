SPECIFICATION Spec
CONSTANTS
  Catalogue <- MC_Catalogue
  AliasZero <- MC_AliasZero
  WithSplits <- MC_WithSplits
  LatX <- MC_LatX
  LatY <- MC_LatY
CONSTRAINT DenBound
PROPERTY BogusResidualNeverDecreases

------------------------------ MODULE MC_Geom ------------------------------
(* Configuration space of GeomMachine (C19) and the per-state export of the  *)
(* layer-A observations for replay on real ODL geometry objects.             *)
EXTENDS GeomMachine, Json, IOUtils

Thorough == IOEnv.GEOM_TIER = "thorough"

V2(a, b)    == <<a, b>>
V3(a, b, c) == <<a, b, c>>
I(n)        == QI(n)

Ang(bc, bs, m) == [bc |-> bc, bs |-> bs, m |-> m]
PL(q)      == [q |-> q, c |-> QOne, s |-> QZero]        \* flat (length) parameter
PA(c, s)   == [q |-> QZero, c |-> c, s |-> s]           \* arc (angle) parameter

Flat   == [kind |-> "flat", r |-> QZero]
Circ(r) == [kind |-> "circ", r |-> r]
Cyl(r)  == [kind |-> "cyl", r |-> r]
Sph(r)  == [kind |-> "sph", r |-> r]

G0(id, cls) ==
  [ id |-> id, cls |-> cls, t |-> GZeroV(NDim(cls)), p0 |-> <<>>,
    k |-> IF IsAxisCls(cls) THEN E3z ELSE <<>>, e |-> <<>>, ax |-> <<>>,
    rs |-> IF IsParallel(cls) THEN QZero ELSE I(5), rd |-> IF IsParallel(cls) THEN QZero ELSE I(3),
    z0 |-> QZero, dz |-> QZero, det |-> Flat,
    ss |-> GZeroV(NDim(cls)), ds |-> GZeroV(NDim(cls)), mat |-> <<>> ]

K221 == V3(Q(2, 3), Q(2, 3), Q(1, 3))
K304 == V3(Q(3, 5), QZero, Q(4, 5))
KNeg == V3(QZero, QZero, I(-1))

Par2d ==
  { G0("par2d-default", "par2d"),
    [G0("par2d-pos34", "par2d") EXCEPT !.p0 = V2(I(3), I(4))],
    [G0("par2d-pos34-transl", "par2d") EXCEPT !.p0 = V2(I(3), I(4)), !.t = V2(I(1), I(-2))],
    [G0("par2d-explicit-transl", "par2d") EXCEPT !.p0 = V2(I(-5), I(12)), !.ax = <<V2(Q(4, 5), Q(3, 5))>>,
                                                 !.t = V2(I(1), I(-2))],
    [G0("par2d-explicit-irr", "par2d") EXCEPT !.p0 = V2(Q(1, 2), I(-2)), !.ax = <<V2(Q(-12, 13), Q(5, 13))>>,
                                              !.t = V2(Q(-1, 2), I(3))],
    \* detector through the rotation centre: documented "If det_pos_init == (0, 0), no rotation is performed"
    [G0("par2d-pos0", "par2d") EXCEPT !.p0 = V2(I(0), I(0)), !.t = V2(I(1), I(-2))],
    \* the absolute initial position det_pos_init + translation is the origin
    [G0("par2d-pos-cancels-translation", "par2d") EXCEPT !.p0 = V2(I(-1), I(2)), !.t = V2(I(1), I(-2)),
                                                        !.ax = <<V2(Q(3, 5), Q(4, 5))>>],
    [G0("par2d-pos0-explicit", "par2d") EXCEPT !.p0 = V2(I(0), I(0)), !.ax = <<V2(Q(3, 5), Q(4, 5))>>],
    [G0("par2d-matrix-rot", "par2d") EXCEPT !.mat = <<V3(Q(3, 5), Q(-4, 5), I(1)), V3(Q(4, 5), Q(3, 5), I(-2))>>],
    [G0("par2d-matrix-mirror", "par2d") EXCEPT !.mat = <<V2(I(1), I(0)), V2(I(0), I(-1))>>] }

Fan ==
  { G0("fan-default", "fan"),
    [G0("fan-e34-transl", "fan") EXCEPT !.e = V2(Q(3, 5), Q(4, 5)), !.t = V2(I(1), I(-2))],
    [G0("fan-explicit", "fan") EXCEPT !.e = V2(Q(-5, 13), Q(12, 13)), !.ax = <<V2(Q(3, 5), Q(4, 5))>>,
                                      !.rs = Q(7, 2), !.rd = I(2)],
    [G0("fan-circ", "fan") EXCEPT !.e = V2(Q(3, 5), Q(4, 5)), !.det = Circ(I(8))],
    [G0("fan-shifts", "fan") EXCEPT !.e = V2(Q(3, 5), Q(4, 5)), !.t = V2(I(1), I(-2)),
                                    !.ss = V2(Q(1, 2), Q(-1, 4)), !.ds = V2(Q(-1, 3), Q(1, 2))],
    [G0("fan-matrix", "fan") EXCEPT !.mat = <<V3(I(0), I(1), I(1)), V3(I(-1), I(0), I(1))>>],
    [G0("fan-matrix-mirror-shifts", "fan") EXCEPT !.mat = <<V2(Q(3, 5), Q(4, 5)), V2(Q(4, 5), Q(-3, 5))>>,
                                    !.ss = V2(Q(1, 2), Q(-1, 4)), !.ds = V2(Q(-1, 3), Q(1, 2)), !.det = Circ(I(8))],
    [G0("fan-srcrad0", "fan") EXCEPT !.rs = QZero, !.e = V2(Q(4, 5), Q(-3, 5))] }

Par3dAx ==
  { G0("par3dax-default", "par3dax"),
    [G0("par3dax-k221-transl", "par3dax") EXCEPT !.k = K221, !.t = V3(I(1), I(-2), I(3))],
    [G0("par3dax-k304-explicit", "par3dax") EXCEPT !.k = K304, !.p0 = V3(I(1), I(2), I(-6)),
         !.ax = <<V3(Q(4, 5), QZero, Q(-3, 5)), V3(QZero, QOne, QZero)>>, !.t = V3(Q(1, 2), I(0), I(-1))],
    [G0("par3dax-kneg", "par3dax") EXCEPT !.k = KNeg],
    \* detector frames that are not orthogonal (sheared) and / or left-handed: the constructor only needs
    \* linearly independent axes for flat 2-d detectors
    [G0("par3dax-sheared", "par3dax") EXCEPT !.ax = <<V3(QOne, QZero, QZero), V3(Q(3, 5), QZero, Q(4, 5))>>,
         !.t = V3(I(1), I(-2), I(3))],
    [G0("par3dax-sheared-lefthanded", "par3dax") EXCEPT !.k = K304, !.p0 = V3(I(1), I(2), I(-6)),
         !.ax = <<V3(Q(5, 13), Q(12, 13), QZero), V3(QOne, QZero, QZero)>>],
    [G0("par3dax-matrix-shear", "par3dax") EXCEPT
         !.mat = <<V3(I(1), I(0), I(0)), V3(I(0), I(1), I(0)), V3(Q(3, 4), I(0), I(1))>>],
    [G0("par3dax-matrix", "par3dax") EXCEPT
         !.mat = <<<<I(0), I(0), I(-1), I(0)>>, <<I(0), I(1), I(0), I(1)>>, <<I(1), I(0), I(0), I(1)>>>>],
    [G0("par3dax-matrix-rot", "par3dax") EXCEPT
         !.mat = <<V3(Q(3, 5), Q(-4, 5), I(0)), V3(Q(4, 5), Q(3, 5), I(0)), V3(I(0), I(0), I(1))>>] }

Par3dEu ==
  { G0("par3deu-default", "par3deu"),
    [G0("par3deu-pos212-transl", "par3deu") EXCEPT !.p0 = V3(I(2), I(-1), I(2)), !.t = V3(I(1), I(0), I(-1))],
    [G0("par3deu-explicit", "par3deu") EXCEPT !.p0 = V3(I(1), I(2), I(-6)),
         !.ax = <<V3(Q(4, 5), QZero, Q(-3, 5)), V3(QZero, QOne, QZero)>>],
    [G0("par3deu-pos0-explicit", "par3deu") EXCEPT !.p0 = V3(I(0), I(0), I(0)),
         !.ax = <<V3(Q(4, 5), QZero, Q(-3, 5)), V3(QZero, QOne, QZero)>>],
    [G0("par3deu-sheared", "par3deu") EXCEPT !.p0 = V3(I(2), I(-1), I(2)),
         !.ax = <<V3(Q(3, 5), QZero, Q(4, 5)), V3(QZero, QZero, QOne)>>],
    [G0("par3deu-lefthanded", "par3deu") EXCEPT !.ax = <<V3(QZero, QZero, QOne), V3(QOne, QZero, QZero)>>],
    [G0("par3deu-matrix", "par3deu") EXCEPT
         !.mat = <<<<I(0), I(0), I(-1), I(0)>>, <<I(0), I(1), I(0), I(1)>>, <<I(1), I(0), I(0), I(1)>>>>] }

Cone ==
  { G0("cone-default", "cone"),
    [G0("cone-k221-helical", "cone") EXCEPT !.k = K221, !.t = V3(I(1), I(0), I(-1)), !.z0 = Q(1, 2), !.dz = Q(1, 4)],
    [G0("cone-k304-explicit-shifts", "cone") EXCEPT !.k = K304, !.e = V3(Q(4, 5), QZero, Q(-3, 5)),
         !.ax = <<V3(QZero, QOne, QZero), K304>>, !.rs = Q(7, 2), !.rd = I(2),
         !.ss = V3(Q(1, 2), Q(-1, 4), Q(1, 3)), !.ds = V3(Q(-1, 3), Q(1, 2), Q(1, 4)), !.t = V3(I(0), I(1), Q(1, 2))],
    [G0("cone-cyl", "cone") EXCEPT !.det = Cyl(I(8))],
    [G0("cone-sph", "cone") EXCEPT !.det = Sph(I(8)), !.z0 = I(1)],
    [G0("cone-cyl-k304", "cone") EXCEPT !.k = K304, !.det = Cyl(I(8)), !.e = V3(Q(4, 5), QZero, Q(-3, 5)),
         !.ax = <<V3(QZero, QOne, QZero), K304>>],
    [G0("cone-cyl-k221", "cone") EXCEPT !.k = K221, !.det = Cyl(I(8)), !.t = V3(I(1), I(0), I(-1))],
    [G0("cone-sph-k221", "cone") EXCEPT !.k = K221, !.det = Sph(I(8))],
    \* a detector frame whose second axis is the mirror image of the rotated default one
    [G0("cone-cyl-flip", "cone") EXCEPT !.k = V3(QZero, Q(3, 5), Q(4, 5)), !.e = V3(I(-1), QZero, QZero),
         !.ax = <<V3(QZero, Q(4, 5), Q(-3, 5)), V3(QZero, Q(3, 5), Q(4, 5))>>, !.det = Cyl(I(10))],
    [G0("cone-sph-flip", "cone") EXCEPT !.k = V3(QZero, Q(3, 5), Q(4, 5)), !.e = V3(I(-1), QZero, QZero),
         !.ax = <<V3(QZero, Q(4, 5), Q(-3, 5)), V3(QZero, Q(3, 5), Q(4, 5))>>, !.det = Sph(I(10)), !.t = V3(I(-1), Q(1, 2), I(5))],
    [G0("cone-matrix-shifts", "cone") EXCEPT
         !.mat = <<<<Q(1, 3), Q(-2, 3), Q(2, 3), I(1)>>, <<Q(-2, 3), Q(1, 3), Q(2, 3), I(0)>>, <<Q(2, 3), Q(2, 3), Q(1, 3), I(-1)>>>>,
         !.ss = V3(Q(1, 2), Q(-1, 4), Q(1, 3)), !.ds = V3(Q(-1, 3), Q(1, 2), Q(1, 4)), !.det = Cyl(I(8))],
    [G0("cone-sheared", "cone") EXCEPT !.ax = <<V3(QOne, QZero, QZero), V3(Q(3, 5), QZero, Q(4, 5))>>, !.dz = Q(1, 2)],
    [G0("cone-lefthanded", "cone") EXCEPT !.k = K304, !.e = V3(Q(4, 5), QZero, Q(-3, 5)),
         !.ax = <<K304, V3(QZero, QOne, QZero)>>, !.t = V3(I(0), I(1), Q(1, 2))],
    [G0("cone-matrix", "cone") EXCEPT
         !.mat = <<<<I(0), I(0), I(-1), I(0)>>, <<I(0), I(1), I(0), I(1)>>, <<I(1), I(0), I(0), I(1)>>>>],
    [G0("cone-e-oblique", "cone") EXCEPT !.e = V3(Q(2, 3), Q(1, 3), Q(2, 3)),
         !.ax = <<V3(Q(1, 3), Q(2, 3), Q(-2, 3)), V3(Q(-2, 3), Q(2, 3), Q(1, 3))>>, !.dz = I(1)] }

AllGeoms == Par2d \cup Fan \cup Par3dAx \cup Par3dEu \cup Cone
\* GEOM_CLS selects one class (export runs are split per class and run in parallel) or "all"
MC_Geoms == IF IOEnv.GEOM_CLS = "all" THEN AllGeoms ELSE { gg \in AllGeoms : gg.cls = IOEnv.GEOM_CLS }

A345   == Ang(Q(3, 5), Q(4, 5), 1)
A51213 == Ang(Q(5, 13), Q(12, 13), 1)
A81517 == Ang(Q(-8, 17), Q(15, 17), 1)
A90    == Ang(QZero, QOne, 1)
A180   == Ang(I(-1), QZero, 1)
ANeg   == Ang(Q(4, 5), Q(-3, 5), 1)
AZero  == Ang(Q(3, 5), Q(4, 5), 0)
ADbl   == Ang(Q(3, 5), Q(4, 5), 2)
AMinus == Ang(Q(3, 5), Q(4, 5), -1)
AThird == Ang(Q(-12, 13), Q(-5, 13), 1)
AFourth == Ang(Q(15, 17), Q(8, 17), 1)

BaseAngles == {A345, A51213, A81517, A90, A180, ANeg, ADbl}
              \cup (IF Thorough THEN {AZero, AMinus, AThird, AFourth} ELSE {})
\* helical geometries: all angles are multiples of ONE base angle, so that pitch*theta/2pi stays rational
HelixAngles == {A345, AZero, ADbl, AMinus}
EulerBase == IF Thorough THEN {A345, A51213, A81517, A90, ANeg, AZero} ELSE {A345, A51213, A81517, A90}

MC_AnglesOf(gg) ==
  IF gg.cls = "par3deu" THEN EulerBase \X EulerBase \X EulerBase
  ELSE IF gg.dz # QZero THEN HelixAngles
  ELSE BaseAngles

Lin1 == { <<PL(Q(-5, 2))>>, <<PL(QZero)>>, <<PL(Q(5, 4))>> }
Lin2 == { <<PL(Q(-5, 2)), PL(I(1))>>, <<PL(QZero), PL(QZero)>>, <<PL(Q(5, 4)), PL(Q(-3, 2))>> }
Arc1 == { <<PA(Q(4, 5), Q(3, 5))>>, <<PA(QOne, QZero)>>, <<PA(Q(12, 13), Q(-5, 13))>> }
ArcLin == { <<PA(Q(4, 5), Q(3, 5)), PL(I(1))>>, <<PA(QOne, QZero), PL(QZero)>>, <<PA(Q(12, 13), Q(-5, 13)), PL(Q(-3, 2))>> }
ArcArc == { <<PA(Q(4, 5), Q(3, 5)), PA(Q(12, 13), Q(-5, 13))>>, <<PA(QOne, QZero), PA(QOne, QZero)>>,
            <<PA(Q(12, 13), Q(-5, 13)), PA(Q(4, 5), Q(3, 5))>> }

MC_ParamsOf(gg) ==
  CASE gg.det.kind = "circ" -> Arc1
    [] gg.det.kind = "cyl"  -> ArcLin
    [] gg.det.kind = "sph"  -> ArcArc
    [] OTHER -> IF NDim(gg.cls) = 2 THEN Lin1 ELSE Lin2

ExportLine ==
  Serialize(ToJson([g |-> cg, a |-> ca, u |-> cu, exp |-> Obs(cg, ca, cu), frame |-> Frame(cg)]) \o "\n",
            IOEnv.OUT_FILE,
            [format |-> "TXT", charset |-> "UTF-8",
             openOptions |-> <<"WRITE", "CREATE", "APPEND">>]).exitValue = 0
Export == ph = 1 => ExportLine

\* deliberately false (self-test: the invariant is not vacuous): a transposed rotation
BogusTransposed == (ph = 1 /\ cg.cls \in {"par2d", "fan"}) => RotAt(cg, ca) = MTranspose(RotAt(cg, ca))
=============================================================================

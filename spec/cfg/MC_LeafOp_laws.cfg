SPECIFICATION Spec
CONSTANTS
  Roots <- MC_Roots
  MaxChain <- MC_MaxChain
  PoolR <- MC_PoolR
  PoolC <- MC_PoolC
INVARIANT WellFormed
INVARIANT AdjointLaw
INVARIANT BiAdjointLaw
INVARIANT InverseLaw
INVARIANT DerivLaw
INVARIANT LinearityLaw
INVARIANT ExamplesHold
INVARIANT CurIsMeaning

SPECIFICATION Spec
INVARIANT CaseLaws
INVARIANT ImplRefines
INVARIANT Quirks
CONSTRAINT Export

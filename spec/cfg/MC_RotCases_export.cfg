SPECIFICATION Spec
INVARIANT CaseLaws
INVARIANT ImplRefines
CONSTRAINT Export

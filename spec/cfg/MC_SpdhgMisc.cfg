SPECIFICATION Spec

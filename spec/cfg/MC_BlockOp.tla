----------------------------- MODULE MC_BlockOp -----------------------------
(* Bounded instances of BlockOpMachine: the root descriptions (block patterns x leaf assignments x construction    *)
(* forms), the layer-C refinement statements and the per-state export (one JSON line per reachable object with     *)
(* everything layer A says about it).  Environment: BO_PROFILE = R | RW | RD | C (field and weights of V),          *)
(* BO_PART = small | smallA | smallB | wide | mixed | named | proj | all | mnp (family of roots; one TLC process    *)
(* per family),                                                                                                    *)
(* BO_SIZE = q | t (leaf assignments / patterns / points), BO_CHAIN = 2 | 3 (length of derivation chains).          *)
EXTENDS BlockOpMachine, Json, IOUtils

Impl == INSTANCE BlockOpImpl WITH RowZeroRangeBug <- (IOEnv.BO_ROWBUG # "0")

Profile  == IOEnv.BO_PROFILE
Part     == IOEnv.BO_PART
Thorough == IOEnv.BO_SIZE = "t"
Cplx     == Profile = "C"
R(n)     == CInt(n)
RQ(n, d) == CR(Q(n, d))
Z(a, b)  == <<QI(a), QI(b)>>

MC_W == CASE Profile = "RW" -> <<Q(2, 1), Q(1, 2)>>
          [] Profile = "RD" -> <<Q(1, 2), Q(1, 2)>>
          [] OTHER -> <<QOne, QOne>>
MC_PtV == IF Cplx THEN << <<Z(1, 1), R(2)>>, <<R(-1), Z(0, 2)>>, <<Z(0, 1), Z(1, -1)>> >>
          ELSE << <<R(1), R(2)>>, <<R(-1), R(3)>>, <<R(2), RQ(-1, 2)>> >>
MC_PtS == IF Cplx THEN << <<R(2)>>, <<Z(0, -1)>>, <<Z(1, 1)>> >> ELSE << <<R(2)>>, <<R(-3)>>, <<RQ(1, 2)>> >>
MC_MaxChain == IF IOEnv.BO_CHAIN = "3" THEN 3 ELSE 2
MC_NDeriv == IF Thorough THEN 2 ELSE 1

(* ------------------------------ leaf pools ------------------------------ *)
a1 == IF Cplx THEN Z(0, 1) ELSE R(2)
a2 == IF Cplx THEN Z(1, -1) ELSE RQ(-1, 2)
M1 == IF Cplx THEN << <<R(1), Z(0, 1)>>, <<R(0), R(2)>> >> ELSE << <<R(1), R(2)>>, <<R(0), R(-1)>> >>
v1 == IF Cplx THEN <<Z(1, 1), R(2)>> ELSE <<R(3), R(-1)>>
v2 == IF Cplx THEN <<R(-1), Z(0, 2)>> ELSE <<R(-2), RQ(1, 2)>>
v3 == <<R(1), R(-3)>>
RowM == IF Cplx THEN << <<Z(1, 1), R(2)>> >> ELSE << <<R(1), R(2)>> >>
ColM == IF Cplx THEN << <<Z(0, 1)>>, <<R(-1)>> >> ELSE << <<R(3)>>, <<R(-1)>> >>
L0(t)    == Leaf(t, CZero, <<>>, <<>>)
LA(t, a) == Leaf(t, a, <<>>, <<>>)
LV(t, v) == Leaf(t, CZero, v, <<>>)

PoolVV == << IdLeaf, LA("scale", a1), MatLeaf(M1), LV("mulvec", v1), ZeroLeaf, L0("sq"), LV("shift", v2),
             LV("const", v3), Un("lscal", a2, <<>>, 0, L0("sq")), Bin("sum", MatLeaf(M1), LA("scale", a2)) >>
PoolSS == << IdLeaf, LA("scale", a2), L0("sq"), LV("shift", <<R(2)>>), LV("const", <<R(-1)>>) >>
PoolVS == << MatLeaf(RowM), ZeroLeaf >>
PoolSV == << MatLeaf(ColM), ZeroLeaf >>
Pool(d, r) == IF d = "V" THEN (IF r = "V" THEN PoolVV ELSE PoolVS) ELSE (IF r = "V" THEN PoolSV ELSE PoolSS)
PickLeaf(d, r, k) == LET P == Pool(d, r) IN P[(k % Len(P)) + 1]

(* ------------------------------ PSO roots ------------------------------- *)
Rows(dom, ran, pat, k) ==
  [i \in 1..Len(ran) |-> [j \in 1..Len(dom) |->
     IF <<i, j>> \in pat THEN Blk(PickLeaf(dom[j], ran[i], k + 3 * ((i - 1) * Len(dom) + (j - 1))), dom[j], ran[i])
     ELSE NoB]]
HasEmptyCol(pat, m, n) == \E j \in 1..n : \A i \in 1..m : <<i, j>> \notin pat
HasEmptyRow(pat, m, n) == \E i \in 1..m : \A j \in 1..n : <<i, j>> \notin pat
Givens(pat, m, n) == {"none", "both"} \cup (IF HasEmptyCol(pat, m, n) THEN {"dom"} ELSE {})
                                      \cup (IF HasEmptyRow(pat, m, n) THEN {"ran"} ELSE {})
Pso(dom, ran, pat, k, g) ==
  Desc("pso", Rows(dom, ran, pat, k),
       IF g \in {"dom", "both"} THEN dom ELSE <<>>, IF g \in {"ran", "both"} THEN ran ELSE <<>>, <<>>, FALSE, 0)
\* quick instances write the explicit domain= / range= forms for the first leaf assignment only
MinOf(S) == CHOOSE m \in S : \A o \in S : m <= o
PsoFamily(dom, ran, pats, ks) ==
  { Pso(dom, ran, pg[1], pg[2], pg[3]) :
      pg \in { <<p, k, g>> \in pats \X ks \X {"none", "both", "dom", "ran"} :
                 g \in Givens(p, Len(ran), Len(dom)) /\ (Thorough \/ g = "none" \/ k = MinOf(ks)) } }

AllCells(m, n) == (1..m) \X (1..n)
Transpose(p) == { <<c[2], c[1]>> : c \in p }
Pats23 == { AllCells(2, 3) } \cup { AllCells(2, 3) \ {c} : c \in (IF Thorough THEN AllCells(2, 3) ELSE {<<1, 2>>, <<2, 1>>}) }
          \cup { {<<1, 1>>, <<1, 2>>, <<1, 3>>}, {<<1, 2>>, <<2, 2>>}, {<<1, 3>>, <<2, 1>>}, {<<1, 2>>, <<2, 1>>, <<2, 3>>} }
          \cup (IF Thorough THEN { {<<1, 1>>, <<2, 2>>}, {<<1, 1>>, <<1, 2>>, <<2, 3>>} } ELSE {})
Pats32 == { Transpose(p) : p \in Pats23 }

KS == IF Thorough THEN (IF Profile = "R" THEN 0..9 ELSE {0, 2, 4, 6, 8}) ELSE {0, 2, 7}
KW == IF Thorough THEN {0, 3, 5} ELSE {0}
V1 == <<"V">>
V2 == <<"V", "V">>
V3 == <<"V", "V", "V">>

\* (smallA / smallB: the small family split by the parity of the leaf assignment, for two TLC processes)
KSel == CASE Part = "smallA" -> { k \in KS : k % 2 = 0 } [] Part = "smallB" -> { k \in KS : k % 2 = 1 } [] OTHER -> KS
RootsSmall ==
  PsoFamily(V1, V1, SUBSET AllCells(1, 1), KSel) \cup PsoFamily(V2, V1, SUBSET AllCells(1, 2), KSel)
  \cup PsoFamily(V1, V2, SUBSET AllCells(2, 1), KSel) \cup PsoFamily(V2, V2, SUBSET AllCells(2, 2), KSel)
RootsWide == PsoFamily(V3, V2, Pats23, KW) \cup PsoFamily(V2, V3, Pats32, KW)

VS == <<"V", "S">>
KM == IF Thorough THEN 0..4 ELSE {0}
Clashes ==
  { Desc("pso", << <<Blk(IdLeaf, "V", "V")>>, <<Blk(IdLeaf, "S", "S")>> >>, <<>>, <<>>, <<>>, FALSE, 0),
    Desc("pso", << <<Blk(IdLeaf, "V", "V"), Blk(MatLeaf(RowM), "V", "S")>> >>, <<>>, <<>>, <<>>, FALSE, 0),
    Desc("pso", << <<Blk(IdLeaf, "V", "V"), Blk(LA("scale", a1), "V", "V")>> >>, VS, <<>>, <<>>, FALSE, 0),
    Desc("pso", << <<Blk(IdLeaf, "V", "V")>>, <<Blk(LA("scale", a1), "V", "V")>> >>, <<>>, VS, <<>>, FALSE, 0),
    Desc("pso", << <<Blk(IdLeaf, "V", "V"), NoB>>, <<NoB, Blk(L0("sq"), "S", "S")>> >>, V2, VS, <<>>, FALSE, 0) }
\* rows without any operator whose range factor differs from every domain factor (range= given)
EmptyRows ==
  { Desc("pso", << <<Blk(MatLeaf(RowM), "V", "S")>>, <<NoB>> >>, <<>>, <<"S", "S">>, <<>>, FALSE, 0),
    Desc("pso", << <<NoB, NoB>>, <<Blk(MatLeaf(RowM), "V", "S"), Blk(ZeroLeaf, "V", "S")>> >>, V2, <<"S", "S">>, <<>>, FALSE, 0),
    Desc("pso", << <<Blk(MatLeaf(ColM), "S", "V")>>, <<NoB>>, <<Blk(LA("scale", a1), "S", "S")>> >>, <<>>, <<"V", "V", "S">>, <<>>, FALSE, 0) }
RootsMixed ==
  PsoFamily(VS, VS, SUBSET AllCells(2, 2), KM)
  \cup PsoFamily(<<"S", "V">>, <<"V", "V", "S">>, { Transpose(p) : p \in {AllCells(2, 3), {<<1, 1>>, <<2, 2>>, <<1, 3>>}, {<<1, 2>>, <<2, 1>>, <<2, 3>>}} }, KM)
  \cup PsoFamily(<<"V", "S", "V">>, <<"S", "V">>, {AllCells(2, 3), {<<1, 1>>, <<2, 2>>, <<2, 3>>}, {<<1, 3>>, <<2, 1>>}}, KM)
  \cup Clashes \cup EmptyRows

(* --------------------- Broadcast / Reduction / Diagonal ----------------- *)
Named == {"bc", "red", "diag"}
PartsVV(n, k) == [i \in 1..n |-> Blk(PickLeaf("V", "V", k + 3 * (i - 1)), "V", "V")]
B(e, d, r) == Blk(e, d, r)
RootsNamed ==
  { Desc(kd, PartsVV(n, k), <<>>, <<>>, <<>>, FALSE, 0) : kd \in Named, n \in 1..3, k \in KS }
  \cup { Desc(kd, <<Blk(PoolVV[l], "V", "V")>>, <<>>, <<>>, <<>>, FALSE, n) : kd \in Named, l \in {1, 2, 6, 7}, n \in 1..3 }
  \cup { Desc("diag", PartsVV(2, k), V2, V2, <<>>, FALSE, 0) : k \in KS }
  \cup { Desc("bc", <<B(PoolVV[k + 1], "V", "V"), B(PoolVS[1], "V", "S")>>, <<>>, <<>>, <<>>, FALSE, 0) : k \in KM }
  \cup { Desc("bc", <<B(PoolSV[1], "S", "V"), B(PoolSS[k + 1], "S", "S"), B(PoolSV[2], "S", "V")>>, <<>>, <<>>, <<>>, FALSE, 0) : k \in KM }
  \cup { Desc("red", <<B(PoolVV[k + 1], "V", "V"), B(PoolSV[1], "S", "V")>>, <<>>, <<>>, <<>>, FALSE, 0) : k \in KM }
  \cup { Desc("red", <<B(PoolVS[1], "V", "S"), B(PoolSS[k + 1], "S", "S"), B(PoolVS[2], "V", "S")>>, <<>>, <<>>, <<>>, FALSE, 0) : k \in KM }
  \cup { Desc("diag", <<B(PoolVV[k + 1], "V", "V"), B(PoolSS[k + 1], "S", "S")>>, <<>>, <<>>, <<>>, FALSE, 0) : k \in KM }
  \cup { Desc("diag", <<B(PoolVS[1], "V", "S"), B(PoolSV[1], "S", "V")>>, <<>>, <<>>, <<>>, FALSE, 0),
         Desc("diag", <<B(PoolSS[2], "S", "S"), B(PoolVV[3], "V", "V"), B(PoolVS[1], "V", "S")>>, <<>>, <<>>, <<>>, FALSE, 0),
         Desc("bc", <<B(IdLeaf, "V", "V"), B(IdLeaf, "S", "S")>>, <<>>, <<>>, <<>>, FALSE, 0),
         Desc("red", <<B(IdLeaf, "V", "V"), B(IdLeaf, "S", "S")>>, <<>>, <<>>, <<>>, FALSE, 0) }

(* --------------------- ComponentProjection / Adjoint -------------------- *)
Spaces3 == { VS, <<"V", "S", "V">> } \cup (IF Thorough THEN { <<"S", "V", "V">> } ELSE {})
IdxOf(n) == { <<i>> : i \in 1..n } \cup { <<1, 2>>, <<2, 1>> }
            \cup (IF n = 3 THEN { <<1, 3>>, <<3, 1>>, <<2, 3>>, <<1, 2, 3>>, <<3, 2, 1>>, <<2, 3, 1>> } ELSE {})
RootsProj ==
  { Desc(kd, <<>>, sp, <<>>, idx, FALSE, 0) : kd \in {"proj", "emb"}, <<sp, idx>> \in { <<s, i>> \in Spaces3 \X IdxOf(3) : \A q \in 1..Len(i) : i[q] <= Len(s) } }
  \cup { Desc(kd, <<>>, sp, <<>>, <<i>>, TRUE, 0) : kd \in {"proj", "emb"}, <<sp, i>> \in { <<s, q>> \in Spaces3 \X (1..3) : q <= Len(s) } }

MC_Roots == CASE Part \in {"small", "smallA", "smallB"} -> RootsSmall [] Part = "wide" -> RootsWide [] Part = "mixed" -> RootsMixed
              [] Part = "named" -> RootsNamed [] Part = "proj" -> RootsProj
              [] Part = "all" -> RootsSmall \cup RootsWide \cup RootsMixed \cup RootsNamed \cup RootsProj
              [] Part = "mnp" -> RootsMixed \cup RootsNamed \cup RootsProj

(* --------------------------- layer C refines A -------------------------- *)
ImplCallRefines  == Live => Impl!CallRefines(cur, IF Thorough \/ chain = <<>> THEN EvalPts(cur.dom) ELSE {XPt(cur.dom, 0)})
ImplAliasRefines == Live => Impl!AliasRefines(cur, EvalPts(cur.dom))
ImplGetItemRefines == Live => Impl!GetItemRefines(cur)
ImplInitRefines ==
  /\ (chain = <<>> /\ root.k = "pso") => Impl!InitRefines(root.rows, root.dom, root.ran)
  /\ (chain = <<>> /\ root.k \in {"proj", "emb"}) => Impl!ProjEmbRefines(root, EvalPts)

(* ------------------------- non-vacuity probe ----------------------------- *)
\* NOT a law: the conjugate transpose of the blocks that IGNORES the weights of V is not the adjoint when V is weighted.
\* Run under BO_PROFILE = RW; TLC must produce a counter-example (the harness fails if it does not).
PlainAdjBlk(b) ==
  IF b.p THEN LET M == BlkMat(b)
              IN  Blk(MatLeaf(ForceMat([i \in 1..Dim(b.d) |-> [j \in 1..Dim(b.r) |-> CConj(M[j][i])]])), b.r, b.d)
  ELSE NoB
BogusUnweightedAdjoint ==
  (Live /\ LinearN(cur)) =>
     LET A == NF(AdjKind(cur.k), ForceMat([j \in 1..NCols(cur) |-> [i \in 1..NRows(cur) |-> PlainAdjBlk(cur.B[i][j])]]),
                 cur.ran, cur.dom, cur.rf, cur.df)
     IN  \A x \in BasisX(cur.dom), y \in BasisX(cur.ran) :
            InnerX(EvalN(cur, x), y, cur.ran) = InnerX(x, EvalN(A, y), cur.dom)

(* -------------------------------- export -------------------------------- *)
SeqOf(S) == LET RECURSIVE F(_) F(T) == IF T = {} THEN <<>> ELSE LET x == CHOOSE x \in T : TRUE IN <<x>> \o F(T \ {x}) IN F(S)

\* the meaning of (root, chain) recomputed from scratch; `cur` is exactly that (sanity invariant)
RECURSIVE Meaning(_, _)
Meaning(r, ch) == IF ch = <<>> THEN NormOp(r) ELSE Apply(Meaning(r, SubSeq(ch, 1, Len(ch) - 1)), ch[Len(ch)])
CurIsMeaning == (Thorough \/ Len(chain) <= 1) => cur = Meaning(root, chain)
\* the chain contains a P[i] step on a row that the current code cannot extract (open finding, see BlockOpImpl)
Defect == \E k \in 1..Len(chain) :
             chain[k].a = "row" /\ Impl!RowDefectCell(Meaning(root, SubSeq(chain, 1, k - 1)), chain[k].i)

Line ==
  IF ~cur.ok THEN [root |-> root, chain |-> chain, ok |-> FALSE, why |-> cur.why]
  ELSE IF cur.k = "int0" THEN [root |-> root, chain |-> chain, ok |-> TRUE, k |-> "int0", defect |-> Defect]
  ELSE LET pts == SeqOf(EvalPts(cur.dom))
           sq  == cur.dom = cur.ran /\ ~cur.df /\ ~cur.rf
       IN  [root |-> root, chain |-> chain, ok |-> TRUE, k |-> cur.k,
            dom |-> cur.dom, ran |-> cur.ran, df |-> cur.df, rf |-> cur.rf,
            lin |-> LinearN(cur), shape |-> ShapeN(cur), len |-> LenN(cur), size |-> SizeN(cur),
            present |-> SeqOf(Present(cur)),
            pts |-> pts, vals |-> [q \in 1..Len(pts) |-> EvalN(cur, pts[q])],
            square |-> sq, sep |-> Impl!Separable(cur), defect |-> Defect, aliasClaimed |-> AliasClaimed(root, cur),
            aliasCM |-> IF sq THEN [q \in 1..Len(pts) |-> Impl!CallInImpl(Impl!EntriesCM(cur.B), cur, pts[q], pts[q], TRUE)] ELSE <<>>,
            aliasRR |-> IF sq THEN [q \in 1..Len(pts) |-> Impl!CallInImpl(Impl!Reverse(Impl!EntriesRM(cur.B)), cur, pts[q], pts[q], TRUE)] ELSE <<>>,
            aliasRC |-> IF sq THEN [q \in 1..Len(pts) |-> Impl!CallInImpl(Impl!Reverse(Impl!EntriesCM(cur.B)), cur, pts[q], pts[q], TRUE)] ELSE <<>>,
            aliasC |-> IF sq THEN [q \in 1..Len(pts) |-> Impl!CallInImpl(Impl!EntriesRM(cur.B), cur, pts[q], pts[q], TRUE)] ELSE <<>>]

Export == Serialize(ToJson(Line) \o "\n", IOEnv.OUT_FILE,
                    [format |-> "TXT", charset |-> "UTF-8",
                     openOptions |-> <<"WRITE", "CREATE", "APPEND">>]).exitValue = 0
=============================================================================

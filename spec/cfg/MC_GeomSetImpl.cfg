SPECIFICATION Spec
CONSTANTS
  Fixed <- MC_FixedAll
INVARIANT Refines

SPECIFICATION Spec
CONSTANTS
  InitSt <- MC_Init
  MaxLen <- MC_MaxLen
  MaxObj <- MC_MaxObj
  Alph <- MC_Alph
PROPERTY BogusFrame

---------------------------- MODULE MC_DispatchImpl ----------------------------
EXTENDS DispatchImpl, Json, IOUtils
Export == Serialize(ToJson([sig |-> sig, beh |-> beh, xk |-> xk, ok |-> ok, fnl |-> fnl,
                            protocol |-> Protocol, impl |-> Impl]) \o "\n", IOEnv.OUT_FILE,
                    [format |-> "TXT", charset |-> "UTF-8",
                     openOptions |-> <<"WRITE", "CREATE", "APPEND">>]).exitValue = 0
=============================================================================

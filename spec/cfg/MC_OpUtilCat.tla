---------------------------- MODULE MC_OpUtilCat ----------------------------
(* The catalogue of operator expressions shared by MC_OpUtil (layer A / B) and MC_OpUtilImpl (layer C).       *)
EXTENDS OpUtilSem
R(n) == CInt(n)
RQ(n, d) == CR(Q(n, d))
Z(a, b) == <<QI(a), QI(b)>>

(* ------------------------------ expr ------------------------------------ *)
R2 == TSp(<<2>>, QOne, FALSE)       R3 == TSp(<<3>>, QOne, FALSE)
R2w == TSp(<<2>>, QI(2), FALSE)
R23 == TSp(<<2, 3>>, QOne, FALSE)   R23w == TSp(<<2, 3>>, Q(1, 2), FALSE)
R22 == TSp(<<2, 2>>, QOne, FALSE)
C2 == TSp(<<2>>, QOne, TRUE)        C23 == TSp(<<2, 3>>, QOne, TRUE)
P22 == PSp(<<R2, R2>>)              P23 == PSp(<<R2, R3>>)
PP == PSp(<<P22, P22>>)             PX == PSp(<<R23, R23>>)
PC == PSp(<<C2, C2>>)

Id(sp) == OLeaf("id", sp, CZero, <<>>, <<>>, 0)
Sc(sp, a) == OLeaf("scale", sp, a, <<>>, <<>>, 0)
Ramp(n, cplx) == [i \in 1..n |-> IF cplx THEN Z(i, (i % 2) * 2 - 1) ELSE R(i - 2)]
Mv(sp) == OLeaf("mulvec", sp, CZero, Ramp(SizeOf(sp), sp.cplx), <<>>, 0)
Ma(sp, m, ax) == OLeaf("mataxis", sp, CZero, <<>>, m, ax)
Fl(sp, ord) == OLeaf("flatten", sp, CZero, <<>>, <<>>, ord)
Pr(sp, i) == OLeaf("proj", sp, CZero, <<>>, <<>>, i)
Em(sp, i) == OLeaf("emb", sp, CZero, <<>>, <<>>, i)
Ce(sp) == OLeaf("cembed", sp, CZero, <<>>, <<>>, 0)
Sq(sp) == OLeaf("sq", sp, CZero, <<>>, <<>>, 0)
Ze(sp) == OLeaf("zero", sp, CZero, <<>>, <<>>, 0)
M32 == <<<<R(1), R(2)>>, <<R(3), R(4)>>, <<R(5), R(6)>>>>
M23 == <<<<R(1), R(2), R(3)>>, <<R(4), R(5), R(-6)>>>>
M22 == <<<<R(1), R(2)>>, <<R(0), R(-1)>>>>
M13 == <<<<R(1), R(-1), R(2)>>>>
M23c == <<<<R(1), Z(0, 1), R(3)>>, <<Z(1, 1), R(0), R(-2)>>>>
M22c == <<<<R(1), Z(0, 1)>>, <<R(2), Z(1, -1)>>>>

ExprLeaves ==
  { Id(R2), Id(R23), Id(R23w), Id(C2), Id(P22), Id(P23), Id(PP), Id(PX), Id(PC),
    Sc(R3, R(2)), Sc(R23, R(-3)), Sc(C2, Z(0, 1)), Sc(P22, R(2)),
    Mv(R3), Mv(R23), Mv(R23w), Mv(C2), Mv(C23),
    Ma(R2, M32, 0), Ma(R2w, M32, 0), Ma(R3, M23, 0), Ma(R23, M32, 0), Ma(R23, M23, 1), Ma(R23, M13, 1),
    Ma(R23w, M23, 1), Ma(R22, M22, 0), Ma(R22, M22, 1), Ma(C23, M23c, 1), Ma(C2, M22c, 0), Ma(R22, M32, 1),
    Fl(R23, 0), Fl(R23, 1), Fl(R22, 1), Fl(C23, 1),
    Pr(P22, 0), Pr(P22, 1), Pr(P23, 1), Pr(PX, 1), Pr(PP, 0), Em(P22, 1), Em(PX, 0), Em(P23, 0),
    Ce(R2), Ce(R23), Sq(R2), Sq(R23), Ze(R23), Ze(P22) }
ExprComb ==
  { OBin("comp", Ma(R3, M23, 0), Ma(R2, M32, 0)), OBin("comp", Ma(R2, M32, 0), Ma(R3, M23, 0)),
    OBin("comp", Ma(R23, M23, 1), Ma(R23, M22, 0)), OBin("comp", Fl(R22, 1), Ma(R23, M23, 1)),
    OBin("comp", Mv(C2), Ce(R2)), OBin("comp", Sq(R2), Id(R2)), OBin("comp", Id(R2), Sq(R2)),
    OBin("sum", Id(R23), Sc(R23, R(2))), OBin("sum", Ma(R22, M22, 0), Ma(R22, M22, 1)), OBin("sum", Sq(R2), Id(R2)),
    OUn("lscal", R(3), Ma(R23, M23, 1)), OUn("lscal", Z(1, 1), Mv(C2)), OUn("lscal", R(2), Sq(R2)),
    OBin("bcast", Id(R2), Sc(R2, R(2))), OBin("bcast", Id(R2), Ma(R2, M32, 0)), OBin("bcast", Id(R23), Mv(R23)),
    OBin("bcast", Ma(R2, M22, 0), Ma(R2, M32, 0)),
    OBin("red", Id(R2), Ma(R2, M22, 0)), OBin("red", Ma(R2, M32, 0), Ma(R2, M32, 0)), OBin("red", Id(R2), Ma(R3, M23, 0)),
    OBin("diag", Ma(R2, M22, 0), Id(R2)), OBin("diag", Ma(R2, M32, 0), Id(R2)), OBin("diag", Mv(R23), Id(R23)),
    OBin("diag", Mv(C2), Sc(C2, Z(0, 1))),
    OBin("comp", Pr(P22, 1), OBin("bcast", Id(R2), Ma(R2, M22, 0))),
    OBin("comp", OBin("red", Id(R2), Ma(R2, M22, 0)), OBin("diag", Ma(R2, M22, 0), Id(R2))),
    OBin("comp", OBin("bcast", Id(R2), Sc(R2, R(2))), OBin("red", Id(R2), Id(R2))) }
ExprCases == { [part |-> "expr", e |-> e] : e \in ExprLeaves \cup ExprComb }

=============================================================================

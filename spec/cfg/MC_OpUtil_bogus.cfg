SPECIFICATION Spec
CONSTANTS
  Cases <- MC_Cases
  MaxK <- MC_MaxK
INVARIANT BogusDomainAxesFirst

SPECIFICATION Spec
CONSTANTS
  Cfgs <- MC_Cfgs
CONSTRAINT Export
INVARIANT AdjointIsTranspose
INVARIANT DivIsMinusGradAdjoint
INVARIANT DerivativeIsZeroPadding
INVARIANT AxisLaws
INVARIANT ApplyAgreesWithMatrix
INVARIANT ImplCorrect

---------------------------- MODULE MC_SpdhgImpl ----------------------------
(* Bounded instance of SpdhgImpl: the calls of the catalogue under the option spellings of spdhg_generic (y / z given  *)
(* or defaulted, extra given or defaulted, mu_g given or not), every list order of every selection of <= 3 blocks.     *)
EXTENDS SpdhgImpl, MC_SpdhgCat, IOUtils

Opt(yy, zz, mg, ex) == [y |-> yy, z |-> zz, mug |-> mg, extra |-> ex]
G == "given"
N == "none"
MC_Calls == << [c |-> K1, opt |-> Opt(N, N, N, N)], [c |-> K1, opt |-> Opt(G, G, N, G)],
               [c |-> K2, opt |-> Opt(G, G, N, G)], [c |-> K2, opt |-> Opt(G, N, N, N)], [c |-> K2, opt |-> Opt(N, N, N, G)],
               [c |-> K3, opt |-> Opt(N, N, N, N)],
               [c |-> K4, opt |-> Opt(G, G, N, G)], [c |-> K4, opt |-> Opt(G, N, N, G)],
               [c |-> K5, opt |-> Opt(G, N, N, N)], [c |-> K8, opt |-> Opt(G, N, N, N)],
               [c |-> K9, opt |-> Opt(N, N, G, G)], [c |-> K10, opt |-> Opt(G, G, G, N)], [c |-> K10, opt |-> Opt(G, N, G, G)] >>
Perms(S) == {s \in [1..Cardinality(S) -> S] : \A a, b \in 1..Cardinality(S) : a # b => s[a] # s[b]}
MC_SelLists(nb) == UNION {Perms(S) : S \in SUBSET (1..nb)}
MC_NIter == IF IOEnv.SP_LEN = "4" THEN 3 ELSE 2
=============================================================================

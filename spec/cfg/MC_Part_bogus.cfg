SPECIFICATION Spec
CONSTANTS
  Mode <- MC_Mode
  Parts <- MC_Parts
  Others <- MC_Others
  UCases <- MC_UCases
INVARIANT BogusIndexLaw

SPECIFICATION Spec
CONSTANTS
  Shapes <- MC_Shapes
  Values <- MC_Values
  MaxLen <- MC_MaxLen
CONSTRAINT Export

----------------------------- MODULE MC_RotCases -----------------------------
(***************************************************************************)
(* Case enumeration over layer A (RotSem): every case of the selected      *)
(* group (IOEnv.ROT_GROUP) is one initial state; TLC checks the laws of    *)
(* the reference on it (CaseLaws), checks that the transcribed decision    *)
(* structure of the code refines the reference (RotImpl, where it applies) *)
(* and exports the case with the documented expectation.                   *)
(***************************************************************************)
EXTENDS RotImpl, Json, IOUtils
VARIABLE c
Group == IOEnv.ROT_GROUP
Thorough == IOEnv.ROT_TIER = "thorough"
I(n) == QI(n)
S(x) == [sh |-> <<>>, v |-> <<x>>]                   \* scalar argument
V1(xs) == [sh |-> <<Len(xs)>>, v |-> xs]            \* 1-d array argument
Arr(sh, xs) == [sh |-> sh, v |-> xs]

A0 == CsZero            A90 == <<QZero, QOne>>     A180 == <<I(-1), QZero>>     A270 == <<QZero, I(-1)>>
A34 == <<Q(3, 5), Q(4, 5)>>       A43 == <<Q(4, 5), Q(3, 5)>>      Am34 == <<Q(3, 5), Q(-4, 5)>>
Ao34 == <<Q(-3, 5), Q(4, 5)>>     A513 == <<Q(5, 13), Q(12, 13)>>  A725 == <<Q(7, 25), Q(24, 25)>>
Ang8 == {A0, A90, A180, A270, A34, Am34, Ao34, A513}
Ang5 == {A0, A90, A34, Am34, A180}
K122 == <<Q(1, 3), Q(2, 3), Q(2, 3)>>      K212 == <<Q(-2, 3), Q(1, 3), Q(2, 3)>>
K236 == <<Q(2, 7), Q(3, 7), Q(6, 7)>>      K034 == <<QZero, Q(3, 5), Q(-4, 5)>>
Axes7 == {E3(1), E3(2), E3(3), K122, K212, K236, K034}
IV(s) == [i \in 1..Len(s) |-> I(s[i])]              \* integer vector

EulerCases ==
  { [fn |-> "euler", phi |-> S(a), theta |-> NoArg, psi |-> NoArg] : a \in Ang8 \cup {A725} }
  \cup { [fn |-> "euler", phi |-> S(a), theta |-> t, psi |-> p] :
           a \in Ang8, t \in {S(x) : x \in Ang5} \cup {NoArg}, p \in {S(x) : x \in Ang5} \cup {NoArg} }
  \cup { [fn |-> "euler", phi |-> a, theta |-> t, psi |-> p] :
           a \in {V1(<<A90, A34, Am34>>), Arr(<<1, 3>>, <<A0, A513, A180>>)},
           t \in {NoArg, S(A90), V1(<<A34, A0, A90>>)}, p \in {NoArg, S(A34), V1(<<A180, A90, Am34>>)} }
  \cup { [fn |-> "euler", phi |-> Arr(<<2, 1>>, <<A90, A34>>), theta |-> t, psi |-> p] :
           t \in {NoArg, V1(<<A0, A90, A34>>), S(Am34)}, p \in {NoArg, S(A90), Arr(<<2, 3>>, <<A0, A90, A180, A270, A34, Am34>>)} }
  \cup { [fn |-> "euler", phi |-> V1(<<a>>), theta |-> NoArg, psi |-> NoArg] : a \in {A34, A90} }
  \cup { [fn |-> "euler", phi |-> S(A34), theta |-> V1(<<A90, A34>>), psi |-> NoArg],
         [fn |-> "euler", phi |-> S(A90), theta |-> NoArg, psi |-> V1(<<A90, A34>>)],
         [fn |-> "euler", phi |-> V1(<<>>), theta |-> NoArg, psi |-> NoArg] }
EulerOK(x) == ~(x.phi = NoArg) /\ ~(x.theta # NoArg /\ x.psi # NoArg /\ FALSE)

AxMatCases ==
  { [fn |-> "axmat", k |-> k, ang |-> S(a)] : k \in Axes7, a \in Ang8 }
  \cup { [fn |-> "axmat", k |-> k, ang |-> a] : k \in {E3(3), K122, K236},
          a \in {V1(<<A90, A34, Am34>>), V1(<<A513>>), Arr(<<2, 2>>, <<A0, A90, A34, A180>>), V1(<<>>)} }
Vecs3 == {IV(<<1, 0, 0>>), IV(<<0, 1, 0>>), IV(<<1, 2, 2>>), <<Q(1, 2), I(-3), Q(5, 4)>>}
AxRotCases ==
  { [fn |-> "axrot", k |-> k, cs |-> a, vecs |-> vs, single |-> sg, s |-> s] :
      k \in {E3(3), E3(1), K122, K034}, a \in {A90, A34, Am34, A180},
      vs \in {<<IV(<<1, 0, 0>>)>>, <<IV(<<1, 2, 2>>), IV(<<0, 1, 0>>)>>, <<<<Q(1, 2), I(-3), Q(5, 4)>>, IV(<<0, 0, 1>>), IV(<<2, 0, -1>>)>>},
      sg \in BOOLEAN, s \in {NONE, IV(<<0, 0, 2>>), IV(<<1, 0, 0>>), IV(<<-1, 2, 1>>)} }
AxRotOK(x) == x.single => Len(x.vecs) = 1

U2 == {IV(<<1, 0>>), IV(<<0, 1>>), IV(<<3, 4>>), IV(<<-4, 3>>), IV(<<6, 8>>), IV(<<-3, -4>>), IV(<<5, 12>>), IV(<<0, -2>>),
       <<Q(3, 10), Q(-2, 5)>>}
U3 == {IV(<<1, 0, 0>>), IV(<<0, 0, 1>>), IV(<<0, -2, 0>>), IV(<<1, 2, 2>>), IV(<<2, -1, 2>>), IV(<<-1, -2, -2>>), IV(<<2, 4, 4>>),
       IV(<<2, 3, 6>>), IV(<<0, 3, 4>>), IV(<<-2, -3, -6>>), IV(<<0, 0, -3>>), <<Q(1, 2), I(1), I(1)>>}
FromToCases == { [fn |-> "fromto", u |-> u, v |-> v] : u \in U2, v \in U2 } \cup { [fn |-> "fromto", u |-> u, v |-> v] : u \in U3, v \in U3 }

Rz34 == RotZ(A34)
M2s == {NONE, Rot2(A34), MScale(I(2), Rot2(A90)), << <<I(2), I(1)>>, <<QZero, I(1)>> >>}
M3s == {NONE, Rz34, MScale(Q(1, 2), Rodrigues(K122, A90)), << <<I(1), I(1), QZero>>, <<QZero, I(1), QZero>>, <<QZero, I(2), I(1)>> >>}
O2s == {<<>>, <<IV(<<1, 0>>)>>, <<IV(<<1, 0>>), NONE, <<Q(1, 2), I(-3)>>>>, <<NONE>>}
O3s == {<<>>, <<IV(<<1, 0, 0>>), IV(<<0, 1, 0>>), IV(<<0, 0, 1>>)>>, <<IV(<<1, 2, 2>>), NONE, <<Q(1, 2), I(-3), QZero>>>>}
P2 == {IV(<<0, 1>>), IV(<<3, 4>>), IV(<<-6, -8>>), IV(<<0, -2>>), IV(<<4, -3>>), IV(<<5, 12>>), IV(<<-10, -24>>)}
P3 == {IV(<<0, 1, 0>>), IV(<<1, 2, 2>>), IV(<<-2, -4, -4>>), IV(<<0, 0, -3>>), IV(<<2, 3, 6>>), IV(<<0, 2, 0>>), IV(<<0, -1, 0>>)}
TSysCases ==
  { [fn |-> "tsys", pv |-> pv, pd |-> pd, others |-> o, mat |-> m] : pv \in P2, pd \in P2, o \in O2s, m \in M2s }
  \cup { [fn |-> "tsys", pv |-> pv, pd |-> pd, others |-> o, mat |-> m] : pv \in P3, pd \in P3, o \in O3s, m \in M3s }
\* with an explicit matrix principal_default is ignored: one default suffices (two, to see that it is ignored)
TSysOK(x) == x.mat = NONE \/ x.pd \in {IV(<<0, 1>>), IV(<<5, 12>>), IV(<<0, 1, 0>>), IV(<<2, 3, 6>>)}

PV == {IV(<<0, 1>>), IV(<<1, 0>>), IV(<<3, 4>>), IV(<<-5, 12>>), IV(<<0, -2>>), <<Q(-3, 2), QZero>>,
       IV(<<0, 1, 0>>), IV(<<0, 0, 1>>), IV(<<1, 0, 0>>), IV(<<3, 4, 12>>), IV(<<0, -3, 7>>), IV(<<-8, 6, -1>>), IV(<<0, 0, -5>>),
       <<Q(3, 2), I(-2), Q(1, 3)>>, IV(<<0, 0, 1, 0>>), IV(<<0, 0, 0, -2>>), IV(<<4, -3, 5, 1>>), IV(<<0, 5, 0, 2>>)}
PerpCases ==
  { [fn |-> "perp", sh |-> <<>>, vecs |-> <<v>>] : v \in PV }
  \cup { [fn |-> "perp", sh |-> <<1>>, vecs |-> <<v>>] : v \in {IV(<<3, 4>>), IV(<<0, 0, 1>>), IV(<<4, -3, 5, 1>>)} }
  \cup { [fn |-> "perp", sh |-> <<2>>, vecs |-> <<IV(<<0, 1, 0>>), IV(<<0, 0, 1>>)>>],
         [fn |-> "perp", sh |-> <<3>>, vecs |-> <<IV(<<3, 4>>), IV(<<0, -1>>), IV(<<12, 5>>)>>],
         [fn |-> "perp", sh |-> <<3>>, vecs |-> <<IV(<<3, 4, 1>>), IV(<<0, 0, 2>>), IV(<<0, 5, 0>>)>>],
         [fn |-> "perp", sh |-> <<2, 2>>, vecs |-> <<IV(<<0, 1, 0>>), IV(<<0, 0, -1>>), IV(<<-3, 4, 9>>), IV(<<1, 0, 0>>)>>],
         [fn |-> "perp", sh |-> <<2, 1>>, vecs |-> <<IV(<<0, 0, 3, 4>>), IV(<<6, 8, 0, 1>>)>>] }

H(n) == Q(n, 2)
Boxes == { [lo |-> <<I(0)>>, hi |-> <<I(1)>>], [lo |-> <<H(-3)>>, hi |-> <<H(-3)>>],
           [lo |-> IV(<<0, 0>>), hi |-> IV(<<1, 2>>)], [lo |-> <<H(-1), I(1)>>, hi |-> <<H(1), I(1)>>],
           [lo |-> IV(<<-1, 0, 2>>), hi |-> <<I(1), H(1), I(3)>>] }
Coords == {I(0), I(1), I(2), I(-1), H(1), H(-3), I(3), H(5)}
\* mode "zip": points given as they are; mode "mesh": one coordinate list per axis, all combinations (broadcasting)
InsideCases ==
  { [fn |-> "inside", lo |-> b.lo, hi |-> b.hi, mode |-> "zip", pts |-> <<p>>] :
      b \in {bb \in Boxes : Len(bb.lo) = 1}, p \in {<<x>> : x \in Coords} }
  \cup { [fn |-> "inside", lo |-> b.lo, hi |-> b.hi, mode |-> "zip", pts |-> ps] :
      b \in {bb \in Boxes : Len(bb.lo) = 1}, ps \in {<<<<I(0)>>, <<I(1)>>, <<H(1)>>>>, <<<<H(1)>>, <<I(2)>>>>, <<<<H(-3)>>, <<H(-3)>>>>} }
  \cup { [fn |-> "inside", lo |-> b.lo, hi |-> b.hi, mode |-> "zip", pts |-> <<<<x, y>>>>] :
      b \in {bb \in Boxes : Len(bb.lo) = 2}, x \in {I(0), I(1), H(1), I(-1), H(-1)}, y \in {I(0), I(1), I(2), I(3), H(1)} }
  \cup { [fn |-> "inside", lo |-> b.lo, hi |-> b.hi, mode |-> "mesh", pts |-> ax] :
      b \in {bb \in Boxes : Len(bb.lo) = 2},
      ax \in { <<<<I(0), I(0), I(1), I(0), I(1)>>, <<I(2), I(0), I(1)>>>>, <<<<I(0), I(0), I(1), I(0), I(1)>>, <<I(-2), I(1)>>>>,
               <<<<H(1), I(0)>>, <<I(1)>>>>, <<<<H(-1), H(1)>>, <<I(1), I(1)>>>>, <<<<I(0)>>, <<I(1), H(5)>>>> } }
  \cup { [fn |-> "inside", lo |-> b.lo, hi |-> b.hi, mode |-> m, pts |-> ps] :
      b \in {bb \in Boxes : Len(bb.lo) = 3}, m \in {"zip"},
      ps \in { <<<<I(0), I(0), I(2)>>>>, <<<<I(-1), H(1), I(3)>>, <<I(1), I(0), H(5)>>>>, <<<<I(0), I(1), I(2)>>>>, <<<<I(0), H(1), H(7)>>>> } }
  \cup { [fn |-> "inside", lo |-> IV(<<-1, 0, 2>>), hi |-> <<I(1), H(1), I(3)>>, mode |-> "mesh", pts |-> ax] :
      ax \in { <<<<I(-1), I(0)>>, <<I(0), H(1)>>, <<I(2), H(5), I(3)>>>>, <<<<I(-1), I(0)>>, <<I(0), I(1)>>, <<I(2)>>>> } }

(* ------------------------------ phantoms ------------------------------- *)
Ell(val, ax, cc, rot) == [val |-> val, ax |-> ax, c |-> cc, rot |-> rot]
El1 == Ell(I(1), <<Q(3, 4), Q(1, 2)>>, <<QZero, QZero>>, <<A0>>)
El2 == Ell(I(2), <<Q(1, 2), Q(1, 4)>>, <<Q(1, 4), Q(-1, 4)>>, <<A34>>)
El3 == Ell(I(-1), <<Q(3, 8), Q(3, 4)>>, <<Q(-1, 2), Q(1, 4)>>, <<A90>>)
El4 == Ell(Q(1, 2), <<I(1), Q(3, 10)>>, <<QZero, QZero>>, <<Am34>>)
El5 == Ell(I(1), <<Q(7, 8), Q(1, 8)>>, <<QZero, Q(1, 2)>>, <<A43>>)
EllLists2 == {<<El1>>, <<El2>>, <<El1, El2>>, <<El1, El2, El3>>, <<El4, El3>>, <<El5>>, <<>>}
Shapes2 == {<<5, 5>>, <<8, 6>>, <<1, 7>>, <<7, 1>>, <<4, 9>>, <<10, 3>>, <<2, 2>>}
F1 == Ell(I(1), <<Q(3, 4), Q(1, 4), Q(1, 4)>>, <<QZero, QZero, QZero>>, <<A90, A90, A0>>)
F2 == Ell(I(2), <<Q(1, 2), Q(1, 2), Q(3, 4)>>, <<Q(1, 4), QZero, Q(-1, 4)>>, <<A0, A0, A0>>)
F3 == Ell(I(-1), <<Q(3, 4), Q(1, 2), Q(1, 4)>>, <<QZero, QZero, QZero>>, <<A34, A0, A0>>)
F4 == Ell(I(1), <<Q(1, 4), Q(1, 2), Q(3, 4)>>, <<QZero, Q(1, 4), QZero>>, <<A0, A90, A34>>)
F5 == Ell(Q(1, 2), <<Q(7, 8), Q(1, 4), Q(1, 2)>>, <<QZero, QZero, QZero>>, <<A0, A90, A0>>)
F6 == Ell(I(1), <<Q(1, 4), Q(7, 8), Q(1, 4)>>, <<QZero, QZero, QZero>>, <<A90, A0, A0>>)
F7 == Ell(I(1), <<Q(1, 4), Q(7, 8), Q(1, 4)>>, <<QZero, QZero, QZero>>, <<A90, A90, A0>>)
EllLists3 == {<<F2>>, <<F1>>, <<F3>>, <<F4>>, <<F2, F3>>, <<F5>>, <<F6>>, <<F7>>, <<F2, F4, F5>>}
Shapes3 == {<<5, 5, 5>>, <<4, 6, 3>>, <<7, 1, 5>>, <<3, 3, 9>>}
BoxesFor(shape) ==
  {[i0 |-> NONE, i1 |-> NONE]} \cup
  (IF \A a \in 1..Len(shape) : shape[a] >= 4
     THEN {[i0 |-> [a \in 1..Len(shape) |-> IF a = 1 THEN 1 ELSE 0], i1 |-> [a \in 1..Len(shape) |-> shape[a] - 1]],
           [i0 |-> [a \in 1..Len(shape) |-> a - 1], i1 |-> shape],
           [i0 |-> [a \in 1..Len(shape) |-> IF a = 2 THEN 2 ELSE 1], i1 |-> NONE],
           [i0 |-> NONE, i1 |-> [a \in 1..Len(shape) |-> shape[a] - (IF a = 1 THEN 2 ELSE 1)]]}
     ELSE {})
EllCases ==
  { [fn |-> "ell", shape |-> sh, ells |-> el, i0 |-> b.i0, i1 |-> b.i1, cyl |-> FALSE] :
      sh \in Shapes2, el \in EllLists2, b \in UNION {BoxesFor(s) : s \in Shapes2} }
  \cup { [fn |-> "ell", shape |-> sh, ells |-> el, i0 |-> b.i0, i1 |-> b.i1, cyl |-> FALSE] :
      sh \in Shapes3, el \in EllLists3, b \in UNION {BoxesFor(s) : s \in Shapes3} }
  \cup { [fn |-> "ell", shape |-> sh, ells |-> el, i0 |-> NONE, i1 |-> NONE, cyl |-> TRUE] :
      sh \in {<<5, 5, 3>>, <<8, 6, 1>>, <<4, 9, 2>>}, el \in EllLists2 }
EllOK(x) == [i0 |-> x.i0, i1 |-> x.i1] \in BoxesFor(x.shape)

AxS(lo, hi, n) == [lo |-> lo, hi |-> hi, n |-> n]
Spaces == { <<AxS(I(0), I(1), 4)>>, <<AxS(I(-2), I(2), 1)>>, <<AxS(I(0), I(1), 4), AxS(I(0), I(1), 6)>>,
            <<AxS(I(-1), I(3), 8), AxS(I(2), I(4), 5)>>, <<AxS(H(-1), H(1), 3), AxS(I(0), I(8), 2), AxS(I(-4), I(4), 4)>>,
            <<AxS(I(0), I(2), 4), AxS(I(0), I(2), 4), AxS(I(0), I(1), 2)>>,
            <<AxS(I(0), I(1), 12)>>, <<AxS(I(-1), I(3), 9), AxS(I(2), I(4), 16)>> }
CubPts(n) == IF n = 1 THEN {NONE, <<Q(1, 4)>>, <<Q(-1, 1)>>, <<Q(3, 8)>>, <<Q(7, 4)>>}
             ELSE IF n = 2 THEN {NONE, <<Q(1, 4), QZero>>, <<Q(3, 4), Q(1, 2)>>, <<Q(1, 2), Q(7, 2)>>, <<Q(5, 2), Q(4, 1)>>, <<Q(-1, 1), Q(2, 1)>>}
             ELSE {NONE, <<Q(-1, 4), I(1), I(-3)>>, <<Q(1, 4), I(5), I(1)>>, <<Q(1, 2), Q(1, 2), Q(1, 4)>>, <<Q(3, 2), Q(3, 2), Q(3, 4)>>}
CubCases == { [fn |-> "cub", sp |-> sp, lo |-> lo, hi |-> hi] : sp \in Spaces, lo \in UNION {CubPts(n) : n \in 1..3}, hi \in UNION {CubPts(n) : n \in 1..3} }
CubOK(x) == (x.lo = NONE \/ Len(x.lo) = Len(x.sp)) /\ (x.hi = NONE \/ Len(x.hi) = Len(x.sp))

Cases ==
  CASE Group = "euler" -> {x \in EulerCases : EulerOK(x)}
    [] Group = "axis" -> AxMatCases \cup {x \in AxRotCases : AxRotOK(x)}
    [] Group = "fromto" -> FromToCases
    [] Group = "tsys" -> {x \in TSysCases : TSysOK(x)}
    [] Group = "misc" -> PerpCases \cup InsideCases
    [] Group = "ell" -> {x \in EllCases : EllOK(x)}
    [] Group = "cub" -> {x \in CubCases : CubOK(x)}

(* -------------------- expectation, laws, refinement -------------------- *)
NoExp == [k |-> "rel"]                   \* only relational clauses: the trace specification decides
Exp(x) ==
  CASE x.fn = "euler" -> [k |-> "mats", v |-> EulerVec(x.phi, x.theta, x.psi)]
    [] x.fn = "axmat" -> [k |-> "mats", v |-> AxisRotMatVec(x.k, x.ang)]
    [] x.fn = "axrot" -> [k |-> "vecs", v |-> [i \in 1..Len(x.vecs) |-> AxisRot(x.k, x.cs, x.vecs[i], x.s)]]
    [] x.fn = "fromto" -> IF FromToCell(x.u, x.v) \in {"2d", "3d", "3d-parallel"}
                            THEN [k |-> "mat", v |-> RotFromTo(GUnit(x.u), GUnit(x.v)), cell |-> FromToCell(x.u, x.v)]
                            ELSE [k |-> "rel", cell |-> FromToCell(x.u, x.v)]
    [] x.fn = "tsys" -> IF TSysDetermined(x.pv, x.pd, x.mat)
                          THEN [k |-> "vecs", v |-> TSysExpected(x.pv, x.pd, x.others, x.mat), cell |-> TSysCell(x.pv, x.pd, x.mat)]
                          ELSE [k |-> "rel", cell |-> TSysCell(x.pv, x.pd, x.mat)]
    [] x.fn = "perp" -> NoExp
    [] x.fn = "inside" -> [k |-> "bool", v |-> InsideBounds(InsidePts(x.mode, x.pts), x.lo, x.hi)]
    [] x.fn = "ell" -> [k |-> "arr", cell |-> BoxCell(x.i0, x.i1),
                        v |-> IF x.cyl THEN CylPhantom(x.shape, x.ells) ELSE EllPhantomBox(x.shape, x.ells, x.i0, x.i1)]
    [] x.fn = "cub" -> IF CubDemanded(x.lo, x.hi) THEN [k |-> "arr", v |-> CubPhantom(x.sp, x.lo, x.hi)] ELSE NoExp

CaseLaws ==
  CASE c.fn = "euler" -> LET r == EulerVec(c.phi, c.theta, c.psi) IN
                           /\ \A i \in 1..Len(r.mats) : IsRotation(r.mats[i])
                           /\ Len(r.mats) = Prod(r.sh)
    [] c.fn = "axmat" -> LET r == AxisRotMatVec(c.k, c.ang) IN
                           \A i \in 1..Len(r.mats) : IsRotation(r.mats[i]) /\ MatVec(r.mats[i], c.k) = c.k
    [] c.fn = "axrot" -> \A i \in 1..Len(c.vecs) :
                           /\ (c.s # NONE => ShiftLaw(c.k, c.cs, c.vecs[i], c.s))
                           /\ AxisRot(c.k, CsNeg(c.cs), AxisRot(c.k, c.cs, c.vecs[i], c.s), c.s) = c.vecs[i]
    [] c.fn = "fromto" -> /\ FromToPosed(c.u, c.v)
                          /\ FromToCell(c.u, c.v) \in {"2d", "3d", "3d-parallel"} =>
                               /\ FromToLaw(c.u, c.v)
                               /\ FromToClauses(c.u, c.v, RotFromTo(GUnit(c.u), GUnit(c.v))) = {}
    [] c.fn = "tsys" -> TSysDetermined(c.pv, c.pd, c.mat) =>
                          TSysClauses(c.pv, c.pd, c.others, c.mat, TSysExpected(c.pv, c.pd, c.others, c.mat)) = {}
    [] c.fn = "ell" -> \* a phantom of one more ellipse = the sum (where both are demanded); values of the empty list are 0
                       c.cyl \/
                       LET ph == EllPhantom(c.shape, c.ells) IN
                       /\ Len(ph) = Prod(c.shape)
                       /\ c.ells = <<>> => \A k \in 1..Len(ph) : ph[k] = QZero
                       /\ Len(c.ells) >= 2 =>
                            LET a == EllPhantom(c.shape, <<c.ells[1]>>)  b == EllPhantom(c.shape, Tail(c.ells)) IN
                            \A k \in 1..Len(ph) : (ph[k] # OFFQ) => ph[k] = QAddL(a[k], b[k])
    [] OTHER -> TRUE

\* layer C refines layer A (the transcribed decision structure; see RotImpl)
ImplRefines ==
  CASE c.fn = "fromto" -> FromToClauses(c.u, c.v, FromToImpl(c.u, c.v)) = {}
                          /\ (FromToCell(c.u, c.v) \in {"2d-parallel", "2d-antiparallel"} =>
                                FromToImpl(c.u, c.v) = MScale(IF FromToCell(c.u, c.v) = "2d-parallel" THEN QOne ELSE QNeg(QOne), MIdent(2)))
    [] c.fn = "perp" -> \A i \in 1..Len(c.vecs) : PerpOne(c.vecs[i], PerpImpl(c.vecs[i])) = {}
    [] c.fn = "tsys" -> TSysClauses(c.pv, c.pd, c.others, c.mat, TSysImpl(c.pv, c.pd, c.others, c.mat)) = {}
    [] c.fn = "inside" -> InsideImpl(c.mode, c.pts, c.lo, c.hi) = InsideBounds(InsidePts(c.mode, c.pts), c.lo, c.hi)
    [] OTHER -> TRUE
\* the bounding-box slicing and the min_pt / max_pt handling of ellipsoid_phantom as written in the code
EllImplRefines ==
  c.fn = "ell" /\ ~c.cyl =>
    LET a == EllPhantomBox(c.shape, c.ells, c.i0, c.i1)  b == EllImpl(c.shape, c.ells, c.i0, c.i1) IN
    \A k \in 1..Len(a) : a[k] = OFFQ \/ a[k] = b[k]

Init == c \in Cases
Next == UNCHANGED c
Spec == Init /\ [][Next]_c
Export == Serialize(ToJson([a |-> c, exp |-> Exp(c)]) \o "\n", IOEnv.OUT_FILE,
                    [format |-> "TXT", charset |-> "UTF-8",
                     openOptions |-> <<"WRITE", "CREATE", "APPEND">>]).exitValue = 0
=============================================================================

---------------------------- MODULE MC_OpUtilImpl ----------------------------
(* Bounded instances of OpUtilImpl: the code-shaped decision structures refine layer A.                        *)
EXTENDS OpUtilImpl, MC_OpUtilCat, TLC, Json, IOUtils

CONSTANT Which          \* "matrep" | "pm" | "uf"
\* which open deviations of power_method_opnorm are repaired in the tree under test (set by harness/extras/oputil.py: FIXED)
MC_FixedNone == IOEnv.OU_FIXED_NONE = "1"
MC_FixedNoAdjoint == IOEnv.OU_FIXED_NOADJOINT = "1"
MC_FixedFirstStop == IOEnv.OU_FIXED_FIRSTSTOP = "1"
VARIABLE c

PMCalls == { [mnone |-> mn, maxiter |-> mi, adj |-> ad, square |-> sq, x0zero |-> xz] :
             mn \in BOOLEAN, mi \in -2..7, ad \in {"self", "other", "none"}, sq \in BOOLEAN, xz \in BOOLEAN }
\* estimate sequences (quanta of 1/4096) with an "initial guess" e0: all sequences over a small alphabet
Levels == {4096, 4300, 4500, 5120, 5125}
StopCases == { [E |-> <<a, b, cc, d>>, e0 |-> z, rn |-> r[1], rd |-> r[2], atq |-> t, maxit |-> m] :
               a \in Levels, b \in Levels, cc \in Levels, d \in Levels, z \in {4096, 20000},
               r \in {<<1, 10>>, <<1, 100>>, <<0, 1>>}, t \in {0, 41}, m \in {1, 3, 4} }
UfTable == <<
  <<"absolute", 1, 1>>, <<"add", 2, 1>>, <<"arccos", 1, 1>>, <<"arccosh", 1, 1>>, <<"arcsin", 1, 1>>, <<"arcsinh", 1, 1>>,
  <<"arctan", 1, 1>>, <<"arctan2", 2, 1>>, <<"arctanh", 1, 1>>, <<"bitwise_and", 2, 1>>, <<"bitwise_or", 2, 1>>,
  <<"bitwise_xor", 2, 1>>, <<"ceil", 1, 1>>, <<"conj", 1, 1>>, <<"copysign", 2, 1>>, <<"cos", 1, 1>>, <<"cosh", 1, 1>>,
  <<"deg2rad", 1, 1>>, <<"divide", 2, 1>>, <<"equal", 2, 1>>, <<"exp", 1, 1>>, <<"exp2", 1, 1>>, <<"expm1", 1, 1>>,
  <<"floor", 1, 1>>, <<"floor_divide", 2, 1>>, <<"fmax", 2, 1>>, <<"fmin", 2, 1>>, <<"fmod", 2, 1>>, <<"greater", 2, 1>>,
  <<"greater_equal", 2, 1>>, <<"hypot", 2, 1>>, <<"invert", 1, 1>>, <<"isfinite", 1, 1>>, <<"isinf", 1, 1>>,
  <<"isnan", 1, 1>>, <<"left_shift", 2, 1>>, <<"less", 2, 1>>, <<"less_equal", 2, 1>>, <<"log", 1, 1>>, <<"log10", 1, 1>>,
  <<"log1p", 1, 1>>, <<"log2", 1, 1>>, <<"logaddexp", 2, 1>>, <<"logaddexp2", 2, 1>>, <<"logical_and", 2, 1>>,
  <<"logical_not", 1, 1>>, <<"logical_or", 2, 1>>, <<"logical_xor", 2, 1>>, <<"maximum", 2, 1>>, <<"minimum", 2, 1>>,
  <<"mod", 2, 1>>, <<"modf", 1, 2>>, <<"multiply", 2, 1>>, <<"negative", 1, 1>>, <<"not_equal", 2, 1>>, <<"power", 2, 1>>,
  <<"rad2deg", 1, 1>>, <<"reciprocal", 1, 1>>, <<"remainder", 2, 1>>, <<"right_shift", 2, 1>>, <<"rint", 1, 1>>,
  <<"sign", 1, 1>>, <<"signbit", 1, 1>>, <<"sin", 1, 1>>, <<"sinh", 1, 1>>, <<"sqrt", 1, 1>>, <<"square", 1, 1>>,
  <<"subtract", 2, 1>>, <<"tan", 1, 1>>, <<"tanh", 1, 1>>, <<"true_divide", 2, 1>>, <<"trunc", 1, 1>> >>
UfRows == { [name |-> UfTable[i][1], nin |-> UfTable[i][2], nout |-> UfTable[i][3]] : i \in 1..Len(UfTable) }

Cases == CASE Which = "matrep" -> { [e |-> e] : e \in ExprLeaves \cup ExprComb }
           [] Which = "pm" -> { [pm |-> cl] : cl \in PMCalls } \cup { [st |-> s] : s \in StopCases }
           [] Which = "uf" -> { [row |-> r] : r \in UfRows }
Init == c \in Cases
Next == UNCHANGED c
Spec == Init /\ [][Next]_c

MatRepIndexRefines == MatRepRefines(c.e)
PMRefines == IF "pm" \in DOMAIN c THEN PMBranchRefines(c.pm)
             ELSE PMStopRefines(c.st.E, c.st.e0, c.st.rn, c.st.rd, c.st.atq, c.st.maxit)
UfRefines == UfuncFactoryRefines(c.row)
\* deliberately too strong (expected to FAIL while the deviations are open): the code deviates nowhere
ImplDeviatesNowhere ==
  IF "pm" \in DOMAIN c THEN (PMWellFormed(c.pm) /\ APMOutcome(c.pm) = "returns") => ~ImplPMRaises(c.pm)
  ELSE AStopOK(c.st.E, c.st.rn, c.st.rd, c.st.atq, c.st.maxit,
               ImplStopAt(c.st.E, c.st.e0, c.st.rn, c.st.rd, c.st.atq, c.st.maxit, 1))
\* every documented-derivative ufunc is in the table, and layer A does not name a ufunc ODL does not generate
\* export of what the CODE-SHAPED model does (conformance of layer C with the real code: drift notes only)
ImplExport ==
  IF Which = "pm" /\ "pm" \in DOMAIN c
    THEN Serialize(ToJson([call |-> c.pm, impl |-> ImplPMOutcome(c.pm)]) \o "\n", IOEnv.OUT_FILE,
                   [format |-> "TXT", charset |-> "UTF-8", openOptions |-> <<"WRITE", "CREATE", "APPEND">>]).exitValue = 0
  ELSE IF Which = "uf"
    THEN Serialize(ToJson([row |-> c.row, linear |-> ImplLinear(c.row), deriv |-> ImplDerivative(c.row),
                           grad |-> ImplGradient(c.row), field |-> ImplFactory(c.row, TRUE)]) \o "\n", IOEnv.OUT_FILE,
                   [format |-> "TXT", charset |-> "UTF-8", openOptions |-> <<"WRITE", "CREATE", "APPEND">>]).exitValue = 0
  ELSE TRUE
UfTableCovers == (UfWithDeriv \cup UfExact1 \cup UfExact2 \cup UfTrulyLinear) \subseteq { r.name : r \in UfRows }
ASSUME UfTableCovers
=============================================================================

--------------------------- MODULE MC_VecSpecial ---------------------------
(* Bounded instance + export of VecSpecial: every operation form x scalar   *)
(* on vectors that hold EVERY pair of special / ordinary values once, so    *)
(* one case covers all entry-wise combinations; the harness tiles the       *)
(* vectors to sizes in each internal regime of the implementation.          *)
EXTENDS VecSpecial, SequencesExt, Json, IOUtils, TLC

MC_Vals    == {QZero, QOne, QI(-2), Q(1, 2), Inf, NegInf, NaN}
MC_Scal    == {QI(2), QI(-1), Q(1, 2), QI(-4)}            \* non-zero dyadic scalars
ValSeq     == SetToSeq(MC_Vals)
NV         == Len(ValSeq)
\* all ordered pairs, entry k = (k-1) \div NV, (k-1) % NV
PX         == [k \in 1..(NV * NV) |-> ValSeq[((k - 1) \div NV) + 1]]
PY         == [k \in 1..(NV * NV) |-> ValSeq[((k - 1) % NV) + 1]]

Case(op, a, b, x, y) == [op |-> op, a |-> a, b |-> b, x |-> x, y |-> y]

Cases ==
       {Case(op, QZero, QZero, ValSeq, <<>>) : op \in {"neg", "pos", "copy", "assign"}}
  \cup {Case(op, a, QZero, ValSeq, <<>>) : op \in {"smul", "sdiv", "sadd", "ssub", "rsub", "rdiv"}, a \in MC_Scal}
  \cup {Case(op, QZero, QZero, PX, PY) : op \in {"add", "sub", "mul", "div"}}
  \cup {Case("lincomb", a, b, PX, PY) : a \in {QI(2), QOne, QI(-1)}, b \in {QOne, Q(1, 2), QI(-4)}}
  \cup {Case("lincomb", a, QZero, PX, PY) : a \in {QI(2), QOne, QZero}}
  \cup {Case("lincomb", QZero, b, PX, PY) : b \in {QOne, QI(-4)}}
CaseSeq == SetToSeq(Cases)

ASSUME Laws(MC_Vals)

VARIABLE i
Init == i = 0
Next == i < Len(CaseSeq) /\ i' = i + 1
Spec == Init /\ [][Next]_i

\* the reference accepts its own answer, and a dropped zero term only differs where the dropped operand is not finite
SelfConsistent ==
  i >= 1 => LET c == CaseSeq[i] IN
              /\ Allowed(c, Expect(c))
              /\ (HasZeroCoeff(c) => Allowed(c, DropZero(c)))
              /\ (HasZeroCoeff(c) => \A k \in 1..Len(c.x) :
                     (IsFinite(c.x[k]) /\ IsFinite(c.y[k])) => DropZero(c)[k] = Expect(c)[k])
\* deliberately false (non-vacuity self-test): special values never change under scaling
Bogus == i >= 1 => (CaseSeq[i].op = "smul" => Expect(CaseSeq[i]) = CaseSeq[i].x)

ExportLine ==
  i = 0 \/
  LET c == CaseSeq[i] IN
  Serialize(ToJson([id |-> i, case |-> c, exp |-> Expect(c),
                    alt |-> (IF HasZeroCoeff(c) THEN DropZero(c) ELSE <<>>)]) \o "\n",
            IOEnv.OUT_FILE,
            [format |-> "TXT", charset |-> "UTF-8",
             openOptions |-> <<"WRITE", "CREATE", "APPEND">>]).exitValue = 0
=============================================================================

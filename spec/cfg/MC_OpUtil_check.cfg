SPECIFICATION Spec
CONSTANTS
  Cases <- MC_Cases
  MaxK <- MC_MaxK
INVARIANT MatRepReproducesOp
INVARIANT AdjointIsAdjoint
INVARIANT MatRepShapeConsistent
INVARIANT PMBounded
INVARIANT PMNormDeclared
INVARIANT PMPlainOnlySelfAdjoint
INVARIANT NDExactOnLowDegree
INVARIANT NDForwardBackwardCentral
INVARIANT UfLaws
PROPERTY PMMonotone
CONSTRAINT Export

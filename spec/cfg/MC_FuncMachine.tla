--------------------------- MODULE MC_FuncMachine ---------------------------
(***************************************************************************)
(* Model-checking / export wrapper of FuncMachine.                         *)
(*                                                                         *)
(* One TLC process per (space, leaf group); every FINISHED state (one      *)
(* functional program on Sp) is                                            *)
(*   - checked against the sanity laws of layer A (props configs), and     *)
(*   - exported as ONE JSON line with everything the replay on real ODL    *)
(*     needs (export configs, CONSTRAINT, -workers 1):                     *)
(*       mode "prox": certified lattice argmin z* per (sigma, x)           *)
(*       mode "conj": f(x), f*(y), <x,y>, equality flags, Moreau cases     *)
(*       mode "grad": values, stencil gradient, directional derivatives    *)
(* Environment: FM_SPACE FM_DEPTH FM_GROUP FM_RULES FM_DEEP FM_XSET        *)
(*              FM_MODE OUT_FILE                                           *)
(***************************************************************************)
EXTENDS FuncMachine, Json, IOUtils

SpaceOf(name) ==
  CASE name = "rn2"     -> SpRn(2)
    [] name = "rnw2"    -> SpRnW(2, QI(4))
    [] name = "discrH"  -> SpDiscr(2, Q(1, 2))
    [] name = "discr2"  -> SpDiscr(2, QI(2))
    [] name = "power1"  -> SpPower(2, 1, QI(2))          \* (uniform_discr, 1 cell of volume 2)^2
    [] name = "power2"  -> SpPower(2, 2, Q(1, 2))        \* (uniform_discr, 2 cells of volume 1/2)^2
    \* WEIGHTED power spaces: (uniform_discr, cells of volume 1/2)^2 with weighting=[1, 4] (array) / weighting=4.0 (constant)
    [] name = "wpowerA" -> SpWPower(2, 1, Q(1, 2), <<QOne, QI(4)>>)
    [] name = "wpowerC" -> SpWPower(2, 1, Q(1, 2), <<QI(4), QI(4)>>)
    [] name = "wpowerQ" -> SpWPower(2, 1, QI(2), <<Q(1, 4), QOne>>)        \* weights below 1
    [] name = "wpower2" -> SpWPower(2, 2, Q(1, 2), <<QOne, QI(4)>>)
    [] name = "pspace1" -> SpProd(1, QI(4), Q(1, 2))     \* rn(1, weighting=4) x uniform_discr(1 cell, volume 1/2)
    [] name = "pspace2" -> SpProd(2, QI(4), Q(1, 2))
    [] name = "rn3"     -> SpRn(3)
    [] name = "discr3"  -> SpDiscr(3, QI(2))
MC_Sp    == SpaceOf(IOEnv.FM_SPACE)
MC_Depth == IF IOEnv.FM_DEPTH = "3" THEN 3 ELSE IF IOEnv.FM_DEPTH = "2" THEN 2 ELSE IF IOEnv.FM_DEPTH = "1" THEN 1 ELSE 0

Group(name) ==
  CASE name = "all"    -> {}
    [] name = "norms"  -> {"L1", "L2", "Linf", "GroupL1"}
    [] name = "smooth" -> {"L2sq", "Huber", "Quad", "Const"}
    [] name = "ind1"   -> {"IndBox", "IndNonneg", "IndZero", "IndSum", "IndSimplex"}
    [] name = "ind2"   -> {"IndBall1", "IndBall2", "IndBallInf", "IndGroupBall"}
    [] name = "kl"     -> {"KL", "KLcc"}
    [] name = "vf"     -> {"GroupL1", "IndGroupBall", "Huber"}      \* the vector-field functionals (point-wise norms)
    [] name = "core"   -> {"L1", "L2sq", "IndBox", "Huber"}
    [] name = "core2"  -> {"L2", "Linf", "IndBall2", "Quad"}
    [] name = "quad"   -> {"Quad"}
    [] name = "lin"    -> {"Lin"}
    [] name = "one"    -> {"L1"}
    [] name = "two"    -> {"L2sq", "IndBox"}
    [] name = "none"   -> {"-"}
MC_LeafFilter == Group(IOEnv.FM_GROUP)
RuleGroup(name) ==
  CASE name = "all"   -> {}
    [] name = "prox"  -> {"Translate", "ArgScale", "LScale", "AddConst", "QuadPert", "Conj", "Bregman"}
    [] name = "conj"  -> {"Translate", "ArgScale", "LScale", "RVec", "AddConst", "QuadPert", "Conj",
                          "Bregman", "InfConv"}
    [] name = "grad"  -> {"Translate", "ArgScale", "LScale", "RVec", "AddConst", "QuadPert", "Bregman",
                          "Comp", "CompPow", "Sum", "Prod", "Quot"}
    [] name = "lin"   -> {"Translate", "ArgScale", "LScale", "RVec", "AddConst", "Sum", "Prod", "Quot"}
    [] name = "lin3"  -> {"Translate", "ArgScale", "LScale"}
MC_RuleFilter == RuleGroup(IOEnv.FM_RULES)
MC_DeepLeaves == Group(IOEnv.FM_DEEP)

N == Dim(MC_Sp)
Full == IOEnv.FM_XSET = "full"
Tiny == IOEnv.FM_XSET = "tiny"
(* ------------------------- lattices and probe sets ----------------------- *)
Coords ==
  IF N = 2 THEN (IF Full THEN {QI(-3), Q(-3, 2), Q(-1, 2), QZero, Q(1, 4), QOne, QI(2), QI(4)}
                         ELSE {QI(-3), Q(-1, 2), QZero, QI(4)})
  ELSE IF N = 3 THEN (IF Full THEN {Q(-3, 2), QZero, Q(1, 2), QI(2)} ELSE {Q(-3, 2), QZero, QI(2)})
  ELSE {Q(-3, 2), QZero, QI(2)}
Xs == IF Tiny /\ N = 2 THEN {<<QI(-3), QI(4)>>, <<Q(-1, 2), QZero>>, <<QZero, QZero>>, <<QI(4), Q(-1, 2)>>}
      ELSE TupSet(N, Coords)
\* the lattice {k/D : |k| <= K}^N on which TLC searches the proximal point
ArgK == IF N = 2 THEN 16 ELSE IF N = 3 THEN 6 ELSE 4
ArgD == IF N = 2 THEN 4 ELSE 2
SigVec == Strict([j \in 1..N |-> IF MC_Sp.kind = "pspace"
                                    THEN (IF j <= MC_Sp.n THEN Q(1, 2) ELSE QI(2))
                                    ELSE (IF j % 2 = 1 THEN Q(1, 2) ELSE QI(2))])
\* (8: a step beyond every |x| of the grid - everything is thresholded)
Sigmas == {[k |-> "s", v |-> RConst(N, s)] : s \in (IF Full THEN {Q(1, 2), QOne, QI(2), Q(5, 2), QI(8)}
                                                         ELSE {Q(1, 2), Q(5, 2)})}
          \cup {[k |-> "v", v |-> SigVec]}
\* dual points for the conjugate queries
YCoords == IF N = 2 THEN (IF Full THEN {QI(-2), QI(-1), Q(-1, 2), QZero, Q(1, 2), QOne, QI(3)}
                         ELSE IF Tiny THEN {QI(-1), Q(1, 2)} ELSE {QI(-1), QZero, Q(1, 2), QI(3)})
           ELSE {QI(-1), QZero, Q(1, 2)}
Ys == TupSet(N, YCoords)
XsConj == IF N = 2 THEN TupSet(N, IF Full THEN {QI(-3), Q(-1, 2), QZero, QOne, QI(2)}
                                   ELSE IF Tiny THEN {Q(-1, 2), QI(2)} ELSE {QI(-3), Q(-1, 2), QZero, QI(2)})
          ELSE TupSet(N, {Q(-1, 2), QZero, QI(2)})
\* directions for the gradient queries
Ds == IF N = 2 THEN {<<QOne, QZero>>, <<QOne, QI(2)>>, <<QI(-1), QOne>>}
      ELSE {Strict([j \in 1..N |-> IF j = 1 THEN QOne ELSE QZero]),
            Strict([j \in 1..N |-> IF j % 2 = 1 THEN QI(-1) ELSE QI(2)])}
\* KL-type functionals live on x > 0 (KLcc on x < 1): shift the grid into the domain
RECURSIVE LeafOpsOf(_)
LeafOpsOf(f) == IF IsLeaf(f) THEN {f.op} ELSE UNION {LeafOpsOf(f.args[k]) : k \in 1..Len(f.args)}

(* ------------------------------ export ----------------------------------- *)
Write(rec) ==
  Serialize(ToJson(rec) \o "\n", IOEnv.OUT_FILE,
            [format |-> "TXT", charset |-> "UTF-8",
             openOptions |-> <<"WRITE", "CREATE", "APPEND">>]).exitValue = 0
Attrs(e) == [convex |-> Convex(e.f), hassub |-> HasSubdiff(e.f), finite |-> FiniteValued(e.f),
             indicator |-> IsIndicator(e.f), deg |-> PolyDeg(e.sp, e.f), vecsig |-> VecSigmaDocumented(e.f)]
NoVec == <<>>
ProxCase(e, sg, x) ==
  LET A == QProx(e, sg.v, x, ArgK, ArgD)
      z == IF A = {} THEN NoVec ELSE CHOOSE p \in A : TRUE
  IN [sk |-> sg.k, sig |-> sg.v, x |-> x, nz |-> Cardinality(A), z |-> z,
      fz |-> IF A = {} THEN NaN ELSE QValue(e, z)]
ProxRec(e) ==
  [mode |-> "prox", space |-> IOEnv.FM_SPACE, sp |-> e.sp, f |-> e.f, k |-> e.k, attrs |-> Attrs(e),
   cases |-> IF ProxQueryable(e)
               THEN {ProxCase(e, sg, x) : sg \in {sg \in Sigmas : sg.k = "s" \/ VecSigmaDocumented(e.f)}, x \in Xs}
               ELSE {}]
MoreauSig == {[k |-> "s", v |-> RConst(N, s)] : s \in {Q(1, 2), QI(2)}}
ConjRec(e) ==
  LET ok == ProxQueryable(e) \/ e.f.op = "InfConv"
      cy == [y \in Ys |-> IF ok THEN QConj(e, y) ELSE NaN]
  IN [mode |-> "conj", space |-> IOEnv.FM_SPACE, sp |-> e.sp, f |-> e.f, k |-> e.k, attrs |-> Attrs(e),
      ys |-> {[y |-> y, cy |-> cy[y]] : y \in Ys},
      xs |-> {[x |-> x, fx |-> QValue(e, x)] : x \in XsConj},
      eqs |-> IF ProxQueryable(e) THEN {<<x, y>> \in XsConj \X Ys : InSubdiff(e.sp, e.f, x, y)} ELSE {},
      cases |-> IF ProxQueryable(e) THEN {ProxCase(e, sg, x) : sg \in MoreauSig, x \in XsConj} ELSE {}]
GradPoint(e, x) ==
  LET g == QGrad(e, x) IN
  [x |-> x, fx |-> QValue(e, x), interior |-> Interior(e.sp, e.f, x), g |-> g,
   dds |-> {[d |-> d, dd |-> QDirDeriv(e, x, d), sm |-> SmoothAlong(e.sp, e.f, x, d, Q(1, 64))] : d \in Ds}]
\* lattice points on which the values refute a claim "this functional is linear"
LinRefuted(e) == \/ LinearRefutedAt(e.sp, e.f, PVecY(N), PVecP(N))
                 \/ LinearRefutedAt(e.sp, e.f, PVecP(N), PVecV(N))
GradRec(e) ==
  [mode |-> "grad", space |-> IOEnv.FM_SPACE, sp |-> e.sp, f |-> e.f, k |-> e.k, attrs |-> Attrs(e),
   linref |-> LinRefuted(e), linpts |-> <<PVecY(N), PVecP(N), PVecV(N)>>,
   pts |-> {GradPoint(e, x) : x \in Xs}]
ExportRec(e) == CASE IOEnv.FM_MODE = "prox" -> ProxRec(e)
                  [] IOEnv.FM_MODE = "conj" -> ConjRec(e)
                  [] IOEnv.FM_MODE = "grad" -> GradRec(e)
Export == IF Finished THEN Write(ExportRec(Top)) ELSE TRUE

(* --------------------- sanity laws of layer A (props) -------------------- *)
(* Each law set is one invariant; the violated clauses are printed by name.  *)
ProbeLat == IF N = 2 THEN TupSet(N, LatQ(8, 2)) ELSE TupSet(N, LatQ(3, 1))
PropSig  == {RConst(N, Q(1, 2)), RConst(N, QI(2)), SigVec}
PropXs   == IF N = 2 THEN TupSet(N, IF Full THEN {QI(-3), Q(-1, 2), QZero, QOne, QI(4)} ELSE {QI(-3), Q(-1, 2), QI(4)})
            ELSE TupSet(N, {Q(-3, 2), QZero, QI(2)})
ScalarSig(sg) == \A i \in 1..N : sg[i] = sg[1]
Report(name, bad) == IF bad = {} THEN TRUE ELSE PrintT(<<"LAW", name, Top.f, bad>>) /\ FALSE

ProxLawsFor(e, sg) ==
  LET tab == TLCEval([x \in PropXs |-> QProx(e, sg, x, ArgK, ArgD)])
      F(x, z) == ProxObjective(e.sp, e.f, sg, x, z)
  IN  \* strong convexity: at most one certified point
      (IF \E x \in PropXs : Cardinality(tab[x]) > 1 THEN {"cert-not-unique"} ELSE {}) \cup
      \* sub-gradient form => value form (no probe is better), strictly on the probe lattice
      (IF \E x \in PropXs : \E p \in tab[x] :
            XKnown(F(x, p)) /\ \E z \in ProbeLat \cup {x} :
               z # p /\ XKnown(F(x, z)) /\ QLe(F(x, z), F(x, p))
         THEN {"cert-but-not-value-optimal"} ELSE {}) \cup
      \* the separable search heuristic finds exactly what the full scan finds
      (IF Separable(e.sp, e.f) /\ \E x \in PropXs : tab[x] # ArgminScan(e.sp, e.f, sg, x, ArgK, ArgD)
         THEN {"fast-path-differs"} ELSE {}) \cup
      \* consequences stated by C07, on the lattice
      (IF ScalarSig(sg) /\ \E x1, x2 \in PropXs : \E p1 \in tab[x1], p2 \in tab[x2] :
            QLt(Inner(e.sp, RSub(p1, p2), RSub(x1, x2)), NormSq(e.sp, RSub(p1, p2)))
         THEN {"not-firmly-nonexpansive"} ELSE {}) \cup
      (IF IsIndicator(e.f) /\ \E x \in PropXs : \E p \in tab[x] :
            QValue(e, p) # QZero \/ ~Cert(e.sp, e.f, sg, p, p)
         THEN {"indicator-not-idempotent"} ELSE {})
LawsProx == Finished /\ ProxQueryable(Top) =>
              Report("prox", UNION {ProxLawsFor(Top, sg) : sg \in PropSig})

\* Fenchel-Young on the model: inequality everywhere, equality exactly on the sub-differential graph
\* (Moreau for Conj(f) holds by the definition of InSubdiff on "Conj"; for the catalogue pairs, whose two
\* sides are defined independently, it is checked in CataloguePairs)
ConjOf(f) == Mk("Conj", QZero, QZero, <<>>, <<>>, <<f>>)
ConjLaws(e) ==
  LET cy == TLCEval([y \in Ys |-> QConj(e, y)])
      fx == TLCEval([x \in XsConj |-> QValue(e, x)])
      sub(x, y) == InSubdiff(e.sp, e.f, x, y)
  IN  (IF \E y \in Ys, x \in XsConj : XKnown(cy[y]) /\ XKnown(fx[x]) /\
            QLt(QAdd(fx[x], cy[y]), Inner(e.sp, x, y))
         THEN {"fenchel-young-inequality"} ELSE {}) \cup
      (IF \E y \in Ys, x \in XsConj : XKnown(cy[y]) /\ XKnown(fx[x]) /\
            (sub(x, y) # (Inner(e.sp, x, y) = QAdd(fx[x], cy[y])))
         THEN {"equality-iff-subgradient"} ELSE {}) \cup
      (IF \E y \in Ys, x \in XsConj : fx[x] = Inf /\ sub(x, y)
         THEN {"subgradient-outside-domain"} ELSE {})
LawsConj == Finished /\ ProxQueryable(Top) => Report("conj", ConjLaws(Top))

\* the stencil gradient of the VALUES is THE sub-gradient at interior points, and is linear in d
GradLaws(e) ==
  LET g == TLCEval([x \in PropXs |-> QGrad(e, x)]) IN
      (IF \E x \in PropXs : GradKnown(g[x]) /\ ~InSubdiff(e.sp, e.f, x, g[x])
         THEN {"stencil-gradient-not-subgradient"} ELSE {}) \cup
      (IF \E x \in PropXs, d \in Ds : GradKnown(g[x]) /\ XKnown(QDirDeriv(e, x, d)) /\
            QDirDeriv(e, x, d) # Inner(e.sp, g[x], d)
         THEN {"directional-derivative-not-linear"} ELSE {})
LawsGrad == Finished /\ ProxQueryable(Top) => Report("grad", GradLaws(Top))

\* catalogue pairs: two INDEPENDENT definitions must be conjugate to each other
PairsOn(sp) ==
  {<<Leaf("L1"), Leaf("IndBallInf")>>, <<Leaf("L2"), Leaf("IndBall2")>>,
   <<LeafSC("Const", QZero, QI(3)), LeafSC("IndZero", QZero, QI(-3))>>} \cup
  (IF sp.m = 1 THEN {<<Leaf("Linf"), Leaf("IndBall1")>>} ELSE {}) \cup
  (IF IsVF(sp) THEN {<<Leaf("GroupL1"), Leaf("IndGroupBall")>>} ELSE {}) \cup
  \* conjugate exponents 1 <-> inf.  NOT on a weighted power space: with the documented weighted point-wise norms
  \* (sum_k w_k |x_k| resp. max_k w_k |x_k|) the conjugate of the point-wise 1-norm functional in the inner product of
  \* the space is the indicator of the UN-weighted max-norm ball (and vice versa), so these two definitions are not
  \* conjugate to each other there (TLC refutes the pair law; the real classes are confronted with the witness-search
  \* conjugate by the replay - finding family "group-exponent-1-inf on weighted power space")
  (IF sp.kind = "power" THEN {<<LeafS("GroupL1", QOne), LeafS("IndGroupBall", Inf)>>,
                              <<LeafS("GroupL1", Inf), LeafS("IndGroupBall", QOne)>>} ELSE {}) \cup
  {<<Mk("KL", QZero, QZero, PVecG(Dim(sp)), <<>>, <<>>), Mk("KLcc", QZero, QZero, PVecG(Dim(sp)), <<>>, <<>>)>>}
PairLat == IF N = 2 THEN TupSet(N, LatQ(6, 2)) ELSE TupSet(N, LatQ(2, 1))
\* (operators with a parameter: TLC would evaluate a zero-arity constant definition at every start-up)
CataloguePairs(S) ==
  \A pr \in PairsOn(S) : \A x \in PairLat, y \in PairLat :
    LET a == Val(S, pr[1], x)  b == Val(S, pr[2], y)
        s == InSubdiff(S, pr[1], x, y)
    IN /\ s <=> InSubdiff(S, pr[2], y, x)
       /\ (a = Inf \/ b = Inf) => ~s
       /\ XKnown(a) /\ XKnown(b) => /\ QLe(Inner(S, x, y), QAdd(a, b))
                                    /\ (s <=> Inner(S, x, y) = QAdd(a, b))
\* Moreau decomposition across a pair: prox_{sigma A}(x) + sigma prox_{B/sigma}(x/sigma) = x
PairsMoreau(S) ==
  \A pr \in PairsOn(S) : \A sgs \in {Q(1, 2), QI(2)} : \A x \in PropXs :
    LET sg == RConst(N, sgs) IN
    \A p \in ArgminSet(S, pr[1], sg, x, ArgK, ArgD) :
      Cert(S, pr[2], RConst(N, QInv(sgs)), RScal(QInv(sgs), x), RScal(QInv(sgs), RSub(x, p)))
PairsInit == stack = <<>> /\ CataloguePairs(MC_Sp) /\ PairsMoreau(MC_Sp)
PairsNext == UNCHANGED stack
\* deliberately false: shows that the props run is not vacuous (self-test)
BogusNoShrink == Finished /\ ProxQueryable(Top) =>
                   \A x \in PropXs : x \in QProx(Top, RConst(N, QI(2)), x, ArgK, ArgD)
=============================================================================

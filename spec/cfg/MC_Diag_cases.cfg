SPECIFICATION Spec
CONSTANTS
  Cases <- MC_Cases
  Machines <- MC_Machines
  MaxLenOf <- MC_MaxLenOf
INVARIANT CaseLaws
INVARIANT RefinesFixed
CONSTRAINT ExportCase

------------------------------ MODULE MC_CbFull ------------------------------
(* Bounded instance of CbFullMachine: leaf catalogue (every class, every option class, steps 1..3), & / * shapes of    *)
(* depth <= 2, histories of Call(3) / Call(5) / Reset up to CBF_LEN (quick 4, thorough 5).  The laws run multi-threaded *)
(* (MC_CbFull_laws.cfg), the export of every reached state with its documented observation single-threaded              *)
(* (MC_CbFull_export.cfg; CBF_PART = 1..3 selects a third of the shapes so that the exports run in parallel).           *)
EXTENDS CbFullMachine, Json, IOUtils

Lf(k, s, o) == [k |-> k, step |-> s, opt |-> o, l |-> <<>>, r |-> <<>>]
And(a, b) == [k |-> "and", step |-> 0, opt |-> "", l |-> a, r |-> b]
Comp(a) == [k |-> "compose", step |-> 0, opt |-> "", l |-> a, r |-> <<>>]

SaveOpts == {"pickle:idx", "pickle:fix", "numpy:idx", "numpy:fix", "txt:idx", "txt:fix"}
L1 == { Lf("store", s, o) : s \in 1..3, o \in {"own", "caller", "func"} }
      \cup { Lf(k, s, "") : k \in {"apply", "printiter", "print", "progress"}, s \in 1..3 }
      \cup { Lf("print", 2, "func"), Lf("printnorm", 1, ""), Lf("sleep", 1, ""), Lf("showconv", 1, "") }
      \cup { Lf("timing", s, o) : s \in 1..2, o \in {"cum", "inc"} }
      \cup { Lf("save", s, o) : s \in 1..2, o \in SaveOpts } \cup { Lf("save", 3, "pickle:idx"), Lf("save", 3, "numpy:fix") }
      \cup { Lf("show", s, o) : s \in 1..2, o \in {"", "saveto", "savefn"} }
Raw == Lf("raw", 1, "")
\* left operands of & (a quiet one, a loud one with a counter)
A1 == { Lf("store", 2, "own"), Lf("printiter", 2, "") }
L2 == { And(a, b) : a \in A1, b \in L1 }
      \cup { And(a, Raw) : a \in {Lf("store", 2, "caller"), Lf("print", 1, ""), Lf("sleep", 1, ""), Lf("apply", 3, "")} }
      \cup { Comp(a) : a \in { Lf("store", 1, "own"), Lf("store", 2, "caller"), Lf("store", 2, "func"), Lf("apply", 3, ""),
                               Lf("print", 2, ""), Lf("print", 1, "func"), Lf("printnorm", 1, ""), Lf("save", 2, "numpy:idx"),
                               Lf("save", 1, "pickle:fix"), Lf("show", 2, "saveto"), Lf("showconv", 1, ""), Lf("printiter", 3, "") } }
P == Lf("print", 1, "")   S2 == Lf("store", 2, "own")   I2 == Lf("printiter", 2, "")   Ap3 == Lf("apply", 3, "")
L3 == { And(And(S2, I2), P), And(S2, And(I2, P)), And(And(P, Ap3), And(I2, Raw)), And(And(Ap3, Raw), P),
        Comp(And(S2, P)), And(Comp(S2), Comp(P)), Comp(And(P, Raw)), Comp(Comp(P)), Comp(Comp(Lf("store", 1, "own"))),
        And(Comp(Lf("apply", 2, "")), P), And(P, Comp(Lf("apply", 2, ""))), Comp(And(Comp(P), Lf("store", 3, "func"))),
        And(And(Lf("save", 2, "txt:idx"), Lf("timing", 2, "cum")), Lf("printnorm", 1, "")),
        And(Lf("show", 2, ""), And(Lf("progress", 2, ""), Lf("store", 1, "caller"))) }
AllShapes == L1 \cup L2 \cup L3

Part == IF "CBF_PART" \in DOMAIN IOEnv THEN IOEnv.CBF_PART ELSE "0"
\* a cheap deterministic 3-colouring of the shapes for the parallel exports
Colour(e) == (NLeaves(e) + (IF e.k = "and" THEN e.r.step + Len(e.r.opt) + Len(e.r.k) ELSE e.step + Len(e.opt) + Len(e.k))) % 3
MC_Shapes == IF Part = "0" THEN AllShapes ELSE { e \in AllShapes : ToString(Colour(e) + 1) = Part }
MC_Values == {3, 5}
MC_MaxLen == IF "CBF_LEN" \in DOMAIN IOEnv /\ IOEnv.CBF_LEN = "5" THEN 5 ELSE IF "CBF_LEN" \in DOMAIN IOEnv /\ IOEnv.CBF_LEN = "3" THEN 3 ELSE 4

Export == Serialize(ToJson([shape |-> shape, hist |-> hist, cnt |-> CntObs, res |-> res, strm |-> strm,
                            files |-> FilesObs, out |-> out]) \o "\n", IOEnv.OUT_FILE,
                    [format |-> "TXT", charset |-> "UTF-8",
                     openOptions |-> <<"WRITE", "CREATE", "APPEND">>]).exitValue = 0

\* a deliberately wrong reading (progress bar counted like the other classes) must be refuted: sanity of the laws
BogusProgressLikeOthers ==
  \A i \in 1..NL : LL[i].leaf.k = "progress" => Len(strm[i]) = Len(Stream([LL[i].leaf EXCEPT !.k = "apply"], 1, hist))
=============================================================================

SPECIFICATION Spec
CONSTANTS
  Cases <- MC_Cases
  MaxLen <- MC_MaxLen
  MaxAccel <- MC_MaxAccel
INVARIANT BogusNoRelax

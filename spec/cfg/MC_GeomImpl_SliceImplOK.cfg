SPECIFICATION Spec
CONSTANTS
  Geoms <- MC_Geoms
  AnglesOf <- MC_AnglesOf
  ParamsOf <- MC_ParamsOf
  FixedSlice <- MC_FixedSlice
  FixedCurv <- MC_FixedCurv
  FixedCover <- MC_FixedCover
INVARIANT SliceImplOK

---------------------------- MODULE MC_GeomShape ----------------------------
(* C19: the documented output-shape rule of vectorised geometry queries and   *)
(* the angle-index slicing rule, enumerated completely over small shapes;      *)
(* checks that the rules are total and consistent and exports every case.     *)
EXTENDS GeomSem, TLC, Json, IOUtils

Thorough == IOEnv.GEOM_TIER = "thorough"

S7 == { <<>>, <<1>>, <<2>>, <<3>>, <<2, 1>>, <<1, 3>>, <<2, 3>> }
S5 == { <<>>, <<2>>, <<3>>, <<2, 1>>, <<1, 3>> }
S3 == { <<>>, <<2>>, <<1, 3>> }

\* arity = <<number of motion parameters, number of detector parameters>>
Arities == { <<1, 1>>, <<1, 2>>, <<3, 2>> }
ShapesFor(ar) == IF ar = <<3, 2>> THEN (IF Thorough THEN S5 ELSE S3) ELSE S7
Tuples(S, n) == IF n = 1 THEN { <<s>> : s \in S }
                ELSE IF n = 2 THEN { <<s, t>> : s \in S, t \in S }
                ELSE { <<s, t, r>> : s \in S, t \in S, r \in S }

VARIABLES mode, ar, ms, ds, sl
vars == <<mode, ar, ms, ds, sl>>

NoSlice == [n |-> 0, start |-> 0, stop |-> 0, step |-> 1]
Bounds == {-6, -3, -2, -1, 0, 1, 2, 3, 4, 5, 7, 99}
Init ==
  \/ /\ mode = "shape"
     /\ ar \in Arities
     /\ ms \in Tuples(ShapesFor(ar), ar[1])
     /\ ds \in Tuples(ShapesFor(ar), ar[2])
     /\ sl = NoSlice
  \/ /\ mode = "slice"
     /\ ar = <<1, 1>> /\ ms = <<>> /\ ds = <<>>
     /\ sl \in [n : 1..5, start : Bounds, stop : Bounds, step : {1, 2, 3}]
Next == FALSE /\ UNCHANGED vars
Spec == Init /\ [][Next]_vars

IsShape(s) == \A i \in 1..Len(s) : s[i] \in 1..3
\* independent characterisation of broadcasting: aligned from the right, every axis of the result is
\* the maximum of the aligned input axes and every input axis is 1 or that maximum
AlignedDim(s, n, i) == LET p == i - (n - Len(s)) IN IF p >= 1 THEN s[p] ELSE 1
Compatible(all, n) ==
  \A i \in 1..n : \A j \in 1..Len(all), k \in 1..Len(all) :
     LET x == AlignedDim(all[j], n, i)  y == AlignedDim(all[k], n, i) IN x = y \/ x = 1 \/ y = 1
RECURSIVE MaxLen(_)
MaxLen(all) == IF Len(all) = 0 THEN 0 ELSE Max2(Len(Head(all)), MaxLen(Tail(all)))
RECURSIVE MaxDim(_, _, _)
MaxDim(all, n, i) == IF Len(all) = 0 THEN 1 ELSE Max2(AlignedDim(Head(all), n, i), MaxDim(Tail(all), n, i))

ShapeRuleOK ==
  mode = "shape" =>
    LET all == ms \o ds
        n == MaxLen(all)
        r == BcastShape(ms, ds, 9)
    IN  /\ (r = <<-1>>) = ~Compatible(all, n)                         \* total: a shape or "incompatible"
        /\ (r # <<-1>> => /\ Len(r) = n + 1 /\ r[n + 1] = 9
                          /\ \A i \in 1..n : r[i] = MaxDim(all, n, i))
        /\ BcastShape(ms, ds, 9) = (LET b == Bcast2(BcastAll(ds), BcastAll(ms)) IN IF b = <<-1>> THEN b ELSE b \o <<9>>)
        /\ \A s \in S7 : Bcast2(s, s) = s /\ Bcast2(s, <<>>) = s

\* Python slice semantics, characterised independently of the recursion in SliceIdx
SliceRuleOK ==
  mode = "slice" =>
    LET n == sl.n
        lo == IF sl.start = 99 THEN 0 ELSE IF sl.start < 0 THEN Max2(sl.start + n, 0) ELSE Min2(sl.start, n)
        hi == IF sl.stop = 99 THEN n ELSE IF sl.stop < 0 THEN Max2(sl.stop + n, 0) ELSE Min2(sl.stop, n)
        idx == SliceIdx(n, sl.start, sl.stop, sl.step)
        want == { p + 1 : p \in { p \in 0..(n - 1) : p >= lo /\ p < hi /\ (p - lo) % sl.step = 0 } }
    IN  /\ { idx[i] : i \in 1..Len(idx) } = want
        /\ Len(idx) = Cardinality(want)
        /\ \A i \in 1..(Len(idx) - 1) : idx[i] < idx[i + 1]

ExportLine ==
  Serialize(ToJson(IF mode = "shape"
                   THEN [mode |-> mode, ar |-> ar, ms |-> ms, ds |-> ds, exp |-> BcastShape(ms, ds, 0),
                         mexp |-> MShape(ms, <<>>)]
                   ELSE [mode |-> mode, sl |-> sl, exp |-> SliceIdx(sl.n, sl.start, sl.stop, sl.step)]) \o "\n",
            IOEnv.OUT_FILE,
            [format |-> "TXT", charset |-> "UTF-8",
             openOptions |-> <<"WRITE", "CREATE", "APPEND">>]).exitValue = 0
Export == ExportLine
=============================================================================

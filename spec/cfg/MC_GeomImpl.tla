---------------------------- MODULE MC_GeomImpl ----------------------------
(* C [= A for the layer-C models of C19 over the configuration space of     *)
(* MC_Geom (slicing), a grid of rational factory cases, and all small shapes *)
EXTENDS MC_Geom, GeomImpl

MC_FixedSlice == IOEnv.GEOM_FIXED_SLICE = "1"
MC_FixedCurv  == IOEnv.GEOM_FIXED_CURV = "1"
MC_FixedCover == IOEnv.GEOM_FIXED_COVER = "1"

Sliceable(gg) == gg.cls # "par3deu"
SliceImplOK == (ph = 1 /\ Sliceable(cg)) => SliceRefines(cg, ca, cu)

\* rational factory cases: rho^2 (squared corner distance), rs, rd, |z|max, rho (when rational)
CoverCases == { <<r2, rs, rd>> : r2 \in {QZero, I(2), I(8), I(13)}, rs \in {I(5), I(8)}, rd \in {QZero, I(3)} }
HeightCases == { <<z, rs, rd, rho>> : z \in {QZero, I(1), Q(5, 2)}, rs \in {I(8), I(13)}, rd \in {I(3)}, rho \in {QZero, I(5)} }
WidthImplOK == ph = 0 => \A c \in CoverCases : WidthCovers(c[1], c[2], c[3])
HeightImplOK == ph = 0 => \A c \in HeightCases : HeightCovers(c[1], c[2], c[3], c[4])

SS == { <<>>, <<1>>, <<2>>, <<3>>, <<2, 1>>, <<1, 3>>, <<2, 3>> }
ShapeImplOK ==
  ph = 0 => /\ \A s \in SS, t \in SS : ShapeImpl(<<s>>, <<t>>, 2) = BcastShape(<<s>>, <<t>>, 2)
            /\ \A s \in SS, t \in SS, r \in SS : ShapeImpl(<<s>>, <<t, r>>, 3) = BcastShape(<<s>>, <<t, r>>, 3)
=============================================================================

SPECIFICATION Spec
CONSTANTS
  W <- MC_W
  Roots <- MC_Roots
  MaxChain <- MC_MaxChain
  PtV <- MC_PtV
  PtS <- MC_PtS
  NDeriv <- MC_NDeriv
INVARIANT WellFormed
INVARIANT AdjointLaws
INVARIANT DerivativeLaws
INVARIANT IndexLaws
INVARIANT InverseLaw
INVARIANT LinearityLaw
INVARIANT DualityLaws
INVARIANT ProjectionLaws
INVARIANT ImplCallRefines
INVARIANT ImplAliasRefines
INVARIANT ImplGetItemRefines
INVARIANT ImplInitRefines
INVARIANT CurIsMeaning

-------------------------------- MODULE MC_FD --------------------------------
(* Model-checking / export wrapper for FDMachine (property C13).  The         *)
(* configuration space is selected by environment variables so that several   *)
(* TLC processes can share the work:                                          *)
(*   FD_PART   "axis": the complete one-axis space  methods(3) x pads(10) x   *)
(*                     n in 2..7 x pad constants x cell sides (+ the 1-d      *)
(*                     Laplacian for every mode); layer C is checked here.    *)
(*             "nd"  : PartialDerivative / Gradient / Divergence / Laplacian  *)
(*                     on 1-3 dimensional shapes with distinct cell sides.    *)
(*   FD_METHOD one of the three methods (splits the space three ways)         *)
(*   FD_PADSET "all" | "base" | "adj" (splits the one-axis space further)     *)
(*   FD_TIER   "quick" | "thorough"                                           *)
(* Every reached state with an observation is written as one JSON line.       *)
EXTENDS FDMachine, FDImpl, Json, IOUtils

Part   == IOEnv.FD_PART
Tier   == IOEnv.FD_TIER
Meth   == IOEnv.FD_METHOD
PadSel == IF IOEnv.FD_PADSET = "base" THEN BasePads ELSE IF IOEnv.FD_PADSET = "adj" THEN AdjPads ELSE Pads

Hs  == IF Tier = "quick" THEN {<<1, 2>>, <<2, 1>>} ELSE {<<1, 1>>, <<1, 2>>, <<2, 1>>, <<1, 4>>}
Cs  == {<<0, 1>>, <<1, 1>>, <<-2, 1>>}

AxisCfgs ==
  {[op |-> "pd", shape |-> <<n>>, axis |-> 1, hs |-> <<h>>, method |-> Meth, pad |-> p, c |-> c] :
      n \in 2..7, h \in Hs, p \in PadSel, c \in Cs}
  \cup
  (IF Meth # "forward" THEN {} ELSE
   {[op |-> "lap", shape |-> <<n>>, axis |-> 0, hs |-> <<h>>, method |-> "none", pad |-> p, c |-> c] :
      n \in 2..7, h \in Hs, p \in PadSel, c \in Cs})

HsND == <<<<1, 2>>, <<2, 1>>, <<1, 4>>>>
Shapes ==
  IF Tier = "quick"
    THEN {<<2>>, <<3>>, <<4>>, <<2, 3>>, <<3, 2>>, <<2, 2, 3>>}
    ELSE {<<2>>, <<3>>, <<4>>, <<5>>, <<2, 2>>, <<2, 3>>, <<3, 2>>, <<3, 3>>, <<2, 4>>, <<4, 3>>,
          <<2, 2, 2>>, <<2, 2, 3>>, <<3, 2, 2>>, <<2, 3, 2>>}
\* pad constants: both for constant padding (affine variant), one non-zero for a mode that ignores it
PadC == {<<p, <<0, 1>>>> : p \in Pads} \cup {<<"constant", <<-2, 1>>>>, <<"symmetric", <<1, 1>>>>}
HsOf(s) == SubSeq(HsND, 1, Len(s))
NdCfgs ==
  {[op |-> "pd", shape |-> s, axis |-> a, hs |-> HsOf(s), method |-> Meth, pad |-> pc[1], c |-> pc[2]] :
      s \in Shapes, a \in 1..3, pc \in PadC}
  \cup
  {[op |-> o, shape |-> s, axis |-> 0, hs |-> HsOf(s), method |-> Meth, pad |-> pc[1], c |-> pc[2]] :
      o \in {"grad", "div"}, s \in Shapes, pc \in PadC}
  \cup
  (IF Meth # "forward" THEN {} ELSE
   {[op |-> "lap", shape |-> s, axis |-> 0, hs |-> HsOf(s), method |-> "none", pad |-> pc[1], c |-> pc[2]] :
      s \in Shapes, pc \in PadC})

MC_Cfgs == IF Part = "axis" THEN AxisCfgs
           ELSE {k \in NdCfgs : k.op # "pd" \/ k.axis <= Len(k.shape)}

\* layer C refines layer A on every one-axis configuration (full matrices and affine parts)
ImplCorrect ==
  (obs = NoObs /\ Dim(cfg) = 1) =>
     IF cfg.op = "pd" THEN ImplFDCorrect(cfg.method, cfg.pad, cfg.shape[1], cfg.c, cfg.hs[1])
     ELSE IF cfg.op = "lap" THEN ImplLapCorrect(cfg.pad, cfg.shape[1], cfg.c, cfg.hs[1])
     ELSE TRUE

Export ==
  IF obs = NoObs THEN TRUE
  ELSE Serialize(ToJson([cfg |-> cfg, obs |-> obs]) \o "\n", IOEnv.OUT_FILE,
                 [format |-> "TXT", charset |-> "UTF-8",
                  openOptions |-> <<"WRITE", "CREATE", "APPEND">>]).exitValue = 0

\* deliberately false (self-test: shows the invariants are evaluated on real matrices)
BogusAllSymmetric == (obs.q = "call" /\ obs.admissible /\ cfg.op = "pd") => obs.mat = Transpose(obs.mat)
=============================================================================

---------------------------- MODULE MC_ProxBodies ----------------------------
EXTENDS ProxBodiesImpl, IOUtils
MC_Vals == {Q(-2, 1), Q(-1, 4), QZero, Q(1, 2), Q(3, 1)}
MC_Sigmas == {Q(1, 2), QOne, Q(2, 1)}
MC_L1Pinned == IOEnv.PB_PINNED = "1"
=============================================================================

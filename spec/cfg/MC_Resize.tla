------------------------------ MODULE MC_Resize ------------------------------
(* Model-checking / export wrapper for ResizeMachine (property C16).          *)
(*   RS_PART  "1d": the complete one-axis space n_in, n_out in 1..NMax1 x     *)
(*                  all offsets x modes x directions x pad constants          *)
(*            "2d": all 2-d shape pairs with per-axis sizes in 1..NMax2       *)
(*                  (growing in one axis while shrinking in the other         *)
(*                  included) x all offset pairs x modes x directions         *)
(*   RS_MODE  one padding mode, or "all"                                      *)
(*   RS_TIER  "quick" | "thorough"                                            *)
(* Layer C (ResizeImpl) is checked against the reference in every state;      *)
(* every state with an observation is written as one JSON line.               *)
EXTENDS ResizeMachine, ResizeImpl, Json, IOUtils

Part == IOEnv.RS_PART
Tier == IOEnv.RS_TIER
ModeSel == IF IOEnv.RS_MODE = "all" THEN Modes ELSE {IOEnv.RS_MODE}

NMax1 == IF Tier = "quick" THEN 5 ELSE 7
NMax2 == IF Tier = "quick" THEN 3 ELSE 4
AbsD(m, n) == IF n >= m THEN n - m ELSE m - n
DirC == {<<"forward", 0>>, <<"forward", 3>>, <<"adjoint", 0>>}

Cfgs1 ==
  {[shapeIn |-> <<m>>, shapeOut |-> <<n>>, offs |-> <<o>>, mode |-> md, dir |-> dc[1], c |-> dc[2]] :
      m \in 1..NMax1, n \in 1..NMax1, o \in 0..(NMax1 - 1), md \in ModeSel, dc \in DirC}
Cfgs2 ==
  {[shapeIn |-> <<m1, m2>>, shapeOut |-> <<n1, n2>>, offs |-> <<o1, o2>>, mode |-> md, dir |-> dc[1], c |-> dc[2]] :
      m1 \in 1..NMax2, m2 \in 1..NMax2, n1 \in 1..NMax2, n2 \in 1..NMax2,
      o1 \in 0..(NMax2 - 1), o2 \in 0..(NMax2 - 1), md \in ModeSel, dc \in DirC}

MC_Cfgs ==
  {k \in (IF Part = "1d" THEN Cfgs1 ELSE Cfgs2) :
     \* valid offsets; on an axis that does not change also the (ignored) non-zero entry 2
     /\ \A a \in 1..Len(k.shapeIn) : \/ k.offs[a] <= AbsD(k.shapeIn[a], k.shapeOut[a])
                                      \/ (k.shapeIn[a] = k.shapeOut[a] /\ k.offs[a] = 2)
     /\ (k.c # 0 => k.mode = "constant")
     \* 2-d: at least one axis changes
     /\ (Len(k.shapeIn) = 2 => k.shapeIn # k.shapeOut)}

ImplCorrect ==
  obs = NoObs => ImplCorrectFor(cfg.mode, cfg.dir, cfg.c, cfg.shapeIn, cfg.shapeOut, cfg.offs)

\* layer C of the operator wrapper: range limits / offsets of ResizingOperator for every 1-d (m, n, offset | default)
RangeFixed == IOEnv.RS_RANGE_FIXED = "1"
Flags4 == {f \in [1..4 -> {0, 1}] : TRUE}
ImplRangeCorrect ==
  (obs = NoObs /\ Len(cfg.shapeIn) = 1 /\ cfg.dir = "forward" /\ cfg.c = 0 /\ cfg.mode = "constant") =>
     \A lh \in {<<<<0, 1>>, <<1, 1>>>>, <<<<-1, 1>>, <<1, 2>>>>, <<<<1, 2>>, <<2, 1>>>>} : \A f \in Flags4 :
        LET m == cfg.shapeIn[1]  n == cfg.shapeOut[1]
            lo == lh[1]
            \* hi such that the cell side is lh[2] for these flags
            hi == QAdd(lo, QMul(Q(CellsB2(m, f[1], f[2]), 2), lh[2]))
        IN  FlagsOK(m, n, f[1], f[2], f[3], f[4]) =>
              /\ CellSideB(lo, hi, m, f[1], f[2]) = lh[2]
              /\ ImplRangeCorrectForB(lo, hi, m, n, cfg.offs[1], f[1], f[2], f[3], f[4], RangeFixed)
              /\ (cfg.offs[1] = 0 => ImplRangeCorrectForB(lo, hi, m, n, -1, f[1], f[2], f[3], f[4], RangeFixed))

Export ==
  IF obs = NoObs THEN TRUE
  ELSE Serialize(ToJson([cfg |-> cfg, obs |-> obs]) \o "\n", IOEnv.OUT_FILE,
                 [format |-> "TXT", charset |-> "UTF-8",
                  openOptions |-> <<"WRITE", "CREATE", "APPEND">>]).exitValue = 0

\* deliberately false (self-test)
BogusNoPadding == (obs.q = "call" /\ obs.adm /\ cfg.dir = "forward") => \A i \in 1..N2(cfg) : RowSum(obs.mat, i, N1(cfg)) = 1 /\ obs.aff[i] = 0 /\ \A l \in 1..N1(cfg) : obs.mat[i][l] >= 0
=============================================================================

SPECIFICATION Spec
CONSTANTS
  Cases <- MC_Cases
INVARIANT RefinesBlurStrictC
CHECK_DEADLOCK FALSE

SPECIFICATION Spec
CONSTANTS
  Catalogue <- MC_Catalogue
  WithSplits <- MC_WithSplits
INVARIANT WellFormed
INVARIANT NewtonOneStep
INVARIANT NewtonCGSolves
INVARIANT NewtonQuartic
INVARIANT SameAsCG
INVARIANT ExactAfterDim
INVARIANT Conjugate
INVARIANT Secant
INVARIANT SelfAdjoint
INVARIANT HereditarySecant
INVARIANT InverseAfterDim
INVARIANT NoMemoryIsSD
INVARIANT BroydenSecant
INVARIANT BroydenFinite
INVARIANT SDOrthogonal
INVARIANT Descent
INVARIANT ArmijoHolds
INVARIANT InBox
INVARIANT AdamFirstStep
INVARIANT ResumeExact
INVARIANT IterateIsResult
INVARIANT LSLaws
INVARIANT LSStartRule
CONSTRAINT Export

--------------------------- MODULE MC_IterMiscImpl ---------------------------
(***************************************************************************)
(* C refines A: on EVERY state (instance, k) of the bounded machine the     *)
(* transcribed loop run with niter = k returns the reference iterate and    *)
(* shows the callback the reference iterates.  Two properties of the code   *)
(* AS WRITTEN are expected to be refuted while their findings are open:     *)
(*   DefaultCallsStartAfresh  (gauss_newton's default zero_seq generator is *)
(*                             shared between calls)                        *)
(*   SensElementIsElementwise (a domain element given as `sensitivities` is *)
(*                             indexed per subset instead of used as is)    *)
(***************************************************************************)
EXTENDS MC_IterMisc, IterMiscImpl

ExplicitZS(j) == Inst.ts[j]
XsTail == [j \in 1..K |-> hist[j + 1].x]
ImplRefines ==
  CASE Inst.kind = "cg" ->
         LET r == CGImpl(Inst.L, Inst.w, Inst.b, Inst.x0, K)
             t == CGTaken(Inst.L, Inst.w, Inst.b, Inst.x0, K)
         IN  r.x = Last.x /\ Len(r.ys) = t /\ \A j \in 1..t : r.ys[j] = hist[j + 1].x
    [] Inst.kind = "gn" /\ Inst.tag = "c" ->
         LET r == GNImpl(Inst, ExplicitZS, K) IN r.x = Last.x /\ r.ys = XsTail
    [] Inst.kind = "os" ->
         \A sk \in SensSpellings(Inst) :
            LET r == OSImpl(Inst, sk, K)
                ps == [j \in 1..(K * Len(Inst.As)) |->
                         OSPartials(Inst, hist[((j - 1) \div Len(Inst.As)) + 1].x, 1)[((j - 1) % Len(Inst.As)) + 1]]
            IN  r.x = Last.x /\ r.ys = ps
    [] Inst.kind \in {"dca", "pdca"} ->
         LET r == DCImpl(Inst, Inst.kind, K) IN r.x = Last.x /\ r.ys = XsTail
    [] Inst.kind = "lw" ->
         LET r == LWImpl(Inst, K) IN r.x = Last.x /\ r.ys = XsTail
    [] Inst.kind = "kz" ->
         \A osp \in OmegaSpellings(Inst) :
            LET ro == KZImpl(Inst, osp, "outer", K)
                ri == KZImpl(Inst, osp, "inner", K)
                ps == [j \in 1..(K * Len(Inst.As)) |->
                         KZPartials(Inst, hist[((j - 1) \div Len(Inst.As)) + 1].x, 1)[((j - 1) % Len(Inst.As)) + 1]]
            IN  ro.x = Last.x /\ ro.ys = XsTail /\ ri.x = Last.x /\ ri.ys = ps
    [] OTHER -> TRUE

\* two successive calls that rely on the default: the second one after the first has consumed k1 values
SharedDefault == FALSE           \* the code as repaired (057ca1e): zero_seq=None, exp_zero_seq(2.0) created per call
                                 \* (TRUE = the pinned signature `zero_seq=exp_zero_seq(2.0)`: refuted, KF-EXT-ITER-1)
DefaultCallsStartAfresh ==
  (Inst.kind = "gn" /\ Inst.tag = "c" /\ K >= 1 /\ \A j \in 1..K : Inst.ts[j] = ExpZero(<<2, 1>>, j - 1)) =>
     \A k1 \in 0..2 :
        LET zs(j) == DefaultZS(IF SharedDefault THEN k1 ELSE 0, j)
        IN  GNImpl(Inst, zs, K).x = Last.x

SensElementIsElementwise ==
  (Inst.kind = "os" /\ K >= 1 /\ ElemApplies(Inst)) => OSImpl(Inst, "elem", K).x = Last.x
=============================================================================

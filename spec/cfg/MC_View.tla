------------------------------ MODULE MC_View ------------------------------
(* Bounded instances of ViewMachine (one per PROFILE) and the behaviour export.  A profile fixes the initial heap and  *)
(* the action alphabet per history level; VW_WIDE=1 (thorough) widens the alphabets and the history length.           *)
EXTENDS ViewMachine, Json, IOUtils

Profile == IOEnv.VW_PROFILE
Wide    == IOEnv.VW_WIDE = "1"

R(n) == CInt(n)
Z(a, b) == <<QI(a), QI(b)>>
RS(s) == [k \in 1..Len(s) |-> R(s[k])]

(* ------------------------------ helpers -------------------------------- *)
Objs(s)  == 1..Len(s.objs)
LeafS(s) == {i \in Objs(s) : s.objs[i].k = "leaf"}
ElemS(s) == {i \in Objs(s) : s.objs[i].ty = "elem"}
ArrS(s)  == {i \in Objs(s) : s.objs[i].ty = "arr"}
ProdS(s) == {i \in Objs(s) : s.objs[i].k = "prod"}
ELeafS(s) == LeafS(s) \cap ElemS(s)

Get(X, I)       == {[NoAct EXCEPT !.op = "getitem", !.x = x, !.idx = i] : x \in X, i \in I}
GetH(X, I, H)   == {[NoAct EXCEPT !.op = "getitem", !.x = x, !.idx = i, !.how = h] : x \in X, i \in I, h \in H}
Set(X, I, V)    == {[NoAct EXCEPT !.op = "setitem", !.x = x, !.idx = i, !.v = v] : x \in X, i \in I, v \in V}
Op1(op, X, H)   == {[NoAct EXCEPT !.op = op, !.x = x, !.how = h] : x \in X, h \in H}
Op2(op, X, Y)   == {[NoAct EXCEPT !.op = op, !.x = x, !.y = y] : x \in X, y \in Y}
Wrap(X, O, H)   == {[NoAct EXCEPT !.op = "wrap", !.x = x, !.ord = o, !.how = h] : x \in X, o \in O, h \in H}
SetP(op, X, V)  == {[NoAct EXCEPT !.op = op, !.x = x, !.v = v] : x \in X, v \in V}
Lin(X, Y, ZZ, AB) == {[NoAct EXCEPT !.op = "lincomb", !.x = x, !.y = y, !.z = z, !.a = ab[1], !.b = ab[2]] :
                        x \in X, y \in Y, z \in ZZ, ab \in AB}
IBin(X, Y, F)   == {[NoAct EXCEPT !.op = "ibin", !.x = x, !.y = y, !.how = f] : x \in X, y \in Y, f \in F}
PEl(PS)         == {[NoAct EXCEPT !.op = "pelement", !.ps = p] : p \in PS}

\* a sequence value with recognisable entries for a target of m positions
SeqV(m, base) == VSeq([k \in 1..m |-> R(base + k)])
\* values fitting a selection of object x
FitV(s, x, idx, base) ==
  LET S == Sel(s.objs[x].shp, idx) IN
    IF S.shp = <<>> THEN {VScalar(R(base))}
    ELSE {VScalar(R(base)), SeqV(Len(S.pos), base)} \cup
         (IF Len(S.shp) = 2 THEN {VRow([k \in 1..S.shp[2] |-> R(base + 10 * k)])} ELSE {})
SetFit(s, X, I, base) ==
  UNION {UNION {{[NoAct EXCEPT !.op = "setitem", !.x = x, !.idx = i, !.v = v] : v \in FitV(s, x, i, base)} :
                  i \in {j \in I : IdxOk(s.objs[x].shp, j)}} :
           x \in {y \in X : s.objs[y].k = "leaf"}}
\* x[idx] = other object of the right shape
SetObj(s, X, I) ==
  {[NoAct EXCEPT !.op = "setitem", !.x = x, !.idx = i, !.v = VObj(o)] : x \in X, i \in I, o \in LeafS(s)}

N == NoneTok
(* 1-d index alphabets *)
I1Create == {<<ISl(1, N, 1)>>, <<ISl(N, N, 2)>>, <<ISl(N, N, -1)>>, <<ISl(-3, -1, 1)>>, <<ISl(N, 2, 1)>>,
             <<IList(<<0, 2>>)>>, <<IList(<<-1, 1>>)>>, <<IInt(0)>>, <<IInt(-1)>>}
I1Small  == {<<ISl(1, N, 1)>>, <<ISl(N, N, 2)>>, <<IList(<<0, 1>>)>>}
I1Write  == {<<IFull>>, <<IInt(0)>>, <<ISl(N, N, 2)>>, <<ISl(N, N, -1)>>, <<IList(<<1, 0>>)>>}
I1WriteS == {<<IFull>>, <<IInt(-1)>>}
(* 2-d index alphabets (shape (2,3)) *)
I2Create == {<<IInt(0)>>, <<IInt(-1)>>, <<IFull, ISl(1, N, 1)>>, <<IFull, ISl(N, N, 2)>>, <<IInt(1), ISl(N, N, -1)>>,
             <<ISl(N, N, -1)>>, <<IFull, IInt(0)>>, <<IList(<<0, 1>>), IList(<<1, 2>>)>>, <<IList(<<1, 0>>)>>,
             <<IInt(0), IList(<<0, 2>>)>>, <<IInt(0), IInt(1)>>, <<ISl(0, 1, 1), ISl(N, N, 1)>>,
             <<ISl(N, N, 1), IList(<<2, 0>>)>>}
I2Small  == {<<IInt(0)>>, <<IFull, ISl(1, N, 1)>>, <<IFull, IInt(-1)>>, <<IList(<<1, 0>>)>>}
I2Write  == {<<IFull>>, <<IInt(1)>>, <<IFull, ISl(N, N, 2)>>, <<IInt(0), IInt(-1)>>, <<IFull, IList(<<2, 0>>)>>}
I2WriteS == {<<IFull>>, <<IFull, IInt(0)>>}

AsH == {"asarray", "np.asarray", "data", "__array__"}
CpH == {"copy", "copy.copy", "astype", "astype_other"}

(* ------------------------------ profiles ------------------------------- *)
\* T1: 1-d real tensor of 4 entries, an own ndarray of the right dtype and one of another dtype
T1Init == [bufs |-> <<Buf(RS(<<1, 2, 3, 4>>), <<4>>, "C"), Buf(RS(<<5, 6, 7, 8>>), <<4>>, "C"),
                      Buf(RS(<<9, 10, 11, 12>>), <<4>>, "C")>>,
           objs |-> <<Whole("elem", "tensor", FALSE, 1, <<4>>, "same"), Whole("arr", "tensor", FALSE, 2, <<4>>, "same"),
                      Whole("arr", "tensor", FALSE, 3, <<4>>, "other")>>]
Newest(s) == {Len(s.objs)}
T1Alph(lv, s) ==
  CASE lv = 1 -> Get({1, 2}, I1Create) \cup Op1("copy", {1}, CpH) \cup Op1("asarray", {1}, AsH)
                 \cup Wrap({1, 2, 3}, {"N", "C"}, {"tensor"}) \cup Wrap({2}, {"N"}, {"array_wrap", "discr"})
                 \cup Wrap({1, 2}, {"C", "F"}, {"data_ptr"})
                 \cup Op1("asarray", {1}, {"np.asarray(dtype=same)", "np.asarray(dtype=other)"})
    [] lv = 2 -> Get(IF Wide THEN {1} \cup Newest(s) ELSE LeafS(s) \ {3}, IF Wide THEN I1Create ELSE I1Small)
                 \cup Op1("copy", ElemS(s) \ {1}, {"copy"})
                 \cup Op1("asarray", ElemS(s) \ {1}, {"asarray"}) \cup Wrap(ArrS(s) \ {2, 3}, {"N"}, {"tensor"})
                 \cup (IF Wide THEN Wrap(ArrS(s), {"F"}, {"tensor"}) ELSE {})
    [] lv = 3 -> SetFit(s, LeafS(s) \ {3}, IF Wide THEN I1Write ELSE I1WriteS, 20)
                 \cup SetObj(s, LeafS(s) \ {3}, {<<IFull>>, <<ISl(1, N, 1)>>})
                 \cup Op2("assign", ElemS(s), ElemS(s)) \cup Op1("set_zero", ElemS(s), {""})
                 \cup Op2("asarray_out", ElemS(s), {2})
    [] OTHER  -> SetFit(s, {1, 2}, {<<IFull>>}, 40) \cup Get({1}, {<<IInt(1)>>})

\* T2: 2-d real tensor (2,3) in C order, an own ndarray in Fortran order, one of another dtype in C order
T2Init == [bufs |-> <<Buf(RS(<<1, 2, 3, 4, 5, 6>>), <<2, 3>>, "C"), Buf(RS(<<7, 8, 9, 10, 11, 12>>), <<2, 3>>, "F"),
                      Buf(RS(<<13, 14, 15, 16, 17, 18>>), <<2, 3>>, "C")>>,
           objs |-> <<Whole("elem", "tensor", FALSE, 1, <<2, 3>>, "same"), Whole("arr", "tensor", FALSE, 2, <<2, 3>>, "same"),
                      Whole("arr", "tensor", FALSE, 3, <<2, 3>>, "other")>>]
T2Alph(lv, s) ==
  CASE lv = 1 -> Get({1, 2}, I2Create) \cup Op1("copy", {1}, {"copy", "astype"}) \cup Op1("asarray", {1}, {"asarray", "data"})
                 \cup Wrap({1, 2}, {"N", "C", "F"}, {"tensor", "discr"}) \cup Wrap({3}, {"N"}, {"tensor"})
                 \cup Wrap({2}, {"N"}, {"array_wrap"}) \cup Wrap({1, 2}, {"C", "F"}, {"data_ptr"})
    [] lv = 2 -> IF Wide THEN
                   Get({1} \cup Newest(s), I2Create) \cup Op1("copy", ElemS(s) \ {1}, {"copy"})
                   \cup Wrap(ArrS(s) \ {3}, {"N", "C", "F"}, {"tensor"}) \cup Op1("asarray", ElemS(s) \ {1}, {"np.asarray"})
                 ELSE \* quick: chains on the newest object and siblings on the original
                   Get({1} \cup Newest(s), I2Small) \cup Op1("copy", Newest(s) \cap ElemS(s), {"copy"})
                   \cup Wrap(Newest(s) \cap ArrS(s), {"N", "C", "F"}, {"tensor"}) \cup Op1("asarray", Newest(s) \cap ElemS(s), {"np.asarray"})
    [] lv = 3 -> SetFit(s, LeafS(s) \ {3}, IF Wide THEN I2Write ELSE {<<IFull>>}, 20)
                 \cup (IF Wide THEN {} ELSE SetFit(s, {1, 2}, {<<IFull, IInt(0)>>}, 20))
                 \cup SetObj(s, LeafS(s) \ {3}, IF Wide THEN {<<IFull>>, <<IInt(0)>>} ELSE {<<IInt(0)>>})
                 \cup Op2("assign", ElemS(s), ElemS(s)) \cup Op1("set_zero", ElemS(s), {""})
                 \cup Op2("asarray_out", ElemS(s), {2})
    [] OTHER  -> SetFit(s, {1, 2}, {<<IFull>>}, 40)

\* SI: breadth of x[idx] = v through a view (every index form x every value form), 1-d and 2-d
SIInit == [bufs |-> <<Buf(RS(<<1, 2, 3, 4, 5>>), <<5>>, "C"), Buf(RS(<<1, 2, 3, 4, 5, 6>>), <<2, 3>>, "F")>>,
           objs |-> <<Whole("elem", "tensor", FALSE, 1, <<5>>, "same"), Whole("elem", "tensor", FALSE, 2, <<2, 3>>, "same")>>]
I1Arr == {<<IArr(<<0, 2>>)>>, <<IArr(<<-1>>)>>, <<IMask(<<1, 0, 1, 0, 1>>)>>, <<IMask(<<0, 1, 1>>)>>, <<IMask(<<0, 0, 0>>)>>,
          <<IMaskAll(<<0, 1, 0, 0, 1>>)>>, <<IMaskAll(<<1, 1, 0>>)>>}
I2Arr == {<<IMaskAll(<<1, 0, 1, 0, 1, 0>>)>>, <<IMaskAll(<<0, 0, 0, 0, 0, 1>>)>>, <<IMask(<<0, 1>>)>>, <<IFull, IMask(<<1, 0, 1>>)>>,
          <<IArr(<<1, 0>>), IArr(<<0, 2>>)>>, <<IMask(<<1, 1>>), IList(<<0, 2>>)>>, <<IInt(0), IArr(<<2, 0>>)>>,
          <<IArr(<<1>>), ISl(N, N, 2)>>, <<IMask(<<1, 0>>), IInt(-1)>>, <<IMaskAll(<<1, 1, 1, 1>>)>>, <<IFull, IMask(<<0, 1>>)>>}
I1All == I1Arr \cup I2Arr \cup I1Create \cup I1Write \cup {<<ISl(3, 0, -2)>>, <<ISl(-1, N, -1)>>, <<ISl(7, N, 1)>>, <<ISl(N, -9, 1)>>, <<ISl(2, 2, 1)>>,
                                     <<ISl(N, N, 3)>>, <<IList(<<2>>)>>, <<IList(<<0, 1, 2>>)>>}
I2All == I2Create \cup I2Write \cup {<<ISl(N, N, -1), ISl(N, N, -2)>>, <<IInt(1), ISl(2, N, 1)>>, <<ISl(1, N, 1), ISl(1, 1, 1)>>,
                                     <<IList(<<0>>), ISl(N, N, 1)>>, <<IInt(-2), IInt(-3)>>}
SIAlph(lv, s) ==
  CASE lv = 1 -> Get({1}, {<<ISl(N, N, 2)>>, <<ISl(N, N, -1)>>, <<ISl(1, 4, 1)>>, <<IFull>>})
                 \cup Get({2}, {<<IFull, ISl(N, N, 2)>>, <<ISl(N, N, -1)>>, <<IFull>>, <<IFull, ISl(1, N, 1)>>})
                 \cup Op1("asarray", {1, 2}, {"asarray"})
    [] lv = 2 -> SetFit(s, {3}, I1All \cup I2All, 20) \cup SetObj(s, {3}, {<<IFull>>, <<ISl(N, N, -1)>>})
                 \cup Get({3}, I1All \cup I2All)
    [] OTHER  -> Get({1, 2}, {<<IFull>>})

\* CX: complex 1-d (3 entries): a tensor, a discretised element, a real ndarray as value source
CXInit == [bufs |-> <<Buf(<<Z(1, 2), Z(3, -4), Z(-5, 6)>>, <<3>>, "C"), Buf(<<Z(7, -1), Z(0, 2), Z(-3, -3)>>, <<3>>, "C"),
                      Buf(RS(<<8, 9, 10>>), <<3>>, "C")>>,
           objs |-> <<Whole("elem", "tensor", TRUE, 1, <<3>>, "same"), Whole("elem", "discr", TRUE, 2, <<3>>, "same"),
                      Whole("arr", "tensor", FALSE, 3, <<3>>, "same")>>]
CXVals(s, x) == {VScalar(R(20)), SeqV(3, 30)} \cup {VObj(o) : o \in {3} \cup {p \in ElemS(s) : ~s.objs[p].cx}}
CXAlph(lv, s) ==
  CASE lv = 1 -> Op1("real", {1, 2}, {""}) \cup Op1("imag", {1, 2}, {""}) \cup Op1("conj", {1, 2}, {""})
                 \cup Op1("tensor", {2}, {""}) \cup Op1("asarray", {1, 2}, {"asarray"}) \cup Op1("copy", {1, 2}, {"copy", "astype"})
                 \cup Get({1, 2}, {<<ISl(1, N, 1)>>, <<IList(<<0, 2>>)>>, <<IInt(1)>>}) \cup Wrap({3}, {"N"}, {"tensor", "discr"})
                 \cup SetP("sample", {2}, {VScalar(Z(1, -1))})
    [] lv = 2 -> Op1("real", ELeafS(s), {""}) \cup Op1("imag", ELeafS(s), {""}) \cup Op1("conj", ELeafS(s) \ {1, 2}, {""})
                 \cup Op1("asarray", ELeafS(s) \ {1, 2}, {"data"}) \cup Get(ELeafS(s) \ {1, 2}, {<<ISl(N, N, 2)>>})
                 \cup Op1("copy", ELeafS(s) \ {1, 2}, {"copy"}) \cup Op1("tensor", ELeafS(s) \ {2}, {""})
    [] lv = 3 -> UNION {SetP("setreal", {x}, {v \in CXVals(s, x) : TRUE}) \cup SetP("setimag", {x}, CXVals(s, x)) : x \in ELeafS(s)}
                 \cup Op2("conj_out", ELeafS(s), ELeafS(s))
                 \cup Set({x \in LeafS(s) : s.objs[x].cx}, {<<IFull>>, <<IInt(0)>>}, {VScalar(Z(2, 5))})
                 \cup Set({x \in LeafS(s) : ~s.objs[x].cx} \ {3}, {<<IFull>>}, {VScalar(R(-7))})
                 \cup Op2("assign", ELeafS(s), ELeafS(s))
    [] OTHER  -> Op1("real", {1, 2}, {""}) \cup Op1("imag", {1, 2}, {""}) \cup Op1("conj", {1, 2}, {""})

\* DS: discretised real 2-d element wrapping an own ndarray
DSInit == [bufs |-> <<Buf(RS(<<1, 2, 3, 4, 5, 6>>), <<2, 3>>, "C"), Buf(RS(<<7, 8, 9, 10, 11, 12>>), <<2, 3>>, "C")>>,
           objs |-> <<Whole("arr", "tensor", FALSE, 1, <<2, 3>>, "same"), Whole("elem", "discr", FALSE, 2, <<2, 3>>, "same")>>]
DSAlph(lv, s) ==
  CASE lv = 1 -> Wrap({1}, {"N", "C", "F"}, {"discr"}) \cup Wrap({2}, {"N"}, {"discr", "tensor"}) \cup Op1("tensor", {2}, {""})
                 \cup Op1("real", {2}, {""}) \cup Op1("imag", {2}, {""}) \cup Op1("copy", {2}, CpH) \cup Op1("asarray", {2}, AsH)
                 \cup Get({2}, I2Small \cup {<<IInt(0), IInt(1)>>}) \cup SetP("sample", {2}, {VScalar(R(5))})
    [] lv = 2 -> SetP("sample", {x \in ELeafS(s) : s.objs[x].sk = "discr"}, {VScalar(R(-4))}) \cup Op1("tensor", ELeafS(s), {""}) \cup Op1("real", ELeafS(s) \ {2}, {""}) \cup Op1("asarray", ELeafS(s) \ {2}, {"asarray"})
                 \cup Get(ELeafS(s) \ {2}, I2Small) \cup Op1("copy", ELeafS(s) \ {2}, {"copy"}) \cup Wrap(ArrS(s) \ {1}, {"N"}, {"discr"})
    [] lv = 3 -> SetFit(s, LeafS(s), I2WriteS \cup {<<IInt(0)>>}, 20) \cup SetObj(s, ELeafS(s), {<<IFull>>})
                 \cup Op2("assign", ElemS(s), ElemS(s)) \cup Op1("set_zero", ElemS(s), {""})
                 \cup SetP("setreal", ELeafS(s), {VScalar(R(9))}) \cup SetP("setimag", {2}, {VScalar(R(9))})
                 \cup Lin(ElemS(s), ElemS(s), {2}, {<<R(2), R(3)>>})
    [] OTHER  -> SetFit(s, {1, 2}, {<<IFull>>}, 40)

\* PS: product spaces over four real tensors a (2), b (3), c (2), d (2): flat, power, nested; later writes through every side
PSInit == [bufs |-> <<Buf(RS(<<1, 2>>), <<2>>, "C"), Buf(RS(<<3, 4, 5>>), <<3>>, "C"), Buf(RS(<<6, 7>>), <<2>>, "C"),
                      Buf(RS(<<8, 9>>), <<2>>, "C")>>,
           objs |-> <<Whole("elem", "tensor", FALSE, 1, <<2>>, "same"), Whole("elem", "tensor", FALSE, 2, <<3>>, "same"),
                      Whole("elem", "tensor", FALSE, 3, <<2>>, "same"), Whole("elem", "tensor", FALSE, 4, <<2>>, "same")>>]
PIdx == {<<IInt(0)>>, <<IInt(-1)>>, <<ISl(0, 2, 1)>>, <<ISl(1, N, 1)>>, <<ISl(N, N, -1)>>, <<IList(<<0, 1>>)>>, <<IList(<<1, 0>>)>>,
         <<IInt(0), IInt(1)>>, <<IInt(1), ISl(1, N, 1)>>, <<IInt(0), IInt(0)>>, <<IInt(0), IInt(1), IInt(0)>>,
         <<IInt(0), ISl(0, 1, 1)>>, <<IInt(0), IInt(0), IInt(0)>>, <<IInt(0), IInt(0), IInt(1)>>, <<IInt(0), ISl(N, N, 1)>>}
PSetV(s) == {VScalar(R(20)), VPer(RS(<<31, 32>>)), VPer(RS(<<31, 32, 33>>)), SeqV(2, 40), SeqV(3, 40)} \cup {VObj(o) : o \in ElemS(s)}
PWrites(s) ==
  {[NoAct EXCEPT !.op = "setitem", !.x = x, !.idx = i, !.v = v] : x \in ProdS(s), i \in PIdx, v \in PSetV(s)}
  \cup SetFit(s, {1, 2, 3}, {<<IFull>>}, 50) \cup Op1("set_zero", ProdS(s), {""})
  \cup Op2("assign", ProdS(s), ProdS(s)) \cup SetP("setreal", ProdS(s), {VScalar(R(9))} \cup {VObj(o) : o \in ProdS(s)})
  \cup SetP("setimag", ProdS(s), {VScalar(R(9))})
  \cup Lin(ProdS(s), ProdS(s), ProdS(s), {<<R(2), R(3)>>}) \cup IBin(ProdS(s), ProdS(s), {"add"})
PSAlph(lv0, s) ==
  LET lv == IF Wide \/ lv0 < 3 THEN lv0 ELSE 4 IN
  CASE lv = 1 -> PEl({<<1, 2>>, <<1, 3>>, <<1, 2, 3>>, <<2, 1>>})
    [] lv = 2 -> GetH(ProdS(s), PIdx, {"", "parts"}) \cup PEl({<<5, 3>>, <<5, 2>>, <<3, 5>>, <<5, 4>>}) \cup Op1("copy", ProdS(s), {"copy"})
                 \cup Op1("asarray", ProdS(s), {"asarray"}) \cup Op1("real", ProdS(s), {""}) \cup Op1("imag", ProdS(s), {""})
                 \cup Op1("conj", ProdS(s), {""})
    [] lv = 3 -> GetH(ProdS(s), PIdx, {""}) \cup PEl({<<6, 4>>, <<4, 6>>, <<6, 3>>}) \cup Op1("copy", Newest(s) \cap ProdS(s), {"copy"})
    [] OTHER  -> PWrites(s)

\* PN: a fixed chain of nestings (((a, b), c), d) followed by every tuple-index read and write
PNAlph(lv, s) ==
  CASE lv = 1 -> PEl({<<1, 2>>})
    [] lv = 2 -> PEl({<<5, 3>>})
    [] lv = 3 -> PEl({<<6, 4>>})
    [] OTHER  -> GetH({5, 6, 7}, PIdx, {""}) \cup
                 {[NoAct EXCEPT !.op = "setitem", !.x = x, !.idx = i, !.v = v] : x \in {6, 7}, i \in PIdx, v \in PSetV(s)}
                 \cup Op1("copy", {7}, {"copy", "copy.copy"}) \cup Op1("set_zero", {6, 7}, {""}) \cup Op2("assign", {7}, {7})

\* LC: arithmetic whose operands are DIFFERENT objects sharing memory (rows of one 2-d tensor, taken more than once)
LCInit == [bufs |-> <<Buf(RS(<<1, 2, 3, 4, 5, 6>>), <<2, 3>>, "C"), Buf(RS(<<7, 8, 9>>), <<3>>, "C")>>,
           objs |-> <<Whole("elem", "tensor", FALSE, 1, <<2, 3>>, "same"), Whole("elem", "tensor", FALSE, 2, <<3>>, "same")>>]
LCAB == {<<R(2), R(3)>>, <<R(1), R(2)>>, <<R(0), R(2)>>, <<R(3), R(0)>>, <<R(1), R(1)>>, <<R(2), R(1)>>, <<R(-1), R(-1)>>, <<R(0), R(0)>>}
LCAlph(lv, s) ==
  CASE lv = 1 -> Get({1}, {<<IInt(0)>>, <<IInt(1)>>, <<ISl(N, N, -1)>>, <<IFull>>}) \cup Wrap({1}, {"N"}, {"tensor"})
    [] lv = 2 -> Get({1}, {<<IInt(0)>>, <<IInt(1)>>}) \cup Get(ElemS(s) \ {1, 2}, {<<IInt(0)>>, <<IFull>>})
                 \cup Op1("asarray", ElemS(s) \ {1, 2}, {"asarray"}) \cup Wrap(ElemS(s) \ {1, 2}, {"N"}, {"tensor"})
    [] OTHER  -> Lin(ElemS(s), ElemS(s), ElemS(s), LCAB) \cup IBin(ElemS(s), ElemS(s), {"add", "sub", "mul"})
                 \cup Op2("assign", ElemS(s), ElemS(s)) \cup Op2("conj_out", ElemS(s), ElemS(s))

\* Z0: spaces without entries: rn(0), rn((0, 3)), rn((2, 0)) and an empty ndarray
Z0Init == [bufs |-> <<Buf(<<>>, <<0>>, "C"), Buf(<<>>, <<0, 3>>, "C"), Buf(<<>>, <<2, 0>>, "F"), Buf(<<>>, <<0>>, "C")>>,
           objs |-> <<Whole("elem", "tensor", FALSE, 1, <<0>>, "same"), Whole("elem", "tensor", FALSE, 2, <<0, 3>>, "same"),
                      Whole("elem", "tensor", FALSE, 3, <<2, 0>>, "same"), Whole("arr", "tensor", FALSE, 4, <<0>>, "same")>>]
IZ == {<<IFull>>, <<ISl(N, N, 2)>>, <<ISl(N, N, -1)>>, <<ISl(1, N, 1)>>, <<IFull, ISl(1, N, 1)>>, <<IInt(0)>>, <<IFull, IInt(0)>>,
       <<IMask(<<>>)>>, <<IMask(<<1, 0>>)>>}
IZs == {<<IFull>>, <<ISl(N, N, -1)>>, <<IFull, ISl(1, N, 1)>>, <<IMask(<<>>)>>, <<IMask(<<1, 0>>)>>}
Z0Alph(lv, s) ==
  CASE lv = 1 -> Get({1, 2, 3, 4}, IZ) \cup Op1("copy", {1, 2, 3}, CpH) \cup Op1("asarray", {1, 2, 3}, AsH)
                 \cup Wrap({1, 2, 3, 4}, {"N", "C", "F"}, {"tensor"}) \cup PEl({<<1, 2>>, <<1, 1>>, <<3>>})
                 \cup Op1("real", {1, 2}, {""}) \cup Op1("imag", {1, 3}, {""}) \cup Op1("conj", {2}, {""})
    [] lv = 2 -> SetFit(s, {1, 2, 3} \cup (Newest(s) \cap LeafS(s)), IF Wide THEN IZ ELSE IZs, 20)
                 \cup SetObj(s, Newest(s) \cap LeafS(s), {<<IFull>>}) \cup Op2("assign", ElemS(s), Newest(s))
                 \cup Op1("set_zero", Newest(s) \cap ElemS(s), {""}) \cup Lin(Newest(s) \cap ElemS(s), ElemS(s), ElemS(s), {<<R(2), R(3)>>})
                 \cup IBin(ElemS(s), Newest(s), {"add", "mul"}) \cup Op2("conj_out", ELeafS(s), Newest(s))
                 \cup Op2("asarray_out", {1}, {4}) \cup Get(Newest(s), IZs \cup {<<IList(<<0>>)>>, <<IInt(0)>>})
                 \cup {[NoAct EXCEPT !.op = "setitem", !.x = x, !.idx = i, !.v = VScalar(R(7))] : x \in ProdS(s), i \in {<<IInt(0)>>, <<IFull>>}}
                 \cup SetP("setreal", Newest(s) \cap ElemS(s), {VScalar(R(9))}) \cup Op1("copy", ProdS(s), {"copy"})
    [] OTHER  -> Get({1, 2, 3}, {<<IFull>>})

MC_Init ==
  CASE Profile = "T1" -> T1Init [] Profile = "T2" -> T2Init [] Profile = "SI" -> SIInit [] Profile = "CX" -> CXInit
    [] Profile = "DS" -> DSInit [] Profile \in {"PS", "PN"} -> PSInit [] Profile = "LC" -> LCInit [] Profile = "Z0" -> Z0Init
MC_Alph(lv, s) ==
  CASE Profile = "T1" -> T1Alph(lv, s) [] Profile = "T2" -> T2Alph(lv, s) [] Profile = "SI" -> SIAlph(lv, s)
    [] Profile = "CX" -> CXAlph(lv, s) [] Profile = "DS" -> DSAlph(lv, s) [] Profile = "PS" -> PSAlph(lv, s)
    [] Profile = "LC" -> LCAlph(lv, s) [] Profile = "PN" -> PNAlph(lv, s) [] Profile = "Z0" -> Z0Alph(lv, s)
MC_MaxLen ==
  CASE Profile \in {"T1", "DS"} -> (IF Wide THEN 4 ELSE 3)
    [] Profile = "T2" -> 3
    [] Profile = "SI" -> 2
    [] Profile = "CX" -> (IF Wide THEN 4 ELSE 3)
    [] Profile = "PS" -> (IF Wide THEN 4 ELSE 3)
    [] Profile = "LC" -> 3
    [] Profile = "PN" -> 4
    [] Profile = "Z0" -> 2
MC_MaxObj == 8

\* one JSON line per complete behaviour (a history that cannot be extended inside the bounds is complete as well)
Complete == Len(hist) = MC_MaxLen \/ \A A \in MC_Alph(Len(hist) + 1, st) : ~(Legal(st, A) /\ Len(Step(st, A).st.objs) <= MC_MaxObj)
\* compact JSON: an integer n stands for the number <<<<n, 1>>, <<0, 1>>>>; the initial heap is written once (first line)
Enc(c) == IF c[1][2] = 1 /\ c[2] = <<0, 1>> THEN c[1][1] ELSE c
EncSeq(v) == [k \in 1..Len(v) |-> Enc(v[k])]
EncObs(o) == [vals |-> [i \in 1..Len(o.vals) |-> EncSeq(o.vals[i])], sh |-> o.sh,
              ret |-> [o.ret EXCEPT !.v = EncSeq(@)]]
EncHist == [i \in 1..Len(hist) |-> [act |-> hist[i].act, obs |-> EncObs(hist[i].obs)]]
Write(rec) == Serialize(ToJson(rec) \o "\n", IOEnv.OUT_FILE,
                        [format |-> "TXT", charset |-> "UTF-8", openOptions |-> <<"WRITE", "CREATE", "APPEND">>]).exitValue = 0
ExportLine == Write([hist |-> EncHist])
Export == IF Len(hist) = 0 THEN Write([init |-> MC_Init])
          ELSE IF Complete THEN ExportLine ELSE TRUE
=============================================================================

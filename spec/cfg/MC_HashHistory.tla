--------------------------- MODULE MC_HashHistory ---------------------------
(* History enumeration for C20 (HashHistoryMachine); every reached history is exported as one JSON line. *)
EXTENDS HashHistoryMachine, Json, IOUtils
Big == IOEnv.ST_BIG = "1"
MC_NW == IF Big THEN 2 ELSE 1
MC_Kinds == IF Big THEN {"TW", "PW", "rn", "discr", "pspace", "grid", "part", "discrg"}
            ELSE {"TW", "PW", "rn", "discr", "pspace", "grid", "discrg"}
MC_MaxLen == 4
MC_MaxObjs == 3
MC_MaxShifts == 2
EqMatrix == [i \in 1..Len(st.objs) |-> [j \in 1..Len(st.objs) |-> IF HEq(st, st.objs[i], st.objs[j]) THEN "T" ELSE "F"]]
Export ==
  acts = <<>> \/
  Serialize(ToJson([acts |-> acts, nw |-> NW, eq |-> EqMatrix]) \o "\n", IOEnv.OUT_FILE,
            [format |-> "TXT", charset |-> "UTF-8",
             openOptions |-> <<"WRITE", "CREATE", "APPEND">>]).exitValue = 0
=============================================================================

SPECIFICATION Spec
CONSTANTS
  InitObjs <- MC_InitObjs
  MaxLen <- MC_MaxLen
  MaxDim <- MC_MaxDim
  FullDepth <- MC_FullDepth
  InsBoxes <- MC_InsBoxes
  InsGrids <- MC_InsGrids
  FixedOthers <- MC_FixedOthers
VIEW View
INVARIANT TypeOK
INVARIANT NoUnknownOp
INVARIANT Laws

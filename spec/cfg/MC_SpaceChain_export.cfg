SPECIFICATION ChainSpec
CONSTANTS
  Starts <- MC_Starts
  MaxLen <- MC_MaxLen
CONSTRAINT Export

SPECIFICATION Spec
INVARIANT RoundTripLaw
INVARIANT FTRoundTripLaw
INVARIANT HermitianLaw
INVARIANT GridLaw
INVARIANT ZeroColumnLaw
INVARIANT ImplTableRefines

SPECIFICATION Spec
CONSTANTS
  Dets <- MCDets
  MaxLen <- MCMaxLen
  QueriesOf <- MCQueriesOf
INVARIANT HistoryFree
INVARIANT Repeatable
PROPERTY DetFixed
CONSTRAINT Export

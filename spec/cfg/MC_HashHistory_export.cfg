SPECIFICATION HistSpec
CONSTANTS
  NW <- MC_NW
  Kinds <- MC_Kinds
  MaxLen <- MC_MaxLen
  MaxObjs <- MC_MaxObjs
  MaxShifts <- MC_MaxShifts
CONSTRAINT Export

SPECIFICATION Spec
CONSTANTS
  Cases <- MC_Cases
INVARIANT Laws
INVARIANT RefinesC
CONSTRAINT ExportCase
CHECK_DEADLOCK FALSE

------------------------------ MODULE MC_Smooth ------------------------------
(***************************************************************************)
(* Model-checking / export wrapper of SmoothMachine.                       *)
(*   SMOOTH_GROUP  which family of the catalogue is explored               *)
(*                 newton | bfgs | broyden | ncg | sd | adam | ls (ls0, ls1)*)
(*   SMOOTH_TIER   quick | thorough  (size of the catalogue)               *)
(*   OUT_FILE      export file (one JSON line per finished behaviour)      *)
(* The base problems (matrix, weights, minimiser, start) live in           *)
(* MC_SmoothCat: they were picked so that the exact rational run of the    *)
(* family needs its full number of iterations and stays inside TLC's       *)
(* 32-bit integers (an overflow is a TLC error, never a wrong verdict).    *)
(***************************************************************************)
EXTENDS SmoothMachine, MC_SmoothCat, Json, IOUtils

Group == IOEnv.SMOOTH_GROUP
Thorough == IOEnv.SMOOTH_TIER = "thorough"
q(a, b) == Q(a, b)

(* ------------------------- matrices and weights ------------------------- *)
Mat(nm) ==
  CASE nm = "S2a" -> MInt(<< <<2, 1>>, <<1, 2>> >>)
    [] nm = "S2b" -> MInt(<< <<4, 1>>, <<1, 3>> >>)
    [] nm = "S2c" -> MInt(<< <<1, 2>>, <<2, 5>> >>)                \* condition number ~ 34
    [] nm = "S2d" -> MInt(<< <<10, 3>>, <<3, 1>> >>)               \* determinant 1, condition number ~ 120
    [] nm = "S2e" -> MInt(<< <<5, -2>>, <<-2, 1>> >>)              \* determinant 1, condition number ~ 34
    [] nm = "D2"  -> MInt(<< <<100, 0>>, <<0, 1>> >>)              \* condition number 100
    [] nm = "S3"  -> MInt(<< <<2, -1, 0>>, <<-1, 2, -1>>, <<0, -1, 2>> >>)
    [] nm = "S3b" -> MInt(<< <<2, 1, 0>>, <<1, 2, 1>>, <<0, 1, 2>> >>)
    [] nm = "S3c" -> MInt(<< <<2, 1, 0>>, <<1, 3, 1>>, <<0, 1, 2>> >>)
    [] nm = "S3d" -> MInt(<< <<4, 1, 1>>, <<1, 3, 0>>, <<1, 0, 2>> >>)
    [] nm = "D3"  -> MInt(<< <<1, 0, 0>>, <<0, 2, 0>>, <<0, 0, 4>> >>)
Wt(nm, n) ==
  CASE nm = "1"  -> [i \in 1..n |-> QOne]                          \* rn
    [] nm = "c2" -> [i \in 1..n |-> q(2, 1)]                       \* constant weighting / cell volume 2
    [] nm = "ch" -> [i \in 1..n |-> q(1, 2)]                       \* constant weighting / cell volume 1/2
    [] nm = "a12" -> SubSeq(<<q(1, 1), q(2, 1), q(1, 1)>>, 1, n)   \* array weightings
    [] nm = "a21" -> SubSeq(<<q(2, 1), q(1, 1), q(4, 1)>>, 1, n)

\* a case is <<matrix, weights, minimiser, 2 * start, tier (, options)>> ; tier 0 = quick and thorough, 1 = thorough only
Halves(v) == [i \in 1..Len(v) |-> Q(v[i], 2)]
Use(c) == Thorough \/ c[5] = 0
QuadP(c) ==
  [kind |-> "quad", tag |-> c[1] \o "/" \o c[2], M |-> Mat(c[1]), c |-> MatVec(Mat(c[1]), RInt(c[3])),
   w |-> Wt(c[2], Len(c[3])), t |-> <<>>, sol |-> RInt(c[3])]
\* quartic / linear problems: <<kind, weights, t or c, start, tier>>
OtherP(c) ==
  [kind |-> c[1], tag |-> c[1] \o "/" \o c[2], M |-> <<>>, c |-> IF c[1] = "lin" THEN RInt(c[3]) ELSE <<>>,
   w |-> Wt(c[2], Len(c[3])), t |-> IF c[1] = "quart" THEN RInt(c[3]) ELSE <<>>,
   sol |-> IF c[1] = "quart" THEN RInt(c[3]) ELSE <<>>]

Base == [solver |-> "", fam |-> "", P |-> <<>>, x0 |-> <<>>, N |-> 3, ls |-> LS0, store |-> -1, h0 |-> <<>>,
         impl |-> "first", beta |-> "FR", cgit |-> 0, box |-> <<>>, lr |-> QOne, b1 |-> QZero, b2 |-> QZero,
         queries |-> <<>>]
Inst(solver, fam, c) ==
  [Base EXCEPT !.solver = solver, !.fam = fam, !.P = IF c[1] \in {"quart", "lin"} THEN OtherP(c) ELSE QuadP(c),
               !.x0 = Halves(c[4])]
DimOf(c) == Len(c[4])
H0Of(nm, n) == CASE nm = "I" -> <<>>
                 [] nm = "D" -> SubSeq(<<q(1, 2), q(1, 4), q(1, 1)>>, 1, n)      \* MultiplyOperator
                 [] nm = "S" -> [i \in 1..n |-> q(1, 2)]                         \* ScalingOperator
BT(tau, disc) == LSBT(tau, disc, QOne, FALSE, 30)

(* ------------------------- the families --------------------------------- *)
\* Newton: full / damped / exact / backtracking steps, exact and truncated CG solves, the quartic
NewtonCat(u_) ==
  { [Inst("newton", "quad", c) EXCEPT !.ls = ls, !.cgit = cgi] :
      c \in {c \in NewtonCases : Use(c)},
      ls \in {LSConst(QOne), LSConst(q(1, 2)), LSExact, BT(q(1, 2), q(1, 100))}, cgi \in {0, 1} }
  \cup { [Inst("newton", "quart", c) EXCEPT !.ls = ls] :
      c \in {c \in QuartCases : Use(c)}, ls \in {LSConst(QOne), LSConst(q(1, 2))} }

\* BFGS: exact line search (= CG) with every memory size, preconditioned starts, constant and backtracking steps
BFGSCat(u_) ==
  { [Inst("bfgs", "exact", c) EXCEPT !.ls = LSExact, !.store = m, !.N = DimOf(c) + 1] :
      c \in {c \in CGCases : Use(c)}, m \in {-1, 1, 2} }
  \cup { [Inst("bfgs", "exact-h0", c) EXCEPT !.ls = LSExact, !.h0 = H0Of(h, DimOf(c)), !.N = DimOf(c) + 1] :
      c \in {c \in BFGSHCases : Use(c)}, h \in {"D"} }
  \cup { [Inst("bfgs", "exact-store0", c) EXCEPT !.ls = LSExact, !.store = 0] :
      c \in {c \in SDXCases : Use(c)} }
  \cup { [Inst("bfgs", "const", c) EXCEPT !.ls = LSConst(c[6]), !.store = mh[1], !.h0 = H0Of(mh[2], DimOf(c))] :
      c \in {c \in BFGSCCases : Use(c)}, mh \in {<<-1, "I">>, <<1, "I">>, <<-1, "S">>} }
  \cup { [Inst("bfgs", "bt", c) EXCEPT !.ls = BT(q(1, 2), q(1, 100)), !.store = m] :
      c \in {c \in BFGSBCases : Use(c)}, m \in {-1, 1} }

\* Broyden: both updates; full steps on the linear system (finite termination within 2 dim steps), damped and exact
BroydenCat(u_) ==
  { [Inst("broyden", "full", c) EXCEPT !.impl = c[6], !.N = 2 * DimOf(c)] :
      c \in {c \in BroydenFullCases : Use(c)} }
  \cup { [Inst("broyden", "damped", c) EXCEPT !.impl = c[6], !.ls = ls, !.h0 = H0Of(h, DimOf(c))] :
      c \in {c \in BroydenStepCases : Use(c)}, ls \in {LSConst(q(1, 2)), LSExact}, h \in {"I", "S"} }

\* nonlinear CG: all four betas, exact line search (= CG) and small constant steps
NCGCat(u_) ==
  { [Inst("ncg", "exact", c) EXCEPT !.ls = LSExact, !.beta = b, !.N = DimOf(c) + 1] :
      c \in {c \in CGCases : Use(c)}, b \in {"FR", "PR", "HS", "DY"} }
  \cup { [Inst("ncg", "const", c) EXCEPT !.ls = LSConst(c[7]), !.beta = c[6]] :
      c \in {c \in NCGCCases : Use(c)} }

\* steepest descent: constant steps, steps by call number, exact and backtracking line search, projection on a box
SDCat(u_) ==
  { [Inst("sd", "exact", c) EXCEPT !.ls = LSExact] : c \in {c \in SDXCases : Use(c)} }
  \cup { [Inst("sd", "const", c) EXCEPT !.ls = ls, !.box = bx, !.N = 4] :
      c \in {c \in SDCCases : Use(c)},
      ls \in {LSConst(q(1, 8)), LSIterNum(<<q(1, 4), q(1, 8), q(1, 16), q(1, 8)>>)},
      bx \in {<<>>, <<q(0, 1), q(2, 1)>>} }
  \cup { [Inst("sd", "bt", c) EXCEPT !.ls = ls] :
      c \in {c \in SDBCases : Use(c)},
      ls \in {BT(q(1, 2), q(1, 100)), LSBT(q(1, 4), q(1, 4), q(2, 1), TRUE, 30)} }

\* ADAM: b2 = 0 (sqrt(vh) = |g| is rational) with several b1; constant gradient with arbitrary b1, b2
AdamCat(u_) ==
  { [Inst("adam", "b2=0", c) EXCEPT !.lr = q(1, 4), !.b1 = b1] :
      c \in {c \in AdamCases : Use(c)}, b1 \in {QZero, q(1, 2), q(9, 10)} }
  \cup { [Inst("adam", "lin", c) EXCEPT !.lr = q(1, 2), !.b1 = b[1], !.b2 = b[2]] :
      c \in {c \in LinCases : Use(c)}, b \in {<<QZero, QZero>>, <<q(1, 2), q(3, 4)>>, <<q(9, 10), q(1, 2)>>} }

\* step-length objects: histories of three calls over four queries (descent direction -g, a long descent direction
\* -4g, the ascent direction +g, a coordinate direction)
Queries(PP_, x) ==
  LET g == QGrad(PP_, x) IN
  << [x |-> x, d |-> RNeg(g)], [x |-> x, d |-> RScal(q(-4, 1), g)], [x |-> x, d |-> g],
     [x |-> RSub(x, RScal(q(1, 2), g)), d |-> Unit(Len(x), 1)] >>
LSRules ==
  { LSBT(td[1], td[2], a0, est, mx) :
      td \in (IF Thorough THEN {q(1, 2), q(1, 4)} \X {q(1, 100), q(1, 2)}
              ELSE {<<q(1, 2), q(1, 100)>>, <<q(1, 4), q(1, 2)>>}),
      a0 \in {QOne, q(2, 1), q(1, 2)}, est \in BOOLEAN, mx \in (IF Thorough THEN {0, 1, 2, 3, 30} ELSE {1, 30}) }
  \cup {LSConst(q(3, 4)), LSIterNum(<<q(1, 1), q(1, 2), q(1, 3)>>)}
LSCat(u_) ==
  { [Inst("ls", "history", c) EXCEPT !.ls = ls, !.N = 3,
                                      !.queries = Queries(IF c[1] \in {"quart", "lin"} THEN OtherP(c) ELSE QuadP(c),
                                                          Halves(c[4]))] :
      c \in {c \in LSCases : Use(c)}, ls \in LSRules }

MC_Catalogue ==
  CASE Group = "newton"  -> NewtonCat(0)
    [] Group = "bfgs"    -> BFGSCat(0)
    [] Group = "broyden" -> BroydenCat(0)
    [] Group = "ncg"     -> NCGCat(0)
    [] Group = "sd"      -> SDCat(0)
    [] Group = "adam"    -> AdamCat(0)
    [] Group = "ls"      -> LSCat(0)
    [] Group = "ls0"     -> {I \in LSCat(0) : ~I.ls.est}            \* (two halves, so that two TLC processes share the work)
    [] Group = "ls1"     -> {I \in LSCat(0) : I.ls.est}
MC_WithSplits == TRUE

(* ------------------------- export ---------------------------------------- *)
\* one JSON line per finished behaviour: the instance, the boundary, the expected line-search calls, iterates and
\* final object states
ExportRec ==
  IF IsLS(inst)
    THEN [inst |-> inst, hist |-> st.hist, lo |-> st.lo]
    ELSE [inst |-> inst, split |-> split, seg |-> seg, k |-> k, log |-> log, x |-> st.x, lo |-> st.lo,
          ok |-> st.ok, tie |-> st.tie, conv |-> Converged(inst, st)]
Export ==
  IF Finished
    THEN Serialize(ToJson(ExportRec) \o "\n", IOEnv.OUT_FILE,
                   [format |-> "TXT", charset |-> "UTF-8",
                    openOptions |-> <<"WRITE", "CREATE", "APPEND">>]).exitValue = 0
    ELSE TRUE

\* deliberately false (self-test of non-vacuity): steepest descent with exact line search is NOT exact after dim steps
Bogus == (Quad /\ inst.solver = "sd" /\ ExactLS /\ k >= nn) => st.x = PP.sol
=============================================================================

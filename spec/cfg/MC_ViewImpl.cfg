SPECIFICATION CSpec
CONSTANTS
  Mem0 <- MC_Mem0
  Wrappers <- MC_Wrappers
  Scalars <- MC_Scalars
  Regimes <- MC_Regimes
  PreCopy <- MC_PreCopy
INVARIANT Refines
CONSTRAINT Export

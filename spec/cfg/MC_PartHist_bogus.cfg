SPECIFICATION Spec
CONSTANTS
  Scenarios <- MC_Scenarios
  MaxLen <- MC_MaxLen
  Routes <- MC_Routes
  Attrs <- MC_Attrs
  Methods <- MC_Methods
INVARIANT BogusFirstWins

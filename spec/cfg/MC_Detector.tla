----------------------------- MODULE MC_Detector -----------------------------
(***************************************************************************)
(* Case enumeration over layer A (DetectorSem): every case of the selected *)
(* group (IOEnv.DET_GROUP) is one initial state; TLC checks the laws of    *)
(* the reference on it (CaseLaws), checks that the transcribed decision    *)
(* structure of the code refines the reference where it does (ImplRefines) *)
(* and pins the two places where it does not (Quirks), and exports the     *)
(* case with the documented expectation.                                   *)
(*   groups  flat1 circ flat2 cyl sph : [d, q]  detector x query           *)
(*           ctor                     : [d]     constructor preconditions  *)
(*           shape                    : [cls, m, shs] parameter forms only *)
(***************************************************************************)
EXTENDS DetectorImpl, Json
VARIABLE c
Group == IOEnv.DET_GROUP
Thorough == IOEnv.DET_TIER = "thorough"
I(n) == QI(n)
IV(s) == [i \in 1..Len(s) |-> I(s[i])]

(* ------------------------------ parameters ------------------------------ *)
A0 == PAng(QOne, QZero)
Ap34 == PAng(Q(4, 5), Q(3, 5))     Am34 == PAng(Q(4, 5), Q(-3, 5))
Ap43 == PAng(Q(3, 5), Q(4, 5))     Am43 == PAng(Q(3, 5), Q(-4, 5))
Ap513 == PAng(Q(12, 13), Q(5, 13)) Am513 == PAng(Q(12, 13), Q(-5, 13))
A90 == PAng(QZero, QOne)           Am90 == PAng(QZero, I(-1))
Aob == PAng(Q(-3, 5), Q(4, 5))                                   \* beyond pi/2
AngIn  == << A0, Ap34, Am513, Ap43, Am34, Ap513, Am43 >>        \* Ap43 / Am43 are the corners of the partition set
AngOut == << A90, Ap34, A0, Aob, Am34, Ap513 >>                \* the first one lies outside: single parameters too
ThIn   == << A0, Ap34, Am34, Ap513, Am513, Ap43 >>
LenIn  == << PLen(QZero), PLen(Q(1, 2)), PLen(Q(-3, 2)), PLen(I(2)), PLen(Q(5, 4)), PLen(I(-2)), PLen(Q(-1, 4)) >>
LenOut == << PLen(Q(5, 2)), PLen(Q(1, 2)), PLen(QZero), PLen(I(-3)), PLen(I(1)) >>
Take(pool, n, off) == [i \in 1..n |-> pool[((i + off - 1) % Len(pool)) + 1]]
LoOf(cls, j) == IF Angular(cls, j) THEN Am43 ELSE PLen(I(-2))
HiOf(cls, j) == IF Angular(cls, j) THEN Ap43 ELSE PLen(I(2))
ThOut  == << PAng(Q(5, 13), Q(12, 13)), Ap34, A0, PAng(Q(5, 13), Q(-12, 13)), Am34 >>      \* outside, cos(theta) > 0
\* the coordinate that carries the parameters outside: the first one for surface / normal, the second one for deriv / measure
OutCoord(cls, m) == IF NDimOf(cls) = 1 \/ m \in {"surface", "normal"} THEN 1 ELSE 2
PoolOf(cls, j, inside, m) ==
  IF inside \/ j # OutCoord(cls, m)
    THEN (IF Angular(cls, j) THEN (IF cls = "sph" /\ j = 2 THEN ThIn ELSE AngIn) ELSE LenIn)
    ELSE (IF Angular(cls, j) THEN (IF cls = "sph" /\ j = 2 THEN ThOut ELSE AngOut) ELSE LenOut)

Shapes1 == {<<>>, <<1>>, <<3>>, <<0>>, <<2, 2>>, <<1, 1>>, <<2, 1>>} \cup (IF Thorough THEN {<<2, 3>>, <<1, 3, 1>>, <<5>>} ELSE {})
Shapes2 == { <<<<>>, <<>>>>, <<<<1>>, <<1>>>>, <<<<3>>, <<3>>>>, <<<<0>>, <<0>>>>, <<<<2, 1>>, <<1, 3>>>>, <<<<3>>, <<>>>>,
             <<<<>>, <<2>>>>, <<<<2, 2>>, <<2, 2>>>>, <<<<2, 1>>, <<3>>>>, <<<<1, 1>>, <<1, 1>>>> }
           \cup (IF Thorough THEN { <<<<1, 2>>, <<2, 1>>>>, <<<<2, 1, 1>>, <<1, 2>>>>, <<<<1>>, <<>>>>, <<<<4>>, <<4>>>> } ELSE {})
Methods == {"surface", "deriv", "normal", "measure"}
MkQuery(cls, m, shs, inside, off) ==
  [m |-> m, sh |-> shs,
   v |-> [j \in 1..Len(shs) |-> Take(PoolOf(cls, j, inside, m), Prod(shs[j]), off + 2 * (j - 1))]]
Queries(cls) ==
  { MkQuery(cls, m, IF NDimOf(cls) = 1 THEN <<s>> ELSE s, ins, off) :
      m \in Methods, s \in (IF NDimOf(cls) = 1 THEN Shapes1 ELSE Shapes2), ins \in BOOLEAN,
      off \in (IF Thorough THEN {0, 3} ELSE {0}) }

(* ------------------------------ detectors ------------------------------- *)
Ax2 == { IV(<<1, 0>>), IV(<<0, 1>>), IV(<<3, 4>>), IV(<<-4, 3>>), IV(<<0, -2>>), IV(<<-1, 0>>), <<Q(3, 5), Q(4, 5)>>, IV(<<-5, -12>>) }
X3 == IV(<<1, 0, 0>>)   Y3 == IV(<<0, 1, 0>>)   Z3 == IV(<<0, 0, 1>>)
Ax3Perp == { <<X3, Z3>>, <<Y3, Z3>>, <<IV(<<3, 4, 0>>), Z3>>, <<Z3, X3>>, <<IV(<<3, 4, 0>>), IV(<<-4, 3, 0>>)>>, <<X3, Y3>>,
             <<IV(<<0, -1, 0>>), IV(<<0, 0, -1>>)>>, <<Y3, IV(<<0, 0, -1>>)>>, <<IV(<<3, 4, 0>>), IV(<<0, 0, -1>>)>>,
             <<IV(<<1, 2, 2>>), IV(<<2, 1, -2>>)>>, <<IV(<<2, 0, 0>>), IV(<<0, 0, 3>>)>>,
             << <<QZero, Q(4, 5), Q(-3, 5)>>, <<QZero, Q(3, 5), Q(4, 5)>> >> }
Ax3Skew == { <<X3, IV(<<3, 4, 0>>)>>, <<IV(<<0, 3, 4>>), IV(<<0, 0, -1>>)>> }
Radii == {I(2), Q(1, 2)} \cup (IF Thorough THEN {I(5)} ELSE {})
MkDet(cls, ax, r, cb) ==
  [cls |-> cls, ax |-> ax, r |-> r, cb |-> cb,
   lo |-> [j \in 1..NDimOf(cls) |-> LoOf(cls, j)], hi |-> [j \in 1..NDimOf(cls) |-> HiOf(cls, j)]]
DetsOf(cls) ==
  CASE cls = "flat1" -> { MkDet(cls, <<a>>, QOne, cb) : a \in Ax2, cb \in BOOLEAN }
    [] cls = "circ"  -> { MkDet(cls, <<a>>, r, cb) : a \in Ax2, r \in Radii, cb \in BOOLEAN }
    [] cls = "flat2" -> { MkDet(cls, a, QOne, cb) : a \in Ax3Perp \cup Ax3Skew, cb \in BOOLEAN }
    [] OTHER         -> { MkDet(cls, a, r, cb) : a \in Ax3Perp, r \in Radii, cb \in BOOLEAN }
\* check_bounds = False is only interesting together with parameters outside
Relevant(d, q) == d.cb \/ \E j \in 1..Len(q.v) : \E i \in 1..Len(q.v[j]) : q.v[j][i] \in {A90, Aob, PLen(Q(5, 2)), PLen(I(-3)), PAng(Q(5, 13), Q(12, 13)), PAng(Q(5, 13), Q(-12, 13))}
QueryCases(cls) == { [g |-> "query", d |-> d, q |-> q] : d \in DetsOf(cls), q \in Queries(cls) }

ZeroAx == { <<IV(<<0, 0>>)>> }
CtorCases ==
  { [g |-> "ctor", d |-> MkDet(cls, <<a>>, r, TRUE)] :
      cls \in {"flat1", "circ"}, a \in Ax2 \cup {IV(<<0, 0>>)}, r \in {I(2), QZero, I(-1)} }
  \cup { [g |-> "ctor", d |-> MkDet(cls, a, r, TRUE)] :
      cls \in {"flat2", "cyl", "sph"},
      a \in Ax3Perp \cup Ax3Skew \cup { <<X3, IV(<<2, 0, 0>>)>>, <<X3, IV(<<-1, 0, 0>>)>>, <<IV(<<0, 0, 0>>), Z3>>, <<Y3, IV(<<0, 0, 0>>)>>,
                                        <<IV(<<1, 2, 2>>), IV(<<2, 4, 4>>)>> },
      r \in {I(2), QZero, I(-1)} }
AllShapes1 == Shapes1 \cup {<<2, 3>>, <<1, 3, 1>>, <<3, 1>>, <<1, 1, 1>>, <<0, 2>>, <<2, 1, 2>>}
AllShapes == AllShapes1 \cup {<<1, 3>>, <<1, 2>>, <<2>>}
ShapeCases ==
  { [g |-> "shape", cls |-> cls, m |-> m, shs |-> <<s>>] : cls \in {"flat1", "circ"}, m \in Methods, s \in AllShapes1 }
  \cup { [g |-> "shape", cls |-> cls, m |-> m, shs |-> <<s, t>>] : cls \in {"flat2", "cyl", "sph"}, m \in Methods, s \in AllShapes, t \in AllShapes }

\* the thorough catalogue of a curved class is split over two TLC runs (IOEnv.DET_SUB = "1" | "2"; anything else = all)
InSub(x) == CASE IOEnv.DET_SUB = "1" -> x.d.r = I(2)
              [] IOEnv.DET_SUB = "2" -> x.d.r # I(2)
              [] OTHER -> TRUE
Cases == CASE Group = "ctor" -> CtorCases
           [] Group = "shape" -> ShapeCases
           [] Group = "small" -> CtorCases \cup ShapeCases \cup { x \in QueryCases("flat1") : Relevant(x.d, x.q) }
           [] OTHER -> { x \in QueryCases(Group) : Relevant(x.d, x.q) /\ InSub(x) }

(* -------------------------------- checks -------------------------------- *)
PointsOf(q) == LET bsh == QShape(q) IN IF bsh = <<-1>> THEN {} ELSE { QPoint(q, k, bsh) : k \in 0..(Prod(bsh) - 1) }
\* the per-detector laws are evaluated once per detector (on its single-parameter surface query)
CaseLaws ==
  CASE c.g = "query" ->
         /\ (c.q.m = "surface" /\ c.q.sh[1] = <<>>) => DetLaws(c.d)
         /\ c.q.m = "normal" => \A pt \in PointsOf(c.q) : PointLaws(c.d, pt) /\ OnCurve(c.d, pt)
    [] c.g = "ctor" -> (AxesOK(c.d) /\ OnLattice(c.d)) => DetLaws(c.d)
    [] OTHER -> TRUE
Flip == c.g = "query" /\ FrameFlip(c.d)
\* NOT a law: the bogus configuration must find the mirrored frame (shows that the flip class is inhabited)
NeverFlip == ~Flip
ImplRefines ==
  CASE c.g = "query" ->
         /\ ~(c.q.m = "measure" /\ RaggedMeasure(c.d.cls, c.q.sh)) => ImplShape(c.d.cls, c.q.m, c.q.sh) = SemShape(c.d.cls, c.q.m, c.q.sh)
         /\ LET fi == ImplFrame(c.d)  fa == FrameOf(c.d) IN
            (fi = fa) =>
              \A pt \in PointsOf(c.q) : (c.q.m \in {"surface", "deriv"} \/ RegularF(c.d, fa, pt)) =>
                   ImplPointValF(c.d, fi, c.q.m, pt) = PointValF(c.d, fa, c.q.m, pt)
    [] c.g = "ctor" -> ImplCtor(c.d) = SemCtor(c.d)
    [] c.g = "shape" ->
         (BcastAll(c.shs) # <<-1>> /\ ~(c.m = "measure" /\ RaggedMeasure(c.cls, c.shs)))
            => ImplShape(c.cls, c.m, c.shs) = SemShape(c.cls, c.m, c.shs)
\* the places where the code as written leaves the documentation (open findings): pinned exactly
Quirks ==
  CASE c.g = "query" -> (c.q.m = "surface" /\ c.q.sh[1] = <<>>) =>
                          /\ FrameFlipD(c.d) = FrameFlip(c.d)
                          /\ (FrameFlip(c.d) <=> (c.d.cls \in {"cyl", "sph"} /\ SecondTurnIsHalf(c.d)
                                                 /\ PerpImpl(GNeg(UnitAxes(c.d)[2])) \notin {UnitAxes(c.d)[1], GNeg(UnitAxes(c.d)[1])}))
    [] c.g = "shape" -> (c.m = "measure" /\ RaggedMeasure(c.cls, c.shs)) => ImplShape(c.cls, c.m, c.shs) = RAISE
    [] OTHER -> TRUE

Tags(x) == IF x.g = "query" THEN [flip |-> FrameFlipD(x.d), ragged |-> (x.q.m = "measure" /\ RaggedMeasure(x.d.cls, x.q.sh))]
           ELSE [flip |-> FALSE, ragged |-> FALSE]
Exp(x) == CASE x.g = "query" -> Expected(x.d, x.q)
            [] x.g = "ctor" -> [k |-> SemCtor(x.d)]
            [] OTHER -> [k |-> "shape", sh |-> IF BcastAll(x.shs) = <<-1>> THEN <<-1>> ELSE SemShape(x.cls, x.m, x.shs)]

Init == c \in Cases
Next == UNCHANGED c
Spec == Init /\ [][Next]_c
Export == Serialize(ToJson([a |-> c, exp |-> Exp(c), tag |-> Tags(c)]) \o "\n", IOEnv.OUT_FILE,
                    [format |-> "TXT", charset |-> "UTF-8",
                     openOptions |-> <<"WRITE", "CREATE", "APPEND">>]).exitValue = 0
=============================================================================

SPECIFICATION Spec
CONSTANTS
  Catalogue <- MC_Catalogue
  WithSplits <- MC_WithSplits
  TolInv <- MC_TolInv
  Quirks <- MC_Quirks
INVARIANT WellFormed
INVARIANT NewtonOneStep
INVARIANT NewtonCGSolves
INVARIANT NewtonQuartic
INVARIANT SameAsCG
INVARIANT ExactAfterDim
INVARIANT Conjugate
INVARIANT Secant
INVARIANT SelfAdjoint
INVARIANT HereditarySecant
INVARIANT InverseAfterDim
INVARIANT NoMemoryIsSD
INVARIANT BroydenSecant
INVARIANT BroydenFinite
INVARIANT SDOrthogonal
INVARIANT Descent
INVARIANT ArmijoHolds
INVARIANT InBox
INVARIANT AdamFirstStep
INVARIANT ResumeExact
INVARIANT IterateIsResult
INVARIANT LSLaws
INVARIANT LSStartRule
INVARIANT Refines
INVARIANT LSRefines
CONSTRAINT Export

---------------------------- MODULE MC_GeomSetBasic ----------------------------
(* The basic sets of odl/set/sets.py (EXT/geomsets): membership, contains_set, contains_all and element as DOCUMENTED   *)
(* (GeomSetSem!SContains ...).  One state per set expression; the laws are invariants, the expected answers for a        *)
(* catalogue of Python values are exported for replay on the real classes.                                              *)
EXTENDS GeomSetSem, Json, IOUtils

VARIABLE S
\* values: the harness owns the Python objects behind the ids (harness/extras/geomsets.py: value_catalogue)
V(id, t, n, items) == [id |-> id, t |-> t, n |-> n, items |-> items]
i3 == V("i3", "int", 0, <<>>)         i0 == V("i0", "int", 0, <<>>)           in5 == V("in5", "int", 0, <<>>)
npi64 == V("npi64", "int", 0, <<>>)   npi32 == V("npi32", "int", 0, <<>>)
f05 == V("f05", "real", 0, <<>>)      fn2 == V("fn2", "real", 0, <<>>)
npf64 == V("npf64", "real", 0, <<>>)  npf32 == V("npf32", "real", 0, <<>>)
c12 == V("c12", "complex", 0, <<>>)   npc == V("npc", "complex", 0, <<>>)
sab == V("sab", "str", 2, <<>>)       sabc == V("sabc", "str", 3, <<>>)       se == V("se", "str", 0, <<>>)
none == V("none", "none", 0, <<>>)    obj == V("obj", "other", 0, <<>>)
t_i_f == V("t_i_f", "seq", 2, <<i3, f05>>)        t_f_c == V("t_f_c", "seq", 2, <<f05, c12>>)
l_i_s == V("l_i_s", "seq", 2, <<i3, sab>>)        t_i == V("t_i", "seq", 1, <<i3>>)
t_f_c_s == V("t_f_c_s", "seq", 3, <<f05, c12, sab>>)
Values == <<i3, i0, in5, npi64, npi32, f05, fn2, npf64, npf32, c12, npc, sab, sabc, se, none, obj, t_i_f, t_f_c, l_i_s, t_i, t_f_c_s>>
Seqs == << <<i3, i0>>, <<i3, in5, npi64>>, <<i3, f05>>, <<f05, fn2>>, <<npf32, f05>>, <<f05, c12>>, <<npc, c12>>, <<i3, c12>>,
           <<npi64, npi32>>, <<sab, sab>>, <<sab, sabc>>, <<sabc, sabc>>, <<sabc>>, <<none, none>>, <<i3, sab>>, <<t_i_f, t_i_f>>,
           <<t_i_f, t_f_c>>, <<i3>> >>

Empty == SetD("EmptySet", <<>>, 0, <<>>)        Univ == SetD("UniversalSet", <<>>, 0, <<>>)
Ints == SetD("Integers", <<>>, 0, <<>>)         Reals == SetD("RealNumbers", <<>>, 0, <<>>)
Cplx == SetD("ComplexNumbers", <<>>, 0, <<>>)   Str(n) == SetD("Strings", <<>>, n, <<>>)
Prod(sub) == SetD("CartesianProduct", sub, 0, <<>>)
Un(sub) == SetD("SetUnion", sub, 0, <<>>)       Inter(sub) == SetD("SetIntersection", sub, 0, <<>>)
Fin(els) == SetD("FiniteSet", <<>>, 0, els)
Atoms == {Empty, Univ, Ints, Reals, Cplx, Str(2), Str(3), Fin(<<i3, sab>>), Fin(<<f05>>), Fin(<<sab, i3>>)}
Level1 == Atoms
  \cup {Prod(<<a, b>>) : a \in {Ints, Reals, Str(2)}, b \in {Reals, Cplx, Str(2)}} \cup {Prod(<<Reals>>), Prod(<<Reals, Cplx, Str(2)>>), Prod(<<>>)}
  \cup {Un(<<a, b>>) : a \in {Ints, Reals, Str(2), Empty}, b \in {Cplx, Str(3), Fin(<<i3, sab>>)}} \cup {Un(<<Reals>>)}
  \cup {Inter(<<a, b>>) : a \in {Ints, Reals, Univ}, b \in {Cplx, Str(2), Fin(<<i3, sab>>), Reals}}
Level2 == {Un(<<Prod(<<Ints, Reals>>), Str(2)>>), Inter(<<Un(<<Ints, Str(2)>>), Un(<<Str(2), Cplx>>)>>),
           Prod(<<Un(<<Ints, Str(2)>>), Inter(<<Reals, Cplx>>)>>), Un(<<Cplx, Reals>>), Un(<<Str(3), Ints>>),
           Inter(<<Cplx, Ints>>), Prod(<<Prod(<<Ints, Reals>>), Prod(<<Reals, Cplx>>)>>)}
Sets == Level1 \cup Level2
\* partners of contains_set: the fields, the trivial sets and sets equal / unequal to S up to order
Partners(s) == <<Empty, Univ, Ints, Reals, Cplx, Str(2), Str(3), s, Un(<<Cplx, Reals>>), Un(<<Reals, Cplx>>), Inter(<<Ints, Cplx>>),
                 Fin(<<sab, i3>>), Fin(<<i3, sab>>), Prod(<<Ints, Reals>>), Prod(<<Reals, Ints>>)>>

Init == S \in Sets
Next == UNCHANGED S
Spec == Init /\ [][Next]_S

(* laws of the reference *)
AllSets == Sets \cup {Partners(Empty)[k] : k \in 1..Len(Partners(Empty))}
Laws ==
  /\ SContainsSet(S, S)
  /\ \A T \in AllSets :
        /\ (SContainsSet(S, T) /\ SContainsSet(T, S)) => SEq(S, T)
        /\ SContainsSet(S, T) => \A k \in 1..Len(Values) : SContains(T, Values[k]) => SContains(S, Values[k])
        /\ SEq(S, T) => \A k \in 1..Len(Values) : SContains(T, Values[k]) = SContains(S, Values[k])
        /\ \A U \in Atoms : (SContainsSet(S, T) /\ SContainsSet(T, U)) => SContainsSet(S, U)
  /\ \A k \in 1..Len(Seqs) : SContainsAll(S, Seqs[k]) = (\A j \in 1..Len(Seqs[k]) : SContains(S, Seqs[k][j]))
  /\ \A k \in 1..Len(Values) : SElement(S, Values[k]) \in {"same", "equal"} => SContains(S, Values[k])

Opts == [format |-> "TXT", charset |-> "UTF-8", openOptions |-> <<"WRITE", "CREATE", "APPEND">>]
Line(r) == Serialize(ToJson(r) \o "\n", IOEnv.OUT_FILE, Opts).exitValue = 0
Export ==
  /\ Line([S |-> S, kind |-> "contains", xs |-> Values, exp |-> [k \in 1..Len(Values) |-> SContains(S, Values[k])]])
  /\ Line([S |-> S, kind |-> "contains_set", Ts |-> Partners(S), exp |-> [k \in 1..Len(Partners(S)) |-> SContainsSet(S, Partners(S)[k])]])
  /\ Line([S |-> S, kind |-> "contains_all", seqs |-> Seqs, exp |-> [k \in 1..Len(Seqs) |-> SContainsAll(S, Seqs[k])],
           asked |-> [k \in 1..Len(Seqs) |-> SAllAsked(S, Seqs[k])]])
  /\ Line([S |-> S, kind |-> "element", xs |-> Values, exp |-> [k \in 1..Len(Values) |-> SElement(S, Values[k])]])
=============================================================================

----------------------------- MODULE MC_DFTMachine -----------------------------
(* All call histories of length <= MaxLen; every maximal one is exported as one JSON line *)
(* (per-behaviour export: the state carries its own history, so states = behaviours).     *)
EXTENDS DFTMachine, Json, IOUtils
MC_MaxLen == IF IOEnv.C18_HLEN = "4" THEN 4 ELSE 3
MC_Slim == IOEnv.C18_HSLIM = "1"
MC_Efforts == IF IOEnv.C18_HEFF = "3" THEN {"estimate", "measure", "patient"} ELSE {"estimate", "measure"}
HeapRec(h) == [x1 |-> h["x1"], x2 |-> h["x2"], y |-> h["y"], z |-> h["z"], r |-> h["r"], q |-> h["q"]]
Export ==
  Len(hist) < MC_MaxLen \/
  Serialize(ToJson([steps |-> [i \in 1..Len(hist) |-> [act |-> hist[i].act, heap |-> HeapRec(hist[i].heap)]]])
            \o "\n", IOEnv.OUT_FILE,
            [format |-> "TXT", charset |-> "UTF-8",
             openOptions |-> <<"WRITE", "CREATE", "APPEND">>]).exitValue = 0
=============================================================================

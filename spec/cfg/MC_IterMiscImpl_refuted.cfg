SPECIFICATION Spec
CONSTANTS
  Cat <- MC_Cat
INVARIANT BogusCGOneStep
INVARIANT BogusOSOrderFree
INVARIANT BogusDCStrict
INVARIANT BogusLWProjIdle

---------------------------- MODULE MC_SpdhgMisc ----------------------------
(* Sanity laws of the layer-A helpers of misc.py (EXT/spdhg), evaluated by TLC as assumptions over small grids:        *)
(*   partitions really partition; ind2sub inverts sub2ind; Fenchel-Young holds with EQUALITY on the gradient graph of   *)
(*   the smooth Kullback-Leibler functional wherever both values are rational; the prox characterisation has exactly    *)
(*   the closed-form solution of the quadratic branch; phi^* is C^1 where its branches meet.                            *)
EXTENDS SpdhgSem, TLC
VARIABLE dummy
Spec == dummy = 0 /\ [][UNCHANGED dummy]_dummy

Arrs == {<<>>, <<7>>, <<3, 1>>, <<0, 1, 2>>, <<2, 0, 3, 1>>, <<4, 3, 2, 1, 0>>, <<0, 1, 2, 3, 4, 5, 6>>}
Count(s, v) == Cardinality({j \in 1..Len(s) : s[j] = v})
ASSUME PartitionLaws ==
  \A arr \in Arrs : \A np \in 1..4 :
    LET ps == Interlaced(arr, np) IN
    /\ \A v \in 0..7 : Count(Concat(ps), v) = Count(arr, v)
    /\ \A a, b \in 1..np : Len(ps[a]) - Len(ps[b]) \in {-1, 0, 1}
Perms == {<<>>, <<0>>, <<1, 0>>, <<0, 1, 2>>, <<2, 0, 3, 1>>, <<4, 3, 2, 1, 0>>, <<0, 1, 2, 3, 4, 5, 6>>}
ASSUME Ind2SubLaws ==
  \A ind \in Perms : \A np \in 1..4 :
    LET sub == Interlaced(ind, np)  inv == Ind2Sub(ind, np) IN
    \A v \in 1..Len(ind) : Len(inv[v]) = 1 /\ \E j \in 1..Len(sub[inv[v][1] + 1]) : sub[inv[v][1] + 1][j] = v - 1

H2 == Q(1, 2)
Xs == {Q(-3, 1), Q(-1, 1), Q(-1, 2), QZero, H2, QOne, Q(3, 1)}
Rs == {H2, QOne, Q(2, 1)}
Ys == {H2, QOne, Q(2, 1), Q(3, 1), Q(5, 2)}
ASSUME FenchelYoungOnGradientGraph ==
  \A x \in Xs : \A r \in Rs : \A y \in Ys :
    LET p == KLGrad1(x, y, r)  a == KLVal1(x, y, r)  b == KLConjVal1(p, y, r) IN
    (a # Irr /\ b # Irr /\ b # Inf) => QAddL(a, b) = QMul(x, p)
ASSUME FenchelYoungNotVacuous ==
  Cardinality({<<x, r, y>> \in Xs \X Rs \X Ys :
                 KLVal1(x, y, r) # Irr /\ KLConjVal1(KLGrad1(x, y, r), y, r) \notin {Irr, Inf}}) >= 8
ASSUME ConjBranchesMeetC1 ==
  \A r \in Rs : \A y \in Ys :
    LET b == QSubL(QOne, QDiv(y, r))  ry == QDiv(QMul(r, r), y) IN QAddL(QMul(ry, b), QSubL(r, ry)) = KLConjGrad1(b, y, r)
\* the closed form of the quadratic branch (code comment) solves the characterisation
ASSUME QuadraticBranchProx ==
  \A v \in {Q(-3, 1), Q(-2, 1), Q(-1, 1)} : \A s \in {H2, QOne, Q(2, 1)} : \A r \in Rs : \A y \in Ys :
    LET p == QDiv(QAddL(QSubL(QMul(y, v), QMul(QMul(s, r), y)), QMul(QMul(s, r), r)), QAddL(y, QMul(QMul(s, r), r))) IN
    QLt(p, QSubL(QOne, QDiv(y, r))) => IsKLConjProx1(p, v, s, y, r)
=============================================================================

----------------------------- MODULE MC_SampFunc -----------------------------
(* Bounded instances of SampFuncMachine.  Environment: SMP_PART = n1 | n2a | n2b (call cases over 1-d / 2-d domains) | fac      *)
(* (factory cases) | hist (objects with call histories);  SMP_SIZE = q | t;  OUT_FILE for the export configurations.      *)
EXTENDS SampFuncMachine, Json, IOUtils

Part     == IOEnv.SMP_PART
Thorough == IOEnv.SMP_SIZE = "t"
D(n, d)  == Q(n, d)
I(n)     == QI(n)

(* ------------------------------ functions -------------------------------- *)
Pol(c, a, m) == [c |-> c, a |-> a, m |-> m]
\* 2-d: full, x0 only, x1 only, constants, product
PFull == Pol(1, <<2, 1>>, 0)
PX0   == Pol(0, <<3, 0>>, 0)
PX0b  == Pol(1, <<2, 0>>, 0)
PX0c  == Pol(-2, <<1, 0>>, 0)
PX1   == Pol(2, <<0, 5>>, 0)
PX1b  == Pol(0, <<0, -2>>, 0)
PC    == Pol(7, <<0, 0>>, 0)
PC2   == Pol(-3, <<0, 0>>, 0)
PC3   == Pol(2, <<0, 0>>, 0)
PM    == Pol(0, <<0, 0>>, 1)
PMix  == Pol(-1, <<1, -1>>, 2)
\* 1-d: linear, square, constants
QLin  == Pol(1, <<2>>, 0)
QLin2 == Pol(0, <<3>>, 0)
QSqr  == Pol(0, <<0>>, 1)
QMix  == Pol(-1, <<1>>, 2)
QC    == Pol(7, <<0>>, 0)
QC2   == Pol(-3, <<0>>, 0)
QC3   == Pol(2, <<0>>, 0)
Fn(nd, vs, comps) == [nd |-> nd, vs |-> vs, comps |-> comps]
Funcs(nd, vs) ==
  IF nd = 2 THEN
    (CASE vs = <<>>  -> { Fn(2, vs, <<p>>) : p \in {PFull, PX0, PX1, PC, PM} }
       [] vs = <<2>> -> { Fn(2, vs, cc) : cc \in {<<PFull, PX0>>, <<PX0, PX0b>>, <<PX1, PX1b>>, <<PC, PC2>>, <<PX0, PC>>,
                                                    <<PX0, PX1>>, <<PM, PMix>>} }
       [] OTHER      -> { Fn(2, vs, cc) : cc \in {<<PFull, PX0, PX1, PC, PM, PX0b>>, <<PC, PC2, PC3, PC2, PC3, PC>>,
                                                    <<PX0, PX0b, PX0c, PX0b, PX0c, PX0>>} })
  ELSE
    (CASE vs = <<>>  -> { Fn(1, vs, <<p>>) : p \in {QLin, QSqr, QC} }
       [] vs = <<2>> -> { Fn(1, vs, cc) : cc \in {<<QLin, QSqr>>, <<QC, QC2>>, <<QLin2, QC>>} }
       [] OTHER      -> { Fn(1, vs, cc) : cc \in {<<QLin, QSqr, QC, QLin2, QC2, QMix>>, <<QC, QC2, QC3, QC2, QC3, QC>>} })
VShapes == {<<>>, <<2>>, <<2, 3>>}
Spellings(nd, vs) ==
  IF vs = <<>> THEN {"expr", "full", "out", "dual"} \cup (IF nd = 1 THEN {"exprx"} ELSE {})
  ELSE {"tuple", "ndarray", "out", "dual", "seq", "seqout"}
DTs(vs, spell) == {"f64", "f32", "c128"} \cup (IF vs = <<>> \/ IsSeq(spell) THEN {"none"} ELSE {})

(* ------------------------------- inputs ---------------------------------- *)
Mesh(cv) == [form |-> "mesh", cv |-> cv, pts |-> <<>>]
PArrI(pts) == [form |-> "arr", cv |-> <<>>, pts |-> pts]
Pt(p)    == [form |-> "pt", cv |-> <<>>, pts |-> <<p>>]
Dom(nd)  == [lo |-> [i \in 1..nd |-> I(0)], hi |-> [i \in 1..nd |-> I(8)]]
\* the coordinate vectors are grids of uniform_discr spaces, so the mesh cases are also replayed through space.element
InputsIn(nd) ==
  IF nd = 2 THEN << Mesh(<< <<I(1), I(2)>>, <<I(3), I(4), I(5)>> >>),
                    Mesh(<< <<D(1, 2), I(3)>>, <<I(2), D(5, 2)>> >>),
                    PArrI(<< <<I(1), I(3)>>, <<I(2), I(3)>>, <<I(1), D(9, 2)>>, <<D(5, 2), I(5)>> >>),
                    PArrI(<< <<I(4), D(1, 2)>>, <<I(0), I(8)>> >>),
                    Pt(<<I(1), D(7, 2)>>) >>
  ELSE << Mesh(<< <<I(1), I(2), I(3)>> >>),
          Mesh(<< <<D(1, 2), I(4)>> >>),
          PArrI(<< <<I(3)>>, <<D(3, 2)>>, <<I(0)>> >>),
          PArrI(<< <<I(8)>>, <<D(1, 4)>> >>),
          Pt(<<D(5, 2)>>) >>
InputsOut(nd) ==
  IF nd = 2 THEN << Mesh(<< <<I(1), I(9)>>, <<I(3), I(4), I(5)>> >>), PArrI(<< <<I(1), I(3)>>, <<I(-1), I(3)>> >>) >>
  ELSE << Mesh(<< <<I(-1), I(0), I(4)>> >>), PArrI(<< <<I(3)>>, <<I(9)>> >>) >>
Rng(s) == { s[i] : i \in 1..Len(s) }
MC_HInputs(nd) == IF Thorough THEN InputsIn(nd) ELSE <<InputsIn(nd)[1], InputsIn(nd)[4], InputsIn(nd)[5]>>

Call(F, inp, bc, out, xbad, dt, kw) == [F |-> F, dom |-> Dom(F.nd), inp |-> inp, bc |-> bc, out |-> out, xbad |-> xbad, dt |-> dt, kw |-> kw]
CaseOf(c, s) == [t |-> "call", c |-> c, spell |-> s]
OutModes(inp) == IF inp.form = "pt" THEN {"none"} ELSE {"none", "ok", "nc"}
\* the regular table: in-bounds inputs, default bounds check, out given or not
CallCasesMain(nd, VS) ==
  UNION { UNION { UNION { { CaseOf(Call(F, inp, "dflt", om, "", dt, 0), s) : dt \in DTs(vs, s), om \in OutModes(inp) }
                          : inp \in Rng(InputsIn(nd)) } : F \in Funcs(nd, vs), s \in Spellings(nd, vs) } : vs \in VS }
\* one deviation at a time: points outside (bounds_check default / on / off), inadequate out, invalid x, extra keyword
CallCasesDev(nd, VS) ==
  UNION { UNION {
    { CaseOf(Call(F, inp, bc, "none", "", "f64", 0), s) : inp \in Rng(InputsOut(nd)), bc \in {"dflt", "on", "off"} }
    \cup { CaseOf(Call(F, inp, "off", "ok", "", "f64", 0), s) : inp \in { x \in Rng(InputsOut(nd)) : x.form # "pt" } }
    \cup { CaseOf(Call(F, InputsIn(nd)[1], bc, "none", "", "f64", 0), s) : bc \in {"on", "off"} }
    \cup { CaseOf(Call(F, InputsIn(nd)[j], "dflt", om, "", "f64", 0), s) : j \in {1, 3}, om \in {"badshape", "baddtype", "notarray"} }
    \cup { CaseOf(Call(F, InputsIn(nd)[1], "dflt", "none", xb, "f64", 0), s) : xb \in {"meshlen", "arrdim", "str"} }
    \cup (IF IsSeq(s) THEN {} ELSE UNION { { CaseOf(Call(F, inp, "dflt", om, "", "f64", 5), s) : om \in OutModes(inp) } : inp \in {InputsIn(nd)[1], InputsIn(nd)[3], InputsIn(nd)[5]} })
    : F \in Funcs(nd, vs), s \in Spellings(nd, vs) } : vs \in VS }
CallCases(nd, VS) == CallCasesMain(nd, VS) \cup CallCasesDev(nd, VS)

(* ------------------------------ factories -------------------------------- *)
Old(mn, mx, n, L, R) == [min |-> mn, max |-> mx, n |-> n, L |-> L, R |-> R]
Templates == { Old(I(0), I(2), 4, FALSE, FALSE), Old(I(-1), I(1), 5, TRUE, TRUE), Old(I(0), I(3), 2, FALSE, TRUE) }
ArgVals(sel) == { A4(mn, mx, n, h) : mn \in (IF sel[1] THEN {I(1)} ELSE {NoneQ}), mx \in (IF sel[2] THEN {I(5), I(3)} ELSE {NoneQ}),
                                     n \in (IF sel[3] THEN {8, 2} ELSE {NONE}), h \in (IF sel[4] THEN {D(1, 4), D(1, 2)} ELSE {NoneQ}) }
AllArgs == UNION { ArgVals(<<a, b, c, d>>) : a \in BOOLEAN, b \in BOOLEAN, c \in BOOLEAN, d \in BOOLEAN }
ArgVals1(sel) == A4(IF sel[1] THEN I(1) ELSE NoneQ, IF sel[2] THEN I(5) ELSE NoneQ, IF sel[3] THEN 8 ELSE NONE, IF sel[4] THEN D(1, 2) ELSE NoneQ)
AllArgs1 == { ArgVals1(<<a, b, c, d>>) : a \in BOOLEAN, b \in BOOLEAN, c \in BOOLEAN, d \in BOOLEAN }
Nobs == { <<FALSE, FALSE>>, <<TRUE, TRUE>>, <<FALSE, TRUE>> }
FdCase(old, args, nob, tdt, gdt) == [t |-> "fd", old |-> old, args |-> args, nob |-> nob, tdt |-> tdt, gdt |-> gdt]
FdCases ==
  \* 1-d: every given / missing combination with several values, every template, three node placements
  { FdCase(<<o>>, <<a>>, <<nb>>, "f64", "") : o \in Templates, a \in AllArgs, nb \in Nobs }
  \* value types: template dtype x dtype passed
  \cup { FdCase(<<o>>, <<a>>, << <<FALSE, FALSE>> >>, tdt, gdt) : o \in {Old(I(0), I(2), 4, FALSE, FALSE)},
           a \in {A4(NoneQ, NoneQ, NONE, NoneQ), A4(I(1), NoneQ, NONE, NoneQ), A4(I(1), I(5), 8, NoneQ)},
           tdt \in {"f64", "f32", "c128"}, gdt \in {"", "f32", "c128"} }
  \* 2-d: mixed per axis
  \cup { FdCase(<<o1, o2>>, <<a1, a2>>, <<nb, <<FALSE, FALSE>> >>, "f64", "") :
           o1 \in {Old(I(0), I(2), 4, FALSE, FALSE)}, o2 \in {Old(I(-1), I(1), 5, TRUE, TRUE), Old(I(0), I(2), 4, FALSE, FALSE)},
           a1 \in AllArgs1, a2 \in AllArgs1, nb \in {<<FALSE, FALSE>>, <<TRUE, FALSE>>} }
UdAx(mn, mx, n, L, R) == [min |-> mn, max |-> mx, n |-> n, L |-> L, R |-> R]
\* (placements that PartSem calls unsatisfiable - one node on both boundaries of a proper interval - belong to C14)
UdAxes1 == { a \in { UdAx(mn, mx, n, L, R) : mn \in {I(0), I(-1)}, mx \in {I(2), I(3)}, n \in {1, 2, 4}, L \in BOOLEAN, R \in BOOLEAN } :
               PlacementOK(a.min, a.max, a.n, a.L, a.R) }
UdCases == { [t |-> "ud", axes |-> <<a>>] : a \in UdAxes1 }
            \cup { [t |-> "ud", axes |-> <<a, b>>] : a \in { x \in UdAxes1 : x.min = I(0) /\ x.n # 1 }, b \in { x \in UdAxes1 : x.max = I(3) /\ x.n # 2 /\ x.L = x.R } }

(* ------------------------------ histories -------------------------------- *)
HObj(F, s, dt) == [F |-> F, dom |-> Dom(F.nd), spell |-> s, dt |-> dt]
\* PId0 / QId: lambda x: x[0] returns (a view of) the caller's grid - the result must be a fresh object all the same
PId0 == Pol(0, <<1, 0>>, 0)
QId  == Pol(0, <<1>>, 0)
ObjsQuick ==
  { HObj(Fn(2, <<>>, <<PId0>>), "expr", "f64"), HObj(Fn(1, <<>>, <<QId>>), "exprx", "f64"), HObj(Fn(2, <<2>>, <<PId0, PX1>>), "tuple", "f64"),
    HObj(Fn(2, <<>>, <<PX0>>), "expr", "f64"), HObj(Fn(2, <<>>, <<PMix>>), "dual", "c128"), HObj(Fn(2, <<>>, <<PX1>>), "out", "f32"),
    HObj(Fn(1, <<>>, <<QLin2>>), "exprx", "f64"), HObj(Fn(1, <<2>>, <<QLin2, QC>>), "tuple", "f64") }
  \cup { HObj(Fn(2, <<2>>, <<PX0, PX1>>), s, "f64") : s \in {"tuple", "seq", "ndarray"} }
ObjsMore ==
  { HObj(Fn(2, <<>>, <<p>>), s, dt) : p \in {PX0, PMix}, s \in {"expr", "dual"}, dt \in {"f64", "c128"} }
  \cup { HObj(Fn(1, <<>>, <<QSqr>>), "expr", "f32"), HObj(Fn(2, <<2>>, <<PX0, PX1>>), "seqout", "f64"), HObj(Fn(1, <<2>>, <<QLin2, QC>>), "seq", "f64") }
  \cup { HObj(Fn(2, <<2, 3>>, <<PFull, PX0, PX1, PC, PM, PX0b>>), s, "f64") : s \in {"tuple", "seq", "dual"} }
MC_Objects == IF Part # "hist" THEN {} ELSE IF Thorough THEN ObjsQuick \cup ObjsMore ELSE ObjsQuick
MC_MaxLen == 3
MC_Cases ==
  CASE Part = "n1" -> CallCases(1, VShapes)
    [] Part = "n2a" -> CallCases(2, {<<>>, <<2, 3>>})
    [] Part = "n2b" -> CallCases(2, {<<2>>})
    [] Part = "fac" -> FdCases \cup UdCases
    [] OTHER -> {}

(* -------------------------------- export --------------------------------- *)
SetToSeq(S) == LET RECURSIVE G(_) G(U) == IF U = {} THEN <<>> ELSE LET x == CHOOSE x \in U : TRUE IN <<x>> \o G(U \ {x}) IN G(S)
AxOut(ax) == [min |-> ax.min, max |-> ax.max, nodes |-> ax.nodes]
Line ==
  CASE cs.t = "call" -> [t |-> "call", c |-> cs.c, spell |-> cs.spell, want |-> Documented(cs.c), impl |-> ImplCall(cs.c, cs.spell),
                          known |-> KnownCell(cs.c, cs.spell), rdt |-> ResDType(cs.c.dt)]
    [] cs.t = "fd" -> [t |-> "fd", old |-> cs.old, args |-> cs.args, nob |-> cs.nob, tdt |-> cs.tdt, gdt |-> cs.gdt,
                        allowed |-> [k \in 1..Len(cs.old) |-> SetToSeq({ AxOut(ax) : ax \in { x \in FdAllowed(cs.old[k], cs.args[k], cs.nob[k][1], cs.nob[k][2]) : ~IsErrAxis(x) } })],
                        must |-> \E k \in 1..Len(cs.old) : FdMustRaise(cs.old[k], cs.args[k], cs.nob[k][1], cs.nob[k][2]),
                        may |-> \E k \in 1..Len(cs.old) : FdMayRaise(cs.old[k], cs.args[k], cs.nob[k][1], cs.nob[k][2]),
                        dt |-> FdDType(cs.tdt, cs.gdt), implraises |-> \E k \in 1..Len(cs.old) : IsErrAxis(FdImplAxis(cs.old[k], cs.args[k], cs.nob[k][1], cs.nob[k][2]))]
    [] cs.t = "ud" -> [t |-> "ud", axes |-> cs.axes,
                        want |-> [k \in 1..Len(cs.axes) |-> LET a == cs.axes[k] ax == UdAxis(a.min, a.max, a.n, a.L, a.R)
                                                           IN  IF IsErrAxis(ax) THEN [min |-> NoneQ, max |-> NoneQ, nodes |-> <<>>] ELSE AxOut(ax)],
                        raises |-> \E k \in 1..Len(cs.axes) : LET a == cs.axes[k] IN IsErrAxis(UdAxis(a.min, a.max, a.n, a.L, a.R)),
                        vol |-> IF \E k \in 1..Len(cs.axes) : LET a == cs.axes[k] IN IsErrAxis(UdAxis(a.min, a.max, a.n, a.L, a.R)) \/ a.min = a.max
                                THEN NoneQ ELSE CellVolume(cs.axes)]
    [] OTHER -> [t |-> "hist", o |-> cs.o, hist |-> hist]
Export == ((cs.t = "obj") => hist # <<>>) =>
            Serialize(ToJson(Line) \o "\n", IOEnv.OUT_FILE, [format |-> "TXT", charset |-> "UTF-8",
                      openOptions |-> <<"WRITE", "CREATE", "APPEND">>]).exitValue = 0
=============================================================================

----------------------------- MODULE MC_SpdhgCat -----------------------------
(* The catalogue of documented calls shared by the bounded instances of SpdhgMachine and SpdhgImpl (EXT/spdhg):       *)
(* small saddle problems whose proximals are exact on rationals (dyadic data; step sizes with 1 + tau, 1 + sigma a      *)
(* power of two where a quadratic is involved), plain / weighted (the adjoints change) / several blocks / one block,    *)
(* saddle-point starts, accelerated variants with a rational first theta.                                               *)
EXTENDS SpdhgSem

V(s)  == [j \in 1..Len(s) |-> QI(s[j])]
Mx(m) == [i \in 1..Len(m) |-> V(m[i])]
FL2(b)      == [k |-> "l2sq", b |-> b, lo |-> QZero, hi |-> QZero, c |-> QZero]
FBox(lo, hi, m) == [k |-> "box", b |-> VZero(m), lo |-> lo, hi |-> hi, c |-> QZero]
FL1(c, m)   == [k |-> "l1", b |-> VZero(m), lo |-> QZero, hi |-> QZero, c |-> c]
GL2(mu)     == [k |-> "l2sq", mu |-> mu, lo |-> QZero, hi |-> QZero]
GBox(lo, hi) == [k |-> "box", mu |-> QZero, lo |-> lo, hi |-> hi]
GZero       == [k |-> "zero", mu |-> QZero, lo |-> QZero, hi |-> QZero]
Blk(M, wY, f) == [M |-> Mx(M), wY |-> wY, f |-> f]
Prob(nn, wX, g, blocks) == [n |-> nn, wX |-> wX, g |-> g, blocks |-> blocks]
Case(PP, algs, tau, sigma, theta, extra, prob, x0, y0) ==
  [P |-> PP, algs |-> algs, tau |-> tau, sigma |-> sigma, theta |-> theta, extra |-> extra, prob |-> prob,
   mug |-> QZero, mu |-> [i \in 1..Len(sigma) |-> QOne], sigt |-> QZero, x0 |-> x0, y0 |-> y0, saddle |-> FALSE]

M22 == <<<<1, 2>>, <<0, 1>>>>
M12 == <<<<2, -1>>>>
H == Q(1, 2)
Plain == {"generic", "spdhg", "pesquet"}

P1 == Prob(2, QOne, GL2(QOne), <<Blk(M22, QOne, FL2(V(<<1, 2>>))), Blk(M12, QOne, FL1(QI(2), 1))>>)
K1 == Case(P1, Plain, QOne, <<QOne, QOne>>, QOne, <<QOne, QOne>>, <<H, H>>, V(<<1, 1>>), YZero(P1))
\* weighted spaces (wX = 2, wY = 1/2, 1), non-uniform probabilities, custom extra, theta = 1/2, non-zero dual start
P2 == Prob(2, QI(2), GBox(QI(-1), QOne), <<Blk(M22, H, FBox(QZero, QOne, 2)), Blk(M12, QOne, FL2(V(<<1>>)))>>)
K2 == Case(P2, Plain, QOne, <<QOne, QOne>>, H, <<QI(2), H>>, <<Q(1, 4), Q(3, 4)>>, V(<<1, -1>>), <<V(<<1, 0>>), V(<<1>>)>>)
\* three blocks = the rows of one 3 x 2 matrix, g = 0
P3 == Prob(2, QOne, GZero, <<Blk(<<<<1, 0>>>>, QOne, FL2(V(<<1>>))), Blk(<<<<1, 1>>>>, QOne, FL2(V(<<2>>))),
                            Blk(<<<<0, 2>>>>, QOne, FL2(V(<<-1>>)))>>)
K3 == Case(P3, Plain, H, <<QOne, QOne, QOne>>, QOne, <<QOne, QOne, QOne>>, <<H, Q(1, 4), Q(1, 4)>>, V(<<1, -1>>), YZero(P3))
\* scalings on a one-point space with cell volume 1/2, weighted range
P4 == Prob(1, H, GL2(QOne), <<Blk(<<<<2>>>>, QOne, FL1(H, 1)), Blk(<<<<-1>>>>, QI(2), FBox(QI(-1), QI(2), 1))>>)
K4 == Case(P4, Plain, QOne, <<H, QI(2)>>, QOne, <<QOne, QI(2)>>, <<H, H>>, V(<<3>>), <<<<H>>, V(<<-1>>)>>)
\* saddle-point starts: min 1/2 x^2 + 1/2 (x-2)^2 + 1/2 (x-4)^2  ->  x = 2, y = (0, -2)
P5 == Prob(1, QOne, GL2(QOne), <<Blk(<<<<1>>>>, QOne, FL2(V(<<2>>))), Blk(<<<<1>>>>, QOne, FL2(V(<<4>>)))>>)
K5 == [Case(P5, Plain, QOne, <<QOne, QI(3)>>, QOne, <<QOne, QOne>>, <<H, H>>, V(<<2>>), <<V(<<0>>), V(<<-2>>)>>)
         EXCEPT !.saddle = TRUE]
\* min over [0,1] of |x| + 1/2 (x-3)^2 -> x = 1 (on the boundary), y = (1, -2)
P6 == Prob(1, QOne, GBox(QZero, QOne), <<Blk(<<<<1>>>>, QOne, FL1(QOne, 1)), Blk(<<<<1>>>>, QOne, FL2(V(<<3>>)))>>)
K6 == [Case(P6, Plain, H, <<QOne, QOne>>, QOne, <<QOne, QOne>>, <<H, H>>, V(<<1>>), <<V(<<1>>), V(<<-2>>)>>)
         EXCEPT !.saddle = TRUE]
\* one block: pdhg = spdhg with p = 1 = spdhg_generic
P7 == Prob(2, QOne, GL2(QOne), <<Blk(M22, QOne, FL2(V(<<1, 2>>)))>>)
K7 == Case(P7, {"pdhg", "spdhg", "generic"}, QOne, <<QOne>>, QOne, <<QOne>>, <<QOne>>, V(<<1, 1>>), YZero(P7))
P8 == Prob(2, QI(2), GL2(QOne), <<Blk(M22, H, FBox(QZero, QOne, 2))>>)
K8 == Case(P8, {"pdhg", "spdhg", "generic"}, QI(3), <<QI(2)>>, H, <<QOne>>, <<QOne>>, V(<<1, -1>>), <<V(<<1, -2>>)>>)
\* primal acceleration: mu_g tau = 3/2 -> theta_0 = 1/2 ; mu_g = 2, tau = 2 -> theta_0 = 1/3
K9  == [Case(P1, {"pa"}, Q(3, 2), <<QOne, H>>, QOne, <<QOne, QOne>>, <<H, H>>, V(<<1, 1>>), YZero(P1)) EXCEPT !.mug = QOne]
P10 == Prob(2, QOne, GL2(QI(2)), <<Blk(M22, QOne, FL2(V(<<1, 2>>))), Blk(M12, QOne, FBox(QI(-1), QOne, 1))>>)
K10 == [Case(P10, {"pa"}, QI(2), <<QOne, QI(2)>>, QOne, <<QOne, QOne>>, <<Q(1, 4), Q(3, 4)>>, V(<<1, -1>>), <<V(<<1, 0>>), V(<<-1>>)>>)
          EXCEPT !.mug = QI(2)]
\* dual acceleration: sigma_tilde = 9/32 -> theta_0 = 4/5 (serial, p = 1/2) ; sigma_tilde = 3/2, p = 1 -> theta_0 = 1/2
P11 == Prob(2, QOne, GL2(QOne), <<Blk(M22, QOne, FL2(V(<<1, 2>>))), Blk(M12, QOne, FL2(V(<<1>>)))>>)
K11 == [Case(P11, {"da"}, QOne, <<QOne, QOne>>, QOne, <<QOne, QOne>>, <<H, H>>, V(<<1, 1>>), YZero(P11)) EXCEPT !.sigt = Q(9, 32)]
K12 == [Case(P11, {"da"}, H, <<QOne, QOne>>, QOne, <<QOne, QOne>>, <<QOne, QOne>>, V(<<1, -1>>), <<V(<<1, 0>>), V(<<1>>)>>)
          EXCEPT !.sigt = Q(3, 2), !.mu = <<QOne, QI(2)>>]

MC_Cases == <<K1, K2, K3, K4, K5, K6, K7, K8, K9, K10, K11, K12>>
=============================================================================

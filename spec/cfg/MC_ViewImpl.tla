---------------------------- MODULE MC_ViewImpl ----------------------------
(* Bounded instance of ViewImpl: a (2 x 2) tensor x (cells 1..4) and an independent vector y (cells 5, 6);             *)
(* wrappers: x[0], x[0] taken a second time, x[1], y.  Every (a, b, x1, x2, out, regime) is one state; each is exported *)
(* with the result of the transcribed code and of the reference for the replay on real ODL.                            *)
EXTENDS ViewImpl, Json, IOUtils
MC_Mem0 == <<CInt(1), CInt(2), CInt(3), CInt(4), CInt(5), CInt(6)>>
MC_Wrappers == {Wrapper(1, <<1, 2>>), Wrapper(2, <<1, 2>>), Wrapper(3, <<3, 4>>), Wrapper(4, <<5, 6>>)}
MC_Scalars == {CInt(0), CInt(1), CInt(2), CInt(-1)}
MC_Regimes == {"direct", "fallback", "blas"}
MC_PreCopy == IOEnv.VW_PRECOPY # "0"
Export ==
  Serialize(ToJson([c |-> cs, impl |-> ImplOf(cs).mem, leaf |-> ImplOf(cs).leaf, ref |-> RefOf(cs),
                    precopy |-> PreCopyCell(cs)]) \o "\n", IOEnv.OUT_FILE,
            [format |-> "TXT", charset |-> "UTF-8", openOptions |-> <<"WRITE", "CREATE", "APPEND">>]).exitValue = 0
=============================================================================

SPECIFICATION Spec
CONSTANT NoCell = NoCell
INVARIANT Refines
INVARIANT IllBehavedRejected
CONSTRAINT Export

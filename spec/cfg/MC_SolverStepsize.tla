--------------------------- MODULE MC_SolverStepsize ---------------------------
(***************************************************************************)
(* C12: the documented DEFAULT STEP-SIZE rules are pure functions with     *)
(* four branches (tau / sigma given or not).  Layer A: the admissibility   *)
(* inequality as the docstrings state it, decided exactly on rational      *)
(* operator norms.  Layer C: the branches transcribed from                 *)
(*   primal_dual_hybrid_gradient.py : pdhg_stepsize                        *)
(*   douglas_rachford.py : douglas_rachford_pd_stepsize                    *)
(* The quantity the condition constrains is returned exactly:              *)
(*   pdhg  P = tau * sigma * |L|^2          (neither given: 0.9, the steps  *)
(*         themselves are sqrt(0.9)/|L|, irrational, their product is not) *)
(*   DR    P = tau * sum_i sigma_i |L_i|^2                                  *)
(* One state per (rule, branch, norms, given values); every state is       *)
(* exported and replayed on the real helper.                               *)
(***************************************************************************)
EXTENDS SolverSem, Json, IOUtils

q(n, d) == Q(n, d)
Norms == {q(1, 4), q(1, 1), q(4, 1), q(16, 1)}
Given == {q(1, 8), q(1, 2), q(1, 1), q(2, 1)}          \* step values a caller passes
NineTenths == q(9, 10)

(* ---- layer A: the documented conditions ---- *)
PDHGCond(P) == SPos(P) /\ SLt(P, QOne)                 \* tau sigma |L|^2 < 1
DRCond(P)   == SPos(P) /\ SLt(P, <<4, 1>>)             \* tau sum sigma_i |L_i|^2 < 4

(* ---- layer C: pdhg_stepsize(L, tau, sigma), n = |L| ---- *)
\* returns the constrained quantity P and the steps where they are rational (<<0,1>> = not rational)
PDHGImpl(branch, n, tau, sigma) ==
  CASE branch = "both"    -> [tau |-> tau, sigma |-> sigma, P |-> SMul(SMul(tau, sigma), SSq(n))]
    [] branch = "neither" -> [tau |-> QZero, sigma |-> QZero, P |-> NineTenths]       \* (sqrt(.9)/n)^2 n^2
    [] branch = "sigma"   -> LET t == SDiv(NineTenths, SMul(sigma, SSq(n)))           \* only sigma given
                             IN [tau |-> t, sigma |-> sigma, P |-> SMul(SMul(t, sigma), SSq(n))]
    [] branch = "tau"     -> LET s == SDiv(NineTenths, SMul(tau, SSq(n)))             \* only tau given
                             IN [tau |-> tau, sigma |-> s, P |-> SMul(SMul(tau, s), SSq(n))]

(* ---- layer C: douglas_rachford_pd_stepsize(L, tau, sigma), ns = <<|L_1|, .., |L_m|>> ---- *)
WSum(sig, ns) == SSum([i \in 1..Len(ns) |-> SMul(sig[i], SSq(ns[i]))])
DRImpl(branch, ns, tau, sig) ==
  LET m == Len(ns)
      defsig(t) == [i \in 1..m |-> SDiv(Two, SMul(SMul(<<m, 1>>, t), SSq(ns[i])))]   \* 2 / (m tau |L_i|^2)
  IN CASE branch = "both"    -> [tau |-> tau, sigma |-> sig, P |-> SMul(tau, WSum(sig, ns))]
       [] branch = "neither" -> LET t == SInv(SSum(ns)) IN
                                [tau |-> t, sigma |-> defsig(t), P |-> SMul(t, WSum(defsig(t), ns))]
       [] branch = "sigma"   -> LET t == SDiv(Two, WSum(sig, ns)) IN
                                [tau |-> t, sigma |-> sig, P |-> SMul(t, WSum(sig, ns))]
       [] branch = "tau"     -> [tau |-> tau, sigma |-> defsig(tau), P |-> SMul(tau, WSum(defsig(tau), ns))]

VARIABLES rule, branch, ns, tau, sig
svars == <<rule, branch, ns, tau, sig>>
Init ==
  /\ rule \in {"pdhg", "dr"}
  /\ branch \in {"both", "neither", "sigma", "tau"}
  /\ ns \in (IF rule = "pdhg" THEN {<<n>> : n \in Norms}
             ELSE {<<n>> : n \in Norms} \cup {<<a, b>> : a \in {q(1, 4), q(4, 1)}, b \in {q(1, 1), q(16, 1)}})
  /\ tau \in (IF branch \in {"both", "tau"} THEN Given ELSE {QZero})
  /\ sig \in (IF branch \in {"both", "sigma"} THEN {[i \in 1..Len(ns) |-> IF i = 1 THEN s ELSE SMul(s, Half)] : s \in Given}
              ELSE {<<>>})
Next == UNCHANGED svars
Spec == Init /\ [][Next]_svars

Result == IF rule = "pdhg" THEN PDHGImpl(branch, ns[1], tau, IF sig = <<>> THEN QZero ELSE sig[1])
          ELSE DRImpl(branch, ns, tau, sig)
\* C subset A: whenever the rule CHOOSES a step, the documented condition holds
ChosenStepsAdmissible ==
  branch # "both" => (IF rule = "pdhg" THEN PDHGCond(Result.P) ELSE DRCond(Result.P))
\* the chosen quantity is the documented constant (0.9 resp. 2)
ChosenConstant ==
  branch # "both" => Result.P = (IF rule = "pdhg" THEN NineTenths ELSE Two)
\* deliberately false (self-test)
BogusAlwaysAdmissible == IF rule = "pdhg" THEN PDHGCond(Result.P) ELSE DRCond(Result.P)

Export ==
  Serialize(ToJson([rule |-> rule, branch |-> branch, ns |-> ns, tau |-> tau, sig |-> sig,
                    P |-> Result.P, rtau |-> Result.tau, rsigma |-> Result.sigma]) \o "\n",
            IOEnv.OUT_FILE,
            [format |-> "TXT", charset |-> "UTF-8", openOptions |-> <<"WRITE", "CREATE", "APPEND">>]).exitValue = 0
=============================================================================

SPECIFICATION Spec
CONSTANTS
  W <- MC_W
  Scal <- MC_Scal
  Vecs <- MC_Vecs
  Mats <- MC_Mats
  LeafSet <- MC_LeafSet
  UnSet <- MC_UnSet
  BinSet <- MC_BinSet
  MaxSteps <- MC_MaxSteps
  MaxHeight <- MC_MaxHeight
INVARIANT RewriteRefines
INVARIANT RewriteLinFlag

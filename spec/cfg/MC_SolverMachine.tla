--------------------------- MODULE MC_SolverMachine ---------------------------
(***************************************************************************)
(* Model-checking / export wrapper of SolverMachine for C11 and C12.       *)
(*   SM_SOLVER  which solver's catalogue is explored                       *)
(*   SM_TIER    quick | thorough   (size of the catalogue)                 *)
(*   SM_ALIAS   "1": proximal of c*L1 called aliased returns 0 (layer C    *)
(*              mirrors the tree as pinned) ; "0": alias-safe proximals    *)
(*   SM_SPLITS  "1": explore every Return;Start boundary                   *)
(*   SM_KKT     "1": search the lattices for KKT pairs (C12)                *)
(*   OUT_FILE   export file (one JSON line per exported state)             *)
(* (catalogue operators take a dummy argument so that TLC does not evaluate all of them  *)
(* eagerly at start-up)                                                     *)
(* The catalogue is chosen so that all iterates stay on dyadic lattices:   *)
(* integer matrices (identity-like, difference-like, block), integer data, *)
(* dyadic step sizes, L2-squared weights matched to the step sizes.        *)
(***************************************************************************)
EXTENDS SolverMachine, Json, IOUtils

Solver == IOEnv.SM_SOLVER
Thorough == IOEnv.SM_TIER = "thorough"
MC_AliasZero == IOEnv.SM_ALIAS = "1"
MC_WithSplits == IOEnv.SM_SPLITS = "1"

q(n, d) == Q(n, d)
I2  == MInt(<< <<1, 0>>, <<0, 1>> >>)
T2  == MInt(<< <<1, 1>>, <<0, 1>> >>)                     \* upper triangular
D12 == MInt(<< <<1, -1>> >>)                              \* difference, 1 x 2
D23 == MInt(<< <<1, -1, 0>>, <<0, 1, -1>> >>)             \* forward difference, 2 x 3
B32 == MInt(<< <<1, 0>>, <<0, 1>>, <<1, -1>> >>)          \* block: identity over difference, 3 x 2
G23 == MInt(<< <<1, 0, 2>>, <<0, -1, 1>> >>)              \* generic 2 x 3
C21 == MInt(<< <<2>>, <<-1>> >>)                          \* 2 x 1
Named(nm, M) == [nm |-> nm, M |-> M]
MatsQuick == {Named("I2", I2), Named("D12", D12), Named("B32", B32)}
MatsAll == MatsQuick \cup {Named("T2", T2), Named("D23", D23), Named("G23", G23)}
Mats == IF Thorough THEN MatsAll ELSE MatsQuick

TVec(n) == SubSeq(RInt(<<1, -2, 3, 0>>), 1, n)
X0(n, i) == SubSeq(RInt(IF i = 1 THEN <<4, -3, 2, 1>> ELSE <<-1, 5, -2, 3>>), 1, n)
Y0(n) == SubSeq(RInt(<<1, 0, 2, -1>>), 1, n)

\* functional of a kind on R^n; c2 = weight of the squared norm, matched to the step size
MkF(kind, n, c2) ==
  CASE kind = "L1"   -> FL1(QOne, <<>>)
    [] kind = "cL1"  -> FL1(q(1, 2), <<>>)
    [] kind = "L1t"  -> FL1(QOne, TVec(n))
    [] kind = "L2sq" -> FL2sq(c2, TVec(n))
    [] kind = "Box"  -> FBox(q(-1, 1), q(2, 1))
    [] kind = "Zero" -> FZero
    [] kind = "Pt"   -> FBox(q(1, 1), q(1, 1))        \* indicator of the point (1,..,1)  (IndicatorZero translated)
    [] kind = "Pt0"  -> FBox(q(0, 1), q(0, 1))        \* IndicatorZero
FKinds == IF Thorough THEN {"L1", "cL1", "L1t", "L2sq", "Box", "Zero"} ELSE {"L1", "cL1", "L1t", "Box"}
GKinds == IF Thorough THEN {"L1", "cL1", "L1t", "L2sq", "Box"} ELSE {"L1", "L2sq", "Box"}
Starts == IF Thorough THEN {1, 2} ELSE {1}

Base == [solver |-> "", tag |-> "", Ls |-> <<>>, f |-> FZero, gs |-> <<>>, h |-> FZero,
         tau |-> QOne, sig |-> <<>>, th |-> QOne, x0 |-> <<>>, y0 |-> <<>>, b |-> <<>>,
         sol |-> <<>>, lam |-> QZero, N |-> 6, pw |-> 1, ls |-> <<>>]

Steps3 == IF Thorough THEN {<<q(1, 1), q(1, 4)>>, <<q(1, 2), q(1, 2)>>, <<q(1, 4), q(1, 1)>>}
          ELSE {<<q(1, 1), q(1, 4)>>, <<q(1, 2), q(1, 2)>>}

PDHGCat(u_) ==
  { [Base EXCEPT !.solver = "pdhg", !.tag = m.nm \o "/" \o fk \o "/" \o gk,
       !.Ls = <<m.M>>, !.tau = st[1], !.sig = <<st[2]>>, !.th = th,
       !.f = MkF(fk, NCols(m.M), SMul(Half, SInv(st[1]))),          \* 1 + 2 tau c = 2
       !.gs = <<MkF(gk, NRows(m.M), SMul(Half, st[2]))>>,           \* 1 + 2 c / sigma = 2
       !.x0 = X0(NCols(m.M), s)] :
    m \in Mats, fk \in FKinds, gk \in GKinds, st \in Steps3,
    th \in (IF Thorough THEN {QOne, QZero} ELSE {QOne}), s \in Starts }

ADMMSteps == IF Thorough THEN {<<q(1, 4), q(1, 1)>>, <<q(1, 2), q(2, 1)>>, <<q(1, 1), q(1, 1)>>}
             ELSE {<<q(1, 4), q(1, 1)>>, <<q(1, 2), q(2, 1)>>}
ADMMCat(u_) ==
  { [Base EXCEPT !.solver = "admm", !.tag = m.nm \o "/" \o fk \o "/" \o gk,
       !.Ls = <<m.M>>, !.tau = st[1], !.sig = <<st[2]>>,
       !.f = MkF(fk, NCols(m.M), SMul(Half, SInv(st[1]))),
       !.gs = <<MkF(gk, NRows(m.M), SMul(Half, SInv(st[2])))>>,     \* 1 + 2 sigma c = 2
       !.x0 = X0(NCols(m.M), s)] :
    m \in Mats, fk \in FKinds, gk \in GKinds, st \in ADMMSteps, s \in Starts }

DPDCSteps == IF Thorough THEN {<<q(1, 1), q(1, 2)>>, <<q(1, 2), q(1, 2)>>, <<q(1, 1), q(1, 4)>>}
             ELSE {<<q(1, 1), q(1, 2)>>, <<q(1, 2), q(1, 2)>>}
\* doubleprox_dc:  min f(x) + g(Kx) - phi(x),  phi = 1/2 |x - t|^2
DPDCCat(u_) ==
  { [Base EXCEPT !.solver = "dpdc", !.tag = m.nm \o "/" \o fk \o "/" \o gk,
       !.Ls = <<m.M>>, !.tau = st[1], !.sig = <<st[2]>>,
       !.f = MkF(fk, NCols(m.M), SMul(Half, SInv(st[1]))),
       !.gs = <<MkF(gk, NRows(m.M), SMul(Half, st[2]))>>,
       !.h = FL2sq(Half, TVec(NCols(m.M))),
       !.x0 = X0(NCols(m.M), s), !.y0 = Y0(NRows(m.M))] :
    m \in Mats, fk \in FKinds, gk \in GKinds, st \in DPDCSteps, s \in Starts }

\* adupdates: two blocks over a common domain; pairs with equal ranges share their temporary
Pairs(u_) ==
  LET P(nm, A, B) == [nm |-> nm, A |-> A, B |-> B] IN
  {P("I2+I2", I2, I2), P("D12+I2", D12, I2)} \cup
  (IF Thorough THEN {P("T2+D12", T2, D12), P("D23+G23", D23, G23), P("B32+I2", B32, I2)} ELSE {})
\* (stepsize, inner stepsize): step = stepsize * inner
ADUSteps == IF Thorough THEN {<<q(1, 1), q(1, 2)>>, <<q(2, 1), q(1, 2)>>, <<q(1, 1), q(1, 1)>>, <<q(2, 1), q(1, 4)>>}
            ELSE {<<q(1, 1), q(1, 2)>>, <<q(2, 1), q(1, 2)>>}
ADUCat(u_) ==
  { [Base EXCEPT !.solver = "adu", !.tag = p.nm \o "/" \o g1 \o "/" \o g2,
       !.Ls = <<p.A, p.B>>, !.tau = st[1], !.sig = <<st[2], st[2]>>,
       !.gs = <<MkF(g1, NRows(p.A), SMul(Half, SMul(st[1], st[2]))),
                MkF(g2, NRows(p.B), SMul(Half, SMul(st[1], st[2])))>>,
       !.x0 = X0(NCols(p.A), s)] :
    p \in Pairs(0), g1 \in GKinds, g2 \in GKinds, st \in ADUSteps, s \in Starts }

(* ---------------- iteration-level solvers (C11 resumption, C12 monotonicity) ------------- *)
BVec(n) == SubSeq(RInt(<<3, -1, 2, 4>>), 1, n)
SolVec(n) == SubSeq(RInt(<<2, -1, 3, 1>>), 1, n)
Rows(M) == [i \in 1..Len(M) |-> <<M[i]>>]                 \* one 1 x n block per row
Omegas == {q(1, 4), q(1, 8)}

LandweberCat(u_) ==
  { [Base EXCEPT !.solver = "landweber", !.tag = m.nm, !.Ls = <<m.M>>, !.tau = om,
       !.b = <<BVec(NRows(m.M))>>, !.x0 = X0(NCols(m.M), s)] :
    m \in MatsAll, om \in Omegas, s \in Starts }

\* NONLINEAR forward maps A(x) = M (x .^ 2): the solvers must linearise at every iterate.  (sol, x0, omega)
\* picked so that three exact iterations move, differ from "linearise once at the start" and stay small.
NLCases == { <<"B32", B32, <<1, -1>>, <<3, 3>>, q(1, 8)>>,  <<"I2", I2, <<-1, -1>>, <<3, 1>>, q(1, 8)>>,
             <<"I2", I2, <<-1, -1>>, <<-1, 3>>, q(1, 8)>>,  <<"T2", T2, <<-1, 1>>, <<3, -1>>, q(1, 8)>>,
             <<"D12", D12, <<-1, 2>>, <<-1, 1>>, q(1, 4)>>, <<"D12", D12, <<-1, 2>>, <<1, -1>>, q(1, 4)>>,
             <<"T2", T2, <<-1, -1>>, <<-2, 1>>, q(1, 4)>>,  <<"T2", T2, <<-1, -1>>, <<2, -1>>, q(1, 4)>> }
NLCat(u_) ==
  { [Base EXCEPT !.solver = sv, !.tag = c[1] \o "^2", !.Ls = <<c[2]>>, !.pw = 2, !.N = 3,
       !.tau = IF sv = "sd" THEN SMul(c[5], Half) ELSE c[5],        \* (SD on |A(x)-b|^2 has the factor 2 in its gradient)
       !.b = <<MatVec(c[2], RPow(RInt(c[3]), 2))>>, !.x0 = RInt(c[4])] :
    c \in NLCases, sv \in {"landweber", "sd"} }

KaczmarzCat(u_) ==
  { [Base EXCEPT !.solver = "kaczmarz", !.tag = m.nm, !.Ls = Rows(m.M),
       !.sig = [i \in 1..Len(m.M) |-> IF i % 2 = 1 THEN om ELSE SMul(om, Half)],   \* per-operator relaxation
       !.sol = SolVec(NCols(m.M)),
       !.b = [i \in 1..Len(m.M) |-> MatVec(<<m.M[i]>>, SolVec(NCols(m.M)))],
       !.x0 = X0(NCols(m.M), s)] :
    m \in MatsAll \ {Named("D12", D12)}, om \in Omegas, s \in Starts }

\* proximal gradient for f(x) + c |L x - t|^2
PGCat(u_) ==
  { [Base EXCEPT !.solver = "pg", !.tag = m.nm \o "/" \o fk, !.Ls = <<m.M>>, !.tau = ga, !.th = lam,
       !.f = MkF(fk, NCols(m.M), SMul(Half, SInv(ga))),
       !.gs = <<FL2sq(Half, TVec(NRows(m.M)))>>,
       !.x0 = X0(NCols(m.M), s)] :
    m \in Mats, fk \in FKinds, ga \in {q(1, 4), q(1, 8)}, lam \in {QOne, Half}, s \in Starts }

\* MLEM: positive data; (b, x0) chosen so that three exact iterations keep small denominators
Q22 == MInt(<< <<1, 0>>, <<1, 1>> >>)
Q32 == MInt(<< <<1, 0>>, <<0, 1>>, <<1, 1>> >>)
MLEMCat(u_) ==
  { [Base EXCEPT !.solver = "mlem", !.tag = c[1], !.Ls = <<c[2]>>, !.N = 3,
       !.b = <<RInt(c[3])>>, !.x0 = RInt(c[4])] :
    c \in { <<"Q22", Q22, <<1, 2>>, <<4, 3>> >>, <<"Q22", Q22, <<6, 4>>, <<4, 4>> >>,
            <<"Q22", Q22, <<2, 1>>, <<1, 2>> >>, <<"Q22", Q22, <<1, 6>>, <<4, 4>> >>,
            <<"Q32", Q32, <<4, 4, 4>>, <<1, 4>> >>, <<"Q32", Q32, <<1, 2, 3>>, <<4, 3>> >>,
            <<"Q32", Q32, <<3, 6, 6>>, <<1, 1>> >>, <<"Q32", Q32, <<3, 2, 4>>, <<3, 1>> >> } }

SDCat(u_) ==
  { [Base EXCEPT !.solver = "sd", !.tag = m.nm, !.Ls = <<m.M>>, !.tau = st,
       !.b = <<BVec(NRows(m.M))>>, !.x0 = X0(NCols(m.M), s)] :
    m \in MatsAll, st \in {q(1, 8), q(1, 16)}, s \in Starts }

\* Armijo backtracking (discount 1/100, halving); instances whose line search meets an exact tie
\* are left out (floating point could decide a tie either way)
SDBTCands(u_) ==
  { [Base EXCEPT !.solver = "sdbt", !.tag = m.nm, !.Ls = <<m.M>>, !.th = q(1, 100), !.N = 4,
       !.b = <<BVec(NRows(m.M))>>, !.x0 = X0(NCols(m.M), s)] :
    m \in MatsAll, s \in {1, 2} }
\* (bound variables of a quantifier are evaluated once; LET / arguments are lazy in TLC)
RECURSIVE NoTieRun(_, _, _)
NoTieRun(I, x, n) ==
  IF n = 0 THEN TRUE
  ELSE \E g \in {LSQGrad(I, x)} :
         /\ ~SIsZero(RNorm2(g))                                \* never start at a stationary point
         /\ \E a \in {ArmijoFrom(I, x, g, QOne, 12, FALSE)} :
              /\ SPos(a[1]) /\ ~a[2]
              /\ \E xn \in {RSub(x, RScal(a[1], g))} : NoTieRun(I, xn, n - 1)
SDBTCat(u_) == { I \in SDBTCands(0) : NoTieRun(I, I.x0, I.N) }

S2a == MInt(<< <<2, 1>>, <<1, 2>> >>)
S2b == MInt(<< <<4, 1>>, <<1, 3>> >>)
S3  == MInt(<< <<2, -1, 0>>, <<-1, 2, -1>>, <<0, -1, 2>> >>)
S3b == MInt(<< <<2, 1, 0>>, <<1, 2, 1>>, <<0, 1, 2>> >>)
\* (sol, x0) / (b, x0) picked so that the exact rational run needs the full number of steps
\* and keeps numerators and denominators below ~400 (TLC integers are 32-bit)
CGCat(u_) ==
  { [Base EXCEPT !.solver = "cg", !.tag = c[1], !.Ls = <<c[2]>>, !.N = NCols(c[2]),
       !.sol = RInt(c[3]), !.b = <<MatVec(c[2], RInt(c[3]))>>, !.x0 = RInt(c[4])] :
    c \in { <<"S2a", S2a, <<-2, -1>>, <<2, -1>> >>, <<"S2a", S2a, <<2, 1>>, <<0, 1>> >>,
            <<"S2a", S2a, <<1, 2>>, <<1, -1>> >>, <<"S2a", S2a, <<3, -2>>, <<1, -2>> >>,
            <<"S2b", S2b, <<-2, 2>>, <<-1, -2>> >>, <<"S2b", S2b, <<3, -1>>, <<0, 0>> >>,
            <<"S2b", S2b, <<0, 1>>, <<-2, -2>> >>, <<"S2b", S2b, <<3, 3>>, <<1, 0>> >>,
            <<"S3", S3, <<1, 0, 0>>, <<-1, -1, 0>> >>, <<"S3", S3, <<2, 3, 1>>, <<-2, 1, 1>> >>,
            <<"S3", S3, <<1, 0, 1>>, <<2, -2, 0>> >>, <<"S3", S3, <<-1, 2, -1>>, <<2, 2, 0>> >>,
            <<"S3b", S3b, <<2, 1, 2>>, <<1, 2, 2>> >>, <<"S3b", S3b, <<-1, -1, 1>>, <<2, -1, 1>> >>,
            <<"S3b", S3b, <<1, 0, 1>>, <<-1, 1, 1>> >>, <<"S3b", S3b, <<1, 1, -2>>, <<2, 1, 1>> >> } }
CGNCat(u_) ==
  { [Base EXCEPT !.solver = "cgn", !.tag = c[1], !.Ls = <<c[2]>>,
       !.N = IF NCols(c[2]) < NRows(c[2]) THEN NCols(c[2]) ELSE NRows(c[2]),
       !.b = <<RInt(c[3])>>, !.x0 = RInt(c[4])] :
    c \in { <<"T2", T2, <<-1, 2>>, <<1, 2>> >>, <<"T2", T2, <<2, 2>>, <<1, 0>> >>,
            <<"T2", T2, <<1, 1>>, <<0, 2>> >>, <<"T2", T2, <<3, 3>>, <<0, 1>> >>,
            <<"B32", B32, <<2, 2, 0>>, <<0, 2>> >>, <<"B32", B32, <<-1, 0, 3>>, <<2, 1>> >>,
            <<"B32", B32, <<1, 2, -1>>, <<1, -1>> >>, <<"B32", B32, <<3, 2, 3>>, <<-1, 0>> >>,
            <<"G23", G23, <<-1, 2>>, <<-1, 1, 1>> >>, <<"G23", G23, <<2, 3>>, <<0, -1, 1>> >>,
            <<"G23", G23, <<1, 3>>, <<1, 2, 0>> >>, <<"G23", G23, <<0, 1>>, <<2, 2, 0>> >>,
            <<"D23", D23, <<-1, 2>>, <<1, 2, -1>> >>, <<"D23", D23, <<3, 1>>, <<1, 1, 0>> >>,
            <<"D23", D23, <<2, 0>>, <<0, 2, 2>> >> } }

Sq2 == MInt(<< <<2, 0>>, <<0, 1>> >>)
PowerCat(u_) ==
  { [Base EXCEPT !.solver = "power", !.tag = m.nm, !.Ls = <<m.M>>, !.lam = m.lam, !.N = 3, !.x0 = x0] :
    m \in {[nm |-> "S2a", M |-> S2a, lam |-> q(9, 1)], [nm |-> "Sq2", M |-> Sq2, lam |-> q(4, 1)],
           [nm |-> "D12", M |-> D12, lam |-> q(2, 1)], [nm |-> "B32", M |-> B32, lam |-> q(3, 1)],
           [nm |-> "D23", M |-> D23, lam |-> q(3, 1)]},
    x0 \in {<<1, 0, 0>>, <<1, 2, -1>>, <<3, -1, 1>>} } 
PowerCatN(u_) == { [I EXCEPT !.x0 = SubSeq(RInt(I.x0), 1, NCols(I.Ls[1]))] : I \in PowerCat(0) }

(* ---------------- non-smooth solvers on small problems with lattice KKT points (C12) ------- *)
\* admissible (tau, sigma) for a matrix (certificate: tau sigma ||L||_F^2 < 1)
KSteps(M) == { st \in {<<q(1, 2), q(1, 2)>>, <<q(1, 1), q(1, 4)>>, <<q(1, 2), q(1, 4)>>, <<q(1, 4), q(1, 2)>>} :
               SLt(SMul(SMul(st[1], st[2]), Frob2(M)), QOne) }
KMats == {Named("I2", I2), Named("D12", D12)} \cup (IF Thorough THEN {Named("B32", B32), Named("T2", T2)} ELSE {})
KF == {"L1t", "Box", "L2sq"} \cup (IF Thorough THEN {"L1"} ELSE {})
KG == {"L1", "Box", "L2sq"} \cup (IF Thorough THEN {"L1t", "Pt"} ELSE {})
KStart(n) == SubSeq(RInt(<<3, -2, 1>>), 1, n)
KPDHG(u_) ==
  { [Base EXCEPT !.solver = "pdhg", !.tag = m.nm \o "/" \o fk \o "/" \o gk,
       !.Ls = <<m.M>>, !.tau = st[1], !.sig = <<st[2]>>,
       !.f = MkF(fk, NCols(m.M), SMul(Half, SInv(st[1]))),
       !.gs = <<MkF(gk, NRows(m.M), SMul(Half, st[2]))>>,
       !.x0 = KStart(NCols(m.M))] :
    m \in KMats, fk \in KF, gk \in KG, st \in UNION {KSteps(mm.M) : mm \in KMats} } 
KPDHGCat(u_) == { I \in KPDHG(0) : PDHGAdmissible(I) }
\* linearised ADMM: 0 < tau < sigma / ||L||^2
KADMM(u_) ==
  { [Base EXCEPT !.solver = "admm", !.tag = m.nm \o "/" \o fk \o "/" \o gk,
       !.Ls = <<m.M>>, !.tau = st[1], !.sig = <<st[2]>>,
       !.f = MkF(fk, NCols(m.M), SMul(Half, SInv(st[1]))),
       !.gs = <<MkF(gk, NRows(m.M), SMul(Half, SInv(st[2])))>>,
       !.x0 = KStart(NCols(m.M))] :
    m \in KMats, fk \in KF, gk \in KG, st \in {<<q(1, 4), q(2, 1)>>, <<q(1, 8), q(1, 1)>>, <<q(1, 4), q(1, 1)>>} }
KADMMCat(u_) == { I \in KADMM(0) : ADMMAdmissible(I) }
KDR(u_) ==
  { [Base EXCEPT !.solver = "dr", !.tag = m.nm \o "/" \o fk \o "/" \o gk,
       !.Ls = <<m.M>>, !.tau = st[1], !.sig = <<st[2]>>, !.th = lam,
       !.f = MkF(fk, NCols(m.M), SMul(Half, SInv(st[1]))),
       !.gs = <<MkF(gk, NRows(m.M), SMul(Half, st[2]))>>,
       !.x0 = KStart(NCols(m.M))] :
    m \in KMats, fk \in KF, gk \in KG,
    st \in {<<q(1, 1), q(1, 2)>>} \cup (IF Thorough THEN {<<q(1, 2), q(1, 1)>>} ELSE {}), lam \in {QOne} }
KDRCat(u_) == { I \in KDR(0) : DRAdmissible(I) }
\* forward-backward: f + g(Lx) + h(x), h = 1/4 |x - t|^2  (beta = 1/2)
KFB(u_) ==
  { [Base EXCEPT !.solver = "fb", !.tag = m.nm \o "/" \o fk \o "/" \o gk,
       !.Ls = <<m.M>>, !.tau = st[1], !.sig = <<st[2]>>,
       !.f = MkF(fk, NCols(m.M), SMul(Half, SInv(st[1]))),
       !.gs = <<MkF(gk, NRows(m.M), SMul(Half, st[2]))>>,
       !.h = FL2sq(q(1, 4), TVec(NCols(m.M))),
       !.x0 = KStart(NCols(m.M))] :
    m \in KMats, fk \in KF, gk \in KG, st \in {<<q(1, 2), q(1, 4)>>, <<q(1, 4), q(1, 2)>>, <<q(1, 2), q(1, 2)>>} }
KFBCat(u_) == { I \in KFB(0) : FBAdmissible(I) }
KPG(u_) ==
  { [Base EXCEPT !.solver = "pg", !.tag = m.nm \o "/" \o fk, !.Ls = <<m.M>>, !.tau = ga, !.th = lam,
       !.f = MkF(fk, NCols(m.M), SMul(Half, SInv(ga))),
       !.gs = <<FL2sq(Half, TVec(NRows(m.M)))>>,
       !.x0 = KStart(NCols(m.M))] :
    m \in KMats, fk \in KF, ga \in {q(1, 4), q(1, 8)}, lam \in {QOne, Half} }
KPGCat(u_) == { I \in KPG(0) : PGAdmissible(I) }

\* ---- several non-trivial operators of different range sizes and different sigma_i (DR, forward-backward)
KPairs == {[nm |-> "I2+D12", A |-> I2, B |-> D12]} \cup
          (IF Thorough THEN {[nm |-> "D12+B32", A |-> D12, B |-> B32]} ELSE {})
K2F == {"L1t", "L2sq"} \cup (IF Thorough THEN {"Box"} ELSE {})
K2G1 == {"L2sq"} \cup (IF Thorough THEN {"L1"} ELSE {})
K2G2 == {"Box", "L2sq"} \cup (IF Thorough THEN {"L1t"} ELSE {})
KDR2(u_) ==
  { [Base EXCEPT !.solver = "dr", !.tag = p.nm \o "/" \o fk \o "/" \o g1 \o "+" \o g2,
       !.Ls = <<p.A, p.B>>, !.tau = QOne, !.sig = <<q(1, 2), q(1, 4)>>,
       !.f = MkF(fk, 2, Half),
       !.gs = <<MkF(g1, NRows(p.A), q(1, 4)), MkF(g2, NRows(p.B), q(1, 8))>>,
       !.x0 = KStart(2)] : p \in KPairs, fk \in K2F, g1 \in K2G1, g2 \in K2G2 }
KFB2(u_) ==
  { [Base EXCEPT !.solver = "fb", !.tag = p.nm \o "/" \o fk \o "/" \o g1 \o "+" \o g2,
       !.Ls = <<p.A, p.B>>, !.tau = q(1, 4), !.sig = <<q(1, 2), q(1, 4)>>,
       !.f = MkF(fk, 2, Two),
       !.gs = <<MkF(g1, NRows(p.A), q(1, 4)), MkF(g2, NRows(p.B), q(1, 8))>>,
       !.h = FL2sq(q(1, 4), TVec(2)),
       !.x0 = KStart(2)] : p \in KPairs, fk \in K2F, g1 \in K2G1, g2 \in K2G2 }
\* ---- forward-backward with the infimal-convolution option l (l_i = c |. - t|^2 strongly convex), sigma_i # 1,
\*      one and two operators; h strongly convex
KFBL(u_) ==
  { [Base EXCEPT !.solver = "fb", !.tag = c[1] \o "/" \o fk \o "/" \o gk \o "/l",
       !.Ls = c[2], !.tau = q(1, 4), !.sig = c[3],
       !.f = MkF(fk, 2, Two),
       !.gs = [i \in 1..Len(c[2]) |-> MkF(IF i = 1 THEN gk ELSE "Box", NRows(c[2][i]), QOne)],
       !.ls = [i \in 1..Len(c[2]) |-> FL2sq(IF i = 1 THEN Half ELSE QOne, SubSeq(RInt(<<1, -1, 0>>), 1, NRows(c[2][i])))],
       !.h = FL2sq(q(1, 4), TVec(2)),
       !.x0 = KStart(2)] :
    c \in {<<"I2", <<I2>>, <<Half>>>>, <<"D12", <<D12>>, <<q(1, 4)>>>>, <<"I2+D12", <<I2, D12>>, <<Half, q(1, 4)>>>>},
    fk \in {"L1t", "L2sq"}, gk \in {"L2sq", "L1"} \cup (IF Thorough THEN {"L1t", "Box"} ELSE {}) }
    \* (g = squared norm: the dual solution is non-zero, so a mis-scaled gradient of l* moves the limit point)

\* ---- saddle problems without any strongly convex term (h = 0; f, g in {0, L1, box, point indicator}):
\*      here the over-relaxation y = 2 x+ - x is what makes forward-backward converge
KFBS(u_) ==
  { [Base EXCEPT !.solver = "fb", !.tag = m.nm \o "/" \o fk \o "/" \o gk \o "/saddle",
       !.Ls = <<m.M>>, !.tau = Half, !.sig = <<Half>>,
       !.f = MkF(fk, NCols(m.M), QOne), !.gs = <<MkF(gk, NRows(m.M), QOne)>>,
       !.x0 = KStart(NCols(m.M))] :
    m \in {Named("D12", D12)} \cup (IF Thorough THEN {Named("I2", I2)} ELSE {}),
    fk \in {"Zero", "L1t"} \cup (IF Thorough THEN {"Box"} ELSE {}),
    gk \in {"Pt0", "Box", "L1"} \cup (IF Thorough THEN {"Pt"} ELSE {}) }

MC_Catalogue ==
  CASE Solver = "pdhg" -> PDHGCat(0)
    [] Solver = "admm" -> ADMMCat(0)
    [] Solver = "dpdc" -> DPDCCat(0)
    [] Solver = "adu"  -> ADUCat(0)
    [] Solver = "landweber" -> LandweberCat(0)
    [] Solver = "kaczmarz" -> KaczmarzCat(0)
    [] Solver = "pg" -> PGCat(0)
    [] Solver = "mlem" -> MLEMCat(0)
    [] Solver = "sd" -> SDCat(0)
    [] Solver = "sdbt" -> SDBTCat(0)
    [] Solver = "cg" -> CGCat(0)
    [] Solver = "cgn" -> CGNCat(0)
    [] Solver = "power" -> PowerCatN(0)
    [] Solver = "iter" -> LandweberCat(0) \cup KaczmarzCat(0) \cup PGCat(0) \cup MLEMCat(0) \cup SDCat(0) \cup NLCat(0)
    [] Solver = "aliasdemo" -> { I \in ADMMCat(0) \cup DPDCCat(0) : I.f.k = "L1" }
    [] Solver = "mono" -> CGCat(0) \cup CGNCat(0) \cup LandweberCat(0) \cup KaczmarzCat(0) \cup SDBTCat(0) \cup PowerCatN(0)
    [] Solver = "kkt-pdhg" -> KPDHGCat(0)
    [] Solver = "kkt-admm" -> KADMMCat(0)
    [] Solver = "kkt-dr" -> KDRCat(0) \cup { I \in KDR2(0) : DRAdmissible(I) }
    [] Solver = "kkt-fb" -> KFBCat(0) \cup { I \in KFB2(0) \cup KFBS(0) \cup KFBL(0) : FBAdmissible(I) }
    [] Solver = "kkt-pg" -> KPGCat(0)

HalfLattice(a, b) == { q(j, 2) : j \in a..b }
WithKKT == IOEnv.SM_KKT = "1"
MC_LatX == IF WithKKT THEN HalfLattice(-6, 6) ELSE {}
MC_LatY == IF WithKKT THEN HalfLattice(-4, 4) ELSE {}

(* ------------------------------ export --------------------------------- *)
MaxDen == 65536
\* stop exploring an instance once its lattice is finer than snapping can resolve
DenBound == DenState(ref) <= (IF Len(inst.Ls) > 1 /\ inst.solver \in {"dr", "fb"} THEN 4096 ELSE MaxDen * 64)
            \* (several operators with different sigma_i: the next step needs more headroom in 32 bits)

ExportLine ==
  (split = -1 /\ AtHead) =>
    Serialize(ToJson([inst |-> inst, k |-> k, ref |-> ref, impl |-> AbsHeap(inst, heap),
                      D |-> DenState(ref), ncb |-> Len(cb)]) \o "\n",
              IOEnv.OUT_FILE,
              [format |-> "TXT", charset |-> "UTF-8",
               openOptions |-> <<"WRITE", "CREATE", "APPEND">>]).exitValue = 0
ExportC11 == DenBound /\ ExportLine

(* ------------------------------ C12 ------------------------------------ *)
KKTList == KKTSet(inst)
\* for every solver but pdhg the API start depends on x only: decide once per distinct x
\* (sets bound by quantifiers over singletons are evaluated once)
ApiFixedSet(K) ==
  IF inst.solver = "pdhg" THEN {w \in K : ApiFixed(inst, w)}
  ELSE CHOOSE R \in { {w \in K : w[1] \in G} :
                        G \in { {x \in {w[1] : w \in K} : ApiFixed(inst, <<x, ZeroDuals(inst)>>)} } } : TRUE
ExportAux ==
  (split = -1 /\ k = 0 /\ pc = 0 /\ inst.solver \in NonSmooth) =>
    \E K \in {KKTList} : \E F \in {ApiFixedSet(K)} :
      Serialize(ToJson([inst |-> inst, k |-> -1, kkt |-> K, apifixed |-> F]) \o "\n",
                IOEnv.OUT_FILE,
                [format |-> "TXT", charset |-> "UTF-8",
                 openOptions |-> <<"WRITE", "CREATE", "APPEND">>]).exitValue = 0
ExportC12 == DenBound /\ ExportLine /\ ExportAux
\* deliberately false, used by the self-test to show that the property runs are not vacuous
BogusFejerIncreases ==
  [][(Stepped /\ FejerSafe(ref) /\ FejerSafe(ref') /\ inst.solver \in {"pdhg", "fb", "pg"} /\ Admissible(inst)
        /\ inst.ls = <<>>) =>
       \A w \in KKTSet(inst) : SLe(FejerQty(inst, ref, w), FejerQty(inst, ref', w))]_vars
BogusKKTNotFixed ==
  (k = 0 /\ pc = 0 /\ inst.solver \in NonSmooth) => kkt = {}
BogusResidualNeverDecreases ==
  [][(Stepped /\ inst.solver = "landweber") => SLe(Resid2(inst, ref.x), Resid2(inst, ref'.x))]_vars
=============================================================================

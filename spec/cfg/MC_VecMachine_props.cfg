SPECIFICATION Spec
CONSTANTS
  NObj <- MC_NObj
  VecSet <- MC_VecSet
  Scalars <- MC_Scalars
  IntOnly <- MC_IntOnly
  Powers <- MC_Powers
VIEW View
CONSTRAINT Depth2
PROPERTY Frame
PROPERTY StaleOutputIndependent
PROPERTY ReturnsTarget
INVARIANT DerivedAgreeSmall

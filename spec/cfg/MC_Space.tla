------------------------------ MODULE MC_Space ------------------------------
(***************************************************************************)
(* Case enumeration for property C02.  One state = one abstract case        *)
(*     (space descriptor, vectors x, y; z and the scalar a derived from     *)
(*      the indices so that every case also carries a linearity triple).    *)
(* Configs:                                                                 *)
(*   MC_Space_axioms.cfg  the laws of C02 as invariants of the REFERENCE    *)
(*                        (layer A sanity) + layer C against layer A        *)
(*   MC_Space_export.cfg  writes every case with the layer-A expectations   *)
(*                        as one JSON line (replayed on real ODL spaces)    *)
(* Environment: SP_GROUP tensor|tensor2|small|custom|discr1|discr2|pspace   *)
(*   SP_NV_<GROUP> vectors per space, SP_BIG 0|1 (larger universes),      *)
(*   SP_ALL 1 = all vectors over the alphabet (small leaves only).          *)
(***************************************************************************)
EXTENDS WeightingImpl, Json, IOUtils

Group == IOEnv.SP_GROUP
Flds  == IF IOEnv.SP_FLD = "RC" THEN {"R", "C"} ELSE {IOEnv.SP_FLD}
Big   == IOEnv.SP_BIG = "1"
AllV  == IOEnv.SP_ALL = "1"
StrNat(str) == CHOOSE n \in 1..64 : ToString(n) = str
\* vectors per space, by group: SP_NV = "tensor,custom,discr1,discr2,pspace" counts, e.g. "6,6,4,3,4"
NVTab == [tensor |-> StrNat(IOEnv.SP_NV_TENSOR), custom |-> StrNat(IOEnv.SP_NV_CUSTOM),
          discr1 |-> StrNat(IOEnv.SP_NV_DISCR1), discr2 |-> StrNat(IOEnv.SP_NV_DISCR2),
          pspace |-> StrNat(IOEnv.SP_NV_PSPACE), small |-> StrNat(IOEnv.SP_NV_SMALL)]

R(n)     == CInt(n)
RQ(n, d) == CR(Q(n, d))
Z(a, b)  == <<QI(a), QI(b)>>

GroupOf(s) == IF s.kind = "pspace" THEN "pspace"
              ELSE IF s.kind = "tensor" /\ s.n <= 1 THEN "small"
              ELSE IF s.kind = "discr" THEN (IF Len(s.axes) = 1 THEN "discr1" ELSE "discr2")
              ELSE IF s.w.k = "custom" THEN "custom" ELSE "tensor"
NVOf(s) == NVTab[GroupOf(s)]

(* ----------------------------- alphabets -------------------------------- *)
\* every entry has a rational modulus; within {i, -2i} and {3+4i, -6-8i} differences have one too
AlphR == <<R(1), R(-2), R(0), R(3), R(-1)>>
AlphC == <<R(1), Z(0, 1), Z(3, 4), R(0), Z(0, -2), Z(-6, -8)>>
Alph(fld) == IF fld = "R" THEN AlphR ELSE AlphC
ScalR == <<R(2), R(-1), RQ(1, 2), R(0), R(-3)>>
ScalC == <<Z(0, 1), R(2), Z(0, -2), RQ(1, 2), Z(3, 4), R(0)>>
Scal(fld) == IF fld = "R" THEN ScalR ELSE ScalC

LA(fld) == Len(Alph(fld))
RECURSIVE IntPow(_, _)
IntPow(b, e) == IF e = 0 THEN 1 ELSE b * IntPow(b, e - 1)
\* q-th member of the family of flat m-vectors: stride/offset walks through the alphabet,
\* then the zero vector, then unit-like vectors
FamVec(fld, m, q) ==
  LET L == LA(fld)  s == 1 + ((q - 1) \div L)  t == (q - 1) % L
  IN  [i \in 1..m |-> Alph(fld)[(((i - 1) * s + t) % L) + 1]]
AllVec(fld, m, q) == LET L == LA(fld) IN [i \in 1..m |-> Alph(fld)[(((q - 1) \div IntPow(L, i - 1)) % L) + 1]]
NVec(s, m) == IF AllV THEN IntPow(LA(s.fld), m) ELSE NVOf(s)
FlatVec(fld, m, q) == IF AllV THEN AllVec(fld, m, q) ELSE FamVec(fld, m, q)

(* ------------------------------ universes ------------------------------- *)
Exps == {1, 2, 3, PInf}
TensorWs(n) == {WNone, WConst(QI(2)), WConst(Q(1, 2)),
                WArr(IF n = 2 THEN <<QI(2), Q(1, 2)>> ELSE <<Q(1, 2), QI(3), QI(1)>>),
                WArr(IF n = 2 THEN <<QI(3), QI(1)>> ELSE <<QI(1), QI(3), QI(2)>>)}     \* integer weights
TensorU == { Tensor(fld, n, p, w) : fld \in Flds, n \in {3}, p \in Exps, w \in TensorWs(3) }
           \cup { Tensor(fld, n, p, w) : fld \in Flds, n \in {2}, p \in Exps, w \in TensorWs(2) }
\* one-entry and zero-size spaces
SmallU == { Tensor(fld, 1, p, w) : fld \in Flds, p \in Exps, w \in {WNone, WConst(QI(2)), WArr(<<QI(3)>>)} }
          \cup { Tensor(fld, 0, p, w) : fld \in Flds, p \in Exps, w \in {WNone, WConst(QI(2)), WArr(<<>>)} }
CustomU == { Tensor(fld, 3, 2, WCustom(t)) : fld \in Flds, t \in {"inner:iw", "norm:l1x2", "dist:l1"} }

\* an axis given by its node count, left end, cell side h and the nodes-on-boundary flags:
\* E2 completion  b = a + h * (n - (L+R)/2)
AxisH(n, a, h, l, r) == Axis(n, a, QAdd(a, QMul(h, Q(2 * n - l - r, 2))), l, r)
Flags == {<<0, 0>>, <<1, 0>>, <<0, 1>>, <<1, 1>>}
Axes1 == { AxisH(n, a, h, f[1], f[2]) :
             n \in (IF Big THEN {2, 3, 4} ELSE {2, 3}), a \in {QI(-1)},
             h \in {Q(1, 2), QI(1), QI(2)}, f \in Flags }
         \cup { AxisH(1, QI(0), h, 0, 0) : h \in {Q(1, 2), QI(1)} }
Discr1U == { Discr(fld, <<ax>>, p) : fld \in Flds, ax \in Axes1, p \in Exps }
\* two axes: every combination of the four flags on both axes, asymmetric sizes and cell sides;
\* cell volume 1 = (1/2)*2 and = 1*1 are included on purpose
HPairs == IF Big THEN {<<Q(1, 2), QI(2)>>, <<Q(1, 2), QI(1)>>, <<QI(1), QI(1)>>, <<QI(2), Q(1, 4)>>}
          ELSE {<<Q(1, 2), QI(2)>>, <<Q(1, 2), QI(1)>>}
Shapes2 == IF Big THEN {<<2, 3>>, <<3, 2>>, <<2, 2>>, <<1, 3>>} ELSE {<<2, 3>>}
Discr2U == { Discr(fld, <<AxisH(sh[1], QI(0), h[1], IF sh[1] = 1 THEN 0 ELSE f[1], IF sh[1] = 1 THEN 0 ELSE f[2]),
                           AxisH(sh[2], QI(-2), h[2], g[1], g[2])>>, p) :
               fld \in Flds, sh \in Shapes2, h \in HPairs, f \in Flags, g \in Flags,
               p \in (IF Big THEN Exps ELSE {2, 1, PInf}) }

T2(fld, p, w) == Tensor(fld, 2, p, w)
T3(fld, p, w) == Tensor(fld, 3, p, w)
D3(fld, p, l, r, h) == Discr(fld, <<AxisH(3, QI(0), h, l, r)>>, p)
PWs2 == {WNone, WConst(QI(3)), WArr(<<QI(2), Q(1, 2)>>)}
PSpaceU ==
     \* flat, same exponent at both levels, unweighted / const / array, weighted components
     { PSpace(<<T2(fld, p, WNone), T3(fld, p, WConst(QI(2)))>>, p, w) : fld \in Flds, p \in Exps, w \in PWs2 }
     \* power spaces
\cup { PSpace(<<T2(fld, p, w1), T2(fld, p, w1)>>, p, w) : fld \in Flds, p \in Exps, w \in PWs2, w1 \in {WNone, WArr(<<QI(2), Q(1, 2)>>)} }
\cup { PSpace(<<T2(fld, 2, WNone), T2(fld, 2, WNone), T2(fld, 2, WNone)>>, p, WArr(<<QI(1), QI(2), Q(1, 2)>>)) : fld \in Flds, p \in Exps }
     \* nested two levels, weights at every level
\cup { PSpace(<<PSpace(<<T2(fld, p, WNone), T2(fld, p, WConst(Q(1, 2)))>>, p, w1), T3(fld, p, WNone)>>, p, w) :
         fld \in Flds, p \in Exps, w \in PWs2, w1 \in {WNone, WConst(QI(2)), WArr(<<QI(3), QI(1)>>)} }
     \* mixed exponents (product exponent p over components with exponent q)
\cup { PSpace(<<T2(fld, q, WNone), T2(fld, q, WConst(QI(2)))>>, p, w) :
         fld \in Flds, p \in Exps, q \in Exps, w \in {WNone, WArr(<<QI(2), Q(1, 2)>>)} }
     \* components with DIFFERENT exponents and weightings
\cup { PSpace(<<T2(fld, q1, WConst(QI(2))), T3(fld, q2, WArr(<<Q(1, 2), QI(3), QI(1)>>))>>, p, w) :
         fld \in Flds, p \in Exps, q1 \in {1, 2}, q2 \in {2, PInf}, w \in {WNone, WConst(QI(3))} }
     \* components with INTEGER array weights (the only array-weighted ones an integer dtype can carry)
\cup { PSpace(<<T2(fld, p, WArr(<<QI(2), QI(3)>>)), T2(fld, p, WArr(<<QI(2), QI(3)>>))>>, p, WNone) :
         fld \in Flds, p \in Exps }
     \* discretised components (vector fields), nodes on the boundary, cell volume 1/2 and 1
\cup { PSpace(<<D3(fld, p, f[1], f[2], h), D3(fld, p, f[1], f[2], h)>>, p, w) :
         fld \in Flds, p \in {2, 1}, f \in {<<0, 0>>, <<1, 0>>, <<1, 1>>}, h \in {Q(1, 2), QI(1)}, w \in {WNone, WConst(QI(3))} }

Universe ==
  CASE Group = "all" -> TensorU \cup SmallU \cup CustomU \cup Discr1U \cup Discr2U \cup PSpaceU
    [] Group = "tensor" -> TensorU
    [] Group = "small" -> SmallU
    [] Group = "tensor2" -> { s \in TensorU : s.n = 2 }
    [] Group = "custom" -> CustomU
    [] Group = "discr1" -> Discr1U
    [] Group = "discr2" -> Discr2U
    [] Group = "pspace" -> PSpaceU

(* ------------------------------- machine -------------------------------- *)
VARIABLES spc, i, j, wt, iwt       \* wt / iwt: weight trees of layer A / layer C (functions of spc)
vars == <<spc, i, j, wt, iwt>>

Vec(s, q) == Unflatten(s, FlatVec(s.fld, FlatSize(s), q))
X == Vec(spc, i)
Y == Vec(spc, j)
NVs == NVec(spc, FlatSize(spc))
ZIdx(ii, jj) == ((ii + 2 * jj) % NVs) + 1
AIdx(ii, jj) == ((2 * ii + jj) % Len(Scal(spc.fld))) + 1
Zv == Vec(spc, ZIdx(i, j))
Av == Scal(spc.fld)[AIdx(i, j)]
ScalSet == {Scal(spc.fld)[q] : q \in 1..Len(Scal(spc.fld))}

\* level 1: one state per space (weight trees computed once); level 2: one state per case
Init == /\ spc \in Universe
        /\ i = 0 /\ j = 0
        /\ wt = WTree(spc)
        /\ iwt = ImplWTree(spc)
Next == /\ i = 0
        /\ i' \in 1..NVs
        /\ j' \in 1..NVs
        /\ UNCHANGED <<spc, wt, iwt>>
Spec == Init /\ [][Next]_vars

(* --------------------- the laws, on the reference ----------------------- *)
N(v)  == NormPowW(wt, spc, v)
NOk(v) == NormOkW(wt, spc, v)
IP(u, v) == InnerW(wt, spc, u, v)
DOk(u, v) == DistOkW(wt, spc, u, v)
DP(u, v) == DistPowW(wt, spc, u, v)
Plus(u, v) == TAdd(spc, u, v)
Times(a, u) == TScal(spc, a, u)

B_AxConjSym == InnerDefined(spc) => IP(X, Y) = CConj(IP(Y, X))
B_AxLinear ==
  InnerDefined(spc) =>
    \A k \in (IF AllV THEN {ZIdx(i, j)} ELSE {ZIdx(i, j), 2}) : \A a \in ScalSet :
       LET z == Vec(spc, k) IN
       IP(Plus(Times(a, X), Y), z) = CAdd(CMul(a, IP(X, z)), IP(Y, z))
B_AxPositive ==
  InnerDefined(spc) =>
    LET q == IP(X, X) IN /\ IsRealC(q) /\ QLe(QZero, q[1]) /\ ((q = CZero) <=> TIsZero(spc, X))
B_AxCauchySchwarz ==
  InnerDefined(spc) => QLe(CAbs2(IP(X, Y)), QMul(IP(X, X)[1], IP(Y, Y)[1]))
B_AxNormIsInner == (InnerDefined(spc) /\ NOk(X)) => (Pow(spc) = 2 /\ N(X) = IP(X, X)[1])
B_AxHomogeneous ==
  \A a \in ScalSet :
     (NOk(X) /\ NOk(Times(a, X)) /\ AbsPowOk(a, Pow(spc))) =>
        N(Times(a, X)) = QMul(AbsPow(a, Pow(spc)), N(X))
B_AxNormPositive == NOk(X) => (QLe(QZero, N(X)) /\ ((N(X) = QZero) <=> TIsZero(spc, X)))
B_AxTriangle ==
  LET s == Plus(X, Y) IN
  (NOk(X) /\ NOk(Y) /\ NOk(s)) =>
     CASE Pow(spc) = 1 -> QLe(N(s), QAdd(N(X), N(Y)))
       [] Pow(spc) = 2 -> LET d == QSub(QSub(N(s), N(X)), N(Y))
                          IN  QLe(d, QZero) \/ QLe(QSq(d), QMul(QI(4), QMul(N(X), N(Y))))
       [] OTHER -> (HasRoot(N(X), 3) /\ HasRoot(N(Y), 3) /\ HasRoot(N(s), 3)) =>
                      QLe(Root(N(s), 3), QAdd(Root(N(X), 3), Root(N(Y), 3)))
B_AxDist ==
  (DOk(X, Y) /\ DOk(Y, X)) =>
     /\ DP(X, Y) = DP(Y, X)
     /\ QLe(QZero, DP(X, Y))
     /\ ((DP(X, Y) = QZero) <=> (X = Y))
AxOneVolume ==
  (spc.kind = "discr" /\ spc.p # PInf) => N(TOne(spc)) = Volume(spc)
AxFractions ==
  spc.kind = "discr" =>
     /\ \A a \in 1..Len(spc.axes) : AxisOk(spc.axes[a]) /\ FractionLemma(spc.axes[a])
     /\ DiscrWeights(spc) = DiscrWeightsE1(spc)
     /\ \A q \in 1..spc.n : QLt(QZero, DiscrWeights(spc)[q])
\* the definitions with and without an explicit weight tree are the same thing
B_AxWTree ==
           /\ (InnerDefined(spc) => Inner(spc, X, Y) = IP(X, Y))
           /\ (NormOk(spc, X) <=> NOk(X)) /\ (NOk(X) => NormPow(spc, X) = N(X))
B_AxTiling ==
  (spc.kind = "tensor" /\ ~IsCustom(spc)) => \A k \in {2, 3} : TilingLemma(spc, X, Y, k)

(* ------------------------ layer C against layer A ----------------------- *)
ImplAgreesHere ==
  /\ (InnerDefined(spc) => ImplInnerW(iwt, spc, X, Y) = IP(X, Y))
  /\ (NOk(X) => ImplNormPowW(iwt, spc, X) = N(X))
  /\ (DOk(X, Y) => ImplDistPowW(iwt, spc, X, Y) = DP(X, Y))
\* the model agrees with the reference everywhere except in the named cells ...
B_ImplRefines == KnownCell(spc) \/ ImplAgreesHere
\* ... and in a named cell the norm of the constant function one really raises
KnownCellsAreReal ==
  /\ HasNoInnerUnderP2(spc) => ImplNormPowW(iwt, spc, TOne(spc)) = Raise
  /\ (IsLeaf(spc) /\ spc.n = 0 /\ spc.w.k # "array" /\ spc.p = 2) => ImplNormPowW(iwt, spc, TOne(spc)) = Raise

\* the laws apply to case states (level 2) only
AxConjSym == i = 0 \/ B_AxConjSym
AxLinear == i = 0 \/ B_AxLinear
AxPositive == i = 0 \/ B_AxPositive
AxCauchySchwarz == i = 0 \/ B_AxCauchySchwarz
AxNormIsInner == i = 0 \/ B_AxNormIsInner
AxHomogeneous == i = 0 \/ B_AxHomogeneous
AxNormPositive == i = 0 \/ B_AxNormPositive
AxTriangle == i = 0 \/ B_AxTriangle
AxDist == i = 0 \/ B_AxDist
AxTiling == i = 0 \/ B_AxTiling
ImplRefines == i = 0 \/ B_ImplRefines
AxWTree == i = 0 \/ i # j \/ B_AxWTree

\* deliberately false statements, used by the self-test to show the runs are not vacuous
BogusNoKnownCell == ~KnownCell(spc)
BogusTriangleEq == i = 0 \/ ~(NOk(X) /\ NOk(Y) /\ NOk(Plus(X, Y))) \/ N(Plus(X, Y)) = QAdd(N(X), N(Y))
BogusLinearSecond == i = 0 \/ ~InnerDefined(spc) \/ IP(X, Times(Av, Y)) = CMul(Av, IP(X, Y))

(* -------------------------------- export -------------------------------- *)
Ok(c)  == [s |-> "ok", v |-> c]
Na     == [s |-> "na", v |-> CZero]
OkQ(q) == Ok(CR(q))
NE(v)  == IF NOk(v) THEN OkQ(N(v)) ELSE Na
IE(u, v) == IF InnerDefined(spc) THEN Ok(IP(u, v)) ELSE Na
DE(u, v) == IF DOk(u, v) THEN OkQ(DP(u, v)) ELSE Na

Expect ==
  [ixy  |-> IE(X, Y), iyx |-> IE(Y, X), ixx |-> IE(X, X), iyy |-> IE(Y, Y),
   ixz  |-> IE(X, Zv), iyz |-> IE(Y, Zv),
   ilin |-> IE(Plus(Times(Av, X), Y), Zv),
   nx   |-> NE(X), ny |-> NE(Y),
   nax  |-> NE(Times(Av, X)), nxpy |-> NE(Plus(X, Y)), nxmy |-> NE(TSub(spc, X, Y)),
   dxy  |-> DE(X, Y), dyx |-> DE(Y, X),
   none |-> NE(TOne(spc))]

Case == [g |-> GroupOf(spc), spc |-> spc, pw |-> Pow(spc), x |-> X, y |-> Y, z |-> Zv, a |-> Av,
         xzero |-> TIsZero(spc, X), feat |-> Features(spc), e |-> Expect]

Export ==
  i = 0 \/
  Serialize(ToJson(Case) \o "\n", IOEnv.OUT_FILE,
            [format |-> "TXT", charset |-> "UTF-8",
             openOptions |-> <<"WRITE", "CREATE", "APPEND">>]).exitValue = 0
=============================================================================

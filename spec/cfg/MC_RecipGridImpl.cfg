SPECIFICATION Spec
CONSTANTS
  MaxN <- MC_MaxN
  X0Set <- MC_X0Set
  Fixed <- MC_Fixed
INVARIANT GridRefines
INVARIANT FreqRefines
INVARIANT PhaseRefines
INVARIANT ShapeRule
INVARIANT RealspaceBack
INVARIANT ShapeRefines
INVARIANT KnownShapeDefect

SPECIFICATION CSpec
CONSTANTS
  States <- MC_States
  Indices <- MC_Indices
  Values <- MC_Values
  EmptyIsWhole <- MC_EmptyIsWhole
INVARIANT Refines
CONSTRAINT Export

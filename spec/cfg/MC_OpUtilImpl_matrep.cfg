SPECIFICATION Spec
CONSTANTS
  Which = "matrep"
  FixedNone <- MC_FixedNone
  FixedNoAdjoint <- MC_FixedNoAdjoint
  FixedFirstStop <- MC_FixedFirstStop
INVARIANT MatRepIndexRefines

SPECIFICATION LSpec
INVARIANT SliceLaw
INVARIANT SelLaw
INVARIANT ContigLaw

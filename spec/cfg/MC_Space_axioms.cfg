SPECIFICATION Spec
INVARIANT AxConjSym
INVARIANT AxLinear
INVARIANT AxPositive
INVARIANT AxCauchySchwarz
INVARIANT AxNormIsInner
INVARIANT AxHomogeneous
INVARIANT AxNormPositive
INVARIANT AxTriangle
INVARIANT AxDist
INVARIANT AxOneVolume
INVARIANT AxFractions
INVARIANT AxTiling
INVARIANT AxWTree
INVARIANT ImplRefines
INVARIANT KnownCellsAreReal

----------------------------- MODULE MC_LeafOp -----------------------------
(* Bounded instances of LeafOpMachine: the root descriptions (constructor calls of every leaf operator class over    *)
(* small multi-axis spaces, real / complex, plain / weighted / discretised with cell volume 1/4), the docstring        *)
(* examples as cases, a non-vacuity probe and the per-state export (one JSON line per reachable object with           *)
(* everything layer A says about it).  Environment: LO_PART = pw | mat | samp | dflt | cplx | all (family of roots,    *)
(* one TLC process per family), LO_SIZE = q | t.                                                                       *)
EXTENDS LeafOpMachine, Json, IOUtils

Part     == IOEnv.LO_PART
Thorough == IOEnv.LO_SIZE = "t"
R(n)     == CInt(n)
RQ(n, d) == CR(Q(n, d))
Z(a, b)  == <<QI(a), QI(b)>>
ZQ(a, b, d) == <<Q(a, d), Q(b, d)>>

\* |entries| < 8 (the derivative law uses steps of 1/8 of a point); complex entries have rational moduli
MC_PoolR == << <<R(1), R(-2), R(3), R(0), R(-4), R(5), R(2), R(-1)>>,
               <<R(1), RQ(-1, 2), R(3), RQ(5, 2), R(0), R(-4), RQ(3, 2), R(2)>> >>
MC_PoolC == << <<Z(3, 4), R(-2), Z(0, 1), Z(-4, 3), R(0), Z(4, -3), Z(0, -2), R(5)>>,
               <<Z(3, -4), ZQ(3, 4, 2), R(-1), Z(0, 2), ZQ(-4, 3, 2), R(0), Z(-3, -4), RQ(1, 2)>> >>
MC_MaxChain == IF Thorough THEN 3 ELSE 2

E1 == Env(QOne, QOne)           \* rn / cn
EW == Env(Q(4, 1), QOne)        \* rn(..., weighting=4): no cell volume
ED == Env(Q(1, 4), Q(1, 4))     \* uniform_discr with cell volume 1/4
Envs == {E1, EW, ED}
Flds == {"R", "C"}
S2 == <<2>>
S3 == <<3>>
S23 == <<2, 3>>
S222 == <<2, 2, 2>>
B(shape, fld) == T(shape, fld, "base")

VPool(sp, off) == [j \in 1..sp.n |-> [i \in 1..SizeOf(sp) |-> Pick(PoolOf(sp.fld, 1), i + 2 * j + off)]]

(* ------------------------------ pointwise -------------------------------- *)
WOpts(nc) == { [w |-> <<>>, pw |-> Ones(nc)],
               [w |-> <<>>, pw |-> SubSeq(<<Q(4, 1), Q(1, 4), Q(9, 1)>>, 1, nc)],
               [w |-> SubSeq(<<Q(1, 4), Q(4, 1), QOne>>, 1, nc), pw |-> Ones(nc)],
               [w |-> [j \in 1..nc |-> Q(4, 1)], pw |-> Ones(nc)],
               [w |-> SubSeq(<<Q(9, 1), QOne, Q(1, 4)>>, 1, nc), pw |-> SubSeq(<<Q(4, 1), Q(1, 4), Q(9, 1)>>, 1, nc)],
               [w |-> SubSeq(<<Q(2, 1), Q(3, 1), Q(1, 2)>>, 1, nc), pw |-> Ones(nc)] }
PwSpaces == { B(S2, f) : f \in Flds } \cup { B(S23, "R") } \cup (IF Thorough THEN { B(S222, "R"), B(S23, "C") } ELSE {})
PwEnvs == {E1, ED}
NCs == 1..3
RootsPwNorm ==
  UNION { { [Mk("pwnorm", sp, e) EXCEPT !.n = nc, !.q = q, !.w = o.w, !.pw = o.pw] :
              sp \in PwSpaces, e \in PwEnvs, q \in {QOne, <<2, 1>>, Inf}, o \in WOpts(nc) } : nc \in NCs }
  \cup { [Mk("pwnorm", B(S2, "R"), E1) EXCEPT !.n = 2, !.q = Q(1, 2), !.pw = Ones(2)],
         [Mk("pwnorm", B(S2, "R"), E1) EXCEPT !.n = 2, !.q = <<2, 1>>, !.pw = Ones(2), !.w = <<QOne, QZero>>],
         [Mk("pwnorm", B(S2, "R"), E1) EXCEPT !.n = 2, !.q = QOne, !.pw = Ones(2), !.w = <<Q(-1, 1), QOne>>] }
PwInnerFor(nc, sp) ==
  { [Mk(k, sp, e) EXCEPT !.n = nc, !.w = o.w, !.pw = o.pw, !.v = IF k = "pwsum" THEN [j \in 1..nc |-> VOneN(SizeOf(sp))] ELSE VPool(PowSp(sp, nc), off)] :
      k \in {"pwinner", "pwsum"}, e \in PwEnvs, o \in WOpts(nc), off \in (IF Thorough THEN {0, 3} ELSE {0}) }
RootsPwInner == UNION { PwInnerFor(nc, sp) : nc \in NCs, sp \in PwSpaces }
\* PointwiseInnerAdjoint(sspace, vecfield, vfspace=None, weighting=None): var = "vfspace" when the range is passed
PwAdjFor(nc, sp) ==
  { [Mk("pwinneradj", sp, e) EXCEPT !.n = nc, !.w = o.w, !.pw = o.pw, !.var = "vfspace", !.v = VPool(PowSp(sp, nc), 1)] :
      e \in PwEnvs, o \in WOpts(nc) }
  \cup { [Mk("pwinneradj", sp, e) EXCEPT !.n = nc, !.w = o.w, !.pw = IF o.w = <<>> THEN Ones(nc) ELSE o.w, !.v = VPool(PowSp(sp, nc), 2)] :
      e \in PwEnvs, o \in { p \in WOpts(nc) : p.pw = Ones(nc) } }
RootsPwAdj == UNION { PwAdjFor(nc, sp) : nc \in NCs, sp \in PwSpaces }

(* ------------------------------- matrices -------------------------------- *)
M22  == << <<R(1), R(2)>>, <<R(0), R(-1)>> >>
M22b == << <<R(2), R(1)>>, <<R(4), RQ(1, 2)>> >>
M22s == << <<R(1), R(2)>>, <<R(2), R(4)>> >>           \* singular
M22c == << <<R(1), Z(0, 1)>>, <<R(0), R(2)>> >>
M32  == << <<R(1), R(2)>>, <<R(0), R(-1)>>, <<R(3), RQ(1, 2)>> >>
M23  == << <<R(1), R(2), R(-1)>>, <<R(0), R(3), R(2)>> >>
M23c == << <<R(1), Z(1, 1), R(-1)>>, <<Z(0, -2), R(3), R(2)>> >>
M13  == << <<R(2), R(-1), R(3)>> >>
M11  == << <<R(-2)>> >>
M33  == << <<R(1), R(2), R(0)>>, <<R(0), R(1), R(-1)>>, <<R(2), R(0), R(1)>> >>
Mats == {M22, M22b, M22s, M22c, M32, M23, M23c, M13, M33}
MatReal(m) == \A i \in 1..Len(m) : VIsReal(m[i])
MatFld(m) == IF MatReal(m) THEN "R" ELSE "C"
Join(f, g) == IF f = "C" \/ g = "C" THEN "C" ELSE "R"
RShape(shape, ax, m) == [shape EXCEPT ![ax + 1] = Len(m)]
\* range inferred: shape with the axis replaced, promoted dtype, the constant weighting of the domain
MatInferred(m, sp, ax) == T(RShape(sp.shape, ax, m), Join(MatFld(m), sp.fld), IF sp.b = "plain" THEN "plain" ELSE "wplain")
MatShapes == {S2, S3, S23, S222} \cup (IF Thorough THEN {<<3, 2>>, <<2, 3, 2>>} ELSE {})
RootsMat ==
  \* no domain given: one axis, size = number of columns, the matrix' data type
  { LET sp == Plain(<<Len(m[1])>>, MatFld(m)) IN [Mk("mat", sp, E1) EXCEPT !.m = m, !.var = "dom0", !.ran = MatInferred(m, sp, 0)] : m \in Mats \cup {M11} }
  \* domain given, every axis (admissible or not), range inferred
  \cup { LET sp == B(sh, f) IN [Mk("mat", sp, e) EXCEPT !.m = m, !.ax = ax, !.var = "dom", !.ran = MatInferred(m, sp, ax)] :
           <<sh, ax>> \in { <<s, a>> \in MatShapes \X (0..2) : a < Len(s) }, m \in Mats, f \in Flds,
           e \in (IF Thorough THEN Envs ELSE {E1, ED}) }
  \* domain and range given: the inferred one, a complex one, a real one (inadmissible for complex results), a wrong shape
  \cup { LET sp == B(sh, f) inf == MatInferred(m, sp, ax) IN
         [Mk("mat", sp, E1) EXCEPT !.m = m, !.ax = ax, !.var = "domran",
                                   !.ran = CASE g = "inf" -> inf [] g = "C" -> CplxSp(inf) [] g = "R" -> RealSp(inf)
                                             [] g = "shape" -> [inf EXCEPT !.shape = [inf.shape EXCEPT ![1] = inf.shape[1] + 1]]] :
           <<sh, ax>> \in {<<S2, 0>>, <<S23, 1>>, <<S23, 0>>}, m \in {M22, M22c, M23, M32}, f \in Flds, g \in {"inf", "C", "R", "shape"} }

(* ---------------------- sampling, weighted sums, flattening -------------- *)
PtsOf(shape) ==
  CASE shape = S3   -> { << <<1>> >>, << <<1>>, <<2>>, <<1>> >>, << <<0>>, <<1>>, <<2>> >>, << <<2>>, <<2>>, <<2>>, <<0>> >> }
    [] shape = S23  -> { << <<0, 2>> >>, << <<0, 2>>, <<1, 1>>, <<1, 0>> >>, << <<0, 0>>, <<1, 1>>, <<1, 2>>, <<0, 0>> >>,
                         << <<1, 2>>, <<0, 1>> >> }
    [] shape = S222 -> { << <<0, 1, 1>> >>, << <<1, 0, 1>>, <<0, 1, 0>>, <<1, 0, 1>> >> }
    [] shape = <<3, 2>> -> { << <<2, 1>>, <<0, 1>>, <<2, 0>> >> }
SampShapes == {S3, S23, S222} \cup (IF Thorough THEN {<<3, 2>>} ELSE {})
RootsSamp ==
  { [Mk(kv[1], B(sh, f), e) EXCEPT !.pts = p, !.var = kv[2]] :
      kv \in {<<"sample", "point_eval">>, <<"sample", "integrate">>, <<"wsum", "char_fun">>, <<"wsum", "dirac">>},
      <<sh, p>> \in { <<s, q>> \in SampShapes \X UNION { PtsOf(s) : s \in SampShapes } : q \in PtsOf(s) }, f \in Flds, e \in Envs }
  \cup { [Mk("sample", B(S3, "R"), E1) EXCEPT !.pts = << <<1>> >>, !.var = "average"],
         [Mk("wsum", B(S3, "R"), E1) EXCEPT !.pts = << <<1>> >>, !.var = "point_eval"] }
RootsFlat ==
  { [Mk("flat", B(sh, f), e) EXCEPT !.var = o] : sh \in {S3, S23, S222} \cup (IF Thorough THEN {<<3, 2>>, <<2, 3, 2>>} ELSE {}), f \in Flds, e \in Envs, o \in {"C", "F"} }
  \cup { [Mk("flat", B(S23, "R"), E1) EXCEPT !.var = "A"] }

(* ------------------------------ default_ops ------------------------------ *)
Scal(f) == IF f = "C" THEN {R(2), Z(0, 1), Z(1, -1), R(0), ZQ(1, 2, 2)} ELSE {R(2), RQ(-1, 2), R(0), R(1), R(-3)}
DSpaces == { B(S2, f) : f \in Flds } \cup { B(S23, f) : f \in Flds } \cup (IF Thorough THEN { B(S3, f) : f \in Flds } \cup { B(S222, "R") } ELSE {})
DEnvs == Envs
RootsDflt ==
  UNION { { [Mk("scale", sp, e) EXCEPT !.a = a] : e \in DEnvs, a \in Scal(sp.fld) } : sp \in DSpaces }
  \cup UNION { { [Mk("scale", Fld(f), E1) EXCEPT !.a = a] : a \in Scal(f) } : f \in Flds }
  \cup { Mk("id", sp, e) : sp \in DSpaces, e \in DEnvs } \cup { Mk("id", Fld(f), E1) : f \in Flds }
  \cup UNION { { [Mk("lincomb", sp, e) EXCEPT !.a = ab[1], !.b = ab[2]] : e \in {E1, ED},
                    ab \in { xy \in Scal(sp.fld) \X {R(1), R(-2), Z(0, 1), R(0)} : (sp.fld = "R") => IsRealC(xy[2]) } } : sp \in DSpaces }
  \cup { [Mk(k, sp, e) EXCEPT !.v = VPool(sp, off)] : k \in {"mul", "mulS"}, sp \in DSpaces, e \in DEnvs, off \in {0, 1} }
  \cup UNION { { [Mk("mulC", sp, e) EXCEPT !.a = a] : e \in {E1, ED}, a \in Scal(sp.fld) } : sp \in DSpaces }
  \cup { [Mk("pow", sp, e) EXCEPT !.n = n] : sp \in DSpaces \cup {Fld("R"), Fld("C")}, e \in {E1}, n \in 1..3 }
  \cup { [Mk(k, sp, e) EXCEPT !.v = VPool(sp, off)] : k \in {"inner", "dist"}, sp \in DSpaces, e \in DEnvs, off \in {0, 1} }
  \cup { Mk("norm", sp, e) : sp \in DSpaces, e \in DEnvs }
  \cup UNION { { [Mk("const", sp, e) EXCEPT !.v = v] : v \in {VPool(sp, 0), ZeroEl(sp)}, e \in {E1, ED} } : sp \in DSpaces }
  \* ConstantOperator(constant, domain=, range=) with a domain that differs from the range; scalar multiplication on the field
  \cup { [Mk("const", sp, E1) EXCEPT !.ran = Plain(S3, "R"), !.v = v] : sp \in { d \in DSpaces : d.fld = "R" }, v \in {VPool(Plain(S3, "R"), 1), ZeroEl(Plain(S3, "R"))} }
  \cup UNION { { [Mk("mulC", Fld(f), E1) EXCEPT !.a = a] : a \in Scal(f) } : f \in Flds }
  \cup UNION { { [Mk("zero", sp, e) EXCEPT !.ran = r] : e \in {E1, ED}, r \in {sp, Plain(S3, "C"), Plain(<<2, 2>>, "R")} } : sp \in DSpaces }
RootsCplx ==
  { [Mk("reim", sp, e) EXCEPT !.a = ab[1], !.b = ab[2]] : sp \in DSpaces, e \in DEnvs, ab \in {<<COne, CZero>>, <<CZero, COne>>} }
  \cup { [Mk("cemb", sp, e) EXCEPT !.a = a] : sp \in DSpaces, e \in DEnvs, a \in {R(1), Z(0, 1), Z(1, 2), R(2), ZQ(0, -1, 2), Z(3, -4)} }
  \cup { Mk(k, sp, e) : k \in {"cmod", "cmod2"}, sp \in DSpaces, e \in {E1, ED} }

MC_Roots == CASE Part = "pw"   -> RootsPwNorm \cup RootsPwInner \cup RootsPwAdj
              [] Part = "mat"  -> RootsMat
              [] Part = "samp" -> RootsSamp \cup RootsFlat
              [] Part = "dflt" -> RootsDflt
              [] Part = "cplx" -> RootsCplx
              [] Part = "all"  -> RootsPwNorm \cup RootsPwInner \cup RootsPwAdj \cup RootsMat \cup RootsSamp \cup RootsFlat \cup RootsDflt \cup RootsCplx

(* ----------------------- docstring examples as cases --------------------- *)
RV(s) == [i \in 1..Len(s) |-> R(s[i])]
DSP == B(<<1, 2>>, "R")                        \* uniform_discr([-1, -1], [1, 1], (1, 2)): cell volume 2
EX2 == Env(Q(2, 1), Q(2, 1))
XVF == << RV(<<1, -4>>), RV(<<0, 3>>) >>
E4  == Env(Q(1, 4), Q(1, 4))                   \* uniform_discr(0, 1, 4)
E23 == Env(Q(1, 6), Q(1, 6))                   \* uniform_discr([0, 0], [1, 1], (2, 3))
E23b == Env(Q(2, 3), Q(2, 3))                  \* uniform_discr([-1, -1], [1, 1], (2, 3))
E24 == Env(Q(1, 2), Q(1, 2))                   \* uniform_discr([-1, -1], [1, 1], (2, 4))
X6 == RV(<<1, 2, 3, 4, 5, 6>>)
DocExamples(dummy) ==
  /\ Eval([Mk("pwnorm", DSP, EX2) EXCEPT !.n = 2, !.q = <<2, 1>>, !.pw = Ones(2)], XVF) = << RV(<<1, 25>>) >>     \* [[1, 5]] squared
  /\ Eval([Mk("pwnorm", DSP, EX2) EXCEPT !.n = 2, !.q = QOne, !.pw = Ones(2)], XVF) = << RV(<<1, 7>>) >>
  /\ Eval([Mk("pwinner", DSP, EX2) EXCEPT !.n = 2, !.pw = Ones(2), !.v = << RV(<<0, 1>>), RV(<<1, -1>>) >>], XVF) = << RV(<<0, -7>>) >>
  /\ Eval([Mk("pwsum", DSP, EX2) EXCEPT !.n = 2, !.pw = Ones(2), !.v = << RV(<<1, 1>>), RV(<<1, 1>>) >>], XVF) = << RV(<<1, -1>>) >>
  /\ LET m == [i \in 1..3 |-> RV(<<1, 1, 1, 1>>)] sp == Plain(<<4>>, "R")
     IN  Eval([Mk("mat", sp, E1) EXCEPT !.m = m, !.var = "dom0", !.ran = Plain(<<3>>, "R")], << RV(<<1, 2, 3, 4>>) >>) = << RV(<<10, 10, 10>>) >>
  /\ Eval([Mk("sample", B(<<4>>, "R"), E4) EXCEPT !.pts = << <<1>>, <<2>>, <<1>> >>, !.var = "point_eval"], << RV(<<1, 2, 3, 4>>) >>) = << RV(<<2, 3, 2>>) >>
  /\ Eval([Mk("sample", B(<<4>>, "R"), E4) EXCEPT !.pts = << <<1>>, <<2>>, <<1>> >>, !.var = "integrate"], << RV(<<1, 2, 3, 4>>) >>)
       = << <<RQ(1, 2), RQ(3, 4), RQ(1, 2)>> >>
  /\ Eval([Mk("sample", B(S23, "R"), E23) EXCEPT !.pts = << <<0, 2>>, <<1, 1>>, <<1, 0>> >>, !.var = "point_eval"], << X6 >>) = << RV(<<3, 5, 4>>) >>
  /\ Eval(Adj([Mk("sample", B(S23, "R"), E23b) EXCEPT !.pts = << <<0, 0>>, <<1, 1>>, <<1, 2>>, <<0, 0>> >>, !.var = "integrate"]), << RV(<<1, 1, 1, 1>>) >>)
       = << RV(<<2, 0, 0, 0, 1, 1>>) >>
  /\ Eval([Mk("wsum", B(<<4>>, "R"), E4) EXCEPT !.pts = << <<1>>, <<2>>, <<1>> >>, !.var = "char_fun"], << <<R(1), RQ(1, 2), RQ(1, 4)>> >>)
       = << <<R(0), RQ(5, 4), RQ(1, 2), R(0)>> >>
  /\ Eval([Mk("wsum", B(<<4>>, "R"), E4) EXCEPT !.pts = << <<1>>, <<2>>, <<1>> >>, !.var = "dirac"], << <<R(1), RQ(1, 2), RQ(1, 4)>> >>)
       = << RV(<<0, 5, 2, 0>>) >>
  /\ Eval(Adj([Mk("wsum", B(S23, "R"), E23b) EXCEPT !.pts = << <<0, 0>>, <<1, 1>>, <<1, 2>>, <<0, 0>> >>, !.var = "dirac"]), << X6 >>) = << RV(<<1, 5, 6, 1>>) >>
  /\ Eval([Mk("flat", B(S23, "R"), E23b) EXCEPT !.var = "F"], << X6 >>) = << RV(<<1, 4, 2, 5, 3, 6>>) >>
  /\ Eval(Adj([Mk("flat", B(<<2, 4>>, "R"), E24) EXCEPT !.var = "C"]), << RV(<<1, 2, 3, 4, 5, 6, 7, 8>>) >>) = << RV(<<2, 4, 6, 8, 10, 12, 14, 16>>) >>
  /\ Eval(Inv([Mk("flat", B(<<2, 4>>, "R"), E24) EXCEPT !.var = "F"]), << RV(<<1, 2, 3, 4, 5, 6, 7, 8>>) >>) = << RV(<<1, 3, 5, 7, 2, 4, 6, 8>>) >>
  /\ Eval(Adj([Mk("scale", B(S3, "C"), E1) EXCEPT !.a = Z(1, 1)]), << <<R(1), Z(0, 1), Z(1, -1)>> >>) = << <<Z(1, -1), Z(1, 1), Z(0, -2)>> >>
  /\ Eval(Deriv([Mk("pow", B(S3, "R"), E1) EXCEPT !.n = 2], << RV(<<1, 2, 3>>) >>), << RV(<<1, 1, 1>>) >>) = << RV(<<2, 4, 6>>) >>
  /\ Eval([Mk("inner", B(S3, "R"), E1) EXCEPT !.v = << RV(<<1, 2, 3>>) >>], << RV(<<1, 2, 3>>) >>) = << <<R(14)>> >>
  /\ Eval(Deriv([Mk("dist", B(S2, "R"), E1) EXCEPT !.v = << RV(<<1, 1>>) >>], << RV(<<2, 1>>) >>), << RV(<<1, 0>>) >>) = << <<R(1)>> >>
  /\ Eval(Deriv(Mk("norm", B(S3, "R"), E1), << RV(<<1, 0, 0>>) >>), << RV(<<1, 0, 0>>) >>) = << <<R(1)>> >>
  /\ Eval(Adj([Mk("mul", B(S3, "C"), E1) EXCEPT !.v = << <<R(1), Z(0, 1), Z(1, -1)>> >>]), << RV(<<1, 1, 1>>) >>) = << <<R(1), Z(0, -1), Z(1, 1)>> >>
  /\ Eval([Mk("cemb", B(S3, "C"), E1) EXCEPT !.a = Z(1, 2)], << <<Z(1, 1), Z(2, 2), Z(3, 3)>> >>) = << <<Z(-1, 3), Z(-2, 6), Z(-3, 9)>> >>
  /\ Eval(Deriv(Mk("cmod", B(S2, "C"), E1), << <<Z(3, 4), R(2)>> >>), << <<Z(2, 1), Z(0, 4)>> >>) = << RV(<<2, 0>>) >>
  /\ Eval(Adj(Deriv(Mk("cmod", B(S2, "C"), E1), << <<Z(3, 4), R(2)>> >>)), << RV(<<5, 5>>) >>) = << <<Z(3, 4), R(5)>> >>
  /\ Eval(Deriv(Mk("cmod2", B(S2, "C"), E1), << <<Z(3, 4), R(2)>> >>), << <<Z(2, 1), Z(0, 4)>> >>) = << RV(<<20, 0>>) >>
  /\ Eval(Adj(Deriv(Mk("cmod2", B(S2, "C"), E1), << <<Z(3, 4), R(2)>> >>)), << RV(<<2, 1>>) >>) = << <<Z(12, 16), R(4)>> >>
  /\ Eval(Inv([Mk("reim", B(S3, "C"), E1) EXCEPT !.a = CZero, !.b = COne]), << RV(<<2, 0, -1>>) >>) = << <<Z(0, 2), R(0), Z(0, -1)>> >>
ExamplesHold == (chain = <<>> /\ root = CHOOSE r \in MC_Roots : TRUE) => DocExamples(0)

(* ------------------------- non-vacuity probes ---------------------------- *)
\* NOT a law: the plain inverse (without the documented factor 1 / cell_volume) is not the adjoint of the flattening on a
\* discretised space.  TLC must produce a counter-example (the harness fails if it does not).
BogusFlatAdjointIsInverse ==
  (Live /\ cur.k = "flat" /\ chain = <<>>) =>
     \A x \in EvalPts(Dom(cur)), y \in EvalPts(Ran(cur)) :
        InnerSp(Ran(cur), cur.env, cur.pw, Eval(cur, x), y) = InnerSp(Dom(cur), cur.env, cur.pw, x, Eval(Inv(cur), y))

(* -------------------------------- export -------------------------------- *)
SeqOf(S) == LET RECURSIVE F(_) F(U) == IF U = {} THEN <<>> ELSE LET x == CHOOSE x \in U : TRUE IN <<x>> \o F(U \ {x}) IN F(S)
RECURSIVE Meaning(_, _)
Meaning(r, ch) == IF ch = <<>> THEN NormRoot(r) ELSE Apply(Meaning(r, SubSeq(ch, 1, Len(ch) - 1)), ch[Len(ch)])
CurIsMeaning == cur = Meaning(root, chain)

Line ==
  IF ~cur.ok THEN [root |-> root, chain |-> chain, ok |-> FALSE, why |-> cur.why]
  ELSE LET pts == SeqOf(Pts(cur))
       IN  [root |-> root, chain |-> chain, ok |-> TRUE, why |-> "", k |-> cur.k, dom |-> Dom(cur), ran |-> Ran(cur),
            lin |-> Linear(cur), pw |-> Pw(cur), pts |-> pts, vals |-> [q \in 1..Len(pts) |-> Eval(cur, pts[q])]]

Export == Serialize(ToJson(Line) \o "\n", IOEnv.OUT_FILE,
                    [format |-> "TXT", charset |-> "UTF-8",
                     openOptions |-> <<"WRITE", "CREATE", "APPEND">>]).exitValue = 0
=============================================================================

SPECIFICATION Spec
CONSTRAINT Export

------------------------------- MODULE MC_Rot -------------------------------
(* bounded instance of RotMachine + per-state export (history, expected M, p, q) *)
EXTENDS RotMachine, Json, IOUtils
Thorough == IOEnv.ROT_TIER = "thorough"
I(n) == QI(n)
MC_Axes == {E3(1), E3(2), E3(3), <<Q(1, 3), Q(2, 3), Q(2, 3)>>, <<Q(-2, 3), Q(1, 3), Q(2, 3)>>}
           \cup (IF Thorough THEN {<<Q(2, 7), Q(3, 7), Q(6, 7)>>, <<QZero, Q(3, 5), Q(-4, 5)>>} ELSE {})
MC_Angles == {<<QZero, QOne>>, <<I(-1), QZero>>, <<Q(3, 5), Q(4, 5)>>, <<Q(4, 5), Q(-3, 5)>>}
             \cup (IF Thorough THEN {<<QZero, I(-1)>>, <<Q(-3, 5), Q(4, 5)>>, <<Q(5, 13), Q(12, 13)>>} ELSE {})
MC_Shifts == {NONE, <<I(1), QZero, I(2)>>} \cup (IF Thorough THEN {<<I(-1), I(2), QZero>>} ELSE {})
MC_Targets == {E3(1), E3(3), <<Q(2, 3), Q(-1, 3), Q(2, 3)>>, <<Q(1, 3), Q(2, 3), Q(2, 3)>>}
              \cup (IF Thorough THEN {<<QZero, Q(4, 5), Q(3, 5)>>} ELSE {})
A34 == <<Q(3, 5), Q(4, 5)>>
A90 == <<QZero, QOne>>
MC_EulerSet == {<<A90, A90, CsZero>>, <<A34, A90, A90>>, <<A90, A34, CsZero>>, <<CsZero, A90, A34>>,
                <<A34, <<I(-1), QZero>>, A90>>}
               \cup (IF Thorough THEN {<<A34, A34, CsZero>>, <<A90, <<Q(4, 5), Q(-3, 5)>>, A34>>} ELSE {})
MC_P0 == <<I(1), I(2), I(2)>>
MC_Q0 == <<QZero, QZero, QZero>>
MC_MaxLen == IF IOEnv.ROT_DEPTH = "3" THEN 3 ELSE 2
MC_Budget == 3000
Export == Serialize(ToJson([hist |-> hist, M |-> M, p |-> p, q |-> q]) \o "\n", IOEnv.OUT_FILE,
                    [format |-> "TXT", charset |-> "UTF-8",
                     openOptions |-> <<"WRITE", "CREATE", "APPEND">>]).exitValue = 0
=============================================================================

---------------------------- MODULE MC_OpMachine ----------------------------
(* Bounded instances of OpMachine and the per-program export (one JSON line  *)
(* per complete program with everything layer A says about it).             *)
EXTENDS OpMachine, Json, IOUtils, TLC

RW == INSTANCE RewriteImpl WITH RmulBug <- (IOEnv.OM_RMULBUG = "1")

Profile == IOEnv.OM_PROFILE        \* "R" | "RW" | "C" | "M" (complex space V next to its real space VR)
Size    == IOEnv.OM_SIZE           \* "s" | "m" | "l"
R(n)     == CInt(n)
RQ(n, d) == CR(Q(n, d))
Z(a, b)  == <<QI(a), QI(b)>>
Mixed == Profile = "M"
Cplx == Profile \in {"C", "M"}
Small == Size \in {"s", "l"}      \* small alphabets: exhaustive quick runs and deep simulation

MC_W == IF Profile = "RW" THEN <<Q(2, 1), Q(1, 2)>> ELSE <<QOne, QOne>>
MC_Scal == IF Cplx THEN (IF Small THEN {R(0), R(2), Z(0, 1)} ELSE {R(0), R(1), R(2), Z(0, 1), Z(1, -1)})
           ELSE (IF Small THEN {R(0), R(2), R(-1)} ELSE {R(0), R(1), R(2), R(-1), RQ(1, 2)})
MC_Vecs == IF Mixed THEN {<<Z(1, 1), R(2)>>, <<R(3), R(-1)>>}       \* one complex and one real vector operand
           ELSE IF Cplx THEN (IF Small THEN {<<Z(1, 1), R(2)>>} ELSE {<<Z(1, 1), R(2)>>, <<R(-1), Z(0, 2)>>})
           ELSE (IF Small THEN {<<R(3), R(-1)>>} ELSE {<<R(3), R(-1)>>, <<R(-2), RQ(1, 2)>>})
MC_Mats == IF Cplx THEN {<<<<R(1), Z(0, 1)>>, <<R(0), R(2)>>>>}
           ELSE (IF Small THEN {<<<<R(1), R(2)>>, <<R(0), R(-1)>>>>}
                 ELSE {<<<<R(1), R(2)>>, <<R(0), R(-1)>>>>, <<<<R(0), R(-1)>>, <<R(1), R(0)>>>>})
MC_LeafSet == IF Mixed THEN {"id", "scale", "mulvec", "sq", "shift", "cmod2", "sqr"}
              ELSE IF Cplx THEN {"id", "scale", "mat", "mulvec", "zero", "inner", "sq", "const", "shift", "l2sq", "smul", "swap"}
              ELSE {"id", "scale", "mat", "mulvec", "zero", "inner", "sq", "const", "shift", "l2sq", "l1", "smul", "swap", "rpart", "linfn"}
MC_UnSet == {"neg", "lscal", "rscal", "rdiv", "addscal", "lvec", "flvm", "rvec", "addvec", "raddvec", "rsubvec", "subvec", "pow"}
MC_BinSet == {"sum", "sub", "comp"}
MC_MaxSteps == IF Size = "l" THEN 7 ELSE IF Size = "m" THEN 4 ELSE 3
MC_MaxHeight == 2

\* ---- export of complete programs ------------------------------------------------
DPairsV == { <<x, d>> : x \in {<<R(1), R(2)>>}, d \in {<<R(1), R(-1)>>} }
DPairsS == { <<x, d>> : x \in {<<R(2)>>}, d \in {<<R(3)>>} }
SeqOf(S) == LET RECURSIVE F(_) F(T) == IF T = {} THEN <<>> ELSE LET x == CHOOSE x \in T : TRUE IN <<x>> \o F(T \ {x}) IN F(S)

\* mixed fields: a complex space is also probed at a genuinely complex point
MPts(s) == IF Mixed /\ s = "V" THEN Pts(s) \cup {<<Z(1, 1), Z(0, -2)>>} ELSE Pts(s)
Line(e) ==
  LET pts == SeqOf(MPts(Dom(e)))
      lin == IsLinear(e)
      dg  == Deg(e)
      M   == IF lin THEN MatOf(e) ELSE <<>>
      wd == WOf(Dom(e)) wr == WOf(Ran(e))
      \* reference adjoint from the matrix already computed: N = Gd^-1 M^H Gr
      N   == IF lin THEN [i \in 1..VecLenOf(Dom(e)) |-> [j \in 1..VecLenOf(Ran(e)) |->
                            CScal(QDiv(wr[j], wd[i]), CConj(M[j][i]))]] ELSE <<>>
      dps == IF dg <= 4 /\ ~lin THEN SeqOf(IF IsVecSp(Dom(e)) THEN DPairsV ELSE DPairsS) ELSE <<>>
  IN [prog |-> e, dom |-> Dom(e), ran |-> Ran(e), lin |-> lin, deg |-> dg,
      semlin |-> SemLin(e), supported |-> Supported(e),
      pts |-> pts, vals |-> [i \in 1..Len(pts) |-> Eval(e, pts[i])],
      mat |-> M, adj |-> N,
      dpairs |-> dps,
      dd |-> [i \in 1..Len(dps) |-> DirDeriv(e, dps[i][1], dps[i][2])]]

Export ==
  IF Complete
    THEN \/ Serialize(ToJson(Line(Top)) \o "\n", IOEnv.OUT_FILE,
                      [format |-> "TXT", charset |-> "UTF-8",
                       openOptions |-> <<"WRITE", "CREATE", "APPEND">>]).exitValue = 0
         \* a line that cannot be evaluated (a value leaves TLC's 32-bit integers) or written makes Serialize fail: say
         \* so instead of dropping the program without a trace (a constraint that is merely FALSE would); the harness
         \* counts these markers and refuses a run in which more than a small share of the programs is lost
         \/ PrintT(<<"EXPORT-DROPPED", Top.t>>)
    ELSE TRUE
\* layer C refines layer A: the class tree the overloads build evaluates to the documented table.
\* With the pinned tree's __rmul__ slip (OM_RMULBUG=1) the composed class tree can be ill-typed; the
\* refinement statement is then restricted to probe evaluations that are defined (same lengths).
RewriteRefines ==
  (Complete /\ Supported(Top)) =>
     \A x \in Pts(Dom(Top)) : RW!EvalC(RW!Rewrite(Top), x) = Eval(Top, x)
RewriteLinFlag ==
  (Complete /\ Supported(Top) /\ IsLinear(Top)) => RW!CLin(RW!Rewrite(Top))
=============================================================================

------------------------------ MODULE MC_DFTSem ------------------------------
(* Case enumeration for DFTSem (C18 part a): one state per transform        *)
(* configuration, no transitions.  Two uses:                                *)
(*   MC_DFTSem_laws.cfg    laws of the reference tables (round trip as the  *)
(*                         exact root-of-unity sum rule, Hermitian symmetry)*)
(*   MC_DFTSem_export.cfg  one JSON line per configuration with the         *)
(*                         expected tables, replayed on real ODL operators  *)
EXTENDS DFTSem, Json, IOUtils

ToInt(s) == CHOOSE n \in 0..64 : ToString(n) = s
MaxN1   == ToInt(IOEnv.C18_MAXN1)      \* largest axis length in 1-d
MaxN2   == ToInt(IOEnv.C18_MAXN2)      \* largest axis length in 2-d (0: no 2-d cases)
Kind    == IOEnv.C18_KIND              \* "dft" | "ft"
X0Tags  == IF IOEnv.C18_X0 = "all" THEN {"sym", "pos", "third"} ELSE {"sym", "pos"}

Shapes == {<<n>> : n \in 1..MaxN1} \cup {<<n1, n2>> : n1 \in 1..MaxN2, n2 \in 1..MaxN2}
AxesOf(nd) == IF nd = 1 THEN {<<0>>} ELSE {<<0>>, <<1>>, <<0, 1>>, <<1, 0>>}

X0Of(tag, n) == CASE tag = "sym"   -> Q(1 - n, 2)      \* domain symmetric about 0 (cell-centred nodes)
                  [] tag = "pos"   -> Q(1, 2)          \* domain [0, L]
                  [] tag = "int"   -> Q(-1, 1)         \* nodes on integer multiples of the stride
                  [] tag = "third" -> Q(1, 3)

VARIABLES shape, axes, sign, hc, shifts, x0tag, stage
vars == <<shape, axes, sign, hc, shifts, x0tag, stage>>

\* two levels so that TLC's workers share the configurations: the initial states fix the shape
\* (stage 0, nothing is checked or exported), their successors are the complete configurations
Init ==
  /\ shape \in Shapes
  /\ stage = 0
  /\ axes = <<0>> /\ sign = -1 /\ hc = FALSE /\ shifts = <<TRUE>> /\ x0tag = "none"
Choose ==
  /\ stage = 0
  /\ stage' = 1
  /\ shape' = shape
  /\ axes' \in AxesOf(Len(shape))
  /\ sign' \in {-1, 1}
  /\ hc' \in BOOLEAN
  /\ hc' => sign' = -1                                \* sign '+' is rejected for half-complex transforms
  /\ IF Kind = "ft"
       THEN /\ shifts' \in [1..Len(axes') -> BOOLEAN]
            /\ hc' => shifts'[Len(axes')]             \* halved axis must be shifted (documented)
            /\ x0tag' \in X0Tags
       ELSE /\ shifts' = [i \in 1..Len(axes') |-> TRUE]
            /\ x0tag' = "none"
Next == Choose
Spec == Init /\ [][Next]_vars
Full == stage = 1

X0 == [i \in 1..Len(axes) |-> X0Of(x0tag, AxLen(shape, axes, i))]

(* --------------------------------- laws -------------------------------- *)
RoundTripLaw == (Full /\ ~hc /\ Kind = "dft") => RoundTripExact(shape, axes, sign)
\* the same law for the phases of the continuous transform (the magnitudes mag_k and 1/(N mag_k) cancel)
FTRoundTripLaw ==
  (Full /\ ~hc /\ Kind = "ft" /\ x0tag = "sym") =>      \* the x0 phases cancel in the product
    LET M   == FTPeriod(shape, axes, X0)
        red == RedTab(M, Cyclo(M))
        F   == FTPhaseExp(shape, axes, sign, FALSE, shifts, X0)
        G   == IFTPhaseExp(shape, axes, -sign, shifts, X0)
        n   == Prod(shape)
        N   == NTrans(shape, axes)
    IN  \A j2 \in 1..n : \A j \in 1..n :
          LET exps == Tup([k \in 1..n |-> IF G[j2][k] = -1 \/ F[k][j] = -1 THEN -1
                                          ELSE (G[j2][k] + F[k][j]) % M])
          IN  RootSumIs(exps, red, IF j2 = j THEN N ELSE 0)
HermitianLaw == (Full /\ hc /\ Kind = "dft") => HermitianOK(shape, axes)
GridLaw      == Full => \A i \in 1..Len(shape) : RecipGridLaws(shape[i])
\* the continuous transform is the DFT conjugated by diagonal phases: for a domain whose first node
\* is the origin (x0 = 0) and a shifted grid the column j = 0 has phase 0 in every row
ZeroColumnLaw ==
  (Full /\ Kind = "ft") =>
    LET P == FTPhaseExp(shape, axes, sign, hc, shifts, [i \in 1..Len(axes) |-> <<0, 1>>])
    IN  \A k \in 1..Len(P) : P[k][1] \in {0, -1}

(* ------------- layer C against layer A on complete multi-axis tables ------------- *)
\* the implementation-shaped per-axis model (reciprocal_grid points, pre / post phase vectors, FFT
\* direction) assembled over all transformed axes gives exactly the reference phase table
RG == INSTANCE RecipGridImpl WITH MaxN <- 0, X0Set <- {}, Fixed <- FALSE,
                                  n <- 0, shift <- FALSE, halved <- FALSE, sign <- 0, r <- <<0, 1>>
ImplEntry(M, kk, jj) ==
  IF \E a \in 1..Len(shape) : (a - 1) \notin AxSet(axes) /\ kk[a] # jj[a] THEN -1
  ELSE LET turn == QSumSeq([i \in 1..Len(axes) |->
                     RG!Impl_turn(AxLen(shape, axes, i), shifts[i], hc /\ i = Len(axes), sign, X0[i],
                                  kk[axes[i] + 1], jj[axes[i] + 1])])
           t == RG!Frac(turn)
       IN  IF M % t[2] # 0 THEN -4 ELSE t[1] * (M \div t[2])
ImplTableRefines ==
  (Full /\ Kind = "ft") =>
    LET M  == FTPeriod(shape, axes, X0)
        KK == AllIdx(RanShape(shape, axes, hc))
        JJ == AllIdx(shape)
        P  == FTPhaseExp(shape, axes, sign, hc, shifts, X0)
    IN  \A k \in 1..Len(KK) : \A j \in 1..Len(JJ) : ImplEntry(M, KK[k], JJ[j]) = P[k][j]

(* -------------------------------- export ------------------------------- *)
Line ==
  IF Kind = "dft"
    THEN [kind |-> "dft", shape |-> shape, axes |-> axes, sign |-> sign, hc |-> hc,
          M |-> DFTPeriod(shape, axes), N |-> NTrans(shape, axes),
          ranshape |-> RanShape(shape, axes, hc),
          tab |-> DFTExp(shape, axes, sign, hc),
          inv |-> IF hc THEN <<>> ELSE IDFTExp(shape, axes, -sign)]
    ELSE [kind |-> "ft", shape |-> shape, axes |-> axes, sign |-> sign, hc |-> hc,
          shifts |-> shifts, x0 |-> X0, x0tag |-> x0tag,
          M |-> FTPeriod(shape, axes, X0), N |-> NTrans(shape, axes),
          ranshape |-> RanShape(shape, axes, hc),
          tab |-> FTPhaseExp(shape, axes, sign, hc, shifts, X0),
          inv |-> IF hc THEN <<>> ELSE IFTPhaseExp(shape, axes, -sign, shifts, X0),
          freqs |-> FTRowFreqs(shape, axes, hc, shifts)]
Export ==
  (~Full) \/
  Serialize(ToJson(Line) \o "\n", IOEnv.OUT_FILE,
            [format |-> "TXT", charset |-> "UTF-8",
             openOptions |-> <<"WRITE", "CREATE", "APPEND">>]).exitValue = 0
=============================================================================

SPECIFICATION Spec
CONSTANTS
  Geoms <- MC_Geoms
  AnglesOf <- MC_AnglesOf
  ParamsOf <- MC_ParamsOf
INVARIANT PropertyOK

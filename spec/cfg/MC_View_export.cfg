SPECIFICATION Spec
CONSTANTS
  InitSt <- MC_Init
  MaxLen <- MC_MaxLen
  MaxObj <- MC_MaxObj
  Alph <- MC_Alph
CONSTRAINT Export
INVARIANT ViewLaw
PROPERTY Frame
PROPERTY ObjFrame
PROPERTY Stable
PROPERTY DocTable
PROPERTY ReadBack
PROPERTY ReturnsOut

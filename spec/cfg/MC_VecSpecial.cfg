SPECIFICATION Spec
INVARIANT SelfConsistent
CONSTRAINT ExportLine
CHECK_DEADLOCK FALSE

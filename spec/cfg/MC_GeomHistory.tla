--------------------------- MODULE MC_GeomHistory ---------------------------
(* Histories of GeomHistory: the reference (nothing shared), the layer-C model   *)
(* of the current implementation, and the export of every history for replay.    *)
EXTENDS GeomHistory, TLC, Json, IOUtils

MC_Inputs == {"axis", "det_pos_init", "det_axes_init", "src_to_det_init", "translation", "init_matrix", "angles"}
\* (the angle grid geom.angles is the partition's coordinate vector -- a convention of odl.discr, not of the
\* geometry classes -- and is therefore only exercised as a caller-owned INPUT)
MC_Attrs == {"attr:translation", "attr:axis", "attr:det_pos_init", "attr:det_axes_init", "attr:src_to_det_init"}
MC_Results == {"result:rotation_matrix", "result:det_refpoint", "result:det_point_position", "result:det_axes",
               "result:src_position"}
MC_MaxMut == IF IOEnv.GEOM_TIER = "thorough" THEN 2 ELSE 2

Impl == IOEnv.GEOM_HISTORY_MODEL = "impl"
\* layer C, transcribed from the constructors / properties of the current tree:
\*   np.asarray(translation, dtype=float)           keeps a float64 array of the caller
\*   src_to_det_init /= norm (FanBeam, ConeBeam)    normalises the caller's array in place and keeps it
\*   frommatrix: init_matrix[:, :n], init_matrix[:, n:].squeeze()   views of the caller's matrix
\*   properties return the internal arrays themselves
Fixed(name) == name = "1"
MC_InputByRef == IF ~Impl \/ Fixed(IOEnv.GEOM_FIXED_INPUT_ALIAS) THEN {}
                 ELSE {"translation", "src_to_det_init", "init_matrix"}
MC_AttrByRef == IF ~Impl \/ Fixed(IOEnv.GEOM_FIXED_ATTR_ALIAS) THEN {}
                ELSE {"attr:translation", "attr:axis", "attr:det_pos_init", "attr:det_axes_init", "attr:src_to_det_init"}
MC_ResultShared == {}

ExportLine ==
  Serialize(ToJson([hist |-> hist]) \o "\n", IOEnv.OUT_FILE,
            [format |-> "TXT", charset |-> "UTF-8", openOptions |-> <<"WRITE", "CREATE", "APPEND">>]).exitValue = 0
Export == Done => ExportLine
=============================================================================

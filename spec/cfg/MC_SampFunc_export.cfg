SPECIFICATION Spec
CONSTANTS
  Cases <- MC_Cases
  Objects <- MC_Objects
  HInputs <- MC_HInputs
  MaxLen <- MC_MaxLen
INVARIANT CaseRefines
INVARIANT KnownTight
INVARIANT SemLaws
INVARIANT FdCaseRefines
INVARIANT FdDTypeCells
INVARIANT HistoryFree
CONSTRAINT Export

SPECIFICATION Spec
INVARIANT ProxLaw
INVARIANT ProxConjLaw
INVARIANT ConjL1IsProjection
INVARIANT Firm

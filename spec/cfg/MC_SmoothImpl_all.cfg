SPECIFICATION Spec
CONSTANTS
  Catalogue <- MC_Catalogue
  WithSplits <- MC_WithSplits
  TolInv <- MC_TolInv
  Quirks <- MC_Quirks
INVARIANT RefinesAll
INVARIANT LSRefinesAll

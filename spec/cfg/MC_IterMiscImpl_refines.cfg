SPECIFICATION Spec
CONSTANTS
  Cat <- MC_Cat
INVARIANT ImplRefines

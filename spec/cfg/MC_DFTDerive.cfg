SPECIFICATION Spec
CONSTANTS
  Bases <- MC_Bases
  MaxLen <- MC_MaxLen
CONSTRAINT Export
INVARIANT OptionsSurvive
INVARIANT IsChain
INVARIANT Involutive
INVARIANT Parity
INVARIANT FourierRole

SPECIFICATION Spec
CONSTANTS
  Cases <- MC_Cases
  MaxLen <- MC_MaxLen
  MaxAccel <- MC_MaxAccel
INVARIANT TypeOK
INVARIANT ZInv
INVARIANT PdhgDirectOK
INVARIANT PesquetNoRelax
INVARIANT StepProducts
INVARIANT SaddleCasesOK
INVARIANT OneBlockIsPdhg
PROPERTY Frame
PROPERTY SaddleFixed
PROPERTY ResumeFrame

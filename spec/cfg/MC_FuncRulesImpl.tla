-------------------------- MODULE MC_FuncRulesImpl --------------------------
(***************************************************************************)
(* C against A for the functional rules: every finished program of the     *)
(* bounded FuncMachine is pushed through the transcribed ODL rules         *)
(* (FuncRulesImpl) and compared with the reference (FuncSem).  A mismatch  *)
(* does not stop TLC: it is printed as                                     *)
(*     <<"IMPL", space, shape, clauses>>                                   *)
(* (a design-level counter-example; it becomes a VIOLATION only through    *)
(* the replay of the same family on real ODL code).                        *)
(***************************************************************************)
EXTENDS MC_FuncMachine, FuncRulesImpl

RECURSIVE Shape(_)
Shape(f) == IF IsLeaf(f) THEN f.op
            ELSE IF Len(f.args) = 1 THEN f.op \o "(" \o Shape(Arg(f)) \o ")"
            ELSE f.op \o "(" \o Shape(Arg(f)) \o "," \o Shape(Arg2(f)) \o ")"
Say(bad) == IF bad = {} THEN TRUE ELSE PrintT(<<"IMPL", IOEnv.FM_SPACE, Shape(Top.f), bad>>)

ImplProx == Finished /\ ProxQueryable(Top) =>
  Say(UNION {ProxMismatch(Top.sp, Top.f, sg.v, x) :
               sg \in {sg \in Sigmas : sg.k = "s" \/ VecSigmaDocumented(Top.f)}, x \in Xs})
ImplConj == Finished /\ (ProxQueryable(Top) \/ Top.f.op = "InfConv") =>
  Say(ConjMismatch(Top.sp, Top.f, XsConj, Ys))
ImplGrad == Finished =>
  Say(GradMismatch(Top.sp, Top.f, PropXs) \cup LipMismatch(Top.sp, Top.f, PropXs))
=============================================================================

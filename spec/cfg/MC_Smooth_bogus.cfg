SPECIFICATION Spec
CONSTANTS
  Catalogue <- MC_Catalogue
  WithSplits <- MC_WithSplits
INVARIANT Bogus

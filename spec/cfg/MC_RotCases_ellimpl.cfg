SPECIFICATION Spec
INVARIANT EllImplRefines

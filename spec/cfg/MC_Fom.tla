------------------------------- MODULE MC_Fom -------------------------------
(***************************************************************************)
(* Bounded instances of FomMachine.  IOEnv.FOM_GROUP selects the function  *)
(* group (one TLC process per group), IOEnv.FOM_TIER = "thorough" widens   *)
(* the data pools.  ExportCase writes one JSON line per case with the      *)
(* documented outcomes (layer A) and the outcome of the code model (C).    *)
(***************************************************************************)
EXTENDS FomMachine, Json, IOUtils

Thorough == IOEnv.FOM_TIER = "thorough"
Group == IOEnv.FOM_GROUP
I(s) == [i \in 1..Len(s) |-> QI(s[i])]
H == <<1, 2>>

\* spaces: rn(4), uniform_discr(0, 8, 4) [cell 2], uniform_discr([0,0],[1,2],(2,2)) [cells 1/2 x 1], tensor (2,2),
\*         uniform_discr(0, 1, 2) [cell 1/2], rn(2)
Sp4 == {[cs |-> <<QOne>>, shape |-> <<4>>], [cs |-> <<QI(2)>>, shape |-> <<4>>],
        [cs |-> <<H, QOne>>, shape |-> <<2, 2>>]}
        \cup (IF Thorough THEN {[cs |-> <<QOne, QOne>>, shape |-> <<2, 2>>], [cs |-> <<H, H>>, shape |-> <<2, 2>>]} ELSE {})
Sp2 == {[cs |-> <<H>>, shape |-> <<2>>], [cs |-> <<QOne>>, shape |-> <<2>>]}
Img4 == {I(<<0, 0, 0, 0>>), I(<<3, 4, 0, 0>>), I(<<1, 1, 1, 1>>), I(<<1, -1, 1, -1>>), I(<<1, 1, 3, 3>>),
         I(<<1, 2, 2, 4>>)}
        \cup (IF Thorough THEN {I(<<0, 4, 3, 0>>), I(<<2, 0, 0, 0>>), I(<<-3, -3, 1, 1>>), I(<<6, 8, 0, 0>>),
                                <<H, H, H, H>>, I(<<5, 5, 5, 5>>)} ELSE {})
Img2 == {I(<<0, 0>>), I(<<1, 1>>), I(<<1, 7>>), I(<<3, 4>>), I(<<1, -1>>), I(<<6, 8>>)}
        \cup (IF Thorough THEN {I(<<0, 2>>), I(<<-7, -1>>), <<H, <<7, 2>>>>} ELSE {})
Msk4 == {<<>>, I(<<1, 1, 1, 1>>), I(<<1, 1, 0, 0>>), I(<<0, 1, 1, 0>>), I(<<2, 1, 0, 1>>), I(<<0, 0, 0, 0>>)}
Msk2 == {<<>>, I(<<1, 1>>), I(<<1, 0>>), I(<<0, 0>>)}
Bin4 == {<<>>, I(<<1, 1, 1, 1>>), I(<<1, 1, 0, 0>>), I(<<0, 1, 1, 0>>), I(<<0, 0, 0, 1>>)}
Bin2 == {<<>>, I(<<1, 1>>), I(<<1, 0>>)}

C(fn, sp, f, g, m, norm, flb, x) ==
  [fn |-> fn, cs |-> sp.cs, shape |-> sp.shape, f |-> f, g |-> g, m |-> m, norm |-> norm, flb |-> flb, x |-> x]

NormCases(fn) ==
  {C(fn, sp, f, g, m, nm, 0, <<>>) : sp \in Sp4, f \in Img4, g \in Img4, m \in Msk4, nm \in {0, 1}}
  \cup {C(fn, sp, f, g, m, nm, 0, <<>>) : sp \in Sp2, f \in Img2, g \in Img2, m \in Msk2, nm \in {0, 1}}
  \cup {C(fn, sp, f, g, m, nm, 1, <<>>) : sp \in Sp4, f \in Img4, g \in Img4, m \in {<<>>, I(<<1, 1, 0, 0>>)}, nm \in {0, 1}}
BlurCases ==
  {C("blur", sp, f, g, m, nm, 0, <<>>) : sp \in Sp4, f \in Img4, g \in Img4, m \in Bin4, nm \in {0, 1}}
  \cup {C("blur", sp, f, g, m, nm, 0, <<>>) : sp \in Sp2, f \in Img2, g \in Img2, m \in Bin2, nm \in {0, 1}}
PsnrCases ==
  {C("psnr", sp, f, g, <<>>, z, flb, <<>>) : sp \in Sp4, f \in Img4, g \in Img4, z \in {0, 1}, flb \in {0, 1}}
  \cup {C("psnr", sp, f, g, <<>>, z, flb, <<>>) : sp \in Sp2, f \in Img2, g \in Img2, z \in {0, 1}, flb \in {0, 1}}
  \cup {C("psnr", [cs |-> <<QOne>>, shape |-> <<5>>], f, g, <<>>, z, flb, <<>>) :
          f \in {I(<<1, 1, 1, 1, 1>>), I(<<0, 0, 0, 0, 5>>)}, g \in {I(<<1, 1, 1, 1, 2>>), I(<<0, 0, 0, 0, 5>>)},
          z \in {0, 1}, flb \in {0, 1}}
Dflt == <<-1, 1>>
SsimX == {<<H, H, QI(2)>>, <<H, H, Dflt>>, <<QOne, H, QOne>>} \cup (IF Thorough THEN {<<H, QOne, QI(4)>>} ELSE {})
SsimImg4 == {I(<<0, 0, 0, 0>>), I(<<3, 4, 0, 0>>), I(<<1, 1, 1, 1>>), I(<<1, -1, 1, -1>>), I(<<1, 1, 3, 3>>)}
SsimCases ==
  {C("ssim1", sp, f, g, <<>>, nm, flb, x) : sp \in Sp4, f \in SsimImg4, g \in SsimImg4, nm \in {0, 1}, flb \in {0, 1},
                                            x \in SsimX}
ZCases == {C("zscore", sp, f, f, <<>>, 0, 0, <<>>) : sp \in Sp4, f \in Img4}
          \cup {C("zscore", sp, f, f, <<>>, 0, 0, <<>>) : sp \in Sp2, f \in Img2}
Fg4 == {I(<<0, 0, 1, 0>>), I(<<1, 0, 0, 1>>), I(<<1, 1, 1, 0>>), I(<<0, 0, 0, 0>>), I(<<1, 1, 1, 1>>),
        I(<<0, 2, 1, 0>>), I(<<0, 0, 0, 1>>), <<H, QOne, QZero, QZero>>}
FsmCases == {C("fsm", sp, f, f, <<>>, tn, 0, <<>>) : tn \in {0, 1}, sp \in Sp4 \cup {[cs |-> <<QOne, QOne>>, shape |-> <<2, 2>>]}, f \in Fg4}
            \cup {C("fsm", [cs |-> <<<<1, 5>>>>, shape |-> <<5>>], f, f, <<>>, 0, 0, <<>>) :
                    f \in {I(<<0, 0, 1, 0, 0>>), I(<<1, 0, 0, 0, 0>>), I(<<1, 0, 0, 0, 1>>)}}
            \cup {C("fsm", [cs |-> <<H, <<1, 3>>>>, shape |-> <<2, 3>>], f, f, <<>>, 0, 0, <<>>) :
                    f \in {I(<<1, 0, 0, 0, 0, 0>>), I(<<0, 0, 0, 0, 1, 0>>), I(<<1, 0, 0, 0, 0, 1>>), I(<<0, 1, 1, 1, 1, 1>>)}}
SepImg == {I(<<1, 2, 3, 4, 0, -1, 2, 5, 3, 1, 0, 7>>), I(<<0, 0, 0, 0, 0, 1, 0, 0, 0, 0, 0, 0>>)}
SepFh == {I(<<1>>), I(<<1, 2>>), I(<<1, 0, -1>>)}
SepFv == {I(<<1>>), I(<<1, -1>>), I(<<1, 2, 3>>), I(<<1, 1, 1, 1>>)}
RdIdxCases == {C("rdidx", [cs |-> <<QOne>>, shape |-> <<4>>], f, g, ix, nm, 0, <<>>) :
                 f \in Img4, g \in Img4, nm \in {0, 1}, ix \in {I(<<0, 2, 3>>), I(<<3, 1>>), I(<<2>>), I(<<0, 1, 1, 0>>), I(<<1, 1, 2, 2, 3>>)}}
SepCases == {C("sep2d", [cs |-> <<QOne, QOne>>, shape |-> <<3, 4>>], im, fh, fv, p, 0, <<>>) :
               im \in SepImg, fh \in SepFh, fv \in SepFv, p \in {-1, 0, 1, 3}}

MC_Cases ==
  CASE Group = "mse" -> NormCases("mse")
    [] Group = "mae" -> NormCases("mae")
    [] Group = "mvd" -> NormCases("mvd")
    [] Group = "sdd" -> NormCases("sdd")
    [] Group = "rd" -> NormCases("rd")
    [] Group = "blur" -> BlurCases
    [] Group = "psnr" -> PsnrCases \cup ZCases
    [] Group = "ssim" -> SsimCases
    [] Group = "misc" -> FsmCases \cup SepCases \cup RdIdxCases
    [] OTHER -> {}

ASSUME LawDocExamples(0)

SetToSeq(S) == LET RECURSIVE go(_) go(T) == IF T = {} THEN <<>> ELSE LET x == CHOOSE y \in T : TRUE IN <<x>> \o go(T \ {x}) IN go(S)
ExportCase ==
  Serialize(ToJson([c |-> case, al |-> SetToSeq(Allowed(case)),
                    im |-> SetToSeq(IF HasImpl(case) THEN Impl(case) ELSE ANY)]) \o "\n", IOEnv.OUT_FILE,
            [format |-> "TXT", charset |-> "UTF-8", openOptions |-> <<"WRITE", "CREATE", "APPEND">>]).exitValue = 0
=============================================================================
